(* C04 — the class of programs for which the pinned frontend is also COMPLETE (accepts every
   well-formed program): programs in which no declaration re-uses a name that is visible at that
   point ("shadow free") and no declared name is the name of a Kombination of the imported module.
   Definitions only.

   Why a restriction is needed: the pinned typechecker looks names up again in the symbol tables
   as they are when it re-visits a nested block (MiniCheck.q_tc_by_name), so a later declaration
   that shadows a name the block has already used changes the meaning of the earlier use, and a
   well-formed program is rejected (MiniCompleteProofs.check_complete_refuted). *)
From Coq Require Import List Arith Bool.
Import ListNotations.
From DDP Require Import Lang.MiniSyntax Lang.MiniTyping.

Definition is_struct_name (M : imod) (x : name) : bool :=
  match struct_of M x with Some _ => true | None => false end.

(* x may be declared here: it is bound nowhere in the scope chain and is not a Kombination name *)
Definition fresh_ok (M : imod) (G : env) (x : name) : bool :=
  match lookup G x with None => negb (is_struct_name M x) | Some _ => false end.

Fixpoint sf_stmt (M : imod) (G : env) (s : stmt) : option env :=
  match s with
  | SVar _ t x _ => if fresh_ok M G x then Some (bind G x (BVar t)) else None
  | SConst _ x l => if fresh_ok M G x then Some (bind G x (BConst (lit_ty l))) else None
  | SIf _ th el =>
      match sf_block M (push G) th, sf_block M (push G) el with
      | Some _, Some _ => Some G
      | _, _ => None
      end
  | SWhile _ b | SBlock b | SRepeat b _ | SDoWhile b _ => match sf_block M (push G) b with Some _ => Some G | None => None end
  | SForEach _ t x _ b =>
      if fresh_ok M G x
      then match sf_block M (bind (push G) x (BVar t)) b with Some _ => Some G | None => None end
      else None
  | SFor _ t x _ _ _ b =>
      if fresh_ok M G x
      then match sf_block M (bind (push G) x (BVar t)) b with Some _ => Some G | None => None end
      else None
  | _ => Some G
  end
with sf_block (M : imod) (G : env) (b : block) : option env :=
  match b with
  | BNil => Some G
  | BCons s r => match sf_stmt M G s with Some G1 => sf_block M G1 r | None => None end
  end.

Definition sf_fun (M : imod) (G : env) (f : fdecl) : bool :=
  negb (is_struct_name M (f_name f)) &&
  forallb (fun p => fresh_ok M G (pname p) && negb (Nat.eqb (pname p) (f_name f))) (f_params f) &&
  match sf_block M (param_scope f :: bind G (f_name f) BFun) (f_body f) with Some _ => true | None => false end.

Fixpoint sf_tops (M : imod) (G : env) (l : list top) : bool :=
  match l with
  | [] => true
  | TFun f :: r => sf_fun M G f && sf_tops M (bind G (f_name f) BFun) r
  | TStmt s :: r => match sf_stmt M G s with Some G1 => sf_tops M G1 r | None => false end
  end.

(* the module does not use the name of one of its Kombinationen for anything else *)
Definition mod_ok (M : imod) : bool :=
  forallb (fun d => match d with IStruct _ _ _ _ => true | _ => negb (is_struct_name M (idecl_name d)) end) M.

Definition shadow_free (p : prog) : bool :=
  mod_ok (p_mod p) &&
  match import_decls (p_mod p) (p_imp p) with
  | Some ds => sf_tops (p_mod p) [scope_of_decls ds] (p_tops p)
  | None => false
  end.
