(* C04 — a SMALL core of DDP that is sufficient for the static fault classes of the property
   ("statically ill-formed programs are never accepted").  Definitions only.

   Names are numbers (the renderer in checks/c04.py maps them to identifiers).  Literal VALUES are
   irrelevant for static well-formedness and are left out (the renderer picks a value per type).

   Correspondence with the concrete syntax (renderer):
     SVar a t x e        "<Der|Die|Das> <Typ> x ist <e>."
     SConst a x l        "<Die> Konstante x ist <l>."               (type = type of the literal)
     SAssign x e         "Speichere <e> in x."
     SIf c th el         "Wenn <c>, dann: <th> [Sonst: <el>]"       (el = BNil: no Sonst)
     SWhile c b          "Solange <c>, mache: <b>"
     SFor a t x f to st b "Für <jeden|jede|jedes> <Typ> x von <f> bis <to> [mit Schrittgröße <st>], mache: <b>"
     SBreak / SContinue  "Verlasse die Schleife." / "Fahre mit der Schleife fort."
     SReturn (Some e)    "Gib <e> zurück."          SReturn None   "Verlasse die Funktion."
     SBlock b            ":" + indented block
     SCall f args        call of function f through its alias, as a statement
   A function is called through its alias; the alias table is global and is NOT shadowed by local
   names, which is why calls are resolved in a separate function table (MiniTyping.fenv). *)
From Coq Require Import List Arith Bool.
Import ListNotations.

Definition name := nat.

Inductive ty :=
| TZahl | TKomma | TByte | TBool | TChar | TText
| TList (e : ty)
| TStruct (s : name).          (* a Kombination declared by the imported module *)

(* Der / Die / Das; also used for einen / eine / ein and jeden / jede / jedes, and as the
   grammatical gender of a Kombination *)
Inductive article := Der | Die | Das.

Inductive lit := LZahl | LKomma | LBool | LChar | LText.

Inductive unop := UNot | UNeg | ULen.
Inductive binop :=
| BPlus | BMinus | BMal | BDurch | BMod
| BKleiner | BGroesser | BGleich | BUngleich
| BUnd | BOder
| BStelle                                    (* l an der Stelle i *)
| BVerkettet                                 (* a verkettet mit b *)
| BAb                                        (* l ab dem i. Element *)
| BBis.                                      (* l bis zum i. Element *)

Inductive expr :=
| ELit (l : lit)
| EEmpty (t : ty)                            (* eine leere <t> Liste *)
| EVar (x : name)
| EUn (o : unop) (e : expr)
| EBin (o : binop) (l r : expr)
| ECast (e : expr) (t : ty)                  (* e als t *)
| EField (f : name) (e : expr)               (* f von e *)
| ECall (f : name) (a : args)
| ESlice (l i j : expr)                      (* l im Bereich von i bis j *)
| EList (e : expr) (a : args)                (* eine Liste, die aus e, a.. besteht *)
with args :=
| ANil
| ACons (e : expr) (a : args).

Inductive stmt :=
| SVar (a : article) (t : ty) (x : name) (e : expr)
| SConst (a : article) (x : name) (l : lit)
| SAssign (x : name) (e : expr)
| SAssignIdx (x : name) (i e : expr)         (* Speichere e in x an der Stelle i. *)
| SAssignField (f x : name) (e : expr)       (* Speichere e in f von x. *)
| SIf (c : expr) (th el : block)
| SWhile (c : expr) (b : block)
| SFor (a : article) (t : ty) (x : name) (from to : expr) (step : option expr) (b : block)
| SForEach (a : article) (t : ty) (x : name) (e : expr) (b : block)    (* Für jede(n/s) t x in e, mache: *)
| SRepeat (b : block) (n : expr)             (* Wiederhole: b  n Mal. *)
| SDoWhile (b : block) (c : expr)            (* Mache: b  Solange c. *)
| SBreak
| SContinue
| SReturn (e : option expr)
| SBlock (b : block)
| SCall (f : name) (a : args)
with block :=
| BNil
| BCons (s : stmt) (b : block).

(* parameter: name, type, Referenz? *)
Definition param := (name * ty * bool)%type.

Record fdecl := {
  f_name : name;
  f_params : list param;
  f_ret : option (article * ty);             (* None: "gibt nichts zurück"; article = einen/eine/ein *)
  f_body : block
}.

Inductive top := TFun (f : fdecl) | TStmt (s : stmt).

(* the imported module, given by its declarations in source order *)
Inductive idecl :=
| IVar (pub : bool) (x : name) (t : ty)
| IConst (pub : bool) (x : name) (t : ty)
| IFun (pub : bool) (f : name) (ps : list (ty * bool)) (ret : option ty)
| IStruct (pub : bool) (s : name) (g : article) (fields : list (bool * name * ty))
(* a constructor alias of the Kombination s ("... und erstellen sie so: <alias with these fields>"): a Kombination
   literal is a call of c with one argument per listed field; c is usable wherever s is imported *)
| IAlias (c : name) (s : name) (fs : list name).

Definition imod := list idecl.

Inductive import :=
| ImpNone
| ImpAll                                     (* Binde "modul" ein. *)
| ImpSome (xs : list name).                  (* Binde a, b und c aus "modul" ein. *)

Record prog := {
  p_mod : imod;
  p_imp : import;
  p_tops : list top
}.

(* ---- decidable equalities ------------------------------------------------------------------ *)
Fixpoint ty_eqb (a b : ty) : bool :=
  match a, b with
  | TZahl, TZahl | TKomma, TKomma | TByte, TByte | TBool, TBool | TChar, TChar | TText, TText => true
  | TList x, TList y => ty_eqb x y
  | TStruct s, TStruct s' => Nat.eqb s s'
  | _, _ => false
  end.

Definition article_eqb (a b : article) : bool :=
  match a, b with Der, Der | Die, Die | Das, Das => true | _, _ => false end.

Definition lit_ty (l : lit) : ty :=
  match l with LZahl => TZahl | LKomma => TKomma | LBool => TBool | LChar => TChar | LText => TText end.

Definition numeric (t : ty) : bool :=
  match t with TZahl | TKomma | TByte => true | _ => false end.

Definition primitive (t : ty) : bool :=
  match t with TZahl | TKomma | TByte | TBool | TChar | TText => true | _ => false end.

Fixpoint alen (a : args) : nat := match a with ANil => 0 | ACons _ r => S (alen r) end.

Definition is_listb (t : ty) : bool := match t with TList _ => true | _ => false end.
Definition is_text (t : ty) : bool := match t with TText => true | _ => false end.
Definition textish (t : ty) : bool := match t with TText | TChar => true | _ => false end.
(* list or Text: what can be indexed, sliced, measured, iterated *)
Definition seqlike (t : ty) : bool := match t with TList _ | TText => true | _ => false end.
Definition lelem (t : ty) : ty := match t with TList e => e | _ => t end.            (* ddptypes.GetListElementType *)
Definition selem (t : ty) : ty := match t with TList e => e | _ => TChar end.        (* element of a list / character of a Text *)

(* ---- block helpers ------------------------------------------------------------------------- *)
Fixpoint block_app (a b : block) : block :=
  match a with BNil => b | BCons s r => BCons s (block_app r b) end.

Fixpoint block_last (b : block) : option stmt :=
  match b with
  | BNil => None
  | BCons s BNil => Some s
  | BCons _ r => block_last r
  end.

Definition is_return (s : stmt) : bool := match s with SReturn _ => true | _ => false end.
