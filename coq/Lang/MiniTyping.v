(* C04 — DECLARATIVE static semantics of the core (the specification), and its executable
   version `wfb` (proved equivalent in MiniTypingProofs.v; used by the harness as the oracle and by
   the fault injector for its side conditions).  Definitions only.

   Rules (DDP's static rules restricted to the core):
   * lexical scopes: a name is visible from its declaration to the end of the enclosing block;
     inner declarations shadow outer ones; one scope may declare a name only once; the
     initialiser of a declaration is outside the scope of the declared name;
   * functions are called through a global alias table (fenv), not through the scope chain;
     their NAMES still occupy the scope chain (one namespace for variables, constants,
     functions, Kombinationen);
   * operands / arguments / initialisers / assigned values / conditions / loop bounds /
     returned values have the types the tables below allow (numeric types convert implicitly in
     initialisation and assignment only);
   * a Konstante is neither assignable nor passable as Referenz;
   * break / continue only inside a loop (depth counter);
   * a function that returns a value ends in a return statement;
   * only public declarations of the imported module are importable, only public fields of its
     Kombinationen are accessible;
   * the article agrees with the grammatical gender of the type. *)
From Coq Require Import List Arith Bool.
Import ListNotations.
From DDP Require Import Lang.MiniSyntax.

(* ---- environments ---------------------------------------------------------------------------- *)
Inductive binding := BVar (t : ty) | BConst (t : ty) | BFun | BStruct.
Definition scope := list (name * binding).
Definition env := list scope.                       (* innermost scope first *)

Definition fsig := (list (ty * bool) * option ty)%type.
Definition fenv := list (name * fsig).

Fixpoint assoc {A} (x : name) (s : list (name * A)) : option A :=
  match s with
  | [] => None
  | (y, b) :: r => if Nat.eqb x y then Some b else assoc x r
  end.

Fixpoint lookup (G : env) (x : name) : option binding :=
  match G with
  | [] => None
  | s :: G' => match assoc x s with Some b => Some b | None => lookup G' x end
  end.

Definition in_top (G : env) (x : name) : bool :=
  match G with
  | [] => false
  | s :: _ => match assoc x s with Some _ => true | None => false end
  end.

Definition bind (G : env) (x : name) (b : binding) : env :=
  match G with
  | [] => [[(x, b)]]
  | s :: G' => ((x, b) :: s) :: G'
  end.

Definition push (G : env) : env := [] :: G.

Inductive retctx := RGlobal | RFun (r : option ty).

(* ---- the imported module ------------------------------------------------------------------- *)
Definition idecl_name (d : idecl) : name :=
  match d with IVar _ x _ | IConst _ x _ | IFun _ x _ _ | IStruct _ x _ _ | IAlias x _ _ => x end.
Definition idecl_pub (d : idecl) : bool :=
  match d with IVar p _ _ | IConst p _ _ | IFun p _ _ _ | IStruct p _ _ _ => p | IAlias _ _ _ => false end.
Definition idecl_binding (d : idecl) : binding :=
  match d with IVar _ _ t => BVar t | IConst _ _ t => BConst t | IFun _ _ _ _ | IAlias _ _ _ => BFun | IStruct _ _ _ _ => BStruct end.

Fixpoint find_pub (M : imod) (x : name) : option idecl :=
  match M with
  | [] => None
  | d :: r => if Nat.eqb (idecl_name d) x && idecl_pub d then Some d else find_pub r x
  end.

Fixpoint struct_of (M : imod) (s : name) : option (article * list (bool * name * ty)) :=
  match M with
  | [] => None
  | IStruct _ s' g fs :: r => if Nat.eqb s s' then Some (g, fs) else struct_of r s
  | _ :: r => struct_of r s
  end.

Fixpoint field_in (fs : list (bool * name * ty)) (f : name) : option (bool * ty) :=
  match fs with
  | [] => None
  | (p, g, t) :: r => if Nat.eqb f g then Some (p, t) else field_in r f
  end.

Definition field_of (M : imod) (s f : name) : option (bool * ty) :=
  match struct_of M s with Some (_, fs) => field_in fs f | None => None end.

(* Kombination literals: the constructor aliases of s, as functions from the listed fields' types to s *)
Fixpoint field_types (fields : list (bool * name * ty)) (fs : list name) : option (list (ty * bool)) :=
  match fs with
  | [] => Some []
  | f :: r => match field_in fields f, field_types fields r with
              | Some (_, t), Some ts => Some ((t, false) :: ts)
              | _, _ => None
              end
  end.

Fixpoint aliases_of (M0 : imod) (s : name) (fields : list (bool * name * ty)) : list (name * fsig) :=
  match M0 with
  | [] => []
  | IAlias c s' fs :: r =>
      if Nat.eqb s s'
      then match field_types fields fs with
           | Some ps => (c, (ps, Some (TStruct s))) :: aliases_of r s fields
           | None => aliases_of r s fields
           end
      else aliases_of r s fields
  | _ :: r => aliases_of r s fields
  end.

(* what an imported declaration adds to the alias table *)
Definition idecl_fun (M : imod) (d : idecl) : list (name * fsig) :=
  match d with
  | IFun _ f ps r => [(f, (ps, r))]
  | IStruct _ s _ fields => aliases_of M s fields
  | _ => []
  end.

(* grammatical gender of a type = the article it takes *)
Definition gender (M : imod) (t : ty) : option article :=
  match t with
  | TZahl | TKomma | TList _ => Some Die
  | TByte | TBool | TChar | TText => Some Der
  | TStruct s => match struct_of M s with Some (g, _) => Some g | None => None end
  end.

(* a type expression may only name Kombinationen that are visible *)
Fixpoint ty_ok (G : env) (t : ty) : bool :=
  match t with
  | TList e => ty_ok G e
  | TStruct s => match lookup G s with Some BStruct => true | _ => false end
  | _ => true
  end.

(* ---- operator tables, declaratively ------------------------------------------------------- *)
Definition is_arith (o : binop) : bool := match o with BPlus | BMinus | BMal => true | _ => false end.
Definition is_cmp (o : binop) : bool := match o with BKleiner | BGroesser => true | _ => false end.
Definition is_eq (o : binop) : bool := match o with BGleich | BUngleich => true | _ => false end.
Definition is_logic (o : binop) : bool := match o with BUnd | BOder => true | _ => false end.
Definition is_index (t : ty) : bool := match t with TZahl | TByte => true | _ => false end.

Definition is_slice1 (o : binop) : bool := match o with BAb | BBis => true | _ => false end.
(* verkettet builds a list unless it joins Text / Buchstabe operands one of which is a Text *)
Definition concat_is_list (a b : ty) : bool := is_listb a || is_listb b || negb (is_text a || is_text b).
(* what a for-each loop over a value of type te hands to a loop variable of type t *)
Definition iter_ok (te t : ty) : Prop := te = TList t \/ (te = TText /\ t = TChar).

Inductive un_ok : unop -> ty -> ty -> Prop :=
| U_not : un_ok UNot TBool TBool
| U_neg_zahl : un_ok UNeg TZahl TZahl
| U_neg_komma : un_ok UNeg TKomma TKomma
| U_neg_byte : un_ok UNeg TByte TZahl                 (* unsigned to signed *)
| U_len_list : forall t, un_ok ULen (TList t) TZahl
| U_len_text : un_ok ULen TText TZahl.

Inductive bin_ok : binop -> ty -> ty -> ty -> Prop :=
| B_arith_komma : forall o a b, is_arith o = true -> numeric a = true -> numeric b = true ->
                  (a = TKomma \/ b = TKomma) -> bin_ok o a b TKomma
| B_arith_zahl : forall o a b, is_arith o = true -> is_index a = true -> is_index b = true ->
                 (a = TZahl \/ b = TZahl) -> bin_ok o a b TZahl        (* a Byte is widened (since 5ca8f5e) *)
| B_arith_byte : forall o, is_arith o = true -> bin_ok o TByte TByte TByte
| B_durch : forall a b, numeric a = true -> numeric b = true -> bin_ok BDurch a b TKomma
| B_mod_zahl : forall a b, is_index a = true -> is_index b = true -> (a = TZahl \/ b = TZahl) -> bin_ok BMod a b TZahl
| B_mod_byte : bin_ok BMod TByte TByte TByte
| B_cmp : forall o a b, is_cmp o = true -> numeric a = true -> numeric b = true -> bin_ok o a b TBool
| B_eq : forall o a, is_eq o = true -> bin_ok o a a TBool
| B_logic : forall o, is_logic o = true -> bin_ok o TBool TBool TBool
| B_index_list : forall t i, is_index i = true -> bin_ok BStelle (TList t) i t
| B_index_text : forall i, is_index i = true -> bin_ok BStelle TText i TChar
| B_concat_text : forall a b, textish a = true -> textish b = true -> (a = TText \/ b = TText) -> bin_ok BVerkettet a b TText
| B_concat_list : forall a b, lelem a = lelem b -> concat_is_list a b = true -> bin_ok BVerkettet a b (TList (lelem a))
| B_slice : forall o a i, is_slice1 o = true -> seqlike a = true -> is_index i = true -> bin_ok o a i a.

Inductive cast_ok : ty -> ty -> Prop :=
| C_list : forall t, cast_ok t (TList t)                             (* one-element list *)
| C_zahl : forall s, primitive s = true -> cast_ok s TZahl
| C_komma : forall s, (s = TText \/ numeric s = true) -> cast_ok s TKomma
| C_byte : forall s, numeric s = true -> cast_ok s TByte
| C_bool : forall s, (s = TZahl \/ s = TBool \/ s = TByte) -> cast_ok s TBool
| C_char : forall s, (s = TZahl \/ s = TChar \/ s = TByte) -> cast_ok s TChar
| C_text : forall s, primitive s = true -> cast_ok s TText.

(* initialisation / assignment: same type, or both numeric *)
Definition assignable (src dst : ty) : Prop := src = dst \/ (numeric src = true /\ numeric dst = true).

(* ---- expressions --------------------------------------------------------------------------- *)
Inductive has_type (M : imod) (F : fenv) (G : env) : expr -> ty -> Prop :=
| T_lit : forall l, has_type M F G (ELit l) (lit_ty l)
| T_empty : forall t, ty_ok G t = true -> has_type M F G (EEmpty t) (TList t)
| T_var : forall x t, lookup G x = Some (BVar t) -> has_type M F G (EVar x) t
| T_const : forall x t, lookup G x = Some (BConst t) -> has_type M F G (EVar x) t
| T_un : forall o e t r, has_type M F G e t -> un_ok o t r -> has_type M F G (EUn o e) r
| T_bin : forall o l r a b c, has_type M F G l a -> has_type M F G r b -> bin_ok o a b c ->
          has_type M F G (EBin o l r) c
| T_cast : forall e s t, has_type M F G e s -> ty_ok G t = true -> cast_ok s t -> has_type M F G (ECast e t) t
| T_field : forall f e s t, has_type M F G e (TStruct s) -> field_of M s f = Some (true, t) ->
            has_type M F G (EField f e) t
| T_call : forall f a ps r, assoc f F = Some (ps, Some r) -> args_ok M F G a ps -> has_type M F G (ECall f a) r
| T_slice : forall l i j a ti tj, has_type M F G l a -> has_type M F G i ti -> has_type M F G j tj ->
            seqlike a = true -> is_index ti = true -> is_index tj = true -> has_type M F G (ESlice l i j) a
| T_list : forall e a t, has_type M F G e t -> is_listb t = false ->       (* since 030fcac the elements are no lists *)
           args_ok M F G a (repeat (t, false) (alen a)) -> has_type M F G (EList e a) (TList t)
with args_ok (M : imod) (F : fenv) (G : env) : args -> list (ty * bool) -> Prop :=
| A_nil : args_ok M F G ANil []
| A_val : forall e a t ps, has_type M F G e t -> args_ok M F G a ps -> args_ok M F G (ACons e a) ((t, false) :: ps)
| A_ref : forall x a t ps, lookup G x = Some (BVar t) -> args_ok M F G a ps ->
          args_ok M F G (ACons (EVar x) a) ((t, true) :: ps).

(* ---- statements ---------------------------------------------------------------------------- *)
Definition opt_numeric (M : imod) (F : fenv) (G : env) (o : option expr) : Prop :=
  match o with None => True | Some e => exists t, has_type M F G e t /\ numeric t = true end.

Inductive stmt_ok (M : imod) (F : fenv) : env -> nat -> retctx -> stmt -> env -> Prop :=
| S_var : forall G d r a t x e t0,
    ty_ok G t = true -> gender M t = Some a -> has_type M F G e t0 -> assignable t0 t -> in_top G x = false ->
    stmt_ok M F G d r (SVar a t x e) (bind G x (BVar t))
| S_const : forall G d r x l,
    in_top G x = false -> stmt_ok M F G d r (SConst Die x l) (bind G x (BConst (lit_ty l)))
| S_assign : forall G d r x e t t0,
    lookup G x = Some (BVar t) -> has_type M F G e t0 -> assignable t0 t -> stmt_ok M F G d r (SAssign x e) G
| S_assign_idx : forall G d r x i e tx ti t0,
    lookup G x = Some (BVar tx) -> seqlike tx = true -> has_type M F G i ti -> is_index ti = true ->
    has_type M F G e t0 -> assignable t0 (selem tx) -> stmt_ok M F G d r (SAssignIdx x i e) G
| S_assign_field : forall G d r f x e s tf t0,
    lookup G x = Some (BVar (TStruct s)) -> field_of M s f = Some (true, tf) ->
    has_type M F G e t0 -> assignable t0 tf -> stmt_ok M F G d r (SAssignField f x e) G
| S_if : forall G d r c th el G1 G2,
    has_type M F G c TBool -> block_ok M F (push G) d r th G1 -> block_ok M F (push G) d r el G2 ->
    stmt_ok M F G d r (SIf c th el) G
| S_while : forall G d r c b G1,
    has_type M F G c TBool -> block_ok M F (push G) (S d) r b G1 -> stmt_ok M F G d r (SWhile c b) G
| S_for : forall G d r a t x from to step b t0 t1 G1,
    ty_ok G t = true -> gender M t = Some a -> numeric t = true ->
    has_type M F G from t0 -> assignable t0 t ->
    has_type M F G to t1 -> numeric t1 = true ->
    opt_numeric M F G step ->
    block_ok M F (bind (push G) x (BVar t)) (S d) r b G1 ->
    stmt_ok M F G d r (SFor a t x from to step b) G
| S_foreach : forall G d r a t x e b te G1,
    ty_ok G t = true -> gender M t = Some a -> has_type M F G e te -> iter_ok te t ->
    block_ok M F (bind (push G) x (BVar t)) (S d) r b G1 -> stmt_ok M F G d r (SForEach a t x e b) G
| S_repeat : forall G d r b n tn G1,
    block_ok M F (push G) (S d) r b G1 -> has_type M F G n tn -> is_index tn = true -> stmt_ok M F G d r (SRepeat b n) G
| S_dowhile : forall G d r b c G1,
    block_ok M F (push G) (S d) r b G1 -> has_type M F G c TBool -> stmt_ok M F G d r (SDoWhile b c) G
| S_break : forall G d r, stmt_ok M F G (S d) r SBreak G
| S_continue : forall G d r, stmt_ok M F G (S d) r SContinue G
| S_return_val : forall G d e t, has_type M F G e t -> stmt_ok M F G d (RFun (Some t)) (SReturn (Some e)) G
| S_return_void : forall G d, stmt_ok M F G d (RFun None) (SReturn None) G
| S_block : forall G d r b G1, block_ok M F (push G) d r b G1 -> stmt_ok M F G d r (SBlock b) G
| S_call : forall G d r f a ps ro, assoc f F = Some (ps, ro) -> args_ok M F G a ps -> stmt_ok M F G d r (SCall f a) G
with block_ok (M : imod) (F : fenv) : env -> nat -> retctx -> block -> env -> Prop :=
| K_nil : forall G d r, block_ok M F G d r BNil G
| K_cons : forall G d r s b G1 G2, stmt_ok M F G d r s G1 -> block_ok M F G1 d r b G2 -> block_ok M F G d r (BCons s b) G2.

(* ---- functions, top level, imports --------------------------------------------------------- *)
Definition pname (p : param) : name := fst (fst p).
Definition ptype (p : param) : ty := snd (fst p).
Definition pref (p : param) : bool := snd p.

Definition sig_of (f : fdecl) : fsig :=
  (map (fun p => (ptype p, pref p)) (f_params f), option_map snd (f_ret f)).

(* a parameter may shadow a variable or constant, not a function or Kombination *)
Definition param_name_ok (G : env) (x : name) : bool :=
  match lookup G x with Some BFun | Some BStruct => false | _ => true end.

(* the scope of a function body: its parameters (a parameter named like the function itself is
   inaccessible), body declarations go into the same scope *)
Definition param_scope (f : fdecl) : scope :=
  map (fun p => (pname p, BVar (ptype p))) (filter (fun p => negb (Nat.eqb (pname p) (f_name f))) (f_params f)).

Definition ends_in_return (b : block) : Prop := exists s, block_last b = Some s /\ is_return s = true.

Definition ret_ok (M : imod) (G : env) (r : option (article * ty)) : Prop :=
  match r with None => True | Some (a, t) => ty_ok G t = true /\ gender M t = Some a end.

Inductive fun_ok (M : imod) (F : fenv) (G : env) (f : fdecl) : Prop :=
| Fun_ok : forall G1,
    lookup G (f_name f) = None ->
    NoDup (map pname (f_params f)) ->
    (forall p, In p (f_params f) -> param_name_ok G (pname p) = true /\ ty_ok G (ptype p) = true) ->
    ret_ok M G (f_ret f) ->
    block_ok M ((f_name f, sig_of f) :: F) (param_scope f :: bind G (f_name f) BFun) 0
             (RFun (option_map snd (f_ret f))) (f_body f) G1 ->
    (f_ret f <> None -> ends_in_return (f_body f)) ->
    fun_ok M F G f.

Inductive tops_ok (M : imod) : fenv -> env -> list top -> Prop :=
| Tops_nil : forall F G, tops_ok M F G []
| Tops_fun : forall F G f r, fun_ok M F G f ->
             tops_ok M ((f_name f, sig_of f) :: F) (bind G (f_name f) BFun) r -> tops_ok M F G (TFun f :: r)
| Tops_stmt : forall F G s r G1, stmt_ok M F G 0 RGlobal s G1 -> tops_ok M F G1 r -> tops_ok M F G (TStmt s :: r).

(* the global scope and the alias table after the import (the last imported declaration first; the order is
   irrelevant because the names are distinct) *)
Definition scope_of_decls (ds : list idecl) : scope := rev (map (fun d => (idecl_name d, idecl_binding d)) ds).
Definition funs_of_decls (M : imod) (ds : list idecl) : fenv := rev (flat_map (idecl_fun M) ds).

(* the declarations an import statement brings into the global scope *)
Inductive import_ok (M : imod) : import -> list idecl -> Prop :=
| Imp_none : import_ok M ImpNone []
| Imp_all : NoDup (map idecl_name (filter idecl_pub M)) -> import_ok M ImpAll (filter idecl_pub M)
| Imp_some : forall xs ds, NoDup xs -> Forall2 (fun x d => find_pub M x = Some d) xs ds -> import_ok M (ImpSome xs) ds.

Definition wf (p : prog) : Prop :=
  exists ds, import_ok (p_mod p) (p_imp p) ds /\
             tops_ok (p_mod p) (funs_of_decls (p_mod p) ds) [scope_of_decls ds] (p_tops p).

(* ============================================================================================ *)
(* executable version                                                                           *)
(* ============================================================================================ *)
Definition un_res (o : unop) (t : ty) : option ty :=
  match o, t with
  | UNot, TBool => Some TBool
  | UNeg, TZahl => Some TZahl
  | UNeg, TKomma => Some TKomma
  | UNeg, TByte => Some TZahl
  | ULen, TList _ => Some TZahl
  | ULen, TText => Some TZahl
  | _, _ => None
  end.

Definition bin_res (o : binop) (a b : ty) : option ty :=
  match o with
  | BPlus | BMinus | BMal =>
      if numeric a && numeric b then
        match a, b with
        | TKomma, _ | _, TKomma => Some TKomma
        | TByte, TByte => Some TByte
        | _, _ => Some TZahl
        end
      else None
  | BDurch => if numeric a && numeric b then Some TKomma else None
  | BMod => if is_index a && is_index b then
              match a, b with TByte, TByte => Some TByte | _, _ => Some TZahl end
            else None
  | BKleiner | BGroesser => if numeric a && numeric b then Some TBool else None
  | BGleich | BUngleich => if ty_eqb a b then Some TBool else None
  | BUnd | BOder => match a, b with TBool, TBool => Some TBool | _, _ => None end
  | BStelle => if is_index b then
                 match a with TList t => Some t | TText => Some TChar | _ => None end
               else None
  | BVerkettet => if concat_is_list a b
                  then (if ty_eqb (lelem a) (lelem b) then Some (TList (lelem a)) else None)
                  else (if textish a && textish b then Some TText else None)
  | BAb | BBis => if seqlike a && is_index b then Some a else None
  end.

Definition cast_okb (s t : ty) : bool :=
  match t with
  | TList e => ty_eqb s e
  | TZahl | TText => primitive s
  | TKomma => match s with TText => true | _ => numeric s end
  | TByte => numeric s
  | TBool => match s with TZahl | TBool | TByte => true | _ => false end
  | TChar => match s with TZahl | TChar | TByte => true | _ => false end
  | TStruct _ => false
  end.

Definition assignableb (src dst : ty) : bool := ty_eqb src dst || (numeric src && numeric dst).

Fixpoint type_of (M : imod) (F : fenv) (G : env) (e : expr) : option ty :=
  match e with
  | ELit l => Some (lit_ty l)
  | EEmpty t => if ty_ok G t then Some (TList t) else None
  | EVar x => match lookup G x with Some (BVar t) | Some (BConst t) => Some t | _ => None end
  | EUn o e => match type_of M F G e with Some t => un_res o t | None => None end
  | EBin o l r => match type_of M F G l, type_of M F G r with Some a, Some b => bin_res o a b | _, _ => None end
  | ECast e t => match type_of M F G e with
                 | Some s => if ty_ok G t && cast_okb s t then Some t else None
                 | None => None
                 end
  | EField f e => match type_of M F G e with
                  | Some (TStruct s) => match field_of M s f with Some (true, t) => Some t | _ => None end
                  | _ => None
                  end
  | ECall f a => match assoc f F with
                 | Some (ps, Some r) => if args_chk M F G a ps then Some r else None
                 | _ => None
                 end
  | ESlice l i j => match type_of M F G l, type_of M F G i, type_of M F G j with
                    | Some a, Some ti, Some tj => if seqlike a && is_index ti && is_index tj then Some a else None
                    | _, _, _ => None
                    end
  | EList e a => match type_of M F G e with
                 | Some t => if negb (is_listb t) && args_chk M F G a (repeat (t, false) (alen a)) then Some (TList t) else None
                 | None => None
                 end
  end
with args_chk (M : imod) (F : fenv) (G : env) (a : args) (ps : list (ty * bool)) : bool :=
  match a, ps with
  | ANil, [] => true
  | ACons e a', (t, false) :: ps' =>
      match type_of M F G e with Some t0 => ty_eqb t0 t && args_chk M F G a' ps' | None => false end
  | ACons e a', (t, true) :: ps' =>
      match e with
      | EVar x => match lookup G x with Some (BVar t0) => ty_eqb t0 t && args_chk M F G a' ps' | _ => false end
      | _ => false
      end
  | _, _ => false
  end.

Definition has_typeb (M : imod) (F : fenv) (G : env) (e : expr) (t : ty) : bool :=
  match type_of M F G e with Some t0 => ty_eqb t0 t | None => false end.

Definition numericb_expr (M : imod) (F : fenv) (G : env) (e : expr) : bool :=
  match type_of M F G e with Some t => numeric t | None => false end.

Definition assign_chk (M : imod) (F : fenv) (G : env) (e : expr) (t : ty) : bool :=
  match type_of M F G e with Some t0 => assignableb t0 t | None => false end.

Definition indexb_expr (M : imod) (F : fenv) (G : env) (e : expr) : bool :=
  match type_of M F G e with Some t => is_index t | None => false end.

Definition iter_okb (te t : ty) : bool :=
  match te with TList el => ty_eqb el t | TText => ty_eqb t TChar | _ => false end.

Definition genderb (M : imod) (t : ty) (a : article) : bool :=
  match gender M t with Some g => article_eqb g a | None => false end.

Fixpoint stmt_chk (M : imod) (F : fenv) (G : env) (d : nat) (r : retctx) (s : stmt) : option env :=
  match s with
  | SVar a t x e =>
      if ty_ok G t && genderb M t a && assign_chk M F G e t && negb (in_top G x) then Some (bind G x (BVar t)) else None
  | SConst a x l =>
      if article_eqb a Die && negb (in_top G x) then Some (bind G x (BConst (lit_ty l))) else None
  | SAssign x e =>
      match lookup G x with
      | Some (BVar t) => if assign_chk M F G e t then Some G else None
      | _ => None
      end
  | SAssignIdx x i e =>
      match lookup G x with
      | Some (BVar tx) => if seqlike tx && indexb_expr M F G i && assign_chk M F G e (selem tx) then Some G else None
      | _ => None
      end
  | SAssignField f x e =>
      match lookup G x with
      | Some (BVar (TStruct s)) =>
          match field_of M s f with
          | Some (true, tf) => if assign_chk M F G e tf then Some G else None
          | _ => None
          end
      | _ => None
      end
  | SIf c th el =>
      if has_typeb M F G c TBool then
        match block_chk M F (push G) d r th, block_chk M F (push G) d r el with
        | Some _, Some _ => Some G
        | _, _ => None
        end
      else None
  | SWhile c b =>
      if has_typeb M F G c TBool then
        match block_chk M F (push G) (S d) r b with Some _ => Some G | None => None end
      else None
  | SFor a t x from to step b =>
      if ty_ok G t && genderb M t a && numeric t && assign_chk M F G from t && numericb_expr M F G to &&
         match step with None => true | Some e => numericb_expr M F G e end
      then match block_chk M F (bind (push G) x (BVar t)) (S d) r b with Some _ => Some G | None => None end
      else None
  | SForEach a t x e b =>
      if ty_ok G t && genderb M t a && match type_of M F G e with Some te => iter_okb te t | None => false end
      then match block_chk M F (bind (push G) x (BVar t)) (S d) r b with Some _ => Some G | None => None end
      else None
  | SRepeat b n =>
      match block_chk M F (push G) (S d) r b with
      | Some _ => if indexb_expr M F G n then Some G else None
      | None => None
      end
  | SDoWhile b c =>
      match block_chk M F (push G) (S d) r b with
      | Some _ => if has_typeb M F G c TBool then Some G else None
      | None => None
      end
  | SBreak | SContinue => match d with O => None | S _ => Some G end
  | SReturn (Some e) =>
      match r with
      | RFun (Some t) => if has_typeb M F G e t then Some G else None
      | _ => None
      end
  | SReturn None => match r with RFun None => Some G | _ => None end
  | SBlock b => match block_chk M F (push G) d r b with Some _ => Some G | None => None end
  | SCall f a =>
      match assoc f F with
      | Some (ps, _) => if args_chk M F G a ps then Some G else None
      | None => None
      end
  end
with block_chk (M : imod) (F : fenv) (G : env) (d : nat) (r : retctx) (b : block) : option env :=
  match b with
  | BNil => Some G
  | BCons s b' => match stmt_chk M F G d r s with Some G1 => block_chk M F G1 d r b' | None => None end
  end.

Fixpoint nodupb (l : list name) : bool :=
  match l with
  | [] => true
  | x :: r => negb (existsb (Nat.eqb x) r) && nodupb r
  end.

Definition ends_in_returnb (b : block) : bool :=
  match block_last b with Some s => is_return s | None => false end.

Definition ret_okb (M : imod) (G : env) (r : option (article * ty)) : bool :=
  match r with None => true | Some (a, t) => ty_ok G t && genderb M t a end.

Definition fun_chk (M : imod) (F : fenv) (G : env) (f : fdecl) : bool :=
  match lookup G (f_name f) with
  | None =>
      nodupb (map pname (f_params f)) &&
      forallb (fun p => param_name_ok G (pname p) && ty_ok G (ptype p)) (f_params f) &&
      ret_okb M G (f_ret f) &&
      match block_chk M ((f_name f, sig_of f) :: F) (param_scope f :: bind G (f_name f) BFun) 0
                      (RFun (option_map snd (f_ret f))) (f_body f) with
      | Some _ => true
      | None => false
      end &&
      match f_ret f with None => true | Some _ => ends_in_returnb (f_body f) end
  | Some _ => false
  end.

Fixpoint tops_chk (M : imod) (F : fenv) (G : env) (l : list top) : bool :=
  match l with
  | [] => true
  | TFun f :: r => fun_chk M F G f && tops_chk M ((f_name f, sig_of f) :: F) (bind G (f_name f) BFun) r
  | TStmt s :: r => match stmt_chk M F G 0 RGlobal s with Some G1 => tops_chk M F G1 r | None => false end
  end.

Fixpoint find_all_pub (M : imod) (xs : list name) : option (list idecl) :=
  match xs with
  | [] => Some []
  | x :: r => match find_pub M x, find_all_pub M r with Some d, Some ds => Some (d :: ds) | _, _ => None end
  end.

Definition import_decls (M : imod) (i : import) : option (list idecl) :=
  match i with
  | ImpNone => Some []
  | ImpAll => if nodupb (map idecl_name (filter idecl_pub M)) then Some (filter idecl_pub M) else None
  | ImpSome xs => if nodupb xs then find_all_pub M xs else None
  end.

Definition wfb (p : prog) : bool :=
  match import_decls (p_mod p) (p_imp p) with
  | Some ds => tops_chk (p_mod p) (funs_of_decls (p_mod p) ds) [scope_of_decls ds] (p_tops p)
  | None => false
  end.
