(* C04 — the executable specification (type_of / stmt_chk / ... / wfb) decides the declarative one. *)
From Coq Require Import List Arith Bool Lia.
Import ListNotations.
From DDP Require Import Lang.MiniSyntax Lang.MiniTyping.

Scheme expr_mut := Induction for expr Sort Prop
  with args_mut := Induction for args Sort Prop.
Combined Scheme expr_args_ind from expr_mut, args_mut.

Scheme stmt_mut := Induction for stmt Sort Prop
  with block_mut := Induction for block Sort Prop.
Combined Scheme stmt_block_ind from stmt_mut, block_mut.

Scheme has_type_mut := Minimality for has_type Sort Prop
  with args_ok_mut := Minimality for args_ok Sort Prop.
Combined Scheme has_type_args_ok_ind from has_type_mut, args_ok_mut.

Scheme stmt_ok_mut := Minimality for stmt_ok Sort Prop
  with block_ok_mut := Minimality for block_ok Sort Prop.
Combined Scheme stmt_ok_block_ok_ind from stmt_ok_mut, block_ok_mut.

(* ---- equalities --------------------------------------------------------------------------- *)
Lemma ty_eqb_refl : forall t, ty_eqb t t = true.
Proof. induction t; cbn; auto using Nat.eqb_refl. Qed.

Lemma ty_eqb_eq : forall a b, ty_eqb a b = true -> a = b.
Proof.
  induction a; destruct b; cbn; intros H; try discriminate H; auto.
  - f_equal; auto.
  - apply Nat.eqb_eq in H; subst; auto.
Qed.

Lemma ty_eqb_iff : forall a b, ty_eqb a b = true <-> a = b.
Proof. split; [apply ty_eqb_eq | intros ->; apply ty_eqb_refl]. Qed.

Lemma ty_eqb_neq : forall a b, ty_eqb a b = false <-> a <> b.
Proof.
  intros a b; split.
  - intros H E; subst; rewrite ty_eqb_refl in H; discriminate H.
  - intros H; destruct (ty_eqb a b) eqn:E; auto. apply ty_eqb_eq in E; contradiction.
Qed.

Lemma article_eqb_iff : forall a b, article_eqb a b = true <-> a = b.
Proof. destruct a, b; cbn; split; intros H; try discriminate H; auto. Qed.

(* ---- operator tables ---------------------------------------------------------------------- *)
Lemma un_res_ok : forall o t r, un_res o t = Some r <-> un_ok o t r.
Proof.
  intros o t r; split.
  - destruct o, t; cbn; intros H; inversion H; subst; constructor.
  - intros H; inversion H; subst; reflexivity.
Qed.

Lemma bin_res_ok : forall o a b c, bin_res o a b = Some c <-> bin_ok o a b c.
Proof.
  intros o a b c; split.
  - destruct o.
    1-3: destruct a, b; cbn; intros H; inversion H; subst;
         first [ apply B_arith_byte; reflexivity
               | apply B_arith_komma; cbn; auto; fail
               | apply B_arith_zahl; cbn; auto ].
    + destruct a, b; cbn; intros H; inversion H; subst; apply B_durch; reflexivity.
    + destruct a, b; cbn; intros H; inversion H; subst;
        first [ apply B_mod_byte | apply B_mod_zahl; cbn; auto ].
    + destruct a, b; cbn; intros H; inversion H; subst; apply B_cmp; reflexivity.
    + destruct a, b; cbn; intros H; inversion H; subst; apply B_cmp; reflexivity.
    + unfold bin_res. destruct (ty_eqb a b) eqn:E; intros H; inversion H; subst. apply ty_eqb_eq in E; subst. apply B_eq; reflexivity.
    + unfold bin_res. destruct (ty_eqb a b) eqn:E; intros H; inversion H; subst. apply ty_eqb_eq in E; subst. apply B_eq; reflexivity.
    + destruct a, b; cbn; intros H; inversion H; subst. apply B_logic; reflexivity.
    + destruct a, b; cbn; intros H; inversion H; subst. apply B_logic; reflexivity.
    + unfold bin_res. destruct (is_index b) eqn:Hb; [| intros H; discriminate H].
      destruct a; intros H; inversion H; subst; [apply B_index_text | apply B_index_list]; auto.
    + unfold bin_res. destruct (concat_is_list a b) eqn:Ec.
      * destruct (ty_eqb (lelem a) (lelem b)) eqn:E; intros H; inversion H; subst. apply ty_eqb_eq in E. apply B_concat_list; auto.
      * destruct (textish a) eqn:Ha, (textish b) eqn:Hb; intros H; inversion H; subst. apply B_concat_text; auto.
        unfold concat_is_list in Ec. destruct a; try discriminate Ha; destruct b; try discriminate Hb; cbn in Ec; auto; discriminate Ec.
    + unfold bin_res. destruct (seqlike a) eqn:Ha, (is_index b) eqn:Hb; intros H; inversion H; subst. apply B_slice; auto.
    + unfold bin_res. destruct (seqlike a) eqn:Ha, (is_index b) eqn:Hb; intros H; inversion H; subst. apply B_slice; auto.
  - intros H; inversion H; subst;
      try match goal with
          | Hx : textish ?a = true, Hy : textish ?b = true |- _ =>
              destruct a; try discriminate Hx; destruct b; try discriminate Hy; cbn; auto;
              match goal with Hd : _ \/ _ |- _ => destruct Hd as [Hd | Hd]; discriminate Hd end
          | Hx : lelem ?a = lelem ?b, Hy : concat_is_list ?a ?b = true |- _ =>
              unfold bin_res; rewrite Hy, Hx, ty_eqb_refl; reflexivity
          | Hx : is_slice1 ?o = true, Hy : seqlike ?a = true, Hz : is_index ?i = true |- _ =>
              destruct o; try discriminate Hx; unfold bin_res; rewrite Hy, Hz; reflexivity
          end;
      repeat match goal with
             | Hx : is_arith ?o = true |- _ => destruct o; try discriminate Hx; clear Hx
             | Hx : is_cmp ?o = true |- _ => destruct o; try discriminate Hx; clear Hx
             | Hx : is_eq ?o = true |- _ => destruct o; try discriminate Hx; clear Hx
             | Hx : is_logic ?o = true |- _ => destruct o; try discriminate Hx; clear Hx
             | Hx : numeric ?a = true |- _ => is_var a; destruct a; try discriminate Hx; clear Hx
             | Hx : is_index ?a = true |- _ => is_var a; destruct a; try discriminate Hx; clear Hx
             | Hx : _ \/ _ |- _ => destruct Hx as [Hx | Hx]; try discriminate Hx
             end; cbn; rewrite ?ty_eqb_refl; reflexivity.
Qed.

Lemma cast_okb_ok : forall s t, cast_okb s t = true <-> cast_ok s t.
Proof.
  intros s t; split.
  - destruct t; cbn; intros H.
    + apply C_zahl; auto.
    + apply C_komma. destruct s; cbn in *; auto; discriminate H.
    + apply C_byte; auto.
    + apply C_bool. destruct s; cbn in *; auto; discriminate H.
    + apply C_char. destruct s; cbn in *; auto; discriminate H.
    + apply C_text; auto.
    + apply ty_eqb_eq in H; subst. apply C_list.
    + discriminate H.
  - intros H; inversion H; subst; cbn; auto using ty_eqb_refl.
    + destruct H0 as [-> | H0]; auto. destruct s; auto.
    + destruct H0 as [-> | [-> | ->]]; auto.
    + destruct H0 as [-> | [-> | ->]]; auto.
Qed.

Lemma assignableb_ok : forall s t, assignableb s t = true <-> assignable s t.
Proof.
  intros s t; unfold assignableb, assignable; rewrite orb_true_iff, andb_true_iff, ty_eqb_iff; tauto.
Qed.

(* ---- expressions -------------------------------------------------------------------------- *)
Lemma type_of_sound : forall M F G,
  (forall e t, type_of M F G e = Some t -> has_type M F G e t) /\
  (forall a ps, args_chk M F G a ps = true -> args_ok M F G a ps).
Proof.
  intros M F G; apply expr_args_ind.
  - intros l t H; inversion H; constructor.
  - intros t0 t H; cbn in H. destruct (ty_ok G t0) eqn:E; inversion H; subst. constructor; auto.
  - intros x t H; cbn in H. destruct (lookup G x) as [[| | |]|] eqn:E; inversion H; subst.
    + apply T_var; auto.
    + apply T_const; auto.
  - intros o e IH t H; cbn in H. destruct (type_of M F G e) eqn:E; [| discriminate H].
    eapply T_un; [apply IH; reflexivity | apply un_res_ok; auto].
  - intros o l IHl r IHr t H; cbn in H.
    destruct (type_of M F G l) eqn:El; [| discriminate H].
    destruct (type_of M F G r) eqn:Er; [| discriminate H].
    eapply T_bin; [apply IHl; reflexivity | apply IHr; reflexivity | apply bin_res_ok; auto].
  - intros e IH t0 t H; cbn in H. destruct (type_of M F G e) eqn:E; [| discriminate H].
    destruct (ty_ok G t0) eqn:Et; [| discriminate H].
    destruct (cast_okb t1 t0) eqn:Ec; inversion H; subst.
    eapply T_cast; [apply IH; reflexivity | auto | apply cast_okb_ok; auto].
  - intros f e IH t H; cbn in H. destruct (type_of M F G e) as [[| | | | | | |s]|] eqn:E; try discriminate H.
    destruct (field_of M s f) as [[[|] tf]|] eqn:Ef; inversion H; subst.
    eapply T_field; [apply IH; reflexivity | auto].
  - intros f a IH t H; cbn in H. destruct (assoc f F) as [[ps [r|]]|] eqn:E; try discriminate H.
    destruct (args_chk M F G a ps) eqn:Ea; inversion H; subst.
    eapply T_call; eauto.
  - intros l IHl i IHi j IHj t H; cbn in H.
    destruct (type_of M F G l) as [a|] eqn:El; [| discriminate H].
    destruct (type_of M F G i) as [ti|] eqn:Ei; [| discriminate H].
    destruct (type_of M F G j) as [tj|] eqn:Ej; [| discriminate H].
    destruct (seqlike a) eqn:Ha; [| discriminate H]. destruct (is_index ti) eqn:Hi; [| discriminate H].
    destruct (is_index tj) eqn:Hj; inversion H; subst. eapply T_slice; eauto.
  - intros e IHe a IHa t H; cbn in H. destruct (type_of M F G e) as [t0|] eqn:Ee; [| discriminate H].
    destruct (is_listb t0) eqn:Hl; [discriminate H |]. cbn in H.
    destruct (args_chk M F G a (repeat (t0, false) (alen a))) eqn:Ea; inversion H; subst. apply T_list; auto.
  - intros ps H; destruct ps; [constructor | discriminate H].
  - intros e IHe a IHa ps H. destruct ps as [| [t [|]] ps]; cbn in H; try discriminate H.
    + destruct e; try discriminate H. destruct (lookup G x) as [[| | |]|] eqn:E; try discriminate H.
      apply andb_true_iff in H as [H1 H2]. apply ty_eqb_eq in H1; subst. apply A_ref; auto.
    + destruct (type_of M F G e) eqn:E; [| discriminate H].
      apply andb_true_iff in H as [H1 H2]. apply ty_eqb_eq in H1; subst. apply A_val; auto.
Qed.

Lemma type_of_complete : forall M F G,
  (forall e t, has_type M F G e t -> type_of M F G e = Some t) /\
  (forall a ps, args_ok M F G a ps -> args_chk M F G a ps = true).
Proof.
  intros M F G; apply has_type_args_ok_ind; intros; cbn.
  - reflexivity.
  - rewrite H; reflexivity.
  - rewrite H; reflexivity.
  - rewrite H; reflexivity.
  - rewrite H0. apply un_res_ok; auto.
  - rewrite H0, H2. apply bin_res_ok; auto.
  - rewrite H0, H1. apply cast_okb_ok in H2; rewrite H2; reflexivity.
  - rewrite H0, H1; reflexivity.
  - rewrite H, H1; reflexivity.
  - rewrite H0, H2, H4, H5, H6, H7; reflexivity.
  - rewrite H0, H1, H3; reflexivity.
  - reflexivity.
  - rewrite H0, ty_eqb_refl, H2; reflexivity.
  - rewrite H, ty_eqb_refl, H1; reflexivity.
Qed.

Lemma type_of_iff : forall M F G e t, type_of M F G e = Some t <-> has_type M F G e t.
Proof. intros; split; [apply type_of_sound | apply type_of_complete]. Qed.

Lemma args_chk_iff : forall M F G a ps, args_chk M F G a ps = true <-> args_ok M F G a ps.
Proof. intros; split; [apply type_of_sound | apply type_of_complete]. Qed.

Lemma has_type_unique : forall M F G e t1 t2, has_type M F G e t1 -> has_type M F G e t2 -> t1 = t2.
Proof. intros M F G e t1 t2 H1 H2; apply type_of_iff in H1, H2; congruence. Qed.

Lemma has_typeb_iff : forall M F G e t, has_typeb M F G e t = true <-> has_type M F G e t.
Proof.
  intros; unfold has_typeb; rewrite <- type_of_iff. destruct (type_of M F G e) eqn:E.
  - rewrite ty_eqb_iff; split; congruence.
  - split; intros H; discriminate H.
Qed.

Lemma assign_chk_iff : forall M F G e t,
  assign_chk M F G e t = true <-> exists t0, has_type M F G e t0 /\ assignable t0 t.
Proof.
  intros; unfold assign_chk. destruct (type_of M F G e) eqn:E.
  - rewrite assignableb_ok; split.
    + intros H; exists t0; split; auto. apply type_of_iff; auto.
    + intros [t1 [H1 H2]]. apply type_of_iff in H1. congruence.
  - split; [intros H; discriminate H |]. intros [t1 [H1 _]]. apply type_of_iff in H1; congruence.
Qed.

Lemma numericb_expr_iff : forall M F G e,
  numericb_expr M F G e = true <-> exists t, has_type M F G e t /\ numeric t = true.
Proof.
  intros; unfold numericb_expr. destruct (type_of M F G e) eqn:E.
  - split.
    + intros H; exists t; split; auto. apply type_of_iff; auto.
    + intros [t1 [H1 H2]]. apply type_of_iff in H1. congruence.
  - split; [intros H; discriminate H |]. intros [t1 [H1 _]]. apply type_of_iff in H1; congruence.
Qed.

Lemma indexb_expr_iff : forall M F G e,
  indexb_expr M F G e = true <-> exists t, has_type M F G e t /\ is_index t = true.
Proof.
  intros; unfold indexb_expr. destruct (type_of M F G e) eqn:E.
  - split.
    + intros H; exists t; split; auto. apply type_of_iff; auto.
    + intros [t1 [H1 H2]]. apply type_of_iff in H1. congruence.
  - split; [intros H; discriminate H |]. intros [t1 [H1 _]]. apply type_of_iff in H1; congruence.
Qed.

Lemma iter_okb_iff : forall te t, iter_okb te t = true <-> iter_ok te t.
Proof.
  intros te t; unfold iter_okb, iter_ok; split.
  - destruct te; try (intros H; discriminate H); intros H; apply ty_eqb_eq in H; subst; auto.
  - intros [-> | [-> ->]]; cbn; auto using ty_eqb_refl.
Qed.

Lemma genderb_iff : forall M t a, genderb M t a = true <-> gender M t = Some a.
Proof.
  intros; unfold genderb. destruct (gender M t).
  - rewrite article_eqb_iff; split; congruence.
  - split; intros H; discriminate H.
Qed.

(* ---- statements --------------------------------------------------------------------------- *)
Lemma stmt_chk_sound : forall M F,
  (forall s G d r G', stmt_chk M F G d r s = Some G' -> stmt_ok M F G d r s G') /\
  (forall b G d r G', block_chk M F G d r b = Some G' -> block_ok M F G d r b G').
Proof.
  intros M F; apply stmt_block_ind.
  - intros a t x e G d r G' H; cbn in H.
    destruct (ty_ok G t) eqn:E1; [| discriminate H].
    destruct (genderb M t a) eqn:E2; [| discriminate H].
    destruct (assign_chk M F G e t) eqn:E3; [| discriminate H].
    destruct (in_top G x) eqn:E4; inversion H; subst.
    apply assign_chk_iff in E3 as [t0 [Ht Ha]]. apply genderb_iff in E2.
    eapply S_var; eauto.
  - intros a x l G d r G' H; cbn in H.
    destruct (article_eqb a Die) eqn:E1; [| discriminate H]. apply article_eqb_iff in E1; subst.
    destruct (in_top G x) eqn:E2; inversion H; subst. apply S_const; auto.
  - intros x e G d r G' H; cbn in H.
    destruct (lookup G x) as [[| | |]|] eqn:E; try discriminate H.
    destruct (assign_chk M F G e t) eqn:E3; inversion H; subst.
    apply assign_chk_iff in E3 as [t0 [Ht Ha]]. eapply S_assign; eauto.
  - intros x i e G d r G' H; cbn in H.
    destruct (lookup G x) as [[tx| | |]|] eqn:E; try discriminate H.
    destruct (seqlike tx) eqn:E1; [| discriminate H]. destruct (indexb_expr M F G i) eqn:E2; [| discriminate H].
    destruct (assign_chk M F G e (selem tx)) eqn:E3; inversion H; subst.
    apply indexb_expr_iff in E2 as [ti [Hti Hi]]. apply assign_chk_iff in E3 as [t0 [Ht Ha]]. eapply S_assign_idx; eauto.
  - intros f x e G d r G' H; cbn in H.
    destruct (lookup G x) as [[[| | | | | | |s]| | |]|] eqn:E; try discriminate H.
    destruct (field_of M s f) as [[[|] tf]|] eqn:Ef; try discriminate H.
    destruct (assign_chk M F G e tf) eqn:E3; inversion H; subst.
    apply assign_chk_iff in E3 as [t0 [Ht Ha]]. eapply S_assign_field; eauto.
  - intros c th IHth el IHel G d r G' H; cbn in H.
    destruct (has_typeb M F G c TBool) eqn:E1; [| discriminate H].
    destruct (block_chk M F (push G) d r th) eqn:E2; [| discriminate H].
    destruct (block_chk M F (push G) d r el) eqn:E3; inversion H; subst.
    apply has_typeb_iff in E1. eapply S_if; eauto.
  - intros c b IHb G d r G' H; cbn in H.
    destruct (has_typeb M F G c TBool) eqn:E1; [| discriminate H].
    destruct (block_chk M F (push G) (S d) r b) eqn:E2; inversion H; subst.
    apply has_typeb_iff in E1. eapply S_while; eauto.
  - intros a t x from to step b IHb G d r G' H; cbn in H.
    destruct (ty_ok G t) eqn:E1; [| discriminate H].
    destruct (genderb M t a) eqn:E2; [| discriminate H].
    destruct (numeric t) eqn:E3; [| discriminate H].
    destruct (assign_chk M F G from t) eqn:E4; [| discriminate H].
    destruct (numericb_expr M F G to) eqn:E5; [| discriminate H].
    cbn in H.
    destruct (match step with Some e => numericb_expr M F G e | None => true end) eqn:E6; [| discriminate H].
    change (bind (push G) x (BVar t)) with ([(x, BVar t)] :: G) in *.
    destruct (block_chk M F ([(x, BVar t)] :: G) (S d) r b) eqn:E7; inversion H; subst.
    apply assign_chk_iff in E4 as [t0 [Ht Ha]]. apply numericb_expr_iff in E5 as [t1 [Ht1 Hn1]].
    apply genderb_iff in E2.
    eapply S_for; eauto.
    destruct step; cbn; auto. apply numericb_expr_iff; auto.
  - intros a t x e b IHb G d r G' H; cbn in H.
    destruct (ty_ok G t) eqn:E1; [| discriminate H]. destruct (genderb M t a) eqn:E2; [| discriminate H].
    destruct (type_of M F G e) as [te|] eqn:E3; [| discriminate H]. cbn in H.
    destruct (iter_okb te t) eqn:E4; [| discriminate H].
    change (bind (push G) x (BVar t)) with ([(x, BVar t)] :: G) in *.
    destruct (block_chk M F ([(x, BVar t)] :: G) (S d) r b) eqn:E5; inversion H; subst.
    apply genderb_iff in E2. apply iter_okb_iff in E4. apply type_of_iff in E3. eapply S_foreach; eauto.
  - intros b IHb n G d r G' H; cbn in H.
    destruct (block_chk M F (push G) (S d) r b) eqn:E1; [| discriminate H].
    destruct (indexb_expr M F G n) eqn:E2; inversion H; subst.
    apply indexb_expr_iff in E2 as [tn [Htn Hi]]. eapply S_repeat; eauto.
  - intros b IHb c G d r G' H; cbn in H.
    destruct (block_chk M F (push G) (S d) r b) eqn:E1; [| discriminate H].
    destruct (has_typeb M F G c TBool) eqn:E2; inversion H; subst.
    apply has_typeb_iff in E2. eapply S_dowhile; eauto.
  - intros G d r G' H; cbn in H. destruct d; inversion H; subst. constructor.
  - intros G d r G' H; cbn in H. destruct d; inversion H; subst. constructor.
  - intros [e|] G d r G' H; cbn in H.
    + destruct r as [| [t|]]; try discriminate H.
      destruct (has_typeb M F G e t) eqn:E; inversion H; subst. apply has_typeb_iff in E. constructor; auto.
    + destruct r as [| [t|]]; inversion H; subst. constructor.
  - intros b IHb G d r G' H; cbn in H.
    destruct (block_chk M F (push G) d r b) eqn:E; inversion H; subst. eapply S_block; eauto.
  - intros f a G d r G' H; cbn in H.
    destruct (assoc f F) as [[ps ro]|] eqn:E; [| discriminate H].
    destruct (args_chk M F G a ps) eqn:Ea; inversion H; subst.
    apply args_chk_iff in Ea. eapply S_call; eauto.
  - intros G d r G' H; inversion H; subst; constructor.
  - intros s IHs b IHb G d r G' H; cbn in H.
    destruct (stmt_chk M F G d r s) eqn:E; [| discriminate H].
    eapply K_cons; eauto.
Qed.

Lemma stmt_chk_complete : forall M F,
  (forall G d r s G', stmt_ok M F G d r s G' -> stmt_chk M F G d r s = Some G') /\
  (forall G d r b G', block_ok M F G d r b G' -> block_chk M F G d r b = Some G').
Proof.
  intros M F; apply stmt_ok_block_ok_ind; intros; cbn.
  - rewrite H, H3. apply genderb_iff in H0; rewrite H0.
    assert (E : assign_chk M F G e t = true) by (apply assign_chk_iff; eauto). rewrite E; reflexivity.
  - rewrite H; reflexivity.
  - rewrite H. assert (E : assign_chk M F G e t = true) by (apply assign_chk_iff; eauto). rewrite E; reflexivity.
  - rewrite H, H0. assert (E : indexb_expr M F G i = true) by (apply indexb_expr_iff; eauto). rewrite E.
    assert (E2 : assign_chk M F G e (selem tx) = true) by (apply assign_chk_iff; eauto). rewrite E2; reflexivity.
  - rewrite H, H0. assert (E2 : assign_chk M F G e tf = true) by (apply assign_chk_iff; eauto). rewrite E2; reflexivity.
  - apply has_typeb_iff in H; rewrite H, H1, H3; reflexivity.
  - apply has_typeb_iff in H; rewrite H, H1; reflexivity.
  - rewrite H, H1. apply genderb_iff in H0; rewrite H0.
    assert (E : assign_chk M F G from t = true) by (apply assign_chk_iff; eauto). rewrite E.
    assert (E2 : numericb_expr M F G to = true) by (apply numericb_expr_iff; eauto). rewrite E2.
    assert (E3 : match step with Some e => numericb_expr M F G e | None => true end = true).
    { destruct step; auto. apply numericb_expr_iff; auto. }
    cbn in *. rewrite E3, H8; reflexivity.
  - rewrite H. apply genderb_iff in H0; rewrite H0. apply type_of_iff in H1; rewrite H1.
    apply iter_okb_iff in H2. cbn in *. rewrite H2, H4; reflexivity.
  - rewrite H0. assert (E : indexb_expr M F G n = true) by (apply indexb_expr_iff; eauto). rewrite E; reflexivity.
  - rewrite H0. apply has_typeb_iff in H1; rewrite H1; reflexivity.
  - reflexivity.
  - reflexivity.
  - apply has_typeb_iff in H; rewrite H; reflexivity.
  - reflexivity.
  - rewrite H0; reflexivity.
  - rewrite H. apply args_chk_iff in H0; rewrite H0; reflexivity.
  - reflexivity.
  - rewrite H0; auto.
Qed.

Lemma stmt_chk_iff : forall M F G d r s G', stmt_chk M F G d r s = Some G' <-> stmt_ok M F G d r s G'.
Proof. intros; split; [apply stmt_chk_sound | apply stmt_chk_complete]. Qed.

Lemma block_chk_iff : forall M F G d r b G', block_chk M F G d r b = Some G' <-> block_ok M F G d r b G'.
Proof. intros; split; [apply stmt_chk_sound | apply stmt_chk_complete]. Qed.

(* ---- functions, top level, imports -------------------------------------------------------- *)
Lemma existsb_eqb_In : forall x l, existsb (Nat.eqb x) l = true <-> In x l.
Proof.
  intros x l; rewrite existsb_exists; split.
  - intros [y [Hy E]]. apply Nat.eqb_eq in E; subst; auto.
  - intros H; exists x; split; auto using Nat.eqb_refl.
Qed.

Lemma nodupb_iff : forall l, nodupb l = true <-> NoDup l.
Proof.
  induction l as [| x l IH]; cbn.
  - split; auto using NoDup_nil.
  - rewrite andb_true_iff, negb_true_iff, IH. split.
    + intros [H1 H2]; constructor; auto. intros Hin. apply existsb_eqb_In in Hin. congruence.
    + intros H; inversion H; subst; split; auto.
      destruct (existsb (Nat.eqb x) l) eqn:E; auto. apply existsb_eqb_In in E; contradiction.
Qed.

Lemma ends_in_returnb_iff : forall b, ends_in_returnb b = true <-> ends_in_return b.
Proof.
  intros b; unfold ends_in_returnb, ends_in_return. destruct (block_last b) eqn:E.
  - split; [intros H; eauto | intros [s0 [H1 H2]]; congruence].
  - split; [intros H; discriminate H | intros [s0 [H1 _]]; discriminate H1].
Qed.

Lemma ret_okb_iff : forall M G r, ret_okb M G r = true <-> ret_ok M G r.
Proof.
  intros M G [[a t]|]; cbn; [| tauto]. rewrite andb_true_iff, genderb_iff; tauto.
Qed.

Lemma fun_chk_iff : forall M F G f, fun_chk M F G f = true <-> fun_ok M F G f.
Proof.
  intros M F G f; unfold fun_chk; split.
  - destruct (lookup G (f_name f)) eqn:E; [intros H; discriminate H |].
    intros H. apply andb_true_iff in H as [H Hfin]. apply andb_true_iff in H as [H Hblk].
    apply andb_true_iff in H as [H Hret]. apply andb_true_iff in H as [Hnd Hps].
    destruct (block_chk M ((f_name f, sig_of f) :: F) (param_scope f :: bind G (f_name f) BFun) 0
                        (RFun (option_map snd (f_ret f))) (f_body f)) as [G1|] eqn:Eb; [| discriminate Hblk].
    apply Fun_ok with (G1 := G1); auto.
    + apply nodupb_iff; auto.
    + intros p Hp. rewrite forallb_forall in Hps. apply Hps in Hp. apply andb_true_iff in Hp; auto.
    + apply ret_okb_iff; auto.
    + apply block_chk_iff; auto.
    + intros Hr. destruct (f_ret f); [apply ends_in_returnb_iff; auto | contradiction].
  - intros [G1 H1 H2 H3 H4 H5 H6]. rewrite H1.
    apply nodupb_iff in H2; rewrite H2.
    assert (E : forallb (fun p => param_name_ok G (pname p) && ty_ok G (ptype p)) (f_params f) = true).
    { apply forallb_forall; intros p Hp. apply H3 in Hp as [Ha Hb]; rewrite Ha, Hb; reflexivity. }
    rewrite E. apply ret_okb_iff in H4; rewrite H4.
    apply block_chk_iff in H5; rewrite H5. cbn.
    destruct (f_ret f) eqn:Er; auto. apply ends_in_returnb_iff. apply H6. congruence.
Qed.

Lemma tops_chk_iff : forall M l F G, tops_chk M F G l = true <-> tops_ok M F G l.
Proof.
  intros M; induction l as [| [f|s] l IH]; intros F G; cbn.
  - split; auto using Tops_nil.
  - rewrite andb_true_iff, fun_chk_iff, IH. split.
    + intros [H1 H2]; constructor; auto.
    + intros H; inversion H; subst; auto.
  - split.
    + destruct (stmt_chk M F G 0 RGlobal s) eqn:E; [| intros H; discriminate H].
      intros H. apply stmt_chk_iff in E. apply IH in H. econstructor; eauto.
    + intros H; inversion H as [| | F0 G0 s0 r0 G1 Hs Hr]; subst. apply stmt_chk_iff in Hs; rewrite Hs. apply IH; auto.
Qed.

Lemma find_all_pub_iff : forall M xs ds, find_all_pub M xs = Some ds <-> Forall2 (fun x d => find_pub M x = Some d) xs ds.
Proof.
  intros M; induction xs as [| x xs IH]; intros ds; cbn.
  - split; [intros H; inversion H; constructor | intros H; inversion H; reflexivity].
  - split.
    + destruct (find_pub M x) eqn:E; [| intros H; discriminate H].
      destruct (find_all_pub M xs) eqn:E2; intros H; inversion H; subst.
      constructor; auto. apply IH; reflexivity.
    + intros H; inversion H; subst. rewrite H2. apply IH in H4; rewrite H4; reflexivity.
Qed.

Lemma import_decls_iff : forall M i ds, import_decls M i = Some ds <-> import_ok M i ds.
Proof.
  intros M i ds; destruct i; cbn.
  - split; [intros H; inversion H; constructor | intros H; inversion H; reflexivity].
  - destruct (nodupb (map idecl_name (filter idecl_pub M))) eqn:E.
    + split; [intros H; inversion H; constructor; apply nodupb_iff; auto | intros H; inversion H; reflexivity].
    + split; [intros H; discriminate H |]. intros H; inversion H as [| Hnd |]; subst. apply nodupb_iff in Hnd; congruence.
  - destruct (nodupb xs) eqn:E.
    + rewrite find_all_pub_iff. split.
      * intros H; constructor; auto. apply nodupb_iff; auto.
      * intros H; inversion H; subst; auto.
    + split; [intros H; discriminate H |]. intros H; inversion H as [| | xs0 ds0 Hnd Hf]; subst. apply nodupb_iff in Hnd; congruence.
Qed.

Theorem wfb_iff : forall p, wfb p = true <-> wf p.
Proof.
  intros p; unfold wfb, wf; split.
  - destruct (import_decls (p_mod p) (p_imp p)) as [ds|] eqn:E; [| intros H; discriminate H].
    intros H; exists ds; split; [apply import_decls_iff; auto | apply tops_chk_iff; auto].
  - intros [ds [H1 H2]]. apply import_decls_iff in H1; rewrite H1. apply tops_chk_iff; auto.
Qed.

Lemma wf_dec : forall p, {wf p} + {~ wf p}.
Proof.
  intros p; destruct (wfb p) eqn:E; [left; apply wfb_iff; auto | right; intros H; apply wfb_iff in H; congruence].
Qed.
