(* Syntax.v's operators are exactly the operators of src/ast/operators.go (regenerated into Gen/Operators.v on
   every run), in enum order, except BIN_FIELD_ACCESS (needs Kombinationen) and the type operators
   (Größe / Standardwert), which are outside the core fragment. *)
From Coq Require Import String List.
Import ListNotations.
From DDP Require Import Lang.Syntax Gen.Operators.
Open Scope string_scope.

Definition unop_name (o : unop) : string :=
  match o with
  | UAbs => "UN_ABS" | ULen => "UN_LEN" | UNeg => "UN_NEGATE" | UNot => "UN_NOT" | ULogicNot => "UN_LOGIC_NOT"
  end.
Definition binop_name (o : binop) : string :=
  match o with
  | BAnd => "BIN_AND" | BOr => "BIN_OR" | BXor => "BIN_XOR" | BConcat => "BIN_CONCAT" | BPlus => "BIN_PLUS"
  | BMinus => "BIN_MINUS" | BMult => "BIN_MULT" | BDiv => "BIN_DIV" | BIndex => "BIN_INDEX" | BPow => "BIN_POW"
  | BLog => "BIN_LOG" | BLogicAnd => "BIN_LOGIC_AND" | BLogicOr => "BIN_LOGIC_OR" | BLogicXor => "BIN_LOGIC_XOR"
  | BMod => "BIN_MOD" | BShl => "BIN_LEFT_SHIFT" | BShr => "BIN_RIGHT_SHIFT" | BEq => "BIN_EQUAL"
  | BNe => "BIN_UNEQUAL" | BLt => "BIN_LESS" | BGt => "BIN_GREATER" | BLe => "BIN_LESS_EQ" | BGe => "BIN_GREATER_EQ"
  | BSliceTo => "BIN_SLICE_TO" | BSliceFrom => "BIN_SLICE_FROM"
  end.
Definition terop_name (o : terop) : string :=
  match o with TSlice => "TER_SLICE" | TBetween => "TER_BETWEEN" | TFalls => "TER_FALLS" end.

Definition all_unops : list unop := [UAbs; ULen; UNeg; UNot; ULogicNot].
Definition all_binops : list binop :=
  [BAnd; BOr; BXor; BConcat; BPlus; BMinus; BMult; BDiv; BIndex; BPow; BLog; BLogicAnd; BLogicOr; BLogicXor; BMod;
   BShl; BShr; BEq; BNe; BLt; BGt; BLe; BGe; BSliceTo; BSliceFrom].
Definition all_terops : list terop := [TSlice; TBetween; TFalls].

Lemma all_unops_complete : forall o, In o all_unops.
Proof. destruct o; cbn; tauto. Qed.
Lemma all_binops_complete : forall o, In o all_binops.
Proof. destruct o; cbn; tauto. Qed.
Lemma all_terops_complete : forall o, In o all_terops.
Proof. destruct o; cbn; tauto. Qed.

Lemma operators_cover :
  map unop_name all_unops = gen_unary /\
  (map binop_name (firstn 23 all_binops) ++ ["BIN_FIELD_ACCESS"] ++ map binop_name (skipn 23 all_binops))%list = gen_binary /\
  map terop_name all_terops = gen_ternary.
Proof. repeat split; reflexivity. Qed.
