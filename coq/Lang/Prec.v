(* The precedence ladder of /repo/src/parser/expressions.go for the binary-operator fragment, as a
   Gallina recursive-descent parser over an abstract token list, and a renderer with minimal parentheses.

   FRAGMENT (stated, not weakened): expressions built from atoms (literals / names), parentheses and the
   20 infix operators of the ladder
       boolOR  oder                          level 0     (loop, left-assoc, operands: next level)
       boolAND und                           level 1
       bitwiseOR   logisch oder              level 2
       bitwiseXOR  logisch kontra            level 3
       bitwiseAND  logisch und               level 4
       equality    gleich / ungleich ... ist level 5     (suffix `ist`, optional when the previous token is `ist`)
       comparison  kleiner/größer als [, oder] ... ist  level 6 (same suffix rule)
       bitShift    um ... Bit nach Links/Rechts verschoben  level 7 (infix `um`, operator named by the suffix)
       term        plus / minus / verkettet mit   level 8
       factor      mal / durch / modulo           level 9
       power       hoch                            level 10 (loop whose right operand is parsed by unary(),
                                                    i.e. at the power level again: right-nesting)
       primary     atom | ( expression )           level 11
   Outside the fragment: `entweder a, oder b`, `falls`, `zwischen`, prefix operators (nicht, -, Betrag, Länge,
   Logarithmus, Wurzel), slicing/indexing/field access/`als` (postfix forms between power and primary) and
   function-call aliases.  In the fragment unary() = negate() = power(nil) and
   slicing/indexing/field_access/type_cast are the identity on primary().

   Token abstraction: the keyword sequence of an operator is one token ([KOp o], e.g. `kleiner als, oder`),
   the `ist` suffix is [KIst], the shift infix `um` is [KUm] and its suffix `Bit nach Links|Rechts verschoben`
   is [KVerschoben left?].  Like the Go code the parser threads "the previous token was `ist`". *)
From Coq Require Import List NArith Arith Bool.
Import ListNotations.

Inductive pop : Type :=
| POr | PAnd | PLOr | PLXor | PLAnd | PEq | PNe | PLt | PGt | PLe | PGe | PShl | PShr
| PPlus | PMinus | PConcat | PMult | PDiv | PMod | PPow.

Inductive pexpr : Type :=
| PAtom (n : N)
| PBin (o : pop) (a b : pexpr).

Inductive tok : Type :=
| KAtom (n : N) | KLP | KRP | KOp (o : pop) | KIst | KUm | KVerschoben (left : bool).

Definition lev (o : pop) : nat :=
  match o with
  | POr => 0 | PAnd => 1 | PLOr => 2 | PLXor => 3 | PLAnd => 4
  | PEq | PNe => 5
  | PLt | PGt | PLe | PGe => 6
  | PShl | PShr => 7
  | PPlus | PMinus | PConcat => 8
  | PMult | PDiv | PMod => 9
  | PPow => 10
  end.

Definition is_shift (o : pop) : bool := match o with PShl | PShr => true | _ => false end.
Definition needs_ist (l : nat) : bool := (l =? 5) || (l =? 6).
(* the level at which the right operand of a level-l operator is parsed *)
Definition rhs_lvl (l : nat) : nat := if l =? 10 then 10 else S l.

(* ---- the ladder ---------------------------------------------------------------------------- *)
(* parse_lvl l = the Go function of level l (boolOR ... power, primary); loop l = its `for p.matchAny(...)`.
   Result: expression, remaining tokens, "previous token is `ist`". *)
Fixpoint parse_lvl (fuel : nat) (l : nat) (ts : list tok) {struct fuel} : option (pexpr * list tok * bool) :=
  match fuel with
  | O => None
  | S f =>
    if 11 <=? l then
      match ts with
      | KAtom n :: r => Some (PAtom n, r, false)
      | KLP :: r =>
          match parse_lvl f 0 r with
          | Some (e, KRP :: r', _) => Some (e, r', false)
          | _ => None
          end
      | _ => None
      end
    else
      match parse_lvl f (S l) ts with
      | Some (a, r, fl) => loop f l a r fl
      | None => None
      end
  end
with loop (fuel : nat) (l : nat) (lhs : pexpr) (ts : list tok) (fl : bool) {struct fuel}
       : option (pexpr * list tok * bool) :=
  match fuel with
  | O => None
  | S f =>
    match ts with
    | KOp o :: r =>
        if (lev o =? l) && negb (is_shift o) then
          match parse_lvl f (rhs_lvl l) r with
          | Some (b, r', fl') =>
              if needs_ist l then
                match r' with
                | KIst :: r'' => loop f l (PBin o lhs b) r'' true
                | _ => if fl' then loop f l (PBin o lhs b) r' fl' else None
                end
              else loop f l (PBin o lhs b) r' fl'
          | None => None
          end
        else Some (lhs, ts, fl)
    | KUm :: r =>
        if l =? 7 then
          match parse_lvl f 8 r with
          | Some (b, KVerschoben d :: r', _) => loop f l (PBin (if d then PShl else PShr) lhs b) r' false
          | _ => None
          end
        else Some (lhs, ts, fl)
    | _ => Some (lhs, ts, fl)
    end
  end.

Definition fuel_of (ts : list tok) : nat := 80 * length ts + 80.

(* expression() on a complete token list *)
Definition parse (ts : list tok) : option pexpr :=
  match parse_lvl (fuel_of ts) 0 ts with
  | Some (e, [], _) => Some e
  | _ => None
  end.

(* ---- renderer with minimal parentheses -------------------------------------------------------- *)
Definition prec (e : pexpr) : nat := match e with PAtom _ => 11 | PBin o _ _ => lev o end.

Fixpoint render_at (l : nat) (e : pexpr) : list tok :=
  match e with
  | PAtom n => [KAtom n]
  | PBin o a b =>
      let p := lev o in
      let body :=
        if is_shift o then render_at 7 a ++ KUm :: render_at 8 b ++ [KVerschoben (match o with PShl => true | _ => false end)]
        else if p =? 10 then render_at 11 a ++ KOp o :: render_at 10 b
        else if needs_ist p then render_at p a ++ KOp o :: render_at (S p) b ++ [KIst]
        else render_at p a ++ KOp o :: render_at (S p) b in
      if p <? l then KLP :: body ++ [KRP] else body
  end.

Definition render (e : pexpr) : list tok := render_at 0 e.
