(* prec_roundtrip: parse (render e) = Some e for every expression of the binary-operator fragment. *)
From Coq Require Import List NArith Arith Bool Lia.
Import ListNotations.
From DDP Require Import Lang.Prec.

Definition res := option (pexpr * list tok * bool).

(* ---- more fuel never changes a successful parse -------------------------------------------------- *)
Lemma mono : forall f,
  (forall l ts r, parse_lvl f l ts = Some r -> forall f', f <= f' -> parse_lvl f' l ts = Some r) /\
  (forall l lhs ts fl r, loop f l lhs ts fl = Some r -> forall f', f <= f' -> loop f' l lhs ts fl = Some r).
Proof.
  induction f as [|f [IHp IHl]]; split; intros.
  - discriminate H.
  - discriminate H.
  - destruct f' as [|f']; [lia|]. assert (Hle : f <= f') by lia.
    cbn [parse_lvl] in *.
    destruct (11 <=? l).
    + destruct ts as [|t r']; [discriminate H|].
      destruct t; try discriminate H; auto.
      destruct (parse_lvl f 0 r') as [[[e r''] b]|] eqn:E; [|discriminate H].
      rewrite (IHp _ _ _ E _ Hle). exact H.
    + destruct (parse_lvl f (S l) ts) as [[[a r'] fl]|] eqn:E; [|discriminate H].
      rewrite (IHp _ _ _ E _ Hle). eapply IHl; eauto.
  - destruct f' as [|f']; [lia|]. assert (Hle : f <= f') by lia.
    cbn [loop] in *.
    destruct ts as [|t r']; auto.
    destruct t; auto.
    + destruct ((lev o =? l) && negb (is_shift o)); auto.
      destruct (parse_lvl f (rhs_lvl l) r') as [[[b r''] fl']|] eqn:E; [|discriminate H].
      rewrite (IHp _ _ _ E _ Hle).
      destruct (needs_ist l).
      * destruct r'' as [|t2 r3].
        -- destruct fl'; [eapply IHl; eauto|discriminate H].
        -- destruct t2; try (destruct fl'; [eapply IHl; eauto|discriminate H]).
           eapply IHl; eauto.
      * eapply IHl; eauto.
    + destruct (l =? 7); auto.
      destruct (parse_lvl f 8 r') as [[[b r''] fl']|] eqn:E; [|discriminate H].
      rewrite (IHp _ _ _ E _ Hle).
      destruct r'' as [|t2 r3]; [discriminate H|].
      destruct t2; try discriminate H.
      eapply IHl; eauto.
Qed.

Lemma mono_parse : forall f f' l ts r, parse_lvl f l ts = Some r -> f <= f' -> parse_lvl f' l ts = Some r.
Proof. intros. eapply (proj1 (mono f)); eauto. Qed.
Lemma mono_loop : forall f f' l x ts fl r, loop f l x ts fl = Some r -> f <= f' -> loop f' l x ts fl = Some r.
Proof. intros. eapply (proj2 (mono f)); eauto. Qed.

(* ---- tokens a level-p loop does not consume -------------------------------------------------------- *)
Definition quiet (p : nat) (ts : list tok) : Prop :=
  match ts with
  | KOp o :: _ => (lev o =? p) && negb (is_shift o) = false
  | KUm :: _ => p <> 7
  | _ => True
  end.

Definition quiet_from (k : nat) (ts : list tok) : Prop := forall p, k <= p -> p <= 10 -> quiet p ts.

Lemma loop_quiet : forall f p x ts fl, quiet p ts -> loop (S f) p x ts fl = Some (x, ts, fl).
Proof.
  intros f p x ts fl Q. cbn [loop].
  destruct ts as [|t r]; auto. destruct t; auto.
  - cbn [quiet] in Q. rewrite Q. reflexivity.
  - cbn [quiet] in Q. apply Nat.eqb_neq in Q. rewrite Q. reflexivity.
Qed.

(* the loops of levels l+n-1, ..., l, run in that order *)
Fixpoint cascade (g n l : nat) (x : pexpr) (ts : list tok) (fl : bool) : res :=
  match n with
  | O => Some (x, ts, fl)
  | S n' =>
      match loop g (l + n') x ts fl with
      | Some (x', ts', fl') => cascade g n' l x' ts' fl'
      | None => None
      end
  end.

Lemma cascade_snoc : forall g n l x ts fl,
  cascade g (S n) l x ts fl =
  match cascade g n (S l) x ts fl with
  | Some (x', ts', fl') => loop g l x' ts' fl'
  | None => None
  end.
Proof.
  induction n as [|n IH]; intros.
  - cbn [cascade]. rewrite Nat.add_0_r. destruct (loop g l x ts fl) as [[[? ?] ?]|]; reflexivity.
  - change (cascade g (S (S n)) l x ts fl) with
      (match loop g (l + S n) x ts fl with
       | Some (x', ts', fl') => cascade g (S n) l x' ts' fl' | None => None end).
    change (cascade g (S n) (S l) x ts fl) with
      (match loop g (S l + n) x ts fl with
       | Some (x', ts', fl') => cascade g n (S l) x' ts' fl' | None => None end).
    replace (l + S n) with (S l + n) by lia.
    destruct (loop g (S l + n) x ts fl) as [[[x1 t1] f1]|]; [|reflexivity].
    apply IH.
Qed.

Lemma cascade_skip : forall g n l x ts fl,
  (forall p, l <= p -> p < l + n -> quiet p ts) -> cascade (S g) n l x ts fl = Some (x, ts, fl).
Proof.
  induction n as [|n IH]; intros l x ts fl Q; [reflexivity|].
  cbn [cascade]. rewrite loop_quiet by (apply Q; lia). apply IH. intros; apply Q; lia.
Qed.

(* descending from level l+n to level l: the lower loops run afterwards *)
Lemma descend_gen : forall n l f g ts a r fl R F,
  l + n <= 11 -> f <= F -> g <= F ->
  parse_lvl f (l + n) ts = Some (a, r, fl) ->
  cascade g n l a r fl = Some R ->
  parse_lvl (F + n) l ts = Some R.
Proof.
  induction n as [|n IH]; intros l f g ts a r fl R F Hl Hf Hg Hp Hc.
  - cbn [cascade] in Hc. inversion Hc; subst. rewrite Nat.add_0_r in Hp.
    eapply mono_parse; eauto. lia.
  - cbn [cascade] in Hc.
    destruct (loop g (l + n) a r fl) as [[[x1 t1] f1]|] eqn:EL; [|discriminate Hc].
    assert (Hp' : parse_lvl (S F) (l + n) ts = Some (x1, t1, f1)).
    { cbn [parse_lvl]. replace (11 <=? l + n) with false by (symmetry; apply Nat.leb_gt; lia).
      replace (S (l + n)) with (l + S n) by lia.
      rewrite (mono_parse _ F _ _ _ Hp) by lia.
      eapply mono_loop; eauto. }
    replace (F + S n) with (S F + n) by lia.
    eapply (IH l (S F) g); eauto; lia.
Qed.

Lemma descend : forall n l f g ts a r fl R,
  l + n <= 11 ->
  parse_lvl f (l + n) ts = Some (a, r, fl) ->
  cascade g n l a r fl = Some R ->
  parse_lvl (f + g + n) l ts = Some R.
Proof. intros n l f g ts a r fl R H1 H2 H3. apply (descend_gen n l f g ts a r fl R (f + g)); auto; lia. Qed.

(* ---- fuel bound and bookkeeping ------------------------------------------------------------------ *)
Fixpoint V (e : pexpr) : nat :=
  match e with PAtom _ => 20 | PBin _ a b => V a + V b + 80 end.

Fixpoint nodes (e : pexpr) : nat :=
  match e with PAtom _ => 1 | PBin _ a b => S (nodes a + nodes b) end.

Lemma render_len : forall e l, nodes e <= length (render_at l e).
Proof.
  induction e as [n|o a IHa b IHb]; intros l; [cbn; lia|].
  cbn [render_at nodes].
  assert (H : forall x y (m : tok) sfx, nodes a + nodes b + 1 <= length (render_at x a ++ m :: render_at y b ++ sfx)).
  { intros. rewrite app_length. cbn [length]. rewrite app_length. specialize (IHa x). specialize (IHb y). lia. }
  destruct (lev o <? l); [cbn [length]; rewrite app_length|];
    (destruct (is_shift o); [|destruct (lev o =? 10); [|destruct (needs_ist (lev o))]]).
  all: try (specialize (H 7 8 KUm [KVerschoben match o with PShl => true | _ => false end]); lia).
  all: try (specialize (H 11 10 (KOp o) []); rewrite app_nil_r in H; lia).
  all: try (specialize (H (lev o) (S (lev o)) (KOp o) [KIst]); lia).
  all: try (specialize (H (lev o) (S (lev o)) (KOp o) []); rewrite app_nil_r in H; lia).
Qed.

Lemma V_nodes : forall e, V e <= 80 * nodes e.
Proof. induction e; cbn [V nodes]; lia. Qed.

Definition qlev (e : pexpr) (l : nat) : nat := if prec e <? l then 10 else Nat.min (prec e) 10.
Definition qreq (e : pexpr) (l : nat) : nat :=
  if prec e <? l then 11
  else match e with PAtom _ => 11 | PBin o _ _ => if lev o =? 10 then 10 else S (lev o) end.

Lemma lev_le_10 : forall o, lev o <= 10.
Proof. destruct o; cbn; lia. Qed.

Lemma quiet_from_weaken : forall k k' ts, k <= k' -> quiet_from k ts -> quiet_from k' ts.
Proof. intros k k' ts H Q p Hp Hp'. apply Q; lia. Qed.

Lemma qreq_ge : forall e l, l <= 11 -> l <= qreq e l.
Proof.
  intros e l Hl. unfold qreq. destruct (prec e <? l) eqn:E; [lia|].
  apply Nat.ltb_ge in E. destruct e as [|o a b]; [lia|]. cbn [prec] in E.
  destruct (lev o =? 10) eqn:E10; [apply Nat.eqb_eq in E10; lia|lia].
Qed.

Lemma qlev_ge : forall e l, l <= 10 -> l <= qlev e l.
Proof.
  intros e l Hl. unfold qlev. destruct (prec e <? l) eqn:E; [lia|].
  apply Nat.ltb_ge in E. lia.
Qed.

Lemma quiet_op_other : forall o p r, lev o <> p -> quiet p (KOp o :: r).
Proof. intros. cbn [quiet]. apply Nat.eqb_neq in H. rewrite H. reflexivity. Qed.

(* ---- the main induction ---------------------------------------------------------------------------- *)
Definition T (e : pexpr) : Prop :=
  forall l rest, l <= 11 -> quiet_from (qreq e l) rest ->
  exists fl, forall g R,
    cascade g (qlev e l + 1 - l) l e rest fl = Some R ->
    parse_lvl (V e + g) l (render_at l e ++ rest) = Some R.

Lemma T_atom : forall n, T (PAtom n).
Proof.
  intros n l rest Hl _. exists false. intros g R Hc.
  cbn [render_at app]. unfold qlev in Hc. cbn [prec] in Hc.
  replace (11 <? l) with false in Hc by (symmetry; apply Nat.ltb_ge; lia).
  replace (Nat.min 11 10 + 1 - l) with (11 - l) in Hc by lia.
  assert (P : parse_lvl 1 (l + (11 - l)) (KAtom n :: rest) = Some (PAtom n, rest, false)).
  { replace (l + (11 - l)) with 11 by lia. reflexivity. }
  eapply mono_parse; [eapply (descend (11 - l) l 1 g); eauto; lia|cbn [V]; lia].
Qed.

(* the unparenthesised body of a binary expression *)
Definition body (o : pop) (a b : pexpr) : list tok :=
  let p := lev o in
  if is_shift o then render_at 7 a ++ KUm :: render_at 8 b ++ [KVerschoben (match o with PShl => true | _ => false end)]
  else if p =? 10 then render_at 11 a ++ KOp o :: render_at 10 b
  else if needs_ist p then render_at p a ++ KOp o :: render_at (S p) b ++ [KIst]
  else render_at p a ++ KOp o :: render_at (S p) b.

Lemma render_bin : forall l o a b,
  render_at l (PBin o a b) = if lev o <? l then KLP :: body o a b ++ [KRP] else body o a b.
Proof. reflexivity. Qed.

(* what IH gives for an operand that is followed by a token no loop above the operator's level consumes *)
Lemma operand_done : forall x lx rest,
  T x -> lx <= 11 ->
  quiet_from lx rest ->
  exists fl, forall g, parse_lvl (V x + S g) lx (render_at lx x ++ rest) = Some (x, rest, fl).
Proof.
  intros x lx rest Tx Hl Q.
  destruct (Tx lx rest Hl) as [fl H].
  { eapply quiet_from_weaken; [apply qreq_ge; auto|exact Q]. }
  exists fl. intros g. apply H. apply cascade_skip.
  intros p Hp1 Hp2. apply Q; [lia|].
  destruct (Nat.le_gt_cases lx 10) as [L|L].
  - assert (qlev x lx <= 10) by (unfold qlev; destruct (prec x <? lx); lia). lia.
  - assert (lx = 11) by lia. subst. unfold qlev in Hp2. destruct (prec x <? 11); lia.
Qed.

(* same, but the operand is the LEFT operand at the operator's own level p: the level-p loop goes on *)
Lemma left_operand : forall x p rest,
  T x -> p <= 9 ->
  (forall q, q <> p -> quiet q rest) ->
  exists fl, forall g R,
    loop (S g) p x rest fl = Some R ->
    parse_lvl (V x + S g) p (render_at p x ++ rest) = Some R.
Proof.
  intros x p rest Tx Hp Q.
  destruct (Tx p rest) as [fl H]; [lia| |].
  { intros q Hq1 Hq2. apply Q. pose proof (qreq_ge x p).
    unfold qreq in *. destruct (prec x <? p) eqn:E; [lia|]. apply Nat.ltb_ge in E.
    destruct x as [|o a b]; [lia|]. cbn [prec] in E.
    destruct (lev o =? 10) eqn:E10; lia. }
  exists fl. intros g R HL. apply H.
  assert (QL : p <= qlev x p) by (apply qlev_ge; lia).
  replace (qlev x p + 1 - p) with (S (qlev x p - p)) by lia.
  rewrite cascade_snoc.
  rewrite cascade_skip by (intros q Hq1 Hq2; apply Q; lia).
  exact HL.
Qed.

Lemma T_bin : forall o a b, T a -> T b -> T (PBin o a b).
Proof.
  intros o a b Ta Tb.
  set (p := lev o).
  assert (P10 : p <= 10) by apply lev_le_10.
  (* (star): at the operator's own level, for the unparenthesised body *)
  assert (STAR : forall rest, quiet_from (if p =? 10 then 10 else S p) rest ->
            exists fl, forall g R, loop (S g) p (PBin o a b) rest fl = Some R ->
              parse_lvl (V a + V b + 10 + g) p (body o a b ++ rest) = Some R).
  { intros rest Q. unfold body. fold p.
    destruct (is_shift o) eqn:SH.
    - (* shift *)
      assert (p = 7) by (destruct o; try discriminate SH; reflexivity).
      replace (p =? 10) with false in Q by (subst p; rewrite H; reflexivity).
      destruct (operand_done b 8 (KVerschoben (match o with PShl => true | _ => false end) :: rest) Tb) as [flb Hb]; [lia| |].
      { intros q _ _. exact I. }
      destruct (left_operand a 7 (KUm :: render_at 8 b ++ KVerschoben (match o with PShl => true | _ => false end) :: rest) Ta) as [fla Ha]; [lia| |].
      { intros q Hq. cbn [quiet]. exact Hq. }
      exists false. intros g R HL.
      rewrite <- app_assoc. cbn [app]. rewrite <- app_assoc. cbn [app].
      rewrite H in *.
      eapply mono_parse; [apply (Ha (V b + S (S g)))|lia].
      cbn [loop]. cbn [Nat.eqb].
      rewrite (Hb (S g)).
      assert (EO : (if match o with PShl => true | _ => false end then PShl else PShr) = o)
        by (destruct o; try discriminate SH; reflexivity).
      rewrite EO. eapply mono_loop; eauto. lia.
    - destruct (p =? 10) eqn:E10.
      + (* power: the left operand is a primary, the right operand is parsed at the power level again *)
        apply Nat.eqb_eq in E10.
        assert (Q10 : quiet 10 rest) by (apply Q; lia).
        destruct (Tb 10 rest) as [flb Hb]; [lia| |].
        { eapply quiet_from_weaken; [|exact Q]. unfold qreq. destruct (prec b <? 10) eqn:PB; [lia|].
          apply Nat.ltb_ge in PB.
          destruct b as [|ob b1 b2]; [lia|]. cbn [prec] in PB. destruct (lev ob =? 10) eqn:EE; [lia|].
          pose proof (lev_le_10 ob). apply Nat.eqb_neq in EE. lia. }
        assert (Hb' : forall g, parse_lvl (V b + S g) 10 (render_at 10 b ++ rest) = Some (b, rest, flb)).
        { intros g. apply Hb.
          assert (QB : qlev b 10 = 10) by (unfold qlev; destruct (prec b <? 10) eqn:EE; [reflexivity|apply Nat.ltb_ge in EE; lia]).
          rewrite QB. cbn [cascade Nat.sub Nat.add]. rewrite loop_quiet by exact Q10. reflexivity. }
        destruct (operand_done a 11 (KOp o :: render_at 10 b ++ rest) Ta) as [fla Ha]; [lia| |].
        { intros q Hq1 Hq2. lia. }
        exists flb. intros g R HL.
        rewrite <- app_assoc. cbn [app].
        rewrite E10 in *.
        replace (V a + V b + 10 + g) with (S (V a + V b + 9 + g)) by lia.
        cbn [parse_lvl]. cbn [Nat.leb].
        rewrite (mono_parse _ (V a + V b + 9 + g) _ _ _ (Ha 0)) by lia.
        replace (V a + V b + 9 + g) with (S (V a + V b + 8 + g)) by lia.
        cbn [loop].
        assert (LO : (lev o =? 10) && negb (is_shift o) = true).
        { fold p. rewrite E10. rewrite SH. reflexivity. }
        rewrite LO. cbn [rhs_lvl Nat.eqb].
        rewrite (mono_parse _ (V a + V b + 8 + g) _ _ _ (Hb' 0)) by lia.
        cbn [needs_ist Nat.eqb orb].
        eapply mono_loop; eauto. lia.
      + (* the generic left-associative levels *)
        apply Nat.eqb_neq in E10. assert (P9 : p <= 9) by lia.
        assert (LO : (lev o =? p) && negb (is_shift o) = true).
        { unfold p. rewrite Nat.eqb_refl. rewrite SH. reflexivity. }
        assert (RL : rhs_lvl p = S p).
        { unfold rhs_lvl. replace (p =? 10) with false by (symmetry; apply Nat.eqb_neq; lia). reflexivity. }
        destruct (needs_ist p) eqn:NI.
        * destruct (operand_done b (S p) (KIst :: rest) Tb) as [flb Hb]; [lia| |].
          { intros q _ _. exact I. }
          destruct (left_operand a p (KOp o :: render_at (S p) b ++ KIst :: rest) Ta) as [fla Ha]; [lia| |].
          { intros q Hq. apply quiet_op_other. fold p. lia. }
          exists true. intros g R HL.
          rewrite <- app_assoc. cbn [app]. rewrite <- app_assoc. cbn [app].
          eapply mono_parse; [apply (Ha (V b + S (S g)))|lia].
          cbn [loop]. rewrite LO. rewrite RL. rewrite (Hb (S g)). rewrite NI.
          eapply mono_loop; eauto. lia.
        * destruct (operand_done b (S p) rest Tb) as [flb Hb]; [lia|exact Q|].
          destruct (left_operand a p (KOp o :: render_at (S p) b ++ rest) Ta) as [fla Ha]; [lia| |].
          { intros q Hq. apply quiet_op_other. fold p. lia. }
          exists flb. intros g R HL.
          rewrite <- app_assoc. cbn [app].
          eapply mono_parse; [apply (Ha (V b + S (S g)))|lia].
          cbn [loop]. rewrite LO. rewrite RL. rewrite (Hb (S g)). rewrite NI.
          eapply mono_loop; eauto. lia. }
  (* unparenthesised at any level l <= p *)
  assert (UNP : forall l rest, l <= p -> quiet_from (if p =? 10 then 10 else S p) rest ->
            exists fl, forall g R, cascade (S g) (p + 1 - l) l (PBin o a b) rest fl = Some R ->
              parse_lvl (V a + V b + 30 + g) l (body o a b ++ rest) = Some R).
  { intros l rest Hl Q. destruct (STAR rest Q) as [fl HS]. exists fl. intros g R HC.
    replace (p + 1 - l) with (S (p - l)) in HC by lia.
    cbn [cascade] in HC. replace (l + (p - l)) with p in HC by lia.
    destruct (loop (S g) p (PBin o a b) rest fl) as [[[x1 t1] f1]|] eqn:EL; [|discriminate HC].
    specialize (HS g _ EL).
    eapply mono_parse; [eapply (descend_gen (p - l) l (V a + V b + 10 + g) (S g) _ _ _ _ _ (V a + V b + 10 + g)); eauto|lia].
    - lia.
    - lia.
    - replace (l + (p - l)) with p by lia. exact HS. }
  intros l rest Hl Q.
  rewrite render_bin. fold p.
  destruct (p <? l) eqn:PL.
  - (* parenthesised: primary, then every loop from level 10 down to l *)
    apply Nat.ltb_lt in PL.
    destruct (UNP 0 (KRP :: rest)) as [fl0 H0]; [lia|intros q _ _; exact I|].
    exists false. intros g R HC.
    unfold qlev in HC. cbn [prec] in HC. fold p in HC.
    replace (p <? l) with true in HC by (symmetry; apply Nat.ltb_lt; lia).
    replace (10 + 1 - l) with (11 - l) in HC by lia.
    assert (PR : parse_lvl (S (V a + V b + 30)) (l + (11 - l)) (KLP :: (body o a b ++ [KRP]) ++ rest) = Some (PBin o a b, rest, false)).
    { replace (l + (11 - l)) with 11 by lia.
      cbn [parse_lvl]. cbn [Nat.leb].
      rewrite <- app_assoc. cbn [app].
      replace (V a + V b + 30) with (V a + V b + 30 + 0) by lia.
      rewrite (H0 0 (PBin o a b, KRP :: rest, fl0)); [reflexivity|].
      apply cascade_skip. intros q _ _. exact I. }
    cbn [app] in PR |- *.
    eapply mono_parse; [eapply (descend (11 - l) l _ g); eauto; lia|cbn [V]; lia].
  - apply Nat.ltb_ge in PL.
    destruct (UNP l rest PL) as [fl H].
    { unfold qreq in Q. cbn [prec] in Q. fold p in Q.
      replace (p <? l) with false in Q by (symmetry; apply Nat.ltb_ge; lia). exact Q. }
    exists fl. intros g R HC.
    unfold qlev in HC. cbn [prec] in HC. fold p in HC.
    replace (p <? l) with false in HC by (symmetry; apply Nat.ltb_ge; lia).
    replace (Nat.min p 10) with p in HC by lia.
    destruct g as [|g].
    { (* no fuel: the cascade has at least one loop, which fails *)
      replace (p + 1 - l) with (S (p - l)) in HC by lia. cbn [cascade loop] in HC. discriminate HC. }
    eapply mono_parse; [apply (H g R HC)|cbn [V]; lia].
Qed.

Lemma T_all : forall e, T e.
Proof. induction e; [apply T_atom|apply T_bin; assumption]. Qed.

Theorem prec_roundtrip : forall e, parse (render e) = Some e.
Proof.
  intros e. unfold parse, render.
  destruct (T_all e 0 []) as [fl H]; [lia|intros p _ _; exact I|].
  assert (C : cascade 1 (qlev e 0 + 1 - 0) 0 e [] fl = Some (e, [], fl)).
  { apply cascade_skip. intros p _ _. exact I. }
  specialize (H 1 _ C). rewrite app_nil_r in H.
  rewrite (mono_parse _ (fuel_of (render_at 0 e)) _ _ _ H); [reflexivity|].
  unfold fuel_of. pose proof (render_len e 0). pose proof (V_nodes e). lia.
Qed.
