(* RefSem — the SPECIFICATION side of C01: DDP's evaluation rules for the core language as a fuel-indexed
   big-step evaluator over mathematical values.

     exec_program : fuel -> program -> outcome

   Values: Zahl = Z in [-2^63, 2^63) with explicit wrap, Byte = Z in [0,256), Kommazahl = IEEE binary64
   (bit pattern, Flocq operations, NaN canonical), Buchstabe = 32-bit code point, Text = list of code
   points, lists = Coq lists tagged with their element type.  Output = the bytes written to stdout.
   Outcome = normal end (exit 0) | Laufzeitfehler (exit 1) | undefined by a listed guard | out of fuel;
   every outcome carries the output written so far.

   External functions are Section variables: libm [pow], [log10] on bit patterns and the C format
   "%.16g" (DDP_FLOAT_FMT) as [fmt_float : bits -> code points]; the OCaml driver instantiates them.

   SOURCES of the rules: README/CHANGELOG ("Byte: natürliche Zahl 0..255"), the doc comments of
   Duden/Ausgabe.ddp, the result-type rules of the typechecker, upstream's golden programs.
   Where these leave a choice open it was resolved by reading src/compiler/compiler.go and is LISTED here
   (so the spec is neither a wish list nor a silent copy of the code):

   | # | choice                                                                  | read off                    |
   |---|-------------------------------------------------------------------------|-----------------------------|
   | 1 | Zahl arithmetic wraps modulo 2^64 (two's complement); Byte modulo 256   | add/sub/mul on i64 / i8     |
   | 2 | durch / hoch / Logarithmus always yield Kommazahl; Zahl operands are    | sitofp, uitofp; fdiv; pow;  |
   |   | converted as signed, Byte operands as UNSIGNED; Logarithmus = log10 a / log10 b | log10/log10          |
   | 3 | modulo truncates like C (sign of the dividend); Byte modulo Byte is unsigned | srem / urem             |
   | 4 | Zahl (+,-,*,modulo,logisch) Byte gives a Zahl (Byte zero-extended)       | compiler.go 1112,1423; typechecker since 5ca8f5e |
   | 5 | rechts verschoben is a LOGICAL shift, also on negative Zahlen            | lshr                        |
   | 6 | comparisons with a Kommazahl operand are ordered (false on NaN);         | fcmp o**                    |
   |   | gleich on Kommazahlen is IEEE equality (-0 = +0, NaN <> NaN)             | fcmp oeq                    |
   | 7 | Betrag of a Kommazahl is  x < 0 ? 0 - x : x  (so Betrag(-0,0) = -0,0)     | compiler.go 878             |
   | 8 | x zwischen a und b is strict and symmetric in a, b                       | compiler.go 1699            |
   | 9 | operands evaluate left to right; `falls` evaluates the condition first,  | VisitBinaryExpr, TER_FALLS  |
   |   | then only the chosen side; call arguments in parameter declaration order | VisitFuncCall               |
   |10 | assignment evaluates the right-hand side before the index of the target  | VisitAssignStmt             |
   |11 | Kommazahl -> Zahl/Byte truncates toward zero and saturates (NaN -> 0); a | fptosi.sat/fptoui.sat/trunc |
   |   | Zahl shift count for a Byte keeps its low 8 bits; Zahl -> Byte keeps the low |                         |
   |   | 8 bits; Zahl -> Buchstabe keeps the low 32 bits; declaration/assignment  | numericCast in VisitVarDecl |
   |   | between numeric types converts implicitly the same way                   | / VisitAssignStmt           |
   |12 | counting loop: the step is evaluated once before the loop, the end value | VisitForStmt                |
   |   | before every iteration; direction = sign of the step; bound inclusive;   |                             |
   |   | iteration is driven by a hidden 64-bit (or Kommazahl) counter from which |                             |
   |   | the visible variable is re-assigned at every increment (so a Byte counter|                             |
   |   | 0..255 terminates and assignments to the counter do not change the trip  |                             |
   |   | count)                                                                   |                             |
   |13 | Wiederhole n Mal evaluates n once; for-each copies the iterated value    | VisitWhileStmt/ForRange     |
   |   | first; its index variable is an ordinary variable incremented per round  |                             |
   |14 | slicing clamps both bounds to [1, length], an empty operand gives an     | operators.c / list slice    |
   |   | empty result, crossed bounds after clamping are a Laufzeitfehler         |                             |
   |15 | Text to Zahl/Kommazahl conversion (strtoll/strtod) is outside the fragment | G_out_of_fragment         |

   GUARDS (outcome [Undefined g]): the language/implementation leaves these cases undefined (C-string artefacts,
   a loop that runs 2^64 times); theorems and the correspondence exclude exactly them:
     G_repeat_negative (Wiederhole with a negative count), G_bad_codepoint (a Buchstabe that is 0, a surrogate
     or > 0x10FFFF reaches a Text or the output), G_dangling_ref (a Referenz to a list element outlives the
     element), G_ill_typed (the program is not well typed: no rule applies), G_out_of_fragment.
   No longer guards (defined since 78c0539, c5f1978, 70f7a29): x modulo 0 is a Laufzeitfehler, the smallest Zahl
   modulo -1 is 0, a shift count outside 0..width-1 gives 0, Kommazahl -> Zahl/Byte saturates (NaN gives 0). *)
From Coq Require Import ZArith List Bool.
Import ListNotations.
From DDP Require Import Lang.Syntax Lang.F64.
Open Scope Z_scope.

(* ------------------------------------------------------------------------------------------------ *)
(* values                                                                                           *)
(* ------------------------------------------------------------------------------------------------ *)
Inductive value : Type :=
| VZ (z : Z) | VK (bits : Z) | VB (z : Z) | VW (b : bool) | VC (c : Z) | VT (cs : list Z)
| VL (elem : ty) (vs : list value).

Definition wrap64 (z : Z) : Z := (z + 2^63) mod 2^64 - 2^63.
Definition wrap32 (z : Z) : Z := (z + 2^31) mod 2^32 - 2^31.
Definition wrap8 (z : Z) : Z := z mod 256.
Definition min64 : Z := - 2^63.
Definition max64 : Z := 2^63 - 1.

Definition type_of (v : value) : ty :=
  match v with
  | VZ _ => TZahl | VK _ => TKomma | VB _ => TByte | VW _ => TBool | VC _ => TChar | VT _ => TText
  | VL t _ => TList t
  end.

Definition is_numeric_ty (t : ty) : bool :=
  match t with TZahl | TKomma | TByte => true | _ => false end.

Inductive guard : Type :=
| G_repeat_negative | G_bad_codepoint | G_dangling_ref | G_ill_typed | G_out_of_fragment.

(* result of one operator application *)
Inductive opres : Type :=
| ROk (v : value)
| RErr                      (* Laufzeitfehler *)
| RUndef (g : guard).

(* ------------------------------------------------------------------------------------------------ *)
(* text helpers                                                                                     *)
(* ------------------------------------------------------------------------------------------------ *)
Definition valid_cp (c : Z) : bool :=
  (1 <=? c) && (c <=? 1114111) && negb ((55296 <=? c) && (c <=? 57343)).

Definition utf8 (c : Z) : list Z :=
  if c <? 128 then [c]
  else if c <? 2048 then [192 + c / 64; 128 + c mod 64]
  else if c <? 65536 then [224 + c / 4096; 128 + (c / 64) mod 64; 128 + c mod 64]
  else [240 + c / 262144; 128 + (c / 4096) mod 64; 128 + (c / 64) mod 64; 128 + c mod 64].

Fixpoint digits_aux (fuel : nat) (n : Z) (acc : list Z) : list Z :=
  match fuel with
  | O => acc
  | S f => if n <? 10 then (48 + n) :: acc else digits_aux f (n / 10) ((48 + n mod 10) :: acc)
  end.
Definition dec_nonneg (n : Z) : list Z := digits_aux (S (Z.to_nat (Z.log2 n))) n [].
Definition dec_Z (z : Z) : list Z := if z <? 0 then 45 :: dec_nonneg (- z) else dec_nonneg z.

Definition txt_wahr : list Z := [119; 97; 104; 114].
Definition txt_falsch : list Z := [102; 97; 108; 115; 99; 104].
Definition txt_unendlich : list Z := [85; 110; 101; 110; 100; 108; 105; 99; 104].
Definition txt_nan : list Z := [75; 101; 105; 110; 101; 32; 90; 97; 104; 108; 32; 40; 78; 97; 78; 41]. (* Keine Zahl (NaN) *)

Definition all_valid (cs : list Z) : bool := forallb valid_cp cs.

(* ------------------------------------------------------------------------------------------------ *)
(* list helpers (1-based)                                                                           *)
(* ------------------------------------------------------------------------------------------------ *)
Definition zlen {A} (l : list A) : Z := Z.of_nat (length l).
Definition nth1 {A} (l : list A) (i : Z) : option A := nth_error l (Z.to_nat (i - 1)).
Fixpoint set_nth {A} (l : list A) (n : nat) (x : A) : list A :=
  match l, n with
  | [], _ => []
  | _ :: t, O => x :: t
  | h :: t, S n' => h :: set_nth t n' x
  end.
Definition set1 {A} (l : list A) (i : Z) (x : A) : list A := set_nth l (Z.to_nat (i - 1)) x.
Definition sub1 {A} (l : list A) (a b : Z) : list A :=  (* elements a..b inclusive, 1 <= a <= b <= len *)
  firstn (Z.to_nat (b - a + 1)) (skipn (Z.to_nat (a - 1)) l).
Definition clamp (i lo hi : Z) : Z := let t := if i <? lo then lo else i in if t >? hi then hi else t.

(* slicing rule (choice 14); [mk] rebuilds the value *)
Definition slice {A} (l : list A) (a b : Z) (mk : list A -> value) : opres :=
  if zlen l =? 0 then ROk (mk [])
  else let a' := clamp a 1 (zlen l) in let b' := clamp b 1 (zlen l) in
       if b' <? a' then RErr else ROk (mk (sub1 l a' b')).

(* ------------------------------------------------------------------------------------------------ *)
(* operators                                                                                        *)
(* ------------------------------------------------------------------------------------------------ *)
Fixpoint list_eqb {A} (eqb : A -> A -> bool) (a b : list A) : bool :=
  match a, b with
  | [], [] => true
  | x :: a', y :: b' => eqb x y && list_eqb eqb a' b'
  | _, _ => false
  end.

(* gleich: same-type values; lists compare length and then element-wise *)
Fixpoint value_eqb (a b : value) : option bool :=
  match a, b with
  | VZ x, VZ y | VB x, VB y | VC x, VC y => Some (x =? y)
  | VW x, VW y => Some (Bool.eqb x y)
  | VK x, VK y => Some (f_eq x y)
  | VT x, VT y => Some (list_eqb Z.eqb x y)
  | VL t x, VL u y =>
      if ty_eqb t u then
        (fix go (x y : list value) : option bool :=
           match x, y with
           | [], [] => Some true
           | p :: x', q :: y' =>
               match value_eqb p q with
               | Some true => go x' y'
               | Some false => match go x' y' with Some _ => Some false | None => None end
               | None => None
               end
           | _, _ => Some false
           end) x y
      else None
  | _, _ => None
  end.

Definition to_f (v : value) : option Z :=
  match v with VZ z => Some (f_of_Z z) | VB z => Some (f_of_Z z) | VK b => Some b | _ => None end.
Definition to_i (v : value) : option Z :=   (* integer operands: Byte zero-extended *)
  match v with VZ z => Some z | VB z => Some z | _ => None end.
Definition is_K (v : value) : bool := match v with VK _ => true | _ => false end.
Definition is_B (v : value) : bool := match v with VB _ => true | _ => false end.

Definition ill : opres := RUndef G_ill_typed.

(* plus / minus / mal *)
Definition arith (fz : Z -> Z -> Z) (ff : Z -> Z -> Z) (a b : value) : opres :=
  match a, b with
  | VB x, VB y => ROk (VB (wrap8 (fz x y)))
  | _, _ =>
    if is_K a || is_K b then
      match to_f a, to_f b with Some x, Some y => ROk (VK (ff x y)) | _, _ => ill end
    else
      match to_i a, to_i b with Some x, Some y => ROk (VZ (wrap64 (fz x y))) | _, _ => ill end
  end.

Definition fbin (ff : Z -> Z -> Z) (a b : value) : opres :=
  match to_f a, to_f b with Some x, Some y => ROk (VK (ff x y)) | _, _ => ill end.

Definition bitop (f : Z -> Z -> Z) (a b : value) : opres :=
  match a, b with
  | VB x, VB y => ROk (VB (f x y))
  | _, _ => match to_i a, to_i b with Some x, Some y => ROk (VZ (wrap64 (f x y))) | _, _ => ill end
  end.

(* modulo: a zero divisor is a Laufzeitfehler; x modulo -1 is 0 for every Zahl (also the smallest one) *)
Definition modulo (a b : value) : opres :=
  match a, b with
  | VB x, VB y => if y =? 0 then RErr else ROk (VB (x mod y))
  | _, _ =>
    match to_i a, to_i b with
    | Some x, Some y => if y =? 0 then RErr else ROk (VZ (Z.rem x y))
    | _, _ => ill
    end
  end.

(* shifts: the count is converted to the type of the shifted value (a Zahl count for a Byte keeps its low 8 bits);
   a count outside 0..width-1 moves every bit out: the result is 0 *)
Definition shift (left : bool) (a b : value) : opres :=
  match to_i b with
  | None => ill
  | Some n =>
    match a with
    | VZ x => if (n <? 0) || (64 <=? n) then ROk (VZ 0)
              else ROk (VZ (if left then wrap64 (x * 2 ^ n) else wrap64 ((x mod 2^64) / 2 ^ n)))
    | VB x => let c := match b with VB _ => n | _ => n mod 256 end in
              if 8 <=? c then ROk (VB 0)
              else ROk (VB (if left then wrap8 (x * 2 ^ c) else x / 2 ^ c))
    | _ => ill
    end
  end.

Definition compare (fi : Z -> Z -> bool) (ff : Z -> Z -> bool) (a b : value) : opres :=
  if is_K a || is_K b then
    match to_f a, to_f b with Some x, Some y => ROk (VW (ff x y)) | _, _ => ill end
  else
    match to_i a, to_i b with Some x, Some y => ROk (VW (fi x y)) | _, _ => ill end.

Definition index_of (v : value) : option Z := to_i v.

Definition concat (a b : value) : opres :=
  match a, b with
  | VT x, VT y => ROk (VT (x ++ y))
  | VT x, VC c => if valid_cp c then ROk (VT (x ++ [c])) else RUndef G_bad_codepoint
  | VC c, VT y => if valid_cp c then ROk (VT (c :: y)) else RUndef G_bad_codepoint
  | VL t x, VL u y => if ty_eqb t u then ROk (VL t (x ++ y)) else ill
  | VL t x, y => if ty_eqb t (type_of y) then ROk (VL t (x ++ [y])) else ill
  | x, VL u y => if ty_eqb u (type_of x) then ROk (VL u (x :: y)) else ill
  | x, y => if ty_eqb (type_of x) (type_of y) then ROk (VL (type_of x) [x; y]) else ill
  end.

Definition index (a b : value) : opres :=
  match index_of b with
  | None => ill
  | Some i =>
    match a with
    | VT cs => match (if (1 <=? i) && (i <=? zlen cs) then nth1 cs i else None) with
               | Some c => ROk (VC c) | None => RErr end
    | VL _ vs => match (if (1 <=? i) && (i <=? zlen vs) then nth1 vs i else None) with
                 | Some v => ROk v | None => RErr end
    | _ => ill
    end
  end.

Definition slice3 (l a b : value) : opres :=
  match index_of a, index_of b with
  | Some i, Some j =>
    match l with
    | VT cs => slice cs i j VT
    | VL t vs => slice vs i j (VL t)
    | _ => ill
    end
  | _, _ => ill
  end.

Definition len_of (v : value) : opres :=
  match v with
  | VT cs => ROk (VZ (zlen cs))
  | VL _ vs => ROk (VZ (zlen vs))
  | _ => ill
  end.

Definition between (x a b : value) : opres :=
  if is_K x || is_K a || is_K b then
    match to_f x, to_f a, to_f b with
    | Some fx, Some fa, Some fb =>
        ROk (VW ((f_gt fx fb && f_lt fx fa) || (f_gt fx fa && f_lt fx fb)))
    | _, _, _ => ill
    end
  else
    match to_i x, to_i a, to_i b with
    | Some ix, Some ia, Some ib => ROk (VW (((ix >? ib) && (ix <? ia)) || ((ix >? ia) && (ix <? ib))))
    | _, _, _ => ill
    end.

Section WithLibc.
Variable pow : Z -> Z -> Z.        (* libm pow on bit patterns *)
Variable log10 : Z -> Z.           (* libm log10 *)
Variable fmt_float : Z -> list Z.  (* sprintf("%.16g") as code points *)

Definition un_op (op : unop) (v : value) : opres :=
  match op, v with
  | UAbs, VZ z => ROk (VZ (if z <? 0 then wrap64 (- z) else z))
  | UAbs, VK b => ROk (VK (if f_lt b f_pos_zero then f_sub f_pos_zero b else f_canon b))
  | UAbs, VB z => ROk (VZ z)
  | UNeg, VZ z => ROk (VZ (wrap64 (- z)))
  | UNeg, VK b => ROk (VK (f_neg b))
  | UNeg, VB z => ROk (VZ (- z))
  | UNot, VW b => ROk (VW (negb b))
  | ULogicNot, VZ z => ROk (VZ (- z - 1))
  | ULogicNot, VB z => ROk (VB (255 - z))
  | ULen, _ => len_of v
  | _, _ => ill
  end.

Definition bin_op (op : binop) (a b : value) : opres :=
  match op with
  | BAnd => match a, b with VW x, VW y => ROk (VW (x && y)) | _, _ => ill end
  | BOr => match a, b with VW x, VW y => ROk (VW (x || y)) | _, _ => ill end
  | BXor => match a, b with VW x, VW y => ROk (VW (xorb x y)) | _, _ => ill end
  | BConcat => concat a b
  | BPlus => arith Z.add f_add a b
  | BMinus => arith Z.sub f_sub a b
  | BMult => arith Z.mul f_mul a b
  | BDiv => fbin f_div a b
  | BPow => fbin (fun x y => f_canon (pow x y)) a b
  | BLog => fbin (fun x y => f_div (f_canon (log10 x)) (f_canon (log10 y))) a b
  | BIndex => index a b
  | BLogicAnd => bitop Z.land a b
  | BLogicOr => bitop Z.lor a b
  | BLogicXor => bitop Z.lxor a b
  | BMod => modulo a b
  | BShl => shift true a b
  | BShr => shift false a b
  | BEq => if ty_eqb (type_of a) (type_of b)
           then match value_eqb a b with Some r => ROk (VW r) | None => ill end else ill
  | BNe => if ty_eqb (type_of a) (type_of b)
           then match value_eqb a b with Some r => ROk (VW (negb r)) | None => ill end else ill
  | BLt => compare Z.ltb f_lt a b
  | BGt => compare Z.gtb f_gt a b
  | BLe => compare Z.leb f_le a b
  | BGe => compare Z.geb f_ge a b
  | BSliceTo => match len_of a with ROk _ => slice3 a (VZ 1) b | r => r end
  | BSliceFrom => match len_of a with ROk n => slice3 a b n | r => r end
  end.

Definition ter_op (op : terop) (a b c : value) : opres :=
  match op with
  | TSlice => slice3 a b c
  | TBetween => between a b c
  | TFalls => ill  (* lazy: handled by the evaluator *)
  end.

(* `als` *)
Definition cast_to (t : ty) (v : value) : opres :=
  match t, v with
  | TZahl, VZ z => ROk (VZ z)
  | TZahl, VB z => ROk (VZ z)
  | TZahl, VK b => ROk (VZ (f_to_Z_sat min64 max64 b))
  | TZahl, VW b => ROk (VZ (if b then 1 else 0))
  | TZahl, VC c => ROk (VZ c)
  | TZahl, VT _ => RUndef G_out_of_fragment
  | TKomma, VZ z => ROk (VK (f_of_Z z))
  | TKomma, VB z => ROk (VK (f_of_Z z))
  | TKomma, VK b => ROk (VK (f_canon b))
  | TKomma, VT _ => RUndef G_out_of_fragment
  | TByte, VZ z => ROk (VB (wrap8 z))
  | TByte, VB z => ROk (VB z)
  | TByte, VK b => ROk (VB (f_to_Z_sat 0 255 b))
  | TBool, VZ z => ROk (VW (negb (z =? 0)))
  | TBool, VB z => ROk (VW (negb (z =? 0)))
  | TBool, VW b => ROk (VW b)
  | TChar, VZ z => ROk (VC (wrap32 z))
  | TChar, VB z => ROk (VC z)
  | TChar, VC c => ROk (VC c)
  | TText, VZ z => ROk (VT (dec_Z z))
  | TText, VB z => ROk (VT (dec_Z z))
  | TText, VK b => ROk (VT (fmt_float (f_canon b)))
  | TText, VW b => ROk (VT (if b then txt_wahr else txt_falsch))
  | TText, VC c => if valid_cp c then ROk (VT [c]) else RUndef G_bad_codepoint
  | TText, VT cs => ROk (VT cs)
  | TList e, VL u vs => if ty_eqb e u then ROk (VL u vs) else ill
  | TList e, x => if ty_eqb e (type_of x) then ROk (VL e [x]) else ill
  | _, _ => ill
  end.

(* implicit conversion at declaration / assignment (choice 11): numeric to numeric converts, everything
   else must already have the target type *)
Definition coerce (t : ty) (v : value) : opres :=
  if ty_eqb t (type_of v) then ROk v
  else if is_numeric_ty t && is_numeric_ty (type_of v) then cast_to t v
  else ill.

(* what Schreibe writes *)
Definition print_bytes (v : value) : option (list Z) + guard :=
  match v with
  | VZ z => inl (Some (dec_Z z))
  | VB z => inl (Some (dec_Z z))
  | VW b => inl (Some (if b then txt_wahr else txt_falsch))
  | VK b => inl (Some (if f_is_nan b then txt_nan
                       else if f_is_inf b then (if f_sign b then 45 :: txt_unendlich else txt_unendlich)
                       else fmt_float (f_canon b)))
  | VC c => if valid_cp c then inl (Some (utf8 c)) else inr G_bad_codepoint
  | VT cs => if all_valid cs then inl (Some (flat_map utf8 cs)) else inr G_bad_codepoint
  | VL _ _ => inl None
  end.

(* ------------------------------------------------------------------------------------------------ *)
(* machine state                                                                                    *)
(* ------------------------------------------------------------------------------------------------ *)
Inductive bind : Type :=
| BLoc (a : nat)               (* a variable cell *)
| BElem (a : nat) (i : Z).     (* Referenz to element i (1-based) of the list in cell a *)

Definition env := list (ident * bind).

Record state : Type := { store : list value; out : list Z (* reversed *) }.

Inductive err : Type := ELaufzeit | EUndef (g : guard) | EFuel.

Inductive res (A : Type) : Type :=
| Ok (a : A) (s : state)
| Fail (e : err) (s : state).
Arguments Ok {A}. Arguments Fail {A}.

Definition rbind {A B} (r : res A) (k : A -> state -> res B) : res B :=
  match r with Ok a s => k a s | Fail e s => Fail e s end.
Notation "'do' x , s <- r ; k" := (rbind r (fun x s => k)) (at level 200, x name, s name, r at level 100, k at level 200).

Definition lift (o : opres) (s : state) : res value :=
  match o with ROk v => Ok v s | RErr => Fail ELaufzeit s | RUndef g => Fail (EUndef g) s end.

Definition bad {A} (s : state) : res A := Fail (EUndef G_ill_typed) s.

Fixpoint lookup (e : env) (x : ident) : option bind :=
  match e with
  | [] => None
  | (y, b) :: e' => if N.eqb x y then Some b else lookup e' x
  end.

Definition alloc (s : state) (v : value) : nat * state :=
  (length (store s), {| store := store s ++ [v]; out := out s |}).

Definition read_bind (s : state) (b : bind) : res value :=
  match b with
  | BLoc a => match nth_error (store s) a with Some v => Ok v s | None => bad s end
  | BElem a i =>
      match nth_error (store s) a with
      | Some (VL _ vs) => match (if (1 <=? i) && (i <=? zlen vs) then nth1 vs i else None) with
                          | Some v => Ok v s | None => Fail (EUndef G_dangling_ref) s end
      | _ => bad s
      end
  end.

Definition write_bind (s : state) (b : bind) (v : value) : res unit :=
  match b with
  | BLoc a => if Nat.ltb a (length (store s))
              then Ok tt {| store := set_nth (store s) a v; out := out s |} else bad s
  | BElem a i =>
      match nth_error (store s) a with
      | Some (VL t vs) => if (1 <=? i) && (i <=? zlen vs)
                          then Ok tt {| store := set_nth (store s) a (VL t (set1 vs i v)); out := out s |}
                          else Fail (EUndef G_dangling_ref) s
      | _ => bad s
      end
  end.

Definition emit (s : state) (bs : list Z) : state := {| store := store s; out := rev_append bs (out s) |}.

Inductive flow : Type := FNext | FBreak | FCont | FRet (v : option value).

Fixpoint find_fun (fs : list fdecl) (f : ident) : option fdecl :=
  match fs with
  | [] => None
  | d :: fs' => if N.eqb f (f_name d) then Some d else find_fun fs' f
  end.

Variable ftab : list fdecl.

Definition default_step (t : ty) : value :=
  match t with TKomma => VK (f_of_Z 1) | _ => VZ 1 end.

(* ------------------------------------------------------------------------------------------------ *)
(* the evaluator                                                                                    *)
(* ------------------------------------------------------------------------------------------------ *)
Fixpoint eval (n : nat) (genv en : env) (s : state) (e : expr) {struct n} : res value :=
  match n with
  | O => Fail EFuel s
  | S n =>
    match e with
    | EInt z => Ok (VZ (wrap64 z)) s
    | EFloat b => Ok (VK (f_canon b)) s
    | EBool b => Ok (VW b) s
    | EChar c => Ok (VC c) s
    | EText cs => Ok (VT cs) s
    | EVar x => match lookup en x with Some b => read_bind s b | None => bad s end
    | EUn op a => do v, s <- eval n genv en s a; lift (un_op op v) s
    | EBin BAnd a b =>
        do v, s <- eval n genv en s a;
        match v with
        | VW false => Ok (VW false) s
        | VW true => do w, s <- eval n genv en s b; match w with VW _ => Ok w s | _ => bad s end
        | _ => bad s
        end
    | EBin BOr a b =>
        do v, s <- eval n genv en s a;
        match v with
        | VW true => Ok (VW true) s
        | VW false => do w, s <- eval n genv en s b; match w with VW _ => Ok w s | _ => bad s end
        | _ => bad s
        end
    | EBin op a b =>
        do v, s <- eval n genv en s a;
        do w, s <- eval n genv en s b;
        lift (bin_op op v w) s
    | ETer TFalls a c b =>
        do cv, s <- eval n genv en s c;
        match cv with
        | VW true => eval n genv en s a
        | VW false => eval n genv en s b
        | _ => bad s
        end
    | ETer op a b c =>
        do u, s <- eval n genv en s a;
        do v, s <- eval n genv en s b;
        do w, s <- eval n genv en s c;
        lift (ter_op op u v w) s
    | ECast a t => do v, s <- eval n genv en s a; lift (cast_to t v) s
    | EListLit es =>
        do vs, s <- evals n genv en s es;
        match vs with
        | [] => bad s
        | v :: _ => if forallb (fun w => ty_eqb (type_of v) (type_of w)) vs
                    then Ok (VL (type_of v) vs) s else bad s
        end
    | EEmptyList t => Ok (VL t []) s
    | ECall f args =>
        do r, s <- call n genv en s f args;
        match r with Some v => Ok v s | None => bad s end
    end
  end

with evals (n : nat) (genv en : env) (s : state) (es : list expr) {struct n} : res (list value) :=
  match n with
  | O => Fail EFuel s
  | S n =>
    match es with
    | [] => Ok [] s
    | e :: es' =>
        do v, s <- eval n genv en s e;
        do vs, s <- evals n genv en s es';
        Ok (v :: vs) s
    end
  end

(* binds the arguments in parameter declaration order; [acc] is the callee's environment so far *)
with bind_args (n : nat) (genv en : env) (s : state) (ps : list param) (args : list arg) (acc : env)
       {struct n} : res env :=
  match n with
  | O => Fail EFuel s
  | S n =>
    match ps, args with
    | [], [] => Ok acc s
    | p :: ps', AVal e :: args' =>
        if p_ref p then bad s else
        do v, s <- eval n genv en s e;
        if ty_eqb (p_ty p) (type_of v) then
          let (a, s) := alloc s v in
          bind_args n genv en s ps' args' ((p_name p, BLoc a) :: acc)
        else bad s
    | p :: ps', ARef x idx :: args' =>
        if negb (p_ref p) then bad s else
        match lookup en x with
        | None => bad s
        | Some b =>
          match idx with
          | [] =>
              do v, s <- read_bind s b;
              if ty_eqb (p_ty p) (type_of v)
              then bind_args n genv en s ps' args' ((p_name p, b) :: acc) else bad s
          | [ie] =>
              do iv, s <- eval n genv en s ie;
              match b, index_of iv with
              | BLoc a, Some i =>
                  do l, s <- read_bind s b;
                  match l with
                  | VL t vs =>
                      if negb (ty_eqb (p_ty p) t) then bad s
                      else if (1 <=? i) && (i <=? zlen vs)
                      then bind_args n genv en s ps' args' ((p_name p, BElem a i) :: acc)
                      else Fail ELaufzeit s
                  | _ => bad s
                  end
              | _, _ => bad s
              end
          | _ => bad s
          end
        end
    | _, _ => bad s
    end
  end

with call (n : nat) (genv en : env) (s : state) (f : ident) (args : list arg) {struct n}
       : res (option value) :=
  match n with
  | O => Fail EFuel s
  | S n =>
    match find_fun ftab f with
    | None => bad s
    | Some d =>
        do cenv, s <- bind_args n genv en s (f_params d) args [];
        do fl, s <- exec_block n genv (cenv ++ genv) s (f_body d);
        match fl, f_ret d with
        | FRet (Some v), Some t => if ty_eqb t (type_of v) then Ok (Some v) s else bad s
        | FRet None, None | FNext, None => Ok None s
        | _, _ => bad s
        end
    end
  end

(* one statement; returns the control-flow signal and the (possibly extended) environment *)
with exec (n : nat) (genv en : env) (s : state) (st : stmt) {struct n} : res (flow * env) :=
  match n with
  | O => Fail EFuel s
  | S n =>
    match st with
    | SDecl t x e =>
        do v, s <- eval n genv en s e;
        do v, s <- lift (coerce t v) s;
        let (a, s) := alloc s v in Ok (FNext, (x, BLoc a) :: en) s
    | SAssign (LVar x) e =>
        do v, s <- eval n genv en s e;
        match lookup en x with
        | None => bad s
        | Some b =>
            do old, s <- read_bind s b;
            do v, s <- lift (coerce (type_of old) v) s;
            do _u, s <- write_bind s b v;
            Ok (FNext, en) s
        end
    | SAssign (LIndex x ie) e =>
        do v, s <- eval n genv en s e;
        match lookup en x with
        | None => bad s
        | Some b =>
            do iv, s <- eval n genv en s ie;
            do old, s <- read_bind s b;
            match index_of iv, old with
            | Some i, VT cs =>
                match v with
                | VC c =>
                    if negb ((1 <=? i) && (i <=? zlen cs)) then Fail ELaufzeit s
                    else if negb (valid_cp c) then Fail (EUndef G_bad_codepoint) s
                    else do _u, s <- write_bind s b (VT (set1 cs i c)); Ok (FNext, en) s
                | _ => bad s
                end
            | Some i, VL t vs =>
                if negb ((1 <=? i) && (i <=? zlen vs)) then Fail ELaufzeit s
                else do v, s <- lift (coerce t v) s;
                     do _u, s <- write_bind s b (VL t (set1 vs i v)); Ok (FNext, en) s
            | _, _ => bad s
            end
        end
    | SIf c th el =>
        do cv, s <- eval n genv en s c;
        match cv with
        | VW b => do fl, s <- exec_block n genv en s (if b then th else el); Ok (fl, en) s
        | _ => bad s
        end
    | SWhile c body => do fl, s <- loop_while n genv en s c body; Ok (fl, en) s
    | SDoWhile body c =>
        do fl, s <- exec_block n genv en s body;
        match fl with
        | FBreak => Ok (FNext, en) s
        | FRet v => Ok (FRet v, en) s
        | _ => do fl, s <- loop_while n genv en s c body; Ok (fl, en) s
        end
    | SRepeat c body =>
        do cv, s <- eval n genv en s c;
        match to_i cv with
        | Some k => if k <? 0 then Fail (EUndef G_repeat_negative) s
                    else do fl, s <- loop_repeat n genv en s k body; Ok (fl, en) s
        | None => bad s
        end
    | SFor t x from to step body =>
        do v0, s <- eval n genv en s from;
        do v0, s <- lift (coerce t v0) s;
        let (a, s) := alloc s v0 in
        let en' := (x, BLoc a) :: en in
        do sv, s <- match step with
                    | Some se => eval n genv en' s se
                    | None => Ok (default_step t) s
                    end;
        match t with
        | TKomma =>
            match v0, to_f sv with
            | VK i0, Some stp => do fl, s <- loop_for_k n genv en' s a i0 stp to body; Ok (fl, en) s
            | _, _ => bad s
            end
        | TZahl | TByte =>
            match to_i v0 with
            | None => bad s
            | Some i0 =>
                do stp, s <- match sv with
                             | VK _ => do z, s <- lift (cast_to TZahl sv) s;
                                       match z with VZ k => Ok k s | _ => bad s end
                             | _ => match to_i sv with Some k => Ok k s | None => bad s end
                             end;
                do fl, s <- loop_for_i n genv en' s t a i0 stp to body; Ok (fl, en) s
            end
        | _ => bad s
        end
    | SForEach t x idx e body =>
        do cv, s <- eval n genv en s e;
        do elems, s <- match cv with
                       | VT cs => if ty_eqb t TChar then Ok (map VC cs) s else bad s
                       | VL u vs => if ty_eqb t u then Ok vs s else bad s
                       | _ => bad s
                       end;
        match elems with
        | [] => Ok (FNext, en) s
        | v0 :: _ =>
            let (a, s) := alloc s v0 in
            let en1 := (x, BLoc a) :: en in
            match idx with
            | None => do fl, s <- loop_each n genv en1 s a None elems body; Ok (fl, en) s
            | Some ix =>
                let (ai, s) := alloc s (VZ 1) in
                do fl, s <- loop_each n genv ((ix, BLoc ai) :: en1) s a (Some ai) elems body; Ok (fl, en) s
            end
        end
    | SBreak => Ok (FBreak, en) s
    | SContinue => Ok (FCont, en) s
    | SReturn None => Ok (FRet None, en) s
    | SReturn (Some e) => do v, s <- eval n genv en s e; Ok (FRet (Some v), en) s
    | SBlock body => do fl, s <- exec_block n genv en s body; Ok (fl, en) s
    | SExpr (ECall f args) => do _r, s <- call n genv en s f args; Ok (FNext, en) s
    | SExpr e => do _v, s <- eval n genv en s e; Ok (FNext, en) s
    | SPrint e =>
        do v, s <- eval n genv en s e;
        match print_bytes v with
        | inl (Some bs) => Ok (FNext, en) (emit s bs)
        | inl None => bad s
        | inr g => Fail (EUndef g) s
        end
    end
  end

with exec_block (n : nat) (genv en : env) (s : state) (ss : list stmt) {struct n} : res flow :=
  match n with
  | O => Fail EFuel s
  | S n =>
    match ss with
    | [] => Ok FNext s
    | st :: ss' =>
        do r, s <- exec n genv en s st;
        match r with
        | (FNext, en') => exec_block n genv en' s ss'
        | (fl, _) => Ok fl s
        end
    end
  end

with loop_while (n : nat) (genv en : env) (s : state) (c : expr) (body : list stmt) {struct n} : res flow :=
  match n with
  | O => Fail EFuel s
  | S n =>
    do cv, s <- eval n genv en s c;
    match cv with
    | VW false => Ok FNext s
    | VW true =>
        do fl, s <- exec_block n genv en s body;
        match fl with
        | FBreak => Ok FNext s
        | FRet v => Ok (FRet v) s
        | _ => loop_while n genv en s c body
        end
    | _ => bad s
    end
  end

with loop_repeat (n : nat) (genv en : env) (s : state) (k : Z) (body : list stmt) {struct n} : res flow :=
  match n with
  | O => Fail EFuel s
  | S n =>
    if k <=? 0 then Ok FNext s else
    do fl, s <- exec_block n genv en s body;
    match fl with
    | FBreak => Ok FNext s
    | FRet v => Ok (FRet v) s
    | _ => loop_repeat n genv en s (k - 1) body
    end
  end

(* counting loop over Zahl / Byte: hidden 64-bit counter i, visible variable in cell a (choice 12) *)
with loop_for_i (n : nat) (genv en : env) (s : state) (t : ty) (a : nat) (i stp : Z) (to : expr)
       (body : list stmt) {struct n} : res flow :=
  match n with
  | O => Fail EFuel s
  | S n =>
    do tv, s <- eval n genv en s to;
    do lim, s <- match tv with
                 | VK _ => do z, s <- lift (cast_to TZahl tv) s; match z with VZ k => Ok k s | _ => bad s end
                 | _ => match to_i tv with Some k => Ok k s | None => bad s end
                 end;
    if (if stp <? 0 then i >=? lim else i <=? lim) then
      do fl, s <- exec_block n genv en s body;
      match fl with
      | FBreak => Ok FNext s
      | FRet v => Ok (FRet v) s
      | _ =>
          let i' := wrap64 (i + stp) in
          do _u, s <- write_bind s (BLoc a) (match t with TByte => VB (wrap8 i') | _ => VZ i' end);
          loop_for_i n genv en s t a i' stp to body
      end
    else Ok FNext s
  end

with loop_for_k (n : nat) (genv en : env) (s : state) (a : nat) (i stp : Z) (to : expr)
       (body : list stmt) {struct n} : res flow :=
  match n with
  | O => Fail EFuel s
  | S n =>
    do tv, s <- eval n genv en s to;
    match to_f tv with
    | None => bad s
    | Some lim =>
      if (if f_lt stp f_pos_zero then f_ge i lim else f_le i lim) then
        do fl, s <- exec_block n genv en s body;
        match fl with
        | FBreak => Ok FNext s
        | FRet v => Ok (FRet v) s
        | _ =>
            let i' := f_add i stp in
            do _u, s <- write_bind s (BLoc a) (VK i');
            loop_for_k n genv en s a i' stp to body
        end
      else Ok FNext s
    end
  end

with loop_each (n : nat) (genv en : env) (s : state) (a : nat) (ai : option nat) (elems : list value)
       (body : list stmt) {struct n} : res flow :=
  match n with
  | O => Fail EFuel s
  | S n =>
    match elems with
    | [] => Ok FNext s
    | v :: rest =>
        do _u, s <- write_bind s (BLoc a) v;
        do fl, s <- exec_block n genv en s body;
        match fl with
        | FBreak => Ok FNext s
        | FRet r => Ok (FRet r) s
        | _ =>
            do _u, s <- match ai with
                        | None => Ok tt s
                        | Some c =>
                            do iv, s <- read_bind s (BLoc c);
                            match iv with
                            | VZ k => write_bind s (BLoc c) (VZ (wrap64 (k + 1)))
                            | _ => bad s
                            end
                        end;
            loop_each n genv en s a ai rest body
        end
    end
  end.

(* top level: statements run in order; top-level declarations are the globals functions can see *)
Fixpoint run_top (n : nat) (genv : env) (s : state) (items : list topitem) : res unit :=
  match items with
  | [] => Ok tt s
  | TopFunc _ :: rest => run_top n genv s rest
  | TopStmt st :: rest =>
      do r, s <- exec n genv genv s st;
      match r with
      | (FNext, genv') => run_top n genv' s rest
      | (FRet _, _) => Ok tt s         (* `Verlasse die Funktion` is not generated at top level *)
      | _ => bad s
      end
  end.

End WithLibc.
Arguments Ok {A}. Arguments Fail {A}.

Inductive outcome : Type :=
| Normal (stdout : list Z)                 (* exit status 0 *)
| Laufzeitfehler (stdout : list Z)         (* "Laufzeitfehler" on stderr, exit status 1 *)
| Undefined (g : guard) (stdout : list Z)
| OutOfFuel (stdout : list Z).

Definition funs_of (p : program) : list fdecl :=
  flat_map (fun it => match it with TopFunc f => [f] | TopStmt _ => [] end) p.

Definition exec_program (pow : Z -> Z -> Z) (log10 : Z -> Z) (fmt_float : Z -> list Z)
    (fuel : nat) (p : program) : outcome :=
  match run_top pow log10 fmt_float (funs_of p) fuel [] {| store := []; out := [] |} p with
  | Ok _ s => Normal (rev (out s))
  | Fail ELaufzeit s => Laufzeitfehler (rev (out s))
  | Fail (EUndef g) s => Undefined g (rev (out s))
  | Fail EFuel s => OutOfFuel (rev (out s))
  end.
