(* Core-language abstract syntax shared by the semantic properties (C01, C05, C06, C08, C11, C15, C17).
   Fragment: Zahl, Kommazahl, Byte, Wahrheitswert, Buchstabe, Text and one-level lists of these;
   every unary/binary/ternary operator of /repo/src/ast/operators.go that applies to these types
   (BIN_FIELD_ACCESS and the TypeOp operators need Kombinationen and are outside);
   casts, indexing, the three slicing forms, list literals, calls; the statement forms of
   /repo/src/parser/statements.go except imports, `...` and alias declarations; functions with value
   and Referenz parameters.  Names are numbers (the renderer prints x<n>, f<n>). *)
From Coq Require Import ZArith List.
Import ListNotations.

Definition ident := N.

Inductive ty : Type :=
| TZahl | TKomma | TByte | TBool | TChar | TText
| TList (elem : ty).

Inductive unop : Type :=
| UAbs        (* der Betrag von e *)
| ULen        (* die Länge von e *)
| UNeg        (* -e *)
| UNot        (* nicht e *)
| ULogicNot.  (* logisch nicht e *)

Inductive binop : Type :=
| BAnd | BOr | BXor                     (* und / oder / entweder a, oder b *)
| BConcat                               (* verkettet mit *)
| BPlus | BMinus | BMult | BDiv         (* plus minus mal durch *)
| BIndex                                (* an der Stelle *)
| BPow | BLog                           (* hoch / der Logarithmus von a zur Basis b *)
| BLogicAnd | BLogicOr | BLogicXor      (* logisch und/oder/kontra *)
| BMod                                  (* modulo *)
| BShl | BShr                           (* um n Bit nach Links/Rechts verschoben *)
| BEq | BNe | BLt | BGt | BLe | BGe     (* gleich ungleich kleiner größer (, oder) *)
| BSliceTo | BSliceFrom.                (* bis zum n. Element / ab dem n. Element *)

Inductive terop : Type :=
| TSlice      (* l im Bereich von a bis b *)
| TBetween    (* x zwischen a und b *)
| TFalls.     (* a, falls c, ansonsten b   (ETer TFalls a c b) *)

(* Kommazahl literals carry their IEEE-754 binary64 bit pattern (0 <= bits < 2^64);
   Buchstabe/Text literals carry Unicode code points. *)
Inductive expr : Type :=
| EInt (z : Z)
| EFloat (bits : Z)
| EBool (b : bool)
| EChar (c : Z)
| EText (cs : list Z)
| EVar (x : ident)
| EUn (op : unop) (e : expr)
| EBin (op : binop) (e1 e2 : expr)
| ETer (op : terop) (e1 e2 e3 : expr)
| ECast (e : expr) (t : ty)
| EListLit (es : list expr)          (* eine Liste, die aus e1, ..., en besteht   (n >= 1) *)
| EEmptyList (elem : ty)             (* eine leere <elem> Liste *)
| ECall (f : ident) (args : list arg)
with arg : Type :=
| AVal (e : expr)                    (* value parameter *)
| ARef (x : ident) (idx : list expr).  (* Referenz parameter: variable with 0 or 1 index (lists) *)

(* assignable: variable, or variable `an der Stelle` index *)
Inductive lval : Type :=
| LVar (x : ident)
| LIndex (x : ident) (i : expr).

Inductive stmt : Type :=
| SDecl (t : ty) (x : ident) (e : expr)              (* Der/Die T x ist e. *)
| SAssign (l : lval) (e : expr)                      (* Speichere e in l. *)
| SIf (c : expr) (th el : list stmt)                 (* Wenn c, dann: ... Sonst: ... *)
| SWhile (c : expr) (body : list stmt)               (* Solange c, mache: *)
| SDoWhile (body : list stmt) (c : expr)             (* Mache: ... Solange c. *)
| SRepeat (n : expr) (body : list stmt)              (* Wiederhole: ... n Mal. *)
| SFor (t : ty) (x : ident) (from to : expr) (step : option expr) (body : list stmt)
| SForEach (t : ty) (x : ident) (idx : option ident) (e : expr) (body : list stmt)
| SBreak | SContinue
| SReturn (e : option expr)
| SBlock (body : list stmt)
| SExpr (e : expr)
| SPrint (e : expr).                                 (* Schreibe den/die <Typ> (e). *)

Record param : Type := { p_name : ident; p_ty : ty; p_ref : bool }.

Record fdecl : Type := {
  f_name : ident;
  f_params : list param;
  f_ret : option ty;
  f_body : list stmt
}.

(* a program is the sequence of its top-level items in source order *)
Inductive topitem : Type :=
| TopFunc (f : fdecl)
| TopStmt (s : stmt).

Definition program := list topitem.

Definition ty_eqb : ty -> ty -> bool :=
  fix go (a b : ty) : bool :=
    match a, b with
    | TZahl, TZahl | TKomma, TKomma | TByte, TByte | TBool, TBool | TChar, TChar | TText, TText => true
    | TList x, TList y => go x y
    | _, _ => false
    end.

Lemma ty_eqb_eq : forall a b, ty_eqb a b = true <-> a = b.
Proof.
  induction a; destruct b; simpl; split; intros H; try reflexivity; try discriminate H.
  - apply IHa in H. now subst.
  - inversion H; subst. now apply IHa.
Qed.
