(* C19 — non-vacuity: every hypothesis of the theorems in Props/C19.v is satisfiable on interesting inputs,
   and the conclusions are the expected concrete values (all by computation). *)
From Coq Require Import List NArith ZArith Bool.
From Coq Require Import Floats.SpecFloat.
Import ListNotations.
From DDP Require Import Lex.LitUtf8 Lex.Literals Lex.LiteralProofs.
Open Scope N_scope.

(* body  a \n \\ n ä \DQUOTE 𝄞 \t  : adjacent escapes, an escaped backslash before a letter n, multi-byte neighbours *)
Definition ex_body : list N := [97; 92; 110; 92; 92; 110; 228; 92; 34; 119070; 92; 116].
Example ex_body_valid : forallb valid_cp ex_body = true. Proof. vm_compute. reflexivity. Qed.
Example ex_body_denote : denote 34 ex_body = Some [97; 10; 92; 110; 228; 34; 119070; 9].
Proof. vm_compute. reflexivity. Qed.
Example ex_body_parse :
  parse_string (encode ex_body) = POk [97; 10; 92; 110; 195; 164; 34; 240; 157; 132; 158; 9] 0.
Proof. vm_compute. reflexivity. Qed.
Example ex_body_scanned : scan_string (ex_body ++ [34; 46]) = (Some (ex_body, [46]), 0).
Proof. vm_compute. reflexivity. Qed.

(* an unknown escape \x, an escape of the other literal kind \', and a backslash before a 2-byte character *)
Definition ex_bad : list N := [97; 92; 120; 92; 39; 92; 228].
Example ex_bad_denote : denote 34 ex_bad = None. Proof. vm_compute. reflexivity. Qed.
Example ex_bad_scanned : scan_string (ex_bad ++ [34]) = (Some (ex_bad, []), 3). Proof. vm_compute. reflexivity. Qed.
Example ex_bad_parse : parse_string (encode ex_bad) = POk (encode ex_bad) 3. Proof. vm_compute. reflexivity. Qed.
(* a trailing backslash can only be seen by the parser on its own: the scanner never delimits such a body *)
Example ex_trailing : parse_string [97; 92] = POk [97; 92] 1. Proof. vm_compute. reflexivity. Qed.
Example ex_unterminated : scan_string [97; 92; 34] = (None, 0). Proof. vm_compute. reflexivity. Qed.

Example ex_escape : escape 34 [97; 10; 34; 92; 39; 228] = [97; 92; 110; 92; 34; 92; 92; 39; 228].
Proof. vm_compute. reflexivity. Qed.

(* characters: plain, multi-byte, every escape, a literal line break; rejected: empty, ab, \x, \DQUOTE, \n a *)
Example ex_char_plain : lit_char [240; 157; 132; 158; 39] =
  Build_lit_out true [240; 157; 132; 158] 0 0 [] 119070 0 false.
Proof. vm_compute. reflexivity. Qed.
Example ex_char_escapes :
  map (fun e => (scan_char [92; e; 39], parse_char [92; e])) [97; 98; 110; 114; 116; 39; 92] =
  map (fun ev => ((Some ([92; fst ev], []), 0), (Z.of_N (snd ev), 0)))
      [(97, 7); (98, 8); (110, 10); (114, 13); (116, 9); (39, 39); (92, 92)].
Proof. vm_compute. reflexivity. Qed.
Example ex_char_newline : scan_char [10; 39] = (Some ([10], []), 0). Proof. vm_compute. reflexivity. Qed.
Example ex_char_rejected :
  map (fun s => snd (scan_char s)) [[39]; [97; 98; 39]; [92; 120; 39]; [92; 34; 39]; [92; 110; 97; 39]] = [1; 1; 1; 1; 1].
Proof. vm_compute. reflexivity. Qed.
Example ex_char_parser_rejects : parse_char [92; 34] = (34%Z, 1). Proof. vm_compute. reflexivity. Qed.

(* integers: 2^63-1 accepted, 2^63 and 10^19 and 2^64 rejected, leading zeros *)
Definition digits_of (s : list N) := s.
Example ex_int_max : parse_int_lit [57;50;50;51;51;55;50;48;51;54;56;53;52;55;55;53;56;48;55] = (9223372036854775807, 0).
Proof. vm_compute. reflexivity. Qed.
Example ex_int_over : parse_int_lit [57;50;50;51;51;55;50;48;51;54;56;53;52;55;55;53;56;48;56] = (0, 1).
Proof. vm_compute. reflexivity. Qed.
Example ex_int_2_64 : parse_int [49;56;52;52;54;55;52;52;48;55;51;55;48;57;53;53;49;54;49;54] = NumRange.
Proof. vm_compute. reflexivity. Qed.
Example ex_int_min : negate_int_lit [57;50;50;51;51;55;50;48;51;54;56;53;52;55;55;53;56;48;56] = ((-9223372036854775808)%Z, 0).
Proof. vm_compute. reflexivity. Qed.
Example ex_int_below_min : negate_int_lit [57;50;50;51;51;55;50;48;51;54;56;53;52;55;55;53;56;48;57] = (0%Z, 1).
Proof. vm_compute. reflexivity. Qed.
Example ex_int_neg_max : negate_int_lit [57;50;50;51;51;55;50;48;51;54;56;53;52;55;55;53;56;48;55] = ((-9223372036854775807)%Z, 0).
Proof. vm_compute. reflexivity. Qed.
Example ex_int_zeros : parse_int_lit [48; 48; 48; 52; 50] = (42, 0). Proof. vm_compute. reflexivity. Qed.

(* decimals: 0,1 and 0,3 have the hardware bit patterns; 2^53+1 written out rounds to even *)
Example ex_float_01 : option_map sf_bits (match parse_float [48; 44; 49] with FOk f => Some f | _ => None end)
                      = Some 4591870180066957722%Z.
Proof. vm_compute. reflexivity. Qed.
Example ex_float_tie : option_map sf_bits (match parse_float [57;48;48;55;49;57;57;50;53;52;55;52;48;57;57;51;44;48] with FOk f => Some f | _ => None end)
                      = Some 4845873199050653696%Z.
Proof. vm_compute. reflexivity. Qed.
