(* C19 — Kommazahl literals: the model's decimal-to-binary64 conversion is the correctly rounded quotient
   (round to nearest, ties to even) of the written decimal, for literals of any length. *)
From Coq Require Import List NArith ZArith Bool Lia Reals.
From Coq Require Import Floats.SpecFloat.
From Flocq Require Import Core.Core IEEE754.BinarySingleNaN.
Import ListNotations.
From DDP Require Import Lex.LitUtf8 Lex.Literals.

Local Instance prec_gt_0_53 : FLX.Prec_gt_0 53 := eq_refl.
Local Instance prec_lt_emax_53 : Prec_lt_emax 53 1024 := eq_refl.

Definition b64_round (x : R) : R := round radix2 (SpecFloat.fexp 53 1024) ZnearestE x.

Lemma F2R_int (m : positive) : F2R (Float radix2 (cond_Zopp false (Zpos m)) 0) = IZR (Zpos m).
Proof. unfold F2R. cbn [Fnum Fexp cond_Zopp bpow]. apply Rmult_1_r. Qed.

(* the quotient core: Flocq's Bdiv_correct_aux holds for arbitrary positive integers *)
Lemma dec_to_sf_correct (m d : positive) :
  let x := (IZR (Zpos m) / IZR (Zpos d))%R in
  let z := dec_to_sf m d in
  valid_binary 53 1024 z = true /\
  if Rlt_bool (Rabs (b64_round x)) (bpow radix2 1024) then
    SF2R radix2 z = b64_round x /\ is_finite_SF z = true /\ sign_SF z = false
  else z = S754_infinity false.
Proof.
  pose proof (Bdiv_correct_aux 53 1024 _ _ mode_NE false m 0 false d 0) as H.
  rewrite !F2R_int in H. cbv zeta in H. exact H.
Qed.

Lemma pow10_spec k : Zpos (pow10 k) = (10 ^ Z.of_nat k)%Z.
Proof.
  induction k as [|k IH]; [reflexivity|].
  change (pow10 (S k)) with (10 * pow10 k)%positive.
  rewrite Pos2Z.inj_mul, IH, Nat2Z.inj_succ, Z.pow_succ_r by lia. reflexivity.
Qed.

Lemma split_comma_digits ip fp : forallb is_digit ip = true -> split_comma (ip ++ 44%N :: fp) = (ip, Some fp).
Proof.
  induction ip as [|c ip IH]; intros H.
  - cbn [app split_comma]. reflexivity.
  - cbn [forallb] in H. apply andb_prop in H. destruct H as [Hc Hip].
    cbn [app split_comma]. unfold is_digit in Hc.
    destruct (N.eqb_spec c 44) as [E|E].
    + subst c. cbn in Hc. discriminate Hc.
    + rewrite (IH Hip). reflexivity.
Qed.

(* value written by  ip , fp *)
Definition dec_real (ip fp : list N) : R :=
  (IZR (Z.of_N (dec_value (ip ++ fp))) / IZR (10 ^ Z.of_nat (length fp)))%R.

Theorem parse_float_correct ip fp :
  ip <> [] -> forallb is_digit ip = true -> forallb is_digit fp = true ->
  let x := dec_real ip fp in
  if Rlt_bool (Rabs (b64_round x)) (bpow radix2 1024) then
    exists f, parse_float (ip ++ 44%N :: fp) = FOk f /\ valid_binary 53 1024 f = true /\
              SF2R radix2 f = b64_round x /\ is_finite_SF f = true /\ sign_SF f = false
  else parse_float (ip ++ 44%N :: fp) = FRange.
Proof.
  intros Hne Hip Hfp x. unfold parse_float. rewrite (split_comma_digits ip fp Hip).
  rewrite forallb_app, Hip, Hfp. cbn [andb].
  assert (Hl : (nlen (ip ++ fp) =? 0)%N = false).
  { destruct ip; [contradiction|]. reflexivity. }
  rewrite Hl. cbn [negb].
  unfold x, dec_real. destruct (dec_value (ip ++ fp)) as [|m] eqn:Ev.
  - (* 0 *)
    cbn [Z.of_N]. unfold Rdiv. rewrite Rmult_0_l. unfold b64_round. rewrite round_0 by typeclasses eauto.
    rewrite Rabs_R0. rewrite Rlt_bool_true by apply bpow_gt_0.
    exists (S754_zero false). repeat split.
  - cbn [Z.of_N]. rewrite <- pow10_spec.
    pose proof (dec_to_sf_correct m (pow10 (length fp))) as H. cbv zeta in H.
    destruct H as [Hvalid H].
    destruct (Rlt_bool _ _).
    + destruct H as (HR & Hfin & Hsign).
      exists (dec_to_sf m (pow10 (length fp))).
      destruct (dec_to_sf m (pow10 (length fp))); try discriminate Hfin; repeat split; assumption.
    + rewrite H. reflexivity.
Qed.
