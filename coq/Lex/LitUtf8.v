(* C19 — UTF-8 primitives used by the literal model: transcriptions of Go's utf8.DecodeRuneInString,
   utf8.DecodeLastRuneInString, utf8.RuneCountInString and string(rune)/utf8.AppendRune on byte lists
   (bytes and code points are N).  Definitions only; proofs are in LitUtf8Proofs.v. *)
From Coq Require Import List NArith ZArith Bool.
Import ListNotations.
Open Scope N_scope.

Definition rune_error : N := 65533.   (* U+FFFD *)

Definition nlen {A} (l : list A) : N := N.of_nat (length l).

(* a Unicode scalar value: what a valid UTF-8 source consists of *)
Definition valid_cp (c : N) : bool := (c <? 55296) || ((57344 <=? c) && (c <? 1114112)).

Definition in_range (lo hi b : N) : bool := (lo <=? b) && (b <=? hi).
Definition is_cont (b : N) : bool := in_range 128 191 b.

(* utf8.DecodeRuneInString: (rune, width); ("" -> (RuneError,0)); invalid or short -> (RuneError,1).
   The acceptRanges table of package utf8 is spelled out per lead byte. *)
Definition decode_rune (bs : list N) : N * N :=
  match bs with
  | [] => (rune_error, 0)
  | b0 :: t =>
    if b0 <? 128 then (b0, 1)
    else if b0 <? 194 then (rune_error, 1)
    else if b0 <? 224 then
      match t with
      | b1 :: _ =>
        if is_cont b1 then ((b0 - 192) * 64 + (b1 - 128), 2) else (rune_error, 1)
      | _ => (rune_error, 1)
      end
    else if b0 <? 240 then
      match t with
      | b1 :: b2 :: _ =>
        let lo := if b0 =? 224 then 160 else 128 in
        let hi := if b0 =? 237 then 159 else 191 in
        if in_range lo hi b1 && is_cont b2
        then ((b0 - 224) * 4096 + (b1 - 128) * 64 + (b2 - 128), 3)
        else (rune_error, 1)
      | _ => (rune_error, 1)
      end
    else if b0 <? 245 then
      match t with
      | b1 :: b2 :: b3 :: _ =>
        let lo := if b0 =? 240 then 144 else 128 in
        let hi := if b0 =? 244 then 143 else 191 in
        if in_range lo hi b1 && is_cont b2 && is_cont b3
        then ((b0 - 240) * 262144 + (b1 - 128) * 4096 + (b2 - 128) * 64 + (b3 - 128), 4)
        else (rune_error, 1)
      | _ => (rune_error, 1)
      end
    else (rune_error, 1)
  end.

(* string(rune) / utf8.AppendRune: surrogates and values above U+10FFFF become U+FFFD *)
Definition encode_rune (c : N) : list N :=
  if c <? 128 then [c]
  else if c <? 2048 then [192 + c / 64; 128 + c mod 64]
  else if ((55296 <=? c) && (c <? 57344)) || (1114112 <=? c) then [239; 191; 189]
  else if c <? 65536 then [224 + c / 4096; 128 + (c / 64) mod 64; 128 + c mod 64]
  else [240 + c / 262144; 128 + (c / 4096) mod 64; 128 + (c / 64) mod 64; 128 + c mod 64].

Definition encode (cs : list N) : list N := flat_map encode_rune cs.

(* utf8.RuneCountInString: number of decode steps (every invalid byte counts as one rune) *)
Fixpoint rune_count_fuel (fuel : nat) (bs : list N) : N :=
  match fuel with
  | O => 0
  | S f =>
    match bs with
    | [] => 0
    | _ => let '(_, w) := decode_rune bs in 1 + rune_count_fuel f (skipn (N.to_nat w) bs)
    end
  end.
Definition rune_count (bs : list N) : N := rune_count_fuel (length bs) bs.

(* utf8.RuneStart *)
Definition rune_start (b : N) : bool := negb (is_cont b).

(* utf8.DecodeLastRuneInString, transcribed:
     end = len(s); if end == 0 return RuneError,0
     start = end-1; r = s[start]; if r < RuneSelf return r,1
     lim = max(0, end-UTFMax)
     for start--; start >= lim; start-- { if RuneStart(s[start]) break }
     if start < 0 { start = 0 }
     r, size = DecodeRuneInString(s[start:end]); if start+size != end return RuneError,1 *)
Fixpoint back_to_start (steps : nat) (s : list N) (start : Z) (lim : Z) : Z :=
  match steps with
  | O => start
  | S k =>
    if (start <? lim)%Z then start
    else if rune_start (nth (Z.to_nat start) s 0) then start
    else back_to_start k s (start - 1)%Z lim
  end.

Definition decode_last_rune (s : list N) : N * N :=
  match s with
  | [] => (rune_error, 0)
  | _ =>
    let e := Z.of_nat (length s) in
    let r := nth (Z.to_nat (e - 1)) s 0 in
    if r <? 128 then (r, 1)
    else
      let lim := Z.max 0 (e - 4) in
      let st := back_to_start 4 s (e - 2)%Z lim in
      let st := if (st <? 0)%Z then 0%Z else st in
      let '(r, size) := decode_rune (skipn (Z.to_nat st) s) in
      if (st + Z.of_N size =? e)%Z then (r, size) else (rune_error, 1)
  end.
