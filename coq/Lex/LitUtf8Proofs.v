(* C19 — facts about the UTF-8 primitives of LitUtf8.v *)
From Coq Require Import List NArith ZArith Bool Lia ZifyBool.
Import ListNotations.
From DDP Require Import Lex.LitUtf8.
Open Scope N_scope.

Ltac Zify.zify_post_hook ::= Z.to_euclidean_division_equations.

Lemma nlen_app {A} (a b : list A) : nlen (a ++ b) = nlen a + nlen b.
Proof. unfold nlen. rewrite app_length. lia. Qed.

Lemma nlen_cons {A} (a : A) (l : list A) : nlen (a :: l) = 1 + nlen l.
Proof. unfold nlen. cbn [length]. lia. Qed.

Lemma nlen_nil {A} : nlen (@nil A) = 0.
Proof. reflexivity. Qed.

Lemma skipn_nlen_app {A} (a b : list A) : skipn (N.to_nat (nlen a)) (a ++ b) = b.
Proof.
  unfold nlen. rewrite Nat2N.id. rewrite skipn_app, skipn_all, Nat.sub_diag. reflexivity.
Qed.

Lemma firstn_nlen_app {A} (a b : list A) : firstn (N.to_nat (nlen a)) (a ++ b) = a.
Proof.
  unfold nlen. rewrite Nat2N.id. rewrite firstn_app, firstn_all, Nat.sub_diag. cbn [firstn].
  apply app_nil_r.
Qed.

(* ---- encode_rune ---------------------------------------------------------------------------- *)

Lemma encode_rune_len (c : N) : 1 <= nlen (encode_rune c) <= 4.
Proof.
  unfold encode_rune.
  destruct (c <? 128); [cbn; lia|].
  destruct (c <? 2048); [cbn; lia|].
  destruct (_ || _); [cbn; lia|].
  destruct (c <? 65536); cbn; lia.
Qed.

Lemma encode_rune_ascii (c : N) : c < 128 -> encode_rune c = [c].
Proof. intros H. unfold encode_rune. destruct (N.ltb_spec c 128); [reflexivity|lia]. Qed.

Lemma encode_cons (c : N) (cs : list N) : encode (c :: cs) = encode_rune c ++ encode cs.
Proof. reflexivity. Qed.

Lemma encode_app (a b : list N) : encode (a ++ b) = encode a ++ encode b.
Proof. unfold encode. apply flat_map_app. Qed.

(* the heart: decoding what was encoded gives the code point back, with the encoded width *)
Lemma decode_encode (c : N) (rest : list N) :
  valid_cp c = true ->
  decode_rune (encode_rune c ++ rest) = (c, nlen (encode_rune c)).
Proof.
  unfold valid_cp, encode_rune. intros Hv.
  destruct (N.ltb_spec c 128) as [H1|H1].
  { cbn [app decode_rune]. destruct (N.ltb_spec c 128); [reflexivity|lia]. }
  destruct (N.ltb_spec c 2048) as [H2|H2].
  { cbn [app decode_rune]. unfold is_cont, in_range.
    destruct (N.ltb_spec (192 + c / 64) 128); [lia|].
    destruct (N.ltb_spec (192 + c / 64) 194); [lia|].
    destruct (N.ltb_spec (192 + c / 64) 224); [|lia].
    replace ((128 <=? 128 + c mod 64) && (128 + c mod 64 <=? 191)) with true by lia.
    f_equal. lia. }
  assert (Hs : ((55296 <=? c) && (c <? 57344)) || (1114112 <=? c) = false) by lia.
  rewrite Hs.
  destruct (N.ltb_spec c 65536) as [H3|H3].
  { cbn [app decode_rune]. unfold is_cont, in_range.
    destruct (N.ltb_spec (224 + c / 4096) 128); [lia|].
    destruct (N.ltb_spec (224 + c / 4096) 194); [lia|].
    destruct (N.ltb_spec (224 + c / 4096) 224); [lia|].
    destruct (N.ltb_spec (224 + c / 4096) 240); [|lia].
    match goal with |- (if ?b then _ else _) = _ => replace b with true end.
    { f_equal. lia. }
    symmetry.
    destruct (N.eqb_spec (224 + c / 4096) 224); destruct (N.eqb_spec (224 + c / 4096) 237); lia. }
  { cbn [app decode_rune]. unfold is_cont, in_range.
    destruct (N.ltb_spec (240 + c / 262144) 128); [lia|].
    destruct (N.ltb_spec (240 + c / 262144) 194); [lia|].
    destruct (N.ltb_spec (240 + c / 262144) 224); [lia|].
    destruct (N.ltb_spec (240 + c / 262144) 240); [lia|].
    destruct (N.ltb_spec (240 + c / 262144) 245); [|lia].
    match goal with |- (if ?b then _ else _) = _ => replace b with true end.
    { f_equal. lia. }
    symmetry.
    destruct (N.eqb_spec (240 + c / 262144) 240); destruct (N.eqb_spec (240 + c / 262144) 244); lia. }
Qed.

(* ---- decode_rune: widths -------------------------------------------------------------------- *)

Lemma decode_rune_width_le (bs : list N) : snd (decode_rune bs) <= nlen bs.
Proof.
  destruct bs as [|b0 t]; [cbn; lia|].
  unfold decode_rune. rewrite nlen_cons.
  destruct (b0 <? 128); [cbn [snd]; lia|].
  destruct (b0 <? 194); [cbn [snd]; lia|].
  destruct (b0 <? 224).
  { destruct t as [|b1 t]; [cbn [snd]; lia|]. rewrite nlen_cons.
    destruct (is_cont b1); cbn [snd]; lia. }
  destruct (b0 <? 240).
  { destruct t as [|b1 [|b2 t]]; try (cbn [snd]; lia). rewrite !nlen_cons.
    destruct (_ && _); cbn [snd]; lia. }
  destruct (b0 <? 245); [|cbn [snd]; lia].
  destruct t as [|b1 [|b2 [|b3 t]]]; try (cbn [snd]; lia). rewrite !nlen_cons.
  destruct (_ && _); cbn [snd]; lia.
Qed.

Lemma decode_rune_width_pos (b : N) (bs : list N) : 1 <= snd (decode_rune (b :: bs)).
Proof.
  unfold decode_rune.
  destruct (b <? 128); [cbn [snd]; lia|].
  destruct (b <? 194); [cbn [snd]; lia|].
  destruct (b <? 224).
  { destruct bs as [|b1 t]; [cbn [snd]; lia|]. destruct (is_cont b1); cbn [snd]; lia. }
  destruct (b <? 240).
  { destruct bs as [|b1 [|b2 t]]; try (cbn [snd]; lia). destruct (_ && _); cbn [snd]; lia. }
  destruct (b <? 245); [|cbn [snd]; lia].
  destruct bs as [|b1 [|b2 [|b3 t]]]; try (cbn [snd]; lia). destruct (_ && _); cbn [snd]; lia.
Qed.

(* ---- rune_count ----------------------------------------------------------------------------- *)

Lemma rune_count_fuel_encode (cs : list N) :
  forallb valid_cp cs = true ->
  forall fuel, (length (encode cs) <= fuel)%nat -> rune_count_fuel fuel (encode cs) = nlen cs.
Proof.
  induction cs as [|c cs IH]; intros Hv fuel Hf.
  - destruct fuel; reflexivity.
  - cbn [forallb] in Hv. apply andb_prop in Hv. destruct Hv as [Hc Hcs].
    rewrite encode_cons in *.
    pose proof (encode_rune_len c) as Hl. unfold nlen in Hl.
    rewrite app_length in Hf.
    destruct fuel as [|fuel]; [lia|].
    cbn [rune_count_fuel].
    destruct (encode_rune c ++ encode cs) eqn:E.
    { destruct (encode_rune c); [cbn in Hl; lia|discriminate E]. }
    rewrite <- E. rewrite decode_encode by exact Hc.
    rewrite skipn_nlen_app. rewrite IH; [rewrite nlen_cons; reflexivity|exact Hcs|lia].
Qed.

Lemma rune_count_encode (cs : list N) :
  forallb valid_cp cs = true -> rune_count (encode cs) = nlen cs.
Proof. intros H. apply rune_count_fuel_encode; [exact H|lia]. Qed.

(* ---- decode_last_rune on  encode_rune c  and on  [x] ++ encode_rune c ------------------------- *)

Lemma encode_rune_shape (c : N) :
  valid_cp c = true ->
  (encode_rune c = [c] /\ c < 128) \/
  (exists a b, encode_rune c = [a; b] /\ rune_start a = true /\ rune_start b = false /\ 128 <= b) \/
  (exists a b d, encode_rune c = [a; b; d] /\ rune_start a = true /\ rune_start b = false /\
                 rune_start d = false /\ 128 <= d) \/
  (exists a b d e, encode_rune c = [a; b; d; e] /\ rune_start a = true /\ rune_start b = false /\
                   rune_start d = false /\ rune_start e = false /\ 128 <= e).
Proof.
  unfold valid_cp, encode_rune, rune_start, is_cont, in_range. intros Hv.
  destruct (N.ltb_spec c 128) as [H1|H1]; [left; split; [reflexivity|lia]|right].
  destruct (N.ltb_spec c 2048) as [H2|H2].
  { left. eexists _, _. split; [reflexivity|]. repeat split; lia. }
  right.
  assert (Hs : ((55296 <=? c) && (c <? 57344)) || (1114112 <=? c) = false) by lia.
  rewrite Hs.
  destruct (N.ltb_spec c 65536) as [H3|H3].
  { left. eexists _, _, _. split; [reflexivity|]. repeat split; lia. }
  right. eexists _, _, _, _. split; [reflexivity|]. repeat split; lia.
Qed.

Ltac dl_norm :=
  cbn; change (Pos.to_nat 4) with 4%nat; change (Pos.to_nat 3) with 3%nat; change (Pos.to_nat 2) with 2%nat;
  change (Pos.to_nat 1) with 1%nat; cbn.

Section DecodeLast.
  Opaque decode_rune N.ltb rune_start.

  Lemma dl_ascii (pre : list N) (c : N) : c < 128 -> decode_last_rune (pre ++ [c]) = (c, 1).
  Proof.
    intros Hc. unfold decode_last_rune.
    destruct (pre ++ [c]) eqn:E; [destruct pre; discriminate E|]. rewrite <- E. clear E.
    rewrite app_length. cbn [length].
    replace (Z.to_nat (Z.of_nat (length pre + 1) - 1)) with (length pre) by lia.
    rewrite nth_middle. destruct (N.ltb_spec c 128); [reflexivity|lia].
  Qed.

  Lemma dl2 a b : rune_start a = true -> 128 <= b ->
    decode_last_rune [a; b] =
    let '(r, size) := decode_rune [a; b] in if (Z.of_N size =? 2)%Z then (r, size) else (rune_error, 1).
  Proof.
    intros Ha Hge. unfold decode_last_rune. dl_norm.
    destruct (N.ltb_spec b 128); [lia|]. rewrite Ha. dl_norm. reflexivity.
  Qed.

  Lemma dl2x x a b : rune_start a = true -> 128 <= b ->
    decode_last_rune [x; a; b] =
    let '(r, size) := decode_rune [a; b] in if (1 + Z.of_N size =? 3)%Z then (r, size) else (rune_error, 1).
  Proof.
    intros Ha Hge. unfold decode_last_rune. dl_norm.
    destruct (N.ltb_spec b 128); [lia|]. rewrite Ha. dl_norm. reflexivity.
  Qed.

  Lemma dl3 a b c : rune_start a = true -> rune_start b = false -> 128 <= c ->
    decode_last_rune [a; b; c] =
    let '(r, size) := decode_rune [a; b; c] in if (Z.of_N size =? 3)%Z then (r, size) else (rune_error, 1).
  Proof.
    intros Ha Hb Hge. unfold decode_last_rune. dl_norm.
    destruct (N.ltb_spec c 128); [lia|]. rewrite Hb, Ha. dl_norm. reflexivity.
  Qed.

  Lemma dl3x x a b c : rune_start a = true -> rune_start b = false -> 128 <= c ->
    decode_last_rune [x; a; b; c] =
    let '(r, size) := decode_rune [a; b; c] in if (1 + Z.of_N size =? 4)%Z then (r, size) else (rune_error, 1).
  Proof.
    intros Ha Hb Hge. unfold decode_last_rune. dl_norm.
    destruct (N.ltb_spec c 128); [lia|]. rewrite Hb, Ha. dl_norm. reflexivity.
  Qed.

  Lemma dl4 a b c d : rune_start a = true -> rune_start b = false -> rune_start c = false -> 128 <= d ->
    decode_last_rune [a; b; c; d] =
    let '(r, size) := decode_rune [a; b; c; d] in if (Z.of_N size =? 4)%Z then (r, size) else (rune_error, 1).
  Proof.
    intros Ha Hb Hc Hge. unfold decode_last_rune. dl_norm.
    destruct (N.ltb_spec d 128); [lia|]. rewrite Hc, Hb, Ha. dl_norm. reflexivity.
  Qed.

  (* with a byte in front the backward scan stops at the limit end-4 = 1, i.e. on the lead byte *)
  Lemma dl4x x a b c d : rune_start a = true -> rune_start b = false -> rune_start c = false -> 128 <= d ->
    decode_last_rune [x; a; b; c; d] =
    let '(r, size) := decode_rune [a; b; c; d] in if (1 + Z.of_N size =? 5)%Z then (r, size) else (rune_error, 1).
  Proof.
    intros Ha Hb Hc Hge. unfold decode_last_rune. dl_norm.
    destruct (N.ltb_spec d 128); [lia|]. rewrite Hc, Hb, Ha. dl_norm. reflexivity.
  Qed.
  Transparent decode_rune N.ltb rune_start.
End DecodeLast.

Lemma decode_last_encode (pre : list N) (c : N) :
  valid_cp c = true -> (length pre <= 1)%nat ->
  decode_last_rune (pre ++ encode_rune c) = (c, nlen (encode_rune c)).
Proof.
  intros Hv Hp. pose proof (decode_encode c [] Hv) as D. rewrite app_nil_r in D.
  destruct (encode_rune_shape c Hv) as [[E Hc]|[(a & b & E & Ha & Hb & Hge)|[(a & b & d & E & Ha & Hb & Hd & Hge)|(a & b & d & e & E & Ha & Hb & Hd & He & Hge)]]];
    rewrite E in *.
  - apply dl_ascii. exact Hc.
  - destruct pre as [|x [|y pre]]; [| |cbn in Hp; lia]; cbn [app].
    + rewrite dl2 by assumption. rewrite D. reflexivity.
    + rewrite dl2x by assumption. rewrite D. reflexivity.
  - destruct pre as [|x [|y pre]]; [| |cbn in Hp; lia]; cbn [app].
    + rewrite dl3 by assumption. rewrite D. reflexivity.
    + rewrite dl3x by assumption. rewrite D. reflexivity.
  - destruct pre as [|x [|y pre]]; [| |cbn in Hp; lia]; cbn [app].
    + rewrite dl4 by assumption. rewrite D. reflexivity.
    + rewrite dl4x by assumption. rewrite D. reflexivity.
Qed.
