(* C19 — proofs about the literal model (texts, characters, integers). Floats: LitFloatProofs.v *)
From Coq Require Import List NArith ZArith Bool Lia ZifyBool.
Import ListNotations.
From DDP Require Import Lex.LitUtf8 Lex.LitUtf8Proofs Gen.LitEscapes Lex.Literals.
Open Scope N_scope.

Ltac Zify.zify_post_hook ::= Z.to_euclidean_division_equations.

(* ============================================================================================ *)
(* Tables: the regenerated scanner/parser tables agree with the specification table             *)
(* ============================================================================================ *)

Definition is_some {A} (o : option A) : bool := match o with Some _ => true | None => false end.

Definition oeqb (a b : option N) : bool :=
  match a, b with
  | Some x, Some y => x =? y
  | None, None => true
  | _, _ => false
  end.

Lemma oeqb_eq a b : oeqb a b = true -> a = b.
Proof. destruct a, b; cbn; intros H; try discriminate H; try reflexivity. apply N.eqb_eq in H. now subst. Qed.

Lemma lookup_notin k t : ~ In k (map fst t) -> lookup k t = None.
Proof.
  induction t as [|[k' v] t IH]; intros H; [reflexivity|].
  cbn [lookup]. destruct (N.eqb_spec k k') as [E|E].
  - exfalso. apply H. left. cbn. now subst.
  - apply IH. intros Hin. apply H. right. exact Hin.
Qed.

Lemma lookup_ext (t1 t2 : list (N * N)) :
  forallb (fun k => oeqb (lookup k t1) (lookup k t2)) (map fst t1 ++ map fst t2) = true ->
  forall e, lookup e t1 = lookup e t2.
Proof.
  intros H e. rewrite forallb_forall in H.
  destruct (in_dec N.eq_dec e (map fst t1 ++ map fst t2)) as [Hin|Hn].
  - apply oeqb_eq. apply H. exact Hin.
  - rewrite !lookup_notin; [reflexivity| |]; intros Hin; apply Hn; apply in_or_app; auto.
Qed.

(* the parser's tables are the specification's *)
Lemma string_table_spec e : lookup e parse_string_escapes = esc_val 34 e.
Proof. unfold esc_val. revert e. apply lookup_ext. vm_compute. reflexivity. Qed.

Lemma char_table_spec e : lookup e parse_char_escapes = esc_val 39 e.
Proof. unfold esc_val. revert e. apply lookup_ext. vm_compute. reflexivity. Qed.

(* the scanner accepts exactly the escapes of the specification *)
Definition scan_tbl (q : N) : list (N * N) :=
  map (fun r => (r, r)) scan_escape_runes ++ (if scan_escape_quote then [(q, q)] else []).

Lemma existsb_lookup e l : existsb (N.eqb e) l = is_some (lookup e (map (fun r => (r, r)) l)).
Proof.
  induction l as [|a l IH]; [reflexivity|]. cbn [existsb map lookup].
  destruct (e =? a); [reflexivity|exact IH].
Qed.

Lemma lookup_app e t1 t2 :
  lookup e (t1 ++ t2) = match lookup e t1 with Some v => Some v | None => lookup e t2 end.
Proof.
  induction t1 as [|[k v] t1 IH]; [reflexivity|]. cbn [app lookup]. destruct (e =? k); [reflexivity|exact IH].
Qed.

Lemma scan_is_escape_tbl q e : scan_is_escape q e = is_some (lookup e (scan_tbl q)).
Proof.
  unfold scan_is_escape, scan_tbl. rewrite lookup_app, existsb_lookup.
  destruct (lookup e (map _ scan_escape_runes)); [reflexivity|]. cbn [is_some orb].
  destruct scan_escape_quote; [|reflexivity]. cbn [lookup andb]. destruct (e =? q); reflexivity.
Qed.

Lemma is_some_ext (t1 t2 : list (N * N)) :
  forallb (fun k => Bool.eqb (is_some (lookup k t1)) (is_some (lookup k t2))) (map fst t1 ++ map fst t2) = true ->
  forall e, is_some (lookup e t1) = is_some (lookup e t2).
Proof.
  intros H e. rewrite forallb_forall in H.
  destruct (in_dec N.eq_dec e (map fst t1 ++ map fst t2)) as [Hin|Hn].
  - apply Bool.eqb_prop. apply H. exact Hin.
  - rewrite !lookup_notin; [reflexivity| |]; intros Hin; apply Hn; apply in_or_app; auto.
Qed.

Lemma scan_escape_spec_string e : scan_is_escape 34 e = is_some (esc_val 34 e).
Proof. rewrite scan_is_escape_tbl. unfold esc_val. revert e. apply is_some_ext. vm_compute. reflexivity. Qed.

Lemma scan_escape_spec_char e : scan_is_escape 39 e = is_some (esc_val 39 e).
Proof. rewrite scan_is_escape_tbl. unfold esc_val. revert e. apply is_some_ext. vm_compute. reflexivity. Qed.

Lemma scan_quotes : scan_string_quote = 34 /\ scan_char_quote = 39.
Proof. split; reflexivity. Qed.

Lemma esc_val_ascii q e v : q < 128 -> esc_val q e = Some v -> v < 128.
Proof.
  intros Hq. unfold esc_val, spec_escapes. cbn [lookup].
  repeat match goal with |- context [e =? ?k] => destruct (e =? k) end;
    intros H; inversion H; subst; lia.
Qed.

Lemma esc_val_rune_error q : q < 128 -> esc_val q rune_error = None.
Proof.
  intros Hq. unfold esc_val, spec_escapes, rune_error. cbn [lookup].
  destruct (N.eqb_spec 65533 q); [lia|]. reflexivity.
Qed.

(* ============================================================================================ *)
(* What the unescaping does on EVERY body: lenient translation + number of unknown escapes       *)
(* ============================================================================================ *)

Fixpoint translate (q : N) (body : list N) : list N * N :=
  match body with
  | [] => ([], 0)
  | c :: t =>
    if c =? 92 then
      match t with
      | [] => ([92], 1)
      | e :: t' =>
        match esc_val q e with
        | Some v => let '(s, n) := translate q t' in (v :: s, n)
        | None => let '(s, n) := translate q t in (92 :: s, n + 1)
        end
      end
    else let '(s, n) := translate q t in (c :: s, n)
  end.

Lemma translate_known q e v t : esc_val q e = Some v ->
  translate q (92 :: e :: t) = (v :: fst (translate q t), snd (translate q t)).
Proof. intros H. cbn [translate]. change (92 =? 92) with true. cbn match. rewrite H. destruct (translate q t); reflexivity. Qed.

Lemma translate_unknown q e t : esc_val q e = None ->
  translate q (92 :: e :: t) = (92 :: fst (translate q (e :: t)), snd (translate q (e :: t)) + 1).
Proof.
  intros H. cbn [translate]. change (92 =? 92) with true. cbn match. rewrite H.
  match goal with |- (let '(s, n) := ?X in _) = _ => destruct X end. reflexivity.
Qed.

Lemma translate_plain q c t : c <> 92 ->
  translate q (c :: t) = (c :: fst (translate q t), snd (translate q t)).
Proof.
  intros H. cbn [translate]. destruct (N.eqb_spec c 92); [contradiction|]. destruct (translate q t); reflexivity.
Qed.

(* denote is translate restricted to bodies without unknown escapes *)
Lemma denote_translate q : forall n body, (length body <= n)%nat ->
  denote q body = if snd (translate q body) =? 0 then Some (fst (translate q body)) else None.
Proof.
  induction n as [|n IH]; intros body Hl.
  { destruct body; [reflexivity|cbn in Hl; lia]. }
  destruct body as [|c t]; [reflexivity|]. cbn [length] in Hl.
  cbn [denote translate]. destruct (c =? 92).
  - destruct t as [|e t']; [reflexivity|]. cbn [length] in Hl.
    destruct (esc_val q e) as [v|].
    + rewrite (IH t') by lia. destruct (translate q t') as [s k]. cbn [fst snd].
      destruct (k =? 0); reflexivity.
    + destruct (translate q (e :: t')) as [s k]. cbn [fst snd].
      destruct (N.eqb_spec (k + 1) 0); [lia|reflexivity].
  - rewrite (IH t) by lia. destruct (translate q t) as [s k]. cbn [fst snd].
    destruct (k =? 0); reflexivity.
Qed.

Lemma denote_some q body d : denote q body = Some d -> translate q body = (d, 0).
Proof.
  rewrite (denote_translate q (length body) body (le_n _)).
  destruct (translate q body) as [s k]. cbn [fst snd].
  destruct (N.eqb_spec k 0); intros H; inversion H; subst; reflexivity.
Qed.

Lemma denote_none_iff q body : denote q body = None <-> 0 < snd (translate q body).
Proof.
  rewrite (denote_translate q (length body) body (le_n _)).
  destruct (N.eqb_spec (snd (translate q body)) 0); split; intros H; try discriminate H; try lia; reflexivity.
Qed.

(* ============================================================================================ *)
(* The splice loop                                                                              *)
(* ============================================================================================ *)

Lemma forallb_cons {A} (f : A -> bool) a l : forallb f (a :: l) = true -> f a = true /\ forallb f l = true.
Proof. cbn [forallb]. intros H. apply andb_prop in H. exact H. Qed.

Lemma encode_length_pos c : (1 <= length (encode_rune c))%nat.
Proof. pose proof (encode_rune_len c) as H. unfold nlen in H. lia. Qed.

Lemma decode_bs rest : decode_rune (92 :: rest) = (92, 1).
Proof. reflexivity. Qed.

(* invariant: the bytes before i are final (done), the bytes from i on are the still-escaped rest *)
Lemma ps_loop_translate : forall n body, (length body <= n)%nat ->
  forallb valid_cp body = true ->
  forall done errs fuel, (length (encode body) < fuel)%nat ->
  ps_loop fuel (done ++ encode body) (nlen done) errs =
  POk (done ++ encode (fst (translate 34 body))) (errs + snd (translate 34 body)).
Proof.
  induction n as [|n IH]; intros body Hl Hv done errs fuel Hf.
  { destruct body; [|cbn in Hl; lia]. destruct fuel; [cbn in Hf; lia|].
    cbn [ps_loop encode flat_map translate fst snd]. rewrite app_nil_r, N.ltb_irrefl, N.add_0_r. reflexivity. }
  destruct body as [|c t].
  { destruct fuel; [cbn in Hf; lia|].
    cbn [ps_loop encode flat_map translate fst snd]. rewrite app_nil_r, N.ltb_irrefl, N.add_0_r. reflexivity. }
  cbn [length] in Hl. apply forallb_cons in Hv. destruct Hv as [Hc Ht].
  destruct fuel as [|fuel]; [lia|].
  rewrite encode_cons in Hf. rewrite app_length in Hf. pose proof (encode_length_pos c) as Hcl.
  cbn [ps_loop]. rewrite encode_cons.
  assert (Hlt : (nlen done <? nlen (done ++ encode_rune c ++ encode t)) = true).
  { rewrite !nlen_app. pose proof (encode_rune_len c). lia. }
  rewrite Hlt. rewrite skipn_nlen_app. rewrite decode_encode by exact Hc.
  cbn [translate]. destruct (N.eqb_spec c 92) as [E|E].
  - (* backslash *)
    subst c. change (encode_rune 92) with [92]. change (nlen [92]) with 1.
    assert (Hp : (nlen (done ++ [92] ++ encode t) <? nlen done + 1) = false).
    { rewrite !nlen_app. change (nlen [92]) with 1. lia. }
    rewrite Hp.
    replace (nlen done + 1) with (nlen (done ++ [92])) by (rewrite nlen_app; reflexivity).
    replace (done ++ [92] ++ encode t) with ((done ++ [92]) ++ encode t) by (rewrite <- app_assoc; reflexivity).
    rewrite skipn_nlen_app.
    destruct t as [|e t'].
    + (* trailing backslash: DecodeRuneInString("") = (RuneError, 0) *)
      cbn [encode flat_map decode_rune]. rewrite string_table_spec, esc_val_rune_error by lia.
      destruct fuel as [|fuel]; [cbn in Hf; lia|]. cbn [ps_loop].
      rewrite app_nil_r, N.ltb_irrefl. cbn [fst snd encode flat_map app].
      reflexivity.
    + cbn [length] in Hl. apply forallb_cons in Ht. destruct Ht as [He Ht'].
      rewrite encode_cons. rewrite decode_encode by exact He.
      rewrite string_table_spec. destruct (esc_val 34 e) as [v|] eqn:Ev.
      * (* known escape: splice *)
        assert (Hva : v < 128) by (apply (esc_val_ascii 34 e v); [lia|exact Ev]).
        rewrite (encode_rune_ascii v Hva).
        assert (Hp2 : (nlen ((done ++ [92]) ++ encode_rune e ++ encode t') <? nlen (done ++ [92]) + nlen (encode_rune e)) = false).
        { rewrite !nlen_app. lia. }
        rewrite Hp2.
        replace ((done ++ [92]) ++ encode_rune e ++ encode t') with (done ++ ([92] ++ encode_rune e ++ encode t'))
          by (rewrite <- app_assoc; reflexivity).
        rewrite nlen_app. rewrite firstn_nlen_app.
        replace (done ++ [92] ++ encode_rune e ++ encode t') with ((done ++ [92] ++ encode_rune e) ++ encode t')
          by (rewrite <- !app_assoc; reflexivity).
        replace (nlen done + nlen [92] + nlen (encode_rune e)) with (nlen (done ++ [92] ++ encode_rune e))
          by (rewrite !nlen_app; lia).
        rewrite skipn_nlen_app.
        replace (nlen done + nlen [92]) with (nlen (done ++ [v])) by (rewrite !nlen_app; reflexivity).
        replace (done ++ [v] ++ encode t') with ((done ++ [v]) ++ encode t') by (rewrite <- app_assoc; reflexivity).
        rewrite (IH t') by (try assumption; try lia;
          rewrite encode_cons, app_length in Hf; cbn [length] in Hf; pose proof (encode_length_pos e); lia).
        destruct (translate 34 t') as [s k]. cbn [fst snd].
        rewrite encode_cons, (encode_rune_ascii v Hva), <- app_assoc. reflexivity.
      * (* unknown escape: diagnostic, continue behind the backslash *)
        rewrite <- encode_cons.
        assert (Hv' : forallb valid_cp (e :: t') = true) by (cbn [forallb]; rewrite He, Ht'; reflexivity).
        assert (Hl' : (length (e :: t') <= n)%nat) by (cbn [length]; lia).
        assert (Hf' : (length (encode (e :: t')) < fuel)%nat)
          by (change (encode_rune 92) with [92] in Hf; cbn [length] in Hf; lia).
        rewrite (IH (e :: t') Hl' Hv' (done ++ [92]) (errs + 1) fuel Hf').
        destruct (translate 34 (e :: t')) as [s k]. cbn [fst snd].
        rewrite encode_cons. change (encode_rune 92) with [92]. rewrite <- app_assoc.
        f_equal. lia.
  - (* plain code point *)
    destruct (N.eqb_spec c 92) as [E'|_]; [contradiction|].
    replace (nlen done + nlen (encode_rune c)) with (nlen (done ++ encode_rune c)) by (rewrite nlen_app; reflexivity).
    replace (done ++ encode_rune c ++ encode t) with ((done ++ encode_rune c) ++ encode t) by (rewrite <- app_assoc; reflexivity).
    rewrite (IH t) by (try assumption; lia).
    destruct (translate 34 t) as [s k]. cbn [fst snd].
    rewrite encode_cons, <- app_assoc. reflexivity.
Qed.

(* parse_string never panics, never runs out of fuel, and computes the lenient translation *)
Theorem parse_string_translate body :
  forallb valid_cp body = true ->
  parse_string (encode body) = POk (encode (fst (translate 34 body))) (snd (translate 34 body)).
Proof.
  intros Hv. unfold parse_string.
  apply (ps_loop_translate (length body) body (le_n _) Hv [] 0 (S (length (encode body)))). lia.
Qed.

Theorem parse_string_denote body d :
  forallb valid_cp body = true -> denote 34 body = Some d ->
  parse_string (encode body) = POk (encode d) 0.
Proof.
  intros Hv Hd. rewrite (parse_string_translate body Hv). rewrite (denote_some 34 body d Hd). reflexivity.
Qed.

(* ============================================================================================ *)
(* Scanner                                                                                      *)
(* ============================================================================================ *)

Definition has_bs (l : list N) : bool := existsb (N.eqb 92) l.

Lemma scan_lit_spec q : (forall e, scan_is_escape q e = is_some (esc_val q e)) ->
  forall n src, (length src <= n)%nat ->
  forall body rest k b, scan_lit q src = (Some (body, rest), k, b) ->
  src = body ++ q :: rest /\ k = snd (translate q body) /\ b = has_bs body.
Proof.
  intros Hq. induction n as [|n IH]; intros src Hl body rest k b H.
  { destruct src; [cbn in H; discriminate H|cbn in Hl; lia]. }
  destruct src as [|c t]; [cbn in H; discriminate H|]. cbn [length] in Hl.
  cbn [scan_lit] in H. destruct (N.eqb_spec c q) as [E|E].
  { inversion H; subst. repeat split. }
  destruct (N.eqb_spec c 92) as [E2|E2].
  - subst c. destruct t as [|e t']; [discriminate H|]. cbn [length] in Hl.
    rewrite Hq in H. destruct (esc_val q e) as [v|] eqn:Ev; cbn [is_some] in H.
    + destruct (scan_lit q t') as [[r k'] b'] eqn:S. destruct r as [[bd rs]|]; cbn in H; [|discriminate H].
      inversion H; subst. destruct (IH t' ltac:(lia) _ _ _ _ S) as (-> & -> & _).
      rewrite (translate_known q e v bd Ev). cbn [snd has_bs existsb N.eqb Pos.eqb orb].
      repeat split.
    + destruct (scan_lit q (e :: t')) as [[r k'] b'] eqn:S. destruct r as [[bd rs]|]; cbn in H; [|discriminate H].
      inversion H; subst. destruct (IH (e :: t') ltac:(cbn [length]; lia) _ _ _ _ S) as (Es & -> & _).
      (* the body continues with e: it is not the quote (else the escape would be known) *)
      destruct bd as [|e' bd'].
      { cbn [app] in Es. inversion Es; subst.
        assert (X : esc_val q q <> None).
        { unfold esc_val, spec_escapes. cbn [lookup]. rewrite N.eqb_refl.
          repeat match goal with |- context [q =? ?k] => destruct (q =? k) end; intros X; discriminate X. }
        congruence. }
      cbn [app] in Es. inversion Es; subst e'.
      rewrite (translate_unknown q e bd' Ev). cbn [snd fst].
      repeat split.
  - destruct (scan_lit q t) as [[r k'] b'] eqn:S. destruct r as [[bd rs]|]; cbn in H; [|discriminate H].
    inversion H; subst. destruct (IH t ltac:(lia) _ _ _ _ S) as (-> & -> & ->).
    rewrite (translate_plain q c bd E2). cbn [snd fst].
    repeat split. cbn [has_bs existsb]. destruct (N.eqb_spec 92 c); [congruence|]. reflexivity.
Qed.

Lemma forallb_app_inv {A} (f : A -> bool) a b : forallb f (a ++ b) = true -> forallb f a = true /\ forallb f b = true.
Proof. rewrite forallb_app. intros H. apply andb_prop in H. exact H. Qed.

(* ---- text literals: scanner and parser together ------------------------------------------------ *)

Theorem string_literal_spec src body rest k :
  forallb valid_cp src = true ->
  scan_string src = (Some (body, rest), k) ->
  src = body ++ 34 :: rest /\
  parse_string (encode body) = POk (encode (fst (translate 34 body))) k /\
  (k = 0 <-> denote 34 body <> None) /\
  (forall d, denote 34 body = Some d -> k = 0 /\ parse_string (encode body) = POk (encode d) 0).
Proof.
  intros Hv H. unfold scan_string in H. change scan_string_quote with 34 in H.
  destruct (scan_lit 34 src) as [[r k'] b] eqn:S. inversion H; subst r k'. clear H.
  destruct (scan_lit_spec 34 scan_escape_spec_string (length src) src (le_n _) _ _ _ _ S) as (Es & Ek & _).
  subst src. apply forallb_app_inv in Hv. destruct Hv as [Hb _].
  split; [reflexivity|]. split; [rewrite (parse_string_translate body Hb), Ek; reflexivity|].
  split.
  - pose proof (denote_none_iff 34 body) as D. rewrite <- Ek in D. split.
    + intros K Hn. apply D in Hn. lia.
    + intros Hn. destruct (N.eq_dec k 0) as [|Hk]; [assumption|]. exfalso. apply Hn. apply D. lia.
  - intros d Hd. rewrite (denote_some 34 body d Hd) in Ek. cbn [snd] in Ek. split; [exact Ek|].
    apply parse_string_denote; assumption.
Qed.

(* an unknown escape is reported by the scanner AND by the parser (same count) *)
Theorem string_literal_reject src body rest k :
  forallb valid_cp src = true ->
  scan_string src = (Some (body, rest), k) ->
  denote 34 body = None ->
  0 < k /\ exists s, parse_string (encode body) = POk s k.
Proof.
  intros Hv H Hn. destruct (string_literal_spec src body rest k Hv H) as (_ & Hp & Hk & _).
  split.
  - destruct (N.eq_dec k 0) as [K|K]; [|lia]. apply Hk in K. contradiction.
  - eexists. exact Hp.
Qed.

(* ---- every text can be written: escape ---------------------------------------------------------- *)

Lemma denote_escape_cp q c l : q = 34 \/ q = 39 ->
  denote q (escape_cp q c ++ l) = option_map (cons c) (denote q l).
Proof.
  intros Hq. unfold escape_cp.
  destruct (N.eqb_spec c 7); [subst; destruct Hq; subst; reflexivity|].
  destruct (N.eqb_spec c 8); [subst; destruct Hq; subst; reflexivity|].
  destruct (N.eqb_spec c 10); [subst; destruct Hq; subst; reflexivity|].
  destruct (N.eqb_spec c 13); [subst; destruct Hq; subst; reflexivity|].
  destruct (N.eqb_spec c 9); [subst; destruct Hq; subst; reflexivity|].
  destruct (N.eqb_spec c 92); [subst; destruct Hq; subst; reflexivity|].
  destruct (N.eqb_spec c q); [subst; destruct Hq; subst; reflexivity|].
  cbn [app denote]. destruct (N.eqb_spec c 92); [contradiction|]. reflexivity.
Qed.

Theorem denote_escape q s : q = 34 \/ q = 39 -> denote q (escape q s) = Some s.
Proof.
  intros Hq. induction s as [|c s IH]; [reflexivity|].
  cbn [escape flat_map]. rewrite denote_escape_cp by exact Hq. fold (escape q s). rewrite IH. reflexivity.
Qed.

Lemma scan_lit_plain q c t : c <> q -> c <> 92 ->
  scan_lit q (c :: t) =
  let '(r, n, b) := scan_lit q t in (option_map (fun br => (c :: fst br, snd br)) r, n, b).
Proof.
  intros H1 H2. cbn [scan_lit]. destruct (N.eqb_spec c q); [contradiction|].
  destruct (N.eqb_spec c 92); [contradiction|]. reflexivity.
Qed.

Lemma scan_lit_escape q e t : 92 <> q -> scan_is_escape q e = true ->
  scan_lit q (92 :: e :: t) =
  let '(r, n, _) := scan_lit q t in (option_map (fun br => (92 :: e :: fst br, snd br)) r, n, true).
Proof.
  intros H1 H2. cbn [scan_lit]. destruct (N.eqb_spec 92 q); [contradiction|].
  change (92 =? 92) with true. cbn match. rewrite H2. reflexivity.
Qed.

Theorem scan_escape q s rest : q = 34 \/ q = 39 ->
  exists b, scan_lit q (escape q s ++ q :: rest) = (Some (escape q s, rest), 0, b).
Proof.
  intros Hq. induction s as [|c s IH].
  { exists false. cbn [escape flat_map app scan_lit]. rewrite N.eqb_refl. reflexivity. }
  destruct IH as [b IH]. cbn [escape flat_map]. fold (escape q s). rewrite <- app_assoc.
  assert (Hq92 : 92 <> q) by (destruct Hq; subst; discriminate).
  assert (ESC : forall e, In e [97; 98; 110; 114; 116; 92; q] -> scan_is_escape q e = true).
  { intros e He. destruct Hq; subst q; cbn [In] in He;
      repeat (destruct He as [He|He]; [subst e; reflexivity|]); contradiction. }
  assert (K : forall e, In e [97; 98; 110; 114; 116; 92; q] ->
     exists b', scan_lit q ([92; e] ++ escape q s ++ q :: rest) = (Some ([92; e] ++ escape q s, rest), 0, b')).
  { intros e He. exists true. cbn [app]. rewrite (scan_lit_escape q e _ Hq92 (ESC e He)). rewrite IH. reflexivity. }
  unfold escape_cp.
  destruct (N.eqb_spec c 7); [apply K; cbn; tauto|].
  destruct (N.eqb_spec c 8); [apply K; cbn; tauto|].
  destruct (N.eqb_spec c 10); [apply K; cbn; tauto|].
  destruct (N.eqb_spec c 13); [apply K; cbn; tauto|].
  destruct (N.eqb_spec c 9); [apply K; cbn; tauto|].
  destruct (N.eqb_spec c 92); [apply K; cbn; tauto|].
  destruct (N.eqb_spec c q); [apply K; cbn; tauto|].
  exists b. cbn [app]. rewrite scan_lit_plain by assumption. rewrite IH. reflexivity.
Qed.

(* ---- character literals -------------------------------------------------------------------------- *)

Lemma parse_char_plain c : valid_cp c = true -> parse_char (encode [c]) = (Z.of_N c, 0).
Proof.
  intros Hc. unfold parse_char. rewrite rune_count_encode by (cbn [forallb]; rewrite Hc; reflexivity).
  change (nlen [c] =? 1) with true. cbn match. cbn [encode flat_map]. rewrite decode_encode by exact Hc. reflexivity.
Qed.

Lemma parse_char_escape e : valid_cp e = true ->
  parse_char (encode [92; e]) =
  match esc_val 39 e with Some v => (Z.of_N v, 0) | None => (Z.of_N e, 1) end.
Proof.
  intros He. unfold parse_char.
  rewrite rune_count_encode by (cbn [forallb]; rewrite He; reflexivity).
  change (nlen [92; e] =? 1) with false. change (nlen [92; e] =? 2) with true. cbn match.
  cbn [encode flat_map]. rewrite app_nil_r. change (encode_rune 92) with [92].
  rewrite (decode_last_encode [92] e He) by (cbn; lia). cbn [fst].
  rewrite char_table_spec. reflexivity.
Qed.

Theorem char_literal_spec src body rest k :
  forallb valid_cp src = true ->
  scan_char src = (Some (body, rest), k) ->
  src = body ++ 39 :: rest /\
  (k = 0 -> exists c, denote 39 body = Some [c] /\ parse_char (encode body) = (Z.of_N c, 0)).
Proof.
  intros Hv H. unfold scan_char in H. change scan_char_quote with 39 in H.
  destruct (scan_lit 39 src) as [[r n] b] eqn:S. destruct r as [[bd rs]|]; [|discriminate H].
  destruct (scan_lit_spec 39 scan_escape_spec_char (length src) src (le_n _) _ _ _ _ S) as (Es & En & Eb).
  injection H as Hbd Hrs H2. subst bd rs. split; [exact Es|].
  subst src. apply forallb_app_inv in Hv. destruct Hv as [Hb _].
  intros K. rewrite K in H2.
  destruct body as [|x [|y [|z body]]].
  - exfalso. cbn in H2. lia.
  - apply forallb_cons in Hb. destruct Hb as [Hx _].
    destruct (N.eqb_spec x 92) as [E|E].
    + exfalso. subst x. cbn in En. cbn in H2. lia.
    + exists x. split; [|apply parse_char_plain; exact Hx].
      cbn [denote]. destruct (N.eqb_spec x 92); [contradiction|]. reflexivity.
  - apply forallb_cons in Hb. destruct Hb as [Hx Hb]. apply forallb_cons in Hb. destruct Hb as [Hy _].
    change (nlen [x; y] + 2 =? 3) with false in H2. change (nlen [x; y] + 2 =? 4) with true in H2. cbn match in H2.
    destruct (N.eqb_spec x 92) as [E|E].
    + subst x. destruct (esc_val 39 y) as [v|] eqn:Ev.
      * exists v. split.
        { cbn [denote]. change (92 =? 92) with true. cbn match. rewrite Ev. reflexivity. }
        rewrite (parse_char_escape y Hy), Ev. reflexivity.
      * exfalso. rewrite (translate_unknown 39 y [] Ev) in En. cbn [snd] in En. lia.
    + exfalso. rewrite (translate_plain 39 x [y] E) in En. cbn [snd] in En.
      destruct (N.eqb_spec y 92) as [E2|E2].
      * subst y. cbn in En. lia.
      * assert (b = false).
        { rewrite Eb. cbn [has_bs existsb]. destruct (N.eqb_spec 92 x); [congruence|].
          destruct (N.eqb_spec 92 y); [congruence|]. reflexivity. }
        rewrite H in H2. lia.
  - exfalso. rewrite !nlen_cons in H2.
    destruct (N.eqb_spec (1 + (1 + (1 + nlen body)) + 2) 3); [lia|].
    destruct (N.eqb_spec (1 + (1 + (1 + nlen body)) + 2) 4); [lia|]. lia.
Qed.

(* completeness: every single character and every escape is accepted *)
Theorem char_literal_complete rest :
  (forall c, c <> 39 -> c <> 92 -> scan_char (c :: 39 :: rest) = (Some ([c], rest), 0)) /\
  (forall e v, esc_val 39 e = Some v -> scan_char (92 :: e :: 39 :: rest) = (Some ([92; e], rest), 0)).
Proof.
  split.
  - intros c H1 H2. unfold scan_char. change scan_char_quote with 39.
    rewrite scan_lit_plain by assumption. cbn [scan_lit]. rewrite N.eqb_refl. reflexivity.
  - intros e v Ev. unfold scan_char. change scan_char_quote with 39.
    rewrite scan_lit_escape; [|discriminate|rewrite scan_escape_spec_char, Ev; reflexivity].
    cbn [scan_lit]. rewrite N.eqb_refl. reflexivity.
Qed.

(* ---- integers -------------------------------------------------------------------------------------- *)

Definition hstep (a d : N) : N := a * 10 + (d - 48).

Lemma fold_hstep_ge ds : forall a, a <= fold_left hstep ds a.
Proof.
  induction ds as [|d ds IH]; intros a; cbn [fold_left]; [lia|].
  specialize (IH (hstep a d)). unfold hstep in *. lia.
Qed.

Lemma parse_uint_loop_spec ds : forallb is_digit ds = true ->
  forall n, n < two64 ->
  parse_uint_loop n ds = if fold_left hstep ds n <? two64 then NumOk (fold_left hstep ds n) else NumRange.
Proof.
  unfold two64. induction ds as [|c ds IH]; intros Hd n Hn.
  { cbn [parse_uint_loop fold_left]. destruct (N.ltb_spec n 18446744073709551616); [reflexivity|lia]. }
  apply forallb_cons in Hd. destruct Hd as [Hc Hds].
  cbn [parse_uint_loop fold_left]. rewrite Hc. unfold is_digit in Hc.
  pose proof (fold_hstep_ge ds (hstep n c)) as Hge. unfold hstep at 1 in Hge.
  unfold cutoff64, two64.
  destruct (N.leb_spec 1844674407370955162 n) as [Hcut|Hcut].
  { destruct (N.ltb_spec (fold_left hstep ds (hstep n c)) 18446744073709551616); [lia|reflexivity]. }
  destruct (N.ltb_spec (n * 10 + (c - 48)) 18446744073709551616) as [Hfit|Hover].
  - replace ((n * 10) mod 18446744073709551616) with (n * 10) by lia.
    replace ((n * 10 + (c - 48)) mod 18446744073709551616) with (n * 10 + (c - 48)) by lia.
    replace ((n * 10 + (c - 48) <? n * 10) || (18446744073709551616 - 1 <? n * 10 + (c - 48))) with false by lia.
    rewrite (IH Hds (n * 10 + (c - 48)) Hfit). reflexivity.
  - replace ((n * 10) mod 18446744073709551616) with (n * 10) by lia.
    replace ((n * 10 + (c - 48)) mod 18446744073709551616) with (n * 10 + (c - 48) - 18446744073709551616) by lia.
    replace ((n * 10 + (c - 48) - 18446744073709551616 <? n * 10) || (18446744073709551616 - 1 <? n * 10 + (c - 48) - 18446744073709551616)) with true by lia.
    destruct (N.ltb_spec (fold_left hstep ds (hstep n c)) 18446744073709551616); [lia|reflexivity].
Qed.

Theorem parse_int_spec ds :
  ds <> [] -> forallb is_digit ds = true ->
  parse_int ds = if dec_value ds <? two63 then NumOk (dec_value ds) else NumRange.
Proof.
  intros Hne Hd. unfold parse_int. destruct ds as [|c ds]; [contradiction|].
  rewrite (parse_uint_loop_spec (c :: ds) Hd 0) by (unfold two64; lia).
  change (fold_left hstep (c :: ds) 0) with (dec_value (c :: ds)).
  unfold two64, two63.
  destruct (N.ltb_spec (dec_value (c :: ds)) 18446744073709551616);
    destruct (N.ltb_spec (dec_value (c :: ds)) 9223372036854775808); try lia.
  - destruct (N.leb_spec 9223372036854775808 (dec_value (c :: ds))); [lia|reflexivity].
  - destruct (N.leb_spec 9223372036854775808 (dec_value (c :: ds))); [reflexivity|lia].
  - reflexivity.
Qed.

Theorem parse_int_lit_spec ds :
  ds <> [] -> forallb is_digit ds = true ->
  parse_int_lit ds = if dec_value ds <? two63 then (dec_value ds, 0) else (0, 1).
Proof.
  intros Hne Hd. unfold parse_int_lit. rewrite (parse_int_spec ds Hne Hd).
  destruct (dec_value ds <? two63); reflexivity.
Qed.

(* signed literals: -digits is accepted exactly down to -2^63 *)
Theorem negate_int_lit_spec ds :
  ds <> [] -> forallb is_digit ds = true ->
  negate_int_lit ds = if dec_value ds <=? two63 then ((- Z.of_N (dec_value ds))%Z, 0) else (0%Z, 1).
Proof.
  intros Hne Hd. unfold negate_int_lit. rewrite (parse_int_lit_spec ds Hne Hd).
  unfold parse_int_go. change (45 =? 43) with false. change (45 =? 45) with true. cbn match.
  destruct ds as [|c ds]; [contradiction|].
  rewrite (parse_uint_loop_spec (c :: ds) Hd 0) by (unfold two64; lia).
  change (fold_left hstep (c :: ds) 0) with (dec_value (c :: ds)).
  set (v := dec_value (c :: ds)). unfold two64, two63. cbn [negb andb].
  destruct (N.ltb_spec v 18446744073709551616) as [H64|H64].
  - destruct (N.ltb_spec 9223372036854775808 v) as [Hgt|Hle].
    + destruct (N.ltb_spec v 9223372036854775808); [lia|].
      destruct (N.leb_spec v 9223372036854775808); [lia|]. reflexivity.
    + destruct (N.leb_spec v 9223372036854775808); [|lia].
      destruct (Z.eqb_spec (- Z.of_N v) (-9223372036854775808)) as [E|E].
      * reflexivity.
      * destruct (N.ltb_spec v 9223372036854775808); [reflexivity|lia].
  - destruct (N.ltb_spec v 9223372036854775808); [lia|].
    destruct (N.leb_spec v 9223372036854775808); [lia|]. reflexivity.
Qed.

(* ---- quote trimming ---------------------------------------------------------------------------------- *)

Lemma lit_body_quotes q body : lit_body q (q :: body ++ [q]) = body.
Proof.
  unfold lit_body, trim_suffix1. change (q :: body ++ [q]) with ((q :: body) ++ [q]).
  rewrite rev_app_distr. cbn [rev app]. rewrite N.eqb_refl.
  rewrite rev_app_distr, rev_involutive. cbn [rev app trim_prefix1]. rewrite N.eqb_refl. reflexivity.
Qed.

Lemma decode_all_encode cs : forallb valid_cp cs = true -> decode_all (encode cs) = cs.
Proof.
  intros Hv. unfold decode_all.
  assert (G : forall fuel, (length (encode cs) <= fuel)%nat -> decode_all_fuel fuel (encode cs) = cs).
  { induction cs as [|c cs IH]; intros fuel Hf.
    - destruct fuel; reflexivity.
    - apply forallb_cons in Hv. destruct Hv as [Hc Hcs]. rewrite encode_cons in *.
      rewrite app_length in Hf. pose proof (encode_length_pos c) as Hl.
      destruct fuel as [|fuel]; [lia|]. cbn [decode_all_fuel].
      destruct (encode_rune c ++ encode cs) eqn:E.
      { destruct (encode_rune c); [cbn in Hl; lia|discriminate E]. }
      rewrite <- E. rewrite decode_encode by exact Hc. rewrite skipn_nlen_app.
      rewrite IH; [reflexivity|exact Hcs|lia]. }
  apply G. lia.
Qed.
