(* C19 — executable model of literal handling (definitions only).
     scanner.go   scanEscape / string / char           -> scan_is_escape, scan_lit, scan_string, scan_char
     expressions.go parseString (the splice loop)      -> ps_loop, parse_string
                    parseChar                          -> parse_char
                    parseIntLit + strconv.ParseInt     -> parse_uint_loop, parse_int, parse_int_lit
                    FLOAT case + strconv.ParseFloat    -> parse_float_lit (ParseFloat := dec_to_sf, the
                                                          correctly rounded quotient, proved in LiteralProofs)
   and the specification: denote / escape / dec_value.
   Bytes and code points are N.  The escape tables come from Gen/LitEscapes.v, which is regenerated from
   /repo on every run.  The scanner part works on code points: the source has passed utf8.Valid, so the
   scanner's DecodeRune steps are exactly the code points (decode_all below; C13 owns the byte-level scanner). *)
From Coq Require Import List NArith ZArith Bool.
From Coq Require Import Floats.SpecFloat.
From Flocq Require Import IEEE754.BinarySingleNaN.
Import ListNotations.
From DDP Require Import Lex.LitUtf8 Gen.LitEscapes.
Open Scope N_scope.

Fixpoint lookup (k : N) (t : list (N * N)) : option N :=
  match t with
  | [] => None
  | (k', v) :: r => if k =? k' then Some v else lookup k r
  end.

(* ============================================================================================ *)
(* Specification                                                                                *)
(* ============================================================================================ *)

(* \a \b \n \r \t \\ and the quote of the literal kind *)
Definition spec_escapes (q : N) : list (N * N) :=
  [(97, 7); (98, 8); (110, 10); (114, 13); (116, 9); (92, 92); (q, q)].
Definition esc_val (q e : N) : option N := lookup e (spec_escapes q).

(* the written value of a literal body (code points between the quotes): unit-wise translation;
   None = the body contains a backslash that does not start a known escape *)
Fixpoint denote (q : N) (body : list N) : option (list N) :=
  match body with
  | [] => Some []
  | c :: t =>
    if c =? 92 then
      match t with
      | [] => None
      | e :: t' =>
        match esc_val q e with
        | Some v => option_map (cons v) (denote q t')
        | None => None
        end
      end
    else option_map (cons c) (denote q t)
  end.

(* how to write a given text as a literal body *)
Definition escape_cp (q c : N) : list N :=
  if c =? 7 then [92; 97] else if c =? 8 then [92; 98] else if c =? 10 then [92; 110]
  else if c =? 13 then [92; 114] else if c =? 9 then [92; 116] else if c =? 92 then [92; 92]
  else if c =? q then [92; q] else [c].
Definition escape (q : N) (s : list N) : list N := flat_map (escape_cp q) s.

(* positional value of a string of ASCII digits *)
Definition dec_value (ds : list N) : N := fold_left (fun a d => a * 10 + (d - 48)) ds 0.
Definition is_digit (c : N) : bool := (48 <=? c) && (c <=? 57).

(* ============================================================================================ *)
(* Scanner: delimiting and escape validation                                                    *)
(* ============================================================================================ *)

(* scanEscape: is the rune after the backslash accepted *)
Definition scan_is_escape (q e : N) : bool :=
  existsb (N.eqb e) scan_escape_runes || (scan_escape_quote && (e =? q)).

(* the loop of Scanner.string / Scanner.char on the code points after the opening quote:
   (Some (body, rest) | None = unterminated (ILLEGAL token), number of diagnostics, gotBackslash).
   A valid escape consumes two runes, an unknown one reports and consumes only the backslash. *)
Fixpoint scan_lit (q : N) (src : list N) : option (list N * list N) * N * bool :=
  match src with
  | [] => (None, 0, false)
  | c :: t =>
    if c =? q then (Some ([], t), 0, false)
    else if c =? 92 then
      match t with
      | [] => (None, 1, true)                      (* peekNext = eof: diagnostic, then atEnd *)
      | e :: t' =>
        if scan_is_escape q e then
          let '(r, n, _) := scan_lit q t' in
          (option_map (fun br => (92 :: e :: fst br, snd br)) r, n, true)
        else
          let '(r, n, _) := scan_lit q t in
          (option_map (fun br => (92 :: fst br, snd br)) r, n + 1, true)
      end
    else
      let '(r, n, b) := scan_lit q t in
      (option_map (fun br => (c :: fst br, snd br)) r, n, b)
  end.

Definition scan_string (src : list N) : option (list N * list N) * N :=
  let '(r, n, _) := scan_lit scan_string_quote src in (r, n).

(* Scanner.char: additionally the rune count of the token literal (body + 2 quotes) must be 3, or 4
   with a backslash seen *)
Definition scan_char (src : list N) : option (list N * list N) * N :=
  let '(r, n, bs) := scan_lit scan_char_quote src in
  match r with
  | None => (None, n)
  | Some (body, rest) =>
    let cnt := nlen body + 2 in
    let extra := if cnt =? 3 then 0 else if cnt =? 4 then (if bs then 0 else 1) else 1 in
    (Some (body, rest), n + extra)
  end.

(* ============================================================================================ *)
(* Parser: unescaping                                                                           *)
(* ============================================================================================ *)

Definition trim_suffix1 (s : list N) (q : N) : list N :=
  match rev s with
  | x :: r => if x =? q then rev r else s
  | [] => s
  end.
Definition trim_prefix1 (s : list N) (q : N) : list N :=
  match s with
  | x :: t => if x =? q then t else s
  | [] => s
  end.
(* strings.TrimPrefix(strings.TrimSuffix(s, q), q) *)
Definition lit_body (q : N) (lit : list N) : list N := trim_prefix1 (trim_suffix1 lit q) q.

Inductive pres :=
| POk (str : list N) (errs : N)
| PPanic          (* slice bounds out of range: excluded by ps_loop_total *)
| PFuel.          (* excluded by ps_loop_total *)

(* for i, w := 0, 0; i < len(str); i += w {
     r, w = DecodeRuneInString(str[i:])
     if r == '\\' { seq, w2 := DecodeRuneInString(str[i+w:])
                    switch seq { case known: seq = value; default: p.err(...); continue }
                    str = str[:i] + string(seq) + str[i+w+w2:] } } *)
Fixpoint ps_loop (fuel : nat) (str : list N) (i errs : N) : pres :=
  match fuel with
  | O => PFuel
  | S f =>
    if i <? nlen str then
      let '(r, w) := decode_rune (skipn (N.to_nat i) str) in
      if r =? 92 then
        if nlen str <? i + w then PPanic else
        let '(seq, w2) := decode_rune (skipn (N.to_nat (i + w)) str) in
        match lookup seq parse_string_escapes with
        | Some v =>
          if nlen str <? i + w + w2 then PPanic else
          ps_loop f (firstn (N.to_nat i) str ++ encode_rune v ++ skipn (N.to_nat (i + w + w2)) str) (i + w) errs
        | None => ps_loop f str (i + w) (errs + 1)
        end
      else ps_loop f str (i + w) errs
    else POk str errs
  end.

Definition parse_string (body : list N) : pres := ps_loop (S (length body)) body 0 0.
Definition parse_string_lit (lit : list N) : pres := parse_string (lit_body 34 lit).

(* parseChar: (value, diagnostics); -1 for a rune count other than 1 or 2 *)
Definition parse_char (body : list N) : Z * N :=
  let cnt := rune_count body in
  if cnt =? 1 then (Z.of_N (fst (decode_rune body)), 0)
  else if cnt =? 2 then
    let r := fst (decode_last_rune body) in
    match lookup r parse_char_escapes with
    | Some v => (Z.of_N v, 0)
    | None => (Z.of_N r, 1)
    end
  else ((-1)%Z, 0).
Definition parse_char_lit (lit : list N) : Z * N := parse_char (lit_body 39 lit).

(* ============================================================================================ *)
(* Numbers                                                                                      *)
(* ============================================================================================ *)

Inductive num_res := NumOk (v : N) | NumSyntax | NumRange.

Definition two64 : N := 18446744073709551616.
Definition two63 : N := 9223372036854775808.
Definition cutoff64 : N := 1844674407370955162.   (* maxUint64/10 + 1 *)

(* strconv.ParseUint(s, 10, 64) on a string without sign/underscore handling (an INT token is digit+):
   uint64 arithmetic with explicit wrap-around *)
Fixpoint parse_uint_loop (n : N) (s : list N) : num_res :=
  match s with
  | [] => NumOk n
  | c :: t =>
    if is_digit c then
      let d := c - 48 in
      if cutoff64 <=? n then NumRange
      else
        let n10 := (n * 10) mod two64 in
        let n1 := (n10 + d) mod two64 in
        if (n1 <? n10) || (two64 - 1 <? n1) then NumRange else parse_uint_loop n1 t
    else NumSyntax
  end.

(* strconv.ParseInt(s, 10, 64) for an unsigned digit string: range error from 2^63 on *)
Definition parse_int (s : list N) : num_res :=
  match s with
  | [] => NumSyntax
  | _ =>
    match parse_uint_loop 0 s with
    | NumOk un => if two63 <=? un then NumRange else NumOk un
    | e => e
    end
  end.

(* parseIntLit: (value, diagnostics); the value is 0 when a diagnostic was reported *)
Definition parse_int_lit (lit : list N) : N * N :=
  match parse_int lit with
  | NumOk v => (v, 0)
  | _ => (0, 1)
  end.

(* strconv.ParseInt(s, 10, 64) including its sign handling (used by negate() with "-" ++ literal) *)
Inductive znum_res := ZOk (v : Z) | ZSyntax | ZRange.

Definition parse_int_go (s : list N) : znum_res :=
  match s with
  | [] => ZSyntax
  | c :: t =>
    let '(neg, ds) := if c =? 43 then (false, t) else if c =? 45 then (true, t) else (false, s) in
    match ds with
    | [] => ZSyntax
    | _ =>
      match parse_uint_loop 0 ds with
      | NumSyntax => ZSyntax
      | NumRange => ZRange              (* un = maxUint64: out of range with either sign *)
      | NumOk un =>
        if negb neg && (two63 <=? un) then ZRange
        else if neg && (two63 <? un) then ZRange
        else ZOk (if neg then (- Z.of_N un)%Z else Z.of_N un)
      end
    end
  end.

(* negate() on NEGATE INT: if ParseInt("-" ++ lit) is math.MinInt64 the result is that IntLit; otherwise the
   unary negation of parseIntLit(lit) (a value below 2^63, so no wrap-around). (value, diagnostics) *)
Definition negate_int_lit (lit : list N) : Z * N :=
  let fallback := let '(v, e) := parse_int_lit lit in ((- Z.of_N v)%Z, e) in
  match parse_int_go (45 :: lit) with
  | ZOk v => if (v =? - 9223372036854775808)%Z then (v, 0) else fallback
  | _ => fallback
  end.

(* ---- Kommazahl ------------------------------------------------------------------------------ *)

(* the correctly rounded (nearest-even) binary64 quotient m/d of two positive integers: Flocq/SpecFloat's
   division core (quotient + sticky location) followed by rounding *)
Definition dec_to_sf (m d : positive) : spec_float :=
  let '(mz, ez, lz) := SFdiv_core_binary 53 1024 (Zpos m) 0 (Zpos d) 0 in
  binary_round_aux 53 1024 mode_NE false mz ez lz.

Definition pow10 (k : nat) : positive := Nat.iter k (Pos.mul 10) 1%positive.

Fixpoint split_comma (s : list N) : list N * option (list N) :=
  match s with
  | [] => ([], None)
  | c :: t =>
    if c =? 44 then ([], Some t)
    else let '(a, b) := split_comma t in (c :: a, b)
  end.

Inductive float_res := FOk (f : spec_float) | FSyntax | FRange.

(* strconv.ParseFloat(strings.Replace(lit, ",", ".", 1), 64) on digit+ [ ',' digit* ] :
   value = (all digits as an integer) / 10^(number of fraction digits), rounded to nearest even;
   ErrRange when the rounded value is infinite *)
Definition parse_float (lit : list N) : float_res :=
  let '(ip, fo) := split_comma lit in
  let fp := match fo with Some f => f | None => [] end in
  if forallb is_digit (ip ++ fp) && negb (nlen (ip ++ fp) =? 0) then
    match dec_value (ip ++ fp) with
    | 0 => FOk (S754_zero false)
    | Npos m =>
      let z := dec_to_sf m (pow10 (length fp)) in
      match z with
      | S754_infinity _ => FRange
      | _ => FOk z
      end
    end
  else FSyntax.

(* the FLOAT case of primary(): (value, diagnostics) *)
Definition parse_float_lit (lit : list N) : spec_float * N :=
  match parse_float lit with
  | FOk f => (f, 0)
  | _ => (S754_zero false, 1)
  end.

(* IEEE-754 binary64 bit pattern of a spec_float produced above *)
Definition sf_bits (f : spec_float) : Z :=
  match f with
  | S754_zero s => if s then 9223372036854775808 else 0
  | S754_infinity s => (if s then 9223372036854775808 else 0) + 9218868437227405312
  | S754_nan => 9221120237041090560
  | S754_finite s m e =>
    (if s then 9223372036854775808 else 0) +
    (if 4503599627370496 <=? Zpos m then (e + 1075) * 4503599627370496 + (Zpos m - 4503599627370496)
     else Zpos m)
  end%Z.

(* ============================================================================================ *)
(* Entry points used by the extracted driver: from source bytes to observables                  *)
(* ============================================================================================ *)

(* rune iteration over a source that passed utf8.Valid *)
Fixpoint decode_all_fuel (fuel : nat) (bs : list N) : list N :=
  match fuel with
  | O => []
  | S f =>
    match bs with
    | [] => []
    | _ => let '(r, w) := decode_rune bs in r :: decode_all_fuel f (skipn (N.to_nat w) bs)
    end
  end.
Definition decode_all (bs : list N) : list N := decode_all_fuel (length bs) bs.

Record lit_out := { lo_closed : bool; lo_body : list N; lo_rest : N; lo_scan_errs : N;
                    lo_value : list N; lo_char : Z; lo_parse_errs : N; lo_bad : bool }.

(* text literal: source bytes after the opening quote *)
Definition lit_string (src : list N) : lit_out :=
  match scan_string (decode_all src) with
  | (None, n) => Build_lit_out false [] 0 n [] 0 0 false
  | (Some (body, rest), n) =>
    match parse_string (encode body) with
    | POk v pe => Build_lit_out true (encode body) (nlen rest) n v 0 pe false
    | _ => Build_lit_out true (encode body) (nlen rest) n [] 0 0 true
    end
  end.

Definition lit_char (src : list N) : lit_out :=
  match scan_char (decode_all src) with
  | (None, n) => Build_lit_out false [] 0 n [] 0 0 false
  | (Some (body, rest), n) =>
    let '(v, pe) := parse_char (encode body) in
    Build_lit_out true (encode body) (nlen rest) n [] v pe false
  end.
