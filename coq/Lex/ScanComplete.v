(* C13 — kind completeness: the token the model produces at a token start is the ONLY (type, literal)
   the lexical rules (ScanSpec.first_token) allow there, and it is one. *)
From Coq Require Import List NArith Bool Lia.
Import ListNotations.
From DDP Require Import Gen.Tokens Lex.ScanModel Lex.ScanSpec Lex.ScanProofs Lex.ScanKinds.
Open Scope N_scope.

(* ---- uniqueness of the decompositions the rules speak about ---- *)
Lemma span_unique (p : N -> bool) : forall a b ta tb,
  Forall (fun c => p c = true) a -> Forall (fun c => p c = true) b ->
  hd_sat ta p = false -> hd_sat tb p = false -> a ++ ta = b ++ tb -> a = b /\ ta = tb.
Proof.
  induction a as [|x a IH]; intros [|y b] ta tb Fa Fb Ha Hb E; cbn in E.
  - auto.
  - subst ta. inv Fb. cbn in Ha. congruence.
  - subst tb. inv Fa. cbn in Hb. congruence.
  - inv E. inv Fa. inv Fb. destruct (IH b ta tb) as [-> ->]; auto.
Qed.

Lemma qbody_head q c r : q <> 92 -> qbody q (c :: r) -> c <> q.
Proof. intros Hq H. inversion H; subst; auto. Qed.

Lemma qbody_unique q : q <> 92 -> forall b1, qbody q b1 -> forall b2 t1 t2, qbody q b2 ->
  b1 ++ q :: t1 = b2 ++ q :: t2 -> b1 = b2.
Proof.
  intros Hq b1 H1. induction H1 as [|c r Hc1 Hc2 H1 IH|c r H1 IH]; intros b2 t1 t2 H2 E.
  - destruct b2 as [|y b2]; auto. cbn in E. injection E as Ey _. subst y. exfalso. apply (qbody_head q q b2); auto.
  - destruct H2 as [|c' r' Hd1 Hd2 H2|c' r' H2]; cbn in E.
    + inv E. congruence.
    + inv E. f_equal. eapply IH; eauto.
    + inv E. congruence.
  - destruct H2 as [|c' r' Hd1 Hd2 H2|c' r' H2]; cbn in E.
    + inv E. congruence.
    + inv E. congruence.
    + inv E. do 2 f_equal. eapply IH; eauto.
Qed.

Lemma qbody_not_qopen q : q <> 92 -> forall b, qbody q b -> forall t, qopen q (b ++ q :: t) -> False.
Proof.
  intros Hq b H. induction H as [|c r Hc1 Hc2 H IH|c r H IH]; intros t O; cbn in O.
  - inversion O; subst; congruence.
  - inversion O; subst; try congruence; eapply IH; eauto.
  - inversion O; subst; try congruence; eapply IH; eauto.
Qed.

Lemma depth_after_app : forall x y d,
  depth_after d (x ++ y) = match depth_after d x with Some d' => depth_after d' y | None => None end.
Proof.
  induction x as [|c x IH]; intros y d; cbn; auto.
  destruct (d =? 0); auto.
Qed.
Lemma depth_after_zero c r : depth_after 0 (c :: r) = None.
Proof. reflexivity. Qed.

Lemma comment_unique (P1 P2 : Prop) b1 b2 t1 t2 d1 d2 :
  b1 ++ t1 = b2 ++ t2 -> depth_after 1 b1 = Some d1 -> depth_after 1 b2 = Some d2 ->
  (d1 = 0 \/ t1 = []) -> (d2 = 0 \/ t2 = []) -> b1 = b2.
Proof.
  intros E D1 D2 X1 X2. apply app_eq_app in E. destruct E as (z & [[E1 E2]|[E1 E2]]).
  - destruct z as [|c z]; [rewrite app_nil_r in E1; auto|]. exfalso.
    subst b1. rewrite depth_after_app, D2 in D1.
    destruct X2 as [ -> | -> ]; [cbn in D1; discriminate D1|discriminate E2].
  - destruct z as [|c z]; [rewrite app_nil_r in E1; auto|]. exfalso.
    subst b2. rewrite depth_after_app, D1 in D2.
    destruct X1 as [ -> | -> ]; [cbn in D2; discriminate D2|discriminate E2].
Qed.

Lemma first62_unique b1 b2 t1 t2 : ~ In 62 b1 -> ~ In 62 b2 -> b1 ++ 62 :: t1 = b2 ++ 62 :: t2 -> b1 = b2.
Proof.
  revert b2. induction b1 as [|x b1 IH]; intros [|y b2] N1 N2 E; cbn in E; auto.
  - inv E. exfalso. apply N2. cbn. auto.
  - inv E. exfalso. apply N1. cbn. auto.
  - inv E. f_equal. apply IH; auto; intros I; [apply N1|apply N2]; cbn; auto.
Qed.

Lemma sat_peek s p : sat (peek s) p = hd_sat (rest s) p.
Proof. unfold peek. destruct (rest s); reflexivity. Qed.

Lemma Cons_unique s s' m1 m2 : Cons s s' m1 -> Cons s s' m2 -> m1 = m2.
Proof. intros [R1 _] [R2 _]. rewrite R1 in R2. apply app_inv_tail in R2. auto. Qed.

Lemma alpha_not_digit c : isAlpha c = true -> isDigit c = true -> False.
Proof.
  unfold isAlpha, isDigit. intros Al Dg.
  apply andb_true_iff in Dg. destruct Dg as [D1 D2]. apply N.leb_le in D1. apply N.leb_le in D2.
  repeat (apply orb_true_iff in Al; destruct Al as [Al|Al]);
    try (apply andb_true_iff in Al; destruct Al as [A1 A2]; apply N.leb_le in A1; apply N.leb_le in A2; lia);
    apply N.eqb_eq in Al; lia.
Qed.

(* ---- what a rule instance says about its first code point ---- *)
Inductive head_case (m : mode) (P : Prop) (ty c : N) (l : list N) : Prop :=
| H_word : isAlpha c = true -> Forall (fun c => isAlphaNumeric c = true) l ->
           ty = match keyword_type (c :: l) with Some v => v | None => tt_IDENTIFIER end -> head_case m P ty c l
| H_int : isDigit c = true -> ty = tt_INT -> Forall (fun c => isDigit c = true) l -> head_case m P ty c l
| H_float a b : isDigit c = true -> ty = tt_FLOAT -> l = a ++ 44 :: b -> Forall (fun c => isDigit c = true) a -> digits b -> head_case m P ty c l
| H_quoted b : (c = 34 /\ ty = tt_STRING) \/ (c = 39 /\ ty = tt_CHAR) -> l = b ++ [c] -> qbody c b -> head_case m P ty c l
| H_illegal : c = 34 \/ c = 39 -> ty = tt_ILLEGAL -> qopen c l -> P -> head_case m P ty c l
| H_comment d : c = 91 -> ty = tt_COMMENT -> depth_after 1 l = Some d -> d = 0 \/ P -> head_case m P ty c l
| H_apar b : c = 60 -> m = Alias -> ty = tt_ALIAS_PARAMETER -> l = b ++ [62] -> ~ In 62 b -> head_case m P ty c l
| H_apar_open : c = 60 -> m = Alias -> ty = tt_ALIAS_PARAMETER -> ~ In 62 l -> P -> head_case m P ty c l
| H_elipsis : c = 46 -> ty = tt_ELIPSIS -> l = [46; 46] -> head_case m P ty c l
| H_punct : l = [] -> (c = 45 /\ ty = tt_NEGATE) \/ (c = 46 /\ ty = tt_DOT) \/ (c = 44 /\ ty = tt_COMMA) \/
                      (c = 58 /\ ty = tt_COLON) \/ (c = 40 /\ ty = tt_LPAREN) \/ (c = 41 /\ ty = tt_RPAREN) -> head_case m P ty c l
| H_symbol : l = [] -> ty = tt_SYMBOL -> isAlpha c = false -> isDigit c = false -> ~ blank c ->
             ~ In c [45; 46; 44; 58; 40; 41; 34; 39; 91] -> (c = 60 -> m = Normal) -> head_case m P ty c l.

Lemma class_ok_head m P ty c l : class_ok m P ty (c :: l) -> head_case m P ty c l.
Proof.
  intros H.
  inversion H as [ | l0 D | a b Da Db | l0 W K | l0 v W K | l0 Q | l0 Q | q b Hq Ho HP | b d Dd X | b Hm Nn | b Hm Nn HP
                 | | | | | | | | c0 A1 A2 A3 A4 A5 ]; subst.
  - destruct D as [_ F]. inv F. apply H_int; auto.
  - destruct Da as [Na Fa]. destruct a as [|x a]; [congruence|].
    match goal with E : _ ++ 44 :: _ = _ :: _ |- _ => cbn in E; inv E end. inv Fa. eapply H_float; eauto.
  - destruct W as (x & r & E & A & AN). inv E. apply H_word; auto. rewrite K. auto.
  - destruct W as (x & r & E & A & AN). inv E. apply H_word; auto. rewrite K. auto.
  - destruct Q as (b & E & Q). inv E. eapply H_quoted; eauto.
  - destruct Q as (b & E & Q). inv E. eapply H_quoted; eauto.
  - apply H_illegal; auto.
  - eapply H_comment; eauto.
  - eapply H_apar; eauto.
  - apply H_apar_open; auto.
  - apply H_punct; auto.
  - apply H_punct; auto 10.
  - apply H_elipsis; auto.
  - apply H_punct; auto 10.
  - apply H_punct; auto 10.
  - apply H_punct; auto 10.
  - apply H_punct; auto 10.
  - apply H_symbol; auto.
Qed.

(* ---- sub-scanners with their exit conditions ---- *)
Lemma number_strong F s t s' : number F s = Some (t, s') ->
  exists mid, Cons s s' mid /\ hd_sat (rest s') isDigit = false /\
    ((t = tt_INT /\ Forall (fun c => isDigit c = true) mid /\ (forall d t', rest s' = 44 :: d :: t' -> isDigit d = false)) \/
     (t = tt_FLOAT /\ exists a b, mid = a ++ 44 :: b /\ Forall (fun c => isDigit c = true) a /\ digits b)).
Proof.
  intros H. pose proof H as H'. unfold number in H.
  destruct (while_peek isDigit F s) as [s1|] eqn:W1; [|discriminate H].
  destruct (while_peek_spec _ _ _ _ isDigit_not10 W1) as (m1 & [C1 _] & D1 & X1).
  destruct (is (peek s1) 44 && sat (peekNext s1) isDigit) eqn:G.
  - destruct (while_peek isDigit F (adv s1)) as [s2|] eqn:W2; [|discriminate H]. inv H.
    destruct (while_peek_spec _ _ _ _ isDigit_not10 W2) as (m2 & _ & _ & X2).
    destruct (number_spec _ _ _ _ H') as (mid & [C _] & [[T _]|K]); [exfalso; revert T; tt_neq|].
    exists mid. split; auto. split; [rewrite <- sat_peek; auto|]. right. auto.
  - inv H. exists m1. split; auto. split; [rewrite <- sat_peek; auto|]. left. split; auto. split; auto.
    intros d t' R. unfold peek, peekNext in G. rewrite R in G. cbn in G. exact G.
Qed.

Ltac absurd_head :=
  exfalso;
  repeat match goal with
         | H : _ /\ _ |- _ => destruct H
         | H : _ \/ _ |- _ => destruct H
         end; subst; try congruence;
  try (match goal with A : isAlpha ?c = true, D : isDigit ?c = true |- _ => exact (alpha_not_digit c A D) end);
  repeat match goal with
         | H : isAlpha _ = _ |- _ => vm_compute in H
         | H : isDigit _ = _ |- _ => vm_compute in H
         end; try congruence; try discriminate.

Lemma maximal_single c tail : isAlpha c = false -> isDigit c = false -> (c = 46 -> forall t', tail <> 46 :: 46 :: t') ->
  maximal [c] tail.
Proof.
  intros A D P. split; [discriminate|]. split; [intros c' r E; inv E; congruence|]. split; [intros c' r E; inv E; congruence|].
  split; [intros [_ F]; inv F; congruence|]. intros E. inv E. auto.
Qed.

Lemma maximal_other c l tail : isAlpha c = false -> isDigit c = false -> l <> [] -> maximal (c :: l) tail.
Proof.
  intros A D NE. split; [discriminate|]. split; [intros c' r E; inv E; congruence|]. split; [intros c' r E; inv E; congruence|].
  split; [intros [_ F]; inv F; congruence|]. intros E. inv E. congruence.
Qed.
