(* C13 — kind completeness: the token the model produces at a token start is the ONLY (type, literal)
   the lexical rules (ScanSpec.first_token) allow there, and it is one. *)
From Coq Require Import List NArith Bool Lia.
Import ListNotations.
From DDP Require Import Gen.Tokens Lex.ScanModel Lex.ScanSpec Lex.ScanProofs Lex.ScanKinds.
Open Scope N_scope.

(* ---- uniqueness of the decompositions the rules speak about ---- *)
Lemma span_unique (p : N -> bool) : forall a b ta tb,
  Forall (fun c => p c = true) a -> Forall (fun c => p c = true) b ->
  hd_sat ta p = false -> hd_sat tb p = false -> a ++ ta = b ++ tb -> a = b /\ ta = tb.
Proof.
  induction a as [|x a IH]; intros [|y b] ta tb Fa Fb Ha Hb E; cbn in E.
  - auto.
  - subst ta. inv Fb. cbn in Ha. congruence.
  - subst tb. inv Fa. cbn in Hb. congruence.
  - inv E. inv Fa. inv Fb. destruct (IH b ta tb) as [-> ->]; auto.
Qed.

Lemma qbody_head q c r : q <> 92 -> qbody q (c :: r) -> c <> q.
Proof. intros Hq H. inversion H; subst; auto. Qed.

Lemma qbody_unique q : q <> 92 -> forall b1, qbody q b1 -> forall b2 t1 t2, qbody q b2 ->
  b1 ++ q :: t1 = b2 ++ q :: t2 -> b1 = b2.
Proof.
  intros Hq b1 H1. induction H1 as [|c r Hc1 Hc2 H1 IH|c r H1 IH]; intros b2 t1 t2 H2 E.
  - destruct b2 as [|y b2]; auto. cbn in E. injection E as Ey _. subst y. exfalso. apply (qbody_head q q b2); auto.
  - destruct H2 as [|c' r' Hd1 Hd2 H2|c' r' H2]; cbn in E.
    + inv E. congruence.
    + inv E. f_equal. eapply IH; eauto.
    + inv E. congruence.
  - destruct H2 as [|c' r' Hd1 Hd2 H2|c' r' H2]; cbn in E.
    + inv E. congruence.
    + inv E. congruence.
    + inv E. do 2 f_equal. eapply IH; eauto.
Qed.

Lemma qbody_not_qopen q : q <> 92 -> forall b, qbody q b -> forall t, qopen q (b ++ q :: t) -> False.
Proof.
  intros Hq b H. induction H as [|c r Hc1 Hc2 H IH|c r H IH]; intros t O; cbn in O.
  - inversion O; subst; congruence.
  - inversion O; subst; try congruence; eapply IH; eauto.
  - inversion O; subst; try congruence; eapply IH; eauto.
Qed.

Lemma depth_after_app : forall x y d,
  depth_after d (x ++ y) = match depth_after d x with Some d' => depth_after d' y | None => None end.
Proof.
  induction x as [|c x IH]; intros y d; cbn; auto.
  destruct (d =? 0); auto.
Qed.
Lemma depth_after_zero c r : depth_after 0 (c :: r) = None.
Proof. reflexivity. Qed.

Lemma comment_unique (P1 P2 : Prop) b1 b2 t1 t2 d1 d2 :
  b1 ++ t1 = b2 ++ t2 -> depth_after 1 b1 = Some d1 -> depth_after 1 b2 = Some d2 ->
  (d1 = 0 \/ t1 = []) -> (d2 = 0 \/ t2 = []) -> b1 = b2.
Proof.
  intros E D1 D2 X1 X2. apply app_eq_app in E. destruct E as (z & [[E1 E2]|[E1 E2]]).
  - destruct z as [|c z]; [rewrite app_nil_r in E1; auto|]. exfalso.
    subst b1. rewrite depth_after_app, D2 in D1.
    destruct X2 as [ -> | -> ]; [cbn in D1; discriminate D1|discriminate E2].
  - destruct z as [|c z]; [rewrite app_nil_r in E1; auto|]. exfalso.
    subst b2. rewrite depth_after_app, D1 in D2.
    destruct X1 as [ -> | -> ]; [cbn in D2; discriminate D2|discriminate E2].
Qed.

Lemma first62_unique b1 b2 t1 t2 : ~ In 62 b1 -> ~ In 62 b2 -> b1 ++ 62 :: t1 = b2 ++ 62 :: t2 -> b1 = b2.
Proof.
  revert b2. induction b1 as [|x b1 IH]; intros [|y b2] N1 N2 E; cbn in E; auto.
  - inv E. exfalso. apply N2. cbn. auto.
  - inv E. exfalso. apply N1. cbn. auto.
  - inv E. f_equal. apply IH; auto; intros I; [apply N1|apply N2]; cbn; auto.
Qed.

Lemma sat_peek s p : sat (peek s) p = hd_sat (rest s) p.
Proof. unfold peek. destruct (rest s); reflexivity. Qed.

Lemma Cons_unique s s' m1 m2 : Cons s s' m1 -> Cons s s' m2 -> m1 = m2.
Proof. intros [R1 _] [R2 _]. rewrite R1 in R2. apply app_inv_tail in R2. auto. Qed.

Lemma alpha_not_digit c : isAlpha c = true -> isDigit c = true -> False.
Proof.
  unfold isAlpha, isDigit. intros Al Dg.
  apply andb_true_iff in Dg. destruct Dg as [D1 D2]. apply N.leb_le in D1. apply N.leb_le in D2.
  repeat (apply orb_true_iff in Al; destruct Al as [Al|Al]);
    try (apply andb_true_iff in Al; destruct Al as [A1 A2]; apply N.leb_le in A1; apply N.leb_le in A2; lia);
    apply N.eqb_eq in Al; lia.
Qed.

(* ---- what a rule instance says about its first code point ---- *)
Inductive head_case (m : mode) (P : Prop) (ty c : N) (l : list N) : Prop :=
| H_word : isAlpha c = true -> Forall (fun c => isAlphaNumeric c = true) l ->
           ty = match keyword_type (c :: l) with Some v => v | None => tt_IDENTIFIER end -> head_case m P ty c l
| H_int : isDigit c = true -> ty = tt_INT -> Forall (fun c => isDigit c = true) l -> head_case m P ty c l
| H_float a b : isDigit c = true -> ty = tt_FLOAT -> l = a ++ 44 :: b -> Forall (fun c => isDigit c = true) a -> digits b -> head_case m P ty c l
| H_quoted b : (c = 34 /\ ty = tt_STRING) \/ (c = 39 /\ ty = tt_CHAR) -> l = b ++ [c] -> qbody c b -> head_case m P ty c l
| H_illegal : c = 34 \/ c = 39 -> ty = tt_ILLEGAL -> qopen c l -> P -> head_case m P ty c l
| H_comment d : c = 91 -> ty = tt_COMMENT -> depth_after 1 l = Some d -> d = 0 \/ P -> head_case m P ty c l
| H_apar b : c = 60 -> m = Alias -> ty = tt_ALIAS_PARAMETER -> l = b ++ [62] -> ~ In 62 b -> head_case m P ty c l
| H_apar_open : c = 60 -> m = Alias -> ty = tt_ALIAS_PARAMETER -> ~ In 62 l -> P -> head_case m P ty c l
| H_elipsis : c = 46 -> ty = tt_ELIPSIS -> l = [46; 46] -> head_case m P ty c l
| H_punct : l = [] -> (c = 45 /\ ty = tt_NEGATE) \/ (c = 46 /\ ty = tt_DOT) \/ (c = 44 /\ ty = tt_COMMA) \/
                      (c = 58 /\ ty = tt_COLON) \/ (c = 40 /\ ty = tt_LPAREN) \/ (c = 41 /\ ty = tt_RPAREN) -> head_case m P ty c l
| H_symbol : l = [] -> ty = tt_SYMBOL -> isAlpha c = false -> isDigit c = false -> ~ blank c ->
             ~ In c [45; 46; 44; 58; 40; 41; 34; 39; 91] -> (c = 60 -> m = Normal) -> head_case m P ty c l.

Lemma class_ok_head m P ty c l : class_ok m P ty (c :: l) -> head_case m P ty c l.
Proof.
  intros H.
  inversion H as [ | l0 D | a b Da Db | l0 W K | l0 v W K | l0 Q | l0 Q | q b Hq Ho HP | b d Dd X | b Hm Nn | b Hm Nn HP
                 | | | | | | | | c0 A1 A2 A3 A4 A5 ]; subst.
  - destruct D as [_ F]. inv F. apply H_int; auto.
  - destruct Da as [Na Fa]. destruct a as [|x a]; [congruence|].
    match goal with E : _ ++ 44 :: _ = _ :: _ |- _ => cbn in E; inv E end. inv Fa. eapply H_float; eauto.
  - destruct W as (x & r & E & A & AN). inv E. apply H_word; auto. rewrite K. auto.
  - destruct W as (x & r & E & A & AN). inv E. apply H_word; auto. rewrite K. auto.
  - destruct Q as (b & E & Q). inv E. eapply H_quoted; eauto.
  - destruct Q as (b & E & Q). inv E. eapply H_quoted; eauto.
  - apply H_illegal; auto.
  - eapply H_comment; eauto.
  - eapply H_apar; eauto.
  - apply H_apar_open; auto.
  - apply H_punct; auto.
  - apply H_punct; auto 10.
  - apply H_elipsis; auto.
  - apply H_punct; auto 10.
  - apply H_punct; auto 10.
  - apply H_punct; auto 10.
  - apply H_punct; auto 10.
  - apply H_symbol; auto.
Qed.

(* ---- sub-scanners with their exit conditions ---- *)
Lemma number_strong F s t s' : number F s = Some (t, s') ->
  exists mid, Cons s s' mid /\ hd_sat (rest s') isDigit = false /\
    ((t = tt_INT /\ Forall (fun c => isDigit c = true) mid /\ (forall d t', rest s' = 44 :: d :: t' -> isDigit d = false)) \/
     (t = tt_FLOAT /\ exists a b, mid = a ++ 44 :: b /\ Forall (fun c => isDigit c = true) a /\ digits b)).
Proof.
  intros H. pose proof H as H'. unfold number in H.
  destruct (while_peek isDigit F s) as [s1|] eqn:W1; [|discriminate H].
  destruct (while_peek_spec _ _ _ _ isDigit_not10 W1) as (m1 & [C1 _] & D1 & X1).
  destruct (is (peek s1) 44 && sat (peekNext s1) isDigit) eqn:G.
  - destruct (while_peek isDigit F (adv s1)) as [s2|] eqn:W2; [|discriminate H]. inv H.
    destruct (while_peek_spec _ _ _ _ isDigit_not10 W2) as (m2 & _ & _ & X2).
    destruct (number_spec _ _ _ _ H') as (mid & [C _] & [[T _]|K]); [exfalso; revert T; tt_neq|].
    exists mid. split; auto. split; [rewrite <- sat_peek; auto|]. right. auto.
  - inv H. exists m1. split; auto. split; [rewrite <- sat_peek; auto|]. left. split; auto. split; auto.
    intros d t' R. unfold peek, peekNext in G. rewrite R in G. cbn in G. exact G.
Qed.

Ltac absurd_head :=
  exfalso;
  repeat match goal with
         | H : _ /\ _ |- _ => destruct H
         | H : _ \/ _ |- _ => destruct H
         end; subst; try congruence;
  try (match goal with H : ~ In _ (_ :: _) |- _ => apply H; cbn; tauto end);
  try (match goal with H : ?c = ?c -> _ = Normal |- _ => specialize (H eq_refl); discriminate H end);
  try (match goal with G : (_ && _) = false |- _ => cbn in G; discriminate G end);
  try (match goal with A : isAlpha ?c = true, D : isDigit ?c = true |- _ => exact (alpha_not_digit c A D) end);
  repeat match goal with
         | H : isAlpha _ = _ |- _ => vm_compute in H
         | H : isDigit _ = _ |- _ => vm_compute in H
         end; try congruence; try discriminate.

Ltac punct_solve :=
  repeat match goal with
         | H : _ /\ _ |- _ => destruct H
         | H : _ \/ _ |- _ => destruct H
         end; subst;
  try (match goal with H : ?a = ?b |- _ => discriminate H end); auto.

Lemma maximal_single c tail : isAlpha c = false -> isDigit c = false -> (c = 46 -> forall t', tail <> 46 :: 46 :: t') ->
  maximal [c] tail.
Proof.
  intros A D P. split; [discriminate|]. split; [intros c' r E; inv E; congruence|]. split; [intros c' r E; inv E; congruence|].
  split; [intros [_ F]; inv F; congruence|]. intros E. inv E. auto.
Qed.

Lemma maximal_nodot c l tail : isAlpha c = false -> isDigit c = false -> c <> 46 -> maximal (c :: l) tail.
Proof.
  intros A D NE. split; [discriminate|]. split; [intros c' r E; inv E; congruence|]. split; [intros c' r E; inv E; congruence|].
  split; [intros [_ F]; inv F; congruence|]. intros E. inv E. congruence.
Qed.

Lemma maximal_other c l tail : isAlpha c = false -> isDigit c = false -> l <> [] -> maximal (c :: l) tail.
Proof.
  intros A D NE. split; [discriminate|]. split; [intros c' r E; inv E; congruence|]. split; [intros c' r E; inv E; congruence|].
  split; [intros [_ F]; inv F; congruence|]. intros E. inv E. congruence.
Qed.

Definition only_token (m : mode) (c : N) (r : list N) (t : N) (mid : list N) : Prop :=
  forall ty' l' tail, c :: r = l' ++ tail -> l' <> [] -> class_ok m (tail = []) ty' l' -> maximal l' tail ->
    ty' = t /\ l' = c :: mid.

Lemma dispatch_complete m F s0 c r t s2 : rest s0 = c :: r -> ~ blank c ->
  dispatch m F s0 c (adv s0) = Some (t, s2) ->
  exists mid, Cons (adv s0) s2 mid /\ maximal (c :: mid) (rest s2) /\ only_token m c r t mid.
Proof.
  intros R NB H. destruct (adv_fields _ _ _ R) as (R1 & _). subst r.
  pose proof (adv_Cons _ _ _ R) as C0.
  assert (Start : forall ty' l' tail (Q : Prop), c :: rest (adv s0) = l' ++ tail -> l' <> [] -> class_ok m (tail = []) ty' l' ->
            (forall l'', l' = c :: l'' -> rest (adv s0) = l'' ++ tail -> head_case m (tail = []) ty' c l'' -> Q) -> Q).
  { intros ty' l' tail Q E NE K Cont. destruct l' as [|c' l'']; [congruence|]. cbn in E. injection E as <- Er.
    apply (Cont l''); auto. apply class_ok_head; auto. }
  unfold dispatch in H.
  destruct (isAlpha c) eqn:A.
  { destruct (identifier_spec _ _ _ _ _ H) as (T & mid & [C _] & AN).
    unfold identifier in H. destruct (while_peek isAlphaNumeric F (adv s0)) as [s1|] eqn:W; [|discriminate H]. inv H.
    destruct (while_peek_spec _ _ _ _ isAlphaNumeric_not10 W) as (_ & _ & _ & X). rewrite sat_peek in X.
    assert (L : literal s0 s2 = c :: mid) by (apply literal_mid; apply (Cons_trans _ _ _ _ _ C0 C)). rewrite L.
    exists mid. split; auto. split.
    - split; [discriminate|]. split; [intros c' r' E _; auto|]. split; [intros c' r' E Dg; inv E; exfalso; eapply alpha_not_digit; eauto|].
      split; [intros [_ Fd]; inv Fd; exfalso; eapply alpha_not_digit; eauto|]. intros E. inv E. vm_compute in A. discriminate A.
    - intros ty' l' tail E NE K M. apply (Start ty' l' tail _ E NE K). intros l'' -> Er HC.
      destruct HC; try solve [absurd_head].
      destruct M as (_ & M2 & _). specialize (M2 c l'' eq_refl A).
      destruct C as [Rm _]. rewrite Er in Rm.
      destruct (span_unique isAlphaNumeric l'' mid tail (rest s2)) as [-> _]; auto.
      split; auto. subst ty'.
      destruct (identifierType_cases (c :: mid)) as [[E1 K1]|(v & K1 & E1 & _)]; rewrite E1, K1; auto. }
  destruct (isDigit c) eqn:D.
  { destruct (number_strong _ _ _ _ H) as (mid & C & X & Kd). exists mid. split; auto.
    destruct C as [Rm Cm].
    assert (Mx : maximal (c :: mid) (rest s2)).
    { split; [discriminate|]. split; [intros c' r' E Al; inv E; congruence|]. split; [intros; auto|].
      split; [|intros E; inv E; vm_compute in D; discriminate D].
      intros [_ Fd] d t' Rt. destruct Kd as [(_ & _ & N44)|(_ & a & b & -> & _ & _)]; [eauto|].
      exfalso. rewrite Forall_forall in Fd.
      assert (X44 : isDigit 44 = true) by (apply Fd; right; apply in_or_app; cbn; auto). vm_compute in X44. discriminate X44. }
    split; auto.
    intros ty' l' tail E NE K M. apply (Start ty' l' tail _ E NE K). intros l'' -> Er HC.
    destruct M as (_ & _ & M3 & M4 & _). specialize (M3 c l'' eq_refl D).
    destruct HC as [ | Dc Ty Fd | a' b' Dc Ty El Fa [Nb Fb] | | | | | | | | ]; try solve [absurd_head].
    - (* hypothesis: INT *)
      assert (Dg : digits (c :: l'')) by (split; [discriminate|constructor; auto]). specialize (M4 Dg).
      destruct Kd as [(T & Fm & N44)|(T & a & b & -> & Fa & [Nb Fb])].
      + destruct (span_unique isDigit l'' mid tail (rest s2)) as [-> _]; auto; [congruence|]. subst. auto.
      + exfalso. rewrite Er in Rm. rewrite <- app_assoc in Rm.
        destruct (span_unique isDigit l'' a tail ((44 :: b) ++ rest s2)) as [-> Et]; auto.
        destruct b as [|d b]; [congruence|]. inv Fb.
        assert (isDigit d = false); [|congruence].
        apply (M4 d (b ++ rest s2)). reflexivity.
    - (* hypothesis: FLOAT *)
      subst l''. destruct Kd as [(T & Fm & N44)|(T & a & b & -> & Fa2 & [Nb2 Fb2])].
      + exfalso. rewrite Er in Rm. rewrite <- app_assoc in Rm.
        destruct (span_unique isDigit a' mid ((44 :: b') ++ tail) (rest s2)) as [-> Et]; auto.
        destruct b' as [|d b']; [congruence|]. inv Fb.
        assert (isDigit d = false); [|congruence]. apply (N44 d (b' ++ tail)). rewrite <- Et. reflexivity.
      + rewrite Er in Rm. rewrite <- !app_assoc in Rm.
        destruct (span_unique isDigit a' a ((44 :: b') ++ tail) ((44 :: b) ++ rest s2)) as [-> Et]; auto.
        cbn in Et. injection Et as Et.
        destruct (span_unique isDigit b' b tail (rest s2)) as [-> _]; auto. subst. auto. }
  destruct (c =? 45) eqn:E45.
  { inv H. apply N.eqb_eq in E45. subst c. exists []. split; [apply Cons_refl|]. split; [apply maximal_single; auto; discriminate|].
    intros ty' l' tail E NE K M. apply (Start ty' l' tail _ E NE K). intros l'' -> Er HC.
    destruct HC; try solve [absurd_head]. punct_solve. }
  destruct (c =? 46) eqn:E46.
  { apply N.eqb_eq in E46. subst c.
    destruct (is (peek (adv s0)) 46 && is (peekNext (adv s0)) 46) eqn:G; inv H.
    - apply andb_true_iff in G. destruct G as [G1 G2]. apply is_some in G1. apply is_some in G2.
      destruct (peek_rest _ _ G1) as [r1 Ra]. unfold peekNext in G2. rewrite Ra in G2.
      destruct r1 as [|d r']; [cbn in G2; discriminate G2|]. inv G2.
      destruct (adv_fields _ _ _ Ra) as (Rb & _).
      exists ([46] ++ [46]). split; [eapply Cons_trans; eapply adv_Cons; eauto|]. split; [apply maximal_other; auto; discriminate|].
      intros ty' l' tail E NE K M. apply (Start ty' l' tail _ E NE K). intros l'' -> Er HC.
      destruct HC; try solve [absurd_head].
      + subst. auto.
      + subst l''. exfalso. destruct M as (_ & _ & _ & _ & M5). cbn in Er. rewrite Ra in Er. apply (M5 eq_refl r'). auto.
    - assert (NG : forall t', rest (adv s0) <> 46 :: 46 :: t').
      { intros t' Rt. unfold peek, peekNext in G. rewrite Rt in G. cbn in G. discriminate G. }
      exists []. split; [apply Cons_refl|]. split; [apply maximal_single; auto|].
      intros ty' l' tail E NE K M. apply (Start ty' l' tail _ E NE K). intros l'' -> Er HC.
      destruct HC; try solve [absurd_head].
      + subst l''. exfalso. apply (NG tail). exact Er.
      + punct_solve. }
  destruct (c =? 44) eqn:E44.
  { inv H. apply N.eqb_eq in E44. subst c. exists []. split; [apply Cons_refl|]. split; [apply maximal_single; auto; discriminate|].
    intros ty' l' tail E NE K M. apply (Start ty' l' tail _ E NE K). intros l'' -> Er HC.
    destruct HC; try solve [absurd_head]. punct_solve. }
  destruct (c =? 58) eqn:E58.
  { inv H. apply N.eqb_eq in E58. subst c. exists []. split; [apply Cons_refl|]. split; [apply maximal_single; auto; discriminate|].
    intros ty' l' tail E NE K M. apply (Start ty' l' tail _ E NE K). intros l'' -> Er HC.
    destruct HC; try solve [absurd_head]. punct_solve. }
  destruct (c =? 40) eqn:E40.
  { inv H. apply N.eqb_eq in E40. subst c. exists []. split; [apply Cons_refl|]. split; [apply maximal_single; auto; discriminate|].
    intros ty' l' tail E NE K M. apply (Start ty' l' tail _ E NE K). intros l'' -> Er HC.
    destruct HC; try solve [absurd_head]. punct_solve. }
  destruct (c =? 41) eqn:E41.
  { inv H. apply N.eqb_eq in E41. subst c. exists []. split; [apply Cons_refl|]. split; [apply maximal_single; auto; discriminate|].
    intros ty' l' tail E NE K M. apply (Start ty' l' tail _ E NE K). intros l'' -> Er HC.
    destruct HC; try solve [absurd_head]. punct_solve. }
  assert (Quoted : forall q okty, (q = 34 /\ okty = tt_STRING) \/ (q = 39 /\ okty = tt_CHAR) -> c = q ->
            quoted q okty F (adv s0) = Some (t, s2) ->
            exists mid, Cons (adv s0) s2 mid /\ maximal (c :: mid) (rest s2) /\ only_token m c (rest (adv s0)) t mid).
  { intros q okty Hq -> HQ.
    assert (Q10 : q <> 10) by (destruct Hq as [[-> _]|[-> _]]; discriminate).
    assert (Q92 : q <> 92) by (destruct Hq as [[-> _]|[-> _]]; discriminate).
    assert (Q46 : q <> 46) by (destruct Hq as [[-> _]|[-> _]]; discriminate).
    destruct (quoted_spec _ _ _ _ _ _ Q10 Q92 HQ) as (mid & [[Rm Cm] _] & Kq).
    exists mid. split; [split; auto|]. split; [apply maximal_nodot; auto|].
    intros ty' l' tail E NE K M. apply (Start ty' l' tail _ E NE K). intros l'' -> Er HC. rewrite Er in Rm.
    destruct HC as [ | | | b' Hty El Qb | Hc Hty Qo Ht | | | | | | ];
      try solve [absurd_head]; try solve [destruct Hq as [[-> _]|[-> _]]; absurd_head].
    - assert (ty' = okty) by (destruct Hq as [[-> ->]|[-> ->]]; destruct Hty as [[X Y]|[X Y]]; try discriminate X; auto).
      subst l''. destruct Kq as [(T & b & -> & Qb2)|(T & Rs & Qo)].
      + rewrite <- !app_assoc in Rm. cbn in Rm. rewrite (qbody_unique q Q92 b' Qb b _ _ Qb2 Rm). subst. auto.
      + exfalso. rewrite Rs, app_nil_r, <- app_assoc in Rm. cbn in Rm. rewrite <- Rm in Qo. eapply qbody_not_qopen; eauto.
    - subst tail. rewrite app_nil_r in Rm. destruct Kq as [(T & b & -> & Qb2)|(T & Rs & Qo2)].
      + exfalso. rewrite <- app_assoc in Rm. cbn in Rm. rewrite Rm in Qo. eapply qbody_not_qopen; eauto.
      + rewrite Rs, app_nil_r in Rm. subst. auto. }
  destruct (c =? 34) eqn:E34.
  { apply N.eqb_eq in E34. apply (Quoted 34 tt_STRING); auto. }
  destruct (c =? 39) eqn:E39.
  { apply N.eqb_eq in E39. apply (Quoted 39 tt_CHAR); auto. }
  clear Quoted.
  destruct (c =? 91) eqn:E91.
  { apply N.eqb_eq in E91. subst c. apply comment_spec in H. destruct H as (T & mid & d & [[Rm Cm] _] & Dd & X).
    exists mid. split; [split; auto|]. split; [apply maximal_nodot; auto; discriminate|].
    intros ty' l' tail E NE K M. apply (Start ty' l' tail _ E NE K). intros l'' -> Er HC. rewrite Er in Rm.
    destruct HC as [ | | | | | d' Hc Hty Dd' X' | | | | | ]; try solve [absurd_head].
    rewrite (comment_unique (tail = []) (rest s2 = []) l'' mid tail (rest s2) d' d); auto. subst. auto. }
  destruct ((c =? 60) && match m with Alias => true | Normal => false end) eqn:G.
  { apply andb_true_iff in G. destruct G as [G1 G]. apply N.eqb_eq in G1. subst c. destruct m; [discriminate G|].
    apply aliasParameter_spec in H. destruct H as (T & mid & [[Rm Cm] _] & Ka).
    exists mid. split; [split; auto|]. split; [apply maximal_nodot; auto; discriminate|].
    intros ty' l' tail E NE K M. apply (Start ty' l' tail _ E NE K). intros l'' -> Er HC. rewrite Er in Rm.
    destruct HC as [ | | | | | | b' Hc Hm Hty El Nb | Hc Hm Hty Nl Ht | | | ]; try solve [absurd_head].
    - subst l''. destruct Ka as [(b & -> & Nb2)|(Rs & Nm)].
      + rewrite <- !app_assoc in Rm. cbn in Rm. rewrite (first62_unique b' b _ _ Nb Nb2 Rm). subst. auto.
      + exfalso. apply Nm. rewrite Rs, app_nil_r in Rm. rewrite <- Rm. apply in_or_app. left. apply in_or_app. right. cbn. auto.
    - subst tail. rewrite app_nil_r in Rm. destruct Ka as [(b & -> & Nb2)|(Rs & Nm)].
      + exfalso. apply Nl. rewrite Rm. apply in_or_app. left. apply in_or_app. right. cbn. auto.
      + rewrite Rs, app_nil_r in Rm. subst. auto. }
  inv H. eqb_all. exists []. split; [apply Cons_refl|]. split; [apply maximal_nodot; auto|].
  intros ty' l' tail E NE K M. apply (Start ty' l' tail _ E NE K). intros l'' -> Er HC.
  destruct HC; try solve [absurd_head]. subst. auto.
Qed.

Lemma class_ok_nil m P ty : class_ok m P ty [] -> ty = tt_EOF.
Proof.
  intros H.
  inversion H as [ | l0 D | a b Da Db | l0 W K | l0 v W K | l0 Q | l0 Q | q b Hq Ho HP | b d Dd X | b Hm Nn | b Hm Nn HP
                 | | | | | | | | c0 A1 A2 A3 A4 A5 ]; subst; auto; exfalso.
  - destruct D as [N _]. congruence.
  - destruct a; discriminate.
  - destruct W as (x & r & E & _). discriminate E.
  - destruct W as (x & r & E & _). discriminate E.
  - destruct Q as (b & E & _). discriminate E.
  - destruct Q as (b & E & _). discriminate E.
Qed.

Definition the_token (m : mode) (rest : list N) (ty : N) (l : list N) : Prop :=
  first_token m rest ty l /\ forall ty' l', first_token m rest ty' l' -> ty' = ty /\ l' = l.

Lemma nextToken_complete m F s t s' : nextToken m F s = Some (t, s') ->
  exists ws mid s0, Cons s s0 ws /\ Cons s0 s' mid /\ t = mkToken (ty t) s0 s' /\ the_token m (rest s0) (ty t) mid.
Proof.
  unfold nextToken. destruct (skipWhitespace F s) as [s0|] eqn:W; [|discriminate].
  destruct (skipWhitespace_spec _ _ _ W) as (ws & [C0 _] & B & NB).
  destruct (atEnd s0) eqn:A.
  - intros H. inv H. exists ws, [], s'. split; auto. split; [apply Cons_refl|]. split; [reflexivity|].
    apply atEnd_true in A. rewrite A. cbn [ty mkToken]. split.
    + exists []. split; auto. split; [apply K_eof|].
      split; auto. split; [intros c r E; discriminate E|]. split; [intros c r E; discriminate E|].
      split; [intros [N _]; congruence|intros E; discriminate E].
    + intros ty' l' (tail & E & K & M). symmetry in E. apply app_eq_nil in E. destruct E as [-> ->].
      split; auto. eapply class_ok_nil; eauto.
  - destruct (atEnd_false _ A) as (c & r & R).
    assert (Ad : advance s0 = (c, adv s0)) by (unfold adv, advance; rewrite R; reflexivity). rewrite Ad.
    destruct (dispatch m F s0 c (adv s0)) as [[t0 s2]|] eqn:D; [|discriminate]. intros H. inv H.
    assert (Hc : ~ blank c) by (apply NB; unfold peek; rewrite R; auto).
    destruct (dispatch_complete _ _ _ _ _ _ _ R Hc D) as (mid & C & Mx & Only).
    destruct (dispatch_kind _ _ _ _ _ _ _ _ R eq_refl Hc D) as (mid' & C' & K).
    rewrite (Cons_unique _ _ _ _ C' C) in K.
    assert (C1 : Cons s0 s' ([c] ++ mid)) by (eapply Cons_trans; eauto; eapply adv_Cons; eauto).
    exists ws, ([c] ++ mid), s0. split; auto. split; auto. split; [reflexivity|]. cbn [ty mkToken app].
    destruct C1 as [R1 _]. cbn in R1. split.
    + exists (rest s'). auto.
    + intros ty' l' (tail & E & K' & M'). rewrite R in E. apply (Only ty' l' tail); auto.
      intros ->. destruct M' as (M1 & _). rewrite (M1 eq_refl) in E. discriminate E.
Qed.

Definition complete_ok (m : mode) (src : list N) (t : token) : Prop :=
  the_token m (skipn (N.to_nat (tstart t)) src) (ty t) (sub src (tstart t) (tend t)).

Lemma scanAll_complete m F src : forall fuel s ts pre, scanAll m F fuel s = Some ts ->
  src = pre ++ rest s -> cur s = len pre -> Forall (complete_ok m src) ts.
Proof.
  induction fuel as [|f IH]; intros s ts pre H Hsrc Hcur; [discriminate H|]. cbn in H.
  destruct (nextToken m F s) as [[t s']|] eqn:T; [|discriminate H].
  destruct (nextToken_complete _ _ _ _ _ T) as (ws & mid & s0 & [R0 C0] & [R1 C1] & Tk & K).
  assert (Hs : src = pre ++ ws ++ mid ++ rest s') by (rewrite Hsrc, R0, R1; reflexivity).
  assert (Head : complete_ok m src t).
  { unfold complete_ok. rewrite Tk. cbn [tstart tend ty mkToken].
    replace (sub src (cur s0) (cur s')) with mid
      by (rewrite Hs, app_assoc; symmetry; apply sub_app; rewrite ?len_app; lia).
    replace (skipn (N.to_nat (cur s0)) src) with (rest s0); auto.
    replace src with ((pre ++ ws) ++ rest s0) by (rewrite Hs, R1, <- app_assoc; reflexivity).
    replace (N.to_nat (cur s0)) with (length (pre ++ ws)) by (rewrite C0, Hcur; unfold len; rewrite app_length; lia).
    rewrite skipn_len_app. reflexivity. }
  destruct (ty t =? tt_EOF) eqn:E.
  - injection H as <-. constructor; auto.
  - destruct (scanAll m F f s') as [ts'|] eqn:R; [|discriminate H]. injection H as <-. constructor; auto.
    apply (IH s' ts' (pre ++ ws ++ mid)); auto.
    + rewrite Hs, <- !app_assoc. reflexivity.
    + rewrite C1, C0, Hcur, !len_app. lia.
Qed.

Theorem scan_complete m l0 c0 i0 src ts : scan_from m l0 c0 i0 src = Some ts -> Forall (complete_ok m src) ts.
Proof. unfold scan_from. intros H. apply (scanAll_complete _ _ src _ _ _ []) in H; auto. Qed.

(* ---- the rules in the forward direction: shapes of a source suffix that ARE a first_token ---- *)
Lemma digits_head l : digits l -> exists c r, l = c :: r /\ isDigit c = true.
Proof. intros [N F]. destruct l as [|c r]; [congruence|]. inv F. eauto. Qed.

Lemma ft_int m l tail : digits l -> hd_sat tail isDigit = false ->
  (forall d t', tail = 44 :: d :: t' -> isDigit d = false) -> first_token m (l ++ tail) tt_INT l.
Proof.
  intros D X N44. exists tail. split; auto. split; [apply K_int; auto|].
  destruct (digits_head _ D) as (c & r & -> & Dc).
  split; [discriminate|]. split; [intros c' r' E Al; inv E; exfalso; eapply alpha_not_digit; eauto|].
  split; auto. split; auto. intros E. inv E. vm_compute in Dc. discriminate Dc.
Qed.

Lemma ft_float m a b tail : digits a -> digits b -> hd_sat tail isDigit = false ->
  first_token m (a ++ 44 :: b ++ tail) tt_FLOAT (a ++ 44 :: b).
Proof.
  intros Da Db X. exists tail. split; [rewrite <- app_assoc; reflexivity|]. split; [apply K_float; auto|].
  destruct (digits_head _ Da) as (c & r & -> & Dc). cbn [app].
  split; [discriminate|]. split; [intros c' r' E Al; inv E; exfalso; eapply alpha_not_digit; eauto|].
  split; auto. split.
  - intros [_ F]. exfalso. rewrite Forall_forall in F.
    assert (X44 : isDigit 44 = true) by (apply F; right; apply in_or_app; cbn; auto). vm_compute in X44. discriminate X44.
  - intros E. inv E. destruct r; discriminate.
Qed.

Lemma ft_word m l tail : word l -> hd_sat tail isAlphaNumeric = false ->
  first_token m (l ++ tail) (match keyword_type l with Some v => v | None => tt_IDENTIFIER end) l.
Proof.
  intros W X. exists tail. split; auto. split.
  - destruct (keyword_type l) eqn:K; [apply K_keyword|apply K_ident]; auto.
  - destruct W as (c & r & -> & A & AN).
    split; [discriminate|]. split; auto. split; [intros c' r' E Dg; inv E; exfalso; eapply alpha_not_digit; eauto|].
    split; [intros [_ F]; inv F; exfalso; eapply alpha_not_digit; eauto|]. intros E. inv E. vm_compute in A. discriminate A.
Qed.

Lemma ft_quoted m q okty b tail : (q = 34 /\ okty = tt_STRING) \/ (q = 39 /\ okty = tt_CHAR) -> qbody q b ->
  first_token m (q :: b ++ q :: tail) okty (q :: b ++ [q]).
Proof.
  intros Hq Q. exists tail. split; [cbn; rewrite <- app_assoc; reflexivity|].
  destruct Hq as [[-> ->]|[-> ->]]; (split; [first [apply K_string | apply K_char]; exists b; auto|apply maximal_nodot; auto; discriminate]).
Qed.

Lemma ft_illegal m q b : q = 34 \/ q = 39 -> qopen q b -> first_token m (q :: b) tt_ILLEGAL (q :: b).
Proof.
  intros Hq Q. exists []. split; [rewrite app_nil_r; auto|]. split; [apply K_illegal; auto|].
  destruct Hq as [-> | ->]; apply maximal_nodot; auto; discriminate.
Qed.

Lemma ft_comment m b tail : depth_after 1 b = Some 0 -> first_token m (91 :: b ++ tail) tt_COMMENT (91 :: b).
Proof.
  intros D. exists tail. split; auto. split; [eapply K_comment; eauto|apply maximal_nodot; auto; discriminate].
Qed.
Lemma ft_comment_open m b d : depth_after 1 b = Some d -> first_token m (91 :: b) tt_COMMENT (91 :: b).
Proof.
  intros D. exists []. split; [rewrite app_nil_r; auto|]. split; [eapply K_comment; eauto|apply maximal_nodot; auto; discriminate].
Qed.

Lemma ft_apar b tail : ~ In 62 b -> first_token Alias (60 :: b ++ 62 :: tail) tt_ALIAS_PARAMETER (60 :: b ++ [62]).
Proof.
  intros N. exists tail. split; [cbn; rewrite <- app_assoc; reflexivity|]. split; [apply K_apar; auto|apply maximal_nodot; auto; discriminate].
Qed.
Lemma ft_apar_open b : ~ In 62 b -> first_token Alias (60 :: b) tt_ALIAS_PARAMETER (60 :: b).
Proof.
  intros N. exists []. split; [rewrite app_nil_r; auto|]. split; [apply K_apar_open; auto|apply maximal_nodot; auto; discriminate].
Qed.

Lemma ft_single m c ty tail : isAlpha c = false -> isDigit c = false -> c <> 46 ->
  class_ok m (tail = []) ty [c] -> first_token m (c :: tail) ty [c].
Proof. intros A D N K. exists tail. split; [reflexivity|]. split; auto. apply maximal_nodot; auto. Qed.

Lemma ft_punct m tail :
  first_token m (45 :: tail) tt_NEGATE [45] /\ first_token m (44 :: tail) tt_COMMA [44] /\ first_token m (58 :: tail) tt_COLON [58] /\
  first_token m (40 :: tail) tt_LPAREN [40] /\ first_token m (41 :: tail) tt_RPAREN [41] /\
  first_token m (46 :: 46 :: 46 :: tail) tt_ELIPSIS [46; 46; 46] /\
  ((forall t', tail <> 46 :: 46 :: t') -> first_token m (46 :: tail) tt_DOT [46]).
Proof.
  split; [apply ft_single; auto; [discriminate|apply K_negate]|].
  split; [apply ft_single; auto; [discriminate|apply K_comma]|].
  split; [apply ft_single; auto; [discriminate|apply K_colon]|].
  split; [apply ft_single; auto; [discriminate|apply K_lparen]|].
  split; [apply ft_single; auto; [discriminate|apply K_rparen]|].
  split.
  - exists tail. split; [reflexivity|]. split; [apply K_elipsis|apply maximal_other; auto; discriminate].
  - intros N. exists tail. split; [reflexivity|]. split; [apply K_dot|apply maximal_single; auto].
Qed.

Lemma ft_symbol m c tail : isAlpha c = false -> isDigit c = false -> ~ blank c ->
  ~ In c [45; 46; 44; 58; 40; 41; 34; 39; 91] -> (c = 60 -> m = Normal) -> first_token m (c :: tail) tt_SYMBOL [c].
Proof.
  intros A D B N M. exists tail. split; [reflexivity|]. split; [apply K_symbol; auto|].
  apply maximal_nodot; auto. intros ->. apply N. cbn. auto.
Qed.

Theorem scan_kind_iff m l0 c0 i0 src ts : scan_from m l0 c0 i0 src = Some ts ->
  Forall (fun t => forall k l, first_token m (skipn (N.to_nat (tstart t)) src) k l <->
                              (k = ty t /\ l = sub src (tstart t) (tend t))) ts.
Proof.
  intros H. apply scan_complete in H. eapply Forall_impl; [|exact H].
  intros t [Ft U] k l. split; [apply U|]. intros [-> ->]. exact Ft.
Qed.

(* capitalised umlaut keywords: Überlädt, Öffentliche are the keywords überlädt, öffentliche *)
Example umlaut_keywords :
  keyword_type [220;98;101;114;108;228;100;116] = lookup keyword_table [252;98;101;114;108;228;100;116] /\
  lookup keyword_table [252;98;101;114;108;228;100;116] <> None /\
  keyword_type [214;102;102;101;110;116;108;105;99;104;101] = lookup keyword_table [246;102;102;101;110;116;108;105;99;104;101] /\
  lookup keyword_table [246;102;102;101;110;116;108;105;99;104;101] <> None.
Proof. vm_compute. repeat split; discriminate. Qed.

(* non-vacuity of the hypothesis of the completeness theorem: "1,5 x" starts with the FLOAT 1,5 *)
Example first_token_sample : first_token Normal ([49] ++ 44 :: [53] ++ [32; 120]) tt_FLOAT ([49] ++ 44 :: [53]).
Proof. apply ft_float; [split; [discriminate|repeat constructor]|split; [discriminate|repeat constructor]|reflexivity]. Qed.
