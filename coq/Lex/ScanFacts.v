(* C13 — entry points on bytes, facts about the regenerated keyword table and non-vacuity examples for the
   theorems of Props/C13.v (incl. the alias with a line feed inside <...> that was mispositioned before the
   fix a49a8e1 of /repo). *)
From Coq Require Import List NArith Bool Lia.
Import ListNotations.
From DDP Require Import Gen.Tokens Lex.Utf8 Lex.Utf8Proofs Lex.ScanModel Lex.ScanSpec Lex.ScanProofs Lex.ScanKinds Lex.ScanIndent Lex.ScanRun.
Open Scope N_scope.

(* ---- the gate in front of the scanner ---- *)
Lemma invalid_refused m l0 c0 i0 bs : valid bs = false -> scan_bytes m l0 c0 i0 bs = Refused.
Proof. unfold scan_bytes. intros ->. reflexivity. Qed.
Lemma valid_scanned m l0 c0 i0 bs : valid bs = true ->
  exists ts, scan_bytes m l0 c0 i0 bs = Toks ts /\ scan_from m l0 c0 i0 (decode bs) = Some ts.
Proof.
  unfold scan_bytes. intros ->. destruct (scan_from m l0 c0 i0 (decode bs)) as [ts|] eqn:E; [eauto|].
  exfalso. revert E. apply scan_fuel.
Qed.

(* ---- normal mode has no alias parameters ---- *)
Lemma normal_no_alias_parameter l0 c0 i0 src ts : scan_from Normal l0 c0 i0 src = Some ts ->
  forall t, In t ts -> ty t <> tt_ALIAS_PARAMETER.
Proof.
  intros H t I E. pose proof (scan_kinds _ _ _ _ _ _ H) as K. rewrite Forall_forall in K. specialize (K t I).
  unfold kind_ok in K. rewrite E in K. inversion K; subst; try discriminate;
    try (match goal with H : _ = tt_ALIAS_PARAMETER |- _ => revert H; tt_neq end).
  match goal with H : keyword_type _ = Some _ |- _ => apply keyword_type_not_special in H; apply H; cbn; tauto end.
Qed.

(* ---- the former counterexamples: alias mode, a line feed inside <...> ---- *)
Definition lf_alias : list N := [9; 60; 10; 62; 120].          (* "\t<\n>x" *)
Example lf_alias_tokens :
  option_map (map (fun t => (length (lit t), tindent t, (sl t, sc t), (el t, ec t)))) (scan_from Alias 1 1 0 lf_alias) =
  Some [(3%nat, 0, (1,2), (2,2)); (1%nat, 0, (2,2), (2,3)); (0%nat, 0, (2,3), (2,3))].
Proof. vm_compute. reflexivity. Qed.

(* ---- non-vacuity ---- *)
(* "Wenn x größer als 1,5 ist,\n\tSchreibe \"a\\n\" [k [n]]." : keywords, identifier, float, text, nested comment, indentation *)
Definition sample : list N :=
  [87;101;110;110;32;120;32;103;114;246;223;101;114;32;97;108;115;32;49;44;53;32;105;115;116;44;10;
   9;83;99;104;114;101;105;98;101;32;34;97;92;110;34;32;91;107;32;91;110;93;93;46].
Example sample_tokens :
  option_map (map (fun t => (length (lit t), tindent t, (sl t, sc t), (el t, ec t)))) (scan Normal sample) =
  Some [(4%nat, 0, (1,1), (1,5)); (1%nat, 0, (1,6), (1,7)); (6%nat, 0, (1,8), (1,14)); (3%nat, 0, (1,15), (1,18));
        (3%nat, 0, (1,19), (1,22)); (3%nat, 0, (1,23), (1,26)); (1%nat, 0, (1,26), (1,27));
        (8%nat, 1, (2,2), (2,10)); (5%nat, 1, (2,11), (2,16)); (7%nat, 1, (2,17), (2,24)); (1%nat, 1, (2,24), (2,25));
        (0%nat, 1, (2,25), (2,25))].
Proof. vm_compute. reflexivity. Qed.
Example sample_kinds :
  option_map (map (fun t => existsb (N.eqb (ty t)) [tt_IDENTIFIER; tt_FLOAT; tt_STRING; tt_COMMENT; tt_COMMA; tt_DOT; tt_EOF])) (scan Normal sample) =
  Some [false; true; false; false; true; false; true; true; true; true; true; true].
Proof. vm_compute. reflexivity. Qed.
Definition sample_alias : list N := [100;101;114;32;60;97;62;32;42;120].       (* "der <a> *x" *)
Example sample_alias_ok : exists ts, scan_from Alias 3 7 2 sample_alias = Some ts /\
  exists t, In t ts /\ ty t = tt_ALIAS_PARAMETER /\ (sl t, sc t) = (3, 11) /\ tindent t = 2.
Proof.
  eexists. split; [vm_compute; reflexivity|].
  eexists. split; [right; left; reflexivity|]. vm_compute. auto.
Qed.
Example sample_utf8 : valid [195; 164; 226; 130; 172; 240; 159; 152; 128] = true /\ valid [237; 160; 128] = false /\ valid [192; 128] = false.
Proof. vm_compute. auto. Qed.

(* ---- the regenerated keyword table: every spelling (incl. the ASCII transliterations the table lists) is
   one word, scans to exactly its keyword token + EOF, and so does its capitalised form, unless the capitalised
   spelling is a table entry of its own (in the pinned table only mal/Mal: MAL vs COUNT_MAL) ---- *)
Definition capitalise (l : list N) : list N :=
  match l with
  | c :: r => (if ((97 <=? c) && (c <=? 122)) || (c =? 228) || (c =? 246) || (c =? 252) then c - 32 else c) :: r
  | [] => []
  end.
Definition capitalised_type (k : list N) (v : N) : N :=
  match lookup keyword_table (capitalise k) with Some v' => v' | None => v end.
Definition keyword_row_ok (kv : list N * N) : bool :=
  match scan Normal (fst kv), scan Normal (capitalise (fst kv)) with
  | Some [a; e], Some [a'; e'] =>
    (ty a =? snd kv) && list_eqb (lit a) (fst kv) && (ty e =? tt_EOF) &&
    (ty a' =? capitalised_type (fst kv) (snd kv)) && list_eqb (lit a') (capitalise (fst kv)) && (ty e' =? tt_EOF)
  | _, _ => false
  end.
Lemma keyword_table_scans : forallb keyword_row_ok keyword_table = true.
Proof. vm_compute. reflexivity. Qed.

Lemma list_eqb_eq a : forall b, list_eqb a b = true -> a = b.
Proof.
  induction a as [|x a IH]; intros [|y b] H; cbn in H; try discriminate H; auto.
  apply andb_true_iff in H. destruct H as [H1 H2]. apply N.eqb_eq in H1. f_equal; auto.
Qed.

Theorem keywords_scan k v : In (k, v) keyword_table ->
  (exists a e, scan Normal k = Some [a; e] /\ ty a = v /\ lit a = k /\ ty e = tt_EOF) /\
  (exists a e, scan Normal (capitalise k) = Some [a; e] /\ ty a = capitalised_type k v /\ lit a = capitalise k /\ ty e = tt_EOF).
Proof.
  intros I. pose proof keyword_table_scans as T. rewrite forallb_forall in T. specialize (T _ I).
  unfold keyword_row_ok in T. cbn [fst snd] in T.
  destruct (scan Normal k) as [[|a [|e [|x r]]]|]; try discriminate T.
  destruct (scan Normal (capitalise k)) as [[|a' [|e' [|x' r']]]|]; try discriminate T.
  repeat (apply andb_true_iff in T; destruct T as [T ?]).
  repeat match goal with H : (_ =? _) = true |- _ => apply N.eqb_eq in H | H : list_eqb _ _ = true |- _ => apply list_eqb_eq in H end.
  split; eauto 10.
Qed.
