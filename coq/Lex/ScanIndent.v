(* C13 — the Indent field of every token follows the indentation rule (ScanSpec.indents). *)
From Coq Require Import List NArith Bool Lia.
Import ListNotations.
From DDP Require Import Gen.Tokens Lex.ScanModel Lex.ScanSpec Lex.ScanProofs.
Open Scope N_scope.

(* the depth after a gap, as skipWhitespace computes it (sh = shouldIndent, d = indent, run = consecutiveSpaceCount) *)
Fixpoint gapd (sh : bool) (d run : N) (ws : list N) : N :=
  match ws with
  | [] => d
  | c :: r =>
    if c =? 10 then gapd true 0 0 r
    else if c =? 32 then (if sh && (run + 1 =? 4) then gapd sh (d + 1) 0 r else gapd sh d (run + 1) r)
    else if c =? 9 then gapd sh (if sh then d + 1 else d) 0 r
    else gapd sh d 0 r
  end.

Lemma has_lf_cons c r : has_lf (c :: r) = (c =? 10) || has_lf r.
Proof. unfold has_lf. cbn [existsb]. rewrite (N.eqb_sym 10 c). reflexivity. Qed.
Lemma has_lf_app a b : has_lf (a ++ b) = has_lf a || has_lf b.
Proof. unfold has_lf. apply existsb_app. Qed.
Lemma has_lf_in l : has_lf l = true <-> In 10 l.
Proof.
  unfold has_lf. rewrite existsb_exists. split.
  - intros (x & I & E). apply N.eqb_eq in E. subst. auto.
  - intros I. exists 10. split; auto.
Qed.
Lemma has_lf_false_forall (p : N -> bool) l : (forall c, p c = true -> c <> 10) -> Forall (fun c => p c = true) l -> has_lf l = false.
Proof.
  intros Hp F. apply not_true_iff_false. rewrite has_lf_in. intros I. rewrite Forall_forall in F. apply (Hp 10); auto.
Qed.

(* the rule, read off the gap: declarative form of gapd *)
Lemma gapd_spec : forall ws sh d run, Forall blank ws ->
  gapd sh d run ws = if has_lf ws then indent_run 0 (after_last_lf ws)
                     else if sh then d + indent_run run ws else d.
Proof.
  induction ws as [|c r IH]; intros sh d run B.
  { cbn. destruct sh; lia. }
  inversion B as [|c' r' Bc Br]; subst. cbn [gapd after_last_lf indent_run]. rewrite has_lf_cons.
  destruct (c =? 10) eqn:E10.
  { rewrite IH by auto. cbn [orb]. destruct (has_lf r); auto. }
  cbn [orb]. destruct (c =? 32) eqn:E32.
  { destruct sh; cbn [andb].
    - destruct (run + 1 =? 4); rewrite IH by auto; destruct (has_lf r); auto; lia.
    - rewrite IH by auto. destruct (has_lf r); auto. }
  destruct (c =? 9) eqn:E9.
  { rewrite IH by auto. destruct (has_lf r); auto. destruct sh; lia. }
  assert (E13 : (c =? 13) = true).
  { destruct Bc as [-> | [-> | [-> | ->]]]; try discriminate; reflexivity. }
  rewrite E13. rewrite IH by auto. destruct (has_lf r); auto.
Qed.

Lemma adv_ind s c r : rest s = c :: r -> indent (adv s) = indent s /\ shi (adv s) = (shi s && isSpace c).
Proof. intros R. destruct (adv_fields _ _ _ R) as (_ & _ & _ & _ & I & S). auto. Qed.

(* ---- skipWhitespace ---- *)
Lemma ws_loop_indent F cnt s a s0 : iter ws_body F cnt s = Some (a, s0) ->
  exists ws, Cons s s0 ws /\ Forall blank ws /\ indent s0 = gapd (shi s) (indent s) cnt ws /\ shi s0 = (shi s || has_lf ws).
Proof.
  intros E.
  apply (iter_ind ws_body (fun cnt s _ s0 => exists ws, Cons s s0 ws /\ Forall blank ws /\ indent s0 = gapd (shi s) (indent s) cnt ws /\ shi s0 = (shi s || has_lf ws))) in E; auto.
  - clear. intros cnt s _. exists []. split; [apply Cons_refl|]. split; [constructor|]. cbn. split; auto. destruct (shi s); auto.
  - clear. intros cnt s cnt1 s1 a s0 H (ws & C & B & I & S).
    destruct (ws_body_step _ _ _ _ H) as (c & Bc & [Cc _]). exists ([c] ++ ws).
    split; [eapply Cons_trans; eauto|]. split; [constructor; auto|].
    destruct Cc as [Rc _]. cbn in Rc.
    unfold ws_body in H. unfold peek in H. rewrite Rc in H. cbn [app gapd]. rewrite has_lf_cons.
    destruct (c =? 32) eqn:E32.
    { apply N.eqb_eq in E32. subst c. cbn [N.eqb Pos.eqb orb].
      destruct (shi s && (cnt + 1 =? 4)) eqn:G; inv H.
      - assert (R' : rest (incIndent s) = 32 :: rest (adv (incIndent s))) by exact Rc.
        destruct (adv_ind _ _ _ R') as [I1 S1]. rewrite I1, S1 in *. cbn in I, S. rewrite andb_true_r in I, S. auto.
      - destruct (adv_ind _ _ _ Rc) as [I1 S1]. rewrite I1, S1 in *. cbn in I, S. rewrite andb_true_r in I, S. auto. }
    destruct (c =? 13) eqn:E13.
    { apply N.eqb_eq in E13. subst c. inv H. cbn [N.eqb Pos.eqb orb].
      destruct (adv_ind _ _ _ Rc) as [I1 S1]. rewrite I1, S1 in *. cbn in I, S. rewrite andb_true_r in I, S. auto. }
    destruct (c =? 9) eqn:E9.
    { apply N.eqb_eq in E9. subst c. inv H. cbn [N.eqb Pos.eqb orb].
      destruct (shi s) eqn:Sh.
      - assert (R' : rest (incIndent s) = 9 :: rest (adv (incIndent s))) by exact Rc.
        destruct (adv_ind _ _ _ R') as [I1 S1]. rewrite I1, S1 in *. cbn in I, S. rewrite Sh in *. auto.
      - destruct (adv_ind _ _ _ Rc) as [I1 S1]. rewrite I1, S1, Sh in *. auto. }
    destruct (c =? 10) eqn:E10; [|discriminate H].
    apply N.eqb_eq in E10. subst c. inv H. cbn [orb].
    assert (R' : rest (increaseLine s) = 10 :: rest (adv (increaseLine s))) by exact Rc.
    destruct (adv_ind _ _ _ R') as [I1 S1]. rewrite I1, S1 in *. cbn in I, S. rewrite orb_true_r. auto.
Qed.

(* ---- loops inside tokens ---- *)
Lemma while_peek_ind p F s s' : while_peek p F s = Some s' -> indent s' = indent s /\ (shi s = false -> shi s' = false).
Proof.
  unfold while_peek. destruct (iter (while_body p) F tt s) as [[a s0']|] eqn:E; [|discriminate]. cbn. intros H. inv H.
  apply (iter_ind (while_body p) (fun _ s _ s' => indent s' = indent s /\ (shi s = false -> shi s' = false))) in E; auto.
  clear. intros u s u1 s1 u' s' H [I S]. unfold while_body in H. destruct (sat (peek s) p) eqn:G; [|discriminate H]. inv H.
  destruct (sat_some _ _ G) as (c & P & _). destruct (peek_rest _ _ P) as [r R]. destruct (adv_ind _ _ _ R) as [I1 S1].
  split; [congruence|]. intros Sh. apply S. rewrite S1, Sh. reflexivity.
Qed.

Lemma quoted_loop_indent q F u s u' s' : q <> 10 -> iter (quoted_body q) F u s = Some (u', s') ->
  exists mid, Cons s s' mid /\ indent s' = (if has_lf mid then 0 else indent s).
Proof.
  intros Hq E.
  apply (iter_ind (quoted_body q) (fun _ s _ s' => exists mid, Cons s s' mid /\ indent s' = (if has_lf mid then 0 else indent s))) in E; auto.
  - clear. intros u s _. exists []. split; [apply Cons_refl|reflexivity].
  - clear - Hq. intros u0 s u1 s1 u2 s' H (mid & C & I).
    unfold quoted_body in H. destruct (peek s) as [c|] eqn:P; [|discriminate H].
    destruct (peek_rest _ _ P) as [r R].
    destruct (c =? q) eqn:Eq; [discriminate H|].
    destruct (c =? 10) eqn:E10.
    { apply N.eqb_eq in E10; subst c. inv H. exists ([10] ++ mid). split; [eapply Cons_trans; [eapply nl_Cons; eauto|eauto]|].
      cbn [app]. rewrite has_lf_cons. cbn [N.eqb Pos.eqb orb].
      assert (R' : rest (increaseLine s) = 10 :: r) by exact R. destruct (adv_ind _ _ _ R') as [I1 _].
      rewrite I1 in I. cbn in I. destruct (has_lf mid); auto. }
    destruct (c =? 92) eqn:E92.
    2:{ inv H. exists ([c] ++ mid). split; [eapply Cons_trans; [eapply adv_Cons; eauto|eauto]|].
        cbn [app]. rewrite has_lf_cons, E10. cbn [orb]. destruct (adv_ind _ _ _ R) as [I1 _]. rewrite I1 in I. auto. }
    apply N.eqb_eq in E92; subst c. inv H.
    destruct (scanEscape_cases q s r R) as [[E NE]|(d & r' & -> & Ed & E)]; rewrite E in *.
    + exists ([92] ++ mid). split; [eapply Cons_trans; [eapply adv_Cons; eauto|eauto]|].
      cbn [app]. rewrite has_lf_cons. cbn [N.eqb Pos.eqb orb]. destruct (adv_ind _ _ _ R) as [I1 _]. rewrite I1 in I. auto.
    + destruct (adv_fields _ _ _ R) as (R1 & _). destruct (adv_ind _ _ _ R) as [I1 _]. destruct (adv_ind _ _ _ R1) as [I2 _].
      exists (([92] ++ [d]) ++ mid). split; [eapply Cons_trans; [|eauto]; eapply Cons_trans; eapply adv_Cons; eauto|].
      cbn [app]. rewrite !has_lf_cons. cbn [N.eqb Pos.eqb orb].
      assert (Hd : (d =? 10) = false) by (apply N.eqb_neq; eapply (isEscape_not10 q); eauto). rewrite Hd. cbn [orb].
      rewrite I2, I1 in I. auto.
Qed.

Lemma quoted_indent q okty F s t s' : q = 34 \/ q = 39 -> quoted q okty F s = Some (t, s') ->
  exists mid, Cons s s' mid /\ indent s' = (if has_lf mid then 0 else indent s) /\ (shi s' = false \/ rest s' = []).
Proof.
  intros Hq. assert (Hq10 : q <> 10) by (destruct Hq; subst; lia).
  unfold quoted. destruct (iter (quoted_body q) F tt s) as [[u s1]|] eqn:E; [|discriminate].
  destruct (quoted_loop_indent _ _ _ _ _ _ Hq10 E) as (mid & C & I).
  destruct (atEnd s1) eqn:A; intros H; inv H.
  - exists mid. split; auto. split; auto. right. apply atEnd_true; auto.
  - destruct (atEnd_false _ A) as (c & r & R).
    assert (X : forall c r, rest s1 = c :: r -> c = q).
    { revert E. apply (iter_ind (quoted_body q) (fun _ _ _ s1 => forall c r, rest s1 = c :: r -> c = q)).
      - clear. intros u s H c r R. unfold quoted_body, peek in H. rewrite R in H.
        destruct (c =? q) eqn:Eq; [apply N.eqb_eq; auto|]. destruct (c =? 10); [discriminate H|]. destruct (c =? 92); discriminate H.
      - auto. }
    assert (c = q) by (eapply X; eauto).
    subst c. destruct (adv_ind _ _ _ R) as [I1 S1].
    exists (mid ++ [q]). split; [eapply Cons_trans; eauto; eapply adv_Cons; eauto|].
    rewrite has_lf_app, has_lf_cons. replace (q =? 10) with false by (symmetry; apply N.eqb_neq; auto).
    cbn [has_lf existsb orb]. rewrite orb_false_r. split; [congruence|]. left. rewrite S1.
    destruct Hq; subst; cbn; apply andb_false_r.
Qed.

Lemma comment_indent F s t s' : comment F s = Some (t, s') ->
  exists mid, Cons s s' mid /\ indent s' = (if has_lf mid then 0 else indent s) /\ (shi s' = false \/ rest s' = []).
Proof.
  unfold comment. destruct (iter comment_body F 1 s) as [[d s1]|] eqn:E; [|discriminate]. intros H. inv H.
  assert (G : 0 < 1) by lia. revert E G. generalize 1 as d0. intros d0 E G.
  apply (iter_ind comment_body (fun d0 s d s' => exists mid, Cons s s' mid /\ indent s' = (if has_lf mid then 0 else indent s) /\
           (d0 = 0 -> s' = s) /\ (0 < d0 -> shi s' = false \/ rest s' = []))) in E.
  - destruct E as (mid & C & I & _ & S). eauto.
  - clear. intros d s H. exists []. split; [apply Cons_refl|]. split; [reflexivity|]. split; auto.
    intros D. unfold comment_body in H. apply N.ltb_lt in D. rewrite D in H. cbn in H.
    destruct (atEnd s) eqn:A; cbn in H; [right; apply atEnd_true; auto|].
    destruct (is (peek s) 91); [discriminate H|]. destruct (is (peek s) 93); [discriminate H|]. destruct (is (peek s) 10); discriminate H.
  - clear. intros d s d1 s1 d' s' H (mid & C & I & Z & S).
    unfold comment_body in H. destruct ((0 <? d) && negb (atEnd s)) eqn:G; [|discriminate H].
    apply andb_true_iff in G. destruct G as [G0 G]. apply negb_true_iff in G. apply N.ltb_lt in G0.
    destruct (atEnd_false _ G) as (c & r & R). unfold peek in H. rewrite R in H. cbn [is] in H.
    assert (Fin : forall s1', s1' = s1 -> d1 = 0 -> shi s1 = false -> (d = 0 -> s' = s) /\ (0 < d -> shi s' = false \/ rest s' = [])).
    { intros s1' _ D1 Sh. split; [lia|]. intros _. rewrite (Z D1). auto. }
    assert (Nz : 0 < d1 -> (d = 0 -> s' = s) /\ (0 < d -> shi s' = false \/ rest s' = [])) by (intros D1; split; [lia|auto]).
    destruct (c =? 91) eqn:E91.
    { inv H. apply N.eqb_eq in E91. subst c. exists ([91] ++ mid). split; [eapply Cons_trans; [eapply adv_Cons; eauto|eauto]|].
      cbn [app]. rewrite has_lf_cons. cbn [N.eqb Pos.eqb orb]. destruct (adv_ind _ _ _ R) as [I1 _]. rewrite I1 in I. split; auto; try (apply Nz; lia). }
    destruct (c =? 93) eqn:E93.
    { inv H. apply N.eqb_eq in E93. subst c. exists ([93] ++ mid). split; [eapply Cons_trans; [eapply adv_Cons; eauto|eauto]|].
      cbn [app]. rewrite has_lf_cons. cbn [N.eqb Pos.eqb orb]. destruct (adv_ind _ _ _ R) as [I1 S1]. rewrite I1 in I. split; auto.
      destruct (N.eq_dec (d - 1) 0) as [D1|D1]; [|apply Nz; lia].
      eapply Fin; eauto. rewrite S1. cbn. apply andb_false_r. }
    destruct (c =? 10) eqn:E10; inv H.
    + apply N.eqb_eq in E10. subst c. exists ([10] ++ mid). split; [eapply Cons_trans; [eapply nl_Cons; eauto|eauto]|].
      cbn [app]. rewrite has_lf_cons. cbn [N.eqb Pos.eqb orb].
      assert (R' : rest (increaseLine s) = 10 :: r) by exact R. destruct (adv_ind _ _ _ R') as [I1 _].
      rewrite I1 in I. cbn in I. split; [destruct (has_lf mid); auto|]; try (apply Nz; lia).
    + exists ([c] ++ mid). split; [eapply Cons_trans; [eapply adv_Cons; eauto|eauto]|].
      cbn [app]. rewrite has_lf_cons, E10. cbn [orb]. destruct (adv_ind _ _ _ R) as [I1 _]. rewrite I1 in I. split; auto; try (apply Nz; lia).
Qed.

Lemma alias_indent F s t s' : aliasParameter F s = Some (t, s') ->
  exists mid, Cons s s' mid /\ indent s' = (if has_lf mid then 0 else indent s) /\ (shi s' = false \/ rest s' = []).
Proof.
  unfold aliasParameter. destruct (iter alias_body F tt s) as [[u s1]|] eqn:E; [|discriminate]. intros H. inv H.
  assert (X : exists mid, Cons s s1 mid /\ indent s1 = (if has_lf mid then 0 else indent s)).
  { apply (iter_ind alias_body (fun _ s _ s' => exists mid, Cons s s' mid /\ indent s' = (if has_lf mid then 0 else indent s))) in E; auto.
    - clear. intros u s _. exists []. split; [apply Cons_refl|reflexivity].
    - clear. intros u0 s u1 s1 u2 s' H (mid & C & I). unfold alias_body in H.
      destruct (negb (atEnd s) && negb (is (peek s) 62)) eqn:G; [|discriminate H]. inv H.
      apply andb_true_iff in G. destruct G as [G _]. apply negb_true_iff in G. destruct (atEnd_false _ G) as (c & r & R).
      unfold peek in *. rewrite R in *. cbn [is] in *. destruct (c =? 10) eqn:E10.
      + apply N.eqb_eq in E10. subst c. exists ([10] ++ mid). split; [eapply Cons_trans; [eapply nl_Cons; eauto|eauto]|].
        cbn [app]. rewrite has_lf_cons. cbn [N.eqb Pos.eqb orb].
        assert (R' : rest (increaseLine s) = 10 :: r) by exact R. destruct (adv_ind _ _ _ R') as [I1 _].
        rewrite I1 in I. cbn in I. destruct (has_lf mid); auto.
      + exists ([c] ++ mid). split; [eapply Cons_trans; [eapply adv_Cons; eauto|eauto]|].
        cbn [app]. rewrite has_lf_cons, E10. cbn [orb]. destruct (adv_ind _ _ _ R) as [I1 _]. rewrite I1 in I. auto. }
  destruct X as (mid & C & I). destruct (atEnd s1) eqn:A.
  - exists mid. split; auto. split; auto. right. apply atEnd_true; auto.
  - destruct (alias_loop_spec _ _ _ _ _ E) as (_ & _ & _ & [X|X]); [unfold atEnd in A; rewrite X in A; discriminate A|].
    destruct (peek_rest _ _ X) as [r R]. destruct (adv_ind _ _ _ R) as [I1 S1].
    exists (mid ++ [62]). split; [eapply Cons_trans; eauto; eapply adv_Cons; eauto|].
    rewrite has_lf_app, has_lf_cons. cbn [N.eqb Pos.eqb has_lf existsb orb]. rewrite orb_false_r.
    split; [congruence|]. left. rewrite S1. cbn. apply andb_false_r.
Qed.

(* ---- dispatch ---- *)
Lemma dispatch_indent m F s0 c s t s2 : dispatch m F s0 c s = Some (t, s2) -> shi s = false ->
  exists mid, Cons s s2 mid /\ (shi s2 = false \/ rest s2 = []) /\
    indent s2 = (if has_lf mid then 0 else indent s).
Proof.
  unfold dispatch. intros H Sh.
  assert (Triv : forall t', Some (t', s) = Some (t, s2) ->
    exists mid, Cons s s2 mid /\ (shi s2 = false \/ rest s2 = []) /\
      indent s2 = (if has_lf mid then 0 else indent s)).
  { intros t' E. inv E. exists []. split; [apply Cons_refl|]. split; auto. }
  destruct (isAlpha c).
  { pose proof H as H'. destruct (identifier_spec _ _ _ _ _ H) as (_ & mid & [C _] & AN). exists mid. split; auto.
    unfold identifier in H'. destruct (while_peek isAlphaNumeric F s) as [s1|] eqn:W; [|discriminate H']. inv H'.
    destruct (while_peek_ind _ _ _ _ W) as [I S]. split; auto.
    rewrite (has_lf_false_forall isAlphaNumeric) by (auto using isAlphaNumeric_not10). auto. }
  destruct (isDigit c).
  { pose proof H as H'. destruct (number_spec _ _ _ _ H) as (mid & [C _] & K). exists mid. split; auto.
    assert (NL : has_lf mid = false).
    { destruct K as [[_ D]|(_ & a & b & -> & Da & [_ Db])].
      - apply (has_lf_false_forall isDigit); auto using isDigit_not10.
      - rewrite has_lf_app, has_lf_cons. rewrite (has_lf_false_forall isDigit a), (has_lf_false_forall isDigit b); auto using isDigit_not10. }
    rewrite NL. unfold number in H'. destruct (while_peek isDigit F s) as [s1|] eqn:W1; [|discriminate H'].
    destruct (while_peek_ind _ _ _ _ W1) as [I1 S1].
    destruct (is (peek s1) 44 && sat (peekNext s1) isDigit) eqn:G.
    - destruct (while_peek isDigit F (adv s1)) as [s3|] eqn:W2; [|discriminate H']. inv H'.
      destruct (while_peek_ind _ _ _ _ W2) as [I2 S2].
      apply andb_true_iff in G. destruct G as [G1 _]. apply is_some in G1. destruct (peek_rest _ _ G1) as [r R].
      destruct (adv_ind _ _ _ R) as [I3 S3]. split; [left; apply S2; rewrite S3, (S1 Sh); reflexivity|]. congruence.
    - inv H'. split; auto. }
  destruct (c =? 45); [eapply Triv; eauto|].
  destruct (c =? 46).
  { destruct (is (peek s) 46 && is (peekNext s) 46) eqn:G; [|eapply Triv; eauto]. inv H.
    apply andb_true_iff in G. destruct G as [G1 G2]. apply is_some in G1. apply is_some in G2.
    destruct (peek_rest _ _ G1) as [r R]. unfold peekNext in G2. rewrite R in G2.
    destruct r as [|d r']; [cbn in G2; discriminate G2|]. inv G2.
    destruct (adv_fields _ _ _ R) as (R1 & _). destruct (adv_ind _ _ _ R) as [I1 S1]. destruct (adv_ind _ _ _ R1) as [I2 S2].
    exists ([46] ++ [46]). split; [eapply Cons_trans; eapply adv_Cons; eauto|].
    split; [left; rewrite S2, S1, Sh; reflexivity|]. cbn. congruence. }
  destruct (c =? 44); [eapply Triv; eauto|]. destruct (c =? 58); [eapply Triv; eauto|].
  destruct (c =? 40); [eapply Triv; eauto|]. destruct (c =? 41); [eapply Triv; eauto|].
  destruct (c =? 34).
  { apply quoted_indent in H; auto. destruct H as (mid & C & I & S). exists mid. auto. }
  destruct (c =? 39).
  { apply quoted_indent in H; auto. destruct H as (mid & C & I & S). exists mid. auto. }
  destruct (c =? 91).
  { apply comment_indent in H. destruct H as (mid & C & I & S). exists mid. auto. }
  destruct ((c =? 60) && match m with Alias => true | Normal => false end) eqn:G; [|eapply Triv; eauto].
  apply alias_indent in H. destruct H as (mid & C & I & S). exists mid. auto.
Qed.

(* ---- NextToken ---- *)
Lemma nextToken_indent m F s t s' : nextToken m F s = Some (t, s') ->
  exists ws mid s0, Cons s s0 ws /\ Forall blank ws /\ Cons s0 s' mid /\ t = mkToken (ty t) s0 s' /\
    indent s0 = gapd (shi s) (indent s) 0 ws /\
    (shi s' = false \/ rest s' = []) /\
    indent s' = (if has_lf mid then 0 else indent s0).
Proof.
  unfold nextToken, skipWhitespace. destruct (iter ws_body F 0 s) as [[a s0]|] eqn:W; [|discriminate]. cbn [option_map snd].
  destruct (ws_loop_indent _ _ _ _ _ W) as (ws & C0 & B & I0 & S0).
  assert (NB : forall c, peek s0 = Some c -> ~ blank c).
  { assert (W' : skipWhitespace F s = Some s0) by (unfold skipWhitespace; rewrite W; reflexivity).
    destruct (skipWhitespace_spec _ _ _ W') as (_ & _ & _ & NB). exact NB. }
  destruct (atEnd s0) eqn:A.
  - intros H. inv H. exists ws, [], s'. split; auto. split; auto. split; [apply Cons_refl|]. split; [reflexivity|].
    split; auto. split; [right; apply atEnd_true; auto|]. reflexivity.
  - destruct (atEnd_false _ A) as (c & r & R).
    assert (Ad : advance s0 = (c, adv s0)) by (unfold adv, advance; rewrite R; reflexivity). rewrite Ad.
    destruct (dispatch m F s0 c (adv s0)) as [[t0 s2]|] eqn:D; [|discriminate]. intros H. inv H.
    assert (Hc : ~ blank c) by (apply NB; unfold peek; rewrite R; auto).
    destruct (adv_ind _ _ _ R) as [I1 S1].
    assert (Sp : isSpace c = false).
    { unfold isSpace. unfold blank in Hc. destruct (c =? 32) eqn:E1; [apply N.eqb_eq in E1; tauto|].
      destruct (c =? 13) eqn:E2; [apply N.eqb_eq in E2; tauto|]. destruct (c =? 10) eqn:E3; [apply N.eqb_eq in E3; tauto|].
      destruct (c =? 9) eqn:E4; [apply N.eqb_eq in E4; tauto|]. reflexivity. }
    assert (Sh : shi (adv s0) = false) by (rewrite S1, Sp; apply andb_false_r).
    destruct (dispatch_indent _ _ _ _ _ _ _ D Sh) as (mid & C & S & I).
    exists ws, ([c] ++ mid), s0. split; auto. split; auto.
    split; [eapply Cons_trans; eauto; eapply adv_Cons; eauto|]. split; [reflexivity|]. split; auto. split; auto.
    cbn [app ty mkToken]. rewrite has_lf_cons.
    replace (c =? 10) with false by (symmetry; apply N.eqb_neq; intros ->; apply Hc; unfold blank; auto). cbn [orb].
    rewrite I, I1. reflexivity.
Qed.

(* ---- ScanAll ---- *)
Lemma scanAll_indents m F src : forall fuel s ts pre first, scanAll m F fuel s = Some ts ->
  src = pre ++ rest s -> cur s = len pre -> (shi s = first \/ rest s = []) ->
  indents src first (cur s) (indent s) ts.
Proof.
  induction fuel as [|f IH]; intros s ts pre first H Hsrc Hcur Hsh; [discriminate H|]. cbn in H.
  destruct (nextToken m F s) as [[t s']|] eqn:T; [|discriminate H].
  destruct (nextToken_indent _ _ _ _ _ T) as (ws & mid & s0 & [R0 C0] & B & [R1 C1] & Tk & I0 & S1 & I1).
  assert (Hs : src = pre ++ ws ++ mid ++ rest s') by (rewrite Hsrc, R0, R1; reflexivity).
  assert (Gap : sub src (cur s) (cur s0) = ws) by (rewrite Hs; apply sub_app; lia).
  assert (Body : sub src (cur s0) (cur s') = mid) by (rewrite Hs, app_assoc; apply sub_app; rewrite ?len_app; lia).
  assert (D1 : indent s0 = (if has_lf ws then indent_run 0 (after_last_lf ws) else if first then indent s + indent_run 0 ws else indent s)).
  { rewrite I0, gapd_spec by auto. destruct (has_lf ws); auto.
    destruct Hsh as [<-|Re]; auto.
    rewrite Re in R0. destruct ws; [|discriminate R0]. cbn. destruct (shi s), first; lia. }
  assert (Head : forall r, indents src false (cur s') (indent s') r -> indents src first (cur s) (indent s) (t :: r)).
  { intros r Hr. cbn [indents]. rewrite Tk. cbn [tstart tend tindent mkToken]. rewrite Gap, Body, <- D1, <- I1. auto. }
  destruct (ty t =? tt_EOF) eqn:E.
  - injection H as <-. apply Head. cbn. auto.
  - destruct (scanAll m F f s') as [ts'|] eqn:R; [|discriminate H]. injection H as <-. apply Head.
    apply (IH s' ts' (pre ++ ws ++ mid)); auto.
    + rewrite Hs, <- !app_assoc. reflexivity.
    + rewrite C1, C0, Hcur, !len_app. lia.
Qed.

Theorem scan_indents m l0 c0 i0 src ts : scan_from m l0 c0 i0 src = Some ts -> indents src true 0 i0 ts.
Proof.
  unfold scan_from. intros H. apply (scanAll_indents _ _ src _ _ _ [] true) in H; auto.
Qed.
