(* C13 — kind soundness: every token of the model's stream is an instance of a lexical rule. *)
From Coq Require Import List NArith Bool Lia.
Import ListNotations.
From DDP Require Import Gen.Tokens Lex.ScanModel Lex.ScanSpec Lex.ScanProofs.
Open Scope N_scope.

Lemma class_ok_mono m (P Q : Prop) t l : (P -> Q) -> class_ok m P t l -> class_ok m Q t l.
Proof. intros PQ H. inversion H; subst; try (econstructor; eauto; fail). eapply K_comment; eauto. tauto. Qed.

Ltac eqb_all :=
  repeat match goal with
         | H : (_ =? _) = true |- _ => apply N.eqb_eq in H
         | H : (_ =? _) = false |- _ => apply N.eqb_neq in H
         end.

Lemma dispatch_kind m F s0 c r s t s2 : rest s0 = c :: r -> s = adv s0 -> ~ blank c ->
  dispatch m F s0 c s = Some (t, s2) ->
  exists mid, Cons s s2 mid /\ class_ok m (rest s2 = []) t (c :: mid).
Proof.
  intros R -> NB. unfold dispatch. intros H.
  pose proof (adv_Cons _ _ _ R) as C0.
  destruct (isAlpha c) eqn:A.
  { destruct (identifier_spec _ _ _ _ _ H) as (T & mid & [C P] & AN). exists mid. split; auto.
    assert (L : literal s0 s2 = c :: mid) by (apply literal_mid; apply (Cons_trans _ _ _ _ _ C0 C)).
    rewrite L in T. assert (W : word (c :: mid)) by (exists c, mid; auto).
    destruct (identifierType_cases (c :: mid)) as [[E K]|(v & K & E & _)]; rewrite E in T; subst t.
    - apply K_ident; auto.
    - apply K_keyword; auto. }
  destruct (isDigit c) eqn:D.
  { destruct (number_spec _ _ _ _ H) as (mid & [C P] & [[T Dg]|(T & a & b & Em & Da & Db)]); exists mid; split; auto; subst t.
    - apply K_int. split; [discriminate|]. constructor; auto.
    - subst mid. change (c :: a ++ 44 :: b) with ((c :: a) ++ 44 :: b). apply K_float; auto. split; [discriminate|]. constructor; auto. }
  destruct (c =? 45) eqn:E45; [inv H; eqb_all; subst; exists []; split; [apply Cons_refl|apply K_negate]|].
  destruct (c =? 46) eqn:E46.
  { eqb_all. subst c. destruct (is (peek (adv s0)) 46 && is (peekNext (adv s0)) 46) eqn:G; inv H.
    - apply andb_true_iff in G. destruct G as [G1 G2]. apply is_some in G1. apply is_some in G2.
      destruct (peek_rest _ _ G1) as [r1 R1]. unfold peekNext in G2. rewrite R1 in G2.
      destruct r1 as [|d r']; [cbn in G2; discriminate G2|]. inv G2.
      destruct (adv_fields _ _ _ R1) as (R2 & _).
      exists ([46] ++ [46]). split; [|apply K_elipsis]. eapply Cons_trans; eapply adv_Cons; eauto.
    - exists []. split; [apply Cons_refl|apply K_dot]. }
  destruct (c =? 44) eqn:E44; [inv H; eqb_all; subst; exists []; split; [apply Cons_refl|apply K_comma]|].
  destruct (c =? 58) eqn:E58; [inv H; eqb_all; subst; exists []; split; [apply Cons_refl|apply K_colon]|].
  destruct (c =? 40) eqn:E40; [inv H; eqb_all; subst; exists []; split; [apply Cons_refl|apply K_lparen]|].
  destruct (c =? 41) eqn:E41; [inv H; eqb_all; subst; exists []; split; [apply Cons_refl|apply K_rparen]|].
  destruct (c =? 34) eqn:E34.
  { apply N.eqb_eq in E34. subst c. apply quoted_spec in H; try lia.
    destruct H as (mid & [C P] & [(T & b & Em & Q)|(T & Rs & Q)]); exists mid; split; auto; subst t.
    - subst mid. apply K_string. exists b. auto.
    - apply K_illegal; auto. }
  destruct (c =? 39) eqn:E39.
  { apply N.eqb_eq in E39. subst c. apply quoted_spec in H; try lia.
    destruct H as (mid & [C P] & [(T & b & Em & Q)|(T & Rs & Q)]); exists mid; split; auto; subst t.
    - subst mid. apply K_char. exists b. auto.
    - apply K_illegal; auto. }
  destruct (c =? 91) eqn:E91.
  { apply N.eqb_eq in E91. subst c. apply comment_spec in H. destruct H as (T & mid & d & [C P] & Dd & X).
    exists mid. split; auto. subst t. eapply K_comment; eauto. }
  destruct ((c =? 60) && match m with Alias => true | Normal => false end) eqn:G.
  { apply andb_true_iff in G. destruct G as [G1 G]. apply N.eqb_eq in G1. subst c. destruct m; [discriminate G|].
    apply aliasParameter_spec in H. destruct H as (T & mid & [C _] & [(b & Em & N62)|(Rs & N62)]); exists mid; split; auto; subst t.
    - subst mid. apply K_apar; auto.
    - apply K_apar_open; auto. }
  inv H. exists []. split; [apply Cons_refl|]. eqb_all. apply K_symbol; auto.
  - cbn. intuition congruence.
  - intros ->. destruct m; auto. cbn in G. discriminate G.
Qed.

Lemma nextToken_kind m F s t s' : nextToken m F s = Some (t, s') ->
  exists ws mid s0, Cons s s0 ws /\ Cons s0 s' mid /\ t = mkToken (ty t) s0 s' /\
                    class_ok m (rest s' = []) (ty t) mid.
Proof.
  unfold nextToken. destruct (skipWhitespace F s) as [s0|] eqn:W; [|discriminate].
  destruct (skipWhitespace_spec _ _ _ W) as (ws & [C0 _] & B & NB).
  destruct (atEnd s0) eqn:A.
  - intros H. inv H. exists ws, [], s'. split; auto. split; [apply Cons_refl|]. split; [reflexivity|apply K_eof].
  - destruct (atEnd_false _ A) as (c & r & R).
    assert (Ad : advance s0 = (c, adv s0)) by (unfold adv, advance; rewrite R; reflexivity). rewrite Ad.
    destruct (dispatch m F s0 c (adv s0)) as [[t0 s2]|] eqn:D; [|discriminate]. intros H. inv H.
    assert (Hc : ~ blank c) by (apply NB; unfold peek; rewrite R; auto).
    destruct (dispatch_kind _ _ _ _ _ _ _ _ R eq_refl Hc D) as (mid & C & K).
    exists ws, ([c] ++ mid), s0. split; auto. split; [eapply Cons_trans; eauto; eapply adv_Cons; eauto|].
    split; [reflexivity|exact K].
Qed.

Lemma scanAll_kinds m F src : forall fuel s ts pre, scanAll m F fuel s = Some ts ->
  src = pre ++ rest s -> cur s = len pre -> Forall (kind_ok m src) ts.
Proof.
  induction fuel as [|f IH]; intros s ts pre H Hsrc Hcur; [discriminate H|]. cbn in H.
  destruct (nextToken m F s) as [[t s']|] eqn:T; [|discriminate H].
  destruct (nextToken_kind _ _ _ _ _ T) as (ws & mid & s0 & [R0 C0] & [R1 C1] & Tk & K).
  assert (Hs : src = pre ++ ws ++ mid ++ rest s') by (rewrite Hsrc, R0, R1; reflexivity).
  assert (HL : len src = len pre + len ws + len mid + len (rest s')) by (rewrite Hs, !len_app; lia).
  assert (Head : kind_ok m src t).
  { unfold kind_ok. rewrite Tk. cbn [tstart tend ty mkToken].
    replace (sub src (cur s0) (cur s')) with mid.
    - eapply class_ok_mono; [|exact K]. intros E. rewrite HL, E, C1, C0, Hcur. unfold len; cbn; lia.
    - rewrite Hs, app_assoc. symmetry. apply sub_app; rewrite ?len_app; lia. }
  destruct (ty t =? tt_EOF) eqn:E.
  - inv H. constructor; auto.
  - destruct (scanAll m F f s') as [ts'|] eqn:R; [|discriminate H]. inv H. constructor; auto.
    apply (IH s' ts' (pre ++ ws ++ mid)); auto.
    + rewrite Hs, <- !app_assoc. reflexivity.
    + rewrite C1, C0, Hcur, !len_app. lia.
Qed.

Theorem scan_kinds m l0 c0 i0 src ts : scan_from m l0 c0 i0 src = Some ts -> Forall (kind_ok m src) ts.
Proof. unfold scan_from. intros H. apply (scanAll_kinds _ _ src _ _ _ []) in H; auto. Qed.

(* ---- reading the classification by type ---- *)
Lemma keyword_type_not_special l v : keyword_type l = Some v -> ~ In v special_types.
Proof.
  unfold keyword_type. destruct (lookup keyword_table l) eqn:L; intros H.
  - inv H. eapply lookup_not_special; eauto.
  - eapply lookup_not_special; eauto.
Qed.

Ltac no_kw := match goal with H : keyword_type _ = Some _ |- _ => exfalso; apply keyword_type_not_special in H; apply H; cbn; tauto end.
Ltac tt_absurd := match goal with H : ?a = ?b |- _ => exfalso; revert H; tt_neq end.

Lemma class_int m P l : class_ok m P tt_INT l -> digits l.
Proof. intros H. inversion H; subst; auto; try no_kw; tt_absurd. Qed.
Lemma class_float m P l : class_ok m P tt_FLOAT l -> exists a b, l = a ++ 44 :: b /\ digits a /\ digits b.
Proof. intros H. inversion H; subst; eauto; try no_kw; tt_absurd. Qed.
Lemma class_identifier m P l : class_ok m P tt_IDENTIFIER l -> word l /\ keyword_type l = None.
Proof. intros H. inversion H; subst; auto; try no_kw; tt_absurd. Qed.
Lemma class_string m P l : class_ok m P tt_STRING l -> quoted_lit 34 l.
Proof. intros H. inversion H; subst; auto; try no_kw; tt_absurd. Qed.
Lemma class_char m P l : class_ok m P tt_CHAR l -> quoted_lit 39 l.
Proof. intros H. inversion H; subst; auto; try no_kw; tt_absurd. Qed.
Lemma class_comment m P l : class_ok m P tt_COMMENT l ->
  exists b d, l = 91 :: b /\ depth_after 1 b = Some d /\ (d = 0 \/ P).
Proof. intros H. inversion H; subst; eauto; try no_kw; tt_absurd. Qed.
Lemma class_keyword m P t l : ~ In t special_types -> class_ok m P t l -> word l /\ keyword_type l = Some t.
Proof.
  intros NS H. inversion H; subst; auto; exfalso; apply NS; cbn; tauto.
Qed.
Lemma class_word m P t l : word l -> class_ok m P t l ->
  match keyword_type l with Some v => t = v | None => t = tt_IDENTIFIER end.
Proof.
  intros (c & r & -> & A & AN) H.
  assert (D : isDigit c = false) by (unfold isAlpha, isDigit in *; destruct (48 <=? c) eqn:X, (c <=? 57) eqn:Y; auto; exfalso;
    apply N.leb_le in X; apply N.leb_le in Y;
    repeat (apply orb_true_iff in A; destruct A as [A|A]); try (apply andb_true_iff in A; destruct A as [A1 A2]; apply N.leb_le in A1; apply N.leb_le in A2; lia);
    apply N.eqb_eq in A; lia).
  inversion H; subst;
    try (match goal with K : keyword_type _ = _ |- _ => rewrite K; reflexivity end);
    exfalso; try (cbn in A; discriminate A); try congruence.
  all: try match goal with Hd : digits (_ :: _) |- _ => destruct Hd as [_ F]; inv F; congruence end.
  all: try match goal with Hq : quoted_lit _ _ |- _ => destruct Hq as (b0 & E & _); inv E; cbn in A; discriminate A end.
  all: try match goal with Hq : _ = 34 \/ _ = 39 |- _ => destruct Hq; subst; cbn in A; discriminate A end.
  match goal with Hd : digits ?a, He : ?a ++ 44 :: _ = _ :: _ |- _ =>
    destruct Hd as [Na F]; destruct a; [congruence|]; cbn in He; inv He; inv F; congruence end.
Qed.
