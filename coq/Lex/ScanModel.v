(* C13 — executable model of /repo/src/scanner/scanner.go (+ interface.go) on code points.

   Transcription conventions
   * the source is a list of code points (N); `cur` counts consumed code points (the Go code counts
     bytes; literals are compared after re-encoding, see Lex/Utf8.v), `rest` is src[cur:];
   * `peek`/`peekNext` return None for Go's `eof = -1` (no predicate used by the scanner holds of -1);
     peekNext keeps the quirk of the byte test `s.cur+1 >= len(s.src)`: a multi-byte last character has
     RuneError (U+FFFD) as its successor;
   * `advance` at the end of input behaves like utf8.DecodeRune on an empty slice (RuneError, width 0);
   * every `for` loop of scanner.go is `iter body fuel`, body returning None when the loop exits;
     running out of fuel is the explicit result None of `iter`, excluded by C13_fuel;
   * only what reaches the returned tokens is modelled: diagnostics (s.err, the error handler,
     shouldCapitalize, gotBackslash, the rune count of a CHAR) are dropped, the message text that
     errorToken stores as Literal of an ILLEGAL token is abstracted to [];
   * tokens carry two ghost fields tstart/tend (values of s.start and s.cur, in code points) which the
     Go token does not have; the theorems tie them to Literal and Range. *)
From Coq Require Import List NArith Bool.
Import ListNotations.
From DDP Require Import Gen.Tokens.
Open Scope N_scope.

Inductive mode := Normal | Alias.      (* ModeNone / ModeStrictCapitalization yield the same tokens *)

Record st := mkst {
  rest : list N;     (* s.src[s.cur:] decoded *)
  cur : N;           (* s.cur, in code points *)
  line : N;
  col : N;
  indent : N;
  shi : bool         (* shouldIndent *)
}.

Record token := mktok {
  ty : N; lit : list N; tindent : N;
  sl : N; sc : N; el : N; ec : N;      (* Range.Start.Line/Column, Range.End.Line/Column *)
  tstart : N; tend : N                 (* ghost: s.start and s.cur when the token was built *)
}.

(* ---- character classes (scanner.go:441-466) ---- *)
Definition isDigit (c : N) : bool := (48 <=? c) && (c <=? 57).
Definition isAlpha (c : N) : bool :=
  ((97 <=? c) && (c <=? 122)) || ((65 <=? c) && (c <=? 90)) ||
  (c =? 223) || (c =? 95) || (c =? 228) || (c =? 196) || (c =? 246) || (c =? 214) || (c =? 252) || (c =? 220).
Definition isAlphaNumeric (c : N) : bool := isAlpha c || isDigit c.
Definition isSpace (c : N) : bool := (c =? 32) || (c =? 13) || (c =? 10) || (c =? 9).

(* ---- primitives ---- *)
Definition atEnd (s : st) : bool := match rest s with [] => true | _ => false end.
Definition peek (s : st) : option N := match rest s with [] => None | c :: _ => Some c end.
Definition peekNext (s : st) : option N :=
  match rest s with
  | [] => None
  | [c] => if c <? 128 then None else Some 65533
  | _ :: d :: _ => Some d
  end.
Definition is (o : option N) (c : N) : bool := match o with Some x => x =? c | None => false end.
Definition sat (o : option N) (p : N -> bool) : bool := match o with Some x => p x | None => false end.

Definition advance (s : st) : N * st :=
  match rest s with
  | [] => (65533, mkst [] (cur s) (line s) (col s + 1) (indent s) false)
  | c :: r => (c, mkst r (cur s + 1) (line s) (col s + 1) (indent s) (shi s && isSpace c))
  end.
Definition adv (s : st) : st := snd (advance s).

Definition increaseLine (s : st) : st :=       (* increaseLineBeforeAdvance *)
  mkst (rest s) (cur s) (line s + 1) 0 0 true.
Definition incIndent (s : st) : st :=
  mkst (rest s) (cur s) (line s) (col s) (indent s + 1) (shi s).

(* ---- loops ---- *)
Fixpoint iter {A : Type} (body : A -> st -> option (A * st)) (fuel : nat) (a : A) (s : st) : option (A * st) :=
  match fuel with
  | O => None
  | S f => match body a s with
           | None => Some (a, s)
           | Some (a', s') => iter body f a' s'
           end
  end.

(* skipWhitespace: a = consecutiveSpaceCount *)
Definition ws_body (cnt : N) (s : st) : option (N * st) :=
  match peek s with
  | None => None
  | Some c =>
    let cnt := if c =? 32 then cnt + 1 else 0 in
    if c =? 32 then
      if shi s && (cnt =? 4) then Some (0, adv (incIndent s)) else Some (cnt, adv s)
    else if c =? 13 then Some (cnt, adv s)
    else if c =? 9 then Some (cnt, adv (if shi s then incIndent s else s))
    else if c =? 10 then Some (cnt, adv (increaseLine s))
    else None
  end.
Definition skipWhitespace (fuel : nat) (s : st) : option st :=
  option_map snd (iter ws_body fuel 0 s).

(* for isDigit(s.peek()) { s.advance() }   /   for isAlphaNumeric(s.peek()) { s.advance() } *)
Definition while_body (p : N -> bool) (_ : unit) (s : st) : option (unit * st) :=
  if sat (peek s) p then Some (tt, adv s) else None.
Definition while_peek (p : N -> bool) (fuel : nat) (s : st) : option st :=
  option_map snd (iter (while_body p) fuel tt s).

(* scanEscape (its result and its diagnostic are not used by the callers) *)
Definition isEscape (quote c : N) : bool :=
  (c =? 97) || (c =? 98) || (c =? 110) || (c =? 114) || (c =? 116) || (c =? 92) || (c =? quote).
Definition scanEscape (quote : N) (s : st) : st :=
  if sat (peekNext s) (isEscape quote) then adv s else s.

(* the loops of string() (quote = 34, the double quote) and char() (quote = 39, the apostrophe) *)
Definition quoted_body (quote : N) (_ : unit) (s : st) : option (unit * st) :=
  match peek s with
  | None => None                                  (* !s.atEnd() *)
  | Some c =>
    if c =? quote then None                       (* break *)
    else if c =? 10 then Some (tt, adv (increaseLine s))
    else if c =? 92 then Some (tt, adv (scanEscape quote s))
    else Some (tt, adv s)
  end.
Definition quoted (quote okty : N) (fuel : nat) (s : st) : option (N * st) :=
  match iter (quoted_body quote) fuel tt s with
  | None => None
  | Some (_, s1) => if atEnd s1 then Some (tt_ILLEGAL, s1) else Some (okty, adv s1)
  end.

(* case '[': a = bracketCount *)
Definition comment_body (depth : N) (s : st) : option (N * st) :=
  if (0 <? depth) && negb (atEnd s) then
    let c := peek s in
    if is c 91 then Some (depth + 1, adv s)
    else if is c 93 then Some (depth - 1, adv s)
    else if is c 10 then Some (depth, adv (increaseLine s))
    else Some (depth, adv s)
  else None.
Definition comment (fuel : nat) (s : st) : option (N * st) :=
  match iter comment_body fuel 1 s with
  | None => None
  | Some (_, s1) => Some (tt_COMMENT, s1)
  end.

Definition number (fuel : nat) (s : st) : option (N * st) :=
  match while_peek isDigit fuel s with
  | None => None
  | Some s1 =>
    if is (peek s1) 44 && sat (peekNext s1) isDigit then
      match while_peek isDigit fuel (adv s1) with
      | None => None
      | Some s2 => Some (tt_FLOAT, s2)
      end
    else Some (tt_INT, s1)
  end.

(* keyword lookup: token.KeywordToTokenType and scanner.identifierType; strings.ToLower restricted to
   the identifier alphabet (A-Z, Ä, Ö, Ü are the only characters of isAlphaNumeric it changes) *)
Fixpoint list_eqb (a b : list N) : bool :=
  match a, b with
  | [], [] => true
  | x :: a', y :: b' => (x =? y) && list_eqb a' b'
  | _, _ => false
  end.
Fixpoint lookup (tbl : list (list N * N)) (k : list N) : option N :=
  match tbl with
  | [] => None
  | (k', v) :: r => if list_eqb k k' then Some v else lookup r k
  end.
Definition keywordToTokenType (l : list N) : N :=
  match lookup keyword_table l with Some v => v | None => tt_IDENTIFIER end.
Definition toLower (c : N) : N :=
  if ((65 <=? c) && (c <=? 90)) || (c =? 196) || (c =? 214) || (c =? 220) then c + 32 else c.
Definition identifierType (l : list N) : N :=
  let t := keywordToTokenType l in
  if t =? tt_IDENTIFIER then
    let t2 := keywordToTokenType (map toLower l) in
    if negb (t2 =? t) then t2 else t
  else t.

Definition literal (s0 s1 : st) : list N := firstn (N.to_nat (cur s1 - cur s0)) (rest s0).

Definition identifier (fuel : nat) (s0 s : st) : option (N * st) :=
  match while_peek isAlphaNumeric fuel s with
  | None => None
  | Some s1 => Some (identifierType (literal s0 s1), s1)
  end.

(* aliasParameter: only its advances reach the token *)
Definition alias_body (_ : unit) (s : st) : option (unit * st) :=
  if negb (atEnd s) && negb (is (peek s) 62) then
    Some (tt, adv (if is (peek s) 10 then increaseLine s else s))
  else None.
Definition aliasParameter (fuel : nat) (s : st) : option (N * st) :=
  match iter alias_body fuel tt s with
  | None => None
  | Some (_, s1) => Some (tt_ALIAS_PARAMETER, if atEnd s1 then s1 else adv s1)
  end.

(* newToken / errorToken; s0 = state at s.start *)
Definition mkToken (t : N) (s0 s1 : st) : token :=
  mktok t (if t =? tt_ILLEGAL then [] else literal s0 s1) (indent s1)
        (line s0) (col s0) (line s1) (col s1) (cur s0) (cur s1).

(* NextToken after skipWhitespace and the atEnd test; s0 = state at s.start, c/s = result of advance *)
Definition dispatch (m : mode) (fuel : nat) (s0 : st) (c : N) (s : st) : option (N * st) :=
  if isAlpha c then identifier fuel s0 s
  else if isDigit c then number fuel s
  else if c =? 45 then Some (tt_NEGATE, s)
  else if c =? 46 then
    if is (peek s) 46 && is (peekNext s) 46 then Some (tt_ELIPSIS, adv (adv s)) else Some (tt_DOT, s)
  else if c =? 44 then Some (tt_COMMA, s)
  else if c =? 58 then Some (tt_COLON, s)
  else if c =? 40 then Some (tt_LPAREN, s)
  else if c =? 41 then Some (tt_RPAREN, s)
  else if c =? 34 then quoted 34 tt_STRING fuel s
  else if c =? 39 then quoted 39 tt_CHAR fuel s
  else if c =? 91 then comment fuel s
  else if (c =? 60) && (match m with Alias => true | Normal => false end) then aliasParameter fuel s
  else Some (tt_SYMBOL, s).

Definition nextToken (m : mode) (fuel : nat) (s : st) : option (token * st) :=
  match skipWhitespace fuel s with
  | None => None
  | Some s0 =>
    if atEnd s0 then Some (mkToken tt_EOF s0 s0, s0)
    else let (c, s1) := advance s0 in
         match dispatch m fuel s0 c s1 with
         | None => None
         | Some (t, s2) => Some (mkToken t s0 s2, s2)
         end
  end.

(* ScanAll *)
Fixpoint scanAll (m : mode) (F : nat) (fuel : nat) (s : st) : option (list token) :=
  match fuel with
  | O => None
  | S f => match nextToken m F s with
           | None => None
           | Some (t, s') => if ty t =? tt_EOF then Some [t]
                             else match scanAll m F f s' with
                                  | None => None
                                  | Some ts => Some (t :: ts)
                                  end
           end
  end.

(* New + (ScanAlias: line/column/indent overwritten from the alias token) + ScanAll.
   None = out of fuel. *)
Definition scan_from (m : mode) (l0 c0 i0 : N) (src : list N) : option (list token) :=
  let F := S (length src) in
  scanAll m F F (mkst src 0 l0 c0 i0 true).
Definition scan (m : mode) (src : list N) : option (list token) := scan_from m 1 1 0 src.
