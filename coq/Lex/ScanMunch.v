(* C13 — words and numbers are maximal: the code point behind an identifier/keyword is not
   alphanumeric, the one behind a number is not a digit. *)
From Coq Require Import List NArith Bool Lia.
Import ListNotations.
From DDP Require Import Gen.Tokens Lex.ScanModel Lex.ScanSpec Lex.ScanProofs.
Open Scope N_scope.

Definition munch_ok (src : list N) (t : token) : Prop :=
  forall c r d, sub src (tstart t) (tend t) = c :: r -> nth_error src (N.to_nat (tend t)) = Some d ->
    (isAlpha c = true -> isAlphaNumeric d = false) /\ (isDigit c = true -> isDigit d = false).

Lemma dispatch_munch m F s0 c s t s2 : dispatch m F s0 c s = Some (t, s2) ->
  (isAlpha c = true -> sat (peek s2) isAlphaNumeric = false) /\
  (isAlpha c = false -> isDigit c = true -> sat (peek s2) isDigit = false).
Proof.
  unfold dispatch. intros H. destruct (isAlpha c) eqn:A.
  { split; [|discriminate]. intros _. unfold identifier in H.
    destruct (while_peek isAlphaNumeric F s) as [s1|] eqn:W; [|discriminate H]. inv H.
    destruct (while_peek_spec _ _ _ _ isAlphaNumeric_not10 W) as (_ & _ & _ & X). exact X. }
  split; [discriminate|]. intros _ D. rewrite D in H. unfold number in H.
  destruct (while_peek isDigit F s) as [s1|] eqn:W1; [|discriminate H].
  destruct (while_peek_spec _ _ _ _ isDigit_not10 W1) as (_ & _ & _ & X1).
  destruct (is (peek s1) 44 && sat (peekNext s1) isDigit).
  - destruct (while_peek isDigit F (adv s1)) as [s3|] eqn:W2; [|discriminate H]. inv H.
    destruct (while_peek_spec _ _ _ _ isDigit_not10 W2) as (_ & _ & _ & X2). exact X2.
  - inv H. exact X1.
Qed.

Lemma nextToken_munch m F s t s' : nextToken m F s = Some (t, s') ->
  exists ws mid s0, Cons s s0 ws /\ Cons s0 s' mid /\ t = mkToken (ty t) s0 s' /\
    forall c r, mid = c :: r ->
      (isAlpha c = true -> sat (peek s') isAlphaNumeric = false) /\ (isDigit c = true -> sat (peek s') isDigit = false).
Proof.
  unfold nextToken. destruct (skipWhitespace F s) as [s0|] eqn:W; [|discriminate].
  destruct (skipWhitespace_spec _ _ _ W) as (ws & [C0 _] & B & NB).
  destruct (atEnd s0) eqn:A.
  - intros H. inv H. exists ws, [], s'. split; auto. split; [apply Cons_refl|]. split; [reflexivity|]. intros c r E. discriminate E.
  - destruct (atEnd_false _ A) as (c & r & R).
    assert (Ad : advance s0 = (c, adv s0)) by (unfold adv, advance; rewrite R; reflexivity). rewrite Ad.
    destruct (dispatch m F s0 c (adv s0)) as [[t0 s2]|] eqn:D; [|discriminate]. intros H. inv H.
    assert (Hc : c <> 10). { intros ->. apply (NB 10); [unfold peek; rewrite R; auto|right; right; right; auto]. }
    destruct (dispatch_spec _ _ _ _ _ _ _ D Hc) as (mid & C & _).
    destruct (dispatch_munch _ _ _ _ _ _ _ D) as [MA MD].
    exists ws, ([c] ++ mid), s0. split; auto. split; [eapply Cons_trans; eauto; eapply adv_Cons; eauto|]. split; [reflexivity|].
    intros c' r' E. inv E. split; auto. intros Dg. apply MD; auto.
    destruct (isAlpha c') eqn:Al; auto. exfalso. clear - Al Dg. unfold isAlpha, isDigit in *.
    apply andb_true_iff in Dg. destruct Dg as [D1 D2]. apply N.leb_le in D1. apply N.leb_le in D2.
    repeat (apply orb_true_iff in Al; destruct Al as [Al|Al]);
      try (apply andb_true_iff in Al; destruct Al as [A1 A2]; apply N.leb_le in A1; apply N.leb_le in A2; lia);
      apply N.eqb_eq in Al; lia.
Qed.

Lemma nth_error_app_len (a b : list N) : nth_error (a ++ b) (length a) = hd_error b.
Proof. induction a; cbn; auto. Qed.

Lemma scanAll_munch m F src : forall fuel s ts pre, scanAll m F fuel s = Some ts ->
  src = pre ++ rest s -> cur s = len pre -> Forall (munch_ok src) ts.
Proof.
  induction fuel as [|f IH]; intros s ts pre H Hsrc Hcur; [discriminate H|]. cbn in H.
  destruct (nextToken m F s) as [[t s']|] eqn:T; [|discriminate H].
  destruct (nextToken_munch _ _ _ _ _ T) as (ws & mid & s0 & [R0 C0] & [R1 C1] & Tk & K).
  assert (Hs : src = pre ++ ws ++ mid ++ rest s') by (rewrite Hsrc, R0, R1; reflexivity).
  assert (Head : munch_ok src t).
  { unfold munch_ok. rewrite Tk. cbn [tstart tend mkToken]. intros c r d E Nx.
    assert (Body : sub src (cur s0) (cur s') = mid) by (rewrite Hs, app_assoc; apply sub_app; rewrite ?len_app; lia).
    rewrite Body in E.
    assert (P : peek s' = Some d).
    { replace src with ((pre ++ ws ++ mid) ++ rest s') in Nx by (rewrite Hs, <- !app_assoc; reflexivity).
      replace (N.to_nat (cur s')) with (length (pre ++ ws ++ mid)) in Nx
        by (rewrite C1, C0, Hcur; unfold len; rewrite !app_length; lia).
      rewrite nth_error_app_len in Nx. unfold peek. destruct (rest s'); [discriminate Nx|inv Nx; auto]. }
    destruct (K c r E) as [KA KD]. rewrite P in KA, KD. cbn in KA, KD. auto. }
  destruct (ty t =? tt_EOF) eqn:E.
  - injection H as <-. constructor; auto.
  - destruct (scanAll m F f s') as [ts'|] eqn:R; [|discriminate H]. injection H as <-. constructor; auto.
    apply (IH s' ts' (pre ++ ws ++ mid)); auto.
    + rewrite Hs, <- !app_assoc. reflexivity.
    + rewrite C1, C0, Hcur, !len_app. lia.
Qed.

Theorem scan_munch m l0 c0 i0 src ts : scan_from m l0 c0 i0 src = Some ts -> Forall (munch_ok src) ts.
Proof. unfold scan_from. intros H. apply (scanAll_munch _ _ src _ _ _ []) in H; auto. Qed.
