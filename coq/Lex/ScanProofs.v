(* C13 — proofs about ScanModel: consumption and position invariants of every loop and sub-scanner,
   termination within the fuel, one EOF, partition, positions. *)
From Coq Require Import List NArith Bool Lia.
Import ListNotations.
From DDP Require Import Gen.Tokens Lex.ScanModel Lex.ScanSpec.
Open Scope N_scope.

(* ------------------------------------------------------------------------------------------- *)
(* the loop combinator *)
Lemma iter_ind {A} (body : A -> st -> option (A * st)) (Q : A -> st -> A -> st -> Prop) :
  (forall a s, body a s = None -> Q a s a s) ->
  (forall a s a1 s1 a' s', body a s = Some (a1, s1) -> Q a1 s1 a' s' -> Q a s a' s') ->
  forall fuel a s a' s', iter body fuel a s = Some (a', s') -> Q a s a' s'.
Proof.
  intros Hn Hs fuel. induction fuel as [|f IH]; intros a s a' s' H; cbn in H; [discriminate H|].
  destruct (body a s) as [[a1 s1]|] eqn:E.
  - eapply Hs; eauto.
  - inversion H; subst. apply Hn; auto.
Qed.

Lemma iter_some {A} (body : A -> st -> option (A * st)) :
  (forall a s a1 s1, body a s = Some (a1, s1) -> (length (rest s1) < length (rest s))%nat) ->
  forall fuel a s, (length (rest s) < fuel)%nat -> iter body fuel a s <> None.
Proof.
  intros Hd fuel. induction fuel as [|f IH]; intros a s Hl; [lia|]. cbn.
  destruct (body a s) as [[a1 s1]|] eqn:E; [|discriminate].
  apply IH. apply Hd in E. lia.
Qed.

(* ------------------------------------------------------------------------------------------- *)
(* consumption and position relations between two scanner states *)
Definition Cons (s s' : st) (mid : list N) : Prop := rest s = mid ++ rest s' /\ cur s' = cur s + len mid.
Definition PosR (s s' : st) (mid : list N) : Prop := (line s', col s') = pos_after (line s, col s) mid.

Lemma Cons_refl s : Cons s s [].
Proof. split; cbn; auto. unfold len; cbn; lia. Qed.
Lemma Cons_trans s s1 s2 m1 m2 : Cons s s1 m1 -> Cons s1 s2 m2 -> Cons s s2 (m1 ++ m2).
Proof.
  intros [R1 C1] [R2 C2]. split.
  - rewrite R1, R2, app_assoc. reflexivity.
  - unfold len in *. rewrite app_length. lia.
Qed.
Lemma PosR_refl s : PosR s s [].
Proof. reflexivity. Qed.
Lemma PosR_trans s s1 s2 m1 m2 : PosR s s1 m1 -> PosR s1 s2 m2 -> PosR s s2 (m1 ++ m2).
Proof. unfold PosR, pos_after. intros H1 H2. rewrite fold_left_app, <- H1. exact H2. Qed.
Lemma Cons_shorter s s' mid : Cons s s' mid -> (length (rest s) = length mid + length (rest s'))%nat.
Proof. intros [R _]. rewrite R, app_length. reflexivity. Qed.

Lemma adv_fields s c r : rest s = c :: r ->
  rest (adv s) = r /\ cur (adv s) = cur s + 1 /\ line (adv s) = line s /\ col (adv s) = col s + 1 /\
  indent (adv s) = indent s /\ shi (adv s) = (shi s && isSpace c).
Proof. intros H. unfold adv, advance. rewrite H. cbn. auto 10. Qed.

Lemma adv_Cons s c r : rest s = c :: r -> Cons s (adv s) [c].
Proof.
  intros H. destruct (adv_fields s c r H) as (R & C & _). split.
  - rewrite R. exact H.
  - rewrite C. reflexivity.
Qed.
Lemma adv_PosR s c r : rest s = c :: r -> c <> 10 -> PosR s (adv s) [c].
Proof.
  intros H Hc. destruct (adv_fields s c r H) as (_ & _ & L & C & _). unfold PosR, pos_after. cbn.
  unfold adv_pos. apply N.eqb_neq in Hc. rewrite Hc. cbn. rewrite L, C. reflexivity.
Qed.
Lemma nl_Cons s r : rest s = 10 :: r -> Cons s (adv (increaseLine s)) [10].
Proof.
  intros H. assert (H' : rest (increaseLine s) = 10 :: r) by exact H.
  destruct (adv_fields _ _ _ H') as (R & C & _). split.
  - rewrite R. exact H.
  - rewrite C. reflexivity.
Qed.
Lemma nl_PosR s r : rest s = 10 :: r -> PosR s (adv (increaseLine s)) [10].
Proof.
  intros H. assert (H' : rest (increaseLine s) = 10 :: r) by exact H.
  destruct (adv_fields _ _ _ H') as (_ & _ & L & C & _). unfold PosR, pos_after. cbn.
  rewrite L, C. reflexivity.
Qed.
Lemma ind_Cons s c r : rest s = c :: r -> Cons s (adv (incIndent s)) [c].
Proof.
  intros H. assert (H' : rest (incIndent s) = c :: r) by exact H.
  destruct (adv_fields _ _ _ H') as (R & C & _). split; [rewrite R; exact H | rewrite C; reflexivity].
Qed.
Lemma ind_PosR s c r : rest s = c :: r -> c <> 10 -> PosR s (adv (incIndent s)) [c].
Proof.
  intros H Hc. assert (H' : rest (incIndent s) = c :: r) by exact H.
  pose proof (adv_PosR _ _ _ H' Hc) as P. exact P.
Qed.

Definition Step (s s' : st) (mid : list N) : Prop := Cons s s' mid /\ PosR s s' mid.
Lemma Step_refl s : Step s s [].
Proof. split; [apply Cons_refl | apply PosR_refl]. Qed.
Lemma Step_trans s s1 s2 m1 m2 : Step s s1 m1 -> Step s1 s2 m2 -> Step s s2 (m1 ++ m2).
Proof. intros [C1 P1] [C2 P2]. split; [eapply Cons_trans | eapply PosR_trans]; eauto. Qed.
Lemma adv_Step s c r : rest s = c :: r -> c <> 10 -> Step s (adv s) [c].
Proof. intros. split; [eapply adv_Cons | eapply adv_PosR]; eauto. Qed.
Lemma nl_Step s r : rest s = 10 :: r -> Step s (adv (increaseLine s)) [10].
Proof. intros. split; [eapply nl_Cons | eapply nl_PosR]; eauto. Qed.
Lemma ind_Step s c r : rest s = c :: r -> c <> 10 -> Step s (adv (incIndent s)) [c].
Proof. intros. split; [eapply ind_Cons | eapply ind_PosR]; eauto. Qed.

Lemma peek_rest s c : peek s = Some c -> exists r, rest s = c :: r.
Proof. unfold peek. destruct (rest s); intros H; inversion H; eauto. Qed.
Lemma peek_none s : peek s = None -> rest s = [].
Proof. unfold peek. destruct (rest s); intros H; [auto|discriminate H]. Qed.
Lemma atEnd_true s : atEnd s = true -> rest s = [].
Proof. unfold atEnd. destruct (rest s); intros H; [auto|discriminate H]. Qed.
Lemma atEnd_false s : atEnd s = false -> exists c r, rest s = c :: r.
Proof. unfold atEnd. destruct (rest s); intros H; [discriminate H|eauto]. Qed.
Lemma is_some o c : is o c = true -> o = Some c.
Proof. destruct o; cbn; intros H; [apply N.eqb_eq in H; subst; auto|discriminate H]. Qed.
Lemma sat_some o p : sat o p = true -> exists c, o = Some c /\ p c = true.
Proof. destruct o; cbn; intros H; [eauto|discriminate H]. Qed.

Ltac inv H := inversion H; subst; clear H.
Ltac neq10 := let E := fresh in intros E; subst; cbn in *; congruence.

(* ------------------------------------------------------------------------------------------- *)
(* one iteration of every loop *)
Definition Step1 (s s' : st) : Prop := exists mid, mid <> [] /\ Step s s' mid.

Lemma ws_body_step cnt s cnt' s' : ws_body cnt s = Some (cnt', s') ->
  exists c, blank c /\ Step s s' [c].
Proof.
  unfold ws_body. intros H. destruct (peek s) as [c|] eqn:P; [|discriminate H].
  destruct (peek_rest _ _ P) as [r R]. exists c.
  destruct (c =? 32) eqn:E32.
  { apply N.eqb_eq in E32; subst c. split; [left; auto|].
    destruct (shi s && _); inv H; [eapply ind_Step | eapply adv_Step]; eauto; lia. }
  destruct (c =? 13) eqn:E13.
  { apply N.eqb_eq in E13; subst c. inv H. split; [right; right; left; auto|]. eapply adv_Step; eauto; lia. }
  destruct (c =? 9) eqn:E9.
  { apply N.eqb_eq in E9; subst c. inv H. split; [right; left; auto|].
    destruct (shi s); [eapply ind_Step | eapply adv_Step]; eauto; lia. }
  destruct (c =? 10) eqn:E10; [|discriminate H].
  apply N.eqb_eq in E10; subst c. inv H. split; [right; right; right; auto|]. eapply nl_Step; eauto.
Qed.

Lemma while_body_step p u s u' s' : (forall c, p c = true -> c <> 10) ->
  while_body p u s = Some (u', s') -> exists c, p c = true /\ Step s s' [c].
Proof.
  unfold while_body. intros Hp H. destruct (sat (peek s) p) eqn:S; [|discriminate H]. inv H.
  destruct (sat_some _ _ S) as (c & P & Pc). destruct (peek_rest _ _ P) as [r R].
  exists c. split; auto. eapply adv_Step; eauto.
Qed.

Lemma isDigit_not10 c : isDigit c = true -> c <> 10.
Proof. unfold isDigit. intros H E. subst. cbn in H. discriminate H. Qed.
Lemma isAlphaNumeric_not10 c : isAlphaNumeric c = true -> c <> 10.
Proof. intros H E. subst. cbn in H. discriminate H. Qed.
Lemma isEscape_not10 q c : q <> 10 -> isEscape q c = true -> c <> 10.
Proof.
  intros Hq H E. subst. unfold isEscape in H.
  assert (Q : (10 =? q) = false) by (apply N.eqb_neq; congruence). rewrite Q in H.
  vm_compute in H. discriminate H.
Qed.

Lemma scanEscape_cases q s r : rest s = 92 :: r ->
  (scanEscape q s = s /\ sat (peekNext s) (isEscape q) = false) \/
  (exists d r', r = d :: r' /\ isEscape q d = true /\ scanEscape q s = adv s).
Proof.
  intros R. unfold scanEscape. destruct (sat (peekNext s) (isEscape q)) eqn:S; [|left; auto]. right.
  destruct (sat_some _ _ S) as (d & P & Pd). unfold peekNext in P. rewrite R in P.
  destruct r as [|d' r']; [cbn in P; discriminate P|]. inv P. eauto.
Qed.

Lemma isEscape_false q d : isEscape q d = false -> d <> q /\ d <> 92.
Proof.
  unfold isEscape. intros H. repeat (apply orb_false_iff in H; destruct H as [H ?]).
  split; apply N.eqb_neq; auto.
Qed.

Lemma quoted_body_step q u s u' s' : q <> 10 -> quoted_body q u s = Some (u', s') -> Step1 s s'.
Proof.
  unfold quoted_body. intros Hq H. destruct (peek s) as [c|] eqn:P; [|discriminate H].
  destruct (peek_rest _ _ P) as [r R].
  destruct (c =? q); [discriminate H|].
  destruct (c =? 10) eqn:E10.
  { apply N.eqb_eq in E10; subst c. inv H. exists [10]. split; [discriminate|]. eapply nl_Step; eauto. }
  apply N.eqb_neq in E10.
  destruct (c =? 92) eqn:E92; [|inv H; exists [c]; split; [discriminate|eapply adv_Step; eauto]].
  apply N.eqb_eq in E92; subst c. inv H.
  destruct (scanEscape_cases q s r R) as [[E _]|(d & r' & -> & Ed & E)]; rewrite E.
  - exists [92]. split; [discriminate|]. eapply adv_Step; eauto.
  - exists ([92] ++ [d]). split; [discriminate|]. eapply Step_trans; [eapply adv_Step; eauto|].
    destruct (adv_fields _ _ _ R) as (R1 & _). eapply adv_Step; eauto. eapply (isEscape_not10 q); eauto.
Qed.

Lemma comment_body_step d s d' s' : comment_body d s = Some (d', s') -> Step1 s s'.
Proof.
  unfold comment_body. intros H. destruct ((0 <? d) && negb (atEnd s)) eqn:G; [|discriminate H].
  apply andb_true_iff in G. destruct G as [_ G]. apply negb_true_iff in G.
  destruct (atEnd_false _ G) as (c & r & R). unfold peek in H. rewrite R in H. cbn [is] in H.
  exists [c]. split; [discriminate|].
  destruct (c =? 91) eqn:E91; [apply N.eqb_eq in E91; subst; inv H; eapply adv_Step; eauto; lia|].
  destruct (c =? 93) eqn:E93; [apply N.eqb_eq in E93; subst; inv H; eapply adv_Step; eauto; lia|].
  destruct (c =? 10) eqn:E10; inv H.
  - apply N.eqb_eq in E10; subst. eapply nl_Step; eauto.
  - apply N.eqb_neq in E10. eapply adv_Step; eauto.
Qed.

Lemma alias_body_step u s u' s' : alias_body u s = Some (u', s') ->
  exists c, c <> 62 /\ Step s s' [c].
Proof.
  unfold alias_body. intros H. destruct (negb (atEnd s) && negb (is (peek s) 62)) eqn:G; [|discriminate H]. inv H.
  apply andb_true_iff in G. destruct G as [G1 G2]. apply negb_true_iff in G1. apply negb_true_iff in G2.
  destruct (atEnd_false _ G1) as (c & r & R). unfold peek in *. rewrite R in *. cbn [is] in *. apply N.eqb_neq in G2.
  exists c. split; auto. destruct (c =? 10) eqn:E10.
  - apply N.eqb_eq in E10. subst c. eapply nl_Step; eauto.
  - apply N.eqb_neq in E10. eapply adv_Step; eauto.
Qed.

Lemma Step1_shorter s s' : Step1 s s' -> (length (rest s') < length (rest s))%nat.
Proof.
  intros (mid & Hm & C & _). apply Cons_shorter in C. destruct mid; [congruence|]. cbn in C. lia.
Qed.

(* ------------------------------------------------------------------------------------------- *)
(* the loops *)
Lemma skipWhitespace_spec F s s0 : skipWhitespace F s = Some s0 ->
  exists ws, Step s s0 ws /\ Forall blank ws /\ (forall c, peek s0 = Some c -> ~ blank c).
Proof.
  unfold skipWhitespace. destruct (iter ws_body F 0 s) as [[a s0']|] eqn:E; [|discriminate]. cbn. intros H. inv H.
  revert E. generalize 0 as cnt. intros cnt E.
  apply (iter_ind ws_body (fun _ s _ s0 => exists ws, Step s s0 ws /\ Forall blank ws /\ (forall c, peek s0 = Some c -> ~ blank c))) in E; auto.
  - clear. intros cnt s H. exists []. split; [apply Step_refl|]. split; [constructor|].
    intros c P. unfold ws_body in H. rewrite P in H. intros B.
    destruct B as [ -> | [ -> | [ -> | -> ] ] ]; cbn in H; try discriminate H. destruct (shi s && _); discriminate H.
  - clear. intros cnt s cnt1 s1 cnt' s' H (ws & St & B & X).
    destruct (ws_body_step _ _ _ _ H) as (c & Bc & Sc). exists ([c] ++ ws).
    split; [eapply Step_trans; eauto|]. split; auto. constructor; auto.
Qed.

Lemma skipWhitespace_some F s : (length (rest s) < F)%nat -> skipWhitespace F s <> None.
Proof.
  intros H. unfold skipWhitespace. destruct (iter ws_body F 0 s) eqn:E; [cbn; discriminate|].
  exfalso. revert E. apply iter_some; auto. intros a s1 a1 s2 B.
  destruct (ws_body_step _ _ _ _ B) as (c & _ & St). apply Step1_shorter. exists [c]. split; [discriminate|auto].
Qed.

Lemma while_peek_spec p F s s' : (forall c, p c = true -> c <> 10) -> while_peek p F s = Some s' ->
  exists mid, Step s s' mid /\ Forall (fun c => p c = true) mid /\ sat (peek s') p = false.
Proof.
  intros Hp. unfold while_peek. destruct (iter (while_body p) F tt s) as [[a s0']|] eqn:E; [|discriminate]. cbn. intros H. inv H.
  apply (iter_ind (while_body p) (fun _ s _ s' => exists mid, Step s s' mid /\ Forall (fun c => p c = true) mid /\ sat (peek s') p = false)) in E; auto.
  - clear. intros u s H. exists []. split; [apply Step_refl|]. split; [constructor|].
    unfold while_body in H. destruct (sat (peek s) p); [discriminate H|auto].
  - intros u s1 u1 s2 u' s3 H (mid & St & B & X).
    destruct (while_body_step _ _ _ _ _ Hp H) as (c & Bc & Sc). exists ([c] ++ mid).
    split; [eapply Step_trans; eauto|]. split; auto. constructor; auto.
Qed.

Lemma while_peek_some p F s : (forall c, p c = true -> c <> 10) -> (length (rest s) < F)%nat -> while_peek p F s <> None.
Proof.
  intros Hp H. unfold while_peek. destruct (iter (while_body p) F tt s) eqn:E; [cbn; discriminate|].
  exfalso. revert E. apply iter_some; auto. intros a s1 a1 s2 B.
  destruct (while_body_step _ _ _ _ _ Hp B) as (c & _ & St). apply Step1_shorter. exists [c]. split; [discriminate|auto].
Qed.

Lemma qbody_snoc_esc q c m : c <> q -> c <> 92 -> qbody q (c :: m) -> qbody q (92 :: c :: m).
Proof. intros H1 H2 H. inv H; [apply qb_esc; auto | congruence]. Qed.
Lemma qopen_snoc_esc q c m : c <> q -> c <> 92 -> qopen q (c :: m) -> qopen q (92 :: c :: m).
Proof. intros H1 H2 H. inv H; try congruence. apply qo_esc; auto. Qed.

Lemma quoted_loop_spec q F s u u' s' : q <> 10 -> q <> 92 -> iter (quoted_body q) F u s = Some (u', s') ->
  exists mid, Step s s' mid /\ ((peek s' = Some q /\ qbody q mid) \/ (rest s' = [] /\ qopen q mid)).
Proof.
  intros Hq Hq2 E.
  apply (iter_ind (quoted_body q) (fun _ s _ s' => exists mid, Step s s' mid /\ ((peek s' = Some q /\ qbody q mid) \/ (rest s' = [] /\ qopen q mid)))) in E; auto.
  - clear - Hq. intros u0 s H. exists []. split; [apply Step_refl|].
    unfold quoted_body in H. destruct (peek s) as [c|] eqn:P.
    + left. destruct (c =? q) eqn:Eq; [apply N.eqb_eq in Eq; subst; split; [auto|constructor]|].
      destruct (c =? 10); [discriminate H|]. destruct (c =? 92); discriminate H.
    + right. split; [apply peek_none; auto|constructor].
  - clear - Hq Hq2. intros u0 s u1 s1 u2 s' H (mid & St & X).
    unfold quoted_body in H. destruct (peek s) as [c|] eqn:P; [|discriminate H].
    destruct (peek_rest _ _ P) as [r R].
    destruct (c =? q) eqn:Eq; [discriminate H|]. apply N.eqb_neq in Eq.
    destruct (c =? 10) eqn:E10.
    { apply N.eqb_eq in E10; subst c. inv H. exists ([10] ++ mid). split; [eapply Step_trans; [eapply nl_Step; eauto|eauto]|].
      destruct X as [[X1 X2]|[X1 X2]]; [left|right]; split; auto; cbn; constructor; auto; lia. }
    apply N.eqb_neq in E10.
    destruct (c =? 92) eqn:E92.
    2:{ apply N.eqb_neq in E92. inv H. exists ([c] ++ mid). split; [eapply Step_trans; [eapply adv_Step; eauto|eauto]|].
        destruct X as [[X1 X2]|[X1 X2]]; [left|right]; split; auto; cbn; constructor; auto. }
    apply N.eqb_eq in E92; subst c. inv H.
    destruct (scanEscape_cases q s r R) as [[E NE]|(d & r' & -> & Ed & E)]; rewrite E in *.
    + exists ([92] ++ mid). split; [eapply Step_trans; [eapply adv_Step; eauto|eauto]|].
      destruct (adv_fields _ _ _ R) as (R1 & _). destruct St as [[Rm _] _]. rewrite R1 in Rm.
      unfold peekNext in NE. rewrite R in NE.
      destruct r as [|d r'].
      * destruct mid; [|discriminate Rm]. cbn in Rm. right. destruct X as [[X1 _]|[X1 _]].
        -- unfold peek in X1. rewrite <- Rm in X1. discriminate X1.
        -- split; auto. constructor.
      * cbn in NE. apply isEscape_false in NE. destruct NE as [N1 N2].
        destruct mid as [|d' mid'].
        -- cbn in Rm. exfalso. destruct X as [[X1 _]|[X1 _]].
           ++ unfold peek in X1. rewrite <- Rm in X1. inv X1. congruence.
           ++ rewrite <- Rm in X1. discriminate X1.
        -- cbn in Rm. inv Rm. destruct X as [[X1 X2]|[X1 X2]]; [left|right]; split; auto; cbn.
           ++ apply qbody_snoc_esc; auto.
           ++ apply qopen_snoc_esc; auto.
    + exists (([92] ++ [d]) ++ mid). split.
      * eapply Step_trans; [|eauto]. eapply Step_trans; [eapply adv_Step; eauto|].
        destruct (adv_fields _ _ _ R) as (R1 & _). eapply adv_Step; eauto. eapply (isEscape_not10 q); eauto.
      * destruct X as [[X1 X2]|[X1 X2]]; [left|right]; split; auto; cbn; [apply qb_esc|apply qo_esc]; auto.
Qed.

Lemma quoted_spec q okty F s t s' : q <> 10 -> q <> 92 -> quoted q okty F s = Some (t, s') ->
  exists mid, Step s s' mid /\
    ((t = okty /\ exists b, mid = b ++ [q] /\ qbody q b) \/ (t = tt_ILLEGAL /\ rest s' = [] /\ qopen q mid)).
Proof.
  intros Hq Hq2. unfold quoted. destruct (iter (quoted_body q) F tt s) as [[u s1]|] eqn:E; [|discriminate].
  destruct (quoted_loop_spec _ _ _ _ _ _ Hq Hq2 E) as (mid & St & X).
  destruct (atEnd s1) eqn:A; intros H; inv H.
  - apply atEnd_true in A. exists mid. split; auto. right. destruct X as [[X1 _]|[X1 X2]]; auto.
    unfold peek in X1. rewrite A in X1. discriminate X1.
  - destruct X as [[X1 X2]|[X1 _]].
    + destruct (peek_rest _ _ X1) as [r R]. exists (mid ++ [q]). split.
      * eapply Step_trans; eauto. eapply adv_Step; eauto.
      * left. split; auto. eauto.
    + unfold atEnd in A. rewrite X1 in A. discriminate A.
Qed.

Lemma quoted_some q okty F s : q <> 10 -> (length (rest s) < F)%nat -> quoted q okty F s <> None.
Proof.
  intros Hq H. unfold quoted. destruct (iter (quoted_body q) F tt s) as [[u s1]|] eqn:E.
  - destruct (atEnd s1); discriminate.
  - exfalso. revert E. apply iter_some; auto. intros a s1 a1 s2 B. apply Step1_shorter. eapply quoted_body_step; eauto.
Qed.

Lemma comment_spec F s t s' : comment F s = Some (t, s') ->
  t = tt_COMMENT /\ exists mid d, Step s s' mid /\ depth_after 1 mid = Some d /\ (d = 0 \/ rest s' = []).
Proof.
  unfold comment. destruct (iter comment_body F 1 s) as [[d s1]|] eqn:E; [|discriminate]. intros H. inv H. split; auto.
  revert E. generalize 1 as d0. intros d0 E.
  apply (iter_ind comment_body (fun d0 s d s' => exists mid, Step s s' mid /\ depth_after d0 mid = Some d /\ (d = 0 \/ rest s' = []))) in E.
  - destruct E as (mid & X). eauto.
  - clear. intros d s H. exists []. split; [apply Step_refl|]. split; [reflexivity|].
    unfold comment_body in H. destruct (0 <? d) eqn:D; cbn in H.
    + destruct (atEnd s) eqn:A; cbn in H; [right; apply atEnd_true; auto|].
      destruct (is (peek s) 91); [discriminate H|]. destruct (is (peek s) 93); [discriminate H|]. destruct (is (peek s) 10); discriminate H.
    + left. apply N.ltb_ge in D. lia.
  - clear. intros d s d1 s1 d' s' H (mid & St & Dm & X).
    pose proof (comment_body_step _ _ _ _ H) as S1.
    unfold comment_body in H. destruct ((0 <? d) && negb (atEnd s)) eqn:G; [|discriminate H].
    apply andb_true_iff in G. destruct G as [G0 G]. apply negb_true_iff in G. apply N.ltb_lt in G0.
    destruct (atEnd_false _ G) as (c & r & R). unfold peek in H. rewrite R in H. cbn [is] in H.
    assert (D0 : (d =? 0) = false) by (apply N.eqb_neq; lia).
    destruct (c =? 91) eqn:E91.
    { assert (c <> 10) by (apply N.eqb_eq in E91; lia).
      inv H. exists ([c] ++ mid). split; [eapply Step_trans; [eapply adv_Step; eauto|eauto]|].
      split; auto. cbn. rewrite D0, E91. auto. }
    destruct (c =? 93) eqn:E93.
    { assert (c <> 10) by (apply N.eqb_eq in E93; lia).
      inv H. exists ([c] ++ mid). split; [eapply Step_trans; [eapply adv_Step; eauto|eauto]|].
      split; auto. cbn. rewrite D0, E91, E93. auto. }
    destruct (c =? 10) eqn:E10; inv H.
    + apply N.eqb_eq in E10; subst c. exists ([10] ++ mid). split; [eapply Step_trans; [eapply nl_Step; eauto|eauto]|].
      split; auto. cbn. rewrite D0. auto.
    + apply N.eqb_neq in E10. exists ([c] ++ mid). split; [eapply Step_trans; [eapply adv_Step; eauto|eauto]|].
      split; auto. cbn. rewrite D0, E91, E93. auto.
Qed.

Lemma comment_some F s : (length (rest s) < F)%nat -> comment F s <> None.
Proof.
  intros H. unfold comment. destruct (iter comment_body F 1 s) as [[u s1]|] eqn:E; [discriminate|].
  exfalso. revert E. apply iter_some; auto. intros a s1 a1 s2 B. apply Step1_shorter. eapply comment_body_step; eauto.
Qed.

Lemma alias_loop_spec F s u u' s' : iter alias_body F u s = Some (u', s') ->
  exists mid, Step s s' mid /\ ~ In 62 mid /\ (rest s' = [] \/ peek s' = Some 62).
Proof.
  intros E.
  apply (iter_ind alias_body (fun _ s _ s' => exists mid, Step s s' mid /\ ~ In 62 mid /\ (rest s' = [] \/ peek s' = Some 62))) in E; auto.
  - clear. intros u0 s H. exists []. split; [apply Step_refl|]. split; [intros []|].
    unfold alias_body in H. destruct (atEnd s) eqn:A; [left; apply atEnd_true; auto|]. cbn in H.
    destruct (is (peek s) 62) eqn:I; [|discriminate H]. right. apply is_some; auto.
  - clear. intros u0 s u1 s1 u2 s' H (mid & St & N62 & X).
    destruct (alias_body_step _ _ _ _ H) as (c & Hc & Sc). exists ([c] ++ mid).
    split; [eapply Step_trans; eauto|]. split; auto.
    cbn. intros [Hx|Hx]; [congruence|auto].
Qed.

Lemma aliasParameter_spec F s t s' : aliasParameter F s = Some (t, s') ->
  t = tt_ALIAS_PARAMETER /\ exists mid, Step s s' mid /\
    ((exists b, mid = b ++ [62] /\ ~ In 62 b) \/ (rest s' = [] /\ ~ In 62 mid)).
Proof.
  unfold aliasParameter. destruct (iter alias_body F tt s) as [[u s1]|] eqn:E; [|discriminate]. intros H. inv H. split; auto.
  destruct (alias_loop_spec _ _ _ _ _ E) as (mid & St & N62 & X).
  destruct (atEnd s1) eqn:A.
  - exists mid. split; auto. right. split; auto. apply atEnd_true; auto.
  - destruct X as [X|X]; [unfold atEnd in A; rewrite X in A; discriminate A|].
    destruct (peek_rest _ _ X) as [r R]. exists (mid ++ [62]). split; [|left; eauto].
    eapply Step_trans; eauto. eapply adv_Step; eauto. lia.
Qed.

Lemma aliasParameter_some F s : (length (rest s) < F)%nat -> aliasParameter F s <> None.
Proof.
  intros H. unfold aliasParameter. destruct (iter alias_body F tt s) as [[u s1]|] eqn:E; [discriminate|].
  exfalso. revert E. apply iter_some; auto. intros a s1 a1 s2 B.
  destruct (alias_body_step _ _ _ _ B) as (c & _ & [C _]). apply Cons_shorter in C. cbn in C. lia.
Qed.

(* ------------------------------------------------------------------------------------------- *)
(* facts about the regenerated tables (re-checked by computation whenever Gen/Tokens.v changes) *)
Definition special_types : list N :=
  [tt_ILLEGAL; tt_EOF; tt_IDENTIFIER; tt_ALIAS_PARAMETER; tt_COMMENT; tt_SYMBOL; tt_INT; tt_FLOAT; tt_STRING; tt_CHAR;
   tt_NEGATE; tt_DOT; tt_COMMA; tt_COLON; tt_LPAREN; tt_RPAREN; tt_ELIPSIS].
Fixpoint nodupb (l : list N) : bool :=
  match l with [] => true | x :: r => negb (existsb (N.eqb x) r) && nodupb r end.
Lemma special_types_distinct : nodupb special_types = true.
Proof. vm_compute. reflexivity. Qed.
Lemma keyword_values_not_special :
  forallb (fun kv => negb (existsb (N.eqb (snd kv)) special_types)) keyword_table = true.
Proof. vm_compute. reflexivity. Qed.

Ltac tt_neq := apply N.eqb_neq; vm_compute; reflexivity.

Lemma lookup_in tbl k v : lookup tbl k = Some v -> exists k', In (k', v) tbl.
Proof.
  induction tbl as [|[k' v'] tbl IH]; cbn; [discriminate|].
  destruct (list_eqb k k'); intros H; [inv H; eauto|]. destruct (IH H) as [k2 I]. eauto.
Qed.
Lemma lookup_not_special k v : lookup keyword_table k = Some v -> ~ In v special_types.
Proof.
  intros H. destruct (lookup_in _ _ _ H) as [k' I].
  pose proof keyword_values_not_special as T. rewrite forallb_forall in T. specialize (T _ I). cbn [snd] in T.
  intros J. apply negb_true_iff in T. assert (X : existsb (N.eqb v) special_types = true); [|congruence].
  apply existsb_exists. exists v. split; auto. apply N.eqb_refl.
Qed.

Lemma identifierType_cases l :
  (identifierType l = tt_IDENTIFIER /\ keyword_type l = None) \/
  (exists v, keyword_type l = Some v /\ identifierType l = v /\ ~ In v special_types).
Proof.
  unfold identifierType, keywordToTokenType, keyword_type.
  destruct (lookup keyword_table l) as [v|] eqn:L1.
  - right. exists v. pose proof (lookup_not_special _ _ L1) as NS. split; auto. split; auto.
    destruct (v =? tt_IDENTIFIER) eqn:E; auto. apply N.eqb_eq in E. exfalso. apply NS. subst. cbn. auto.
  - rewrite N.eqb_refl. destruct (lookup keyword_table (map toLower l)) as [v|] eqn:L2.
    + right. exists v. pose proof (lookup_not_special _ _ L2) as NS. split; auto. split; auto.
      destruct (v =? tt_IDENTIFIER) eqn:E; auto. apply N.eqb_eq in E. exfalso. apply NS. subst. cbn. auto.
    + left. rewrite N.eqb_refl. cbn. auto.
Qed.

Lemma identifierType_not t l : In t special_types -> t <> tt_IDENTIFIER -> identifierType l <> t.
Proof.
  intros I N. destruct (identifierType_cases l) as [[E _]|(v & _ & E & NS)]; rewrite E; congruence.
Qed.

(* ------------------------------------------------------------------------------------------- *)
(* sub-scanners *)
Lemma number_spec F s t s' : number F s = Some (t, s') ->
  exists mid, Step s s' mid /\
    ((t = tt_INT /\ Forall (fun c => isDigit c = true) mid) \/
     (t = tt_FLOAT /\ exists a b, mid = a ++ 44 :: b /\ Forall (fun c => isDigit c = true) a /\ digits b)).
Proof.
  unfold number. destruct (while_peek isDigit F s) as [s1|] eqn:W1; [|discriminate].
  destruct (while_peek_spec _ _ _ _ isDigit_not10 W1) as (m1 & St1 & D1 & X1).
  destruct (is (peek s1) 44 && sat (peekNext s1) isDigit) eqn:G.
  2:{ intros H. inv H. exists m1. split; auto. }
  destruct (while_peek isDigit F (adv s1)) as [s2|] eqn:W2; [|discriminate]. intros H. inv H.
  destruct (while_peek_spec _ _ _ _ isDigit_not10 W2) as (m2 & St2 & D2 & X2).
  apply andb_true_iff in G. destruct G as [G1 G2]. apply is_some in G1. destruct (peek_rest _ _ G1) as [r R].
  exists (m1 ++ [44] ++ m2). split.
  - eapply Step_trans; eauto. eapply Step_trans; eauto. eapply adv_Step; eauto. lia.
  - right. split; auto. exists m1, m2. split; auto. split; auto. split; auto.
    intros ->. destruct St2 as [[Rm _] _]. cbn in Rm.
    destruct (adv_fields _ _ _ R) as (R1 & _). rewrite R1 in Rm.
    destruct (sat_some _ _ G2) as (d & Pn & Dd). unfold peekNext in Pn. rewrite R in Pn.
    destruct r as [|d' r']; [cbn in Pn; discriminate Pn|]. inv Pn.
    unfold peek in X2. rewrite <- Rm in X2. cbn in X2. congruence.
Qed.

Lemma number_some F s : (length (rest s) < F)%nat -> number F s <> None.
Proof.
  intros H. unfold number. destruct (while_peek isDigit F s) as [s1|] eqn:W1.
  2:{ exfalso. revert W1. apply while_peek_some; auto. apply isDigit_not10. }
  destruct (while_peek_spec _ _ _ _ isDigit_not10 W1) as (m1 & [C1 _] & _). apply Cons_shorter in C1.
  destruct (is (peek s1) 44 && sat (peekNext s1) isDigit) eqn:G; [|discriminate].
  destruct (while_peek isDigit F (adv s1)) as [s2|] eqn:W2; [discriminate|].
  exfalso. revert W2. apply while_peek_some; [apply isDigit_not10|].
  apply andb_true_iff in G. destruct G as [G1 _]. apply is_some in G1. destruct (peek_rest _ _ G1) as [r R].
  destruct (adv_fields _ _ _ R) as (R1 & _). rewrite R1. rewrite R in C1. cbn in C1. lia.
Qed.

Lemma identifier_spec F s0 s t s' : identifier F s0 s = Some (t, s') ->
  t = identifierType (literal s0 s') /\ exists mid, Step s s' mid /\ Forall (fun c => isAlphaNumeric c = true) mid.
Proof.
  unfold identifier. destruct (while_peek isAlphaNumeric F s) as [s1|] eqn:W1; [|discriminate]. intros H. inv H.
  split; auto. destruct (while_peek_spec _ _ _ _ isAlphaNumeric_not10 W1) as (m1 & St1 & D1 & X1). eauto.
Qed.

Lemma identifier_some F s0 s : (length (rest s) < F)%nat -> identifier F s0 s <> None.
Proof.
  intros H. unfold identifier. destruct (while_peek isAlphaNumeric F s) as [s1|] eqn:W1; [discriminate|].
  exfalso. revert W1. apply while_peek_some; auto. apply isAlphaNumeric_not10.
Qed.

(* what dispatch consumes and how positions move *)
Lemma dispatch_spec m F s0 c s t s2 : dispatch m F s0 c s = Some (t, s2) -> c <> 10 ->
  exists mid, Cons s s2 mid /\ PosR s s2 mid /\ (t = tt_EOF -> False).
Proof.
  unfold dispatch. intros H Hc.
  destruct (isAlpha c).
  { destruct (identifier_spec _ _ _ _ _ H) as (T & mid & [C P] & _). exists mid. split; auto. split; auto.
    intros E. rewrite E in T. symmetry in T. revert T. apply identifierType_not; [cbn; auto|tt_neq]. }
  destruct (isDigit c).
  { destruct (number_spec _ _ _ _ H) as (mid & [C P] & [[T _]|[T _]]); exists mid; split; auto; split; auto; subst t; tt_neq. }
  destruct (c =? 45); [inv H; exists []; split; [apply Cons_refl|split; [apply PosR_refl|tt_neq]]|].
  destruct (c =? 46).
  { destruct (is (peek s) 46 && is (peekNext s) 46) eqn:G; inv H.
    - apply andb_true_iff in G. destruct G as [G1 G2]. apply is_some in G1. apply is_some in G2.
      destruct (peek_rest _ _ G1) as [r R]. unfold peekNext in G2. rewrite R in G2.
      destruct r as [|d r']; [cbn in G2; discriminate G2|]. inv G2.
      destruct (adv_fields _ _ _ R) as (R1 & _).
      exists ([46] ++ [46]). assert (St : Step s (adv (adv s)) ([46] ++ [46])).
      { eapply Step_trans; eapply adv_Step; eauto; lia. }
      destruct St. split; auto. split; auto. tt_neq.
    - exists []; split; [apply Cons_refl|split; [apply PosR_refl|tt_neq]]. }
  destruct (c =? 44); [inv H; exists []; split; [apply Cons_refl|split; [apply PosR_refl|tt_neq]]|].
  destruct (c =? 58); [inv H; exists []; split; [apply Cons_refl|split; [apply PosR_refl|tt_neq]]|].
  destruct (c =? 40); [inv H; exists []; split; [apply Cons_refl|split; [apply PosR_refl|tt_neq]]|].
  destruct (c =? 41); [inv H; exists []; split; [apply Cons_refl|split; [apply PosR_refl|tt_neq]]|].
  destruct (c =? 34).
  { apply quoted_spec in H; try lia. destruct H as (mid & [C P] & [[T _]|[T _]]); exists mid; split; auto; split; auto; subst t; tt_neq. }
  destruct (c =? 39).
  { apply quoted_spec in H; try lia. destruct H as (mid & [C P] & [[T _]|[T _]]); exists mid; split; auto; split; auto; subst t; tt_neq. }
  destruct (c =? 91).
  { apply comment_spec in H. destruct H as (T & mid & d & [C P] & _). exists mid; split; auto; split; auto; subst t; tt_neq. }
  destruct ((c =? 60) && match m with Alias => true | Normal => false end) eqn:G.
  { apply andb_true_iff in G. destruct G as [_ G]. destruct m; [discriminate G|].
    apply aliasParameter_spec in H. destruct H as (T & mid & [C P] & _). exists mid. split; auto. split; auto. subst t; tt_neq. }
  inv H. exists []; split; [apply Cons_refl|split; [apply PosR_refl|tt_neq]].
Qed.

Lemma dispatch_some m F s0 c s : (length (rest s) < F)%nat -> dispatch m F s0 c s <> None.
Proof.
  intros H. unfold dispatch.
  destruct (isAlpha c); [apply identifier_some; auto|].
  destruct (isDigit c); [apply number_some; auto|].
  destruct (c =? 45); [discriminate|].
  destruct (c =? 46); [destruct (is (peek s) 46 && is (peekNext s) 46); discriminate|].
  destruct (c =? 44); [discriminate|]. destruct (c =? 58); [discriminate|].
  destruct (c =? 40); [discriminate|]. destruct (c =? 41); [discriminate|].
  destruct (c =? 34); [apply quoted_some; auto; lia|].
  destruct (c =? 39); [apply quoted_some; auto; lia|].
  destruct (c =? 91); [apply comment_some; auto|].
  destruct ((c =? 60) && _); [apply aliasParameter_some; auto|discriminate].
Qed.

(* ------------------------------------------------------------------------------------------- *)
(* NextToken *)
Lemma nextToken_spec m F s t s' : nextToken m F s = Some (t, s') ->
  exists ws mid s0,
    Step s s0 ws /\ Forall blank ws /\ Cons s0 s' mid /\ PosR s0 s' mid /\
    t = mkToken (ty t) s0 s' /\
    ((mid = [] /\ rest s' = [] /\ ty t = tt_EOF) \/ (mid <> [] /\ ty t <> tt_EOF)).
Proof.
  unfold nextToken. destruct (skipWhitespace F s) as [s0|] eqn:W; [|discriminate].
  destruct (skipWhitespace_spec _ _ _ W) as (ws & St & B & NB).
  destruct (atEnd s0) eqn:A.
  - intros H. inv H. exists ws, [], s'. split; auto. split; auto. split; [apply Cons_refl|]. split; [apply PosR_refl|].
    split; [reflexivity|]. left. split; auto. split; auto. apply atEnd_true; auto.
  - destruct (atEnd_false _ A) as (c & r & R).
    assert (Ad : advance s0 = (c, adv s0)) by (unfold adv, advance; rewrite R; reflexivity). rewrite Ad.
    destruct (dispatch m F s0 c (adv s0)) as [[t0 s2]|] eqn:D; [|discriminate]. intros H. inv H.
    assert (Hc : c <> 10). { intros ->. apply (NB 10); [unfold peek; rewrite R; auto|right; right; right; auto]. }
    destruct (dispatch_spec _ _ _ _ _ _ _ D Hc) as (mid & C & P & NE).
    exists ws, ([c] ++ mid), s0. split; auto. split; auto.
    split; [eapply Cons_trans; eauto; eapply adv_Cons; eauto|].
    split; [|split; [reflexivity|right; split; [discriminate|cbn; intros E; apply NE; auto]]].
    eapply PosR_trans; eauto. eapply adv_PosR; eauto.
Qed.

Lemma nextToken_some m F s : (length (rest s) < F)%nat -> nextToken m F s <> None.
Proof.
  intros H. unfold nextToken. destruct (skipWhitespace F s) as [s0|] eqn:W.
  2:{ exfalso. revert W. apply skipWhitespace_some; auto. }
  destruct (skipWhitespace_spec _ _ _ W) as (ws & [C _] & _). apply Cons_shorter in C.
  destruct (atEnd s0) eqn:A; [discriminate|].
  destruct (atEnd_false _ A) as (c & r & R).
  assert (Ad : advance s0 = (c, adv s0)) by (unfold adv, advance; rewrite R; reflexivity). rewrite Ad.
  destruct (dispatch m F s0 c (adv s0)) as [[t0 s2]|] eqn:D; [discriminate|].
  exfalso. revert D. apply dispatch_some. destruct (adv_fields _ _ _ R) as (R1 & _). rewrite R1. rewrite R in C. cbn in C. lia.
Qed.

(* ------------------------------------------------------------------------------------------- *)
(* list facts *)
Lemma skipn_len_app (a b : list N) : skipn (length a) (a ++ b) = b.
Proof. induction a; cbn; auto. Qed.
Lemma firstn_len_app (a b : list N) : firstn (length a) (a ++ b) = a.
Proof. induction a; cbn; congruence. Qed.
Lemma sub_app pre x post a b : a = len pre -> b = len pre + len x -> sub (pre ++ x ++ post) a b = x.
Proof.
  intros -> ->. unfold sub, len.
  replace (N.to_nat (N.of_nat (length pre) + N.of_nat (length x) - N.of_nat (length pre))) with (length x) by lia.
  rewrite Nat2N.id, skipn_len_app, firstn_len_app. reflexivity.
Qed.
Lemma pos_of_app l0 c0 pre post a : a = len pre -> pos_of l0 c0 (pre ++ post) a = pos_after (l0, c0) pre.
Proof. intros ->. unfold pos_of, len. rewrite Nat2N.id, firstn_len_app. reflexivity. Qed.
Lemma len_app a b : len (a ++ b) = len a + len b.
Proof. unfold len. rewrite app_length. lia. Qed.

Lemma literal_mid s0 s' mid : Cons s0 s' mid -> literal s0 s' = mid.
Proof.
  intros [R C]. unfold literal. rewrite C, R. unfold len.
  replace (N.to_nat (cur s0 + N.of_nat (length mid) - cur s0)) with (length mid) by lia.
  apply firstn_len_app.
Qed.

(* ------------------------------------------------------------------------------------------- *)
(* ScanAll: fuel *)
Lemma scanAll_some m F : forall fuel s, (length (rest s) < F)%nat -> (length (rest s) < fuel)%nat -> scanAll m F fuel s <> None.
Proof.
  induction fuel as [|f IH]; intros s HF Hf; [lia|]. cbn.
  destruct (nextToken m F s) as [[t s']|] eqn:T; [|exfalso; revert T; apply nextToken_some; auto].
  destruct (ty t =? tt_EOF) eqn:E; [discriminate|].
  destruct (nextToken_spec _ _ _ _ _ T) as (ws & mid & s0 & [C0 _] & _ & C & _ & _ & [(_ & _ & X)|(X & _)]).
  - apply N.eqb_neq in E. congruence.
  - apply Cons_shorter in C0. apply Cons_shorter in C. destruct mid; [congruence|]. cbn in C.
    destruct (scanAll m F f s') eqn:R; [discriminate|]. exfalso. revert R. apply IH; lia.
Qed.

Theorem scan_fuel m l0 c0 i0 src : scan_from m l0 c0 i0 src <> None.
Proof. unfold scan_from. apply scanAll_some; cbn; lia. Qed.

(* ScanAll: exactly one EOF, at the end *)
Lemma scanAll_one_eof m F : forall fuel s ts, scanAll m F fuel s = Some ts ->
  exists body e, ts = body ++ [e] /\ ty e = tt_EOF /\ Forall (fun t => ty t <> tt_EOF) body.
Proof.
  induction fuel as [|f IH]; intros s ts H; [discriminate H|]. cbn in H.
  destruct (nextToken m F s) as [[t s']|]; [|discriminate H].
  destruct (ty t =? tt_EOF) eqn:E.
  - inv H. exists [], t. split; auto. split; [apply N.eqb_eq; auto|constructor].
  - destruct (scanAll m F f s') as [ts'|] eqn:R; [|discriminate H]. inv H.
    destruct (IH _ _ R) as (body & e & -> & Ee & Fb). exists (t :: body), e. split; auto. split; auto.
    constructor; auto. apply N.eqb_neq; auto.
Qed.

(* ScanAll: partition *)
Lemma scanAll_tiles m F src : forall fuel s ts pre, scanAll m F fuel s = Some ts ->
  src = pre ++ rest s -> cur s = len pre -> tiles src (cur s) ts.
Proof.
  induction fuel as [|f IH]; intros s ts pre H Hsrc Hcur; [discriminate H|]. cbn in H.
  destruct (nextToken m F s) as [[t s']|] eqn:T; [|discriminate H].
  destruct (nextToken_spec _ _ _ _ _ T) as (ws & mid & s0 & [[R0 C0] _] & B & [R1 C1] & _ & Tk & X).
  assert (Hs : src = pre ++ ws ++ mid ++ rest s') by (rewrite Hsrc, R0, R1; reflexivity).
  assert (HL : len src = len pre + len ws + len mid + len (rest s')) by (rewrite Hs, !len_app; lia).
  assert (TS : tstart t = cur s0) by (rewrite Tk; reflexivity).
  assert (TE : tend t = cur s') by (rewrite Tk; reflexivity).
  assert (Tail : (ty t =? tt_EOF) = true -> tiles src (tend t) []).
  { intros E. apply N.eqb_eq in E. destruct X as [(-> & Rs & _)|(_ & X)]; [|congruence].
    cbn. rewrite TE, C1, C0, Hcur, HL, Rs. unfold len; cbn; lia. }
  assert (Head : forall r, tiles src (tend t) r -> tiles src (cur s) (t :: r)).
  { intros r Hr. cbn. rewrite TS, TE.
    split; [lia|]. split; [lia|]. split; [lia|].
    split; [rewrite Hs; rewrite (sub_app pre ws (mid ++ rest s')); auto; lia|].
    split; [intros NE; destruct X as [(_ & _ & X)|(X & _)]; [congruence|]; destruct mid; [congruence|]; unfold len in C1; cbn in C1; lia|].
    split; [|rewrite <- TE; auto].
    intros NI. rewrite Tk. cbn [lit mkToken]. apply N.eqb_neq in NI. rewrite NI.
    rewrite (literal_mid s0 s' mid) by (split; auto).
    rewrite Hs, app_assoc. rewrite (sub_app (pre ++ ws) mid (rest s')); auto; rewrite len_app; lia. }
  destruct (ty t =? tt_EOF) eqn:E.
  - inv H. apply Head. apply Tail; auto.
  - destruct (scanAll m F f s') as [ts'|] eqn:R; [|discriminate H]. inv H. apply Head. rewrite TE.
    apply (IH s' ts' (pre ++ ws ++ mid)); auto.
    + rewrite Hs, <- !app_assoc. reflexivity.
    + rewrite C1, C0, Hcur, !len_app. lia.
Qed.

Theorem scan_partition m l0 c0 i0 src ts : scan_from m l0 c0 i0 src = Some ts -> tiles src 0 ts.
Proof.
  unfold scan_from. intros H. apply (scanAll_tiles _ _ src _ _ _ []) in H; auto.
Qed.

(* ScanAll: positions *)
Lemma scanAll_positions m F l0 c0 src : forall fuel s ts pre, scanAll m F fuel s = Some ts ->
  src = pre ++ rest s -> cur s = len pre -> (line s, col s) = pos_after (l0, c0) pre ->
  Forall (positioned l0 c0 src) ts.
Proof.
  induction fuel as [|f IH]; intros s ts pre H Hsrc Hcur Hpos; [discriminate H|]. cbn in H.
  destruct (nextToken m F s) as [[t s']|] eqn:T; [|discriminate H].
  destruct (nextToken_spec _ _ _ _ _ T) as (ws & mid & s0 & [[R0 C0] P0] & B & [R1 C1] & P & Tk & X).
  assert (Hs : src = pre ++ ws ++ mid ++ rest s') by (rewrite Hsrc, R0, R1; reflexivity).
  assert (Q0 : (line s0, col s0) = pos_after (l0, c0) (pre ++ ws)).
  { unfold PosR in P0. rewrite P0, Hpos. unfold pos_after. rewrite fold_left_app. reflexivity. }
  assert (Q1 : (line s', col s') = pos_after (l0, c0) (pre ++ ws ++ mid)).
  { unfold PosR in P. rewrite P, Q0. unfold pos_after. rewrite app_assoc, (fold_left_app _ (pre ++ ws)). reflexivity. }
  assert (Ht : positioned l0 c0 src t).
  { unfold positioned. rewrite Tk. cbn [sl sc el ec tstart tend mkToken]. split.
    - rewrite Q0. replace src with ((pre ++ ws) ++ mid ++ rest s') by (rewrite Hs, <- !app_assoc; reflexivity).
      symmetry. apply pos_of_app. rewrite C0, Hcur, len_app. reflexivity.
    - rewrite Q1. replace src with ((pre ++ ws ++ mid) ++ rest s') by (rewrite Hs, <- !app_assoc; reflexivity).
      symmetry. apply pos_of_app. rewrite C1, C0, Hcur, !len_app. lia. }
  destruct (ty t =? tt_EOF) eqn:E.
  - injection H as <-. constructor; [auto|constructor].
  - destruct (scanAll m F f s') as [ts'|] eqn:R; [|discriminate H]. injection H as <-. constructor; auto.
    apply (IH s' ts' (pre ++ ws ++ mid)); auto.
    + rewrite Hs, <- !app_assoc. reflexivity.
    + rewrite C1, C0, Hcur, !len_app. lia.
Qed.

Theorem scan_positions m l0 c0 i0 src ts : scan_from m l0 c0 i0 src = Some ts -> Forall (positioned l0 c0 src) ts.
Proof.
  unfold scan_from. intros H. apply (scanAll_positions _ _ l0 c0 src _ _ _ []) in H; auto.
Qed.

Theorem scan_one_eof m l0 c0 i0 src ts : scan_from m l0 c0 i0 src = Some ts ->
  exists body e, ts = body ++ [e] /\ ty e = tt_EOF /\ Forall (fun t => ty t <> tt_EOF) body.
Proof. unfold scan_from. apply scanAll_one_eof. Qed.
