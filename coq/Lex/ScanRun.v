(* C13 — the scanner entry points on bytes: UTF-8 gate (scanner.New), decoding, ScanAll.
   `Refused` is the error result of scanner.Scan / scanner.ScanAlias (tokens are nil). *)
From Coq Require Import List NArith Bool.
Import ListNotations.
From DDP Require Import Gen.Tokens Lex.Utf8 Lex.ScanModel.
Open Scope N_scope.

Inductive result := Refused | OutOfFuel | Toks (ts : list token).

Definition scan_bytes (m : mode) (l0 c0 i0 : N) (bs : list N) : result :=
  if valid bs then
    match scan_from m l0 c0 i0 (decode bs) with
    | Some ts => Toks ts
    | None => OutOfFuel
    end
  else Refused.

(* what the correspondence prints of a token: Literal as bytes *)
Definition lit_bytes (t : token) : list N := encode (lit t).
