(* C13 — the specification side: positions by counting, substrings, blanks, tiling of the source by
   token spans, lexical classes as predicates on literals, indentation depth of a line.
   Nothing here mentions the scanner state. Offsets are code-point offsets (N). *)
From Coq Require Import List NArith Bool.
Import ListNotations.
From DDP Require Import Gen.Tokens Lex.ScanModel.
Open Scope N_scope.

(* ---- positions ---- *)
Definition adv_pos (p : N * N) (c : N) : N * N :=
  if c =? 10 then (fst p + 1, 1) else (fst p, snd p + 1).
Definition pos_after (p : N * N) (l : list N) : N * N := fold_left adv_pos l p.
(* line/column of offset `off` of `src`, the first character being at line l0, column c0 *)
Definition pos_of (l0 c0 : N) (src : list N) (off : N) : N * N :=
  pos_after (l0, c0) (firstn (N.to_nat off) src).

Definition len (l : list N) : N := N.of_nat (length l).
Definition sub (src : list N) (a b : N) : list N := firstn (N.to_nat (b - a)) (skipn (N.to_nat a) src).

Definition blank (c : N) : Prop := c = 32 \/ c = 9 \/ c = 13 \/ c = 10.

(* ---- partition: the spans [tstart, tend) tile the source from offset `from` on ---- *)
Fixpoint tiles (src : list N) (from : N) (ts : list token) : Prop :=
  match ts with
  | [] => from = len src
  | t :: r =>
    from <= tstart t /\ tstart t <= tend t /\ tend t <= len src /\
    Forall blank (sub src from (tstart t)) /\                       (* the gap holds blanks only *)
    (ty t <> tt_EOF -> tstart t < tend t) /\                        (* no empty token but EOF *)
    (ty t <> tt_ILLEGAL -> lit t = sub src (tstart t) (tend t)) /\  (* literal = source substring *)
    tiles src (tend t) r
  end.

(* ---- positions of a token ---- *)
Definition positioned (l0 c0 : N) (src : list N) (t : token) : Prop :=
  (sl t, sc t) = pos_of l0 c0 src (tstart t) /\ (el t, ec t) = pos_of l0 c0 src (tend t).

(* ---- lexical classes ---- *)
Definition digits (l : list N) : Prop := l <> [] /\ Forall (fun c => isDigit c = true) l.
Definition word (l : list N) : Prop :=
  exists c r, l = c :: r /\ isAlpha c = true /\ Forall (fun c => isAlphaNumeric c = true) r.

(* body of a text/character literal: ( [^q\] | \ any )*  *)
Inductive qbody (q : N) : list N -> Prop :=
| qb_nil : qbody q []
| qb_plain c r : c <> q -> c <> 92 -> qbody q r -> qbody q (c :: r)
| qb_esc c r : qbody q r -> qbody q (92 :: c :: r).
Definition quoted_lit (q : N) (l : list N) : Prop := exists b, l = q :: b ++ [q] /\ qbody q b.
(* an unterminated literal: the rest of the source has no closing quote *)
Inductive qopen (q : N) : list N -> Prop :=
| qo_nil : qopen q []
| qo_bs : qopen q [92]
| qo_plain c r : c <> q -> c <> 92 -> qopen q r -> qopen q (c :: r)
| qo_esc c r : qopen q r -> qopen q (92 :: c :: r).

(* bracket depth after a prefix, starting from depth d; None once the depth has reached 0 before the end *)
Fixpoint depth_after (d : N) (l : list N) : option N :=
  match l with
  | [] => Some d
  | c :: r => if d =? 0 then None
              else depth_after (if c =? 91 then d + 1 else if c =? 93 then d - 1 else d) r
  end.

Definition keyword_type (l : list N) : option N :=
  match lookup keyword_table l with
  | Some t => Some t
  | None => lookup keyword_table (map toLower l)
  end.

(* the class of a token, by type *)
Definition kind_ok (m : mode) (src : list N) (t : token) : Prop :=
  let l := sub src (tstart t) (tend t) in
  (ty t = tt_EOF /\ l = []) \/
  (ty t = tt_INT /\ digits l) \/
  (ty t = tt_FLOAT /\ exists a b, l = a ++ 44 :: b /\ digits a /\ digits b) \/
  (ty t = tt_IDENTIFIER /\ word l /\ keyword_type l = None) \/
  (word l /\ keyword_type l = Some (ty t)) \/
  (ty t = tt_STRING /\ quoted_lit 34 l) \/
  (ty t = tt_CHAR /\ quoted_lit 39 l) \/
  (ty t = tt_ILLEGAL /\ tend t = len src /\ exists q b, (q = 34 \/ q = 39) /\ l = q :: b /\ qopen q b) \/
  (ty t = tt_COMMENT /\ exists b, l = 91 :: b /\
     (depth_after 1 b = Some 0 \/ (tend t = len src /\ exists d, depth_after 1 b = Some d /\ 0 < d))) \/
  (ty t = tt_ALIAS_PARAMETER /\ m = Alias /\ exists b, l = 60 :: b /\
     ((exists b', b = b' ++ [62] /\ ~ In 62 b') \/ (tend t = len src /\ ~ In 62 b))) \/
  (ty t = tt_NEGATE /\ l = [45]) \/ (ty t = tt_DOT /\ l = [46]) \/ (ty t = tt_ELIPSIS /\ l = [46; 46; 46]) \/
  (ty t = tt_COMMA /\ l = [44]) \/ (ty t = tt_COLON /\ l = [58]) \/
  (ty t = tt_LPAREN /\ l = [40]) \/ (ty t = tt_RPAREN /\ l = [41]) \/
  (ty t = tt_SYMBOL /\ exists c, l = [c] /\ isAlpha c = false /\ isDigit c = false /\ ~ blank c /\
     ~ In c [45; 46; 44; 58; 40; 41; 34; 39; 91] /\ (c = 60 -> m = Normal)).

(* ---- indentation ---- *)
(* depth of the blank run at the start of a line: tabs + completed groups of four consecutive spaces;
   `run` = spaces seen since the last group / non-space *)
Fixpoint indent_run (run : N) (l : list N) : N :=
  match l with
  | c :: r =>
    if c =? 32 then (if run + 1 =? 4 then 1 + indent_run 0 r else indent_run (run + 1) r)
    else if c =? 9 then 1 + indent_run 0 r
    else if c =? 13 then indent_run 0 r
    else 0
  | [] => 0
  end.
(* offset of the start of the line that contains offset `off` (the character after the last LF before off) *)
Fixpoint line_start_aux (l : list N) (pos ls : N) (n : nat) : N :=
  match n, l with
  | S n', c :: r => line_start_aux r (pos + 1) (if c =? 10 then pos + 1 else ls) n'
  | _, _ => ls
  end.
Definition line_start (src : list N) (off : N) : N := line_start_aux src 0 0 (N.to_nat off).
