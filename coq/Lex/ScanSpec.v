(* C13 — the specification side: positions by counting, substrings, blanks, tiling of the source by
   token spans, lexical classes as predicates on literals, indentation depth of a line.
   Nothing here mentions the scanner state. Offsets are code-point offsets (N). *)
From Coq Require Import List NArith Bool.
Import ListNotations.
From DDP Require Import Gen.Tokens Lex.ScanModel.
Open Scope N_scope.

(* ---- positions ---- *)
Definition adv_pos (p : N * N) (c : N) : N * N :=
  if c =? 10 then (fst p + 1, 1) else (fst p, snd p + 1).
Definition pos_after (p : N * N) (l : list N) : N * N := fold_left adv_pos l p.
(* line/column of offset `off` of `src`, the first character being at line l0, column c0 *)
Definition pos_of (l0 c0 : N) (src : list N) (off : N) : N * N :=
  pos_after (l0, c0) (firstn (N.to_nat off) src).

Definition len (l : list N) : N := N.of_nat (length l).
Definition sub (src : list N) (a b : N) : list N := firstn (N.to_nat (b - a)) (skipn (N.to_nat a) src).

Definition blank (c : N) : Prop := c = 32 \/ c = 9 \/ c = 13 \/ c = 10.

(* ---- partition: the spans [tstart, tend) tile the source from offset `from` on ---- *)
Fixpoint tiles (src : list N) (from : N) (ts : list token) : Prop :=
  match ts with
  | [] => from = len src
  | t :: r =>
    from <= tstart t /\ tstart t <= tend t /\ tend t <= len src /\
    Forall blank (sub src from (tstart t)) /\                       (* the gap holds blanks only *)
    (ty t <> tt_EOF -> tstart t < tend t) /\                        (* no empty token but EOF *)
    (ty t <> tt_ILLEGAL -> lit t = sub src (tstart t) (tend t)) /\  (* literal = source substring *)
    tiles src (tend t) r
  end.

(* ---- positions of a token ---- *)
Definition positioned (l0 c0 : N) (src : list N) (t : token) : Prop :=
  (sl t, sc t) = pos_of l0 c0 src (tstart t) /\ (el t, ec t) = pos_of l0 c0 src (tend t).

(* ---- lexical classes ---- *)
Definition digits (l : list N) : Prop := l <> [] /\ Forall (fun c => isDigit c = true) l.
Definition word (l : list N) : Prop :=
  exists c r, l = c :: r /\ isAlpha c = true /\ Forall (fun c => isAlphaNumeric c = true) r.

(* body of a text/character literal: ( [^q\] | \ any )*  *)
Inductive qbody (q : N) : list N -> Prop :=
| qb_nil : qbody q []
| qb_plain c r : c <> q -> c <> 92 -> qbody q r -> qbody q (c :: r)
| qb_esc c r : qbody q r -> qbody q (92 :: c :: r).
Definition quoted_lit (q : N) (l : list N) : Prop := exists b, l = q :: b ++ [q] /\ qbody q b.
(* an unterminated literal: the rest of the source has no closing quote *)
Inductive qopen (q : N) : list N -> Prop :=
| qo_nil : qopen q []
| qo_bs : qopen q [92]
| qo_plain c r : c <> q -> c <> 92 -> qopen q r -> qopen q (c :: r)
| qo_esc c r : qopen q r -> qopen q (92 :: c :: r).

(* bracket depth after a prefix, starting from depth d; None once the depth has reached 0 before the end *)
Fixpoint depth_after (d : N) (l : list N) : option N :=
  match l with
  | [] => Some d
  | c :: r => if d =? 0 then None
              else depth_after (if c =? 91 then d + 1 else if c =? 93 then d - 1 else d) r
  end.

Definition keyword_type (l : list N) : option N :=
  match lookup keyword_table l with
  | Some t => Some t
  | None => lookup keyword_table (map toLower l)
  end.

(* the lexical rules: which (type, literal) pairs are tokens. `atend` = the literal reaches the end of
   the source (only an unterminated text/character literal, comment or alias parameter may rely on it) *)
Inductive class_ok (m : mode) (atend : Prop) : N -> list N -> Prop :=
| K_eof : class_ok m atend tt_EOF []
| K_int l : digits l -> class_ok m atend tt_INT l
| K_float a b : digits a -> digits b -> class_ok m atend tt_FLOAT (a ++ 44 :: b)
| K_ident l : word l -> keyword_type l = None -> class_ok m atend tt_IDENTIFIER l
| K_keyword l v : word l -> keyword_type l = Some v -> class_ok m atend v l
| K_string l : quoted_lit 34 l -> class_ok m atend tt_STRING l
| K_char l : quoted_lit 39 l -> class_ok m atend tt_CHAR l
| K_illegal q b : q = 34 \/ q = 39 -> qopen q b -> atend -> class_ok m atend tt_ILLEGAL (q :: b)
| K_comment b d : depth_after 1 b = Some d -> d = 0 \/ atend -> class_ok m atend tt_COMMENT (91 :: b)
| K_apar b : m = Alias -> ~ In 62 b -> class_ok m atend tt_ALIAS_PARAMETER (60 :: b ++ [62])
| K_apar_open b : m = Alias -> ~ In 62 b -> atend -> class_ok m atend tt_ALIAS_PARAMETER (60 :: b)
| K_negate : class_ok m atend tt_NEGATE [45]
| K_dot : class_ok m atend tt_DOT [46]
| K_elipsis : class_ok m atend tt_ELIPSIS [46; 46; 46]
| K_comma : class_ok m atend tt_COMMA [44]
| K_colon : class_ok m atend tt_COLON [58]
| K_lparen : class_ok m atend tt_LPAREN [40]
| K_rparen : class_ok m atend tt_RPAREN [41]
| K_symbol c : isAlpha c = false -> isDigit c = false -> ~ blank c ->
               ~ In c [45; 46; 44; 58; 40; 41; 34; 39; 91] -> (c = 60 -> m = Normal) ->
               class_ok m atend tt_SYMBOL [c].

Definition kind_ok (m : mode) (src : list N) (t : token) : Prop :=
  class_ok m (tend t = len src) (ty t) (sub src (tstart t) (tend t)).

(* ---- indentation ---- *)
(* depth of a run of blanks at the start of a line: tabs + completed groups of four consecutive
   spaces; `run` = spaces seen since the last completed group / tab / carriage return *)
Fixpoint indent_run (run : N) (l : list N) : N :=
  match l with
  | c :: r =>
    if c =? 32 then (if run + 1 =? 4 then 1 + indent_run 0 r else indent_run (run + 1) r)
    else if c =? 9 then 1 + indent_run 0 r
    else if c =? 13 then indent_run 0 r
    else 0
  | [] => 0
  end.
Definition has_lf (l : list N) : bool := existsb (N.eqb 10) l.
(* what follows the last line feed of l (l itself if it has none) *)
Fixpoint after_last_lf (l : list N) : list N :=
  match l with
  | [] => []
  | c :: r => if has_lf r then after_last_lf r else if c =? 10 then r else c :: r
  end.

(* Indent of every token, along the stream: a token that spans a line break has depth 0; otherwise,
   if a line break separates it from the previous token, the depth of the blanks between that line
   break and the token; otherwise the depth of the previous token (before the first token: the base
   depth i0 of ScanAlias plus the depth of the leading blanks).
   prev_end = end of the previous token, d = its depth, first = no token yet. *)
Fixpoint indents (src : list N) (first : bool) (prev_end d : N) (ts : list token) : Prop :=
  match ts with
  | [] => True
  | t :: r =>
    let gap := sub src prev_end (tstart t) in
    let body := sub src (tstart t) (tend t) in
    let d1 := if has_lf gap then indent_run 0 (after_last_lf gap)
              else if first then d + indent_run 0 gap else d in
    let d2 := if has_lf body then 0 else d1 in
    tindent t = d2 /\ indents src false (tend t) d2 r
  end.

(* ---- the token that starts a (blank-free) source suffix, by the lexical rules alone ----
   `rest` = the source from a token start on. first_token m rest ty l: l is a prefix of rest, (ty, l) is an
   instance of a lexical rule, and l is maximal: a word/number is not followed by a character that would
   extend it, an INT is not followed by `,` digit (that is a FLOAT), `.` is not the start of `...`, and the
   empty literal (EOF) only at the end. Used in both directions: every scanned token is the first_token of
   its suffix, and whatever is a first_token of that suffix is the scanned token (C13_kind_complete). *)
Definition hd_sat (l : list N) (p : N -> bool) : bool := match l with c :: _ => p c | [] => false end.
Definition maximal (l tail : list N) : Prop :=
  (l = [] -> tail = []) /\
  (forall c r, l = c :: r -> isAlpha c = true -> hd_sat tail isAlphaNumeric = false) /\
  (forall c r, l = c :: r -> isDigit c = true -> hd_sat tail isDigit = false) /\
  (digits l -> forall d t', tail = 44 :: d :: t' -> isDigit d = false) /\
  (l = [46] -> forall t', tail <> 46 :: 46 :: t').
Definition first_token (m : mode) (rest : list N) (ty : N) (l : list N) : Prop :=
  exists tail, rest = l ++ tail /\ class_ok m (tail = []) ty l /\ maximal l tail.
