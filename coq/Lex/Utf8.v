(* UTF-8 on byte lists (bytes as N): the gate of scanner.New (utf8.Valid), the decoding the scanner
   performs rune by rune (utf8.DecodeRune on valid input) and the encoding used to print literals
   (utf8.AppendRune: invalid code points are written as U+FFFD). Definitions only. *)
From Coq Require Import List NArith Bool.
Import ListNotations.
Open Scope N_scope.

Definition inr (lo hi b : N) : bool := (lo <=? b) && (b <=? hi).
Definition cont (b : N) : bool := inr 128 191 b.

(* second-byte range of a 3/4-byte sequence by leading byte (table `acceptRanges` of unicode/utf8) *)
Definition ok3 (b0 b1 : N) : bool :=
  if b0 =? 224 then inr 160 191 b1
  else if b0 =? 237 then inr 128 159 b1
  else inr 224 239 b0 && cont b1.
Definition ok4 (b0 b1 : N) : bool :=
  if b0 =? 240 then inr 144 191 b1
  else if b0 =? 244 then inr 128 143 b1
  else inr 240 244 b0 && cont b1.

Fixpoint valid (bs : list N) : bool :=
  match bs with
  | [] => true
  | b0 :: r0 =>
    if b0 <? 128 then valid r0
    else match r0 with
    | [] => false
    | b1 :: r1 =>
      if inr 194 223 b0 then cont b1 && valid r1
      else match r1 with
      | [] => false
      | b2 :: r2 =>
        if inr 224 239 b0 then ok3 b0 b1 && cont b2 && valid r2
        else match r2 with
        | [] => false
        | b3 :: r3 => ok4 b0 b1 && cont b2 && cont b3 && valid r3
        end
      end
    end
  end.

(* decoding of a valid byte list; on an ill-formed tail it stops (never reached behind the gate) *)
Fixpoint decode (bs : list N) : list N :=
  match bs with
  | [] => []
  | b0 :: r0 =>
    if b0 <? 128 then b0 :: decode r0
    else match r0 with
    | [] => []
    | b1 :: r1 =>
      if b0 <? 224 then ((b0 - 192) * 64 + (b1 - 128)) :: decode r1
      else match r1 with
      | [] => []
      | b2 :: r2 =>
        if b0 <? 240 then ((b0 - 224) * 4096 + (b1 - 128) * 64 + (b2 - 128)) :: decode r2
        else match r2 with
        | [] => []
        | b3 :: r3 => ((b0 - 240) * 262144 + (b1 - 128) * 4096 + (b2 - 128) * 64 + (b3 - 128)) :: decode r3
        end
      end
    end
  end.

Definition scalar (c : N) : bool := (c <? 55296) || ((57343 <? c) && (c <? 1114112)).

Definition encode1 (c : N) : list N :=
  if c <? 128 then [c]
  else if c <? 2048 then [192 + c / 64; 128 + c mod 64]
  else if negb (scalar c) then [239; 191; 189]
  else if c <? 65536 then [224 + c / 4096; 128 + (c / 64) mod 64; 128 + c mod 64]
  else [240 + c / 262144; 128 + (c / 4096) mod 64; 128 + (c / 64) mod 64; 128 + c mod 64].
Definition encode (cps : list N) : list N := flat_map encode1 cps.
