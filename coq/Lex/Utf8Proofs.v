(* UTF-8 gate: `valid` accepts exactly the images of `encode`; decode and encode are mutually inverse
   on valid bytes / scalar values. *)
From Coq Require Import ZArith NArith List Bool Lia ZifyBool.
Import ListNotations.
From DDP Require Import Lex.Utf8.
Open Scope N_scope.

Ltac Zify.zify_post_hook ::= Z.to_euclidean_division_equations.

Lemma split2 x y : y < 64 -> (x * 64 + y) / 64 = x /\ (x * 64 + y) mod 64 = y.
Proof. intros. split; [symmetry; apply (N.div_unique _ _ _ y); lia | symmetry; apply (N.mod_unique _ _ x); lia]. Qed.
Lemma split3 x y z : y < 64 -> z < 64 ->
  let cp := x * 4096 + y * 64 + z in cp / 4096 = x /\ (cp / 64) mod 64 = y /\ cp mod 64 = z.
Proof.
  intros Hy Hz cp. subst cp.
  assert (D : (x * 4096 + y * 64 + z) / 64 = x * 64 + y) by (symmetry; apply (N.div_unique _ _ _ z); lia).
  split; [symmetry; apply (N.div_unique _ _ _ (y * 64 + z)); lia|]. rewrite D.
  split; [symmetry; apply (N.mod_unique _ _ x); lia | symmetry; apply (N.mod_unique _ _ (x * 64 + y)); lia].
Qed.
Lemma split4 w x y z : x < 64 -> y < 64 -> z < 64 ->
  let cp := w * 262144 + x * 4096 + y * 64 + z in
  cp / 262144 = w /\ (cp / 4096) mod 64 = x /\ (cp / 64) mod 64 = y /\ cp mod 64 = z.
Proof.
  intros Hx Hy Hz cp. subst cp.
  assert (D1 : (w * 262144 + x * 4096 + y * 64 + z) / 64 = w * 4096 + x * 64 + y) by (symmetry; apply (N.div_unique _ _ _ z); lia).
  assert (D2 : (w * 262144 + x * 4096 + y * 64 + z) / 4096 = w * 64 + x) by (symmetry; apply (N.div_unique _ _ _ (y * 64 + z)); lia).
  split; [symmetry; apply (N.div_unique _ _ _ (x * 4096 + y * 64 + z)); lia|]. rewrite D1, D2.
  split; [symmetry; apply (N.mod_unique _ _ w); lia|].
  split; [symmetry; apply (N.mod_unique _ _ (w * 64 + x)); lia | symmetry; apply (N.mod_unique _ _ (w * 4096 + x * 64 + y)); lia].
Qed.

Lemma inr_iff lo hi b : inr lo hi b = true <-> lo <= b <= hi.
Proof. unfold inr. lia. Qed.

(* ---- valid bytes are the encoding of their decoding ---- *)
Lemma enc2 b0 b1 : inr 194 223 b0 = true -> cont b1 = true ->
  encode1 ((b0 - 192) * 64 + (b1 - 128)) = [b0; b1].
Proof.
  unfold cont. rewrite !inr_iff. intros H0 H1.
  assert (exists x y, b0 = 192 + x /\ b1 = 128 + y /\ 2 <= x < 32 /\ y < 64) as (x & y & -> & -> & Hx & Hy)
    by (exists (b0 - 192), (b1 - 128); lia).
  replace (192 + x - 192) with x by lia. replace (128 + y - 128) with y by lia.
  destruct (split2 x y Hy) as [D M]. unfold encode1.
  replace (x * 64 + y <? 128) with false by lia. replace (x * 64 + y <? 2048) with true by lia.
  rewrite D, M. reflexivity.
Qed.

Lemma enc3 b0 b1 b2 : inr 224 239 b0 = true -> ok3 b0 b1 = true -> cont b2 = true ->
  encode1 ((b0 - 224) * 4096 + (b1 - 128) * 64 + (b2 - 128)) = [b0; b1; b2].
Proof.
  unfold ok3, cont. rewrite !inr_iff. intros H0 H1 H2.
  assert (exists x y z, b0 = 224 + x /\ b1 = 128 + y /\ b2 = 128 + z /\ x < 16 /\ y < 64 /\ z < 64 /\
            (x = 0 -> 32 <= y) /\ (x = 13 -> y < 32)) as (x & y & z & -> & -> & -> & Hx & Hy & Hz & Hlo & Hsur).
  { exists (b0 - 224), (b1 - 128), (b2 - 128).
    destruct (b0 =? 224) eqn:E1; [rewrite inr_iff in H1; lia|].
    destruct (b0 =? 237) eqn:E2; [rewrite inr_iff in H1; lia|].
    rewrite andb_true_iff, !inr_iff in H1. lia. }
  replace (224 + x - 224) with x by lia. replace (128 + y - 128) with y by lia. replace (128 + z - 128) with z by lia.
  destruct (split3 x y z Hy Hz) as (D1 & D2 & D3). unfold encode1, scalar.
  set (cp := x * 4096 + y * 64 + z) in *.
  assert (Hcp : 2048 <= cp < 65536 /\ (cp < 55296 \/ 57343 < cp)) by (subst cp; lia).
  replace (cp <? 128) with false by lia. replace (cp <? 2048) with false by lia.
  replace (negb ((cp <? 55296) || (57343 <? cp) && (cp <? 1114112))) with false by lia.
  replace (cp <? 65536) with true by lia.
  rewrite D1, D2, D3. reflexivity.
Qed.

Lemma enc4 b0 b1 b2 b3 : ok4 b0 b1 = true -> cont b2 = true -> cont b3 = true -> inr 224 239 b0 = false -> inr 194 223 b0 = false -> (b0 <? 128) = false ->
  encode1 ((b0 - 240) * 262144 + (b1 - 128) * 4096 + (b2 - 128) * 64 + (b3 - 128)) = [b0; b1; b2; b3].
Proof.
  unfold ok4, cont. rewrite !inr_iff. intros H1 H2 H3 N1 N2 N3.
  assert (exists w x y z, b0 = 240 + w /\ b1 = 128 + x /\ b2 = 128 + y /\ b3 = 128 + z /\ w < 5 /\ x < 64 /\ y < 64 /\ z < 64 /\
            (w = 0 -> 16 <= x) /\ (w = 4 -> x < 16)) as (w & x & y & z & -> & -> & -> & -> & Hw & Hx & Hy & Hz & Hlo & Hhi).
  { exists (b0 - 240), (b1 - 128), (b2 - 128), (b3 - 128).
    destruct (b0 =? 240) eqn:E1; [rewrite inr_iff in H1; lia|].
    destruct (b0 =? 244) eqn:E2; [rewrite inr_iff in H1; lia|].
    rewrite andb_true_iff, !inr_iff in H1. lia. }
  replace (240 + w - 240) with w by lia. replace (128 + x - 128) with x by lia.
  replace (128 + y - 128) with y by lia. replace (128 + z - 128) with z by lia.
  destruct (split4 w x y z Hx Hy Hz) as (D1 & D2 & D3 & D4). unfold encode1, scalar.
  set (cp := w * 262144 + x * 4096 + y * 64 + z) in *.
  assert (Hcp : 65536 <= cp < 1114112) by (subst cp; lia).
  replace (cp <? 128) with false by lia. replace (cp <? 2048) with false by lia.
  replace (negb ((cp <? 55296) || (57343 <? cp) && (cp <? 1114112))) with false by lia.
  replace (cp <? 65536) with false by lia.
  rewrite D1, D2, D3, D4. reflexivity.
Qed.

Lemma valid_encode_decode_n : forall n bs, (length bs <= n)%nat -> valid bs = true -> encode (decode bs) = bs.
Proof.
  induction n as [|n IH]; intros bs L V.
  { destruct bs; [reflexivity|cbn in L; lia]. }
  destruct bs as [|b0 r0]; [reflexivity|]. cbn [valid decode] in *.
  destruct (b0 <? 128) eqn:E0.
  { cbn [encode flat_map]. unfold encode1. rewrite E0. cbn [app]. f_equal. apply IH; auto. cbn in L; lia. }
  destruct r0 as [|b1 r1]; [discriminate V|].
  destruct (inr 194 223 b0) eqn:E2.
  { apply andb_true_iff in V. destruct V as [V1 V]. replace (b0 <? 224) with true by (rewrite inr_iff in E2; lia).
    cbn [encode flat_map]. rewrite enc2; auto. cbn [app]. do 2 f_equal. apply IH; auto. cbn in L; lia. }
  destruct r1 as [|b2 r2]; [discriminate V|].
  destruct (inr 224 239 b0) eqn:E3.
  { apply andb_true_iff in V. destruct V as [V V3]. apply andb_true_iff in V. destruct V as [V1 V2].
    replace (b0 <? 224) with false by (rewrite inr_iff in E3; lia). replace (b0 <? 240) with true by (rewrite inr_iff in E3; lia).
    cbn [encode flat_map]. rewrite enc3; auto. cbn [app]. do 3 f_equal. apply IH; auto. cbn in L; lia. }
  destruct r2 as [|b3 r3]; [discriminate V|].
  apply andb_true_iff in V. destruct V as [V V4]. apply andb_true_iff in V. destruct V as [V V3]. apply andb_true_iff in V. destruct V as [V1 V2].
  assert (B : 240 <= b0 <= 244).
  { unfold ok4 in V1. destruct (b0 =? 240) eqn:X1; [lia|]. destruct (b0 =? 244) eqn:X2; [lia|]. rewrite andb_true_iff, inr_iff in V1. lia. }
  replace (b0 <? 224) with false by lia. replace (b0 <? 240) with false by lia.
  cbn [encode flat_map]. rewrite enc4; auto. cbn [app]. do 4 f_equal. apply IH; auto. cbn in L; lia.
Qed.

Lemma valid_encode_decode bs : valid bs = true -> encode (decode bs) = bs.
Proof. apply (valid_encode_decode_n (length bs)). lia. Qed.

(* ---- every encoding is valid ---- *)
Lemma valid_encode1_app c r : valid (encode1 c ++ r) = valid r.
Proof.
  unfold encode1.
  destruct (c <? 128) eqn:E1. { cbn [app valid]. rewrite E1. reflexivity. }
  destruct (c <? 2048) eqn:E2.
  { remember (192 + c / 64) as b0. remember (128 + c mod 64) as b1.
    assert (B0 : 194 <= b0 <= 223) by lia. assert (B1 : 128 <= b1 <= 191) by lia.
    cbn [app valid]. replace (b0 <? 128) with false by lia.
    replace (inr 194 223 b0) with true by (symmetry; apply inr_iff; lia).
    unfold cont. replace (inr 128 191 b1) with true by (symmetry; apply inr_iff; lia). reflexivity. }
  destruct (negb (scalar c)) eqn:E3. { cbn. reflexivity. }
  apply negb_false_iff in E3. unfold scalar in E3.
  destruct (c <? 65536) eqn:E4.
  { remember (224 + c / 4096) as b0. remember (128 + (c / 64) mod 64) as b1. remember (128 + c mod 64) as b2.
    assert (B0 : 224 <= b0 <= 239) by lia. assert (B1 : 128 <= b1 <= 191) by lia. assert (B2 : 128 <= b2 <= 191) by lia.
    assert (B3 : (b0 = 224 -> 160 <= b1) /\ (b0 = 237 -> b1 <= 159)) by lia.
    cbn [app valid]. replace (b0 <? 128) with false by lia.
    replace (inr 194 223 b0) with false by (symmetry; apply not_true_iff_false; rewrite inr_iff; lia).
    replace (inr 224 239 b0) with true by (symmetry; apply inr_iff; lia).
    unfold cont. replace (inr 128 191 b2) with true by (symmetry; apply inr_iff; lia).
    replace (ok3 b0 b1) with true; [reflexivity|]. symmetry. unfold ok3, cont.
    destruct (b0 =? 224) eqn:X1; [apply inr_iff; lia|]. destruct (b0 =? 237) eqn:X2; [apply inr_iff; lia|].
    apply andb_true_iff. rewrite !inr_iff. lia. }
  remember (240 + c / 262144) as b0. remember (128 + (c / 4096) mod 64) as b1.
  remember (128 + (c / 64) mod 64) as b2. remember (128 + c mod 64) as b3.
  assert (B0 : 240 <= b0 <= 244) by lia. assert (B1 : 128 <= b1 <= 191) by lia.
  assert (B2 : 128 <= b2 <= 191) by lia. assert (B3 : 128 <= b3 <= 191) by lia.
  assert (B4 : (b0 = 240 -> 144 <= b1) /\ (b0 = 244 -> b1 <= 143)) by lia.
  cbn [app valid]. replace (b0 <? 128) with false by lia.
  replace (inr 194 223 b0) with false by (symmetry; apply not_true_iff_false; rewrite inr_iff; lia).
  replace (inr 224 239 b0) with false by (symmetry; apply not_true_iff_false; rewrite inr_iff; lia).
  unfold cont. replace (inr 128 191 b2) with true by (symmetry; apply inr_iff; lia).
  replace (inr 128 191 b3) with true by (symmetry; apply inr_iff; lia).
  replace (ok4 b0 b1) with true; [reflexivity|]. symmetry. unfold ok4, cont.
  destruct (b0 =? 240) eqn:X1; [apply inr_iff; lia|]. destruct (b0 =? 244) eqn:X2; [apply inr_iff; lia|].
  apply andb_true_iff. rewrite !inr_iff. lia.
Qed.

Lemma valid_encode cps : valid (encode cps) = true.
Proof. induction cps as [|c r IH]; [reflexivity|]. cbn [encode flat_map]. rewrite valid_encode1_app. exact IH. Qed.

Theorem utf8_gate bs : valid bs = true <-> exists cps, encode cps = bs.
Proof.
  split.
  - intros V. exists (decode bs). apply valid_encode_decode; auto.
  - intros [cps <-]. apply valid_encode.
Qed.

(* ---- decoding undoes encoding on scalar values ---- *)
Lemma decode_encode1_app c r : scalar c = true -> decode (encode1 c ++ r) = c :: decode r.
Proof.
  intros S. unfold encode1. rewrite S. cbn [negb]. unfold scalar in S.
  destruct (c <? 128) eqn:E1. { cbn [app decode]. rewrite E1. reflexivity. }
  destruct (c <? 2048) eqn:E2.
  { remember (192 + c / 64) as b0. remember (128 + c mod 64) as b1.
    cbn [app decode]. replace (b0 <? 128) with false by lia. replace (b0 <? 224) with true by lia.
    f_equal. subst. lia. }
  destruct (c <? 65536) eqn:E4.
  { remember (224 + c / 4096) as b0. remember (128 + (c / 64) mod 64) as b1. remember (128 + c mod 64) as b2.
    cbn [app decode]. replace (b0 <? 128) with false by lia. replace (b0 <? 224) with false by lia. replace (b0 <? 240) with true by lia.
    f_equal. subst. lia. }
  remember (240 + c / 262144) as b0. remember (128 + (c / 4096) mod 64) as b1.
  remember (128 + (c / 64) mod 64) as b2. remember (128 + c mod 64) as b3.
  cbn [app decode]. replace (b0 <? 128) with false by lia. replace (b0 <? 224) with false by lia. replace (b0 <? 240) with false by lia.
  f_equal. subst. lia.
Qed.

Theorem decode_encode cps : forallb scalar cps = true -> decode (encode cps) = cps.
Proof.
  induction cps as [|c r IH]; [reflexivity|]. cbn [forallb encode flat_map]. intros H. apply andb_true_iff in H. destruct H as [S H].
  rewrite decode_encode1_app; auto. f_equal. auto.
Qed.
