(* C17 — value-level model of the DDP language constructs the Duden bodies are written with.
   res: Ok v | Err (Laufzeitfehler) | NoFuel (a fuel-bounded loop ran out: excluded by lemmas in
   the proof files) | Undef (behaviour outside this model, e.g. `n Mal x` with negative n, where
   the runtime builds a list of negative length; never compared with the executable).
   Zahl arithmetic on VALUES wraps (wrap64); index/counter arithmetic is plain Z (lengths are
   far below 2^63).  Texts are lists of code points (Z), Buchstabe = Z, Wahrheitswert = bool.
   Index and slice operators: as compiled (C06: 1-based, bounds-checked; slices clamp both
   bounds into 1..len, crossed bounds raise, the empty container yields the empty result). *)
From Coq Require Import List ZArith Bool Lia.
Import ListNotations.
Open Scope Z_scope.

Inductive res (A : Type) : Type := Ok (a : A) | Err | NoFuel | Undef.
Arguments Ok {A} a. Arguments Err {A}. Arguments NoFuel {A}. Arguments Undef {A}.

Definition bind {A B} (r : res A) (f : A -> res B) : res B :=
  match r with Ok a => f a | Err => Err | NoFuel => NoFuel | Undef => Undef end.
Notation "'do' x <- e ;; k" := (bind e (fun x => k)) (at level 200, x name, e at level 100, k at level 200).
Notation "'do' ' ( x , y ) <- e ;; k" := (bind e (fun xy => let '(x, y) := xy in k)) (at level 200, x name, y name, e at level 100, k at level 200).

Definition two63 : Z := 9223372036854775808.
Definition two64 : Z := 18446744073709551616.
Definition wrap64 (z : Z) : Z := (z + two63) mod two64 - two63.
Definition in_i64 (z : Z) : Prop := - two63 <= z < two63.

Definition len {A} (l : list A) : Z := Z.of_nat (length l).

(* `l an der Stelle i` *)
Definition rd {A} (l : list A) (i : Z) : res A :=
  if (1 <=? i) && (i <=? len l)
  then match nth_error l (Z.to_nat (i - 1)) with Some x => Ok x | None => Err end
  else Err.

Fixpoint set_nth {A} (l : list A) (n : nat) (v : A) : list A :=
  match l, n with
  | [], _ => []
  | _ :: r, O => v :: r
  | x :: r, S m => x :: set_nth r m v
  end.

(* `Speichere v in l an der Stelle i` *)
Definition wr {A} (l : list A) (i : Z) (v : A) : res (list A) :=
  if (1 <=? i) && (i <=? len l) then Ok (set_nth l (Z.to_nat (i - 1)) v) else Err.

Definition clampZ (v lo hi : Z) : Z :=
  let t := if v <? lo then lo else v in if t >? hi then hi else t.

(* `l im Bereich von i1 bis i2`, `l ab dem i. Element`, `l bis zum i. Element` *)
Definition slice {A} (l : list A) (i1 i2 : Z) : res (list A) :=
  if len l <=? 0 then Ok []
  else
    let a := clampZ i1 1 (len l) in
    let b := clampZ i2 1 (len l) in
    if b <? a then Err
    else Ok (firstn (Z.to_nat (b - a + 1)) (skipn (Z.to_nat (a - 1)) l)).
Definition slice_from {A} (l : list A) (i : Z) : res (list A) := slice l i (len l).
Definition slice_to {A} (l : list A) (i : Z) : res (list A) := slice l 1 i.

(* `n Mal x` *)
Definition mal {A} (n : Z) (x : A) : res (list A) :=
  if n <? 0 then Undef else Ok (repeat x (Z.to_nat n)).

(* `a modulo b`: C remainder (srem); b = 0 is a Laufzeitfehler ("Der Rest einer Division durch 0 ist nicht definiert") *)
Definition zrem (a b : Z) : res Z := if b =? 0 then Err else Ok (Z.rem a b).

Definition b2z (b : bool) : Z := if b then 1 else 0.
