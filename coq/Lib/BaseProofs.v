(* C17 — lemmas about the language-construct model of Lib/Base.v *)
From Coq Require Import List ZArith Bool Lia.
From DDP Require Import Lib.Base.
Import ListNotations.
Open Scope Z_scope.

Lemma len_nil {A} : len (@nil A) = 0. Proof. reflexivity. Qed.
Lemma len_cons {A} (x : A) l : len (x :: l) = len l + 1.
Proof. unfold len. cbn [length]. lia. Qed.
Lemma len_app {A} (a b : list A) : len (a ++ b) = len a + len b.
Proof. unfold len. rewrite app_length. lia. Qed.
Lemma len_nonneg {A} (l : list A) : 0 <= len l.
Proof. unfold len. lia. Qed.
Lemma len_repeat {A} (x : A) n : len (repeat x n) = Z.of_nat n.
Proof. unfold len. now rewrite repeat_length. Qed.
Lemma len_rev {A} (l : list A) : len (rev l) = len l.
Proof. unfold len. now rewrite rev_length. Qed.
Lemma len_map {A B} (f : A -> B) l : len (map f l) = len l.
Proof. unfold len. now rewrite map_length. Qed.
Lemma len_zero_nil {A} (l : list A) : len l = 0 -> l = [].
Proof. destruct l as [|x r]; [reflexivity|]. rewrite len_cons. pose proof (len_nonneg r). lia. Qed.
Lemma to_nat_len {A} (l : list A) : Z.to_nat (len l) = length l.
Proof. unfold len. lia. Qed.

Lemma nth_error_mid {A} (pre : list A) x suf : nth_error (pre ++ x :: suf) (length pre) = Some x.
Proof. induction pre as [|p pre IH]; cbn; auto. Qed.

Lemma set_nth_mid {A} (pre : list A) x suf v : set_nth (pre ++ x :: suf) (length pre) v = pre ++ v :: suf.
Proof. induction pre as [|p pre IH]; cbn; [reflexivity|]. now rewrite IH. Qed.

Lemma set_nth_length {A} (l : list A) n v : length (set_nth l n v) = length l.
Proof. revert n. induction l as [|x r IH]; intros [|n]; cbn; auto. Qed.

Lemma rd_mid {A} (pre : list A) x suf : rd (pre ++ x :: suf) (len pre + 1) = Ok x.
Proof.
  unfold rd. rewrite len_app, len_cons.
  pose proof (len_nonneg pre) as Hp. pose proof (len_nonneg suf) as Hs.
  replace ((1 <=? len pre + 1) && (len pre + 1 <=? len pre + (len suf + 1))) with true
    by (symmetry; apply andb_true_iff; split; apply Z.leb_le; lia).
  replace (Z.to_nat (len pre + 1 - 1)) with (length pre) by (unfold len; lia).
  now rewrite nth_error_mid.
Qed.

Lemma wr_mid {A} (pre : list A) x suf v : wr (pre ++ x :: suf) (len pre + 1) v = Ok (pre ++ v :: suf).
Proof.
  unfold wr. rewrite len_app, len_cons.
  pose proof (len_nonneg pre) as Hp. pose proof (len_nonneg suf) as Hs.
  replace ((1 <=? len pre + 1) && (len pre + 1 <=? len pre + (len suf + 1))) with true
    by (symmetry; apply andb_true_iff; split; apply Z.leb_le; lia).
  replace (Z.to_nat (len pre + 1 - 1)) with (length pre) by (unfold len; lia).
  now rewrite set_nth_mid.
Qed.

Lemma rd_out {A} (l : list A) i : i < 1 \/ len l < i -> rd l i = Err.
Proof.
  intros H. unfold rd.
  destruct (1 <=? i) eqn:E1; cbn [andb]; [|reflexivity].
  destruct (i <=? len l) eqn:E2; [|reflexivity].
  apply Z.leb_le in E1. apply Z.leb_le in E2. lia.
Qed.

Lemma wr_out {A} (l : list A) i v : i < 1 \/ len l < i -> wr l i v = Err.
Proof.
  intros H. unfold wr.
  destruct (1 <=? i) eqn:E1; cbn [andb]; [|reflexivity].
  destruct (i <=? len l) eqn:E2; [|reflexivity].
  apply Z.leb_le in E1. apply Z.leb_le in E2. lia.
Qed.

(* split a list at a valid 1-based position *)
Lemma split_at {A} (l : list A) i : 1 <= i <= len l ->
  exists pre x suf, l = pre ++ x :: suf /\ len pre = i - 1.
Proof.
  intros H.
  assert (Hn : (Z.to_nat (i - 1) < length l)%nat) by (unfold len in H; lia).
  destruct (nth_error l (Z.to_nat (i - 1))) as [x|] eqn:E.
  - destruct (nth_error_split _ _ E) as (pre & suf & -> & Hl).
    exists pre, x, suf. split; [reflexivity|]. unfold len. lia.
  - apply nth_error_None in E. lia.
Qed.

Lemma rd_in {A} (l : list A) i : 1 <= i <= len l -> exists x, rd l i = Ok x.
Proof.
  intros H. destruct (split_at l i H) as (pre & x & suf & -> & Hl).
  exists x. replace i with (len pre + 1) by lia. apply rd_mid.
Qed.

Lemma rd_nth {A} (d : A) (l : list A) i : 1 <= i <= len l -> rd l i = Ok (nth (Z.to_nat (i - 1)) l d).
Proof.
  intros H. destruct (split_at l i H) as (pre & x & suf & -> & Hl).
  replace i with (len pre + 1) at 1 by lia. rewrite rd_mid.
  replace (Z.to_nat (i - 1)) with (length pre) by (unfold len in Hl; lia).
  now rewrite app_nth2, Nat.sub_diag by lia.
Qed.

Lemma rd_cons_1 {A} (x : A) l : rd (x :: l) 1 = Ok x.
Proof. apply (rd_mid [] x l). Qed.

Lemma rd_cons_S {A} (x : A) l i : 1 <= i -> rd (x :: l) (i + 1) = rd l i.
Proof.
  intros H. unfold rd. rewrite len_cons.
  replace (1 <=? i + 1) with true by (symmetry; apply Z.leb_le; lia).
  replace (1 <=? i) with true by (symmetry; apply Z.leb_le; lia).
  cbn [andb]. replace (i + 1 <=? len l + 1) with (i <=? len l)
    by (destruct (i <=? len l) eqn:E; symmetry; [apply Z.leb_le; apply Z.leb_le in E|apply Z.leb_gt; apply Z.leb_gt in E]; lia).
  replace (Z.to_nat (i + 1 - 1)) with (S (Z.to_nat (i - 1))) by lia. reflexivity.
Qed.

(* ---- clamp / slices ---------------------------------------------------------------------------- *)
Lemma clampZ_spec v lo hi : lo <= hi ->
  clampZ v lo hi = (if v <? lo then lo else if v >? hi then hi else v).
Proof.
  intros H. unfold clampZ.
  destruct (v <? lo) eqn:E1.
  - destruct (lo >? hi) eqn:E2; [|reflexivity]. apply Z.gtb_lt in E2. lia.
  - reflexivity.
Qed.

Lemma clampZ_id v lo hi : lo <= v <= hi -> clampZ v lo hi = v.
Proof.
  intros H. unfold clampZ.
  replace (v <? lo) with false by (symmetry; apply Z.ltb_ge; lia).
  replace (v >? hi) with false; [reflexivity|].
  symmetry. rewrite Z.gtb_ltb. apply Z.ltb_ge. lia.
Qed.

Lemma clampZ_range v lo hi : lo <= hi -> lo <= clampZ v lo hi <= hi.
Proof.
  intros H. rewrite clampZ_spec by assumption.
  destruct (v <? lo) eqn:E1; [lia|]. apply Z.ltb_ge in E1.
  destruct (v >? hi) eqn:E2; [lia|]. rewrite Z.gtb_ltb in E2. apply Z.ltb_ge in E2. lia.
Qed.

Lemma clampZ_low v lo hi : lo <= hi -> v <= lo -> clampZ v lo hi = lo.
Proof.
  intros H Hv. rewrite clampZ_spec by assumption.
  destruct (v <? lo) eqn:E1; [reflexivity|]. apply Z.ltb_ge in E1.
  destruct (v >? hi) eqn:E2; [rewrite Z.gtb_ltb in E2; apply Z.ltb_lt in E2; lia | lia].
Qed.

Lemma clampZ_high v lo hi : lo <= hi -> hi <= v -> clampZ v lo hi = hi.
Proof.
  intros H Hv. rewrite clampZ_spec by assumption.
  destruct (v <? lo) eqn:E1; [apply Z.ltb_lt in E1; lia|].
  destruct (v >? hi) eqn:E2; [reflexivity|]. rewrite Z.gtb_ltb in E2. apply Z.ltb_ge in E2. lia.
Qed.

Lemma slice_nil {A} i1 i2 : slice (@nil A) i1 i2 = Ok [].
Proof. reflexivity. Qed.

Lemma slice_clamped {A} (l : list A) i1 i2 : 0 < len l ->
  slice l i1 i2 =
    let a := clampZ i1 1 (len l) in let b := clampZ i2 1 (len l) in
    if b <? a then Err else Ok (firstn (Z.to_nat (b - a + 1)) (skipn (Z.to_nat (a - 1)) l)).
Proof.
  intros H. unfold slice. replace (len l <=? 0) with false by (symmetry; apply Z.leb_gt; lia). reflexivity.
Qed.

Lemma slice_in {A} (l : list A) a b : 1 <= a -> a <= b -> b <= len l ->
  slice l a b = Ok (firstn (Z.to_nat (b - a + 1)) (skipn (Z.to_nat (a - 1)) l)).
Proof.
  intros H1 H2 H3. rewrite slice_clamped by lia. cbv zeta.
  rewrite !clampZ_id by lia.
  replace (b <? a) with false by (symmetry; apply Z.ltb_ge; lia). reflexivity.
Qed.

Lemma slice_to_in {A} (l : list A) n : 1 <= n <= len l -> slice_to l n = Ok (firstn (Z.to_nat n) l).
Proof.
  intros H. unfold slice_to. rewrite slice_in by lia.
  replace (n - 1 + 1) with n by lia. reflexivity.
Qed.

Lemma slice_from_in {A} (l : list A) i : 1 <= i <= len l -> slice_from l i = Ok (skipn (Z.to_nat (i - 1)) l).
Proof.
  intros H. unfold slice_from. rewrite slice_in by lia.
  rewrite firstn_all2; [reflexivity|].
  rewrite skipn_length. unfold len in *. lia.
Qed.

(* the general (clamping) behaviour of the two one-sided slices on a non-empty container *)
Lemma slice_to_clamp {A} (l : list A) n : 0 < len l ->
  slice_to l n = Ok (firstn (Z.to_nat (clampZ n 1 (len l))) l).
Proof.
  intros H. unfold slice_to. rewrite slice_clamped by assumption. cbv zeta.
  rewrite (clampZ_id 1) by lia.
  pose proof (clampZ_range n 1 (len l) ltac:(lia)) as Hr.
  replace (clampZ n 1 (len l) <? 1) with false by (symmetry; apply Z.ltb_ge; lia).
  replace (clampZ n 1 (len l) - 1 + 1) with (clampZ n 1 (len l)) by lia. reflexivity.
Qed.

Lemma slice_from_clamp {A} (l : list A) i : 0 < len l ->
  slice_from l i = Ok (skipn (Z.to_nat (clampZ i 1 (len l) - 1)) l).
Proof.
  intros H. unfold slice_from. rewrite slice_clamped by assumption. cbv zeta.
  rewrite (clampZ_id (len l)) by lia.
  pose proof (clampZ_range i 1 (len l) ltac:(lia)) as Hr.
  replace (len l <? clampZ i 1 (len l)) with false by (symmetry; apply Z.ltb_ge; lia).
  rewrite firstn_all2; [reflexivity|]. rewrite skipn_length. unfold len in *. lia.
Qed.

(* ---- wrap64 ------------------------------------------------------------------------------------- *)
Lemma wrap64_id z : in_i64 z -> wrap64 z = z.
Proof. unfold in_i64, wrap64, two63, two64. intros H. rewrite Z.mod_small; lia. Qed.

Lemma wrap64_range z : in_i64 (wrap64 z).
Proof.
  unfold in_i64, wrap64, two63, two64.
  pose proof (Z.mod_pos_bound (z + 9223372036854775808) 18446744073709551616 ltac:(lia)). lia.
Qed.

Lemma wrap64_add_l a b : wrap64 (wrap64 a + b) = wrap64 (a + b).
Proof.
  unfold wrap64, two63, two64.
  f_equal.
  replace ((a + 9223372036854775808) mod 18446744073709551616 - 9223372036854775808 + b + 9223372036854775808)
    with ((a + 9223372036854775808) mod 18446744073709551616 + b) by lia.
  rewrite Zplus_mod_idemp_l. f_equal. lia.
Qed.

Lemma wrap64_mul_l a b : wrap64 (wrap64 a * b) = wrap64 (a * b).
Proof.
  unfold wrap64, two63, two64. f_equal.
  set (M := 18446744073709551616). set (H := 9223372036854775808).
  replace (((a + H) mod M - H) * b + H) with (((a + H) mod M) * b + (H - H * b)) by lia.
  rewrite <- Zplus_mod_idemp_l. rewrite Zmult_mod_idemp_l. rewrite Zplus_mod_idemp_l.
  f_equal. lia.
Qed.
