(* C17 — further transcriptions: Texte.Verbinden_Zahl, Texte.Levenshtein_Distanz, Texte.Text_Zu_ByteListe /
   ByteListe_Zu_Text (strings.c).  The conversions the bodies rely on are language/libc primitives and are
   modelled concretely: `z als Text` (sprintf "%lld") as decimal digits, the Text representation as UTF-8
   (c32rtomb / mbrtoc32 of the C library) for Unicode scalar values. *)
From Coq Require Import List ZArith Bool Lia.
From DDP Require Import Lib.Base Lib.NumFns Lib.TextFns.
Import ListNotations.
Open Scope Z_scope.

(* ---- `z als Text` ---- *)
Fixpoint dezimal (fuel : nat) (n : Z) (acc : text) : text :=
  match fuel with
  | O => acc
  | S f => let acc' := (48 + n mod 10) :: acc in if n <? 10 then acc' else dezimal f (n / 10) acc'
  end.
Definition zahl_als_text (z : Z) : text := if z <? 0 then 45 :: dezimal 20 (- z) [] else dezimal 20 z [].

(* Für jede Zahl i von 1 bis die Länge von liste: Wenn i kleiner als die Länge von liste ist,
   Speichere ret verkettet mit (liste an der Stelle i) als Text verkettet mit trennzeichen in ret. Sonst ... *)
Definition Verbinden_Zahl (liste : list Z) (trennzeichen : Z) : res text :=
  verbinden_loop zahl_als_text (length liste) 1 liste trennzeichen [].

(* ---- Levenshtein_Distanz ---- *)
(* Für jede Zahl i von 0 bis die Länge von t2: Speichere i in cost an der Stelle (i plus 1). *)
Fixpoint lev_init_loop (n : nat) (i : Z) (cost : list Z) : res (list Z) :=
  match n with
  | O => Ok cost
  | S n' => do cost' <- wr cost (i + 1) i;; lev_init_loop n' (i + 1) cost'
  end.
(* Für jede Zahl j von 1 bis die Länge von t2: deletionCost, insertionCost, substitutionCost; newCost[j+1] := Min3 *)
Fixpoint lev_inner_loop (n : nat) (j : Z) (c1 : Z) (t2 : text) (cost newCost : list Z) : res (list Z) :=
  match n with
  | O => Ok newCost
  | S n' =>
      do a <- rd cost (j + 1);; let deletionCost := wrap64 (a + 1) in
      do b <- rd newCost j;; let insertionCost := wrap64 (b + 1) in
      do substitutionCost <- rd cost j;;
      do c2 <- rd t2 j;;
      let substitutionCost := if negb (c1 =? c2) then wrap64 (substitutionCost + 1) else substitutionCost in
      do newCost' <- wr newCost (j + 1) (Min3 deletionCost insertionCost substitutionCost);;
      lev_inner_loop n' (j + 1) c1 t2 cost newCost'
  end.
(* Für jede Zahl i von 1 bis die Länge von t1: newCost[1] := i; <inner loop>; tausche cost und newCost *)
Fixpoint lev_outer_loop (n : nat) (i : Z) (t1 t2 : text) (cost newCost : list Z) : res (list Z) :=
  match n with
  | O => Ok cost
  | S n' =>
      do newCost1 <- wr newCost 1 i;;
      do c1 <- rd t1 i;;
      do newCost2 <- lev_inner_loop (length t2) 1 c1 t2 cost newCost1;;
      let temp := cost in
      lev_outer_loop n' (i + 1) t1 t2 newCost2 temp
  end.
Definition Levenshtein_Distanz (t1 t2 : text) : res Z :=
  do cost <- mal (len t2 + 1) 0;;
  do newCost <- mal (len t2 + 1) 0;;
  do cost <- lev_init_loop (Z.to_nat (len t2 + 1)) 0 cost;;
  do cost <- lev_outer_loop (length t1) 1 t1 t2 cost newCost;;
  rd cost (len t2 + 1).

(* ---- Text <-> Byte Liste (strings.c copies the bytes of the representation) ---- *)
Definition utf8_enc (c : Z) : list Z :=
  if c <? 128 then [c]
  else if c <? 2048 then [192 + c / 64; 128 + c mod 64]
  else if c <? 65536 then [224 + c / 4096; 128 + (c / 64) mod 64; 128 + c mod 64]
  else [240 + c / 262144; 128 + (c / 4096) mod 64; 128 + (c / 64) mod 64; 128 + c mod 64].
Fixpoint utf8_dec (fuel : nat) (b : list Z) : text :=
  match fuel with
  | O => []
  | S f =>
      match b with
      | [] => []
      | b0 :: r =>
          if b0 <? 128 then b0 :: utf8_dec f r
          else if b0 <? 224 then
            match r with b1 :: r1 => ((b0 - 192) * 64 + (b1 - 128)) :: utf8_dec f r1 | _ => [] end
          else if b0 <? 240 then
            match r with b1 :: b2 :: r2 => ((b0 - 224) * 4096 + (b1 - 128) * 64 + (b2 - 128)) :: utf8_dec f r2 | _ => [] end
          else
            match r with b1 :: b2 :: b3 :: r3 => ((b0 - 240) * 262144 + (b1 - 128) * 4096 + (b2 - 128) * 64 + (b3 - 128)) :: utf8_dec f r3 | _ => [] end
      end
  end.
(* if (ddp_string_empty(t)) empty list; else memcpy of cap - 1 bytes *)
Definition Text_Zu_ByteListe (t : text) : list Z := if len t =? 0 then [] else concat (map utf8_enc t).
Definition Text_Zu_ByteListe_Wert := Text_Zu_ByteListe.
(* if (b->len == 0) empty string; else memcpy + NUL: the text whose representation these bytes are *)
Definition ByteListe_Zu_Text (b : list Z) : text := if len b =? 0 then [] else utf8_dec (length b) b.
Definition ByteListe_Zu_Text_Wert := ByteListe_Zu_Text.

(* ---- Mathe.Primfaktorzerlegung ---- *)
(* Solange z durch d teilbar ist: Speichere faktoren verkettet mit d in faktoren. Speichere (z durch d) als Zahl in z.
   (the Kommazahl quotient of an exact division is exact below 2^53) *)
Fixpoint pf_div_loop (fuel : nat) (z d : Z) (faktoren : list Z) : res (Z * list Z) :=
  match fuel with
  | O => NoFuel
  | S f => do t <- Ist_Teilbar z d;; if t then pf_div_loop f (Z.quot z d) d (faktoren ++ [d]) else Ok (z, faktoren)
  end.
Definition pf_div_fuel (z : Z) : nat := S (Z.to_nat (Z.log2 (Z.abs z)) + 1).
(* Solange i kleiner als, oder die 2. Wurzel von z als Zahl ist: <divide out i>; Erhöhe i um 2.
   (i <= sqrt z as Kommazahlen is i * i <= z for the values a Zahl loop can reach) *)
Fixpoint pf_outer_loop (fuel : nat) (z i : Z) (faktoren : list Z) : res (Z * list Z) :=
  match fuel with
  | O => NoFuel
  | S f =>
      if i * i <=? z
      then do r <- pf_div_loop (pf_div_fuel z) z i faktoren;; pf_outer_loop f (fst r) (i + 2) (snd r)
      else Ok (z, faktoren)
  end.
Definition Primfaktorzerlegung (z : Z) : res (list Z) :=
  do r1 <- pf_div_loop (pf_div_fuel z) z 2 [];;
  do r2 <- pf_outer_loop (Z.to_nat (Z.sqrt (fst r1)) + 2) (fst r1) 3 (snd r1);;
  Ok (if fst r2 >? 2 then snd r2 ++ [fst r2] else snd r2).
