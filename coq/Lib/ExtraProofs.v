(* C17 — refinement proofs for Lib/ExtraFns.v *)
From Coq Require Import List ZArith Bool Lia.
From DDP Require Import Lib.Base Lib.BaseProofs Lib.ListFns Lib.ListProofs Lib.NumFns Lib.NumProofs Lib.TextFns Lib.TextProofs Lib.ExtraFns.
Import ListNotations.
Open Scope Z_scope.

(* ---- Verbinden_Zahl ---- *)
Theorem verbinden_zahl_spec l z : Verbinden_Zahl l z = Ok (join zahl_als_text z l).
Proof. apply (verbinden_loop_inv zahl_als_text z l [] []). Qed.

(* `z als Text`: the decimal digits denote |z|, a leading '-' marks a negative number *)
Definition ziffern_wert (ds : text) (a : Z) : Z := fold_left (fun a d => a * 10 + (d - 48)) ds a.
Lemma dezimal_wert f : forall n acc, 0 <= n < 10 ^ Z.of_nat f -> ziffern_wert (dezimal f n acc) 0 = ziffern_wert acc n.
Proof.
  induction f as [|f IH]; intros n acc Hn.
  - cbn in Hn. assert (n = 0) by lia. subst. reflexivity.
  - cbn [dezimal]. cbv zeta. pose proof (Z.div_mod n 10 ltac:(lia)) as Hdm. pose proof (Z.mod_pos_bound n 10 ltac:(lia)) as Hmb.
    destruct (n <? 10) eqn:E.
    + apply Z.ltb_lt in E. unfold ziffern_wert. cbn [fold_left]. f_equal. rewrite Z.mod_small by lia. lia.
    + apply Z.ltb_ge in E. rewrite IH.
      * unfold ziffern_wert. cbn [fold_left]. f_equal. lia.
      * rewrite Nat2Z.inj_succ, Z.pow_succ_r in Hn by lia. split; [apply Z.div_pos; lia|apply Z.div_lt_upper_bound; lia].
Qed.
Theorem zahl_als_text_wert z : in_i64 z ->
  exists ds, zahl_als_text z = (if z <? 0 then [45] else []) ++ ds /\ ziffern_wert ds 0 = Z.abs z.
Proof.
  intros Hz. unfold in_i64, two63 in Hz. unfold zahl_als_text. destruct (z <? 0) eqn:E.
  - apply Z.ltb_lt in E. exists (dezimal 20 (- z) []). split; [reflexivity|].
    rewrite dezimal_wert by (change (10 ^ Z.of_nat 20) with 100000000000000000000; lia). cbn. lia.
  - apply Z.ltb_ge in E. exists (dezimal 20 z []). split; [reflexivity|].
    rewrite dezimal_wert by (change (10 ^ Z.of_nat 20) with 100000000000000000000; lia). cbn. lia.
Qed.

(* ---- Text <-> Byte Liste ---- *)
Definition skalar (c : Z) : Prop := 0 <= c < 1114112.
Theorem text_zu_byteliste_spec t : Text_Zu_ByteListe t = concat (map utf8_enc t).
Proof.
  unfold Text_Zu_ByteListe. destruct (len t =? 0) eqn:E; [|reflexivity].
  apply Z.eqb_eq in E. apply len_zero_nil in E. now subst.
Qed.
Lemma utf8_dec_enc c f rest : skalar c -> utf8_dec (S f) (utf8_enc c ++ rest) = c :: utf8_dec f rest.
Proof.
  unfold skalar. intros Hc. unfold utf8_enc.
  pose proof (Z.div_mod c 64 ltac:(lia)) as D64. pose proof (Z.mod_pos_bound c 64 ltac:(lia)) as M64.
  destruct (c <? 128) eqn:E1; [apply Z.ltb_lt in E1|apply Z.ltb_ge in E1].
  - cbn [app utf8_dec]. replace (c <? 128) with true by (symmetry; apply Z.ltb_lt; lia). reflexivity.
  - destruct (c <? 2048) eqn:E2; [apply Z.ltb_lt in E2|apply Z.ltb_ge in E2].
    + assert (H1 : 2 <= c / 64 <= 31) by (split; [apply Z.div_le_lower_bound; lia|apply Z.lt_succ_r, Z.div_lt_upper_bound; lia]).
      cbn [app utf8_dec].
      replace (192 + c / 64 <? 128) with false by (symmetry; apply Z.ltb_ge; lia).
      replace (192 + c / 64 <? 224) with true by (symmetry; apply Z.ltb_lt; lia).
      f_equal. lia.
    + pose proof (Z.div_mod (c / 64) 64 ltac:(lia)) as D2. pose proof (Z.mod_pos_bound (c / 64) 64 ltac:(lia)) as M2.
      assert (Hdd : c / 64 / 64 = c / 4096) by (rewrite Z.div_div by lia; reflexivity).
      destruct (c <? 65536) eqn:E3; [apply Z.ltb_lt in E3|apply Z.ltb_ge in E3].
      * assert (H1 : 0 <= c / 4096 <= 15) by (split; [apply Z.div_pos; lia|apply Z.lt_succ_r, Z.div_lt_upper_bound; lia]).
        cbn [app utf8_dec].
        replace (224 + c / 4096 <? 128) with false by (symmetry; apply Z.ltb_ge; lia).
        replace (224 + c / 4096 <? 224) with false by (symmetry; apply Z.ltb_ge; lia).
        replace (224 + c / 4096 <? 240) with true by (symmetry; apply Z.ltb_lt; lia).
        f_equal. lia.
      * pose proof (Z.div_mod (c / 4096) 64 ltac:(lia)) as D3. pose proof (Z.mod_pos_bound (c / 4096) 64 ltac:(lia)) as M3.
        assert (Hd3 : c / 4096 / 64 = c / 262144) by (rewrite Z.div_div by lia; reflexivity).
        assert (H1 : 0 <= c / 262144 <= 4) by (split; [apply Z.div_pos; lia|apply Z.lt_succ_r, Z.div_lt_upper_bound; lia]).
        cbn [app utf8_dec].
        replace (240 + c / 262144 <? 128) with false by (symmetry; apply Z.ltb_ge; lia).
        replace (240 + c / 262144 <? 224) with false by (symmetry; apply Z.ltb_ge; lia).
        replace (240 + c / 262144 <? 240) with false by (symmetry; apply Z.ltb_ge; lia).
        f_equal. lia.
Qed.
Lemma utf8_roundtrip t : forall fuel, Forall skalar t -> (length t <= fuel)%nat -> utf8_dec fuel (concat (map utf8_enc t)) = t.
Proof.
  induction t as [|c t IH]; intros fuel Ht Hf; [destruct fuel; reflexivity|].
  inversion Ht; subst. destruct fuel as [|f]; [cbn in Hf; lia|]. cbn [map concat].
  rewrite utf8_dec_enc by assumption. f_equal. apply IH; [assumption|cbn in Hf; lia].
Qed.
Lemma utf8_enc_nonempty c : (1 <= length (utf8_enc c))%nat.
Proof. unfold utf8_enc. destruct (c <? 128), (c <? 2048), (c <? 65536); cbn; lia. Qed.
Lemma concat_enc_length t : (length t <= length (concat (map utf8_enc t)))%nat.
Proof. induction t as [|c t IH]; cbn [map concat length]; [lia|]. rewrite app_length. pose proof (utf8_enc_nonempty c). lia. Qed.
(* the bytes of a text, read as a text again, are that text *)
Theorem byteliste_roundtrip t : Forall skalar t -> ByteListe_Zu_Text (Text_Zu_ByteListe t) = t.
Proof.
  intros Ht. rewrite text_zu_byteliste_spec. unfold ByteListe_Zu_Text.
  destruct t as [|c t']; [reflexivity|].
  pose proof (concat_enc_length (c :: t')) as Hl.
  replace (len (concat (map utf8_enc (c :: t'))) =? 0) with false by (symmetry; apply Z.eqb_neq; unfold len; cbn [length] in Hl; lia).
  apply utf8_roundtrip; [exact Ht|exact Hl].
Qed.

(* ---- Levenshtein_Distanz: the rows of the Wagner-Fischer table ---- *)
Definition lev_cell (c1 y pd pu left : Z) : Z :=
  Min3 (wrap64 (pu + 1)) (wrap64 (left + 1)) (if negb (c1 =? y) then wrap64 (pd + 1) else pd).
(* prev = [prev_{j-1}; prev_j; ...], left = cur_{j-1}; yields cur_j, cur_{j+1}, ... *)
Fixpoint row_step (c1 : Z) (t2 : text) (prev : list Z) (left : Z) : list Z :=
  match t2, prev with
  | y :: t2', pd :: ((pu :: _) as prev') => let v := lev_cell c1 y pd pu left in v :: row_step c1 t2' prev' v
  | _, _ => []
  end.
Definition next_row (c1 : Z) (t2 : text) (prev : list Z) (i : Z) : list Z := i :: row_step c1 t2 prev i.
Fixpoint lev_rows (t1 t2 : text) (i : Z) (row : list Z) : list Z :=
  match t1 with [] => row | c :: r => lev_rows r t2 (i + 1) (next_row c t2 row i) end.
Definition lev_ref (t1 t2 : text) : Z := nth (length t2) (lev_rows t1 t2 1 (zrange_up 0 (S (length t2)))) 0.

Lemma row_step_length c1 t2 : forall prev left, length prev = S (length t2) -> length (row_step c1 t2 prev left) = length t2.
Proof.
  induction t2 as [|y t2 IH]; intros prev left H; [destruct prev; reflexivity|].
  destruct prev as [|pd [|pu prest]]; cbn [length] in H; try lia. cbn [row_step length]. cbv zeta. f_equal. apply IH. cbn [length]. lia.
Qed.

Lemma lev_inner_inv c1 s2 : forall p2 pp pd prest dn left junk j,
  length prest = length s2 -> length junk = length s2 -> len pp = j - 1 -> len p2 = j - 1 -> len dn = j - 1 ->
  lev_inner_loop (length s2) j c1 (p2 ++ s2) (pp ++ pd :: prest) (dn ++ left :: junk) =
    Ok (dn ++ left :: row_step c1 s2 (pd :: prest) left).
Proof.
  induction s2 as [|y s2 IH]; intros p2 pp pd prest dn left junk j Hp Hj Hpp Hp2 Hdn.
  - destruct junk; [|cbn in Hj; lia]. destruct prest; reflexivity.
  - destruct prest as [|pu prest']; [cbn in Hp; lia|]. destruct junk as [|x junk']; [cbn in Hj; lia|].
    cbn [lev_inner_loop length row_step]. cbv zeta.
    replace (pp ++ pd :: pu :: prest') with ((pp ++ [pd]) ++ pu :: prest') by (now rewrite <- app_assoc).
    replace (j + 1) with (len (pp ++ [pd]) + 1) at 1 by (rewrite len_app, len_cons, len_nil; lia).
    rewrite rd_mid. cbn [bind].
    replace j with (len dn + 1) at 1 by lia. rewrite rd_mid. cbn [bind].
    rewrite <- app_assoc. cbn [app]. replace j with (len pp + 1) at 1 by lia. rewrite rd_mid. cbn [bind].
    replace j with (len p2 + 1) at 1 by lia. rewrite rd_mid. cbn [bind].
    replace (dn ++ left :: x :: junk') with ((dn ++ [left]) ++ x :: junk') by (now rewrite <- app_assoc).
    replace (j + 1) with (len (dn ++ [left]) + 1) at 1 by (rewrite len_app, len_cons, len_nil; lia).
    rewrite wr_mid. cbn [bind]. fold (lev_cell c1 y pd pu left).
    replace (p2 ++ y :: s2) with ((p2 ++ [y]) ++ s2) by (now rewrite <- app_assoc).
    replace (pp ++ pd :: pu :: prest') with ((pp ++ [pd]) ++ pu :: prest') by (now rewrite <- app_assoc).
    rewrite (IH (p2 ++ [y]) (pp ++ [pd]) pu prest' (dn ++ [left]) (lev_cell c1 y pd pu left) junk' (j + 1));
      try (cbn [length] in *; lia); try (rewrite len_app, len_cons, len_nil; lia).
    now rewrite <- app_assoc.
Qed.

Lemma lev_outer_inv t2 s1 : forall p1 cost newCost i, length cost = S (length t2) -> length newCost = S (length t2) -> len p1 = i - 1 ->
  lev_outer_loop (length s1) i (p1 ++ s1) t2 cost newCost = Ok (lev_rows s1 t2 i cost).
Proof.
  induction s1 as [|c s1 IH]; intros p1 cost newCost i Hc Hn Hp; [reflexivity|].
  cbn [lev_outer_loop length lev_rows].
  destruct newCost as [|x junk]; [cbn in Hn; lia|]. destruct cost as [|pd prest]; [cbn in Hc; lia|].
  change (x :: junk) with ([] ++ x :: junk). replace 1 with (len (@nil Z) + 1) at 1 by reflexivity. rewrite wr_mid. cbn [bind app].
  replace i with (len p1 + 1) at 1 by lia. rewrite rd_mid. cbn [bind].
  pose proof (lev_inner_inv c t2 [] [] pd prest [] i junk 1) as Hin. cbn [app] in Hin.
  rewrite Hin by (try reflexivity; cbn [length] in *; lia). cbn [bind]. cbv zeta.
  replace (p1 ++ c :: s1) with ((p1 ++ [c]) ++ s1) by (now rewrite <- app_assoc).
  fold (next_row c t2 (pd :: prest) i).
  apply IH.
  - unfold next_row. cbn [length]. f_equal. apply row_step_length. exact Hc.
  - exact Hc.
  - rewrite len_app, len_cons, len_nil. lia.
Qed.

Theorem levenshtein_spec t1 t2 : Levenshtein_Distanz t1 t2 = Ok (lev_ref t1 t2).
Proof.
  unfold Levenshtein_Distanz, mal. pose proof (len_nonneg t2) as H2.
  replace (len t2 + 1 <? 0) with false by (symmetry; apply Z.ltb_ge; lia). cbn [bind].
  replace (Z.to_nat (len t2 + 1)) with (S (length t2)) by (unfold len; lia).
  (* the initialisation loop is Aufsteigende_Zahlen's loop with start 0 *)
  assert (Hinit : lev_init_loop (S (length t2)) 0 (repeat 0 (S (length t2))) = Ok (zrange_up 0 (S (length t2)))).
  { assert (Hgen : forall n pre, lev_init_loop n (len pre) (pre ++ repeat 0 n) = aufsteigend_loop n (len pre) 0 (pre ++ repeat 0 n)).
    { induction n as [|n IHn]; intros pre; [reflexivity|]. cbn [lev_init_loop aufsteigend_loop repeat].
      change (0 + len pre) with (len pre). rewrite wr_mid. cbn [bind].
      replace (pre ++ len pre :: repeat 0 n) with ((pre ++ [len pre]) ++ repeat 0 n) by (now rewrite <- app_assoc).
      replace (len pre + 1) with (len (pre ++ [len pre])) by (rewrite len_app, len_cons, len_nil; lia). apply IHn. }
    pose proof (Hgen (S (length t2)) []) as Hg. cbn [app] in Hg. rewrite len_nil in Hg. rewrite Hg.
    pose proof (aufsteigend_loop_inv (S (length t2)) [] 0) as Ha. cbn [app] in Ha. rewrite len_nil in Ha. rewrite Ha.
    unfold zrange_up. f_equal. }
  rewrite Hinit. cbn [bind].
  pose proof (lev_outer_inv t2 t1 [] (zrange_up 0 (S (length t2))) (repeat 0 (S (length t2))) 1) as Ho. cbn [app] in Ho.
  rewrite Ho by (try reflexivity; try (unfold zrange_up; now rewrite map_length, seq_length); now rewrite repeat_length). cbn [bind].
  assert (Hlen : forall s1 i row, length row = S (length t2) -> length (lev_rows s1 t2 i row) = S (length t2)).
  { induction s1 as [|c s1 IHs]; intros i row Hr; [exact Hr|]. cbn [lev_rows]. apply IHs. unfold next_row. cbn [length]. f_equal. now apply row_step_length. }
  rewrite (rd_nth 0) by (unfold len; rewrite Hlen by (unfold zrange_up; now rewrite map_length, seq_length); lia).
  unfold lev_ref. do 2 f_equal. unfold len. lia.
Qed.

(* ---- Primfaktorzerlegung ---- *)
Definition zprod (l : list Z) : Z := fold_right Z.mul 1 l.
Definition ist_prim (p : Z) : Prop := 1 < p /\ forall d, 1 < d < p -> ~ (d | p).

Lemma zprod_app a b : zprod (a ++ b) = zprod a * zprod b.
Proof. unfold zprod. induction a as [|x a IH]; cbn [app fold_right]; [lia|]. rewrite IH. ring. Qed.

Lemma pf_div_loop_spec d : 2 <= d -> forall fuel z acc, 1 <= z -> z < 2 ^ Z.of_nat fuel ->
  exists z' extra, pf_div_loop fuel z d acc = Ok (z', acc ++ extra) /\ 1 <= z' /\ z' <= z /\ z = z' * zprod extra /\
    ~ (d | z') /\ Forall (fun x => x = d) extra.
Proof.
  intros Hd. induction fuel as [|f IH]; intros z acc Hz Hf; [cbn in Hf; lia|].
  cbn [pf_div_loop]. unfold Ist_Teilbar, zrem. replace (d =? 0) with false by (symmetry; apply Z.eqb_neq; lia). cbn [bind].
  destruct (Z.rem z d =? 0) eqn:E.
  - apply Z.eqb_eq in E. apply Z.rem_divide in E; [|lia]. destruct E as [q Hq].
    assert (Hquot : Z.quot z d = q) by (rewrite Hq; apply Z.quot_mul; lia).
    rewrite Hquot.
    assert (Hq1 : 1 <= q) by nia.
    assert (Hqf : q < 2 ^ Z.of_nat f).
    { rewrite Nat2Z.inj_succ, Z.pow_succ_r in Hf by lia. nia. }
    destruct (IH q (acc ++ [d]) Hq1 Hqf) as (z' & extra & E' & H1 & H2 & H3 & H4 & H5).
    exists z', (d :: extra). split; [rewrite E'; now rewrite <- app_assoc|].
    split; [exact H1|]. split; [nia|]. split; [cbn [zprod fold_right]; fold (zprod extra); rewrite Hq, H3; ring|].
    split; [exact H4|]. constructor; [reflexivity|exact H5].
  - apply Z.eqb_neq in E. exists z, []. rewrite app_nil_r. split; [reflexivity|]. split; [exact Hz|]. split; [lia|].
    split; [cbn; lia|]. split; [|constructor]. intros Hdiv. apply E. apply Z.rem_divide; [lia|exact Hdiv].
Qed.
Lemma pf_div_fuel_ok z : 1 <= z -> z < 2 ^ Z.of_nat (pf_div_fuel z).
Proof.
  intros Hz. unfold pf_div_fuel. rewrite Z.abs_eq by lia. pose proof (Z.log2_spec z ltac:(lia)) as [_ H]. pose proof (Z.log2_nonneg z).
  replace (Z.of_nat (S (Z.to_nat (Z.log2 z) + 1))) with (Z.succ (Z.succ (Z.log2 z))) by lia.
  rewrite Z.pow_succ_r by lia. lia.
Qed.

(* no number in [2, i) divides z *)
Definition ohne_kleine_teiler (z i : Z) : Prop := forall d, 2 <= d < i -> ~ (d | z).

Lemma teiler_frei_prim p i : 1 < p -> ohne_kleine_teiler p i -> p < i * i -> 0 <= i -> ist_prim p.
Proof.
  intros Hp Hno Hlt Hi. split; [exact Hp|]. intros d Hd [q Hq].
  (* p = q * d: one of q, d is below i *)
  assert (Hq1 : 1 < q) by nia.
  destruct (Z_lt_dec d i) as [Hdi|Hdi].
  - apply (Hno d ltac:(lia)). exists q. exact Hq.
  - assert (Hqi : q < i) by nia. apply (Hno q ltac:(lia)). exists d. lia.
Qed.

Lemma pf_outer_loop_spec fuel : forall z i acc, 1 <= z -> 3 <= i -> Z.odd i = true -> ohne_kleine_teiler z i ->
  Forall ist_prim acc -> (Z.to_nat (Z.sqrt z + 2 - i) < fuel)%nat ->
  exists z' extra, pf_outer_loop fuel z i acc = Ok (z', acc ++ extra) /\ 1 <= z' /\ z = z' * zprod extra /\
    Forall ist_prim extra /\ (z' = 1 \/ ist_prim z').
Proof.
  induction fuel as [|f IH]; intros z i acc Hz Hi Hodd Hno Hacc Hf; [lia|].
  cbn [pf_outer_loop]. destruct (i * i <=? z) eqn:E.
  - apply Z.leb_le in E.
    destruct (pf_div_loop_spec i ltac:(lia) (pf_div_fuel z) z acc Hz (pf_div_fuel_ok z Hz)) as (z1 & ex1 & E1 & H1 & H2 & H3 & H4 & H5).
    rewrite E1. cbn [bind fst snd].
    assert (Hno1 : ohne_kleine_teiler z1 (i + 2)).
    { intros d Hd Hdiv. destruct (Z_lt_dec d i) as [Hlt|Hge].
      - apply (Hno d ltac:(lia)). rewrite H3. now apply Z.divide_mul_l.
      - destruct (Z.eq_dec d i) as [->|Hne]; [contradiction|].
        assert (d = i + 1) by lia. subst d.
        (* i + 1 is even, so 2 would divide z1 and hence z *)
        apply (Hno 2 ltac:(lia)). rewrite H3. apply Z.divide_mul_l. apply (Z.divide_trans 2 (i + 1)); [|exact Hdiv].
        apply Zodd_bool_iff in Hodd. destruct (Zodd_ex i Hodd) as [k Hk]. exists (k + 1). lia. }
    assert (Hprimes : Forall ist_prim ex1).
    { apply Forall_forall. intros x Hx. rewrite Forall_forall in H5. rewrite (H5 x Hx).
      (* i divides z (ex1 is not empty) and nothing in [2, i) does *)
      split; [lia|]. intros d Hd Hdi. apply (Hno d ltac:(lia)). rewrite H3.
      destruct ex1 as [|y ex1']; [destruct Hx|]. assert (y = i) by (apply H5; left; reflexivity). subst y.
      cbn [zprod fold_right]. apply Z.divide_mul_r. apply Z.divide_mul_l. exact Hdi. }
    assert (Hsq : Z.sqrt z1 <= Z.sqrt z) by (apply Z.sqrt_le_mono; lia).
    assert (Hisq : i <= Z.sqrt z) by (apply Z.sqrt_le_square; lia).
    destruct (IH z1 (i + 2) (acc ++ ex1) H1 ltac:(lia)) as (z' & ex2 & E2 & G1 & G2 & G3 & G4).
    + rewrite Z.odd_add. rewrite Hodd. reflexivity.
    + exact Hno1.
    + apply Forall_app. split; assumption.
    + lia.
    + exists z', (ex1 ++ ex2). split; [rewrite E2; now rewrite <- app_assoc|]. split; [exact G1|].
      split; [rewrite zprod_app, H3, G2; ring|]. split; [apply Forall_app; split; assumption|exact G4].
  - apply Z.leb_gt in E. exists z, []. rewrite app_nil_r. split; [reflexivity|]. split; [exact Hz|]. split; [cbn; lia|].
    split; [constructor|]. destruct (Z.eq_dec z 1) as [->|Hne]; [left; reflexivity|]. right.
    apply (teiler_frei_prim z i); try lia; assumption.
Qed.

(* for z >= 1: prime numbers whose product is z *)
Theorem primfaktorzerlegung_spec z : 1 <= z ->
  exists l, Primfaktorzerlegung z = Ok l /\ zprod l = z /\ Forall ist_prim l.
Proof.
  intros Hz. unfold Primfaktorzerlegung.
  destruct (pf_div_loop_spec 2 ltac:(lia) (pf_div_fuel z) z [] Hz (pf_div_fuel_ok z Hz)) as (z1 & ex1 & E1 & H1 & H2 & H3 & H4 & H5).
  rewrite E1. cbn [bind fst snd app].
  assert (Hp2 : ist_prim 2) by (split; [lia|intros d Hd; lia]).
  assert (Hex1 : Forall ist_prim ex1) by (apply Forall_forall; intros x Hx; rewrite Forall_forall in H5; now rewrite (H5 x Hx)).
  destruct (pf_outer_loop_spec (Z.to_nat (Z.sqrt z1) + 2) z1 3 ex1 H1 ltac:(lia) eq_refl) as (z2 & ex2 & E2 & G1 & G2 & G3 & G4).
  - intros d Hd. assert (d = 2) by lia. subst d. exact H4.
  - exact Hex1.
  - pose proof (Z.sqrt_nonneg z1). lia.
  - rewrite E2. cbn [bind fst snd]. eexists. split; [reflexivity|].
    destruct (z2 >? 2) eqn:E; rewrite Z.gtb_ltb in E.
    + apply Z.ltb_lt in E. split.
      * rewrite !zprod_app. cbn [zprod fold_right]. rewrite H3, G2. fold (zprod ex1). fold (zprod ex2). ring.
      * apply Forall_app. split; [apply Forall_app; split; assumption|]. constructor; [|constructor].
        destruct G4 as [->|G4]; [lia|exact G4].
    + apply Z.ltb_ge in E. split.
      * rewrite zprod_app, H3, G2.
        destruct G4 as [->|[Hgt Hdiv]]; [ring|].
        (* z2 = 2 is impossible: 2 does not divide z1 *)
        exfalso. assert (z2 = 2) by lia. subst z2. apply H4. rewrite G2. apply Z.divide_mul_l. apply Z.divide_refl.
      * apply Forall_app. split; assumption.
Qed.

(* ---- Levenshtein_Distanz against the recursive definition of the edit distance ----
   lev a b: minimal number of insertions, deletions and substitutions, by recursion on the first letters;
   the table of the code works on the last letters of the prefixes, i.e. on the reversed texts. *)
Fixpoint lev (a : text) : text -> Z :=
  match a with
  | [] => fun b => len b
  | x :: a' =>
      fix inner (b : text) : Z :=
        match b with
        | [] => len a' + 1
        | y :: b' => Min3 (lev a' (y :: b') + 1) (inner b' + 1) (lev a' b' + (if x =? y then 0 else 1))
        end
  end.
Lemma lev_cons_cons x a y b : lev (x :: a) (y :: b) = Min3 (lev a (y :: b) + 1) (lev (x :: a) b + 1) (lev a b + (if x =? y then 0 else 1)).
Proof. reflexivity. Qed.
Lemma lev_cons_nil x a : lev (x :: a) [] = len a + 1.
Proof. reflexivity. Qed.
Lemma lev_bound a : forall b, 0 <= lev a b <= len a + len b.
Proof.
  induction a as [|x a IH]; intros b.
  - cbn [lev]. pose proof (len_nonneg b). unfold len in *. cbn [length]. lia.
  - induction b as [|y b IHb].
    + change (lev (x :: a) []) with (len a + 1). rewrite len_cons. pose proof (len_nonneg a). unfold len in *. cbn [length]. lia.
    + rewrite lev_cons_cons, min3_spec. pose proof (IH (y :: b)). pose proof (IH b). rewrite !len_cons in *. destruct (x =? y); lia.
Qed.

Definition D (p q : text) : Z := lev (rev p) (rev q).
(* the prefixes of p2 ++ s2 that extend p2 *)
Definition ext (p2 s2 : text) : list text := map (fun k => p2 ++ firstn k s2) (seq 0 (S (length s2))).
Lemma ext_cons p2 y s2 : ext p2 (y :: s2) = p2 :: ext (p2 ++ [y]) s2.
Proof.
  unfold ext. cbn [length]. change (seq 0 (S (S (length s2)))) with (0%nat :: seq 1 (S (length s2))).
  cbn [map]. cbn [firstn]. rewrite app_nil_r. f_equal.
  rewrite <- seq_shift, map_map. apply map_ext. intros k. cbn [firstn]. now rewrite <- app_assoc.
Qed.
Lemma ext_nil p2 : ext p2 [] = [p2].
Proof. unfold ext. cbn. now rewrite app_nil_r. Qed.

Lemma ext_head q s : ext q s = q :: tl (ext q s).
Proof. destruct s; [now rewrite ext_nil|now rewrite ext_cons]. Qed.

Lemma row_step_lev p c : forall s2 p2 left, len p + 1 + len p2 + len s2 < two63 -> left = D (p ++ [c]) p2 ->
  row_step c s2 (map (D p) (ext p2 s2)) left = map (D (p ++ [c])) (tl (ext p2 s2)).
Proof.
  induction s2 as [|y s2 IH]; intros p2 left Hb Hl.
  - rewrite ext_nil. reflexivity.
  - rewrite ext_cons. cbn [tl]. rewrite (ext_head (p2 ++ [y]) s2) at 1. cbn [map row_step]. cbv zeta.
    assert (Hv : lev_cell c y (D p p2) (D p (p2 ++ [y])) left = D (p ++ [c]) (p2 ++ [y])).
    { unfold lev_cell. rewrite Hl. unfold D. rewrite !rev_app_distr. cbn [rev app]. rewrite lev_cons_cons.
      pose proof (lev_bound (rev p) (y :: rev p2)) as B1. pose proof (lev_bound (c :: rev p) (rev p2)) as B2. pose proof (lev_bound (rev p) (rev p2)) as B3.
      rewrite !len_cons, !len_rev in *. pose proof (len_nonneg s2). unfold two63 in Hb.
      rewrite !wrap64_id by (unfold in_i64, two63; lia).
      f_equal. destruct (c =? y); cbn [negb]; lia. }
    rewrite Hv. rewrite (ext_head (p2 ++ [y]) s2) at 2. cbn [map]. f_equal.
    replace (D p (p2 ++ [y]) :: map (D p) (tl (ext (p2 ++ [y]) s2))) with (map (D p) (ext (p2 ++ [y]) s2))
      by (rewrite (ext_head (p2 ++ [y]) s2) at 1; reflexivity).
    apply IH; [|reflexivity]. rewrite len_app, len_cons, len_nil. rewrite len_cons in Hb. lia.
Qed.

Lemma lev_rows_lev t2 s1 : forall p, len p + len s1 + len t2 < two63 ->
  lev_rows s1 t2 (len p + 1) (map (D p) (ext [] t2)) = map (D (p ++ s1)) (ext [] t2).
Proof.
  induction s1 as [|c s1 IH]; intros p Hb; [now rewrite app_nil_r|].
  cbn [lev_rows]. unfold next_row.
  rewrite (row_step_lev p c t2 [] (len p + 1)).
  - assert (Hhead : ext [] t2 = [] :: tl (ext [] t2)) by (destruct t2; [reflexivity|now rewrite ext_cons]).
    replace (len p + 1 :: map (D (p ++ [c])) (tl (ext [] t2))) with (map (D (p ++ [c])) (ext [] t2)).
    + replace (len p + 1 + 1) with (len (p ++ [c]) + 1) by (rewrite len_app, len_cons, len_nil; lia).
      rewrite IH.
      * now rewrite <- app_assoc.
      * rewrite len_app, len_cons, len_nil. rewrite len_cons in Hb. lia.
    + rewrite Hhead at 1. cbn [map]. f_equal. unfold D. rewrite rev_app_distr. cbn [rev app]. rewrite lev_cons_nil, len_rev. reflexivity.
  - rewrite len_nil. rewrite len_cons in Hb. pose proof (len_nonneg s1). lia.
  - unfold D. rewrite rev_app_distr. cbn [rev app]. rewrite lev_cons_nil, len_rev. reflexivity.
Qed.

(* the edit distance (of the reversed texts, which is where the table starts) for all texts of realistic length *)
Theorem levenshtein_lev t1 t2 : len t1 + len t2 < two63 -> Levenshtein_Distanz t1 t2 = Ok (lev (rev t1) (rev t2)).
Proof.
  intros Hb. rewrite levenshtein_spec. f_equal. unfold lev_ref.
  assert (Hrow0 : zrange_up 0 (S (length t2)) = map (D []) (ext [] t2)).
  { unfold zrange_up, ext. rewrite map_map. apply map_ext_in. intros k Hk. apply in_seq in Hk.
    unfold D. cbn [rev app lev]. rewrite len_rev. unfold len. rewrite firstn_length. lia. }
  rewrite Hrow0. pose proof (lev_rows_lev t2 t1 [] ltac:(rewrite len_nil; lia)) as H. rewrite len_nil in H. cbn [app Z.add] in H.
  rewrite H. unfold ext. rewrite map_map.
  rewrite (nth_indep _ 0 (D t1 ([] ++ firstn (length t2) t2))) by (rewrite map_length, seq_length; lia).
  rewrite (map_nth (fun k => D t1 ([] ++ firstn k t2)) (seq 0 (S (length t2))) (length t2) (length t2)).
  rewrite seq_nth by lia. cbn [app Nat.add]. now rewrite firstn_all.
Qed.
