(* C17 — transcription of lib/stdlib/source/DDP/lists.c (generic list primitives over a raw element
   array) and of the list functions of lib/stdlib/Duden/Listen.ddp.
   A ddpgenericlist is modelled by its element sequence; every grow_if_needed/memmove/memcpy group
   of a C primitive is summarised by its net effect on that sequence, the control flow around it
   (index checks) is transcribed literally.  Capacity and element ownership
   (claim_non_primitive / free_func) are C12's concern and not modelled. *)
From Coq Require Import List ZArith Bool Lia.
From DDP Require Import Lib.Base.
Import ListNotations.
Open Scope Z_scope.

Section CPrims.
  Context {A : Type}.

  (* grow_if_needed + memcpy at the end *)
  Definition efficient_list_append (l : list A) (elem : A) : list A := l ++ [elem].
  (* grow_if_needed + memmove by one cell + memcpy at the front *)
  Definition efficient_list_prepend (l : list A) (elem : A) : list A := elem :: l.
  Definition efficient_list_append_list (l other : list A) : list A := l ++ other.
  Definition efficient_list_prepend_list (l other : list A) : list A := other ++ l.

  (* inclusive range, 0-based indices:
       if (start > end) ddp_runtime_error(...);
       if (start < 0 || end >= list->len) ddp_runtime_error(...);
       memmove(&arr[start], &arr[end + 1], (len - end - 1) cells); len -= end - start + 1; *)
  Definition efficient_list_delete_range (l : list A) (start end_ : Z) : res (list A) :=
    if start >? end_ then Err
    else if (start <? 0) || (end_ >=? len l) then Err
    else Ok (firstn (Z.to_nat start) l ++ skipn (Z.to_nat (end_ + 1)) l).

  (* 0-based index:
       if (index < 0 || index > list->len) ddp_runtime_error(...);
       grow; memmove(&arr[index + 1], &arr[index], (len - index) cells); memcpy(&arr[index], elem); len++ *)
  Definition efficient_list_insert (l : list A) (index : Z) (elem : A) : res (list A) :=
    if (index <? 0) || (index >? len l) then Err
    else Ok (firstn (Z.to_nat index) l ++ elem :: skipn (Z.to_nat index) l).

  Definition efficient_list_insert_range (l : list A) (index : Z) (other : list A) : res (list A) :=
    if (index <? 0) || (index >? len l) then Err
    else Ok (firstn (Z.to_nat index) l ++ other ++ skipn (Z.to_nat index) l).
End CPrims.

(* ---------------------------------------------------------------------------------------------
   Listen.ddp.  A `T Listen Referenz` parameter is modelled by returning the new list; value
   parameters are immutable by construction of a functional model (the harness checks this on
   the real code).  The DDP wrappers pass `index minus 1` to the C primitives. *)
Section Listen.
  Context {A : Type} (junk : A) (eqb : A -> A -> bool).

  Definition Leere_Liste (liste : list A) : list A := [].
  Definition Hinzufuegen_Liste (liste : list A) (elm : A) : list A := efficient_list_append liste elm.
  Definition Hinzufuegen_Liste_Liste (liste other : list A) : list A := efficient_list_append_list liste other.
  Definition Einfuegen_Liste (liste : list A) (index : Z) (elm : A) : res (list A) := efficient_list_insert liste (index - 1) elm.
  Definition Einfuegen_Bereich_Liste (liste : list A) (index : Z) (range : list A) : res (list A) :=
    efficient_list_insert_range liste (index - 1) range.
  Definition Voranstellen_Liste (liste : list A) (elm : A) : list A := efficient_list_prepend liste elm.
  Definition Voranstellen_Liste_Liste (liste other : list A) : list A := efficient_list_prepend_list liste other.
  (* Speichere index minus 1 in index. efficient_list_delete_range liste index index v. *)
  Definition Loesche_Element (liste : list A) (index : Z) : res (list A) :=
    let index := index - 1 in efficient_list_delete_range liste index index.
  Definition Loesche_Bereich (liste : list A) (start end_ : Z) : res (list A) :=
    efficient_list_delete_range liste (start - 1) (end_ - 1).

  (* Für jede Zahl i von 1 bis die Länge von liste, speichere elm in liste an der Stelle i. *)
  Fixpoint fuellen_loop (n : nat) (i : Z) (liste : list A) (elm : A) : res (list A) :=
    match n with
    | O => Ok liste
    | S n' => do l' <- wr liste i elm;; fuellen_loop n' (i + 1) l' elm
    end.
  Definition Fuellen_Liste (liste : list A) (elm : A) : res (list A) := fuellen_loop (length liste) 1 liste elm.

  (* Für jede Zahl i von 1 bis die Länge von liste, wenn liste an der Stelle i gleich elm ist, gib i zurück. Gib -1 zurück. *)
  Fixpoint index_loop (n : nat) (i : Z) (liste : list A) (elm : A) : res Z :=
    match n with
    | O => Ok (-1)
    | S n' => do e <- rd liste i;; if eqb e elm then Ok i else index_loop n' (i + 1) liste elm
    end.
  Definition Index_Von_Element_Ref (liste : list A) (elm : A) : res Z := index_loop (length liste) 1 liste elm.
  Definition Index_Von_Element (liste : list A) (elm : A) : res Z := Index_Von_Element_Ref liste elm.

  (* Für jedes T e in liste, wenn e gleich elm ist, gib wahr zurück. Gib falsch zurück. *)
  Fixpoint Enthaelt_Wert_Ref (liste : list A) (elm : A) : bool :=
    match liste with [] => false | e :: r => if eqb e elm then true else Enthaelt_Wert_Ref r elm end.
  Definition Enthaelt_Wert (liste : list A) (elm : A) : bool := Enthaelt_Wert_Ref liste elm.

  Definition Ist_Leer_Liste_Ref (liste : list A) : bool := len liste =? 0.
  Definition Ist_Leer_Liste (liste : list A) : bool := Ist_Leer_Liste_Ref liste.

  Definition Erste_N_Elemente_Liste_Ref (liste : list A) (n : Z) : res (list A) := slice_to liste n.
  Definition Erste_N_Elemente_Liste (liste : list A) (n : Z) : res (list A) := Erste_N_Elemente_Liste_Ref liste n.
  Definition Letzten_N_Elemente_Liste_Ref (liste : list A) (n : Z) : res (list A) := slice_from liste (len liste - n + 1).
  Definition Letzten_N_Elemente_Liste (liste : list A) (n : Z) : res (list A) := Letzten_N_Elemente_Liste_Ref liste n.

  (* Die T Liste neu ist die Länge von liste Mal der Standardwert von einem T.
     Für jede Zahl i von 1 bis die Länge von liste, Speichere liste an der Stelle i in neu an der Stelle (die Länge von liste minus i plus 1). *)
  Fixpoint spiegeln_loop (n : nat) (i : Z) (liste neu : list A) : res (list A) :=
    match n with
    | O => Ok neu
    | S n' => do e <- rd liste i;; do neu' <- wr neu (len liste - i + 1) e;; spiegeln_loop n' (i + 1) liste neu'
    end.
  Definition Liste_Spiegeln_Ref (liste : list A) : res (list A) :=
    do neu <- mal (len liste) junk;; spiegeln_loop (length liste) 1 liste neu.
  Definition Liste_Spiegeln (liste : list A) : res (list A) := Liste_Spiegeln_Ref liste.
End Listen.

(* ---- instances at T = Zahl -------------------------------------------------------------------- *)
(* Das T summe ist der Standardwert von einem T. Für jedes T e in liste, erhöhe summe um e. *)
Fixpoint summe_loop (liste : list Z) (summe : Z) : Z :=
  match liste with [] => summe | e :: r => summe_loop r (wrap64 (summe + e)) end.
Definition Summe_Liste (liste : list Z) : Z := summe_loop liste 0.

Fixpoint produkt_loop (liste : list Z) (prod : Z) : Z :=
  match liste with [] => prod | e :: r => produkt_loop r (wrap64 (prod * e)) end.
Definition Produkt_Liste (liste : list Z) : Z := if len liste =? 0 then 0 else produkt_loop liste 1.

(* Die T Liste erg ist l1. Für jede Zahl i von 1 bis die Länge von l1, erhöhe erg an der Stelle i um l2 an der Stelle i. *)
Fixpoint elementweise_loop (op : Z -> Z -> Z) (n : nat) (i : Z) (erg l2 : list Z) : res (list Z) :=
  match n with
  | O => Ok erg
  | S n' => do a <- rd erg i;; do b <- rd l2 i;; do erg' <- wr erg i (wrap64 (op a b));; elementweise_loop op n' (i + 1) erg' l2
  end.
Definition Elementweise_Summe (l1 l2 : list Z) : res (list Z) := elementweise_loop Z.add (length l1) 1 l1 l2.
Definition Elementweise_Differenz (l1 l2 : list Z) : res (list Z) := elementweise_loop Z.sub (length l1) 1 l1 l2.
Definition Elementweise_Produkt (l1 l2 : list Z) : res (list Z) := elementweise_loop Z.mul (length l1) 1 l1 l2.

(* Die Zahlen Liste l ist ende minus start plus 1 Mal 0.
   Für jede Zahl i von 0 bis ende minus start, mache: Speichere start plus i in l an der Stelle (i plus 1). *)
Fixpoint aufsteigend_loop (n : nat) (i start : Z) (l : list Z) : res (list Z) :=
  match n with
  | O => Ok l
  | S n' => do l' <- wr l (i + 1) (start + i);; aufsteigend_loop n' (i + 1) start l'
  end.
Definition Aufsteigende_Zahlen (start ende : Z) : res (list Z) :=
  do l <- mal (ende - start + 1) 0;; aufsteigend_loop (Z.to_nat (ende - start + 1)) 0 start l.

(* Die Zahlen Liste l ist start minus ende plus 1 Mal 0.
   Für jede Zahl i von start bis ende mit Schrittgröße -1, mache: Speichere i in l an der Stelle (start minus i plus 1). *)
Fixpoint absteigend_loop (n : nat) (i start : Z) (l : list Z) : res (list Z) :=
  match n with
  | O => Ok l
  | S n' => do l' <- wr l (start - i + 1) i;; absteigend_loop n' (i - 1) start l'
  end.
Definition Absteigende_Zahlen (start ende : Z) : res (list Z) :=
  do l <- mal (start - ende + 1) 0;; absteigend_loop (Z.to_nat (start - ende + 1)) start start l.

(* ---- Buchstaben / Text lists ------------------------------------------------------------------- *)
(* lists.c Aneinandergehaengt_Buchstabe_Ref: two passes over the characters (byte count, encoding); at
   code-point level the result is the text made of the characters *)
Definition Aneinandergehaengt_Buchstabe_Ref (liste : list Z) : list Z := liste.
Definition Aneinandergehaengt_Buchstabe (liste : list Z) : list Z := Aneinandergehaengt_Buchstabe_Ref liste.

(* Der Text text ist "". Für jeden Text t in liste, speichere text verkettet mit t in text. *)
Fixpoint verketten_loop (liste : list (list Z)) (text : list Z) : list Z :=
  match liste with [] => text | t :: r => verketten_loop r (text ++ t) end.
Definition Verketten_Text_Liste_Ref (liste : list (list Z)) : list Z := verketten_loop liste [].
Definition Verketten_Text_Liste (liste : list (list Z)) : list Z := Verketten_Text_Liste_Ref liste.

(* Die Text Liste erg ist l1. Für jede Zahl i von 1 bis die Länge von l1,
   speichere l1 an der Stelle i verkettet mit l2 an der Stelle i in erg an der Stelle i. *)
Fixpoint elw_verketten_loop (n : nat) (i : Z) (l1 l2 erg : list (list Z)) : res (list (list Z)) :=
  match n with
  | O => Ok erg
  | S n' => do a <- rd l1 i;; do b <- rd l2 i;; do erg' <- wr erg i (a ++ b);; elw_verketten_loop n' (i + 1) l1 l2 erg'
  end.
Definition Elementweise_Verketten_Text_Ref (l1 l2 : list (list Z)) : res (list (list Z)) := elw_verketten_loop (length l1) 1 l1 l2 l1.
Definition Elementweise_Verketten_Text (l1 l2 : list (list Z)) : res (list (list Z)) := Elementweise_Verketten_Text_Ref l1 l2.
