(* C17 — the list functions of Listen.ddp / lists.c refine the Coq list library *)
From Coq Require Import List ZArith Bool Lia Permutation.
From DDP Require Import Lib.Base Lib.BaseProofs Lib.ListFns.
Import ListNotations.
Open Scope Z_scope.

Section Generic.
  Context {A : Type} (junk : A) (eqb : A -> A -> bool).

  (* ---- C primitives and their wrappers ---- *)
  Lemma hinzufuegen_spec (l : list A) x : Hinzufuegen_Liste l x = l ++ [x].
  Proof. reflexivity. Qed.
  Lemma hinzufuegen_liste_spec (l o : list A) : Hinzufuegen_Liste_Liste l o = l ++ o.
  Proof. reflexivity. Qed.
  Lemma voranstellen_spec (l : list A) x : Voranstellen_Liste l x = x :: l.
  Proof. reflexivity. Qed.
  Lemma voranstellen_liste_spec (l o : list A) : Voranstellen_Liste_Liste l o = o ++ l.
  Proof. reflexivity. Qed.
  Lemma leere_spec (l : list A) : Leere_Liste l = [].
  Proof. reflexivity. Qed.

  Lemma einfuegen_spec (l : list A) i x : 1 <= i <= len l + 1 ->
    Einfuegen_Liste l i x = Ok (firstn (Z.to_nat (i - 1)) l ++ x :: skipn (Z.to_nat (i - 1)) l).
  Proof.
    intros H. unfold Einfuegen_Liste, efficient_list_insert.
    replace (i - 1 <? 0) with false by (symmetry; apply Z.ltb_ge; lia).
    replace (i - 1 >? len l) with false by (symmetry; rewrite Z.gtb_ltb; apply Z.ltb_ge; lia).
    reflexivity.
  Qed.
  Lemma einfuegen_err (l : list A) i x : i < 1 \/ len l + 1 < i -> Einfuegen_Liste l i x = Err.
  Proof.
    intros H. unfold Einfuegen_Liste, efficient_list_insert.
    destruct (i - 1 <? 0) eqn:E1; [reflexivity|]. apply Z.ltb_ge in E1.
    destruct (i - 1 >? len l) eqn:E2; [reflexivity|]. rewrite Z.gtb_ltb in E2. apply Z.ltb_ge in E2. lia.
  Qed.
  Lemma einfuegen_bereich_spec (l : list A) i r : 1 <= i <= len l + 1 ->
    Einfuegen_Bereich_Liste l i r = Ok (firstn (Z.to_nat (i - 1)) l ++ r ++ skipn (Z.to_nat (i - 1)) l).
  Proof.
    intros H. unfold Einfuegen_Bereich_Liste, efficient_list_insert_range.
    replace (i - 1 <? 0) with false by (symmetry; apply Z.ltb_ge; lia).
    replace (i - 1 >? len l) with false by (symmetry; rewrite Z.gtb_ltb; apply Z.ltb_ge; lia).
    reflexivity.
  Qed.
  Lemma einfuegen_bereich_err (l : list A) i r : i < 1 \/ len l + 1 < i -> Einfuegen_Bereich_Liste l i r = Err.
  Proof.
    intros H. unfold Einfuegen_Bereich_Liste, efficient_list_insert_range.
    destruct (i - 1 <? 0) eqn:E1; [reflexivity|]. apply Z.ltb_ge in E1.
    destruct (i - 1 >? len l) eqn:E2; [reflexivity|]. rewrite Z.gtb_ltb in E2. apply Z.ltb_ge in E2. lia.
  Qed.

  (* the documented behaviour: the inclusive range is removed; every invalid index raises *)
  Lemma loesche_bereich_spec (l : list A) s e : 1 <= s -> s <= e -> e <= len l ->
    Loesche_Bereich l s e = Ok (firstn (Z.to_nat (s - 1)) l ++ skipn (Z.to_nat e) l).
  Proof.
    intros H1 H2 H3. unfold Loesche_Bereich, efficient_list_delete_range.
    replace (s - 1 >? e - 1) with false by (symmetry; rewrite Z.gtb_ltb; apply Z.ltb_ge; lia).
    replace (s - 1 <? 0) with false by (symmetry; apply Z.ltb_ge; lia).
    replace (e - 1 >=? len l) with false by (symmetry; rewrite Z.geb_leb; apply Z.leb_gt; lia).
    cbn [orb]. replace (e - 1 + 1) with e by lia. reflexivity.
  Qed.
  Lemma loesche_bereich_err (l : list A) s e : ~ (1 <= s /\ s <= e /\ e <= len l) -> Loesche_Bereich l s e = Err.
  Proof.
    intros H. unfold Loesche_Bereich, efficient_list_delete_range.
    destruct (s - 1 >? e - 1) eqn:E1; [reflexivity|]. rewrite Z.gtb_ltb in E1. apply Z.ltb_ge in E1.
    destruct (s - 1 <? 0) eqn:E2; [reflexivity|]. apply Z.ltb_ge in E2.
    destruct (e - 1 >=? len l) eqn:E3; [reflexivity|]. rewrite Z.geb_leb in E3. apply Z.leb_gt in E3. lia.
  Qed.
  Lemma loesche_element_spec (l : list A) i : 1 <= i <= len l ->
    Loesche_Element l i = Ok (firstn (Z.to_nat (i - 1)) l ++ skipn (Z.to_nat i) l).
  Proof. intros H. apply (loesche_bereich_spec l i i); lia. Qed.
  Lemma loesche_element_err (l : list A) i : i < 1 \/ len l < i -> Loesche_Element l i = Err.
  Proof. intros H. apply (loesche_bereich_err l i i). lia. Qed.

  (* ---- Füllen ---- *)
  Lemma fuellen_loop_inv (suf pre : list A) x :
    fuellen_loop (length suf) (len pre + 1) (pre ++ suf) x = Ok (pre ++ repeat x (length suf)).
  Proof.
    revert pre. induction suf as [|y suf IH]; intros pre; cbn [fuellen_loop length repeat].
    - reflexivity.
    - rewrite wr_mid. cbn [bind].
      replace (pre ++ x :: suf) with ((pre ++ [x]) ++ suf) by (rewrite <- app_assoc; reflexivity).
      replace (len pre + 1 + 1) with (len (pre ++ [x]) + 1) by (rewrite len_app, len_cons, len_nil; lia).
      rewrite IH. rewrite <- app_assoc. reflexivity.
  Qed.
  Lemma fuellen_spec (l : list A) x : Fuellen_Liste l x = Ok (repeat x (length l)).
  Proof. unfold Fuellen_Liste. apply (fuellen_loop_inv l [] x). Qed.

  (* ---- Index_Von / Enthält ---- *)
  Definition has (l : list A) (x : A) : bool := existsb (fun e => eqb e x) l.

  Lemma index_loop_inv (suf pre : list A) x :
    exists r, index_loop eqb (length suf) (len pre + 1) (pre ++ suf) x = Ok r /\
      ((r = -1 /\ has suf x = false) \/
       (exists s1 e s2, suf = s1 ++ e :: s2 /\ r = len pre + len s1 + 1 /\ eqb e x = true /\ has s1 x = false)).
  Proof.
    revert pre. induction suf as [|y suf IH]; intros pre; cbn [index_loop length].
    - exists (-1). split; [reflexivity|]. left. split; reflexivity.
    - rewrite rd_mid. cbn [bind]. destruct (eqb y x) eqn:E.
      + exists (len pre + 1). split; [reflexivity|]. right. exists [], y, suf.
        rewrite len_nil. repeat split; try reflexivity; try assumption; try lia.
      + replace (pre ++ y :: suf) with ((pre ++ [y]) ++ suf) by (rewrite <- app_assoc; reflexivity).
        replace (len pre + 1 + 1) with (len (pre ++ [y]) + 1) by (rewrite len_app, len_cons, len_nil; lia).
        destruct (IH (pre ++ [y])) as (r & Hr & Hc). exists r. split; [exact Hr|].
        destruct Hc as [[-> Hn] | (s1 & e & s2 & -> & -> & He & Hs1)].
        * left. split; [reflexivity|]. unfold has in *. cbn [existsb]. rewrite E, Hn. reflexivity.
        * right. exists (y :: s1), e, s2. rewrite len_app, !len_cons, len_nil.
          repeat split; try reflexivity; try assumption; try lia.
          unfold has in *. cbn [existsb]. rewrite E, Hs1. reflexivity.
  Qed.

  (* first occurrence (1-based) or -1 *)
  Lemma index_von_spec (l : list A) x :
    exists r, Index_Von_Element_Ref eqb l x = Ok r /\
      ((r = -1 /\ has l x = false) \/
       (exists s1 e s2, l = s1 ++ e :: s2 /\ r = len s1 + 1 /\ eqb e x = true /\ has s1 x = false)).
  Proof.
    destruct (index_loop_inv l [] x) as (r & Hr & Hc). exists r. split; [exact Hr|].
    rewrite len_nil in Hc. destruct Hc as [H|(s1 & e & s2 & H1 & H2 & H3 & H4)]; [left; exact H|].
    right. exists s1, e, s2. repeat split; try assumption; try lia.
  Qed.
  Lemma index_von_value_spec (l : list A) x : Index_Von_Element eqb l x = Index_Von_Element_Ref eqb l x.
  Proof. reflexivity. Qed.

  Lemma enthaelt_spec (l : list A) x : Enthaelt_Wert_Ref eqb l x = has l x.
  Proof.
    induction l as [|e r IH]; cbn [Enthaelt_Wert_Ref has existsb]; [reflexivity|].
    destruct (eqb e x); [reflexivity|]. exact IH.
  Qed.
  Lemma enthaelt_In (l : list A) x : (forall a b, eqb a b = true <-> a = b) ->
    (Enthaelt_Wert eqb l x = true <-> In x l).
  Proof.
    intros Heq. unfold Enthaelt_Wert. rewrite enthaelt_spec. unfold has. rewrite existsb_exists. split.
    - intros (e & Hin & He). apply Heq in He. now subst.
    - intros Hin. exists x. split; [assumption|]. now apply Heq.
  Qed.

  Lemma ist_leer_spec (l : list A) : Ist_Leer_Liste l = true <-> l = [].
  Proof.
    unfold Ist_Leer_Liste, Ist_Leer_Liste_Ref. rewrite Z.eqb_eq. split.
    - apply len_zero_nil.
    - intros ->. reflexivity.
  Qed.

  (* ---- slicing helpers ---- *)
  Lemma erste_n_spec (l : list A) n : 1 <= n <= len l -> Erste_N_Elemente_Liste l n = Ok (firstn (Z.to_nat n) l).
  Proof. intros H. apply slice_to_in. exact H. Qed.
  (* the doc comment defers to the operator `liste bis zum n. Element` for every n *)
  Lemma erste_n_is_operator (l : list A) n : Erste_N_Elemente_Liste_Ref l n = slice_to l n.
  Proof. reflexivity. Qed.
  Lemma letzten_n_spec (l : list A) n : 1 <= n <= len l ->
    Letzten_N_Elemente_Liste l n = Ok (skipn (Z.to_nat (len l - n)) l).
  Proof.
    intros H. unfold Letzten_N_Elemente_Liste, Letzten_N_Elemente_Liste_Ref.
    rewrite slice_from_in by lia. replace (len l - n + 1 - 1) with (len l - n) by lia. reflexivity.
  Qed.

  (* ---- Spiegeln ---- *)
  Lemma repeat_snoc (x : A) n : repeat x (S n) = repeat x n ++ [x].
  Proof. induction n as [|n IH]; [reflexivity|]. cbn [repeat app] in *. now rewrite <- IH. Qed.

  Lemma spiegeln_loop_inv (suf pre : list A) :
    spiegeln_loop (length suf) (len pre + 1) (pre ++ suf) (repeat junk (length suf) ++ rev pre) = Ok (rev (pre ++ suf)).
  Proof.
    revert pre. induction suf as [|y suf IH]; intros pre; cbn [spiegeln_loop length].
    - cbn [repeat app]. now rewrite app_nil_r.
    - rewrite rd_mid. cbn [bind].
      rewrite repeat_snoc, <- app_assoc. cbn [app].
      replace (len (pre ++ y :: suf) - (len pre + 1) + 1) with (len (repeat junk (length suf)) + 1)
        by (rewrite len_app, len_cons, len_repeat; unfold len; lia).
      rewrite wr_mid. cbn [bind].
      replace (pre ++ y :: suf) with ((pre ++ [y]) ++ suf) by (rewrite <- app_assoc; reflexivity).
      replace (len pre + 1 + 1) with (len (pre ++ [y]) + 1) by (rewrite len_app, len_cons, len_nil; lia).
      replace (y :: rev pre) with (rev (pre ++ [y])) by (rewrite rev_app_distr; reflexivity).
      apply IH.
  Qed.
  Lemma spiegeln_spec (l : list A) : Liste_Spiegeln_Ref junk l = Ok (rev l).
  Proof.
    unfold Liste_Spiegeln_Ref, mal.
    replace (len l <? 0) with false by (symmetry; apply Z.ltb_ge; apply len_nonneg).
    cbn [bind]. rewrite to_nat_len.
    pose proof (spiegeln_loop_inv l []) as H. cbn [rev app len length] in H.
    rewrite app_nil_r in H. exact H.
  Qed.
  Lemma spiegeln_value_spec (l : list A) : Liste_Spiegeln junk l = Ok (rev l).
  Proof. apply spiegeln_spec. Qed.
End Generic.

(* ---- Zahl instances ----------------------------------------------------------------------------- *)
Definition zsum (l : list Z) : Z := fold_right Z.add 0 l.
Definition zprod (l : list Z) : Z := fold_right Z.mul 1 l.

Lemma summe_loop_inv l acc : summe_loop l (wrap64 acc) = wrap64 (acc + zsum l).
Proof.
  revert acc. induction l as [|e r IH]; intros acc; cbn [summe_loop zsum fold_right].
  - now rewrite Z.add_0_r.
  - rewrite wrap64_add_l. rewrite IH. f_equal. unfold zsum. lia.
Qed.
Lemma summe_spec l : Summe_Liste l = wrap64 (zsum l).
Proof.
  unfold Summe_Liste. replace 0 with (wrap64 0) at 1 by reflexivity.
  rewrite summe_loop_inv. reflexivity.
Qed.
Lemma summe_exact l : in_i64 (zsum l) -> Summe_Liste l = zsum l.
Proof. intros H. rewrite summe_spec. now apply wrap64_id. Qed.

Lemma produkt_loop_inv l acc : produkt_loop l (wrap64 acc) = wrap64 (acc * zprod l).
Proof.
  revert acc. induction l as [|e r IH]; intros acc; cbn [produkt_loop zprod fold_right].
  - now rewrite Z.mul_1_r.
  - rewrite wrap64_mul_l. rewrite IH. f_equal. unfold zprod. lia.
Qed.
Lemma produkt_spec l : l <> [] -> Produkt_Liste l = wrap64 (zprod l).
Proof.
  intros H. unfold Produkt_Liste.
  destruct l as [|x r]; [congruence|].
  replace (len (x :: r) =? 0) with false
    by (symmetry; apply Z.eqb_neq; rewrite len_cons; pose proof (len_nonneg r); lia).
  replace 1 with (wrap64 1) at 1 by reflexivity.
  rewrite produkt_loop_inv. f_equal. lia.
Qed.
Lemma produkt_leer : Produkt_Liste [] = 0.
Proof. reflexivity. Qed.

Definition zip_with (op : Z -> Z -> Z) (l1 l2 : list Z) : list Z :=
  map (fun p => wrap64 (op (fst p) (snd p))) (combine l1 l2).

Lemma elementweise_loop_inv op (s1 s2 pre p2 : list Z) : length s1 = length s2 -> len p2 = len pre ->
  elementweise_loop op (length s1) (len pre + 1) (pre ++ s1) (p2 ++ s2) = Ok (pre ++ zip_with op s1 s2).
Proof.
  revert s2 pre p2. induction s1 as [|a s1 IH]; intros [|b s2] pre p2 Hl Hp; cbn [length] in Hl; try lia;
    cbn [elementweise_loop length].
  - unfold zip_with. cbn. reflexivity.
  - rewrite rd_mid. cbn [bind]. rewrite <- Hp. rewrite rd_mid. cbn [bind]. rewrite Hp. rewrite wr_mid. cbn [bind].
    replace (pre ++ wrap64 (op a b) :: s1) with ((pre ++ [wrap64 (op a b)]) ++ s1) by (rewrite <- app_assoc; reflexivity).
    replace (p2 ++ b :: s2) with ((p2 ++ [b]) ++ s2) by (rewrite <- app_assoc; reflexivity).
    replace (len pre + 1 + 1) with (len (pre ++ [wrap64 (op a b)]) + 1) by (rewrite len_app, len_cons, len_nil; lia).
    rewrite IH.
    + rewrite <- app_assoc. reflexivity.
    + lia.
    + rewrite !len_app, !len_cons, !len_nil. lia.
Qed.
Lemma elementweise_summe_spec l1 l2 : length l1 = length l2 -> Elementweise_Summe l1 l2 = Ok (zip_with Z.add l1 l2).
Proof. intros H. apply (elementweise_loop_inv Z.add l1 l2 [] [] H eq_refl). Qed.
Lemma elementweise_differenz_spec l1 l2 : length l1 = length l2 -> Elementweise_Differenz l1 l2 = Ok (zip_with Z.sub l1 l2).
Proof. intros H. apply (elementweise_loop_inv Z.sub l1 l2 [] [] H eq_refl). Qed.
Lemma elementweise_produkt_spec l1 l2 : length l1 = length l2 -> Elementweise_Produkt l1 l2 = Ok (zip_with Z.mul l1 l2).
Proof. intros H. apply (elementweise_loop_inv Z.mul l1 l2 [] [] H eq_refl). Qed.

(* ---- Aufsteigende / Absteigende Zahlen --------------------------------------------------------- *)
Definition zrange_up (start : Z) (n : nat) : list Z := map (fun k => start + Z.of_nat k) (seq 0 n).
Definition zrange_down (start : Z) (n : nat) : list Z := map (fun k => start - Z.of_nat k) (seq 0 n).

Lemma aufsteigend_loop_inv n pre start :
  aufsteigend_loop n (len pre) start (pre ++ repeat 0 n) = Ok (pre ++ map (fun k => start + len pre + Z.of_nat k) (seq 0 n)).
Proof.
  revert pre. induction n as [|n IH]; intros pre; cbn [aufsteigend_loop repeat seq map].
  - reflexivity.
  - rewrite wr_mid. cbn [bind].
    replace (pre ++ (start + len pre) :: repeat 0 n) with ((pre ++ [start + len pre]) ++ repeat 0 n) by (rewrite <- app_assoc; reflexivity).
    replace (len pre + 1) with (len (pre ++ [start + len pre])) by (rewrite len_app, len_cons, len_nil; lia).
    rewrite IH. rewrite <- app_assoc. cbn [app]. do 3 f_equal.
    + cbn. lia.
    + rewrite <- seq_shift, map_map. apply map_ext. intros k.
      rewrite len_app, len_cons, len_nil. lia.
Qed.
Lemma aufsteigende_spec start ende : start <= ende + 1 ->
  Aufsteigende_Zahlen start ende = Ok (zrange_up start (Z.to_nat (ende - start + 1))).
Proof.
  intros H. unfold Aufsteigende_Zahlen, mal.
  replace (ende - start + 1 <? 0) with false by (symmetry; apply Z.ltb_ge; lia).
  cbn [bind]. pose proof (aufsteigend_loop_inv (Z.to_nat (ende - start + 1)) [] start) as Hi.
  cbn [app] in Hi. rewrite len_nil in Hi. rewrite Hi. unfold zrange_up. f_equal. apply map_ext. intros k. cbn. lia.
Qed.

Lemma absteigend_loop_inv n pre start :
  absteigend_loop n (start - len pre) start (pre ++ repeat 0 n) = Ok (pre ++ map (fun k => start - len pre - Z.of_nat k) (seq 0 n)).
Proof.
  revert pre. induction n as [|n IH]; intros pre; cbn [absteigend_loop repeat seq map].
  - reflexivity.
  - replace (start - (start - len pre) + 1) with (len pre + 1) by lia.
    rewrite wr_mid. cbn [bind].
    replace (pre ++ (start - len pre) :: repeat 0 n) with ((pre ++ [start - len pre]) ++ repeat 0 n) by (rewrite <- app_assoc; reflexivity).
    replace (start - len pre - 1) with (start - len (pre ++ [start - len pre])) by (rewrite len_app, len_cons, len_nil; lia).
    rewrite IH. rewrite <- app_assoc. cbn [app]. do 3 f_equal.
    + cbn. lia.
    + rewrite <- seq_shift, map_map. apply map_ext. intros k.
      rewrite len_app, len_cons, len_nil. lia.
Qed.
Lemma absteigende_spec start ende : ende <= start + 1 ->
  Absteigende_Zahlen start ende = Ok (zrange_down start (Z.to_nat (start - ende + 1))).
Proof.
  intros H. unfold Absteigende_Zahlen, mal.
  replace (start - ende + 1 <? 0) with false by (symmetry; apply Z.ltb_ge; lia).
  cbn [bind]. pose proof (absteigend_loop_inv (Z.to_nat (start - ende + 1)) [] start) as Hi.
  cbn [app] in Hi. rewrite len_nil in Hi. replace (start - 0) with start in Hi by lia.
  rewrite Hi. unfold zrange_down. f_equal; try (apply map_ext; intros k; cbn; lia).
Qed.

(* ---- Text / Buchstaben lists --------------------------------------------------------------------- *)
Lemma verketten_loop_inv (l : list (list Z)) acc : verketten_loop l acc = acc ++ concat l.
Proof.
  revert acc. induction l as [|t r IH]; intros acc; cbn [verketten_loop concat].
  - now rewrite app_nil_r.
  - rewrite IH. now rewrite <- app_assoc.
Qed.
Lemma verketten_spec (l : list (list Z)) : Verketten_Text_Liste l = concat l.
Proof. unfold Verketten_Text_Liste, Verketten_Text_Liste_Ref. now rewrite verketten_loop_inv. Qed.

Lemma aneinandergehaengt_spec (l : list Z) : Aneinandergehaengt_Buchstabe l = l.
Proof. reflexivity. Qed.

Definition zip_app (l1 l2 : list (list Z)) : list (list Z) := map (fun p => fst p ++ snd p) (combine l1 l2).

Lemma elw_verketten_loop_inv (s1 s2 pre p2 done : list (list Z)) : length s1 = length s2 -> len p2 = len pre -> len done = len pre ->
  elw_verketten_loop (length s1) (len pre + 1) (pre ++ s1) (p2 ++ s2) (done ++ s1) = Ok (done ++ zip_app s1 s2).
Proof.
  revert s2 pre p2 done. induction s1 as [|a s1 IH]; intros [|b s2] pre p2 done Hl Hp Hd; cbn [length] in Hl; try lia;
    cbn [elw_verketten_loop length].
  - reflexivity.
  - rewrite rd_mid. cbn [bind]. rewrite <- Hp. rewrite rd_mid. cbn [bind]. rewrite Hp, <- Hd. rewrite wr_mid. cbn [bind].
    replace (done ++ (a ++ b) :: s1) with ((done ++ [a ++ b]) ++ s1) by (rewrite <- app_assoc; reflexivity).
    replace (pre ++ a :: s1) with ((pre ++ [a]) ++ s1) by (rewrite <- app_assoc; reflexivity).
    replace (p2 ++ b :: s2) with ((p2 ++ [b]) ++ s2) by (rewrite <- app_assoc; reflexivity).
    replace (len done + 1 + 1) with (len (pre ++ [a]) + 1) by (rewrite len_app, len_cons, len_nil; lia).
    rewrite IH.
    + rewrite <- app_assoc. reflexivity.
    + lia.
    + rewrite !len_app, !len_cons, !len_nil. lia.
    + rewrite !len_app, !len_cons, !len_nil. lia.
Qed.
Lemma elw_verketten_spec l1 l2 : length l1 = length l2 -> Elementweise_Verketten_Text l1 l2 = Ok (zip_app l1 l2).
Proof. intros H. apply (elw_verketten_loop_inv l1 l2 [] [] [] H eq_refl eq_refl). Qed.

