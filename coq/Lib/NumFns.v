(* C17 — transcription of the pure integer functions of Duden/Mathe.ddp and Duden/Statistik.ddp.
   Kommazahlen that occur (Floor/Ceil/Trunc arguments, Statistik list elements) are modelled as exact
   rationals n/d over a fixed positive denominator d (the harness uses quarters, which are exact in
   IEEE doubles, so every operation of the real code on them is exact as well). *)
From Coq Require Import List ZArith Bool Lia.
From DDP Require Import Lib.Base.
Import ListNotations.
Open Scope Z_scope.

(* Wenn a größer als, oder b ist, gib a zurück. Gib b zurück. *)
Definition Max (a b : Z) : Z := if a >=? b then a else b.
Definition Max3 (a b c : Z) : Z :=
  if (a >=? b) && (a >=? c) then a else if (b >=? a) && (b >=? c) then b else c.
Definition Min (a b : Z) : Z := if a <=? b then a else b.
Definition Min3 (a b c : Z) : Z :=
  if (a <=? b) && (a <=? c) then a else if (b <=? a) && (b <=? c) then b else c.
(* parameters (wert, max, min) *)
Definition Clamp (wert max min : Z) : Z := if wert >? max then max else if wert <? min then min else wert.
Definition Sign (wert : Z) : Z := if wert <? 0 then -1 else if wert >? 0 then 1 else 0.

(* Solange b ungleich 0 ist: Speichere b in t. Speichere (a modulo t) in b. Speichere t in a.
   Gib den Betrag von a zurück. *)
Fixpoint ggt_loop (fuel : nat) (a b : Z) : res Z :=
  match fuel with
  | O => NoFuel
  | S f => if b =? 0 then Ok (Z.abs a) else ggt_loop f b (Z.rem a b)
  end.
Definition Groesster_Gemeinsamer_Teiler (a b : Z) : res Z := ggt_loop (Z.to_nat (Z.abs b) + 2) a b.

(* Gib (der Betrag von (a mal b) durch (ggT von a und b)) als Zahl zurück. -- a Kommazahl division, exact below 2^53 *)
Definition Kleinster_Gemeinsamer_Teiler (a b : Z) : res Z :=
  do g <- Groesster_Gemeinsamer_Teiler a b;;
  (* a = b = 0: 0,0 durch 0 is NaN, and the conversion NaN -> Zahl is 0 *)
  if g =? 0 then Ok 0 else Ok (Z.quot (Z.abs (wrap64 (a * b))) g).

Definition Ist_Teilbar (dividend divisor : Z) : res bool := do r <- zrem dividend divisor;; Ok (r =? 0).
Definition Gerade_Zahl (x : Z) : bool := Z.rem x 2 =? 0.

(* Wenn x kleiner als 0 ist, Speichere (x mal -1) als Zahl in x. Wenn x gleich 0 ist, gib 1 zurück.
   Gib (x mal ((x minus 1) Fakultät)) zurück. *)
Fixpoint fakultaet_rec (fuel : nat) (x : Z) : res Z :=
  match fuel with
  | O => NoFuel
  | S f =>
      let x := if x <? 0 then wrap64 (x * -1) else x in
      if x =? 0 then Ok 1 else do r <- fakultaet_rec f (x - 1);; Ok (wrap64 (x * r))
  end.
Definition Fakultaet (x : Z) : res Z := fakultaet_rec (Z.to_nat (Z.abs x) + 1) x.

(* Für jede Zahl i von z bis 1 mit Schrittgröße -1: Wenn z durch i teilbar ist, speichere teiler verkettet mit i in teiler. *)
Fixpoint teiler_loop (n : nat) (i z : Z) (teiler : list Z) : list Z :=
  match n with
  | O => teiler
  | S n' => teiler_loop n' (i - 1) z (if Z.rem z i =? 0 then teiler ++ [i] else teiler)
  end.
Definition Teilerzerlegung (z : Z) : list Z := teiler_loop (Z.to_nat z) z z [].

(* Kommazahl n/d: `wert als Zahl` truncates toward zero *)
Definition trunc_q (n d : Z) : Z := Z.quot n d * d.
(* Gib (wert als Zahl) als Kommazahl zurück. *)
Definition Trunc (n d : Z) : Z := trunc_q n d.
(* Die Kommazahl ganz ist (wert als Zahl) als Kommazahl. Wenn ganz größer als wert ist, gib ganz minus 1 zurück. Gib ganz zurück. *)
Definition Floor (n d : Z) : Z := let ganz := trunc_q n d in if ganz >? n then ganz - 1 * d else ganz.
(* Die Kommazahl ganz ist (wert als Zahl) als Kommazahl. Wenn ganz kleiner als wert ist, gib ganz plus 1 zurück. Gib ganz zurück. *)
Definition Ceil (n d : Z) : Z := let ganz := trunc_q n d in if ganz <? n then ganz + 1 * d else ganz.

(* Statistik.ddp *)
Definition MinZahl : Z := wrap64 (Z.shiftl 1 63).
Definition MaxZahl : Z := 9223372036854775807.
(* Die Zahl maxNum ist der minimale Wert einer Zahl. Für jede Zahl z in liste, speichere die größere Zahl von z und maxNum in maxNum. *)
Fixpoint hoechste_loop (liste : list Z) (maxNum : Z) : Z :=
  match liste with [] => maxNum | z :: r => hoechste_loop r (Max z maxNum) end.
Definition Hoechste_ListeZ (liste : list Z) : Z := hoechste_loop liste MinZahl.
Fixpoint kleinste_loop (liste : list Z) (maxNum : Z) : Z :=
  match liste with [] => maxNum | z :: r => kleinste_loop r (Min z maxNum) end.
Definition Kleinste_ListeZ (liste : list Z) : Z := kleinste_loop liste MaxZahl.

(* Die Kommazahl a ist 0,0. Für jede Kommazahl z in liste, wenn <cond>, erhöhe a um 1. Gib a durch die Länge von liste zurück.
   The result a / len is returned as the pair (a, len). *)
Fixpoint count_loop (cond : Z -> bool) (liste : list Z) (a : Z) : Z :=
  match liste with [] => a | z :: r => count_loop cond r (if cond z then a + 1 else a) end.
Definition Mindestens_Liste (x : Z) (liste : list Z) : Z * Z := (count_loop (fun z => z >=? x) liste 0, len liste).
Definition Hoechstens_Liste (x : Z) (liste : list Z) : Z * Z := (count_loop (fun z => z <=? x) liste 0, len liste).
Definition Zwischen_Liste (x y : Z) (liste : list Z) : Z * Z := (count_loop (fun z => (z >=? x) && (z <=? y)) liste 0, len liste).
Definition Absolute_Haeufigkeit (liste : list Z) (x : Z) : Z := count_loop (fun z => z =? x) liste 0.
