(* C17 — number functions of Mathe.ddp / Statistik.ddp against Z's library *)
From Coq Require Import List ZArith Bool Lia Znumtheory.
From DDP Require Import Lib.Base Lib.BaseProofs Lib.NumFns.
Import ListNotations.
Open Scope Z_scope.

Lemma max_spec a b : Max a b = Z.max a b.
Proof. unfold Max. destruct (a >=? b) eqn:E; rewrite Z.geb_leb in E; [apply Z.leb_le in E|apply Z.leb_gt in E]; lia. Qed.
Lemma min_spec a b : Min a b = Z.min a b.
Proof. unfold Min. destruct (a <=? b) eqn:E; [apply Z.leb_le in E|apply Z.leb_gt in E]; lia. Qed.
Lemma max3_spec a b c : Max3 a b c = Z.max a (Z.max b c).
Proof.
  unfold Max3.
  destruct (a >=? b) eqn:E1, (a >=? c) eqn:E2, (b >=? a) eqn:E3, (b >=? c) eqn:E4; cbn [andb];
    rewrite Z.geb_leb in E1, E2, E3, E4;
    repeat match goal with H : (_ <=? _) = true |- _ => apply Z.leb_le in H | H : (_ <=? _) = false |- _ => apply Z.leb_gt in H end; lia.
Qed.
Lemma min3_spec a b c : Min3 a b c = Z.min a (Z.min b c).
Proof.
  unfold Min3.
  destruct (a <=? b) eqn:E1, (a <=? c) eqn:E2, (b <=? a) eqn:E3, (b <=? c) eqn:E4; cbn [andb];
    repeat match goal with H : (_ <=? _) = true |- _ => apply Z.leb_le in H | H : (_ <=? _) = false |- _ => apply Z.leb_gt in H end; lia.
Qed.
Lemma clamp_spec w mx mn : mn <= mx -> Clamp w mx mn = Z.max mn (Z.min w mx).
Proof.
  intros H. unfold Clamp. destruct (w >? mx) eqn:E1; rewrite Z.gtb_ltb in E1;
    [apply Z.ltb_lt in E1; lia|apply Z.ltb_ge in E1].
  destruct (w <? mn) eqn:E2; [apply Z.ltb_lt in E2|apply Z.ltb_ge in E2]; lia.
Qed.
Lemma sign_spec w : Sign w = Z.sgn w.
Proof.
  unfold Sign. destruct (w <? 0) eqn:E1; [apply Z.ltb_lt in E1; lia|apply Z.ltb_ge in E1].
  destruct (w >? 0) eqn:E2; rewrite Z.gtb_ltb in E2; [apply Z.ltb_lt in E2|apply Z.ltb_ge in E2]; lia.
Qed.

(* ---- ggT / kgV ---- *)
Lemma gcd_rem a b : b <> 0 -> Z.gcd b (Z.rem a b) = Z.gcd a b.
Proof.
  intros Hb. pose proof (Z.quot_rem' a b) as H.
  replace (Z.rem a b) with (a + (- (Z.quot a b)) * b) by lia.
  rewrite Z.gcd_add_mult_diag_r. apply Z.gcd_comm.
Qed.
Lemma ggt_loop_spec fuel : forall a b, (Z.to_nat (Z.abs b) < fuel)%nat -> ggt_loop fuel a b = Ok (Z.gcd a b).
Proof.
  induction fuel as [|f IH]; intros a b Hf; [lia|].
  cbn [ggt_loop]. destruct (b =? 0) eqn:E.
  - apply Z.eqb_eq in E. subst b. now rewrite Z.gcd_0_r.
  - apply Z.eqb_neq in E. pose proof (Z.rem_bound_abs a b E) as Hr.
    rewrite IH by lia. f_equal. now apply gcd_rem.
Qed.
(* the greatest common divisor for ALL arguments (never negative) *)
Lemma ggt_spec a b : Groesster_Gemeinsamer_Teiler a b = Ok (Z.gcd a b).
Proof. unfold Groesster_Gemeinsamer_Teiler. apply ggt_loop_spec. lia. Qed.

Lemma kgv_spec a b : (a <> 0 \/ b <> 0) -> in_i64 (a * b) -> Kleinster_Gemeinsamer_Teiler a b = Ok (Z.lcm a b).
Proof.
  intros Hne Hr. unfold Kleinster_Gemeinsamer_Teiler. rewrite ggt_spec. cbn [bind].
  pose proof (Z.gcd_nonneg a b) as Hg0.
  assert (Hg : Z.gcd a b <> 0).
  { intros H0. destruct Hne as [Ha|Hb]; [apply Z.gcd_eq_0_l in H0|apply Z.gcd_eq_0_r in H0]; contradiction. }
  replace (Z.gcd a b =? 0) with false by (symmetry; apply Z.eqb_neq; exact Hg).
  rewrite wrap64_id by assumption.
  rewrite Z.quot_div_nonneg by lia.
  unfold Z.lcm. f_equal.
  destruct (Z.gcd_divide_r a b) as [k Hk].
  replace (b / Z.gcd a b) with k by (rewrite Hk at 1; now rewrite Z.div_mul).
  replace (a * b) with ((a * k) * Z.gcd a b) by (rewrite Hk at 2; ring).
  rewrite Z.abs_mul, (Z.abs_eq (Z.gcd a b)) by lia. now rewrite Z.div_mul.
Qed.

Lemma ist_teilbar_spec a b : b <> 0 -> exists r, Ist_Teilbar a b = Ok r /\ (r = true <-> (b | a)).
Proof.
  intros Hb. unfold Ist_Teilbar, zrem. replace (b =? 0) with false by (symmetry; apply Z.eqb_neq; exact Hb).
  cbn [bind]. eexists. split; [reflexivity|]. rewrite Z.eqb_eq. apply Z.rem_divide. exact Hb.
Qed.
Lemma gerade_spec x : Gerade_Zahl x = true <-> (2 | x).
Proof. unfold Gerade_Zahl. rewrite Z.eqb_eq. apply Z.rem_divide. lia. Qed.

(* the doc comment: "(x!)"; the result fits a Zahl exactly for 0 <= x <= 20 *)
Fixpoint zfact (n : nat) : Z := match n with O => 1 | S k => Z.of_nat (S k) * zfact k end.
Lemma fakultaet_spec x : 0 <= x <= 20 -> Fakultaet x = Ok (zfact (Z.to_nat x)).
Proof.
  intros H.
  assert (Hc : x = 0 \/ x = 1 \/ x = 2 \/ x = 3 \/ x = 4 \/ x = 5 \/ x = 6 \/ x = 7 \/ x = 8 \/ x = 9 \/ x = 10 \/ x = 11 \/ x = 12 \/
               x = 13 \/ x = 14 \/ x = 15 \/ x = 16 \/ x = 17 \/ x = 18 \/ x = 19 \/ x = 20) by lia.
  repeat (destruct Hc as [->|Hc]; [vm_compute; reflexivity|]). subst x. vm_compute. reflexivity.
Qed.

(* ---- Teilerzerlegung ---- *)
Lemma teiler_loop_inv n : forall i z acc,
  teiler_loop n i z acc = acc ++ filter (fun d => Z.rem z d =? 0) (map (fun k => i - Z.of_nat k) (seq 0 n)).
Proof.
  induction n as [|n IH]; intros i z acc; cbn [teiler_loop seq map filter].
  - now rewrite app_nil_r.
  - rewrite IH. replace (i - Z.of_nat 0) with i by (cbn; lia).
    rewrite <- seq_shift, map_map.
    replace (map (fun k : nat => i - Z.of_nat (S k)) (seq 0 n)) with (map (fun k : nat => i - 1 - Z.of_nat k) (seq 0 n))
      by (apply map_ext; intros k; lia).
    destruct (Z.rem z i =? 0); [rewrite <- app_assoc|]; reflexivity.
Qed.
Lemma teiler_spec z : 1 <= z -> forall d, In d (Teilerzerlegung z) <-> (1 <= d <= z /\ (d | z)).
Proof.
  intros Hz d. unfold Teilerzerlegung. rewrite teiler_loop_inv. cbn [app].
  rewrite filter_In, in_map_iff, Z.eqb_eq. split.
  - intros [(k & <- & Hk) Hr]. apply in_seq in Hk. split; [lia|]. apply Z.rem_divide in Hr; [exact Hr|lia].
  - intros [Hd Hdiv]. split.
    + exists (Z.to_nat (z - d)). split; [lia|]. apply in_seq. lia.
    + apply Z.rem_divide; [lia|exact Hdiv].
Qed.
Lemma teiler_sorted_desc z : Teilerzerlegung z = filter (fun d => Z.rem z d =? 0) (map (fun k => z - Z.of_nat k) (seq 0 (Z.to_nat z))).
Proof. unfold Teilerzerlegung. now rewrite teiler_loop_inv. Qed.

(* ---- Floor / Ceil / Trunc on n/d ---- *)
Lemma trunc_spec n d : Trunc n d = Z.quot n d * d.
Proof. reflexivity. Qed.
(* rounding toward minus infinity: the largest multiple of d (= integer) not above n *)
Lemma floor_spec n d : 0 < d -> Floor n d = n / d * d.
Proof.
  intros Hd. unfold Floor, trunc_q. cbv zeta.
  pose proof (Z.quot_rem' n d) as Hq.
  assert (Hr : (0 <= n -> 0 <= Z.rem n d < d) /\ (n <= 0 -> - d < Z.rem n d <= 0)).
  { split; intros Hn; [apply Z.rem_bound_pos; lia|]. pose proof (Z.rem_bound_pos (- n) d ltac:(lia) Hd) as Hb.
    rewrite Z.rem_opp_l' in Hb. lia. }
  destruct Hr as [Hp Hn].
  destruct (Z.quot n d * d >? n) eqn:E; rewrite Z.gtb_ltb in E; [apply Z.ltb_lt in E|apply Z.ltb_ge in E].
  - replace (Z.quot n d * d - 1 * d) with ((Z.quot n d - 1) * d) by ring. f_equal.
    apply (Z.div_unique n d (Z.quot n d - 1) (Z.rem n d + d)); [left|]; destruct (Z_le_gt_dec 0 n); try lia.
  - f_equal. apply (Z.div_unique n d (Z.quot n d) (Z.rem n d)); [left|lia]. destruct (Z_le_gt_dec 0 n); lia.
Qed.
(* rounding toward plus infinity: the smallest multiple of d not below n *)
Lemma ceil_spec n d : 0 < d -> Ceil n d = - ((- n) / d) * d.
Proof.
  intros Hd. unfold Ceil, trunc_q. cbv zeta.
  pose proof (Z.quot_rem' n d) as Hq.
  assert (Hr : (0 <= n -> 0 <= Z.rem n d < d) /\ (n <= 0 -> - d < Z.rem n d <= 0)).
  { split; intros Hn; [apply Z.rem_bound_pos; lia|]. pose proof (Z.rem_bound_pos (- n) d ltac:(lia) Hd) as Hb.
    rewrite Z.rem_opp_l' in Hb. lia. }
  destruct Hr as [Hp Hn].
  destruct (Z.quot n d * d <? n) eqn:E; [apply Z.ltb_lt in E|apply Z.ltb_ge in E].
  - replace (Z.quot n d * d + 1 * d) with (- (- (Z.quot n d) - 1) * d) by ring. f_equal. f_equal.
    apply (Z.div_unique (- n) d (- Z.quot n d - 1) (d - Z.rem n d)); [left|]; destruct (Z_le_gt_dec 0 n); try lia.
  - replace (Z.quot n d * d) with (- (- Z.quot n d) * d) by ring. f_equal. f_equal.
    apply (Z.div_unique (- n) d (- Z.quot n d) (- Z.rem n d)); [left|lia]. destruct (Z_le_gt_dec 0 n); lia.
Qed.
Lemma ceil_integers n d : 0 < d -> (d | n) -> Ceil n d = n.
Proof.
  intros Hd [k ->]. rewrite ceil_spec by assumption. replace (- (k * d)) with ((- k) * d) by ring. rewrite Z.div_mul by lia. ring.
Qed.
Lemma floor_integers n d : 0 < d -> (d | n) -> Floor n d = n.
Proof. intros Hd [k ->]. rewrite floor_spec by assumption. now rewrite Z.div_mul by lia. Qed.

(* ---- Statistik ---- *)
Lemma hoechste_loop_ge l : forall m, m <= hoechste_loop l m /\ (forall x, In x l -> x <= hoechste_loop l m).
Proof.
  induction l as [|z r IH]; intros m; cbn [hoechste_loop].
  - split; [lia|]. intros x [].
  - destruct (IH (Max z m)) as [H1 H2]. rewrite max_spec in *. split; [lia|].
    intros x [->|Hx]; [lia|]. now apply H2.
Qed.
Lemma hoechste_loop_in l : forall m, hoechste_loop l m = m \/ In (hoechste_loop l m) l.
Proof.
  induction l as [|z r IH]; intros m; cbn [hoechste_loop]; [left; reflexivity|].
  destruct (IH (Max z m)) as [H|H].
  - rewrite H, max_spec. destruct (Z.max_spec z m) as [[_ ->]|[_ ->]]; [left; reflexivity|right; left; reflexivity].
  - right. right. exact H.
Qed.
Lemma hoechste_spec l : l <> [] -> Forall in_i64 l ->
  In (Hoechste_ListeZ l) l /\ forall x, In x l -> x <= Hoechste_ListeZ l.
Proof.
  intros Hne Hall. unfold Hoechste_ListeZ. destruct (hoechste_loop_ge l MinZahl) as [H1 H2]. split; [|exact H2].
  destruct (hoechste_loop_in l MinZahl) as [H|H]; [|exact H].
  destruct l as [|y r]; [congruence|]. rewrite Forall_forall in Hall.
  pose proof (Hall y (or_introl eq_refl)) as Hy. pose proof (H2 y (or_introl eq_refl)) as Hle.
  rewrite H in Hle. unfold in_i64, two63 in Hy. change MinZahl with (-9223372036854775808) in *.
  assert (y = -9223372036854775808) by lia. subst y. rewrite H. left. reflexivity.
Qed.
Lemma kleinste_loop_le l : forall m, kleinste_loop l m <= m /\ (forall x, In x l -> kleinste_loop l m <= x).
Proof.
  induction l as [|z r IH]; intros m; cbn [kleinste_loop].
  - split; [lia|]. intros x [].
  - destruct (IH (Min z m)) as [H1 H2]. rewrite min_spec in *. split; [lia|].
    intros x [->|Hx]; [lia|]. now apply H2.
Qed.
Lemma kleinste_loop_in l : forall m, kleinste_loop l m = m \/ In (kleinste_loop l m) l.
Proof.
  induction l as [|z r IH]; intros m; cbn [kleinste_loop]; [left; reflexivity|].
  destruct (IH (Min z m)) as [H|H].
  - rewrite H, min_spec. destruct (Z.min_spec z m) as [[_ ->]|[_ ->]]; [right; left; reflexivity|left; reflexivity].
  - right. right. exact H.
Qed.
Lemma kleinste_spec l : l <> [] -> Forall in_i64 l ->
  In (Kleinste_ListeZ l) l /\ forall x, In x l -> Kleinste_ListeZ l <= x.
Proof.
  intros Hne Hall. unfold Kleinste_ListeZ. destruct (kleinste_loop_le l MaxZahl) as [H1 H2]. split; [|exact H2].
  destruct (kleinste_loop_in l MaxZahl) as [H|H]; [|exact H].
  destruct l as [|y r]; [congruence|]. rewrite Forall_forall in Hall.
  pose proof (Hall y (or_introl eq_refl)) as Hy. pose proof (H2 y (or_introl eq_refl)) as Hle.
  rewrite H in Hle. unfold in_i64, two63 in Hy. unfold MaxZahl in *.
  assert (y = 9223372036854775807) by lia. subst y. rewrite H. left. reflexivity.
Qed.

Lemma count_loop_spec cond l : forall a, count_loop cond l a = a + len (filter cond l).
Proof.
  induction l as [|z r IH]; intros a; cbn [count_loop filter].
  - rewrite len_nil. lia.
  - rewrite IH. destruct (cond z); [rewrite len_cons|]; lia.
Qed.
Definition count (cond : Z -> bool) (l : list Z) : Z := len (filter cond l).
(* "Summe der relativen Häufigkeiten aller Zahlen größer als, oder x" / "kleiner als, oder x" *)
Lemma mindestens_spec x l : Mindestens_Liste x l = (count (fun z => z >=? x) l, len l).
Proof. unfold Mindestens_Liste. now rewrite count_loop_spec. Qed.
Lemma hoechstens_spec x l : Hoechstens_Liste x l = (count (fun z => z <=? x) l, len l).
Proof. unfold Hoechstens_Liste. now rewrite count_loop_spec. Qed.
Lemma zwischen_spec x y l : Zwischen_Liste x y l = (count (fun z => (z >=? x) && (z <=? y)) l, len l).
Proof. unfold Zwischen_Liste. now rewrite count_loop_spec. Qed.
Lemma absolute_haeufigkeit_spec l x : Absolute_Haeufigkeit l x = Z.of_nat (count_occ Z.eq_dec l x).
Proof.
  unfold Absolute_Haeufigkeit. rewrite count_loop_spec. unfold len.
  induction l as [|z r IH]; cbn [filter count_occ length]; [reflexivity|].
  destruct (Z.eq_dec z x) as [->|Hn].
  - rewrite Z.eqb_refl. cbn [length]. lia.
  - replace (z =? x) with false by (symmetry; apply Z.eqb_neq; exact Hn). exact IH.
Qed.
Lemma ist_teilbar_null a : Ist_Teilbar a 0 = Err.
Proof. reflexivity. Qed.
