(* C17 — transcription of lib/stdlib/Duden/Sortierung.ddp (iterative quicksort with an explicit stack,
   3-median pivot, Hoare-style scans).  Elements are Zahlen; the generic code only uses the
   comparisons `größer als` / `kleiner als` and assignment, so any totally ordered T behaves alike.
   The module-global `stack` (a Zahlen Liste that grows by 10 cells when full) with `stack_top` is
   modelled as a list of (li, re) pairs: pushes and pops are the only accesses, the growth test
   `die Länge von stack gleich stack_top` keeps every access in bounds. *)
From Coq Require Import List ZArith Bool Lia.
From DDP Require Import Lib.Base.
Import ListNotations.
Open Scope Z_scope.

(* Tausche <a> und <b> on two element references of the same list:
   Das T temp ist a. Speichere b in a. Speichere temp in b. *)
Definition Tausche (a b : Z) : Z * Z := (b, a).
Definition tausche_in (l : list Z) (i j : Z) : res (list Z) :=
  do a <- rd l i;; do b <- rd l j;;
  let '(a', b') := Tausche a b in
  do l1 <- wr l i a';; wr l1 j b'.

(* Wenn l[i] größer als l[j] ist, tausche l[i] und l[j]. *)
Definition sortiere_zwei (l : list Z) (i j : Z) : res (list Z) :=
  do a <- rd l i;; do b <- rd l j;; if a >? b then tausche_in l i j else Ok l.

(* Wenn a größer als c ist, tausche a und c. Wenn a größer als b ist, tausche a und b. Wenn b größer als c ist, tausche b und c.
   (a, b, c are references to the list cells ia, ib, ic) *)
Definition drei_werte_sortieren (l : list Z) (ia ib ic : Z) : res (list Z) :=
  do l1 <- sortiere_zwei l ia ic;;
  do l2 <- sortiere_zwei l1 ia ib;;
  sortiere_zwei l2 ib ic.

(* Mache: Erhöhe i um 1. Solange liste an der Stelle i kleiner als pivot ist.   (called with the incremented i) *)
Fixpoint scan_up (fuel : nat) (l : list Z) (pivot i : Z) : res Z :=
  match fuel with
  | O => NoFuel
  | S f => do x <- rd l i;; if x <? pivot then scan_up f l pivot (i + 1) else Ok i
  end.
(* Mache: Verringere j um 1. Solange j größer als, oder li ist und liste an der Stelle j größer als pivot ist. *)
Fixpoint scan_down (fuel : nat) (l : list Z) (pivot li j : Z) : res Z :=
  match fuel with
  | O => NoFuel
  | S f =>
      if j >=? li
      then do x <- rd l j;; if x >? pivot then scan_down f l pivot li (j - 1) else Ok j
      else Ok j
  end.

(* Solange wahr: <scan i>; <scan j>; Wenn i größer als, oder j ist, verlasse die Schleife. Tausche l[i] und l[j].
   afterwards: Tausche l[i] und l[re]. Gib i zurück. *)
Fixpoint partition_loop (fuel : nat) (l : list Z) (pivot li re i j : Z) : res (list Z * Z) :=
  match fuel with
  | O => NoFuel
  | S f =>
      do i' <- scan_up (length l + 1) l pivot (i + 1);;
      do j' <- scan_down (length l + 1) l pivot li (j - 1);;
      if i' >=? j'
      then do l' <- tausche_in l i' re;; Ok (l', i')
      else do l' <- tausche_in l i' j';; partition_loop f l' pivot li re i' j'
  end.

Definition quicksort_iter_impl (liste : list Z) (li re : Z) : res (list Z * Z) :=
  if re <=? li then Ok (liste, li)
  else
    let list_len := re - li + 1 in
    if list_len =? 2 then
      (* Wenn liste an der Stelle li größer als liste an der Stelle re ist, tausche ... Gib li zurück. *)
      do l' <- sortiere_zwei liste li re;;
      Ok (l', li)
    else
      (* Die Zahl mi ist li plus (list_len durch 2) als Zahl. *)
      let mi := li + Z.quot list_len 2 in
      do l1 <- drei_werte_sortieren liste li mi re;;
      if list_len =? 3 then Ok (l1, mi)
      else
        do l2 <- tausche_in l1 mi re;;
        do pivot <- rd l2 re;;
        partition_loop (length liste + 1) l2 pivot li re (li - 1) re.

(* Lege li und re auf den Stack. Solange stack_top größer als 0 ist: Nimm li und re vom Stack.
   Die Zahl i ist quicksort-iter-impl liste li re.
   Wenn i minus 1 größer als li ist, lege li und (i minus 1) auf den Stack.
   Wenn i plus 1 kleiner als re ist, lege (i plus 1) und re auf den Stack. *)
Fixpoint quicksort_loop (fuel : nat) (liste : list Z) (stack : list (Z * Z)) : res (list Z) :=
  match fuel with
  | O => NoFuel
  | S f =>
      match stack with
      | [] => Ok liste
      | (li, re) :: rest =>
          do '(l', i) <- quicksort_iter_impl liste li re;;
          let s1 := if i - 1 >? li then (li, i - 1) :: rest else rest in
          let s2 := if i + 1 <? re then (i + 1, re) :: s1 else s1 in
          quicksort_loop f l' s2
      end
  end.
Definition quicksort_iter (liste : list Z) (li re : Z) : res (list Z) :=
  quicksort_loop (2 * length liste + 2) liste [(li, re)].

(* the same loop, also reporting the largest number of ranges that were on the stack at the same time
   (the module-level `stack` has room for 50 ranges before auf_den_stack_legen has to enlarge it) *)
Fixpoint quicksort_loop_tiefe (fuel : nat) (liste : list Z) (stack : list (Z * Z)) (tiefe : Z) : res (list Z * Z) :=
  match fuel with
  | O => NoFuel
  | S f =>
      match stack with
      | [] => Ok (liste, tiefe)
      | (li, re) :: rest =>
          do '(l', i) <- quicksort_iter_impl liste li re;;
          let s1 := if i - 1 >? li then (li, i - 1) :: rest else rest in
          let s2 := if i + 1 <? re then (i + 1, re) :: s1 else s1 in
          quicksort_loop_tiefe f l' s2 (Z.max tiefe (Z.max (len s1) (len s2)))
      end
  end.
Definition Quicksort_Tiefe (liste : list Z) : res (list Z * Z) :=
  quicksort_loop_tiefe (2 * length liste + 2) liste [(1, len liste)] 1.

(* quicksort-iter liste 1 (die Länge von liste). *)
Definition Quicksort_Ref (liste : list Z) : res (list Z) := quicksort_iter liste 1 (len liste).
(* Sortiere liste mit quick-sort. Gib liste zurück.   (liste is the by-value copy) *)
Definition Quicksort (liste : list Z) : res (list Z) := Quicksort_Ref liste.
