(* C17 — Sortierung.ddp: the iterative quicksort returns a sorted permutation of its argument *)
From Coq Require Import List ZArith Bool Lia Permutation Sorted.
From DDP Require Import Lib.Base Lib.BaseProofs Lib.SortFns.
Import ListNotations.
Open Scope Z_scope.

(* 1-based read with a default, for stating invariants *)
Definition g (l : list Z) (k : Z) : Z := nth (Z.to_nat (k - 1)) l 0.

Lemma rd_g l k : 1 <= k <= len l -> rd l k = Ok (g l k).
Proof. intros H. unfold g. now apply rd_nth. Qed.

Lemma wr_ok (l : list Z) k v : 1 <= k <= len l -> wr l k v = Ok (set_nth l (Z.to_nat (k - 1)) v).
Proof.
  intros H. unfold wr.
  replace ((1 <=? k) && (k <=? len l)) with true; [reflexivity|].
  symmetry. apply andb_true_iff. split; apply Z.leb_le; lia.
Qed.

Lemma nth_set_nth_same (l : list Z) n v d : (n < length l)%nat -> nth n (set_nth l n v) d = v.
Proof. revert n. induction l as [|x r IH]; intros [|n] H; cbn in *; try lia; auto. apply IH. lia. Qed.
Lemma nth_set_nth_other (l : list Z) n m v d : n <> m -> nth m (set_nth l n v) d = nth m l d.
Proof. revert n m. induction l as [|x r IH]; intros [|n] [|m] H; cbn; try congruence; auto. Qed.

Lemma len_set_nth (l : list Z) n v : len (set_nth l n v) = len l.
Proof. unfold len. now rewrite set_nth_length. Qed.
Lemma g_set_same l k v : 1 <= k <= len l -> g (set_nth l (Z.to_nat (k - 1)) v) k = v.
Proof. intros H. unfold g. apply nth_set_nth_same. unfold len in H. lia. Qed.
Lemma g_set_other l k k' v : 1 <= k -> 1 <= k' -> k <> k' -> g (set_nth l (Z.to_nat (k - 1)) v) k' = g l k'.
Proof. intros H1 H2 H3. unfold g. apply nth_set_nth_other. lia. Qed.

(* ---- a swap is a permutation ---- *)
Lemma set_nth_app_r (p : list Z) x s n v : set_nth (p ++ x :: s) (length p + S n) v = p ++ x :: set_nth s n v.
Proof. induction p as [|y p IH]; cbn; [reflexivity|]. now rewrite IH. Qed.

Lemma swap_perm_lt (l : list Z) i j : (i < j)%nat -> (j < length l)%nat ->
  Permutation (set_nth (set_nth l i (nth j l 0)) j (nth i l 0)) l.
Proof.
  intros Hij Hj.
  assert (Hi : (i < length l)%nat) by lia.
  destruct (nth_error l i) as [a|] eqn:Ea; [|apply nth_error_None in Ea; lia].
  destruct (nth_error_split _ _ Ea) as (p & rest & -> & Hp).
  assert (Hai : nth i (p ++ a :: rest) 0 = a) by (rewrite app_nth2, Hp, Nat.sub_diag by lia; reflexivity).
  rewrite Hai.
  assert (Hjr : (j - i - 1 < length rest)%nat) by (rewrite app_length in Hj; cbn in Hj; lia).
  destruct (nth_error rest (j - i - 1)) as [b|] eqn:Eb; [|apply nth_error_None in Eb; lia].
  destruct (nth_error_split _ _ Eb) as (m & s & -> & Hm).
  assert (Hbj : nth j (p ++ a :: m ++ b :: s) 0 = b).
  { rewrite app_nth2 by lia. replace (j - length p)%nat with (S (length m)) by lia. cbn [nth].
    rewrite app_nth2, Nat.sub_diag by lia. reflexivity. }
  rewrite Hbj. rewrite <- Hp. rewrite set_nth_mid.
  replace j with (length p + S (length m))%nat by lia.
  rewrite set_nth_app_r. rewrite set_nth_mid.
  apply Permutation_app_head.
  (* b :: m ++ a :: s  ~  a :: m ++ b :: s *)
  transitivity (b :: a :: m ++ s).
  - apply perm_skip. symmetry. apply Permutation_middle.
  - transitivity (a :: b :: m ++ s); [apply perm_swap|]. apply perm_skip. apply Permutation_middle.
Qed.

Lemma tausche_in_spec l i j : 1 <= i <= len l -> 1 <= j <= len l ->
  exists l', tausche_in l i j = Ok l' /\ len l' = len l /\ Permutation l' l /\
    g l' i = g l j /\ g l' j = g l i /\ (forall k, 1 <= k -> k <> i -> k <> j -> g l' k = g l k).
Proof.
  intros Hi Hj. unfold tausche_in, Tausche. rewrite !rd_g by assumption. cbn [bind].
  rewrite wr_ok by assumption. cbn [bind]. rewrite wr_ok by (rewrite len_set_nth; assumption).
  eexists. split; [reflexivity|]. split; [now rewrite !len_set_nth|].
  destruct (Z.eq_dec i j) as [->|Hne].
  - (* i = j: the list is unchanged *)
    assert (Hsame : set_nth (set_nth l (Z.to_nat (j - 1)) (g l j)) (Z.to_nat (j - 1)) (g l j) = l).
    { unfold g. assert (Hn : (Z.to_nat (j - 1) < length l)%nat) by (unfold len in Hj; lia).
      revert Hn. generalize (Z.to_nat (j - 1)). clear. induction l as [|x r IH]; intros [|n] H; cbn in *; try lia; auto.
      f_equal. apply IH. lia. }
    rewrite Hsame. repeat split; auto.
  - split.
    + unfold g. destruct (Z.lt_ge_cases i j) as [Hlt|Hge].
      * apply swap_perm_lt; unfold len in *; lia.
      * (* j < i: same swap written the other way round *)
        assert (Hc : forall (l : list Z) a b x y, a <> b ->
                  set_nth (set_nth l a x) b y = set_nth (set_nth l b y) a x).
        { clear. induction l as [|z r IH]; intros [|a] [|b] x y H; cbn; try congruence; auto. f_equal. apply IH. congruence. }
        rewrite Hc by lia. apply swap_perm_lt; unfold len in *; lia.
    + repeat split.
      * rewrite g_set_other by lia. now rewrite g_set_same.
      * apply g_set_same. now rewrite len_set_nth.
      * intros k Hk H1 H2. rewrite !g_set_other by lia. reflexivity.
Qed.

(* l' results from l by swaps inside [lo, hi] *)
Definition within (l l' : list Z) (lo hi : Z) : Prop :=
  len l' = len l /\ Permutation l' l /\
  (forall k, 1 <= k -> (k < lo \/ hi < k) -> g l' k = g l k) /\
  (forall k, lo <= k <= hi -> exists k', lo <= k' <= hi /\ g l' k = g l k').

Lemma within_refl l lo hi : within l l lo hi.
Proof. repeat split; auto. intros k H. exists k. auto. Qed.
Lemma within_trans l1 l2 l3 lo hi : 1 <= lo -> within l1 l2 lo hi -> within l2 l3 lo hi -> within l1 l3 lo hi.
Proof.
  intros Hlo (A1 & A2 & A3 & A4) (B1 & B2 & B3 & B4). repeat split.
  - lia.
  - now transitivity l2.
  - intros k Hk Ho. rewrite B3, A3; auto.
  - intros k Hk. destruct (B4 k Hk) as (k' & Hk' & E1). destruct (A4 k' Hk') as (k'' & Hk'' & E2).
    exists k''. split; [assumption|congruence].
Qed.
Lemma within_swap l i j lo hi : 1 <= lo -> hi <= len l -> lo <= i <= hi -> lo <= j <= hi ->
  exists l', tausche_in l i j = Ok l' /\ within l l' lo hi /\ g l' i = g l j /\ g l' j = g l i /\
    (forall k, 1 <= k -> k <> i -> k <> j -> g l' k = g l k).
Proof.
  intros Hlo Hhi Hi Hj.
  destruct (tausche_in_spec l i j ltac:(lia) ltac:(lia)) as (l' & E & Hl & Hp & Gi & Gj & Go).
  exists l'. split; [exact E|]. split; [|auto].
  repeat split; auto.
  - intros k Hk Ho. apply Go; lia.
  - intros k Hk. destruct (Z.eq_dec k i) as [->|Hki]; [exists j; auto|].
    destruct (Z.eq_dec k j) as [->|Hkj]; [exists i; auto|].
    exists k. split; [assumption|]. apply Go; lia.
Qed.

Lemma sortiere_zwei_spec l i j lo hi : 1 <= lo -> hi <= len l -> lo <= i <= hi -> lo <= j <= hi -> i <> j ->
  exists l', sortiere_zwei l i j = Ok l' /\ within l l' lo hi /\ g l' i <= g l' j /\
    (forall k, 1 <= k -> k <> i -> k <> j -> g l' k = g l k) /\
    ((g l' i = g l i /\ g l' j = g l j) \/ (g l' i = g l j /\ g l' j = g l i)).
Proof.
  intros Hlo Hhi Hi Hj Hne. unfold sortiere_zwei. rewrite !rd_g by lia. cbn [bind].
  destruct (g l i >? g l j) eqn:E; rewrite Z.gtb_ltb in E.
  - apply Z.ltb_lt in E.
    destruct (within_swap l i j lo hi Hlo Hhi Hi Hj) as (l' & E1 & W & Gi & Gj & Go).
    exists l'. split; [exact E1|]. split; [exact W|]. split; [lia|]. split; [exact Go|]. right. auto.
  - apply Z.ltb_ge in E. exists l. split; [reflexivity|]. split; [apply within_refl|]. split; [lia|]. split; [auto|]. left. auto.
Qed.

Lemma drei_werte_spec l ia ib ic lo hi : 1 <= lo -> hi <= len l ->
  lo <= ia <= hi -> lo <= ib <= hi -> lo <= ic <= hi -> ia <> ib -> ib <> ic -> ia <> ic ->
  exists l', drei_werte_sortieren l ia ib ic = Ok l' /\ within l l' lo hi /\ g l' ia <= g l' ib /\ g l' ib <= g l' ic.
Proof.
  intros Hlo Hhi Ha Hb Hc Nab Nbc Nac. unfold drei_werte_sortieren.
  destruct (sortiere_zwei_spec l ia ic lo hi Hlo Hhi Ha Hc Nac) as (l1 & E1 & W1 & O1 & K1 & _).
  rewrite E1. cbn [bind].
  assert (L1 : len l1 = len l) by apply W1.
  destruct (sortiere_zwei_spec l1 ia ib lo hi Hlo ltac:(lia) Ha Hb Nab) as (l2 & E2 & W2 & O2 & K2 & C2).
  rewrite E2. cbn [bind].
  assert (L2 : len l2 = len l1) by apply W2.
  destruct (sortiere_zwei_spec l2 ib ic lo hi Hlo ltac:(lia) Hb Hc Nbc) as (l3 & E3 & W3 & O3 & K3 & C3).
  exists l3. split; [exact E3|]. split.
  - apply (within_trans l l2 l3 lo hi Hlo); [|exact W3]. apply (within_trans l l1 l2 lo hi Hlo); assumption.
  - assert (Hc2 : g l2 ic = g l1 ic) by (apply K2; lia).
    assert (Ha3 : g l3 ia = g l2 ia) by (apply K3; lia).
    split; [|exact O3]. destruct C2 as [[A B]|[A B]], C3 as [[C D]|[C D]]; lia.
Qed.

Lemma scan_up_spec fuel : forall l pivot re i0, 1 <= i0 <= re -> re <= len l -> pivot <= g l re ->
  (Z.to_nat (re - i0) < fuel)%nat ->
  exists i', scan_up fuel l pivot i0 = Ok i' /\ i0 <= i' <= re /\ (forall k, i0 <= k < i' -> g l k < pivot) /\ pivot <= g l i'.
Proof.
  induction fuel as [|f IH]; intros l pivot re i0 Hi Hre Hp Hf; [lia|].
  cbn [scan_up]. rewrite rd_g by lia. cbn [bind].
  destruct (g l i0 <? pivot) eqn:E.
  - apply Z.ltb_lt in E. assert (i0 <> re) by (intros ->; lia).
    destruct (IH l pivot re (i0 + 1) ltac:(lia) Hre Hp ltac:(lia)) as (i' & E' & R & A & B).
    exists i'. split; [exact E'|]. split; [lia|]. split; [|exact B].
    intros k Hk. destruct (Z.eq_dec k i0) as [->|]; [exact E|]. apply A. lia.
  - apply Z.ltb_ge in E. exists i0. split; [reflexivity|]. split; [lia|]. split; [intros k Hk; lia|exact E].
Qed.

Lemma scan_down_spec fuel : forall l pivot li j0, 1 <= li -> j0 <= len l -> li - 1 <= j0 ->
  (Z.to_nat (j0 - li + 1) < fuel)%nat ->
  exists j', scan_down fuel l pivot li j0 = Ok j' /\ li - 1 <= j' <= j0 /\ (forall k, j' < k <= j0 -> pivot < g l k) /\
    (j' < li \/ g l j' <= pivot).
Proof.
  induction fuel as [|f IH]; intros l pivot li j0 Hli Hj Hlo Hf; [lia|].
  cbn [scan_down]. destruct (j0 >=? li) eqn:Ej; rewrite Z.geb_leb in Ej.
  - apply Z.leb_le in Ej. rewrite rd_g by lia. cbn [bind].
    destruct (g l j0 >? pivot) eqn:E; rewrite Z.gtb_ltb in E.
    + apply Z.ltb_lt in E.
      destruct (IH l pivot li (j0 - 1) Hli ltac:(lia) ltac:(lia) ltac:(lia)) as (j' & E' & R & A & B).
      exists j'. split; [exact E'|]. split; [lia|]. split; [|exact B].
      intros k Hk. destruct (Z.eq_dec k j0) as [->|]; [exact E|]. apply A. lia.
    + apply Z.ltb_ge in E. exists j0. split; [reflexivity|]. split; [lia|]. split; [intros k Hk; lia|right; exact E].
  - apply Z.leb_gt in Ej. exists j0. split; [reflexivity|]. split; [lia|]. split; [intros k Hk; lia|left; lia].
Qed.

Lemma partition_loop_spec pivot li re fuel : forall l i j, 1 <= li -> re <= len l -> li - 1 <= i -> i < j -> j <= re ->
  g l re = pivot -> (forall k, li <= k <= i -> g l k <= pivot) -> (forall k, j <= k <= re -> pivot <= g l k) ->
  (Z.to_nat (j - i) < fuel)%nat ->
  exists l' p, partition_loop fuel l pivot li re i j = Ok (l', p) /\ within l l' li re /\ li <= p <= re /\
    (forall k, li <= k < p -> g l' k <= g l' p) /\ (forall k, p < k <= re -> g l' p <= g l' k).
Proof.
  induction fuel as [|f IH]; intros l i j Hli Hre Hi Hij Hj Hp Hlow Hhigh Hf; [lia|].
  cbn [partition_loop].
  destruct (scan_up_spec (length l + 1) l pivot re (i + 1) ltac:(lia) Hre ltac:(lia) ltac:(unfold len in *; lia))
    as (i' & Ei & Ri & Ai & Bi).
  rewrite Ei. cbn [bind].
  destruct (scan_down_spec (length l + 1) l pivot li (j - 1) Hli ltac:(lia) ltac:(lia) ltac:(unfold len in *; lia))
    as (j' & Ej & Rj & Aj & Bj).
  rewrite Ej. cbn [bind].
  destruct (i' >=? j') eqn:Ec; rewrite Z.geb_leb in Ec.
  - apply Z.leb_le in Ec.
    destruct (within_swap l i' re li re Hli Hre ltac:(lia) ltac:(lia)) as (l' & Es & W & Gi & Gr & Go).
    rewrite Es. cbn [bind]. exists l', i'. split; [reflexivity|]. split; [exact W|]. split; [lia|].
    rewrite Gi, Hp. split.
    + intros k Hk. rewrite Go by lia. destruct (Z_le_gt_dec k i) as [Hki|Hki]; [apply Hlow; lia|].
      pose proof (Ai k ltac:(lia)). lia.
    + intros k Hk. destruct (Z.eq_dec k re) as [->|Hkr]; [rewrite Gr; exact Bi|].
      rewrite Go by lia. destruct (Z_le_gt_dec j k) as [Hjk|Hjk]; [apply Hhigh; lia|].
      pose proof (Aj k ltac:(lia)). lia.
  - apply Z.leb_gt in Ec.
    assert (Hj'p : g l j' <= pivot) by (destruct Bj as [Bj|Bj]; [lia|exact Bj]).
    destruct (within_swap l i' j' li re Hli Hre ltac:(lia) ltac:(lia)) as (l' & Es & W & Gi & Gj & Go).
    rewrite Es. cbn [bind].
    assert (Ll : len l' = len l) by apply W.
    destruct (IH l' i' j' Hli ltac:(lia) ltac:(lia) Ec ltac:(lia)) as (l'' & p & E'' & W'' & Rp & P1 & P2).
    + rewrite Go by lia. exact Hp.
    + intros k Hk. destruct (Z.eq_dec k i') as [->|Hne]; [rewrite Gi; exact Hj'p|].
      rewrite Go by lia. destruct (Z_le_gt_dec k i) as [Hki|Hki]; [apply Hlow; lia|].
      pose proof (Ai k ltac:(lia)). lia.
    + intros k Hk. destruct (Z.eq_dec k j') as [->|Hne]; [rewrite Gj; exact Bi|].
      rewrite Go by lia. destruct (Z_le_gt_dec j k) as [Hjk|Hjk]; [apply Hhigh; lia|].
      pose proof (Aj k ltac:(lia)). lia.
    + lia.
    + replace (length l') with (length l) in E'' by (unfold len in Ll; lia).
      exists l'', p. split; [exact E''|]. split; [apply (within_trans l l' l'' li re Hli W W'')|]. auto.
Qed.

Lemma impl_spec l li re : (li <= re -> 1 <= li /\ re <= len l) ->
  exists l' p, quicksort_iter_impl l li re = Ok (l', p) /\ within l l' li re /\
    (re <= li -> p = li) /\ (li < re -> li <= p <= re) /\
    (forall k, li <= k < p -> g l' k <= g l' p) /\ (forall k, p < k <= re -> g l' p <= g l' k).
Proof.
  intros Hv. unfold quicksort_iter_impl.
  destruct (re <=? li) eqn:E0.
  - apply Z.leb_le in E0. exists l, li. split; [reflexivity|]. split; [apply within_refl|].
    repeat split; intros; lia.
  - apply Z.leb_gt in E0. destruct (Hv ltac:(lia)) as [Hli Hre].
    destruct (re - li + 1 =? 2) eqn:E2.
    + apply Z.eqb_eq in E2.
      destruct (sortiere_zwei_spec l li re li re Hli Hre ltac:(lia) ltac:(lia) ltac:(lia)) as (l' & E & W & O & _).
      rewrite E. cbn [bind]. exists l', li. split; [reflexivity|]. split; [exact W|].
      repeat split; intros; try lia. replace k with re by lia. exact O.
    + apply Z.eqb_neq in E2. set (mi := li + Z.quot (re - li + 1) 2).
      assert (Hq : Z.quot (re - li + 1) 2 = (re - li + 1) / 2) by (apply Z.quot_div_nonneg; lia).
      assert (Hmi : li < mi < re) by (unfold mi; rewrite Hq; pose proof (Z.div_mod (re - li + 1) 2 ltac:(lia));
                                     pose proof (Z.mod_pos_bound (re - li + 1) 2 ltac:(lia)); lia).
      destruct (drei_werte_spec l li mi re li re Hli Hre ltac:(lia) ltac:(lia) ltac:(lia) ltac:(lia) ltac:(lia) ltac:(lia))
        as (l1 & E1 & W1 & O1 & O2).
      rewrite E1. cbn [bind]. assert (L1 : len l1 = len l) by apply W1.
      destruct (re - li + 1 =? 3) eqn:E3.
      * apply Z.eqb_eq in E3. exists l1, mi. split; [reflexivity|]. split; [exact W1|].
        repeat split; intros; try lia.
        -- replace k with li by lia. exact O1.
        -- replace k with re by lia. exact O2.
      * apply Z.eqb_neq in E3.
        destruct (within_swap l1 mi re li re Hli ltac:(lia) ltac:(lia) ltac:(lia)) as (l2 & Es & W2 & _ & _ & _).
        rewrite Es. cbn [bind]. assert (L2 : len l2 = len l1) by apply W2.
        rewrite rd_g by lia. cbn [bind].
        destruct (partition_loop_spec (g l2 re) li re (length l + 1) l2 (li - 1) re Hli ltac:(lia) ltac:(lia) ltac:(lia) ltac:(lia) eq_refl)
          as (l3 & p & E & W3 & Rp & P1 & P2).
        -- intros k Hk. lia.
        -- intros k Hk. replace k with re by lia. lia.
        -- unfold len in *. lia.
        -- exists l3, p. split; [exact E|]. split.
           ++ apply (within_trans l l2 l3 li re Hli); [|exact W3]. apply (within_trans l l1 l2 li re Hli); assumption.
           ++ repeat split; intros; try lia; auto.
Qed.

(* ---- the main loop ---- *)
Definition in_r (r : Z * Z) (k : Z) : Prop := fst r <= k <= snd r.
Definition same_range (stk : list (Z * Z)) (p q : Z) : Prop := exists r, In r stk /\ in_r r p /\ in_r r q.
Definition valid_r (l : list Z) (r : Z * Z) : Prop := fst r <= snd r -> 1 <= fst r /\ snd r <= len l.
Fixpoint disj (stk : list (Z * Z)) : Prop :=
  match stk with
  | [] => True
  | r :: rest => (forall r', In r' rest -> forall k, in_r r k -> ~ in_r r' k) /\ disj rest
  end.
Definition sorted_except (l : list Z) (stk : list (Z * Z)) : Prop :=
  forall p q, 1 <= p -> p < q -> q <= len l -> ~ same_range stk p q -> g l p <= g l q.
Definition Inv (l : list Z) (stk : list (Z * Z)) : Prop :=
  (forall r, In r stk -> valid_r l r) /\ disj stk /\ sorted_except l stk.
Fixpoint measure (stk : list (Z * Z)) : Z :=
  match stk with
  | [] => 0
  | (li, re) :: rest => 2 * Z.max 0 (re - li + 1) + 1 + measure rest
  end.
Lemma measure_nonneg stk : 0 <= measure stk.
Proof. induction stk as [|[li re] rest IH]; cbn [measure]; lia. Qed.

Definition next_stack (li re i : Z) (rest : list (Z * Z)) : list (Z * Z) :=
  let s1 := if i - 1 >? li then (li, i - 1) :: rest else rest in
  if i + 1 <? re then (i + 1, re) :: s1 else s1.

Lemma next_stack_in li re i rest r : In r (next_stack li re i rest) ->
  In r rest \/ (r = (li, i - 1) /\ li < i - 1) \/ (r = (i + 1, re) /\ i + 1 < re).
Proof.
  unfold next_stack. destruct (i + 1 <? re) eqn:E2, (i - 1 >? li) eqn:E1; cbn [In];
    try rewrite Z.gtb_ltb in E1; intros H;
    repeat match goal with
           | H : _ \/ _ |- _ => destruct H as [H|H]
           | H : (_ <? _) = true |- _ => apply Z.ltb_lt in H
           end; subst; auto.
Qed.
Lemma next_stack_rest li re i rest r : In r rest -> In r (next_stack li re i rest).
Proof.
  intros H. unfold next_stack. destruct (i + 1 <? re), (i - 1 >? li); cbn [In]; auto.
Qed.
Lemma next_stack_left li re i rest : li < i - 1 -> In (li, i - 1) (next_stack li re i rest).
Proof.
  intros H. unfold next_stack. replace (i - 1 >? li) with true by (symmetry; rewrite Z.gtb_ltb; apply Z.ltb_lt; lia).
  destruct (i + 1 <? re); cbn [In]; auto.
Qed.
Lemma next_stack_right li re i rest : i + 1 < re -> In (i + 1, re) (next_stack li re i rest).
Proof.
  intros H. unfold next_stack. replace (i + 1 <? re) with true by (symmetry; apply Z.ltb_lt; lia). cbn [In]. auto.
Qed.

Lemma quicksort_step l li re rest l' i : Inv l ((li, re) :: rest) -> within l l' li re ->
  (re <= li -> i = li) -> (li < re -> li <= i <= re) ->
  (forall k, li <= k < i -> g l' k <= g l' i) -> (forall k, i < k <= re -> g l' i <= g l' k) ->
  Inv l' (next_stack li re i rest) /\ measure (next_stack li re i rest) < measure ((li, re) :: rest).
Proof.
  intros (Hval & (Hd1 & Hd2) & Hsort) (Wl & Wp & Wout & Win) Hi0 Hi1 P1 P2.
  assert (Hv0 : valid_r l (li, re)) by (apply Hval; left; reflexivity). unfold valid_r in Hv0. cbn [fst snd] in Hv0.
  split; [split; [|split]|].
  - (* validity *)
    intros r Hr. unfold valid_r. rewrite Wl. destruct (next_stack_in _ _ _ _ _ Hr) as [H|[[-> H]|[-> H]]]; cbn [fst snd].
    + apply (Hval r). right. exact H.
    + intros _. lia.
    + intros _. lia.
  - (* disjointness *)
    assert (Hsub : forall k, (in_r (li, i - 1) k \/ in_r (i + 1, re) k) -> li < re -> in_r (li, re) k).
    { unfold in_r. cbn [fst snd]. intros k Hk Hlt. specialize (Hi1 Hlt). lia. }
    unfold next_stack.
    assert (Hs1 : disj (if i - 1 >? li then (li, i - 1) :: rest else rest)).
    { destruct (i - 1 >? li) eqn:E1; [|exact Hd2]. rewrite Z.gtb_ltb in E1. apply Z.ltb_lt in E1.
      cbn [disj]. split; [|exact Hd2]. intros r' Hr' k Hk. apply (Hd1 r' Hr' k). apply Hsub; [left; exact Hk|].
      destruct (Z_lt_dec li re); [assumption|]. specialize (Hi0 ltac:(lia)). lia. }
    destruct (i + 1 <? re) eqn:E2; [|exact Hs1]. apply Z.ltb_lt in E2.
    cbn [disj]. split; [|exact Hs1].
    intros r' Hr' k Hk.
    assert (Hlt : li < re) by (destruct (Z_lt_dec li re); [assumption|]; specialize (Hi0 ltac:(lia)); lia).
    destruct (i - 1 >? li) eqn:E1.
    + destruct Hr' as [<-|Hr'].
      * unfold in_r in *. cbn [fst snd] in *. lia.
      * apply (Hd1 r' Hr' k). apply Hsub; [right; exact Hk|exact Hlt].
    + apply (Hd1 r' Hr' k). apply Hsub; [right; exact Hk|exact Hlt].
  - (* sorted except inside the pending ranges *)
    intros p q Hp Hpq Hq Hns. rewrite Wl in Hq.
    assert (Hold : forall a b, 1 <= a -> a < b -> b <= len l -> ~ in_r (li, re) a \/ ~ in_r (li, re) b ->
                   (forall r, In r rest -> ~ (in_r r a /\ in_r r b)) -> g l a <= g l b).
    { intros a b Ha Hab Hb Hone Hrest. apply Hsort; try assumption.
      intros (r & [<-|Hr] & Ra & Rb); [tauto|]. apply (Hrest r Hr). tauto. }
    assert (Hdis : forall r k, In r rest -> in_r (li, re) k -> ~ in_r r k) by (intros r k Hr Hk; apply (Hd1 r Hr k Hk)).
    destruct (Z_le_gt_dec li p) as [Hlp|Hlp]; [destruct (Z_le_gt_dec p re) as [Hpr|Hpr]|].
    + (* p inside *)
      destruct (Z_le_gt_dec q re) as [Hqr|Hqr].
      * (* both inside *)
        assert (Hlt : li < re) by lia. specialize (Hi1 Hlt).
        destruct (Z_lt_dec q i) as [Hqi|Hqi].
        { exfalso. apply Hns. exists (li, i - 1). split; [apply next_stack_left; lia|]. unfold in_r. cbn [fst snd]. lia. }
        destruct (Z_lt_dec i p) as [Hip|Hip].
        { exfalso. apply Hns. exists (i + 1, re). split; [apply next_stack_right; lia|]. unfold in_r. cbn [fst snd]. lia. }
        assert (A : g l' p <= g l' i) by (destruct (Z.eq_dec p i) as [->|]; [lia|apply P1; lia]).
        assert (B : g l' i <= g l' q) by (destruct (Z.eq_dec q i) as [->|]; [lia|apply P2; lia]).
        lia.
      * (* p inside, q above *)
        destruct (Win p ltac:(lia)) as (p' & Hp' & ->). rewrite (Wout q) by lia.
        apply Hold; try lia.
        -- right. unfold in_r. cbn [fst snd]. lia.
        -- intros r Hr [Ra _]. apply (Hdis r p' Hr); [unfold in_r; cbn [fst snd]; lia|exact Ra].
    + (* p above the range: both outside *)
      rewrite (Wout p), (Wout q) by lia. apply Hold; try lia.
      * left. unfold in_r. cbn [fst snd]. lia.
      * intros r Hr [Ra Rb]. apply Hns. exists r. split; [apply next_stack_rest; exact Hr|]. split; assumption.
    + (* p below the range *)
      destruct (Z_le_gt_dec li q) as [Hlq|Hlq]; [destruct (Z_le_gt_dec q re) as [Hqr|Hqr]|].
      * destruct (Win q ltac:(lia)) as (q' & Hq' & ->). rewrite (Wout p) by lia.
        apply Hold; try lia.
        -- left. unfold in_r. cbn [fst snd]. lia.
        -- intros r Hr [_ Rb]. apply (Hdis r q' Hr); [unfold in_r; cbn [fst snd]; lia|exact Rb].
      * rewrite (Wout p), (Wout q) by lia. apply Hold; try lia.
        -- left. unfold in_r. cbn [fst snd]. lia.
        -- intros r Hr [Ra Rb]. apply Hns. exists r. split; [apply next_stack_rest; exact Hr|]. split; assumption.
      * rewrite (Wout p), (Wout q) by lia. apply Hold; try lia.
        -- left. unfold in_r. cbn [fst snd]. lia.
        -- intros r Hr [Ra Rb]. apply Hns. exists r. split; [apply next_stack_rest; exact Hr|]. split; assumption.
  - (* the measure decreases *)
    unfold next_stack. cbn [measure].
    destruct (Z_lt_dec li re) as [Hlt|Hge].
    + specialize (Hi1 Hlt).
      destruct (i + 1 <? re) eqn:E2, (i - 1 >? li) eqn:E1; cbn [measure];
        try rewrite Z.gtb_ltb in E1;
        repeat match goal with
               | H : (_ <? _) = true |- _ => apply Z.ltb_lt in H
               | H : (_ <? _) = false |- _ => apply Z.ltb_ge in H
               end; lia.
    + specialize (Hi0 ltac:(lia)). subst i.
      replace (li + 1 <? re) with false by (symmetry; apply Z.ltb_ge; lia).
      replace (li - 1 >? li) with false by (symmetry; rewrite Z.gtb_ltb; apply Z.ltb_ge; lia).
      lia.
Qed.

Lemma quicksort_loop_spec fuel : forall l stk, Inv l stk -> (Z.to_nat (measure stk) < fuel)%nat ->
  exists l', quicksort_loop fuel l stk = Ok l' /\ Permutation l' l /\ len l' = len l /\ sorted_except l' [].
Proof.
  induction fuel as [|f IH]; intros l stk HI Hf; [lia|].
  cbn [quicksort_loop]. destruct stk as [|[li re] rest].
  - exists l. split; [reflexivity|]. split; [reflexivity|]. split; [reflexivity|]. apply HI.
  - assert (Hv : valid_r l (li, re)) by (apply HI; left; reflexivity).
    destruct (impl_spec l li re Hv) as (l' & i & E & W & I0 & I1 & P1 & P2).
    rewrite E. cbn [bind].
    destruct (quicksort_step l li re rest l' i HI W I0 I1 P1 P2) as [HI' Hm].
    change (if i + 1 <? re then (i + 1, re) :: (if i - 1 >? li then (li, i - 1) :: rest else rest)
            else if i - 1 >? li then (li, i - 1) :: rest else rest) with (next_stack li re i rest).
    pose proof (measure_nonneg (next_stack li re i rest)) as Hn.
    destruct (IH l' (next_stack li re i rest) HI' ltac:(lia)) as (l'' & E'' & Pm & Ln & S).
    exists l''. split; [exact E''|]. destruct W as (Wl & Wp & _). split; [now transitivity l'|]. split; [lia|exact S].
Qed.

Lemma g_cons x r k : 1 <= k -> g (x :: r) (k + 1) = g r k.
Proof. intros H. unfold g. replace (Z.to_nat (k + 1 - 1)) with (S (Z.to_nat (k - 1))) by lia. reflexivity. Qed.

Lemma sorted_of_g l : sorted_except l [] -> Sorted Z.le l.
Proof.
  intros H. apply StronglySorted_Sorted.
  induction l as [|x r IH]; [constructor|].
  constructor.
  - apply IH. intros p q Hp Hpq Hq _. rewrite <- (g_cons x r p), <- (g_cons x r q) by lia. apply H; try lia.
    + rewrite len_cons. lia.
    + intros (r0 & [] & _).
  - apply Forall_forall. intros y Hy. destruct (In_nth r y 0 Hy) as (n & Hn & <-).
    change x with (g (x :: r) 1).
    replace (nth n r 0) with (g (x :: r) (Z.of_nat n + 2)).
    + apply H; try lia.
      * rewrite len_cons. unfold len. lia.
      * intros (r0 & [] & _).
    + unfold g. replace (Z.to_nat (Z.of_nat n + 2 - 1)) with (S n) by lia. reflexivity.
Qed.

Theorem quicksort_ref_spec l : exists l', Quicksort_Ref l = Ok l' /\ Sorted Z.le l' /\ Permutation l' l.
Proof.
  unfold Quicksort_Ref, quicksort_iter.
  destruct (quicksort_loop_spec (2 * length l + 2) l [(1, len l)]) as (l' & E & P & L & S).
  - split; [|split].
    + intros r [<-|[]]. unfold valid_r. cbn [fst snd]. lia.
    + cbn [disj]. split; [intros r' []|exact I].
    + intros p q Hp Hpq Hq Hns. exfalso. apply Hns. exists (1, len l). split; [left; reflexivity|].
      unfold in_r. cbn [fst snd]. lia.
  - cbn [measure]. unfold len. lia.
  - exists l'. split; [exact E|]. split; [apply sorted_of_g; exact S|exact P].
Qed.
Theorem quicksort_spec l : exists l', Quicksort l = Ok l' /\ Sorted Z.le l' /\ Permutation l' l.
Proof. apply quicksort_ref_spec. Qed.
Lemma tausche_spec a b : Tausche a b = (b, a).
Proof. reflexivity. Qed.

(* the instrumented loop sorts exactly like the plain one *)
Lemma quicksort_loop_tiefe_fst fuel : forall l stk d,
  match quicksort_loop_tiefe fuel l stk d with Ok (l', _) => quicksort_loop fuel l stk = Ok l' | Err => quicksort_loop fuel l stk = Err
  | NoFuel => quicksort_loop fuel l stk = NoFuel | Undef => quicksort_loop fuel l stk = Undef end.
Proof.
  induction fuel as [|f IH]; intros l stk d; cbn [quicksort_loop_tiefe quicksort_loop]; [reflexivity|].
  destruct stk as [|[li re] rest]; [reflexivity|].
  destruct (quicksort_iter_impl l li re) as [[l' i]| | |]; cbn [bind]; try reflexivity. apply IH.
Qed.
Lemma quicksort_tiefe_spec l : exists l' d, Quicksort_Tiefe l = Ok (l', d) /\ Quicksort_Ref l = Ok l'.
Proof.
  destruct (quicksort_ref_spec l) as (l' & E & _). unfold Quicksort_Tiefe.
  pose proof (quicksort_loop_tiefe_fst (2 * length l + 2) l [(1, len l)] 1) as H.
  unfold Quicksort_Ref, quicksort_iter in E. rewrite E in H.
  destruct (quicksort_loop_tiefe (2 * length l + 2) l [(1, len l)] 1) as [[l2 d]| | |]; try discriminate.
  exists l2, d. split; [reflexivity|]. unfold Quicksort_Ref, quicksort_iter. congruence.
Qed.
