(* C17 — transcription of lib/stdlib/Duden/Texte.ddp (and the Zeichen.ddp / TextIterator pieces it uses).
   A Text is the list of its code points, a Buchstabe is a code point (Z).  `t an der Stelle i`,
   the three slice operators and `verkettet mit` are the language built-ins of Lib/Base.v.
   Loops are transcribed one by one; `Solange` loops carry fuel (NoFuel is excluded in TextProofs.v).
   Text Referenz parameters are modelled by returning the new text. *)
From Coq Require Import List ZArith Bool Lia.
From DDP Require Import Lib.Base Lib.ListFns.
Import ListNotations.
Open Scope Z_scope.

Definition text := list Z.

Fixpoint text_eqb (a b : text) : bool :=
  match a, b with
  | [], [] => true
  | x :: a', y :: b' => (x =? y) && text_eqb a' b'
  | _, _ => false
  end.

Definition Erster_Buchstabe (t : text) : res Z := rd t 1.
Definition Nter_Buchstabe (n : Z) (t : text) : res Z := rd t n.
Definition Letzter_Buchstabe (t : text) : res Z := rd t (len t).

(* Wenn die Länge von text kleiner als, oder anzahl ist, dann "" ; Sonst text ab dem (anzahl plus 1). Element *)
Definition Entferne_Anzahl_Vorne (t : text) (anzahl : Z) : res text :=
  if len t <=? anzahl then Ok [] else slice_from t (anzahl + 1).
Definition Entferne_Anzahl_Hinten (t : text) (anzahl : Z) : res text :=
  if len t <=? anzahl then Ok [] else slice_to t (len t - anzahl).
Definition Entferne_Anzahl_Vorne_Mutierend := Entferne_Anzahl_Vorne.
Definition Entferne_Anzahl_Hinten_Mutierend := Entferne_Anzahl_Hinten.

(* Solange (text an der Stelle index) gleich zeichen ist: Erhöhe index um 1.
   Wenn index größer als die Länge von text ist: Speichere "" in text. Verlasse die Funktion. *)
Fixpoint trim_anfang_loop (fuel : nat) (t : text) (zeichen index : Z) : res text :=
  match fuel with
  | O => NoFuel
  | S f =>
      do c <- rd t index;;
      if c =? zeichen
      then let index := index + 1 in if index >? len t then Ok [] else trim_anfang_loop f t zeichen index
      else slice_from t index
  end.
Definition Trim_Anfang (t : text) (zeichen : Z) : res text :=
  if len t =? 0 then Ok t else trim_anfang_loop (length t + 1) t zeichen 1.
Definition Trim_Anfang_Wert := Trim_Anfang.

Fixpoint trim_ende_loop (fuel : nat) (t : text) (zeichen index : Z) : res text :=
  match fuel with
  | O => NoFuel
  | S f =>
      do c <- rd t index;;
      if c =? zeichen
      then let index := index - 1 in if index <? 1 then Ok [] else trim_ende_loop f t zeichen index
      else slice_to t index
  end.
Definition Trim_Ende (t : text) (zeichen : Z) : res text :=
  if len t =? 0 then Ok t
  else let index := len t in if index =? 0 then Ok t else trim_ende_loop (length t + 1) t zeichen index.
Definition Trim_Ende_Wert := Trim_Ende.

(* Solange (text an der Stelle startIndex) gleich zeichen ist und startIndex kleiner als die Länge von text ist, erhöhe startIndex um 1. *)
Fixpoint trim_start_loop (fuel : nat) (t : text) (zeichen startIndex : Z) : res Z :=
  match fuel with
  | O => NoFuel
  | S f => do c <- rd t startIndex;;
           if (c =? zeichen) && (startIndex <? len t) then trim_start_loop f t zeichen (startIndex + 1) else Ok startIndex
  end.
(* Solange (text an der Stelle stopIndex) gleich zeichen ist und stopIndex ungleich 1 ist, verringere stopIndex um 1. *)
Fixpoint trim_stop_loop (fuel : nat) (t : text) (zeichen stopIndex : Z) : res Z :=
  match fuel with
  | O => NoFuel
  | S f => do c <- rd t stopIndex;;
           if (c =? zeichen) && negb (stopIndex =? 1) then trim_stop_loop f t zeichen (stopIndex - 1) else Ok stopIndex
  end.
Definition Trim (t : text) (zeichen : Z) : res text :=
  if len t =? 0 then Ok t
  else
    do startIndex <- trim_start_loop (length t + 1) t zeichen 1;;
    do stopIndex <- trim_stop_loop (length t + 1) t zeichen (len t);;
    do alles <- (if (startIndex =? len t) && (stopIndex =? 1) then do c <- rd t 1;; Ok (c =? zeichen) else Ok false);;
    if alles then Ok [] else slice t startIndex stopIndex.
Definition Trim_Wert := Trim.

(* Für jeden Buchstaben b in text, wenn b gleich zeichen ist, gib wahr zurück. Gib falsch zurück. *)
Fixpoint Text_Enthaelt_Buchstabe (t : text) (zeichen : Z) : bool :=
  match t with [] => false | b :: r => if b =? zeichen then true else Text_Enthaelt_Buchstabe r zeichen end.
Fixpoint anzahl_buchstabe_loop (t : text) (zeichen anz : Z) : Z :=
  match t with [] => anz | b :: r => anzahl_buchstabe_loop r zeichen (if b =? zeichen then anz + 1 else anz) end.
Definition Text_Anzahl_Buchstabe (t : text) (zeichen : Z) : Z := anzahl_buchstabe_loop t zeichen 0.

(* Solange endIndex kleiner als, oder nt ist: subtext := text im Bereich von startIndex bis endIndex; ...
   Speichere startIndex plus ns in endIndex. Erhöhe startIndex um 1. *)
Fixpoint enthaelt_text_loop (fuel : nat) (t such : text) (nt ns startIndex endIndex : Z) : res bool :=
  match fuel with
  | O => NoFuel
  | S f =>
      if endIndex <=? nt
      then do sub <- slice t startIndex endIndex;;
           if text_eqb sub such then Ok true
           else enthaelt_text_loop f t such nt ns (startIndex + 1) (startIndex + ns)
      else Ok false
  end.
Definition Text_Enthaelt_Text (t such : text) : res bool :=
  if text_eqb t such then Ok true
  else
    let nt := len t in let ns := len such in
    if (nt =? 0) || (ns =? 0) then Ok false
    else enthaelt_text_loop (length t + 1) t such nt ns 1 ns.

Fixpoint anzahl_text_loop (fuel : nat) (t such : text) (nt ns : Z) (startIndex endIndex anz : Z) : res Z :=
  match fuel with
  | O => NoFuel
  | S f =>
      if endIndex <=? nt
      then do sub <- slice t startIndex endIndex;;
           let anz := if text_eqb sub such then anz + 1 else anz in
           (* Speichere startIndex plus ns in endIndex. Erhöhe startIndex um 1. *)
           anzahl_text_loop f t such nt ns (startIndex + 1) (startIndex + ns) anz
      else Ok anz
  end.
Definition Text_Anzahl_Text (t such : text) : res Z :=
  let nt := len t in let ns := len such in
  if nt =? 0 then Ok 0 else if ns =? 0 then Ok nt
  else anzahl_text_loop (length t + 1) t such nt ns 1 ns 0.
(* Wenn subtext gleich suchText ist: Erhöhe anz um 1. Erhöhe startIndex um ns. Erhöhe endIndex um ns.
   Sonst: Erhöhe startIndex um 1. Erhöhe endIndex um 1. *)
Fixpoint nicht_ueberlappend_loop (fuel : nat) (t such : text) (nt ns : Z) (startIndex endIndex anz : Z) : res Z :=
  match fuel with
  | O => NoFuel
  | S f =>
      if endIndex <=? nt
      then do sub <- slice t startIndex endIndex;;
           if text_eqb sub such
           then nicht_ueberlappend_loop f t such nt ns (startIndex + ns) (endIndex + ns) (anz + 1)
           else nicht_ueberlappend_loop f t such nt ns (startIndex + 1) (endIndex + 1) anz
      else Ok anz
  end.
Definition Text_Anzahl_Text_Nicht_Ueberlappend (t such : text) : res Z :=
  let nt := len t in let ns := len such in
  if nt =? 0 then Ok 0 else if ns =? 0 then Ok nt
  else nicht_ueberlappend_loop (length t + 1) t such nt ns 1 ns 0.

Definition Beginnt_Mit_Buchstabe (t : text) (b : Z) : res bool :=
  if len t =? 0 then Ok false else do c <- rd t 1;; Ok (c =? b).
Definition Beginnt_Mit_Text (t such : text) : res bool :=
  if (len t =? 0) || (len such =? 0) then Ok false
  else do sub <- slice_to t (len such);; Ok (text_eqb sub such).
Definition Endet_Mit_Buchstabe (t : text) (b : Z) : res bool :=
  if len t =? 0 then Ok false else do c <- rd t (len t);; Ok (c =? b).
Definition Endet_Mit_Text (t such : text) : res bool :=
  if (len t =? 0) || (len such =? 0) then Ok false
  else do sub <- slice_from t (len t - len such + 1);; Ok (text_eqb sub such).

Definition Text_Leeren (t : text) : text := [].
Definition Text_An_Text_Fuegen (t elm : text) : text := t ++ elm.
Definition Buchstabe_An_Text_Fuegen (t : text) (elm : Z) : text := t ++ [elm].
(* Wenn index kleiner als, oder 1 ist: elm verkettet mit text. Wenn aber index größer als die Länge von text ist: text verkettet mit elm.
   Sonst: text bis zum (index minus 1). Element verkettet mit elm verkettet mit text ab dem index. Element. *)
Definition Text_In_Text_Einfuegen (t : text) (index : Z) (elm : text) : res text :=
  if index <=? 1 then Ok (elm ++ t)
  else if index >? len t then Ok (t ++ elm)
  else do a <- slice_to t (index - 1);; do b <- slice_from t index;; Ok ((a ++ elm) ++ b).
Definition Buchstabe_In_Text_Einfuegen (t : text) (index : Z) (elm : Z) : res text :=
  if index <=? 1 then Ok (elm :: t)
  else if index >? len t then Ok (t ++ [elm])
  else do a <- slice_to t (index - 1);; do b <- slice_from t index;; Ok ((a ++ [elm]) ++ b).
Definition Text_Vor_Text_Stellen (t elm : text) : text := elm ++ t.
Definition Buchstabe_Vor_Text_Stellen (t : text) (elm : Z) : text := elm :: t.

Definition Loesche_Text (t : text) (index : Z) : res text :=
  if len t =? 0 then Ok t
  else if (index =? 1) && (len t =? 1) then Ok []
  else if index =? 1 then slice_from t 2
  else if index =? len t then slice_to t (len t - 1)
  else do a <- slice_to t (index - 1);; do b <- slice_from t (index + 1);; Ok (a ++ b).
Definition Loesche_Text_Bereich (t : text) (start end_ : Z) : res text :=
  if end_ >=? len t then (if start <=? 1 then Ok [] else slice_to t (start - 1))
  else if start =? 1 then slice_from t (end_ + 1)
  else do a <- slice_to t (start - 1);; do b <- slice_from t (end_ + 1);; Ok (a ++ b).

Fixpoint fuelle_text_loop (n : nat) (i : Z) (t : text) (elm : Z) : res text :=
  match n with O => Ok t | S n' => do t' <- wr t i elm;; fuelle_text_loop n' (i + 1) t' elm end.
Definition Fuelle_Text (t : text) (elm : Z) : res text := fuelle_text_loop (length t) 1 t elm.

(* Die Buchstaben Liste l ist die Länge von text Mal 0 als Buchstabe. Die Zahl i ist 1.
   Für jeden Buchstaben b in text: Speichere b in l an der Stelle i. Erhöhe i um 1. *)
Fixpoint buchstaben_loop {B} (f : Z -> B) (t : text) (i : Z) (l : list B) : res (list B) :=
  match t with [] => Ok l | b :: r => do l' <- wr l i (f b);; buchstaben_loop f r (i + 1) l' end.
Definition Buchstaben_TextRef_BuchstabenListe (t : text) : res (list Z) :=
  do l <- mal (len t) 0;; buchstaben_loop (fun b => b) t 1 l.
Definition Buchstaben_Text_BuchstabenListe := Buchstaben_TextRef_BuchstabenListe.
Definition Buchstaben_TextRef_TextListe (t : text) : res (list text) :=
  do l <- mal (len t) ([] : text);; buchstaben_loop (fun b => [b]) t 1 l.
Definition Buchstaben_Text_TextListe := Buchstaben_TextRef_TextListe.

(* Wenn die Länge von text gleich 0 ist, gib -1 zurück. i = 1. Für jeden Buchstaben b in text: Wenn b gleich elm ist, gib i zurück. Erhöhe i um 1. *)
Fixpoint index_buchstabe_loop (t : text) (elm i : Z) : Z :=
  match t with [] => -1 | b :: r => if b =? elm then i else index_buchstabe_loop r elm (i + 1) end.
Definition Text_Index_Von_Buchstabe_Ref (t : text) (elm : Z) : Z :=
  if len t =? 0 then -1 else index_buchstabe_loop t elm 1.
Definition Text_Index_Von_Buchstabe := Text_Index_Von_Buchstabe_Ref.

Inductive ctl (S R : Type) : Type := Next (s : S) | Ret (r : R).
Arguments Next {S R} s. Arguments Ret {S R} r.

Fixpoint index_text_loop (fuel : nat) (t elm : text) (n c1 c2 tt i : Z) : res Z :=
  match fuel with
  | O => NoFuel
  | S f =>
      if i <=? tt then
        do x <- rd t i;;
        do st <- (if negb (x =? c1)
                  then do sub <- slice t (i + 1) (i + tt);;
                       let o := Text_Index_Von_Buchstabe sub c1 in
                       if o <? 0 then Ok (Ret (-1))
                       else let i := i + o in if i >? tt then Ok (Ret (-1)) else Ok (Next i)
                  else Ok (Next i));;
        match st with
        | Ret r => Ok r
        | Next i =>
            do y <- rd t (i + 1);;
            do hit <- (if y =? c2 then do sub <- slice t i (i + n - 1);; Ok (text_eqb sub elm) else Ok false);;
            if hit then Ok i else index_text_loop f t elm n c1 c2 tt (i + 1)
        end
      else Ok (-1)
  end.
Definition Text_Index_Von_Text (t elm : text) : res Z :=
  let n := len elm in
  if len t =? 0 then Ok (-1)
  else if n =? 0 then Ok 1
  else if n =? 1 then do c <- rd elm 1;; Ok (Text_Index_Von_Buchstabe_Ref t c)
  else if n =? len t then (if text_eqb elm t then Ok 1 else Ok (-1))
  else if n >? len t then Ok (-1)
  else
    do c1 <- rd elm 1;; do c2 <- rd elm 2;;
    index_text_loop (length t + 1) t elm n c1 c2 (len t - n + 1) 1.

Definition Ist_Text_Leer_Ref (t : text) : bool := len t =? 0.
Definition Ist_Text_Leer := Ist_Text_Leer_Ref.

(* ---- Zeichen.ddp ---- *)
Definition Ist_Klein (b : Z) : bool :=
  ((b >=? 96) && (b <=? 122)) || ((b >=? 223) && (b <=? 246)) || ((b >=? 248) && (b <=? 255)).
Definition Ist_Deutscher_Buchstabe (z : Z) : bool :=
  ((z >=? 65) && (z <=? 90)) || ((z >=? 97) && (z <=? 122)) || ((z =? 196) || (z =? 228)) || ((z =? 214) || (z =? 246)) ||
  ((z =? 220) || (z =? 252)) || (z =? 223).
(* Gib (b als Zahl logisch und 223) als Buchstabe zurück. *)
Definition Grossgeschrieben (b : Z) : Z := if negb (Ist_Deutscher_Buchstabe b) then b else Z.land b 223.
Definition Kleingeschrieben (b : Z) : Z := if negb (Ist_Deutscher_Buchstabe b) || Ist_Klein b then b else b + 32.

(* Der Text neuerText ist "". Für jeden Buchstaben b in text: Füge (b als großer Buchstabe) an neuerText an. *)
Fixpoint schreiben_loop (f : Z -> Z) (t neuerText : text) : text :=
  match t with [] => neuerText | b :: r => schreiben_loop f r (Buchstabe_An_Text_Fuegen neuerText (f b)) end.
Definition Grossschreiben_Wert (t : text) : text := schreiben_loop Grossgeschrieben t [].
Definition Grossschreiben := Grossschreiben_Wert.
Definition Kleinschreiben_Wert (t : text) : text := schreiben_loop Kleingeschrieben t [].
Definition Kleinschreiben := Kleinschreiben_Wert.

(* Wiederhole: Stelle zeichen vor text. gesuchteLänge Mal. *)
Fixpoint wiederhole {S} (n : nat) (f : S -> S) (s : S) : S := match n with O => s | S n' => wiederhole n' f (f s) end.
Definition Polster_Links (t : text) (zeichen endlaenge : Z) : text :=
  let gesuchteLaenge := endlaenge - len t in
  if gesuchteLaenge <=? 0 then t else wiederhole (Z.to_nat gesuchteLaenge) (fun t => Buchstabe_Vor_Text_Stellen t zeichen) t.
Definition Polster_Rechts (t : text) (zeichen endlaenge : Z) : text :=
  let gesuchteLaenge := endlaenge - len t in
  if gesuchteLaenge <=? 0 then t else wiederhole (Z.to_nat gesuchteLaenge) (fun t => Buchstabe_An_Text_Fuegen t zeichen) t.

(* ---- Spalte / Spalte_Text / Finde_Subtext ---- *)
Fixpoint spalte_loop (fuel : nat) (index_of : text -> res Z) (am_ende : Z -> text -> bool) (l : Z) (t : text) (endliste : list text) (i n : Z) : res (text * list text * Z) :=
  match fuel with
  | O => NoFuel
  | S f =>
      if i <=? n then
        do endIndex <- index_of t;;
        if endIndex <? 0 then Ok (t, endliste, i)
        else
          do piece <- (if endIndex =? 1 then Ok [] else slice_to t (endIndex - 1));;
          let endliste := endliste ++ [piece] in
          do t' <- (if am_ende endIndex t then Ok [] else slice_from t (endIndex + l));;
          spalte_loop f index_of am_ende l t' endliste (i + 1) n
      else Ok (t, endliste, i)
  end.
Definition Spalte (t : text) (zeichen : Z) : res (list text) :=
  if len t =? 0 then Ok []
  else
    let n := Text_Anzahl_Buchstabe t zeichen + 1 in
    (* Wenn endIndex gleich die Länge von text ist, Speichere "" in text. *)
    do r <- spalte_loop (length t + 2) (fun t => Ok (Text_Index_Von_Buchstabe_Ref t zeichen)) (fun endIndex t => endIndex =? len t) 1 t [] 1 n;;
    let '(t', endliste, i) := r in
    slice_to (endliste ++ [t']) i.
Definition Spalte_Text (t trenntext : text) : res (list text) :=
  let l := len trenntext in
  if l =? 0 then Buchstaben_Text_TextListe t
  else if l =? 1 then do c <- rd trenntext 1;; Spalte t c
  else
    do cnt <- Text_Anzahl_Text_Nicht_Ueberlappend t trenntext;;
    let n := cnt + 1 in
    (* Wenn endIndex plus l größer als die Länge von text ist, Speichere "" in text. *)
    do r <- spalte_loop (length t + 2) (fun t => Text_Index_Von_Text t trenntext) (fun endIndex t => endIndex + l >? len t) l t [] 1 n;;
    let '(t', endliste, i) := r in
    slice_to (endliste ++ [t']) i.

Fixpoint finde_loop (fuel : nat) (t subtext : text) (lt ls start : Z) (l : list Z) : res (list Z) :=
  match fuel with
  | O => NoFuel
  | S f =>
      if start <=? lt - ls + 1 then
        do rest <- slice_from t start;;
        do i <- Text_Index_Von_Text rest subtext;;
        if i =? -1 then Ok l
        else let i := i + (start - 1) in finde_loop f t subtext lt ls (i + ls) (l ++ [i])
      else Ok l
  end.
Definition Finde_Subtext (t subtext : text) : res (list Z) :=
  let lt := len t in let ls := len subtext in
  if (ls =? 0) || (lt =? 0) || (ls >? lt) then Ok []
  else if lt =? ls then (if text_eqb t subtext then Ok [1] else Ok [])
  else finde_loop (length t + 1) t subtext lt ls 1 [].

(* ---- Verbinden ---- *)
Fixpoint verbinden_loop {E} (show : E -> text) (n : nat) (i : Z) (liste : list E) (trennzeichen : Z) (ret : text) : res text :=
  match n with
  | O => Ok ret
  | S n' =>
      do e <- rd liste i;;
      let ret := if i <? len liste then (ret ++ show e) ++ [trennzeichen] else ret ++ show e in
      verbinden_loop show n' (i + 1) liste trennzeichen ret
  end.
Definition Verbinden_Text (liste : list text) (trennzeichen : Z) : res text :=
  verbinden_loop (fun t => t) (length liste) 1 liste trennzeichen [].
Definition Verbinden_Buchstabe (liste : list Z) (trennzeichen : Z) : res text :=
  verbinden_loop (fun b => [b]) (length liste) 1 liste trennzeichen [].

(* ---- Hamming / Vergleiche ---- *)
Fixpoint hamming_loop (n : nat) (i : Z) (t1 t2 : text) (summe : Z) : res Z :=
  match n with
  | O => Ok summe
  | S n' => do a <- rd t1 i;; do b <- rd t2 i;; hamming_loop n' (i + 1) t1 t2 (if negb (a =? b) then summe + 1 else summe)
  end.
Definition Hamming_Distanz (t1 t2 : text) : res Z :=
  if negb (len t1 =? len t2) then Ok (-1) else hamming_loop (length t1) 1 t1 t2 0.

(* Solange text1 an der Stelle i gleich text2 an der Stelle i ist: Erhöhe i um 1.
   Wenn i größer als die Länge von text1 ist, gib -1 zurück. Wenn i größer als die Länge von text2 ist, gib 1 zurück. *)
Fixpoint vergleiche_loop (fuel : nat) (t1 t2 : text) (i : Z) : res Z :=
  match fuel with
  | O => NoFuel
  | S f =>
      do a <- rd t1 i;; do b <- rd t2 i;;
      if a =? b then
        let i := i + 1 in
        if i >? len t1 then Ok (-1) else if i >? len t2 then Ok 1 else vergleiche_loop f t1 t2 i
      else Ok (a - b)
  end.
Definition Vergleiche_Text (t1 t2 : text) : res Z :=
  if text_eqb t1 t2 then Ok 0
  else if len t1 =? 0 then Ok (-1)
  else if len t2 =? 0 then Ok 1
  else vergleiche_loop (length t1 + 1) t1 t2 1.

(* ---- Spalten_Spaltmenge (TextIterator = 1-based index into the text; text_iterator.c) ---- *)
Definition it_zuende (t : text) (idx : Z) : bool := idx >? len t.
Definition it_buchstabe (t : text) (idx : Z) : Z := if it_zuende t idx then 0 else match rd t idx with Ok c => c | _ => 0 end.
Definition it_naechster (t : text) (idx : Z) : Z := if it_zuende t idx then idx else idx + 1.
Definition menge_enthaelt (m : list Z) (c : Z) : bool := Enthaelt_Wert_Ref Z.eqb m c.

Fixpoint skip_in (fuel : nat) (t : text) (m : list Z) (idx : Z) : res Z :=
  match fuel with
  | O => NoFuel
  | S f => if menge_enthaelt m (it_buchstabe t idx) then skip_in f t m (it_naechster t idx) else Ok idx
  end.
Fixpoint skip_out (fuel : nat) (t : text) (m : list Z) (idx : Z) : res Z :=
  match fuel with
  | O => NoFuel
  | S f => if negb (it_zuende t idx) && negb (menge_enthaelt m (it_buchstabe t idx)) then skip_out f t m (it_naechster t idx) else Ok idx
  end.
Fixpoint spaltmenge_loop (fuel : nat) (t : text) (m : list Z) (idx : Z) (endliste : list text) : res (list text) :=
  match fuel with
  | O => NoFuel
  | S f =>
      if negb (it_zuende t idx) then
        do idx <- skip_in (length t + 2) t m idx;;
        if it_zuende t idx then Ok endliste
        else
          let i := idx in
          do idx <- skip_out (length t + 2) t m idx;;
          do piece <- slice t i (idx - 1);;
          spaltmenge_loop f t m (it_naechster t idx) (Hinzufuegen_Liste endliste piece)
      else Ok endliste
  end.
Definition Spalten_Spaltmenge_Text_Ref (t : text) (spaltmenge : list Z) : res (list text) :=
  if len t =? 0 then Ok []
  else if len spaltmenge =? 0 then Ok [t]
  else spaltmenge_loop (length t + 2) t spaltmenge 1 [].
Definition Spalten_Spaltmenge_Text := Spalten_Spaltmenge_Text_Ref.
Definition Spalten_SpaltmengeText_Text (t spaltmenge : text) : res (list text) :=
  do m <- Buchstaben_Text_BuchstabenListe spaltmenge;; Spalten_Spaltmenge_Text t m.
Definition leerzeichen : list Z := [32; 10; 9; 13; 13; 14].
Definition Text_Worte_Ref (t : text) : res (list text) := Spalten_Spaltmenge_Text_Ref t leerzeichen.
Definition Text_Worte := Text_Worte_Ref.
