(* C17 — the text functions of Texte.ddp against the Coq list library *)
From Coq Require Import List ZArith Bool Lia.
From DDP Require Import Lib.Base Lib.BaseProofs Lib.ListFns Lib.ListProofs Lib.TextFns.
Import ListNotations.
Open Scope Z_scope.

Lemma text_eqb_spec a b : text_eqb a b = true <-> a = b.
Proof.
  revert b. induction a as [|x a IH]; intros [|y b]; cbn [text_eqb]; try (split; congruence).
  rewrite andb_true_iff, Z.eqb_eq, IH. split; [intros [-> ->]; reflexivity|intros H; injection H; auto].
Qed.
Lemma text_eqb_refl a : text_eqb a a = true.
Proof. now apply text_eqb_spec. Qed.
Lemma text_eqb_false a b : text_eqb a b = false <-> a <> b.
Proof.
  split.
  - intros H E. apply text_eqb_spec in E. congruence.
  - intros H. destruct (text_eqb a b) eqn:E; [|reflexivity]. apply text_eqb_spec in E. contradiction.
Qed.

(* ---- single characters ---- *)
Lemma erster_buchstabe_spec c r : Erster_Buchstabe (c :: r) = Ok c.
Proof. apply rd_cons_1. Qed.
Lemma letzter_buchstabe_spec r c : Letzter_Buchstabe (r ++ [c]) = Ok c.
Proof.
  unfold Letzter_Buchstabe. replace (len (r ++ [c])) with (len r + 1) by (rewrite len_app, len_cons, len_nil; lia).
  apply rd_mid.
Qed.
Lemma nter_buchstabe_spec n t : 1 <= n <= len t -> Nter_Buchstabe n t = Ok (nth (Z.to_nat (n - 1)) t 0).
Proof. intros H. now apply rd_nth. Qed.

(* ---- Entferne_Anzahl ---- *)
Lemma entferne_vorne_spec t n : Entferne_Anzahl_Vorne t n = Ok (skipn (Z.to_nat n) t).
Proof.
  unfold Entferne_Anzahl_Vorne. destruct (len t <=? n) eqn:E.
  - apply Z.leb_le in E. rewrite skipn_all2; [reflexivity|]. unfold len in E. lia.
  - apply Z.leb_gt in E. destruct t as [|c r].
    + cbn. now rewrite skipn_nil.
    + assert (Hp : 0 < len (c :: r)) by (rewrite len_cons; pose proof (len_nonneg r); lia).
      rewrite slice_from_clamp by assumption. f_equal. f_equal.
      destruct (Z_lt_dec n 0) as [Hn|Hn].
      * rewrite clampZ_low by lia. lia.
      * rewrite clampZ_id by lia. lia.
Qed.
Lemma entferne_hinten_spec t n : Entferne_Anzahl_Hinten t n = Ok (firstn (length t - Z.to_nat n) t).
Proof.
  unfold Entferne_Anzahl_Hinten. destruct (len t <=? n) eqn:E.
  - apply Z.leb_le in E. replace (length t - Z.to_nat n)%nat with 0%nat by (unfold len in E; lia). reflexivity.
  - apply Z.leb_gt in E. destruct t as [|c r].
    + reflexivity.
    + assert (Hp : 0 < len (c :: r)) by (rewrite len_cons; pose proof (len_nonneg r); lia).
      rewrite slice_to_clamp by assumption. f_equal. f_equal.
      destruct (Z_lt_dec n 0) as [Hn|Hn].
      * rewrite clampZ_high by lia. unfold len. lia.
      * rewrite clampZ_id by lia. unfold len. lia.
Qed.

(* ---- Trim ---- *)
Fixpoint drop_z (z : Z) (t : text) : text :=
  match t with [] => [] | c :: r => if c =? z then drop_z z r else t end.
Definition all_z (z : Z) (t : text) : Prop := Forall (fun c => c = z) t.

Lemma trim_anfang_loop_inv z suf : forall pre fuel, suf <> [] -> (length suf < fuel)%nat ->
  trim_anfang_loop fuel (pre ++ suf) z (len pre + 1) = Ok (drop_z z suf).
Proof.
  induction suf as [|c r IH]; intros pre fuel Hne Hf; [congruence|].
  destruct fuel as [|f]; [lia|]. cbn [trim_anfang_loop]. rewrite rd_mid. cbn [bind drop_z].
  destruct (c =? z) eqn:E.
  - cbv zeta. destruct r as [|c2 r2].
    + replace (len pre + 1 + 1 >? len (pre ++ [c])) with true; [reflexivity|].
      symmetry. rewrite Z.gtb_ltb. apply Z.ltb_lt. rewrite len_app, len_cons, len_nil. lia.
    + replace (len pre + 1 + 1 >? len (pre ++ c :: c2 :: r2)) with false.
      * replace (pre ++ c :: c2 :: r2) with ((pre ++ [c]) ++ c2 :: r2) by (rewrite <- app_assoc; reflexivity).
        replace (len pre + 1 + 1) with (len (pre ++ [c]) + 1) by (rewrite len_app, len_cons, len_nil; lia).
        apply IH; [discriminate|cbn [length] in *; lia].
      * symmetry. rewrite Z.gtb_ltb. apply Z.ltb_ge. rewrite len_app, !len_cons. pose proof (len_nonneg r2). lia.
  - rewrite slice_from_in.
    + f_equal. replace (Z.to_nat (len pre + 1 - 1)) with (length pre) by (unfold len; lia).
      rewrite skipn_app, skipn_all, Nat.sub_diag. reflexivity.
    + rewrite len_app, len_cons. pose proof (len_nonneg pre). pose proof (len_nonneg r). lia.
Qed.
Lemma trim_anfang_spec t z : Trim_Anfang t z = Ok (drop_z z t).
Proof.
  unfold Trim_Anfang. destruct (len t =? 0) eqn:E.
  - apply Z.eqb_eq in E. apply len_zero_nil in E. subst. reflexivity.
  - apply Z.eqb_neq in E. apply (trim_anfang_loop_inv z t [] (length t + 1)%nat); [|lia].
    intros ->. apply E. reflexivity.
Qed.

Lemma drop_z_all z a b : all_z z a -> drop_z z (a ++ b) = drop_z z b.
Proof.
  induction 1 as [|c a Hc Ha IH]; [reflexivity|]. subst c. cbn [app drop_z]. now rewrite Z.eqb_refl.
Qed.

Lemma trim_ende_loop_inv z pre : forall suf fuel, pre <> [] -> (length pre < fuel)%nat ->
  trim_ende_loop fuel (pre ++ suf) z (len pre) = Ok (rev (drop_z z (rev pre))).
Proof.
  induction pre as [|c p IH] using rev_ind; intros suf fuel Hne Hf; [congruence|].
  destruct fuel as [|f]; [lia|]. cbn [trim_ende_loop].
  replace (len (p ++ [c])) with (len p + 1) by (rewrite len_app, len_cons, len_nil; lia).
  rewrite <- app_assoc. cbn [app]. rewrite rd_mid. cbn [bind].
  rewrite rev_app_distr. cbn [rev app drop_z].
  destruct (c =? z) eqn:E.
  - cbv zeta. replace (len p + 1 - 1) with (len p) by lia. destruct p as [|c2 p2] using rev_ind.
    + cbn. reflexivity.
    + clear IHp2. replace (len (p2 ++ [c2]) <? 1) with false.
      * replace ((p2 ++ [c2]) ++ c :: suf) with ((p2 ++ [c2]) ++ (c :: suf)) by reflexivity.
        apply IH; [intros H; apply app_eq_nil in H; destruct H; discriminate|].
        rewrite app_length in Hf. cbn [length] in Hf. lia.
      * symmetry. apply Z.ltb_ge. rewrite len_app, len_cons, len_nil. pose proof (len_nonneg p2). lia.
  - rewrite slice_to_in.
    + f_equal. replace (Z.to_nat (len p + 1)) with (length (p ++ [c])) by (rewrite app_length; cbn [length]; unfold len; lia).
      replace (p ++ c :: suf) with ((p ++ [c]) ++ suf) by (rewrite <- app_assoc; reflexivity).
      rewrite firstn_app, firstn_all, Nat.sub_diag. cbn [firstn]. rewrite app_nil_r.
      cbn [rev]. now rewrite rev_involutive.
    + rewrite len_app, len_cons. pose proof (len_nonneg p). pose proof (len_nonneg suf). lia.
Qed.
Lemma trim_ende_spec t z : Trim_Ende t z = Ok (rev (drop_z z (rev t))).
Proof.
  unfold Trim_Ende. destruct (len t =? 0) eqn:E.
  - apply Z.eqb_eq in E. apply len_zero_nil in E. subst. reflexivity.
  - cbv zeta. apply Z.eqb_neq in E.
    pose proof (trim_ende_loop_inv z t [] (length t + 1)%nat) as H. rewrite app_nil_r in H. apply H; [|lia].
    intros ->. apply E. reflexivity.
Qed.

(* ---- characters in a text ---- *)
Lemma text_enthaelt_buchstabe_spec t z : Text_Enthaelt_Buchstabe t z = existsb (fun b => b =? z) t.
Proof. induction t as [|b r IH]; cbn [Text_Enthaelt_Buchstabe existsb]; [reflexivity|]. destruct (b =? z); [reflexivity|exact IH]. Qed.
Lemma text_enthaelt_buchstabe_In t z : Text_Enthaelt_Buchstabe t z = true <-> In z t.
Proof.
  rewrite text_enthaelt_buchstabe_spec, existsb_exists. split.
  - intros (b & Hb & E). apply Z.eqb_eq in E. now subst.
  - intros H. exists z. split; [exact H|apply Z.eqb_refl].
Qed.
Lemma anzahl_buchstabe_loop_inv t z : forall anz, anzahl_buchstabe_loop t z anz = anz + Z.of_nat (count_occ Z.eq_dec t z).
Proof.
  induction t as [|b r IH]; intros anz; cbn [anzahl_buchstabe_loop count_occ]; [lia|].
  rewrite IH. destruct (Z.eq_dec b z) as [->|Hn].
  - rewrite Z.eqb_refl. lia.
  - replace (b =? z) with false by (symmetry; apply Z.eqb_neq; exact Hn). lia.
Qed.
Lemma text_anzahl_buchstabe_spec t z : Text_Anzahl_Buchstabe t z = Z.of_nat (count_occ Z.eq_dec t z).
Proof. unfold Text_Anzahl_Buchstabe. rewrite anzahl_buchstabe_loop_inv. lia. Qed.

(* ---- occurrences of a text in a text ---- *)
Definition occ_b (t s : text) (k : nat) : bool := text_eqb (firstn (length s) (skipn k t)) s.
Definition positions (t s : text) : list nat := seq 0 (Z.to_nat (len t - len s + 1)).

Lemma slice_window (t : text) k ns : 0 <= k -> 0 < ns -> k + ns <= len t ->
  slice t (k + 1) (k + ns) = Ok (firstn (Z.to_nat ns) (skipn (Z.to_nat k) t)).
Proof.
  intros Hk Hns Hb. rewrite slice_in by lia.
  replace (k + ns - (k + 1) + 1) with ns by lia. replace (k + 1 - 1) with k by lia. reflexivity.
Qed.

Lemma enthaelt_text_loop_inv t s fuel : forall k, 0 <= k -> 0 < len s ->
  (Z.to_nat (len t - len s - k + 1) < fuel)%nat ->
  enthaelt_text_loop fuel t s (len t) (len s) (k + 1) (k + len s) =
    Ok (existsb (occ_b t s) (seq (Z.to_nat k) (Z.to_nat (len t - len s - k + 1)))).
Proof.
  induction fuel as [|f IH]; intros k Hk Hs Hf; [lia|].
  cbn [enthaelt_text_loop]. destruct (k + len s <=? len t) eqn:E.
  - apply Z.leb_le in E. rewrite slice_window by lia. cbn [bind].
    replace (Z.to_nat (len t - len s - k + 1)) with (S (Z.to_nat (len t - len s - (k + 1) + 1))) by lia.
    cbn [seq existsb]. unfold occ_b at 1. rewrite to_nat_len.
    destruct (text_eqb (firstn (length s) (skipn (Z.to_nat k) t)) s) eqn:Eq; [reflexivity|].
    cbn [orb]. replace (S (Z.to_nat k)) with (Z.to_nat (k + 1)) by lia.
    replace (k + 1 + len s) with (k + 1 + len s) by lia. apply IH; lia.
  - apply Z.leb_gt in E. replace (Z.to_nat (len t - len s - k + 1)) with 0%nat by lia. reflexivity.
Qed.
Lemma text_enthaelt_text_spec t s : s <> [] -> Text_Enthaelt_Text t s = Ok (existsb (occ_b t s) (positions t s)).
Proof.
  intros Hs. assert (Hls : 0 < len s) by (destruct s; [congruence|rewrite len_cons; pose proof (len_nonneg s); lia]).
  unfold Text_Enthaelt_Text, positions. destruct (text_eqb t s) eqn:E.
  - apply text_eqb_spec in E. subst t. replace (len s - len s + 1) with 1 by lia. change (Z.to_nat 1) with 1%nat. cbn [seq existsb].
    unfold occ_b. cbn [skipn]. rewrite firstn_all, text_eqb_refl. reflexivity.
  - cbv zeta. replace (len s =? 0) with false by (symmetry; apply Z.eqb_neq; lia). rewrite orb_false_r.
    destruct (len t =? 0) eqn:E0.
    + apply Z.eqb_eq in E0. rewrite E0. replace (Z.to_nat (0 - len s + 1)) with 0%nat by lia. reflexivity.
    + pose proof (enthaelt_text_loop_inv t s (length t + 1) 0 ltac:(lia) Hls) as H.
      replace (0 + 1) with 1 in H by lia. replace (0 + len s) with (len s) in H by lia.
      rewrite H by (unfold len; lia). replace (len t - len s - 0 + 1) with (len t - len s + 1) by lia. reflexivity.
Qed.
Lemma occurs_iff t s : existsb (occ_b t s) (positions t s) = true <-> exists pre suf, t = pre ++ s ++ suf.
Proof.
  unfold positions. rewrite existsb_exists. split.
  - intros (k & Hk & E). unfold occ_b in E. apply text_eqb_spec in E.
    exists (firstn k t), (skipn (length s) (skipn k t)).
    rewrite <- E at 1. now rewrite firstn_skipn, firstn_skipn.
  - intros (pre & suf & ->). exists (length pre). split.
    + apply in_seq. rewrite !len_app. unfold len. lia.
    + unfold occ_b. rewrite skipn_app, skipn_all, Nat.sub_diag. cbn [skipn app].
      rewrite firstn_app, firstn_all, Nat.sub_diag. cbn [firstn]. rewrite app_nil_r. apply text_eqb_refl.
Qed.

Lemma anzahl_text_loop_inv t s fuel : forall k anz, 0 <= k -> 0 < len s ->
  (Z.to_nat (len t - len s - k + 1) < fuel)%nat ->
  anzahl_text_loop fuel t s (len t) (len s) 0 (k + 1) (k + len s) anz =
    Ok (anz + len (filter (occ_b t s) (seq (Z.to_nat k) (Z.to_nat (len t - len s - k + 1))))).
Proof.
  induction fuel as [|f IH]; intros k anz Hk Hs Hf; [lia|].
  cbn [anzahl_text_loop]. destruct (k + len s <=? len t) eqn:E.
  - apply Z.leb_le in E. rewrite slice_window by lia. cbn [bind]. cbv zeta.
    replace (0 =? 0) with true by reflexivity.
    replace (Z.to_nat (len t - len s - k + 1)) with (S (Z.to_nat (len t - len s - (k + 1) + 1))) by lia.
    cbn [seq filter]. unfold occ_b at 2. rewrite to_nat_len.
    replace (S (Z.to_nat k)) with (Z.to_nat (k + 1)) by lia.
    rewrite IH by lia.
    destruct (text_eqb (firstn (length s) (skipn (Z.to_nat k) t)) s); [rewrite len_cons|]; f_equal; lia.
  - apply Z.leb_gt in E. replace (Z.to_nat (len t - len s - k + 1)) with 0%nat by lia. cbn [seq filter]. rewrite len_nil. f_equal. lia.
Qed.
(* the number of (possibly overlapping) positions at which s occurs *)
Lemma text_anzahl_text_spec t s : s <> [] -> Text_Anzahl_Text t s = Ok (len (filter (occ_b t s) (positions t s))).
Proof.
  intros Hs. assert (Hls : 0 < len s) by (destruct s; [congruence|rewrite len_cons; pose proof (len_nonneg s); lia]).
  unfold Text_Anzahl_Text, positions. cbv zeta. destruct (len t =? 0) eqn:E0.
  - apply Z.eqb_eq in E0. rewrite E0. replace (Z.to_nat (0 - len s + 1)) with 0%nat by lia. reflexivity.
  - replace (len s =? 0) with false by (symmetry; apply Z.eqb_neq; lia).
    pose proof (anzahl_text_loop_inv t s (length t + 1) 0 0 ltac:(lia) Hls) as H.
    replace (0 + 1) with 1 in H by lia. replace (0 + len s) with (len s) in H by lia.
    rewrite H by (unfold len; lia). replace (len t - len s - 0 + 1) with (len t - len s + 1) by lia. f_equal.
Qed.
(* "nicht überlappend": the code only looks at the positions 0, ns, 2 ns, ... *)
Lemma nicht_ueberlappend_refuted : exists t s, s <> [] /\
  Text_Anzahl_Text_Nicht_Ueberlappend t s = Ok 0 /\ exists pre suf, t = pre ++ s ++ suf.
Proof.
  exists [120; 97; 98], [97; 98]. split; [discriminate|]. split; [vm_compute; reflexivity|].
  exists [120], []. reflexivity.
Qed.

(* ---- prefixes and suffixes ---- *)
Lemma beginnt_mit_buchstabe_spec t b : Beginnt_Mit_Buchstabe t b = Ok (match t with c :: _ => c =? b | [] => false end).
Proof.
  unfold Beginnt_Mit_Buchstabe. destruct t as [|c r]; [reflexivity|].
  replace (len (c :: r) =? 0) with false by (symmetry; apply Z.eqb_neq; rewrite len_cons; pose proof (len_nonneg r); lia).
  now rewrite rd_cons_1.
Qed.
Lemma endet_mit_buchstabe_spec t b : Endet_Mit_Buchstabe t b = Ok (match rev t with c :: _ => c =? b | [] => false end).
Proof.
  unfold Endet_Mit_Buchstabe. destruct t as [|c r] using rev_ind; [reflexivity|]. clear IHr.
  replace (len (r ++ [c]) =? 0) with false
    by (symmetry; apply Z.eqb_neq; rewrite len_app, len_cons, len_nil; pose proof (len_nonneg r); lia).
  fold (Letzter_Buchstabe (r ++ [c])). rewrite letzter_buchstabe_spec. cbn [bind]. rewrite rev_app_distr. reflexivity.
Qed.
Lemma beginnt_mit_text_spec t s : s <> [] -> Beginnt_Mit_Text t s = Ok (text_eqb (firstn (length s) t) s).
Proof.
  intros Hs. assert (Hls : 0 < len s) by (destruct s; [congruence|rewrite len_cons; pose proof (len_nonneg s); lia]).
  unfold Beginnt_Mit_Text. replace (len s =? 0) with false by (symmetry; apply Z.eqb_neq; lia). rewrite orb_false_r.
  destruct (len t =? 0) eqn:E0.
  - apply Z.eqb_eq in E0. apply len_zero_nil in E0. subst t. rewrite firstn_nil. destruct s; [congruence|reflexivity].
  - apply Z.eqb_neq in E0. pose proof (len_nonneg t).
    rewrite slice_to_clamp by lia. cbn [bind]. f_equal. f_equal.
    destruct (Z_le_gt_dec (len s) (len t)) as [Hle|Hgt].
    + rewrite clampZ_id by lia. now rewrite to_nat_len.
    + rewrite clampZ_high by lia. rewrite to_nat_len. rewrite firstn_all. rewrite firstn_all2; [reflexivity|unfold len in *; lia].
Qed.
Lemma prefix_iff t s : text_eqb (firstn (length s) t) s = true <-> exists suf, t = s ++ suf.
Proof.
  rewrite text_eqb_spec. split.
  - intros E. exists (skipn (length s) t). rewrite <- E at 1. now rewrite firstn_skipn.
  - intros (suf & ->). rewrite firstn_app, firstn_all, Nat.sub_diag. cbn [firstn]. now rewrite app_nil_r.
Qed.
Lemma endet_mit_text_spec t s : s <> [] -> Endet_Mit_Text t s = Ok (text_eqb (skipn (length t - length s) t) s).
Proof.
  intros Hs. assert (Hls : 0 < len s) by (destruct s; [congruence|rewrite len_cons; pose proof (len_nonneg s); lia]).
  unfold Endet_Mit_Text. replace (len s =? 0) with false by (symmetry; apply Z.eqb_neq; lia). rewrite orb_false_r.
  destruct (len t =? 0) eqn:E0.
  - apply Z.eqb_eq in E0. apply len_zero_nil in E0. subst t. rewrite skipn_nil. destruct s; [congruence|reflexivity].
  - apply Z.eqb_neq in E0. pose proof (len_nonneg t).
    rewrite slice_from_clamp by lia. cbn [bind]. f_equal. f_equal. f_equal.
    destruct (Z_le_gt_dec (len s) (len t)) as [Hle|Hgt].
    + rewrite clampZ_id by lia. unfold len in *. lia.
    + rewrite clampZ_low by lia. unfold len in *. lia.
Qed.
Lemma suffix_iff t s : text_eqb (skipn (length t - length s) t) s = true <-> exists pre, t = pre ++ s.
Proof.
  rewrite text_eqb_spec. split.
  - intros E. exists (firstn (length t - length s) t). rewrite <- E at 3. now rewrite firstn_skipn.
  - intros (pre & ->). rewrite app_length. replace (length pre + length s - length s)%nat with (length pre) by lia.
    rewrite skipn_app, skipn_all, Nat.sub_diag. reflexivity.
Qed.

(* ---- appending, inserting, deleting ---- *)
Lemma text_an_text_spec t e : Text_An_Text_Fuegen t e = t ++ e. Proof. reflexivity. Qed.
Lemma buchstabe_an_text_spec t e : Buchstabe_An_Text_Fuegen t e = t ++ [e]. Proof. reflexivity. Qed.
Lemma text_vor_text_spec t e : Text_Vor_Text_Stellen t e = e ++ t. Proof. reflexivity. Qed.
Lemma buchstabe_vor_text_spec t e : Buchstabe_Vor_Text_Stellen t e = e :: t. Proof. reflexivity. Qed.
Lemma text_leeren_spec t : Text_Leeren t = []. Proof. reflexivity. Qed.

Lemma text_einfuegen_partial t i e : 2 <= i <= len t ->
  Text_In_Text_Einfuegen t i e = Ok (firstn (Z.to_nat (i - 1)) t ++ e ++ skipn (Z.to_nat (i - 1)) t).
Proof.
  intros H. unfold Text_In_Text_Einfuegen. rewrite slice_to_in by lia. cbn [bind]. rewrite slice_from_in by lia. cbn [bind].
  now rewrite <- app_assoc.
Qed.
Lemma text_einfuegen_refuted : exists t i e, 1 <= i <= len t /\
  Text_In_Text_Einfuegen t i e <> Ok (firstn (Z.to_nat (i - 1)) t ++ e ++ skipn (Z.to_nat (i - 1)) t).
Proof. exists [97; 98], 1, [120]. split; [cbn; lia|]. vm_compute. discriminate. Qed.
Lemma buchstabe_einfuegen_partial t i e : 2 <= i <= len t ->
  Buchstabe_In_Text_Einfuegen t i e = Ok (firstn (Z.to_nat (i - 1)) t ++ e :: skipn (Z.to_nat (i - 1)) t).
Proof.
  intros H. unfold Buchstabe_In_Text_Einfuegen. rewrite slice_to_in by lia. cbn [bind]. rewrite slice_from_in by lia. cbn [bind].
  now rewrite <- app_assoc.
Qed.
Lemma buchstabe_einfuegen_refuted : exists t i e, 1 <= i <= len t /\
  Buchstabe_In_Text_Einfuegen t i e <> Ok (firstn (Z.to_nat (i - 1)) t ++ e :: skipn (Z.to_nat (i - 1)) t).
Proof. exists [97; 98], 1, 120. split; [cbn; lia|]. vm_compute. discriminate. Qed.

Lemma loesche_text_partial t i : 2 <= i <= len t ->
  Loesche_Text t i = Ok (firstn (Z.to_nat (i - 1)) t ++ skipn (Z.to_nat i) t).
Proof.
  intros H. unfold Loesche_Text.
  replace (len t =? 0) with false by (symmetry; apply Z.eqb_neq; lia).
  replace (i =? 1) with false by (symmetry; apply Z.eqb_neq; lia). cbn [andb].
  destruct (i =? len t) eqn:E.
  - apply Z.eqb_eq in E. subst i. rewrite slice_to_in by lia. f_equal.
    rewrite (skipn_all2 t); [now rewrite app_nil_r|unfold len; lia].
  - apply Z.eqb_neq in E. rewrite slice_to_in by lia. cbn [bind]. rewrite slice_from_in by lia. cbn [bind].
    replace (i + 1 - 1) with i by lia. reflexivity.
Qed.
Lemma loesche_text_refuted : exists t i, 1 <= i <= len t /\
  Loesche_Text t i <> Ok (firstn (Z.to_nat (i - 1)) t ++ skipn (Z.to_nat i) t).
Proof. exists [97; 98; 99], 1. split; [cbn; lia|]. vm_compute. discriminate. Qed.
Lemma loesche_text_bereich_partial t s e : 1 <= s -> s <= e -> e < len t ->
  Loesche_Text_Bereich t s e = Ok (firstn (Z.to_nat (s - 1)) t ++ skipn (Z.to_nat e) t).
Proof.
  intros H1 H2 H3. unfold Loesche_Text_Bereich. destruct (s =? 1) eqn:E.
  - apply Z.eqb_eq in E. subst s. rewrite slice_from_in by lia. replace (e + 1 - 1) with e by lia. reflexivity.
  - apply Z.eqb_neq in E. rewrite slice_to_in by lia. cbn [bind]. rewrite slice_from_in by lia. cbn [bind].
    replace (e + 1 - 1) with e by lia. reflexivity.
Qed.
Lemma loesche_text_bereich_refuted : exists t s e, 1 <= s /\ s <= e /\ e <= len t /\
  Loesche_Text_Bereich t s e <> Ok (firstn (Z.to_nat (s - 1)) t ++ skipn (Z.to_nat e) t).
Proof. exists [97; 98; 99], 2, 3. repeat split; try (cbn; lia). vm_compute. discriminate. Qed.

(* ---- Fülle_Text, Buchstaben ---- *)
Lemma fuelle_text_loop_inv (suf pre : text) x :
  fuelle_text_loop (length suf) (len pre + 1) (pre ++ suf) x = Ok (pre ++ repeat x (length suf)).
Proof.
  revert pre. induction suf as [|y suf IH]; intros pre; cbn [fuelle_text_loop length repeat]; [reflexivity|].
  rewrite wr_mid. cbn [bind].
  replace (pre ++ x :: suf) with ((pre ++ [x]) ++ suf) by (rewrite <- app_assoc; reflexivity).
  replace (len pre + 1 + 1) with (len (pre ++ [x]) + 1) by (rewrite len_app, len_cons, len_nil; lia).
  rewrite IH. rewrite <- app_assoc. reflexivity.
Qed.
Lemma fuelle_text_spec t x : Fuelle_Text t x = Ok (repeat x (length t)).
Proof. apply (fuelle_text_loop_inv t [] x). Qed.

Lemma buchstaben_loop_inv {B} (f : Z -> B) (d : B) t : forall pre,
  buchstaben_loop f t (len pre + 1) (pre ++ repeat d (length t)) = Ok (pre ++ map f t).
Proof.
  induction t as [|b r IH]; intros pre; cbn [buchstaben_loop length repeat map]; [reflexivity|].
  rewrite wr_mid. cbn [bind].
  replace (pre ++ f b :: repeat d (length r)) with ((pre ++ [f b]) ++ repeat d (length r)) by (rewrite <- app_assoc; reflexivity).
  replace (len pre + 1 + 1) with (len (pre ++ [f b]) + 1) by (rewrite len_app, len_cons, len_nil; lia).
  rewrite IH. rewrite <- app_assoc. reflexivity.
Qed.
Lemma buchstaben_liste_spec t : Buchstaben_TextRef_BuchstabenListe t = Ok t.
Proof.
  unfold Buchstaben_TextRef_BuchstabenListe, mal. replace (len t <? 0) with false by (symmetry; apply Z.ltb_ge; apply len_nonneg).
  cbn [bind]. rewrite to_nat_len. pose proof (buchstaben_loop_inv (fun b => b) 0 t []) as H. cbn [app] in H. rewrite len_nil in H.
  cbn in H. rewrite H. now rewrite map_id.
Qed.
Lemma buchstaben_textliste_spec t : Buchstaben_TextRef_TextListe t = Ok (map (fun b => [b]) t).
Proof.
  unfold Buchstaben_TextRef_TextListe, mal. replace (len t <? 0) with false by (symmetry; apply Z.ltb_ge; apply len_nonneg).
  cbn [bind]. rewrite to_nat_len. pose proof (buchstaben_loop_inv (fun b => [b]) [] t []) as H. cbn [app] in H. rewrite len_nil in H.
  cbn in H. exact H.
Qed.

(* ---- Index_Von_Buchstabe ---- *)
Lemma index_buchstabe_loop_inv t z : forall i,
  (index_buchstabe_loop t z i = -1 /\ ~ In z t) \/
  (exists pre suf, t = pre ++ z :: suf /\ ~ In z pre /\ index_buchstabe_loop t z i = i + len pre).
Proof.
  induction t as [|b r IH]; intros i; cbn [index_buchstabe_loop].
  - left. split; [reflexivity|intros []].
  - destruct (b =? z) eqn:E.
    + apply Z.eqb_eq in E. subst b. right. exists [], r. rewrite len_nil. repeat split; auto. lia.
    + apply Z.eqb_neq in E. destruct (IH (i + 1)) as [[H1 H2]|(pre & suf & -> & Hn & Hi)].
      * left. split; [exact H1|]. intros [H|H]; [congruence|contradiction].
      * right. exists (b :: pre), suf. split; [reflexivity|]. split.
        -- intros [H|H]; [congruence|contradiction].
        -- rewrite Hi, len_cons. lia.
Qed.
Lemma text_index_von_buchstabe_spec t z :
  (Text_Index_Von_Buchstabe_Ref t z = -1 /\ ~ In z t) \/
  (exists pre suf, t = pre ++ z :: suf /\ ~ In z pre /\ Text_Index_Von_Buchstabe_Ref t z = len pre + 1).
Proof.
  unfold Text_Index_Von_Buchstabe_Ref. destruct (len t =? 0) eqn:E.
  - apply Z.eqb_eq in E. apply len_zero_nil in E. subst. left. split; [reflexivity|intros []].
  - destruct (index_buchstabe_loop_inv t z 1) as [H|(pre & suf & H1 & H2 & H3)]; [left; exact H|].
    right. exists pre, suf. repeat split; auto. lia.
Qed.
Lemma ist_text_leer_spec t : Ist_Text_Leer t = true <-> t = [].
Proof. unfold Ist_Text_Leer, Ist_Text_Leer_Ref. rewrite Z.eqb_eq. split; [apply len_zero_nil|intros ->; reflexivity]. Qed.
