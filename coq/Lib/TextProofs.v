(* C17 — the text functions of Texte.ddp against the Coq list library *)
From Coq Require Import List ZArith Bool Lia.
From DDP Require Import Lib.Base Lib.BaseProofs Lib.ListFns Lib.ListProofs Lib.TextFns.
Import ListNotations.
Open Scope Z_scope.

Lemma text_eqb_spec a b : text_eqb a b = true <-> a = b.
Proof.
  revert b. induction a as [|x a IH]; intros [|y b]; cbn [text_eqb]; try (split; congruence).
  rewrite andb_true_iff, Z.eqb_eq, IH. split; [intros [-> ->]; reflexivity|intros H; injection H; auto].
Qed.
Lemma text_eqb_refl a : text_eqb a a = true.
Proof. now apply text_eqb_spec. Qed.
Lemma text_eqb_false a b : text_eqb a b = false <-> a <> b.
Proof.
  split.
  - intros H E. apply text_eqb_spec in E. congruence.
  - intros H. destruct (text_eqb a b) eqn:E; [|reflexivity]. apply text_eqb_spec in E. contradiction.
Qed.

(* ---- single characters ---- *)
Lemma erster_buchstabe_spec c r : Erster_Buchstabe (c :: r) = Ok c.
Proof. apply rd_cons_1. Qed.
Lemma letzter_buchstabe_spec r c : Letzter_Buchstabe (r ++ [c]) = Ok c.
Proof.
  unfold Letzter_Buchstabe. replace (len (r ++ [c])) with (len r + 1) by (rewrite len_app, len_cons, len_nil; lia).
  apply rd_mid.
Qed.
Lemma nter_buchstabe_spec n t : 1 <= n <= len t -> Nter_Buchstabe n t = Ok (nth (Z.to_nat (n - 1)) t 0).
Proof. intros H. now apply rd_nth. Qed.

(* ---- Entferne_Anzahl ---- *)
Lemma entferne_vorne_spec t n : Entferne_Anzahl_Vorne t n = Ok (skipn (Z.to_nat n) t).
Proof.
  unfold Entferne_Anzahl_Vorne. destruct (len t <=? n) eqn:E.
  - apply Z.leb_le in E. rewrite skipn_all2; [reflexivity|]. unfold len in E. lia.
  - apply Z.leb_gt in E. destruct t as [|c r].
    + cbn. now rewrite skipn_nil.
    + assert (Hp : 0 < len (c :: r)) by (rewrite len_cons; pose proof (len_nonneg r); lia).
      rewrite slice_from_clamp by assumption. f_equal. f_equal.
      destruct (Z_lt_dec n 0) as [Hn|Hn].
      * rewrite clampZ_low by lia. lia.
      * rewrite clampZ_id by lia. lia.
Qed.
Lemma entferne_hinten_spec t n : Entferne_Anzahl_Hinten t n = Ok (firstn (length t - Z.to_nat n) t).
Proof.
  unfold Entferne_Anzahl_Hinten. destruct (len t <=? n) eqn:E.
  - apply Z.leb_le in E. replace (length t - Z.to_nat n)%nat with 0%nat by (unfold len in E; lia). reflexivity.
  - apply Z.leb_gt in E. destruct t as [|c r].
    + reflexivity.
    + assert (Hp : 0 < len (c :: r)) by (rewrite len_cons; pose proof (len_nonneg r); lia).
      rewrite slice_to_clamp by assumption. f_equal. f_equal.
      destruct (Z_lt_dec n 0) as [Hn|Hn].
      * rewrite clampZ_high by lia. unfold len. lia.
      * rewrite clampZ_id by lia. unfold len. lia.
Qed.

(* ---- Trim ---- *)
Fixpoint drop_z (z : Z) (t : text) : text :=
  match t with [] => [] | c :: r => if c =? z then drop_z z r else t end.
Definition all_z (z : Z) (t : text) : Prop := Forall (fun c => c = z) t.

Lemma trim_anfang_loop_inv z suf : forall pre fuel, suf <> [] -> (length suf < fuel)%nat ->
  trim_anfang_loop fuel (pre ++ suf) z (len pre + 1) = Ok (drop_z z suf).
Proof.
  induction suf as [|c r IH]; intros pre fuel Hne Hf; [congruence|].
  destruct fuel as [|f]; [lia|]. cbn [trim_anfang_loop]. rewrite rd_mid. cbn [bind drop_z].
  destruct (c =? z) eqn:E.
  - cbv zeta. destruct r as [|c2 r2].
    + replace (len pre + 1 + 1 >? len (pre ++ [c])) with true; [reflexivity|].
      symmetry. rewrite Z.gtb_ltb. apply Z.ltb_lt. rewrite len_app, len_cons, len_nil. lia.
    + replace (len pre + 1 + 1 >? len (pre ++ c :: c2 :: r2)) with false.
      * replace (pre ++ c :: c2 :: r2) with ((pre ++ [c]) ++ c2 :: r2) by (rewrite <- app_assoc; reflexivity).
        replace (len pre + 1 + 1) with (len (pre ++ [c]) + 1) by (rewrite len_app, len_cons, len_nil; lia).
        apply IH; [discriminate|cbn [length] in *; lia].
      * symmetry. rewrite Z.gtb_ltb. apply Z.ltb_ge. rewrite len_app, !len_cons. pose proof (len_nonneg r2). lia.
  - rewrite slice_from_in.
    + f_equal. replace (Z.to_nat (len pre + 1 - 1)) with (length pre) by (unfold len; lia).
      rewrite skipn_app, skipn_all, Nat.sub_diag. reflexivity.
    + rewrite len_app, len_cons. pose proof (len_nonneg pre). pose proof (len_nonneg r). lia.
Qed.
Lemma trim_anfang_spec t z : Trim_Anfang t z = Ok (drop_z z t).
Proof.
  unfold Trim_Anfang. destruct (len t =? 0) eqn:E.
  - apply Z.eqb_eq in E. apply len_zero_nil in E. subst. reflexivity.
  - apply Z.eqb_neq in E. apply (trim_anfang_loop_inv z t [] (length t + 1)%nat); [|lia].
    intros ->. apply E. reflexivity.
Qed.

Lemma drop_z_all z a b : all_z z a -> drop_z z (a ++ b) = drop_z z b.
Proof.
  induction 1 as [|c a Hc Ha IH]; [reflexivity|]. subst c. cbn [app drop_z]. now rewrite Z.eqb_refl.
Qed.

Lemma trim_ende_loop_inv z pre : forall suf fuel, pre <> [] -> (length pre < fuel)%nat ->
  trim_ende_loop fuel (pre ++ suf) z (len pre) = Ok (rev (drop_z z (rev pre))).
Proof.
  induction pre as [|c p IH] using rev_ind; intros suf fuel Hne Hf; [congruence|].
  destruct fuel as [|f]; [lia|]. cbn [trim_ende_loop].
  replace (len (p ++ [c])) with (len p + 1) by (rewrite len_app, len_cons, len_nil; lia).
  rewrite <- app_assoc. cbn [app]. rewrite rd_mid. cbn [bind].
  rewrite rev_app_distr. cbn [rev app drop_z].
  destruct (c =? z) eqn:E.
  - cbv zeta. replace (len p + 1 - 1) with (len p) by lia. destruct p as [|c2 p2] using rev_ind.
    + cbn. reflexivity.
    + clear IHp2. replace (len (p2 ++ [c2]) <? 1) with false.
      * replace ((p2 ++ [c2]) ++ c :: suf) with ((p2 ++ [c2]) ++ (c :: suf)) by reflexivity.
        apply IH; [intros H; apply app_eq_nil in H; destruct H; discriminate|].
        rewrite app_length in Hf. cbn [length] in Hf. lia.
      * symmetry. apply Z.ltb_ge. rewrite len_app, len_cons, len_nil. pose proof (len_nonneg p2). lia.
  - rewrite slice_to_in.
    + f_equal. replace (Z.to_nat (len p + 1)) with (length (p ++ [c])) by (rewrite app_length; cbn [length]; unfold len; lia).
      replace (p ++ c :: suf) with ((p ++ [c]) ++ suf) by (rewrite <- app_assoc; reflexivity).
      rewrite firstn_app, firstn_all, Nat.sub_diag. cbn [firstn]. rewrite app_nil_r.
      cbn [rev]. now rewrite rev_involutive.
    + rewrite len_app, len_cons. pose proof (len_nonneg p). pose proof (len_nonneg suf). lia.
Qed.
Lemma trim_ende_spec t z : Trim_Ende t z = Ok (rev (drop_z z (rev t))).
Proof.
  unfold Trim_Ende. destruct (len t =? 0) eqn:E.
  - apply Z.eqb_eq in E. apply len_zero_nil in E. subst. reflexivity.
  - cbv zeta. apply Z.eqb_neq in E.
    pose proof (trim_ende_loop_inv z t [] (length t + 1)%nat) as H. rewrite app_nil_r in H. apply H; [|lia].
    intros ->. apply E. reflexivity.
Qed.

(* ---- characters in a text ---- *)
Lemma text_enthaelt_buchstabe_spec t z : Text_Enthaelt_Buchstabe t z = existsb (fun b => b =? z) t.
Proof. induction t as [|b r IH]; cbn [Text_Enthaelt_Buchstabe existsb]; [reflexivity|]. destruct (b =? z); [reflexivity|exact IH]. Qed.
Lemma text_enthaelt_buchstabe_In t z : Text_Enthaelt_Buchstabe t z = true <-> In z t.
Proof.
  rewrite text_enthaelt_buchstabe_spec, existsb_exists. split.
  - intros (b & Hb & E). apply Z.eqb_eq in E. now subst.
  - intros H. exists z. split; [exact H|apply Z.eqb_refl].
Qed.
Lemma anzahl_buchstabe_loop_inv t z : forall anz, anzahl_buchstabe_loop t z anz = anz + Z.of_nat (count_occ Z.eq_dec t z).
Proof.
  induction t as [|b r IH]; intros anz; cbn [anzahl_buchstabe_loop count_occ]; [lia|].
  rewrite IH. destruct (Z.eq_dec b z) as [->|Hn].
  - rewrite Z.eqb_refl. lia.
  - replace (b =? z) with false by (symmetry; apply Z.eqb_neq; exact Hn). lia.
Qed.
Lemma text_anzahl_buchstabe_spec t z : Text_Anzahl_Buchstabe t z = Z.of_nat (count_occ Z.eq_dec t z).
Proof. unfold Text_Anzahl_Buchstabe. rewrite anzahl_buchstabe_loop_inv. lia. Qed.

(* ---- occurrences of a text in a text ---- *)
Definition occ_b (t s : text) (k : nat) : bool := text_eqb (firstn (length s) (skipn k t)) s.
Definition positions (t s : text) : list nat := seq 0 (Z.to_nat (len t - len s + 1)).

Lemma slice_window (t : text) k ns : 0 <= k -> 0 < ns -> k + ns <= len t ->
  slice t (k + 1) (k + ns) = Ok (firstn (Z.to_nat ns) (skipn (Z.to_nat k) t)).
Proof.
  intros Hk Hns Hb. rewrite slice_in by lia.
  replace (k + ns - (k + 1) + 1) with ns by lia. replace (k + 1 - 1) with k by lia. reflexivity.
Qed.

Lemma enthaelt_text_loop_inv t s fuel : forall k, 0 <= k -> 0 < len s ->
  (Z.to_nat (len t - len s - k + 1) < fuel)%nat ->
  enthaelt_text_loop fuel t s (len t) (len s) (k + 1) (k + len s) =
    Ok (existsb (occ_b t s) (seq (Z.to_nat k) (Z.to_nat (len t - len s - k + 1)))).
Proof.
  induction fuel as [|f IH]; intros k Hk Hs Hf; [lia|].
  cbn [enthaelt_text_loop]. destruct (k + len s <=? len t) eqn:E.
  - apply Z.leb_le in E. rewrite slice_window by lia. cbn [bind].
    replace (Z.to_nat (len t - len s - k + 1)) with (S (Z.to_nat (len t - len s - (k + 1) + 1))) by lia.
    cbn [seq existsb]. change (occ_b t s (Z.to_nat k)) with (text_eqb (firstn (length s) (skipn (Z.to_nat k) t)) s).
    rewrite to_nat_len.
    destruct (text_eqb (firstn (length s) (skipn (Z.to_nat k) t)) s) eqn:Eq; [reflexivity|].
    cbn [orb]. replace (S (Z.to_nat k)) with (Z.to_nat (k + 1)) by lia.
    replace (k + 1 + len s) with (k + 1 + len s) by lia. apply IH; lia.
  - apply Z.leb_gt in E. replace (Z.to_nat (len t - len s - k + 1)) with 0%nat by lia. reflexivity.
Qed.
Lemma text_enthaelt_text_spec t s : s <> [] -> Text_Enthaelt_Text t s = Ok (existsb (occ_b t s) (positions t s)).
Proof.
  intros Hs. assert (Hls : 0 < len s) by (destruct s; [congruence|rewrite len_cons; pose proof (len_nonneg s); lia]).
  unfold Text_Enthaelt_Text, positions. destruct (text_eqb t s) eqn:E.
  - apply text_eqb_spec in E. subst t. replace (len s - len s + 1) with 1 by lia. change (Z.to_nat 1) with 1%nat. cbn [seq existsb].
    unfold occ_b. cbn [skipn]. rewrite firstn_all, text_eqb_refl. reflexivity.
  - cbv zeta. replace (len s =? 0) with false by (symmetry; apply Z.eqb_neq; lia). rewrite orb_false_r.
    destruct (len t =? 0) eqn:E0.
    + apply Z.eqb_eq in E0. rewrite E0. replace (Z.to_nat (0 - len s + 1)) with 0%nat by lia. reflexivity.
    + pose proof (enthaelt_text_loop_inv t s (length t + 1) 0 ltac:(lia) Hls) as H.
      replace (0 + 1) with 1 in H by lia. replace (0 + len s) with (len s) in H by lia.
      rewrite H by (unfold len in *; lia). replace (len t - len s - 0 + 1) with (len t - len s + 1) by lia. reflexivity.
Qed.
Lemma occurs_iff t s : existsb (occ_b t s) (positions t s) = true <-> exists pre suf, t = pre ++ s ++ suf.
Proof.
  unfold positions. rewrite existsb_exists. split.
  - intros (k & Hk & E). unfold occ_b in E. apply text_eqb_spec in E.
    exists (firstn k t), (skipn (length s) (skipn k t)).
    rewrite <- E at 1. now rewrite firstn_skipn, firstn_skipn.
  - intros (pre & suf & ->). exists (length pre). split.
    + apply in_seq. rewrite !len_app. unfold len. lia.
    + unfold occ_b. rewrite skipn_app, skipn_all, Nat.sub_diag. cbn [skipn app].
      rewrite firstn_app, firstn_all, Nat.sub_diag. cbn [firstn]. rewrite app_nil_r. apply text_eqb_refl.
Qed.

Lemma anzahl_text_loop_inv t s fuel : forall k anz, 0 <= k -> 0 < len s ->
  (Z.to_nat (len t - len s - k + 1) < fuel)%nat ->
  anzahl_text_loop fuel t s (len t) (len s) (k + 1) (k + len s) anz =
    Ok (anz + len (filter (occ_b t s) (seq (Z.to_nat k) (Z.to_nat (len t - len s - k + 1))))).
Proof.
  induction fuel as [|f IH]; intros k anz Hk Hs Hf; [lia|].
  cbn [anzahl_text_loop]. destruct (k + len s <=? len t) eqn:E.
  - apply Z.leb_le in E. rewrite slice_window by lia. cbn [bind]. cbv zeta.
    replace (Z.to_nat (len t - len s - k + 1)) with (S (Z.to_nat (len t - len s - (k + 1) + 1))) by lia.
    cbn [seq filter]. change (occ_b t s (Z.to_nat k)) with (text_eqb (firstn (length s) (skipn (Z.to_nat k) t)) s).
    rewrite to_nat_len.
    replace (S (Z.to_nat k)) with (Z.to_nat (k + 1)) by lia.
    rewrite IH by lia.
    destruct (text_eqb (firstn (length s) (skipn (Z.to_nat k) t)) s); [rewrite len_cons|]; f_equal; lia.
  - apply Z.leb_gt in E. replace (Z.to_nat (len t - len s - k + 1)) with 0%nat by lia. cbn [seq filter]. rewrite len_nil. f_equal. lia.
Qed.
(* the number of (possibly overlapping) positions at which s occurs *)
Lemma text_anzahl_text_spec t s : s <> [] -> Text_Anzahl_Text t s = Ok (len (filter (occ_b t s) (positions t s))).
Proof.
  intros Hs. assert (Hls : 0 < len s) by (destruct s; [congruence|rewrite len_cons; pose proof (len_nonneg s); lia]).
  unfold Text_Anzahl_Text, positions. cbv zeta. destruct (len t =? 0) eqn:E0.
  - apply Z.eqb_eq in E0. rewrite E0. replace (Z.to_nat (0 - len s + 1)) with 0%nat by lia. reflexivity.
  - replace (len s =? 0) with false by (symmetry; apply Z.eqb_neq; lia).
    pose proof (anzahl_text_loop_inv t s (length t + 1) 0 0 ltac:(lia) Hls) as H.
    replace (0 + 1) with 1 in H by lia. replace (0 + len s) with (len s) in H by lia.
    rewrite H by (unfold len in *; lia). replace (len t - len s - 0 + 1) with (len t - len s + 1) by lia. f_equal.
Qed.
(* ---- prefixes and suffixes ---- *)
Lemma beginnt_mit_buchstabe_spec t b : Beginnt_Mit_Buchstabe t b = Ok (match t with c :: _ => c =? b | [] => false end).
Proof.
  unfold Beginnt_Mit_Buchstabe. destruct t as [|c r]; [reflexivity|].
  replace (len (c :: r) =? 0) with false by (symmetry; apply Z.eqb_neq; rewrite len_cons; pose proof (len_nonneg r); lia).
  now rewrite rd_cons_1.
Qed.
Lemma endet_mit_buchstabe_spec t b : Endet_Mit_Buchstabe t b = Ok (match rev t with c :: _ => c =? b | [] => false end).
Proof.
  unfold Endet_Mit_Buchstabe. destruct t as [|c r] using rev_ind; [reflexivity|]. clear IHr.
  replace (len (r ++ [c]) =? 0) with false
    by (symmetry; apply Z.eqb_neq; rewrite len_app, len_cons, len_nil; pose proof (len_nonneg r); lia).
  fold (Letzter_Buchstabe (r ++ [c])). rewrite letzter_buchstabe_spec. cbn [bind]. rewrite rev_app_distr. reflexivity.
Qed.
Lemma beginnt_mit_text_spec t s : s <> [] -> Beginnt_Mit_Text t s = Ok (text_eqb (firstn (length s) t) s).
Proof.
  intros Hs. assert (Hls : 0 < len s) by (destruct s; [congruence|rewrite len_cons; pose proof (len_nonneg s); lia]).
  unfold Beginnt_Mit_Text. replace (len s =? 0) with false by (symmetry; apply Z.eqb_neq; lia). rewrite orb_false_r.
  destruct (len t =? 0) eqn:E0.
  - apply Z.eqb_eq in E0. apply len_zero_nil in E0. subst t. rewrite firstn_nil. destruct s; [congruence|reflexivity].
  - apply Z.eqb_neq in E0. pose proof (len_nonneg t).
    rewrite slice_to_clamp by lia. cbn [bind]. f_equal. f_equal.
    destruct (Z_le_gt_dec (len s) (len t)) as [Hle|Hgt].
    + rewrite clampZ_id by lia. now rewrite to_nat_len.
    + rewrite clampZ_high by lia. rewrite to_nat_len. rewrite firstn_all. rewrite firstn_all2; [reflexivity|unfold len in *; lia].
Qed.
Lemma prefix_iff t s : text_eqb (firstn (length s) t) s = true <-> exists suf, t = s ++ suf.
Proof.
  rewrite text_eqb_spec. split.
  - intros E. exists (skipn (length s) t).
    transitivity (firstn (length s) t ++ skipn (length s) t); [symmetry; apply firstn_skipn|f_equal; exact E].
  - intros (suf & ->). rewrite firstn_app, firstn_all, Nat.sub_diag. cbn [firstn]. now rewrite app_nil_r.
Qed.
Lemma endet_mit_text_spec t s : s <> [] -> Endet_Mit_Text t s = Ok (text_eqb (skipn (length t - length s) t) s).
Proof.
  intros Hs. assert (Hls : 0 < len s) by (destruct s; [congruence|rewrite len_cons; pose proof (len_nonneg s); lia]).
  unfold Endet_Mit_Text. replace (len s =? 0) with false by (symmetry; apply Z.eqb_neq; lia). rewrite orb_false_r.
  destruct (len t =? 0) eqn:E0.
  - apply Z.eqb_eq in E0. apply len_zero_nil in E0. subst t. rewrite skipn_nil. destruct s; [congruence|reflexivity].
  - apply Z.eqb_neq in E0. pose proof (len_nonneg t).
    rewrite slice_from_clamp by lia. cbn [bind]. f_equal. f_equal. f_equal.
    destruct (Z_le_gt_dec (len s) (len t)) as [Hle|Hgt].
    + rewrite clampZ_id by lia. unfold len in *. lia.
    + rewrite clampZ_low by lia. unfold len in *. lia.
Qed.
Lemma suffix_iff t s : text_eqb (skipn (length t - length s) t) s = true <-> exists pre, t = pre ++ s.
Proof.
  rewrite text_eqb_spec. split.
  - intros E. exists (firstn (length t - length s) t).
    transitivity (firstn (length t - length s) t ++ skipn (length t - length s) t); [symmetry; apply firstn_skipn|f_equal; exact E].
  - intros (pre & ->). rewrite app_length. replace (length pre + length s - length s)%nat with (length pre) by lia.
    rewrite skipn_app, skipn_all, Nat.sub_diag. reflexivity.
Qed.

(* ---- appending, inserting, deleting ---- *)
Lemma text_an_text_spec t e : Text_An_Text_Fuegen t e = t ++ e. Proof. reflexivity. Qed.
Lemma buchstabe_an_text_spec t e : Buchstabe_An_Text_Fuegen t e = t ++ [e]. Proof. reflexivity. Qed.
Lemma text_vor_text_spec t e : Text_Vor_Text_Stellen t e = e ++ t. Proof. reflexivity. Qed.
Lemma buchstabe_vor_text_spec t e : Buchstabe_Vor_Text_Stellen t e = e :: t. Proof. reflexivity. Qed.
Lemma text_leeren_spec t : Text_Leeren t = []. Proof. reflexivity. Qed.

(* insertion in front of position p = index clamped into 1 .. Länge + 1 *)
Lemma text_einfuegen_spec t i e :
  Text_In_Text_Einfuegen t i e =
    Ok (firstn (Z.to_nat (clampZ i 1 (len t + 1) - 1)) t ++ e ++ skipn (Z.to_nat (clampZ i 1 (len t + 1) - 1)) t).
Proof.
  pose proof (len_nonneg t) as Hl. unfold Text_In_Text_Einfuegen.
  destruct (i <=? 1) eqn:E1; [apply Z.leb_le in E1|apply Z.leb_gt in E1].
  - rewrite clampZ_low by lia. reflexivity.
  - destruct (i >? len t) eqn:E2; rewrite Z.gtb_ltb in E2; [apply Z.ltb_lt in E2|apply Z.ltb_ge in E2].
    + rewrite clampZ_high by lia. replace (Z.to_nat (len t + 1 - 1)) with (length t) by (unfold len; lia).
      rewrite firstn_all, skipn_all. now rewrite app_nil_r.
    + rewrite clampZ_id by lia. rewrite slice_to_in by lia. cbn [bind]. rewrite slice_from_in by lia. cbn [bind].
      now rewrite <- app_assoc.
Qed.
Lemma buchstabe_einfuegen_spec t i e :
  Buchstabe_In_Text_Einfuegen t i e =
    Ok (firstn (Z.to_nat (clampZ i 1 (len t + 1) - 1)) t ++ e :: skipn (Z.to_nat (clampZ i 1 (len t + 1) - 1)) t).
Proof.
  pose proof (len_nonneg t) as Hl. unfold Buchstabe_In_Text_Einfuegen.
  destruct (i <=? 1) eqn:E1; [apply Z.leb_le in E1|apply Z.leb_gt in E1].
  - rewrite clampZ_low by lia. reflexivity.
  - destruct (i >? len t) eqn:E2; rewrite Z.gtb_ltb in E2; [apply Z.ltb_lt in E2|apply Z.ltb_ge in E2].
    + rewrite clampZ_high by lia. replace (Z.to_nat (len t + 1 - 1)) with (length t) by (unfold len; lia).
      rewrite firstn_all, skipn_all. reflexivity.
    + rewrite clampZ_id by lia. rewrite slice_to_in by lia. cbn [bind]. rewrite slice_from_in by lia. cbn [bind].
      now rewrite <- app_assoc.
Qed.

Lemma loesche_text_spec t i : 1 <= i <= len t ->
  Loesche_Text t i = Ok (firstn (Z.to_nat (i - 1)) t ++ skipn (Z.to_nat i) t).
Proof.
  intros H. unfold Loesche_Text.
  replace (len t =? 0) with false by (symmetry; apply Z.eqb_neq; lia).
  destruct (i =? 1) eqn:E1.
  - apply Z.eqb_eq in E1. subst i. cbn [andb]. destruct (len t =? 1) eqn:E2.
    + apply Z.eqb_eq in E2. cbn [Z.sub Z.to_nat firstn app]. rewrite skipn_all2; [reflexivity|unfold len in E2; lia].
    + apply Z.eqb_neq in E2. rewrite slice_from_in by lia. reflexivity.
  - apply Z.eqb_neq in E1. cbn [andb]. destruct (i =? len t) eqn:E.
    + apply Z.eqb_eq in E. subst i. rewrite slice_to_in by lia. f_equal.
      rewrite (skipn_all2 t); [now rewrite app_nil_r|unfold len; lia].
    + apply Z.eqb_neq in E. rewrite slice_to_in by lia. cbn [bind]. rewrite slice_from_in by lia. cbn [bind].
      replace (i + 1 - 1) with i by lia. reflexivity.
Qed.
Lemma loesche_text_bereich_spec t s e : 1 <= s -> s <= e -> e <= len t ->
  Loesche_Text_Bereich t s e = Ok (firstn (Z.to_nat (s - 1)) t ++ skipn (Z.to_nat e) t).
Proof.
  intros H1 H2 H3. unfold Loesche_Text_Bereich.
  destruct (e >=? len t) eqn:Ee; rewrite Z.geb_leb in Ee; [apply Z.leb_le in Ee|apply Z.leb_gt in Ee].
  - assert (e = len t) by lia. subst e. rewrite (skipn_all2 t) by (unfold len; lia). rewrite app_nil_r.
    destruct (s <=? 1) eqn:Es; [apply Z.leb_le in Es|apply Z.leb_gt in Es].
    + replace (Z.to_nat (s - 1)) with 0%nat by lia. reflexivity.
    + rewrite slice_to_in by lia. reflexivity.
  - destruct (s =? 1) eqn:E.
    + apply Z.eqb_eq in E. subst s. rewrite slice_from_in by lia. replace (e + 1 - 1) with e by lia. reflexivity.
    + apply Z.eqb_neq in E. rewrite slice_to_in by lia. cbn [bind]. rewrite slice_from_in by lia. cbn [bind].
      replace (e + 1 - 1) with e by lia. reflexivity.
Qed.

(* ---- Fülle_Text, Buchstaben ---- *)
Lemma fuelle_text_loop_inv (suf pre : text) x :
  fuelle_text_loop (length suf) (len pre + 1) (pre ++ suf) x = Ok (pre ++ repeat x (length suf)).
Proof.
  revert pre. induction suf as [|y suf IH]; intros pre; cbn [fuelle_text_loop length repeat]; [reflexivity|].
  rewrite wr_mid. cbn [bind].
  replace (pre ++ x :: suf) with ((pre ++ [x]) ++ suf) by (rewrite <- app_assoc; reflexivity).
  replace (len pre + 1 + 1) with (len (pre ++ [x]) + 1) by (rewrite len_app, len_cons, len_nil; lia).
  rewrite IH. rewrite <- app_assoc. reflexivity.
Qed.
Lemma fuelle_text_spec t x : Fuelle_Text t x = Ok (repeat x (length t)).
Proof. apply (fuelle_text_loop_inv t [] x). Qed.

Lemma buchstaben_loop_inv {B} (f : Z -> B) (d : B) t : forall pre,
  buchstaben_loop f t (len pre + 1) (pre ++ repeat d (length t)) = Ok (pre ++ map f t).
Proof.
  induction t as [|b r IH]; intros pre; cbn [buchstaben_loop length repeat map]; [reflexivity|].
  rewrite wr_mid. cbn [bind].
  replace (pre ++ f b :: repeat d (length r)) with ((pre ++ [f b]) ++ repeat d (length r)) by (rewrite <- app_assoc; reflexivity).
  replace (len pre + 1 + 1) with (len (pre ++ [f b]) + 1) by (rewrite len_app, len_cons, len_nil; lia).
  rewrite IH. rewrite <- app_assoc. reflexivity.
Qed.
Lemma buchstaben_liste_spec t : Buchstaben_TextRef_BuchstabenListe t = Ok t.
Proof.
  unfold Buchstaben_TextRef_BuchstabenListe, mal. replace (len t <? 0) with false by (symmetry; apply Z.ltb_ge; apply len_nonneg).
  cbn [bind]. rewrite to_nat_len. pose proof (buchstaben_loop_inv (fun b => b) 0 t []) as H. cbn [app] in H. rewrite len_nil in H.
  cbn in H. rewrite H. now rewrite map_id.
Qed.
Lemma buchstaben_textliste_spec t : Buchstaben_TextRef_TextListe t = Ok (map (fun b => [b]) t).
Proof.
  unfold Buchstaben_TextRef_TextListe, mal. replace (len t <? 0) with false by (symmetry; apply Z.ltb_ge; apply len_nonneg).
  cbn [bind]. rewrite to_nat_len. pose proof (buchstaben_loop_inv (fun b => [b]) [] t []) as H. cbn [app] in H. rewrite len_nil in H.
  cbn in H. exact H.
Qed.

(* ---- Index_Von_Buchstabe ---- *)
Lemma index_buchstabe_loop_inv t z : forall i,
  (index_buchstabe_loop t z i = -1 /\ ~ In z t) \/
  (exists pre suf, t = pre ++ z :: suf /\ ~ In z pre /\ index_buchstabe_loop t z i = i + len pre).
Proof.
  induction t as [|b r IH]; intros i; cbn [index_buchstabe_loop].
  - left. split; [reflexivity|intros []].
  - destruct (b =? z) eqn:E.
    + apply Z.eqb_eq in E. subst b. right. exists [], r. rewrite len_nil. repeat split; auto. lia.
    + apply Z.eqb_neq in E. destruct (IH (i + 1)) as [[H1 H2]|(pre & suf & -> & Hn & Hi)].
      * left. split; [exact H1|]. intros [H|H]; [congruence|contradiction].
      * right. exists (b :: pre), suf. split; [reflexivity|]. split.
        -- intros [H|H]; [congruence|contradiction].
        -- rewrite Hi, len_cons. lia.
Qed.
Lemma text_index_von_buchstabe_spec t z :
  (Text_Index_Von_Buchstabe_Ref t z = -1 /\ ~ In z t) \/
  (exists pre suf, t = pre ++ z :: suf /\ ~ In z pre /\ Text_Index_Von_Buchstabe_Ref t z = len pre + 1).
Proof.
  unfold Text_Index_Von_Buchstabe_Ref. destruct (len t =? 0) eqn:E.
  - apply Z.eqb_eq in E. apply len_zero_nil in E. subst. left. split; [reflexivity|intros []].
  - destruct (index_buchstabe_loop_inv t z 1) as [H|(pre & suf & H1 & H2 & H3)]; [left; exact H|].
    right. exists pre, suf. repeat split; auto. lia.
Qed.
Lemma ist_text_leer_spec t : Ist_Text_Leer t = true <-> t = [].
Proof. unfold Ist_Text_Leer, Ist_Text_Leer_Ref. rewrite Z.eqb_eq. split; [apply len_zero_nil|intros ->; reflexivity]. Qed.

(* ---- Groß / Klein ---- *)
Lemma schreiben_loop_inv f t : forall acc, schreiben_loop f t acc = acc ++ map f t.
Proof.
  induction t as [|b r IH]; intros acc; cbn [schreiben_loop map]; [now rewrite app_nil_r|].
  rewrite IH. unfold Buchstabe_An_Text_Fuegen. now rewrite <- app_assoc.
Qed.
Lemma grossschreiben_spec t : Grossschreiben_Wert t = map Grossgeschrieben t.
Proof. unfold Grossschreiben_Wert. now rewrite schreiben_loop_inv. Qed.
Lemma kleinschreiben_spec t : Kleinschreiben_Wert t = map Kleingeschrieben t.
Proof. unfold Kleinschreiben_Wert. now rewrite schreiben_loop_inv. Qed.

(* the doc comment of Zeichen.Großgeschrieben: the German lower-case letters a-z, ä, ö, ü map to their
   upper-case variant (32 code points below), everything else is returned unchanged *)
Definition de_klein (c : Z) : bool := ((97 <=? c) && (c <=? 122)) || (c =? 228) || (c =? 246) || (c =? 252).
Definition de_gross (c : Z) : bool := ((65 <=? c) && (c <=? 90)) || (c =? 196) || (c =? 214) || (c =? 220).
Definition gross_ref (c : Z) : Z := if de_klein c then c - 32 else c.
Definition klein_ref (c : Z) : Z := if de_gross c then c + 32 else c.

Lemma byte_cases (P : Z -> bool) : forallb (fun n => P (Z.of_nat n)) (seq 0 256) = true ->
  forall c, 0 <= c < 256 -> P c = true.
Proof.
  intros H c Hc. rewrite forallb_forall in H. specialize (H (Z.to_nat c)).
  rewrite Z2Nat.id in H by lia. apply H. apply in_seq. lia.
Qed.
Lemma outside_latin1 c : c < 0 \/ 256 <= c -> Ist_Deutscher_Buchstabe c = false /\ de_klein c = false /\ de_gross c = false.
Proof.
  intros H. unfold Ist_Deutscher_Buchstabe, de_klein, de_gross.
  repeat split; repeat (apply orb_false_iff; split); try (apply andb_false_iff); try (apply Z.eqb_neq; lia);
    try (destruct (Z_le_gt_dec 256 c); [right; apply Z.leb_gt; lia|left; rewrite Z.geb_leb; apply Z.leb_gt; lia]);
    try (destruct (Z_le_gt_dec 256 c); [right; apply Z.leb_gt; lia|left; apply Z.leb_gt; lia]).
Qed.
Lemma grossgeschrieben_spec c : Grossgeschrieben c = gross_ref c.
Proof.
  destruct (Z_lt_dec c 0) as [Hn|Hn]; [|destruct (Z_le_gt_dec 256 c) as [Hh|Hh]].
  - destruct (outside_latin1 c ltac:(lia)) as (A & B & _). unfold Grossgeschrieben, gross_ref. now rewrite A, B.
  - destruct (outside_latin1 c ltac:(lia)) as (A & B & _). unfold Grossgeschrieben, gross_ref. now rewrite A, B.
  - apply Z.eqb_eq. apply (byte_cases (fun c => Grossgeschrieben c =? gross_ref c)); [vm_compute; reflexivity|lia].
Qed.
Lemma kleingeschrieben_spec c : Kleingeschrieben c = klein_ref c.
Proof.
  destruct (Z_lt_dec c 0) as [Hn|Hn]; [|destruct (Z_le_gt_dec 256 c) as [Hh|Hh]].
  - destruct (outside_latin1 c ltac:(lia)) as (A & _ & B). unfold Kleingeschrieben, klein_ref. now rewrite A, B.
  - destruct (outside_latin1 c ltac:(lia)) as (A & _ & B). unfold Kleingeschrieben, klein_ref. now rewrite A, B.
  - apply Z.eqb_eq. apply (byte_cases (fun c => Kleingeschrieben c =? klein_ref c)); [vm_compute; reflexivity|lia].
Qed.
Lemma grossschreiben_text_spec t : Grossschreiben_Wert t = map gross_ref t.
Proof. rewrite grossschreiben_spec. apply map_ext. apply grossgeschrieben_spec. Qed.
Lemma kleinschreiben_text_spec t : Kleinschreiben_Wert t = map klein_ref t.
Proof. rewrite kleinschreiben_spec. apply map_ext. apply kleingeschrieben_spec. Qed.

(* ---- Polstern ---- *)
Lemma wiederhole_vor n z : forall t, wiederhole n (fun t => Buchstabe_Vor_Text_Stellen t z) t = repeat z n ++ t.
Proof.
  induction n as [|n IH]; intros t; cbn [wiederhole repeat]; [reflexivity|].
  rewrite IH. unfold Buchstabe_Vor_Text_Stellen.
  change (z :: repeat z n) with (repeat z (S n)). rewrite (repeat_snoc z n). now rewrite <- app_assoc.
Qed.
Lemma wiederhole_an n z : forall t, wiederhole n (fun t => Buchstabe_An_Text_Fuegen t z) t = t ++ repeat z n.
Proof.
  induction n as [|n IH]; intros t; cbn [wiederhole repeat]; [now rewrite app_nil_r|].
  rewrite IH. unfold Buchstabe_An_Text_Fuegen. now rewrite <- app_assoc.
Qed.
Lemma polster_links_spec t z n : Polster_Links t z n = repeat z (Z.to_nat (n - len t)) ++ t.
Proof.
  unfold Polster_Links. cbv zeta. destruct (n - len t <=? 0) eqn:E.
  - apply Z.leb_le in E. replace (Z.to_nat (n - len t)) with 0%nat by lia. reflexivity.
  - apply wiederhole_vor.
Qed.
Lemma polster_rechts_spec t z n : Polster_Rechts t z n = t ++ repeat z (Z.to_nat (n - len t)).
Proof.
  unfold Polster_Rechts. cbv zeta. destruct (n - len t <=? 0) eqn:E.
  - apply Z.leb_le in E. replace (Z.to_nat (n - len t)) with 0%nat by lia. now rewrite app_nil_r.
  - apply wiederhole_an.
Qed.

(* ---- Verbinden ---- *)
Fixpoint join {E} (show : E -> text) (z : Z) (l : list E) : text :=
  match l with
  | [] => []
  | [x] => show x
  | x :: r => show x ++ z :: join show z r
  end.
Lemma verbinden_loop_inv {E} (show : E -> text) z (suf : list E) : forall pre acc,
  verbinden_loop show (length suf) (len pre + 1) (pre ++ suf) z acc = Ok (acc ++ join show z suf).
Proof.
  induction suf as [|x r IH]; intros pre acc; cbn [verbinden_loop length join]; [now rewrite app_nil_r|].
  rewrite rd_mid. cbn [bind].
  replace (pre ++ x :: r) with ((pre ++ [x]) ++ r) by (rewrite <- app_assoc; reflexivity).
  replace (len pre + 1 + 1) with (len (pre ++ [x]) + 1) by (rewrite len_app, len_cons, len_nil; lia).
  rewrite IH. f_equal. destruct r as [|y r'].
  - replace (len pre + 1 <? len ((pre ++ [x]) ++ [])) with false
      by (symmetry; apply Z.ltb_ge; rewrite !len_app, len_cons, !len_nil; lia).
    cbn [join]. now rewrite app_nil_r.
  - replace (len pre + 1 <? len ((pre ++ [x]) ++ y :: r')) with true
      by (symmetry; apply Z.ltb_lt; rewrite !len_app, !len_cons, len_nil; pose proof (len_nonneg r'); lia).
    rewrite <- !app_assoc. reflexivity.
Qed.
Lemma verbinden_text_spec l z : Verbinden_Text l z = Ok (join (fun t => t) z l).
Proof. apply (verbinden_loop_inv (fun t : text => t) z l [] []). Qed.
Lemma verbinden_buchstabe_spec l z : Verbinden_Buchstabe l z = Ok (join (fun b => [b]) z l).
Proof. apply (verbinden_loop_inv (fun b : Z => [b]) z l [] []). Qed.

(* ---- Hamming ---- *)
Definition mismatches (a b : text) : Z := len (filter (fun p => negb (fst p =? snd p)) (combine a b)).
Lemma hamming_loop_inv (s1 s2 : text) : forall p1 p2 summe, length s1 = length s2 -> len p2 = len p1 ->
  hamming_loop (length s1) (len p1 + 1) (p1 ++ s1) (p2 ++ s2) summe = Ok (summe + mismatches s1 s2).
Proof.
  revert s2. induction s1 as [|a s1 IH]; intros [|b s2] p1 p2 summe Hl Hp; cbn [length] in Hl; try lia; cbn [hamming_loop length].
  - unfold mismatches. cbn. f_equal. lia.
  - rewrite rd_mid. cbn [bind]. rewrite <- Hp. rewrite rd_mid. cbn [bind]. rewrite Hp.
    replace (p1 ++ a :: s1) with ((p1 ++ [a]) ++ s1) by (rewrite <- app_assoc; reflexivity).
    replace (p2 ++ b :: s2) with ((p2 ++ [b]) ++ s2) by (rewrite <- app_assoc; reflexivity).
    replace (len p1 + 1 + 1) with (len (p1 ++ [a]) + 1) by (rewrite len_app, len_cons, len_nil; lia).
    rewrite IH by (try lia; rewrite !len_app, !len_cons, !len_nil; lia).
    f_equal. unfold mismatches. cbn [combine filter fst snd]. destruct (a =? b); cbn [negb]; [|rewrite len_cons]; lia.
Qed.
Lemma hamming_spec a b : length a = length b -> Hamming_Distanz a b = Ok (mismatches a b).
Proof.
  intros H. unfold Hamming_Distanz. replace (len a =? len b) with true by (symmetry; apply Z.eqb_eq; unfold len; lia).
  cbn [negb]. change (hamming_loop (length a) 1 a b 0) with (hamming_loop (length a) (len (@nil Z) + 1) ([] ++ a) ([] ++ b) 0).
  rewrite (hamming_loop_inv a b [] [] 0 H eq_refl). f_equal.
Qed.
Lemma hamming_ungleich a b : length a <> length b -> Hamming_Distanz a b = Ok (-1).
Proof.
  intros H. unfold Hamming_Distanz. replace (len a =? len b) with false by (symmetry; apply Z.eqb_neq; unfold len; lia). reflexivity.
Qed.

(* ---- Vergleiche_Text ---- *)
Lemma vergleiche_loop_inv p : forall fuel s1 s2, s1 <> [] -> s2 <> [] -> (length s1 < fuel)%nat ->
  exists r, vergleiche_loop fuel (p ++ s1) (p ++ s2) (len p + 1) = Ok r /\
    (forall q a b r1 r2, s1 = q ++ a :: r1 -> s2 = q ++ b :: r2 -> a <> b -> r = a - b) /\
    (forall c r2, s2 = s1 ++ c :: r2 -> r = -1) /\
    (forall c r1, s1 = s2 ++ c :: r1 -> r = 1) /\
    (s1 = s2 -> r = -1).
Proof.
  intros fuel s1. revert p fuel. induction s1 as [|a s1 IH]; intros p fuel s2 H1 H2 Hf; [congruence|].
  destruct s2 as [|b s2]; [congruence|]. destruct fuel as [|f]; [lia|].
  cbn [vergleiche_loop]. rewrite !rd_mid. cbn [bind]. destruct (a =? b) eqn:E.
  - apply Z.eqb_eq in E. subst b. cbv zeta.
    destruct s1 as [|a1 s1'].
    + (* text1 exhausted *)
      replace (len p + 1 + 1 >? len (p ++ [a])) with true
        by (symmetry; rewrite Z.gtb_ltb; apply Z.ltb_lt; rewrite len_app, len_cons, len_nil; lia).
      exists (-1). split; [reflexivity|]. repeat split.
      * intros q x y r1 r2 Hq1 Hq2 Hne. destruct q as [|q0 q]; cbn in Hq1; injection Hq1 as -> Hq1; [injection Hq2 as ->; congruence|].
        destruct q; discriminate.
      * intros c r1 Hs. destruct s2; cbn in Hs; discriminate.
    + replace (len p + 1 + 1 >? len (p ++ a :: a1 :: s1')) with false
        by (symmetry; rewrite Z.gtb_ltb; apply Z.ltb_ge; rewrite len_app, !len_cons; pose proof (len_nonneg s1'); lia).
      destruct s2 as [|b1 s2'].
      * replace (len p + 1 + 1 >? len (p ++ [a])) with true
          by (symmetry; rewrite Z.gtb_ltb; apply Z.ltb_lt; rewrite len_app, len_cons, len_nil; lia).
        exists 1. split; [reflexivity|]. repeat split.
        -- intros q x y r1 r2 Hq1 Hq2 Hne. destruct q as [|q0 q]; cbn in Hq2; injection Hq2 as -> Hq2; [injection Hq1 as ->; congruence|].
           destruct q; discriminate.
        -- intros c r2 Hs. cbn in Hs. discriminate.
        -- intros Hs. discriminate.
      * replace (len p + 1 + 1 >? len (p ++ a :: b1 :: s2')) with false
          by (symmetry; rewrite Z.gtb_ltb; apply Z.ltb_ge; rewrite len_app, !len_cons; pose proof (len_nonneg s2'); lia).
        replace (p ++ a :: a1 :: s1') with ((p ++ [a]) ++ a1 :: s1') by (rewrite <- app_assoc; reflexivity).
        replace (p ++ a :: b1 :: s2') with ((p ++ [a]) ++ b1 :: s2') by (rewrite <- app_assoc; reflexivity).
        replace (len p + 1 + 1) with (len (p ++ [a]) + 1) by (rewrite len_app, len_cons, len_nil; lia).
        destruct (IH (p ++ [a]) f (b1 :: s2') ltac:(discriminate) ltac:(discriminate) ltac:(cbn [length] in *; lia))
          as (r & Er & A & B & C & D).
        exists r. split; [exact Er|]. repeat split.
        -- intros q x y r1 r2 Hq1 Hq2 Hne. destruct q as [|q0 q]; cbn in Hq1, Hq2.
           ++ injection Hq1 as -> _. injection Hq2 as -> _. congruence.
           ++ injection Hq1 as _ Hq1. injection Hq2 as _ Hq2. apply (A q x y r1 r2 Hq1 Hq2 Hne).
        -- intros c r2 Hs. apply (B c r2). cbn in Hs |- *. congruence.
        -- intros c r1 Hs. apply (C c r1). cbn in Hs |- *. congruence.
        -- intros Hs. apply D. congruence.
  - apply Z.eqb_neq in E. exists (a - b). split; [reflexivity|]. repeat split.
    + intros q x y r1 r2 Hq1 Hq2 Hne. destruct q as [|q0 q]; cbn in Hq1, Hq2.
      * injection Hq1 as -> _. injection Hq2 as -> _. reflexivity.
      * injection Hq1 as -> _. injection Hq2 as -> _. congruence.
    + intros c r2 Hs. cbn in Hs. injection Hs as -> _. congruence.
    + intros c r1 Hs. cbn in Hs. injection Hs as -> _. congruence.
    + intros Hs. injection Hs as -> _. congruence.
Qed.
(* 0 if equal; the code-point difference at the first mismatch; -1 / 1 if one text is a proper prefix of the other *)
Lemma vergleiche_spec t1 t2 :
  exists r, Vergleiche_Text t1 t2 = Ok r /\
    (t1 = t2 -> r = 0) /\
    (forall q a b r1 r2, t1 = q ++ a :: r1 -> t2 = q ++ b :: r2 -> a <> b -> r = a - b) /\
    (forall c r2, t2 = t1 ++ c :: r2 -> r = -1) /\
    (forall c r1, t1 = t2 ++ c :: r1 -> r = 1).
Proof.
  unfold Vergleiche_Text. destruct (text_eqb t1 t2) eqn:E.
  - apply text_eqb_spec in E. subst t2. exists 0. split; [reflexivity|]. repeat split.
    + intros q a b r1 r2 Ha Hb Hne. rewrite Ha in Hb. apply app_inv_head in Hb. injection Hb as Hb _. congruence.
    + intros c r2 Hs. exfalso. assert (Hl : length t1 = length (t1 ++ c :: r2)) by (rewrite <- Hs; reflexivity).
      rewrite app_length in Hl. cbn [length] in Hl. lia.
    + intros c r2 Hs. exfalso. assert (Hl : length t1 = length (t1 ++ c :: r2)) by (rewrite <- Hs; reflexivity).
      rewrite app_length in Hl. cbn [length] in Hl. lia.
  - apply text_eqb_false in E. destruct t1 as [|a1 t1'].
    + (* text1 empty: a proper prefix of text2 *)
      cbn [len length Z.of_nat Z.eqb]. exists (-1). split; [reflexivity|]. repeat split; try congruence.
      * intros q a b r1 r2 Ha. destruct q; discriminate.
      * intros c r1 Hs. destruct t2; discriminate.
    + replace (len (a1 :: t1') =? 0) with false by (symmetry; apply Z.eqb_neq; rewrite len_cons; pose proof (len_nonneg t1'); lia).
      destruct t2 as [|a2 t2'].
      * cbn [len length Z.of_nat Z.eqb]. exists 1. split; [reflexivity|]. repeat split; try congruence.
        -- intros q a b r1 r2 _ Hb. destruct q; discriminate.
        -- intros c r2 Hs. discriminate.
      * replace (len (a2 :: t2') =? 0) with false by (symmetry; apply Z.eqb_neq; rewrite len_cons; pose proof (len_nonneg t2'); lia).
        destruct (vergleiche_loop_inv [] (length (a1 :: t1') + 1) (a1 :: t1') (a2 :: t2') ltac:(discriminate) ltac:(discriminate) ltac:(lia))
          as (r & Er & A & B & C & D).
        exists r. split; [exact Er|]. repeat split; auto. intros Heq. contradiction.
Qed.

(* ---- Trim (both ends) ---- *)
Definition strip_ref (z : Z) (t : text) : text := rev (drop_z z (rev (drop_z z t))).

Lemma drop_z_split z t : exists A, t = A ++ drop_z z t /\ all_z z A.
Proof.
  induction t as [|c r IH]; [exists []; split; [reflexivity|constructor]|].
  cbn [drop_z]. destruct (c =? z) eqn:E.
  - apply Z.eqb_eq in E. subst c. destruct IH as (A & HA & Hz). exists (z :: A). split; [cbn; now rewrite <- HA|now constructor].
  - exists []. split; [reflexivity|constructor].
Qed.
Lemma drop_z_head z t c r : drop_z z t = c :: r -> c <> z.
Proof.
  induction t as [|x t IH]; cbn [drop_z]; [discriminate|].
  destruct (x =? z) eqn:E; [exact IH|]. intros H. injection H as -> _. now apply Z.eqb_neq.
Qed.
Lemma drop_z_all_nil z t : all_z z t -> drop_z z t = [].
Proof. intros H. rewrite <- (app_nil_r t). now rewrite drop_z_all. Qed.
Lemma drop_z_app_nonempty z X Y : drop_z z X <> [] -> drop_z z (X ++ Y) = drop_z z X ++ Y.
Proof.
  induction X as [|x X IH]; cbn [drop_z app]; [congruence|].
  destruct (x =? z); [exact IH|reflexivity].
Qed.
Lemma drop_z_nonempty z X c : In c X -> c <> z -> drop_z z X <> [].
Proof.
  induction X as [|x X IH]; intros Hin Hc; [destruct Hin|]. cbn [drop_z].
  destruct (x =? z) eqn:E; [|discriminate]. apply Z.eqb_eq in E. subst x.
  destruct Hin as [->|Hin]; [congruence|]. now apply IH.
Qed.

Lemma trim_start_loop_inv z suf : forall pre fuel, suf <> [] -> (length suf < fuel)%nat ->
  trim_start_loop fuel (pre ++ suf) z (len pre + 1) =
    Ok (match drop_z z suf with [] => len (pre ++ suf) | _ => len pre + len suf - len (drop_z z suf) + 1 end).
Proof.
  induction suf as [|c r IH]; intros pre fuel Hne Hf; [congruence|].
  destruct fuel as [|f]; [lia|]. cbn [trim_start_loop]. rewrite rd_mid. cbn [bind drop_z].
  destruct (c =? z) eqn:E; cbn [andb].
  - destruct r as [|c2 r2].
    + replace (len pre + 1 <? len (pre ++ [c])) with false
        by (symmetry; apply Z.ltb_ge; rewrite len_app, len_cons, len_nil; lia).
      cbn [drop_z]. f_equal. rewrite len_app, len_cons, len_nil. lia.
    + replace (len pre + 1 <? len (pre ++ c :: c2 :: r2)) with true
        by (symmetry; apply Z.ltb_lt; rewrite len_app, !len_cons; pose proof (len_nonneg r2); lia).
      replace (pre ++ c :: c2 :: r2) with ((pre ++ [c]) ++ c2 :: r2) by (rewrite <- app_assoc; reflexivity).
      replace (len pre + 1 + 1) with (len (pre ++ [c]) + 1) by (rewrite len_app, len_cons, len_nil; lia).
      rewrite IH by (try discriminate; cbn [length] in *; lia).
      destruct (drop_z z (c2 :: r2)); f_equal. rewrite len_app, !len_cons, len_nil. lia.
  - f_equal. lia.
Qed.
Lemma trim_stop_loop_inv z pre : forall suf fuel, pre <> [] -> (length pre < fuel)%nat ->
  trim_stop_loop fuel (pre ++ suf) z (len pre) =
    Ok (match drop_z z (rev pre) with [] => 1 | d => len d end).
Proof.
  induction pre as [|c p IH] using rev_ind; intros suf fuel Hne Hf; [congruence|].
  destruct fuel as [|f]; [lia|]. cbn [trim_stop_loop].
  replace (len (p ++ [c])) with (len p + 1) by (rewrite len_app, len_cons, len_nil; lia).
  rewrite <- app_assoc. cbn [app]. rewrite rd_mid. cbn [bind].
  rewrite rev_app_distr. cbn [rev app drop_z].
  destruct (c =? z) eqn:E; cbn [andb].
  - destruct p as [|c2 p2] using rev_ind.
    + cbn. reflexivity.
    + clear IHp2. replace (len (p2 ++ [c2]) + 1 =? 1) with false
        by (symmetry; apply Z.eqb_neq; rewrite len_app, len_cons, len_nil; pose proof (len_nonneg p2); lia).
      cbn [negb]. replace (len (p2 ++ [c2]) + 1 - 1) with (len (p2 ++ [c2])) by lia.
      apply IH; [intros H; apply app_eq_nil in H; destruct H; discriminate|].
      rewrite app_length in Hf. cbn [length] in Hf. lia.
  - f_equal. rewrite len_cons, len_rev. lia.
Qed.

Lemma trim_spec t z : Trim t z = Ok (strip_ref z t).
Proof.
  unfold Trim, strip_ref. destruct (len t =? 0) eqn:E0.
  - apply Z.eqb_eq in E0. apply len_zero_nil in E0. subst. reflexivity.
  - apply Z.eqb_neq in E0. assert (Hne : t <> []) by (intros ->; apply E0; reflexivity).
    pose proof (trim_start_loop_inv z t [] (length t + 1) Hne ltac:(lia)) as Hs. cbn [app] in Hs. rewrite len_nil in Hs.
    replace (0 + 1) with 1 in Hs by lia. rewrite Hs. cbn [bind].
    pose proof (trim_stop_loop_inv z t [] (length t + 1) Hne ltac:(lia)) as He. rewrite app_nil_r in He. rewrite He. cbn [bind].
    destruct (drop_z_split z t) as (A & HA & HzA).
    destruct (drop_z z t) as [|d D1] eqn:ED.
    + (* the whole text consists of the trimmed letter *)
      rewrite app_nil_r in HA. subst A.
      assert (Hr : drop_z z (rev t) = []) by (apply drop_z_all_nil; apply Forall_rev; exact HzA).
      rewrite Hr. replace ((len t =? len t) && (1 =? 1)) with true by (rewrite Z.eqb_refl; reflexivity).
      destruct t as [|x t']; [congruence|]. rewrite rd_cons_1. cbn [bind].
      inversion HzA; subst. now rewrite Z.eqb_refl.
    + assert (Hd : d <> z) by (apply (drop_z_head z t d D1 ED)).
      set (D := d :: D1) in *.
      remember (drop_z z (rev D)) as D2 eqn:ED2.
      assert (HrevD : D2 <> []) by (rewrite ED2; apply (drop_z_nonempty z (rev D) d); [apply in_rev; rewrite rev_involutive; left; reflexivity|exact Hd]).
      assert (Hrt : drop_z z (rev t) = D2 ++ rev A).
      { rewrite HA at 1. rewrite rev_app_distr, ED2. apply drop_z_app_nonempty. now rewrite <- ED2. }
      destruct (drop_z_split z (rev D)) as (B & HB & HzB). rewrite <- ED2 in HB.
      assert (HD : D = rev D2 ++ rev B) by (rewrite <- rev_app_distr, <- HB; now rewrite rev_involutive).
      assert (Ht : t = A ++ rev D2 ++ rev B) by (rewrite HA; now rewrite HD).
      rewrite Hrt.
      assert (Hm : forall l : text, l <> [] -> match l with [] => 1 | z0 :: l' => len (z0 :: l') end = len l) by (intros [|y l] Hl; [congruence|reflexivity]).
      rewrite (Hm (D2 ++ rev A)) by (intros H; apply app_eq_nil in H; destruct H; congruence).
      rewrite len_app, len_rev.
      assert (HlD : len D = len D2 + len B) by (rewrite HD, len_app, !len_rev; lia).
      assert (Hlt : len t = len A + len D) by (rewrite HA at 1; now rewrite len_app).
      assert (HlD2 : 1 <= len D2) by (destruct D2 as [|y D2']; [congruence|rewrite len_cons; pose proof (len_nonneg D2'); lia]).
      pose proof (len_nonneg A) as HlA. pose proof (len_nonneg B) as HlB.
      replace (0 + len t - len D + 1) with (len A + 1) by lia.
      assert (Halles : (do alles <- (if (len A + 1 =? len t) && (len D2 + len A =? 1) then do c <- rd t 1;; Ok (c =? z) else Ok false);;
                        if alles then Ok [] else slice t (len A + 1) (len D2 + len A)) = slice t (len A + 1) (len D2 + len A)).
      { destruct ((len A + 1 =? len t) && (len D2 + len A =? 1)) eqn:Ec; [|reflexivity].
        apply andb_true_iff in Ec. destruct Ec as [_ Ec]. apply Z.eqb_eq in Ec.
        assert (HA0 : len A = 0) by lia. apply len_zero_nil in HA0. subst A. cbn [app] in HA.
        rewrite HA. unfold D. rewrite rd_cons_1. cbn [bind].
        replace (d =? z) with false by (symmetry; apply Z.eqb_neq; exact Hd). reflexivity. }
      rewrite Halles. rewrite slice_in by lia. f_equal.
      replace (len D2 + len A - (len A + 1) + 1) with (len D2) by lia. replace (len A + 1 - 1) with (len A) by lia.
      assert (Hsk : skipn (Z.to_nat (len A)) t = rev D2 ++ rev B).
      { rewrite to_nat_len. rewrite Ht. rewrite skipn_app, skipn_all, Nat.sub_diag. reflexivity. }
      rewrite Hsk. rewrite to_nat_len. rewrite <- (rev_length D2). rewrite firstn_app, firstn_all, Nat.sub_diag. cbn [firstn]. now rewrite app_nil_r.
Qed.

(* ---- Text_Anzahl_Text_Nicht_Überlappend: leftmost, non-overlapping occurrences ---- *)
Fixpoint nonoverlap_ref (fuel : nat) (s t : text) : Z :=
  match fuel with
  | O => 0
  | S f =>
      if (length t <? length s)%nat then 0
      else if text_eqb (firstn (length s) t) s then 1 + nonoverlap_ref f s (skipn (length s) t)
      else nonoverlap_ref f s (tl t)
  end.
Lemma tl_skipn {A} (l : list A) k : tl (skipn k l) = skipn (S k) l.
Proof. revert l. induction k as [|k IH]; intros [|x l]; cbn [skipn tl]; auto. apply IH. Qed.
Lemma skipn_add {A} (l : list A) a b : skipn a (skipn b l) = skipn (b + a) l.
Proof. revert l. induction b as [|b IH]; intros l; [reflexivity|]. destruct l as [|x l]; cbn [skipn Nat.add]; [now rewrite skipn_nil|apply IH]. Qed.

Lemma nicht_ueberlappend_loop_inv t s fuel : forall k anz, 0 <= k -> k <= len t -> 0 < len s ->
  (Z.to_nat (len t - k) < fuel)%nat ->
  nicht_ueberlappend_loop fuel t s (len t) (len s) (k + 1) (k + len s) anz =
    Ok (anz + nonoverlap_ref fuel s (skipn (Z.to_nat k) t)).
Proof.
  induction fuel as [|f IH]; intros k anz Hk Hkt Hs Hf; [lia|].
  cbn [nicht_ueberlappend_loop nonoverlap_ref].
  assert (Hlen : length (skipn (Z.to_nat k) t) = (length t - Z.to_nat k)%nat) by apply skipn_length.
  destruct (k + len s <=? len t) eqn:E.
  - apply Z.leb_le in E. rewrite slice_window by lia. cbn [bind]. rewrite to_nat_len.
    replace (length (skipn (Z.to_nat k) t) <? length s)%nat with false
      by (symmetry; apply Nat.ltb_ge; rewrite Hlen; unfold len in *; lia).
    destruct (text_eqb (firstn (length s) (skipn (Z.to_nat k) t)) s) eqn:Eq.
    + replace (k + 1 + len s) with (k + len s + 1) by lia. replace (k + len s + len s) with (k + len s + len s) by lia.
      rewrite IH by (unfold len in *; lia). f_equal.
      rewrite skipn_add. replace (Z.to_nat k + length s)%nat with (Z.to_nat (k + len s)) by (unfold len; lia). lia.
    + replace (k + len s + 1) with (k + 1 + len s) by lia.
      rewrite IH by (unfold len in *; lia). f_equal. f_equal.
      rewrite tl_skipn. f_equal. f_equal. lia.
  - apply Z.leb_gt in E.
    replace (length (skipn (Z.to_nat k) t) <? length s)%nat with true
      by (symmetry; apply Nat.ltb_lt; rewrite Hlen; unfold len in *; lia).
    f_equal. lia.
Qed.
Lemma nicht_ueberlappend_spec t s : s <> [] ->
  Text_Anzahl_Text_Nicht_Ueberlappend t s = Ok (nonoverlap_ref (length t + 1) s t).
Proof.
  intros Hs. assert (Hls : 0 < len s) by (destruct s; [congruence|rewrite len_cons; pose proof (len_nonneg s); lia]).
  unfold Text_Anzahl_Text_Nicht_Ueberlappend. cbv zeta. destruct (len t =? 0) eqn:E0.
  - apply Z.eqb_eq in E0. apply len_zero_nil in E0. subst t. cbn [length Nat.add nonoverlap_ref].
    destruct s; [congruence|reflexivity].
  - replace (len s =? 0) with false by (symmetry; apply Z.eqb_neq; lia).
    pose proof (nicht_ueberlappend_loop_inv t s (length t + 1) 0 0 ltac:(lia) (len_nonneg t) Hls ltac:(unfold len; lia)) as H.
    replace (0 + 1) with 1 in H by lia. replace (0 + len s) with (len s) in H by lia. rewrite H. reflexivity.
Qed.

(* ---- Spalte ---- *)
Fixpoint split_ref (z : Z) (t : text) : list text :=
  match t with
  | [] => [[]]
  | c :: r => if c =? z then [] :: split_ref z r
              else match split_ref z r with h :: tl => (c :: h) :: tl | [] => [[c]] end
  end.
Lemma split_ref_notin z t : ~ In z t -> split_ref z t = [t].
Proof.
  induction t as [|c r IH]; intros H; [reflexivity|]. cbn [split_ref].
  replace (c =? z) with false by (symmetry; apply Z.eqb_neq; intros ->; apply H; left; reflexivity).
  rewrite IH; [reflexivity|]. intros Hin. apply H. right. exact Hin.
Qed.
Lemma split_ref_app z pre suf : ~ In z pre -> split_ref z (pre ++ z :: suf) = pre :: split_ref z suf.
Proof.
  induction pre as [|c r IH]; intros H; cbn [app split_ref].
  - now rewrite Z.eqb_refl.
  - replace (c =? z) with false by (symmetry; apply Z.eqb_neq; intros ->; apply H; left; reflexivity).
    rewrite IH; [reflexivity|]. intros Hin. apply H. right. exact Hin.
Qed.
Lemma anzahl_app z pre suf : ~ In z pre ->
  Text_Anzahl_Buchstabe (pre ++ z :: suf) z = Text_Anzahl_Buchstabe suf z + 1.
Proof.
  intros H. rewrite !text_anzahl_buchstabe_spec, count_occ_app. cbn [count_occ].
  destruct (Z.eq_dec z z) as [_|N]; [|congruence].
  rewrite (proj1 (count_occ_not_In Z.eq_dec pre z) H). lia.
Qed.
Lemma anzahl_nonneg t z : 0 <= Text_Anzahl_Buchstabe t z.
Proof. rewrite text_anzahl_buchstabe_spec. lia. Qed.

Lemma spalte_loop_inv z fuel : forall t endl i n,
  i = len endl + 1 -> Text_Anzahl_Buchstabe t z <= n - i -> (Z.to_nat (Text_Anzahl_Buchstabe t z) < fuel)%nat ->
  exists t' endl' i',
    spalte_loop fuel (fun t => Ok (Text_Index_Von_Buchstabe_Ref t z)) (fun endIndex t => endIndex =? len t) 1 t endl i n = Ok (t', endl', i') /\
    endl' ++ [t'] = endl ++ split_ref z t /\ i' = len (endl' ++ [t']).
Proof.
  induction fuel as [|f IH]; intros t endl i n Hi Hc Hf; [lia|].
  cbn [spalte_loop]. pose proof (anzahl_nonneg t z) as Hn0.
  replace (i <=? n) with true by (symmetry; apply Z.leb_le; lia). cbn [bind].
  destruct (text_index_von_buchstabe_spec t z) as [[Hr Hnot]|(pre & suf & Ht & Hnot & Hr)]; rewrite Hr.
  - cbn. exists t, endl, i. split; [reflexivity|]. rewrite split_ref_notin by assumption.
    split; [reflexivity|]. rewrite len_app, len_cons, len_nil. lia.
  - pose proof (len_nonneg pre) as Hp. pose proof (len_nonneg suf) as Hs.
    replace (len pre + 1 <? 0) with false by (symmetry; apply Z.ltb_ge; lia).
    assert (Hlt : len t = len pre + 1 + len suf) by (rewrite Ht, len_app, len_cons; lia).
    assert (Hpiece : (if len pre + 1 =? 1 then Ok [] else slice_to t (len pre + 1 - 1)) = Ok pre).
    { destruct (len pre + 1 =? 1) eqn:E1.
      - apply Z.eqb_eq in E1. assert (len pre = 0) by lia. apply len_zero_nil in H. now subst pre.
      - apply Z.eqb_neq in E1. rewrite slice_to_in by lia. f_equal.
        replace (Z.to_nat (len pre + 1 - 1)) with (length pre) by (unfold len; lia).
        rewrite Ht, firstn_app, firstn_all, Nat.sub_diag. cbn [firstn]. now rewrite app_nil_r. }
    rewrite Hpiece. cbn [bind].
    assert (Hrest : (if len pre + 1 =? len t then Ok [] else slice_from t (len pre + 1 + 1)) = Ok suf).
    { destruct (len pre + 1 =? len t) eqn:E2.
      - apply Z.eqb_eq in E2. assert (len suf = 0) by lia. apply len_zero_nil in H. now subst suf.
      - apply Z.eqb_neq in E2. rewrite slice_from_in by lia. f_equal.
        replace (Z.to_nat (len pre + 1 + 1 - 1)) with (length (pre ++ [z])) by (rewrite app_length; cbn [length]; unfold len; lia).
        rewrite Ht. replace (pre ++ z :: suf) with ((pre ++ [z]) ++ suf) by (rewrite <- app_assoc; reflexivity).
        rewrite skipn_app, skipn_all, Nat.sub_diag. reflexivity. }
    rewrite Hrest. cbn [bind].
    assert (Hcnt : Text_Anzahl_Buchstabe t z = Text_Anzahl_Buchstabe suf z + 1) by (rewrite Ht; now apply anzahl_app).
    destruct (IH suf (endl ++ [pre]) (i + 1) n) as (t' & endl' & i' & E & Hsplit & Hi').
    + rewrite len_app, len_cons, len_nil. lia.
    + lia.
    + pose proof (anzahl_nonneg suf z). lia.
    + exists t', endl', i'. split; [exact E|]. split; [|exact Hi'].
      rewrite Hsplit, Ht, split_ref_app by assumption. rewrite <- app_assoc. reflexivity.
Qed.
(* the pieces between the separators, in order (for the empty text the code answers the empty list) *)
Lemma spalte_spec t z : t <> [] -> Spalte t z = Ok (split_ref z t).
Proof.
  intros Hne. unfold Spalte.
  replace (len t =? 0) with false by (symmetry; apply Z.eqb_neq; intros H; apply len_zero_nil in H; contradiction).
  cbv zeta. pose proof (anzahl_nonneg t z) as Hn0.
  destruct (spalte_loop_inv z (length t + 2) t [] 1 (Text_Anzahl_Buchstabe t z + 1)) as (t' & endl' & i' & E & Hsplit & Hi').
  - reflexivity.
  - lia.
  - rewrite text_anzahl_buchstabe_spec. pose proof (count_occ_bound Z.eq_dec z t). lia.
  - rewrite E. cbn [bind]. rewrite Hi'. rewrite slice_to_in.
    + f_equal. rewrite to_nat_len, firstn_all. exact Hsplit.
    + rewrite len_app, len_cons, len_nil. pose proof (len_nonneg endl'). lia.
Qed.
Lemma spalte_leer z : Spalte [] z = Ok [].
Proof. reflexivity. Qed.

(* ---- reference functions (list library only) used by the full theorems of Lib/TextSearchProofs.v ---- *)
(* 1-based position of the first occurrence of s in t, -1 if there is none *)
Definition ref_index (t s : text) : Z :=
  match find (occ_b t s) (positions t s) with Some k => Z.of_nat k + 1 | None => -1 end.
(* the maximal runs of letters that are not in the set m *)
Fixpoint fields_ref (m : list Z) (t : text) (cur : text) : list text :=
  match t with
  | [] => if len cur =? 0 then [] else [rev cur]
  | c :: r => if existsb (fun x => x =? c) m
              then (if len cur =? 0 then [] else [rev cur]) ++ fields_ref m r []
              else fields_ref m r (c :: cur)
  end.
Lemma text_index_von_text_leer s : Text_Index_Von_Text [] s = Ok (-1).
Proof. reflexivity. Qed.
(* a separator of one letter is Spalte *)
Lemma spalte_text_einzeln t c : Spalte_Text t [c] = Spalte t c.
Proof. reflexivity. Qed.
