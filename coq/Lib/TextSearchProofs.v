(* C17 — full refinement proofs (loop invariants) for the searching text functions of Texte.ddp:
   Text_Index_Von_Text, Finde_Subtext, Spalte_Text, Spalten_Spaltmenge_Text (and its wrappers). *)
From Coq Require Import List ZArith Bool Lia.
From DDP Require Import Lib.Base Lib.BaseProofs Lib.ListFns Lib.ListProofs Lib.TextFns Lib.TextProofs.
Import ListNotations.
Open Scope Z_scope.

(* ---- positions (nth_error, 0-based) versus the 1-based checked reads of the model ---- *)
Lemma nth_error_skipn' {A} (l : list A) : forall n i, nth_error (skipn n l) i = nth_error l (n + i).
Proof. induction l as [|x l IH]; intros [|n] i; cbn [skipn Nat.add nth_error]; auto. destruct i; reflexivity. Qed.
Lemma nth_error_firstn' {A} (l : list A) : forall n i, (i < n)%nat -> nth_error (firstn n l) i = nth_error l i.
Proof.
  induction l as [|x l IH]; intros [|n] [|i] H; cbn [firstn nth_error]; auto; try lia. apply IH. lia.
Qed.
Lemma nth_error_firstn_none {A} (l : list A) n i : (n <= i)%nat -> nth_error (firstn n l) i = None.
Proof. intros H. apply nth_error_None. rewrite firstn_length. lia. Qed.

Lemma rd_iff {A} (l : list A) i x : rd l i = Ok x <-> (1 <= i /\ nth_error l (Z.to_nat (i - 1)) = Some x).
Proof.
  unfold rd. split.
  - destruct (1 <=? i) eqn:E1; cbn [andb]; [|discriminate]. destruct (i <=? len l); [|discriminate].
    destruct (nth_error l (Z.to_nat (i - 1))) as [y|] eqn:E; [|discriminate]. intros H. injection H as ->.
    split; [now apply Z.leb_le|reflexivity].
  - intros [H1 H2]. replace (1 <=? i) with true by (symmetry; apply Z.leb_le; lia).
    assert (Hlt : (Z.to_nat (i - 1) < length l)%nat) by (apply nth_error_Some; congruence).
    replace (i <=? len l) with true by (symmetry; apply Z.leb_le; unfold len; lia). cbn [andb]. now rewrite H2.
Qed.
Lemma rd_some {A} (l : list A) i : 1 <= i <= len l -> exists x, rd l i = Ok x /\ nth_error l (Z.to_nat (i - 1)) = Some x.
Proof. intros H. destruct (rd_in l i H) as (x & Hx). exists x. split; [exact Hx|]. now apply rd_iff in Hx. Qed.

Lemma skipn_cons_nth {A} (l : list A) j x : nth_error l j = Some x -> exists r, skipn j l = x :: r.
Proof.
  revert j. induction l as [|y l IH]; intros [|j] H; cbn in H; try discriminate.
  - injection H as ->. exists l. reflexivity.
  - cbn [skipn]. now apply IH.
Qed.

(* ---- occurrences ---- *)
Lemma occ_head t c1 s' j x : nth_error t j = Some x -> x <> c1 -> occ_b t (c1 :: s') j = false.
Proof.
  intros Hn Hx. destruct (occ_b t (c1 :: s') j) eqn:E; [|reflexivity]. unfold occ_b in E. apply text_eqb_spec in E.
  destruct (skipn_cons_nth t j x Hn) as (r & Hr). rewrite Hr in E. cbn [length firstn] in E. congruence.
Qed.
Lemma occ_second t c1 c2 s' j y : nth_error t (S j) = Some y -> y <> c2 -> occ_b t (c1 :: c2 :: s') j = false.
Proof.
  intros Hn Hy. destruct (occ_b t (c1 :: c2 :: s') j) eqn:E; [|reflexivity]. unfold occ_b in E. apply text_eqb_spec in E.
  destruct (skipn_cons_nth t (S j) y Hn) as (r & Hr). rewrite <- tl_skipn in Hr.
  destruct (skipn j t) as [|x rest]; [cbn in E; discriminate|]. cbn [tl] in Hr. subst rest. cbn [length firstn] in E. congruence.
Qed.
Lemma occ_none_past t s j : (length t < j + length s)%nat -> s <> [] -> occ_b t s j = false.
Proof.
  intros H Hs. destruct (occ_b t s j) eqn:E; [|reflexivity]. unfold occ_b in E. apply text_eqb_spec in E.
  apply (f_equal (@length Z)) in E. rewrite firstn_length, skipn_length in E. destruct s; [congruence|]. cbn [length] in *. lia.
Qed.

(* first occurrence: what `find` over the positions computes *)
Lemma find_first (f : nat -> bool) N : forall a,
  (forall j, (a <= j < a + N)%nat -> f j = false) -> find f (seq a N) = None.
Proof. induction N as [|N IH]; intros a H; cbn [seq find]; [reflexivity|]. rewrite (H a) by lia. apply IH. intros j Hj. apply H. lia. Qed.
Lemma find_first_some (f : nat -> bool) N : forall a k, (a <= k < a + N)%nat -> f k = true -> (forall j, (a <= j < k)%nat -> f j = false) ->
  find f (seq a N) = Some k.
Proof.
  induction N as [|N IH]; intros a k Hk Hf Hb; [lia|]. cbn [seq find].
  destruct (Nat.eq_dec a k) as [->|Hne]; [now rewrite Hf|].
  rewrite (Hb a) by lia. apply IH; [lia|exact Hf|]. intros j Hj. apply Hb. lia.
Qed.
Lemma ref_index_none t s : (forall j, (j < Z.to_nat (len t - len s + 1))%nat -> occ_b t s j = false) -> ref_index t s = -1.
Proof. intros H. unfold ref_index, positions. rewrite find_first; [reflexivity|]. intros j Hj. apply H. lia. Qed.
Lemma ref_index_some t s k : (k < Z.to_nat (len t - len s + 1))%nat -> occ_b t s k = true ->
  (forall j, (j < k)%nat -> occ_b t s j = false) -> ref_index t s = Z.of_nat k + 1.
Proof.
  intros Hk Hf Hb. unfold ref_index, positions. rewrite (find_first_some _ _ 0 k); [reflexivity|lia|exact Hf|].
  intros j Hj. apply Hb. lia.
Qed.

(* ---- Text_Index_Von_Text ---- *)
Section IndexLoop.
  Variables (t s' : text) (c1 c2 : Z).
  Let s := c1 :: c2 :: s'.
  Let n := len s.
  Let L := len t.
  Let tt := L - n + 1.
  Hypothesis Hlen : n < L.

  Lemma n_ge_2 : 2 <= n.
  Proof. unfold n, s. rewrite !len_cons. pose proof (len_nonneg s'). lia. Qed.

  (* the window searched for the first needle letter behind position i covers all later start positions *)
  Lemma window_slice i : 1 <= i <= tt ->
    exists m, slice t (i + 1) (i + tt) = Ok (firstn m (skipn (Z.to_nat i) t)) /\ (Z.to_nat (tt - i) <= m)%nat.
  Proof.
    intros Hi. pose proof n_ge_2 as Hn2. fold L in Hlen.
    rewrite slice_clamped by (fold L; lia). cbv zeta. fold L.
    rewrite (clampZ_id (i + 1)) by lia.
    pose proof (clampZ_range (i + tt) 1 L ltac:(lia)) as Hr.
    assert (Hb : i + 1 <= clampZ (i + tt) 1 L /\ tt <= clampZ (i + tt) 1 L).
    { destruct (Z_le_gt_dec (i + tt) L); [rewrite clampZ_id by lia|rewrite clampZ_high by lia]; unfold tt in *; lia. }
    replace (clampZ (i + tt) 1 L <? i + 1) with false by (symmetry; apply Z.ltb_ge; lia).
    replace (i + 1 - 1) with i by lia.
    eexists. split; [reflexivity|]. lia.
  Qed.

  Lemma index_text_loop_inv fuel : forall i, 1 <= i ->
    (forall j, (j < Z.to_nat (i - 1))%nat -> occ_b t s j = false) ->
    (Z.to_nat (tt - i + 1) < fuel)%nat ->
    exists r, index_text_loop fuel t s n c1 c2 tt i = Ok r /\
      ((r = -1 /\ forall j, (j < Z.to_nat tt)%nat -> occ_b t s j = false) \/
       (1 <= r <= tt /\ occ_b t s (Z.to_nat (r - 1)) = true /\ forall j, (j < Z.to_nat (r - 1))%nat -> occ_b t s j = false)).
  Proof.
    pose proof n_ge_2 as Hn2. fold L in Hlen.
    induction fuel as [|f IH]; intros i Hi Hinv Hf; [lia|].
    cbn [index_text_loop]. destruct (i <=? tt) eqn:Eit.
    2:{ apply Z.leb_gt in Eit. exists (-1). split; [reflexivity|]. left. split; [reflexivity|]. intros j Hj. apply Hinv. lia. }
    apply Z.leb_le in Eit.
    destruct (rd_some t i ltac:(fold L; unfold tt in *; lia)) as (x & Hx & Hxn). rewrite Hx. cbn [bind].
    (* the part after the (possible) jump, for a position i' whose letter is c1 *)
    assert (Hafter : forall i', i <= i' -> i' <= tt -> (forall j, (j < Z.to_nat (i' - 1))%nat -> occ_b t s j = false) ->
      exists r, (do y <- rd t (i' + 1);;
                 do hit <- (if y =? c2 then do sub <- slice t i' (i' + n - 1);; Ok (text_eqb sub s) else Ok false);;
                 if hit then Ok i' else index_text_loop f t s n c1 c2 tt (i' + 1)) = Ok r /\
        ((r = -1 /\ forall j, (j < Z.to_nat tt)%nat -> occ_b t s j = false) \/
         (1 <= r <= tt /\ occ_b t s (Z.to_nat (r - 1)) = true /\ forall j, (j < Z.to_nat (r - 1))%nat -> occ_b t s j = false))).
    { intros i' Hii' Hi't Hinv'.
      destruct (rd_some t (i' + 1) ltac:(fold L; unfold tt in *; lia)) as (y & Hy & Hyn). rewrite Hy. cbn [bind].
      replace (Z.to_nat (i' + 1 - 1)) with (S (Z.to_nat (i' - 1))) in Hyn by lia.
      assert (Hnext : occ_b t s (Z.to_nat (i' - 1)) = false ->
                exists r, index_text_loop f t s n c1 c2 tt (i' + 1) = Ok r /\
                 ((r = -1 /\ forall j, (j < Z.to_nat tt)%nat -> occ_b t s j = false) \/
                  (1 <= r <= tt /\ occ_b t s (Z.to_nat (r - 1)) = true /\ forall j, (j < Z.to_nat (r - 1))%nat -> occ_b t s j = false))).
      { intros Hno. apply IH; [lia| |lia]. intros j Hj.
        destruct (Nat.eq_dec j (Z.to_nat (i' - 1))) as [->|Hne]; [exact Hno|apply Hinv'; lia]. }
      destruct (y =? c2) eqn:Ey.
      - assert (Hsw : slice t i' (i' + n - 1) = Ok (firstn (length s) (skipn (Z.to_nat (i' - 1)) t))).
        { pose proof (slice_window t (i' - 1) n ltac:(lia) ltac:(lia) ltac:(fold L; unfold tt in *; lia)) as Hw.
          replace (i' - 1 + 1) with i' in Hw by lia. replace (i' - 1 + n) with (i' + n - 1) in Hw by lia.
          rewrite Hw. unfold n. now rewrite to_nat_len. }
        rewrite Hsw. cbn [bind].
        change (text_eqb (firstn (length s) (skipn (Z.to_nat (i' - 1)) t)) s) with (occ_b t s (Z.to_nat (i' - 1))).
        destruct (occ_b t s (Z.to_nat (i' - 1))) eqn:Eo.
        + exists i'. split; [reflexivity|]. right. split; [lia|]. split; [exact Eo|exact Hinv'].
        + now apply Hnext.
      - cbn [bind]. apply Hnext. apply Z.eqb_neq in Ey. unfold s. now apply (occ_second t c1 c2 s' _ y). }
    destruct (x =? c1) eqn:Ex; cbn [negb bind].
    - apply (Hafter i); [lia|exact Eit|exact Hinv].
    - apply Z.eqb_neq in Ex.
      assert (Hno_i : occ_b t s (Z.to_nat (i - 1)) = false) by (unfold s; now apply (occ_head t c1 _ _ x)).
      destruct (window_slice i ltac:(lia)) as (m & Hsl & Hm). rewrite Hsl. cbn [bind]. cbv zeta.
      set (sub := firstn m (skipn (Z.to_nat i) t)).
      assert (Hsub : forall q, (q < m)%nat -> nth_error sub q = nth_error t (Z.to_nat i + q)).
      { intros q Hq. unfold sub. rewrite nth_error_firstn' by exact Hq. apply nth_error_skipn'. }
      unfold Text_Index_Von_Buchstabe.
      destruct (text_index_von_buchstabe_spec sub c1) as [[Ho Hnot]|(pre & suf & Hdec & Hnot & Ho)]; rewrite Ho.
      + (* the first needle letter does not occur behind i any more *)
        change (-1 <? 0) with true. cbn [bind]. exists (-1). split; [reflexivity|]. left. split; [reflexivity|]. intros j Hj.
        destruct (Nat.lt_ge_cases j (Z.to_nat (i - 1))) as [Hlt|Hge]; [now apply Hinv|].
        destruct (Nat.eq_dec j (Z.to_nat (i - 1))) as [->|Hne]; [exact Hno_i|].
        assert (Hq : (j - Z.to_nat i < m)%nat) by lia.
        destruct (nth_error t j) as [z|] eqn:Ez.
        * unfold s. apply (occ_head t c1 _ j z Ez). intros ->. apply Hnot.
          apply (nth_error_In sub (j - Z.to_nat i)). rewrite Hsub by exact Hq. rewrite <- Ez. f_equal. lia.
        * apply nth_error_None in Ez. apply occ_none_past; [unfold s; cbn [length]; lia|discriminate].
      + pose proof (len_nonneg pre) as Hp.
        replace (len pre + 1 <? 0) with false by (symmetry; apply Z.ltb_ge; lia).
        (* positions i .. i + len pre - 1 (1-based) carry no occurrence *)
        assert (Hlp : (length pre < length sub)%nat) by (rewrite Hdec, app_length; cbn [length]; lia).
        assert (Hlsub : (length sub <= m)%nat) by (unfold sub; rewrite firstn_length; lia).
        assert (Hskip : forall j, (j < Z.to_nat (i + (len pre + 1) - 1))%nat -> occ_b t s j = false).
        { intros j Hj.
          destruct (Nat.lt_ge_cases j (Z.to_nat (i - 1))) as [Hlt|Hge]; [now apply Hinv|].
          destruct (Nat.eq_dec j (Z.to_nat (i - 1))) as [->|Hne]; [exact Hno_i|].
          assert (Hq : (j - Z.to_nat i < length pre)%nat) by (unfold len in *; lia).
          assert (Hz : nth_error t j = nth_error pre (j - Z.to_nat i)).
          { replace j with (Z.to_nat i + (j - Z.to_nat i))%nat at 1 by lia. rewrite <- Hsub by lia.
            rewrite Hdec. now apply nth_error_app1. }
          destruct (nth_error pre (j - Z.to_nat i)) as [z|] eqn:Ez; [|apply nth_error_None in Ez; lia].
          unfold s. apply (occ_head t c1 _ j z Hz). intros ->. apply Hnot. now apply (nth_error_In pre (j - Z.to_nat i)). }
        destruct (i + (len pre + 1) >? tt) eqn:Egt; rewrite Z.gtb_ltb in Egt.
        * apply Z.ltb_lt in Egt. exists (-1). split; [reflexivity|]. left. split; [reflexivity|]. intros j Hj. apply Hskip. lia.
        * apply Z.ltb_ge in Egt. cbn [bind]. apply Hafter; [lia|exact Egt|exact Hskip].
  Qed.
End IndexLoop.

Lemma occ_single t c j : occ_b t [c] j = match nth_error t j with Some x => x =? c | None => false end.
Proof.
  unfold occ_b. cbn [length]. destruct (nth_error t j) as [x|] eqn:E.
  - destruct (skipn_cons_nth t j x E) as (r & ->). cbn [firstn text_eqb]. now rewrite andb_true_r.
  - apply nth_error_None in E. rewrite skipn_all2 by lia. reflexivity.
Qed.

(* the 1-based index of the first occurrence of the needle, -1 if there is none; never a Laufzeitfehler *)
Theorem text_index_von_text_spec t s : s <> [] -> Text_Index_Von_Text t s = Ok (ref_index t s).
Proof.
  intros Hs. unfold Text_Index_Von_Text. cbv zeta.
  pose proof (len_nonneg t) as HLt.
  assert (Hls : 0 < len s) by (destruct s; [congruence|rewrite len_cons; pose proof (len_nonneg s); lia]).
  destruct (len t =? 0) eqn:E0.
  { apply Z.eqb_eq in E0. f_equal. symmetry. apply ref_index_none. intros j Hj. lia. }
  apply Z.eqb_neq in E0.
  replace (len s =? 0) with false by (symmetry; apply Z.eqb_neq; lia).
  destruct (len s =? 1) eqn:E1.
  { (* one letter *)
    apply Z.eqb_eq in E1. destruct s as [|c [|c' s'']]; [congruence| |rewrite !len_cons in E1; pose proof (len_nonneg s''); lia].
    rewrite rd_cons_1. cbn [bind]. f_equal.
    destruct (text_index_von_buchstabe_spec t c) as [[Hr Hnot]|(pre & suf & Hdec & Hnot & Hr)]; rewrite Hr; symmetry.
    - apply ref_index_none. intros j Hj. rewrite occ_single. destruct (nth_error t j) as [x|] eqn:E; [|reflexivity].
      apply Z.eqb_neq. intros ->. apply Hnot. now apply (nth_error_In t j).
    - replace (len pre + 1) with (Z.of_nat (length pre) + 1) by reflexivity. apply ref_index_some.
      + rewrite Hdec, len_app, !len_cons, len_nil. unfold len. lia.
      + rewrite occ_single, Hdec, nth_error_mid. apply Z.eqb_refl.
      + intros j Hj. rewrite occ_single, Hdec, nth_error_app1 by exact Hj.
        destruct (nth_error pre j) as [x|] eqn:E; [|reflexivity]. apply Z.eqb_neq. intros ->. apply Hnot. now apply (nth_error_In pre j). }
  apply Z.eqb_neq in E1.
  destruct (len s =? len t) eqn:E2.
  { apply Z.eqb_eq in E2.
    assert (Ho : occ_b t s 0 = text_eqb s t).
    { unfold occ_b. cbn [skipn]. replace (length s) with (length t) by (unfold len in E2; lia). rewrite firstn_all.
      destruct (text_eqb t s) eqn:Ea, (text_eqb s t) eqn:Eb; try reflexivity.
      - apply text_eqb_spec in Ea. subst. now rewrite text_eqb_refl in Eb.
      - apply text_eqb_spec in Eb. subst. now rewrite text_eqb_refl in Ea. }
    destruct (text_eqb s t) eqn:Eq; f_equal; symmetry.
    - change 1 with (Z.of_nat 0 + 1). apply ref_index_some; [lia|now rewrite Ho|intros j Hj; lia].
    - apply ref_index_none. intros j Hj. assert (j = 0%nat) by lia. subst j. now rewrite Ho. }
  apply Z.eqb_neq in E2.
  destruct (len s >? len t) eqn:E3; rewrite Z.gtb_ltb in E3.
  { apply Z.ltb_lt in E3. f_equal. symmetry. apply ref_index_none. intros j Hj. lia. }
  apply Z.ltb_ge in E3.
  destruct s as [|c1 [|c2 s']]; [congruence|rewrite len_cons, len_nil in E1; lia|].
  rewrite rd_cons_1. cbn [bind]. replace 2 with (1 + 1) by lia. rewrite rd_cons_S by lia. rewrite rd_cons_1. cbn [bind].
  destruct (index_text_loop_inv t s' c1 c2 ltac:(lia) (length t + 1) 1 ltac:(lia)) as (r & Hr & Hc).
  - intros j Hj. cbn in Hj. lia.
  - rewrite !len_cons. pose proof (len_nonneg s'). unfold len in *. lia.
  - rewrite Hr. f_equal. destruct Hc as [[-> Hnone]|(Hrange & Hocc & Hbefore)]; symmetry.
    + apply ref_index_none. exact Hnone.
    + replace r with (Z.of_nat (Z.to_nat (r - 1)) + 1) at 1 by lia. apply ref_index_some; [lia|exact Hocc|exact Hbefore].
Qed.

(* ---- facts about ref_index ---- *)
Lemma ref_index_cases t s : s <> [] ->
  (ref_index t s = -1 /\ forall j, occ_b t s j = false) \/
  (exists k, ref_index t s = Z.of_nat k + 1 /\ (k + length s <= length t)%nat /\ occ_b t s k = true /\ forall j, (j < k)%nat -> occ_b t s j = false).
Proof.
  intros Hs. unfold ref_index, positions.
  destruct (find (occ_b t s) (seq 0 (Z.to_nat (len t - len s + 1)))) as [k|] eqn:E.
  - right. exists k. pose proof (find_some _ _ E) as [Hin Hocc]. apply in_seq in Hin.
    split; [reflexivity|]. split; [unfold len in Hin; lia|]. split; [exact Hocc|].
    intros j Hj. clear Hin Hocc.
    assert (Hgen : forall N a, find (occ_b t s) (seq a N) = Some k -> (a <= j)%nat -> occ_b t s j = false).
    { induction N as [|N IH]; intros a Ef Haj; cbn [seq find] in Ef; [discriminate|].
      destruct (occ_b t s a) eqn:Ea.
      - injection Ef as <-. lia.
      - destruct (Nat.eq_dec j a) as [->|Hne]; [exact Ea|]. apply (IH (S a)); [exact Ef|lia]. }
    apply (Hgen _ 0%nat E). lia.
  - left. split; [reflexivity|]. intros j.
    destruct (Nat.lt_ge_cases j (Z.to_nat (len t - len s + 1))) as [Hlt|Hge].
    + apply (find_none _ _ E). apply in_seq. lia.
    + apply occ_none_past; [unfold len in Hge; lia|exact Hs].
Qed.
