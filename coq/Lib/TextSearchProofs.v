(* C17 — full refinement proofs (loop invariants) for the searching text functions of Texte.ddp:
   Text_Index_Von_Text, Finde_Subtext, Spalte_Text, Spalten_Spaltmenge_Text (and its wrappers). *)
From Coq Require Import List ZArith Bool Lia.
From DDP Require Import Lib.Base Lib.BaseProofs Lib.ListFns Lib.ListProofs Lib.TextFns Lib.TextProofs.
Import ListNotations.
Open Scope Z_scope.

(* ---- positions (nth_error, 0-based) versus the 1-based checked reads of the model ---- *)
Lemma nth_error_skipn' {A} (l : list A) : forall n i, nth_error (skipn n l) i = nth_error l (n + i).
Proof. induction l as [|x l IH]; intros [|n] i; cbn [skipn Nat.add nth_error]; auto. destruct i; reflexivity. Qed.
Lemma nth_error_firstn' {A} (l : list A) : forall n i, (i < n)%nat -> nth_error (firstn n l) i = nth_error l i.
Proof.
  induction l as [|x l IH]; intros [|n] [|i] H; cbn [firstn nth_error]; auto; try lia. apply IH. lia.
Qed.
Lemma nth_error_firstn_none {A} (l : list A) n i : (n <= i)%nat -> nth_error (firstn n l) i = None.
Proof. intros H. apply nth_error_None. rewrite firstn_length. lia. Qed.

Lemma rd_iff {A} (l : list A) i x : rd l i = Ok x <-> (1 <= i /\ nth_error l (Z.to_nat (i - 1)) = Some x).
Proof.
  unfold rd. split.
  - destruct (1 <=? i) eqn:E1; cbn [andb]; [|discriminate]. destruct (i <=? len l); [|discriminate].
    destruct (nth_error l (Z.to_nat (i - 1))) as [y|] eqn:E; [|discriminate]. intros H. injection H as ->.
    split; [now apply Z.leb_le|reflexivity].
  - intros [H1 H2]. replace (1 <=? i) with true by (symmetry; apply Z.leb_le; lia).
    assert (Hlt : (Z.to_nat (i - 1) < length l)%nat) by (apply nth_error_Some; congruence).
    replace (i <=? len l) with true by (symmetry; apply Z.leb_le; unfold len; lia). cbn [andb]. now rewrite H2.
Qed.
Lemma rd_some {A} (l : list A) i : 1 <= i <= len l -> exists x, rd l i = Ok x /\ nth_error l (Z.to_nat (i - 1)) = Some x.
Proof. intros H. destruct (rd_in l i H) as (x & Hx). exists x. split; [exact Hx|]. now apply rd_iff in Hx. Qed.

Lemma skipn_cons_nth {A} (l : list A) j x : nth_error l j = Some x -> exists r, skipn j l = x :: r.
Proof.
  revert j. induction l as [|y l IH]; intros [|j] H; cbn in H; try discriminate.
  - injection H as ->. exists l. reflexivity.
  - cbn [skipn]. now apply IH.
Qed.

(* ---- occurrences ---- *)
Lemma occ_head t c1 s' j x : nth_error t j = Some x -> x <> c1 -> occ_b t (c1 :: s') j = false.
Proof.
  intros Hn Hx. destruct (occ_b t (c1 :: s') j) eqn:E; [|reflexivity]. unfold occ_b in E. apply text_eqb_spec in E.
  destruct (skipn_cons_nth t j x Hn) as (r & Hr). rewrite Hr in E. cbn [length firstn] in E. congruence.
Qed.
Lemma occ_second t c1 c2 s' j y : nth_error t (S j) = Some y -> y <> c2 -> occ_b t (c1 :: c2 :: s') j = false.
Proof.
  intros Hn Hy. destruct (occ_b t (c1 :: c2 :: s') j) eqn:E; [|reflexivity]. unfold occ_b in E. apply text_eqb_spec in E.
  destruct (skipn_cons_nth t (S j) y Hn) as (r & Hr). rewrite <- tl_skipn in Hr.
  destruct (skipn j t) as [|x rest]; [cbn in E; discriminate|]. cbn [tl] in Hr. subst rest. cbn [length firstn] in E. congruence.
Qed.
Lemma occ_none_past t s j : (length t < j + length s)%nat -> s <> [] -> occ_b t s j = false.
Proof.
  intros H Hs. destruct (occ_b t s j) eqn:E; [|reflexivity]. unfold occ_b in E. apply text_eqb_spec in E.
  apply (f_equal (@length Z)) in E. rewrite firstn_length, skipn_length in E. destruct s; [congruence|]. cbn [length] in *. lia.
Qed.

(* first occurrence: what `find` over the positions computes *)
Lemma find_first (f : nat -> bool) N : forall a,
  (forall j, (a <= j < a + N)%nat -> f j = false) -> find f (seq a N) = None.
Proof. induction N as [|N IH]; intros a H; cbn [seq find]; [reflexivity|]. rewrite (H a) by lia. apply IH. intros j Hj. apply H. lia. Qed.
Lemma find_first_some (f : nat -> bool) N : forall a k, (a <= k < a + N)%nat -> f k = true -> (forall j, (a <= j < k)%nat -> f j = false) ->
  find f (seq a N) = Some k.
Proof.
  induction N as [|N IH]; intros a k Hk Hf Hb; [lia|]. cbn [seq find].
  destruct (Nat.eq_dec a k) as [->|Hne]; [now rewrite Hf|].
  rewrite (Hb a) by lia. apply IH; [lia|exact Hf|]. intros j Hj. apply Hb. lia.
Qed.
Lemma ref_index_none t s : (forall j, (j < Z.to_nat (len t - len s + 1))%nat -> occ_b t s j = false) -> ref_index t s = -1.
Proof. intros H. unfold ref_index, positions. rewrite find_first; [reflexivity|]. intros j Hj. apply H. lia. Qed.
Lemma ref_index_some t s k : (k < Z.to_nat (len t - len s + 1))%nat -> occ_b t s k = true ->
  (forall j, (j < k)%nat -> occ_b t s j = false) -> ref_index t s = Z.of_nat k + 1.
Proof.
  intros Hk Hf Hb. unfold ref_index, positions. rewrite (find_first_some _ _ 0 k); [reflexivity|lia|exact Hf|].
  intros j Hj. apply Hb. lia.
Qed.

(* ---- Text_Index_Von_Text ---- *)
Section IndexLoop.
  Variables (t s' : text) (c1 c2 : Z).
  Let s := c1 :: c2 :: s'.
  Let n := len s.
  Let L := len t.
  Let tt := L - n + 1.
  Hypothesis Hlen : n < L.

  Lemma n_ge_2 : 2 <= n.
  Proof. unfold n, s. rewrite !len_cons. pose proof (len_nonneg s'). lia. Qed.

  (* the window searched for the first needle letter behind position i covers all later start positions *)
  Lemma window_slice i : 1 <= i <= tt ->
    exists m, slice t (i + 1) (i + tt) = Ok (firstn m (skipn (Z.to_nat i) t)) /\ (Z.to_nat (tt - i) <= m)%nat.
  Proof.
    intros Hi. pose proof n_ge_2 as Hn2. fold L in Hlen.
    rewrite slice_clamped by (fold L; lia). cbv zeta. fold L.
    rewrite (clampZ_id (i + 1)) by lia.
    pose proof (clampZ_range (i + tt) 1 L ltac:(lia)) as Hr.
    assert (Hb : i + 1 <= clampZ (i + tt) 1 L /\ tt <= clampZ (i + tt) 1 L).
    { destruct (Z_le_gt_dec (i + tt) L); [rewrite clampZ_id by lia|rewrite clampZ_high by lia]; unfold tt in *; lia. }
    replace (clampZ (i + tt) 1 L <? i + 1) with false by (symmetry; apply Z.ltb_ge; lia).
    replace (i + 1 - 1) with i by lia.
    eexists. split; [reflexivity|]. lia.
  Qed.

  Lemma index_text_loop_inv fuel : forall i, 1 <= i ->
    (forall j, (j < Z.to_nat (i - 1))%nat -> occ_b t s j = false) ->
    (Z.to_nat (tt - i + 1) < fuel)%nat ->
    exists r, index_text_loop fuel t s n c1 c2 tt i = Ok r /\
      ((r = -1 /\ forall j, (j < Z.to_nat tt)%nat -> occ_b t s j = false) \/
       (1 <= r <= tt /\ occ_b t s (Z.to_nat (r - 1)) = true /\ forall j, (j < Z.to_nat (r - 1))%nat -> occ_b t s j = false)).
  Proof.
    pose proof n_ge_2 as Hn2. fold L in Hlen.
    induction fuel as [|f IH]; intros i Hi Hinv Hf; [lia|].
    cbn [index_text_loop]. destruct (i <=? tt) eqn:Eit.
    2:{ apply Z.leb_gt in Eit. exists (-1). split; [reflexivity|]. left. split; [reflexivity|]. intros j Hj. apply Hinv. lia. }
    apply Z.leb_le in Eit.
    destruct (rd_some t i ltac:(fold L; unfold tt in *; lia)) as (x & Hx & Hxn). rewrite Hx. cbn [bind].
    (* the part after the (possible) jump, for a position i' whose letter is c1 *)
    assert (Hafter : forall i', i <= i' -> i' <= tt -> (forall j, (j < Z.to_nat (i' - 1))%nat -> occ_b t s j = false) ->
      exists r, (do y <- rd t (i' + 1);;
                 do hit <- (if y =? c2 then do sub <- slice t i' (i' + n - 1);; Ok (text_eqb sub s) else Ok false);;
                 if hit then Ok i' else index_text_loop f t s n c1 c2 tt (i' + 1)) = Ok r /\
        ((r = -1 /\ forall j, (j < Z.to_nat tt)%nat -> occ_b t s j = false) \/
         (1 <= r <= tt /\ occ_b t s (Z.to_nat (r - 1)) = true /\ forall j, (j < Z.to_nat (r - 1))%nat -> occ_b t s j = false))).
    { intros i' Hii' Hi't Hinv'.
      destruct (rd_some t (i' + 1) ltac:(fold L; unfold tt in *; lia)) as (y & Hy & Hyn). rewrite Hy. cbn [bind].
      replace (Z.to_nat (i' + 1 - 1)) with (S (Z.to_nat (i' - 1))) in Hyn by lia.
      assert (Hnext : occ_b t s (Z.to_nat (i' - 1)) = false ->
                exists r, index_text_loop f t s n c1 c2 tt (i' + 1) = Ok r /\
                 ((r = -1 /\ forall j, (j < Z.to_nat tt)%nat -> occ_b t s j = false) \/
                  (1 <= r <= tt /\ occ_b t s (Z.to_nat (r - 1)) = true /\ forall j, (j < Z.to_nat (r - 1))%nat -> occ_b t s j = false))).
      { intros Hno. apply IH; [lia| |lia]. intros j Hj.
        destruct (Nat.eq_dec j (Z.to_nat (i' - 1))) as [->|Hne]; [exact Hno|apply Hinv'; lia]. }
      destruct (y =? c2) eqn:Ey.
      - assert (Hsw : slice t i' (i' + n - 1) = Ok (firstn (length s) (skipn (Z.to_nat (i' - 1)) t))).
        { pose proof (slice_window t (i' - 1) n ltac:(lia) ltac:(lia) ltac:(fold L; unfold tt in *; lia)) as Hw.
          replace (i' - 1 + 1) with i' in Hw by lia. replace (i' - 1 + n) with (i' + n - 1) in Hw by lia.
          rewrite Hw. unfold n. now rewrite to_nat_len. }
        rewrite Hsw. cbn [bind].
        change (text_eqb (firstn (length s) (skipn (Z.to_nat (i' - 1)) t)) s) with (occ_b t s (Z.to_nat (i' - 1))).
        destruct (occ_b t s (Z.to_nat (i' - 1))) eqn:Eo.
        + exists i'. split; [reflexivity|]. right. split; [lia|]. split; [exact Eo|exact Hinv'].
        + now apply Hnext.
      - cbn [bind]. apply Hnext. apply Z.eqb_neq in Ey. unfold s. now apply (occ_second t c1 c2 s' _ y). }
    destruct (x =? c1) eqn:Ex; cbn [negb bind].
    - apply (Hafter i); [lia|exact Eit|exact Hinv].
    - apply Z.eqb_neq in Ex.
      assert (Hno_i : occ_b t s (Z.to_nat (i - 1)) = false) by (unfold s; now apply (occ_head t c1 _ _ x)).
      destruct (window_slice i ltac:(lia)) as (m & Hsl & Hm). rewrite Hsl. cbn [bind]. cbv zeta.
      set (sub := firstn m (skipn (Z.to_nat i) t)).
      assert (Hsub : forall q, (q < m)%nat -> nth_error sub q = nth_error t (Z.to_nat i + q)).
      { intros q Hq. unfold sub. rewrite nth_error_firstn' by exact Hq. apply nth_error_skipn'. }
      unfold Text_Index_Von_Buchstabe.
      destruct (text_index_von_buchstabe_spec sub c1) as [[Ho Hnot]|(pre & suf & Hdec & Hnot & Ho)]; rewrite Ho.
      + (* the first needle letter does not occur behind i any more *)
        change (-1 <? 0) with true. cbn [bind]. exists (-1). split; [reflexivity|]. left. split; [reflexivity|]. intros j Hj.
        destruct (Nat.lt_ge_cases j (Z.to_nat (i - 1))) as [Hlt|Hge]; [now apply Hinv|].
        destruct (Nat.eq_dec j (Z.to_nat (i - 1))) as [->|Hne]; [exact Hno_i|].
        assert (Hq : (j - Z.to_nat i < m)%nat) by lia.
        destruct (nth_error t j) as [z|] eqn:Ez.
        * unfold s. apply (occ_head t c1 _ j z Ez). intros ->. apply Hnot.
          apply (nth_error_In sub (j - Z.to_nat i)). rewrite Hsub by exact Hq. rewrite <- Ez. f_equal. lia.
        * apply nth_error_None in Ez. apply occ_none_past; [unfold s; cbn [length]; lia|discriminate].
      + pose proof (len_nonneg pre) as Hp.
        replace (len pre + 1 <? 0) with false by (symmetry; apply Z.ltb_ge; lia).
        (* positions i .. i + len pre - 1 (1-based) carry no occurrence *)
        assert (Hlp : (length pre < length sub)%nat) by (rewrite Hdec, app_length; cbn [length]; lia).
        assert (Hlsub : (length sub <= m)%nat) by (unfold sub; rewrite firstn_length; lia).
        assert (Hskip : forall j, (j < Z.to_nat (i + (len pre + 1) - 1))%nat -> occ_b t s j = false).
        { intros j Hj.
          destruct (Nat.lt_ge_cases j (Z.to_nat (i - 1))) as [Hlt|Hge]; [now apply Hinv|].
          destruct (Nat.eq_dec j (Z.to_nat (i - 1))) as [->|Hne]; [exact Hno_i|].
          assert (Hq : (j - Z.to_nat i < length pre)%nat) by (unfold len in *; lia).
          assert (Hz : nth_error t j = nth_error pre (j - Z.to_nat i)).
          { replace j with (Z.to_nat i + (j - Z.to_nat i))%nat at 1 by lia. rewrite <- Hsub by lia.
            rewrite Hdec. now apply nth_error_app1. }
          destruct (nth_error pre (j - Z.to_nat i)) as [z|] eqn:Ez; [|apply nth_error_None in Ez; lia].
          unfold s. apply (occ_head t c1 _ j z Hz). intros ->. apply Hnot. now apply (nth_error_In pre (j - Z.to_nat i)). }
        destruct (i + (len pre + 1) >? tt) eqn:Egt; rewrite Z.gtb_ltb in Egt.
        * apply Z.ltb_lt in Egt. exists (-1). split; [reflexivity|]. left. split; [reflexivity|]. intros j Hj. apply Hskip. lia.
        * apply Z.ltb_ge in Egt. cbn [bind]. apply Hafter; [lia|exact Egt|exact Hskip].
  Qed.
End IndexLoop.

Lemma occ_single t c j : occ_b t [c] j = match nth_error t j with Some x => x =? c | None => false end.
Proof.
  unfold occ_b. cbn [length]. destruct (nth_error t j) as [x|] eqn:E.
  - destruct (skipn_cons_nth t j x E) as (r & ->). cbn [firstn text_eqb]. now rewrite andb_true_r.
  - apply nth_error_None in E. rewrite skipn_all2 by lia. reflexivity.
Qed.

(* the 1-based index of the first occurrence of the needle, -1 if there is none; never a Laufzeitfehler *)
Theorem text_index_von_text_spec t s : s <> [] -> Text_Index_Von_Text t s = Ok (ref_index t s).
Proof.
  intros Hs. unfold Text_Index_Von_Text. cbv zeta.
  pose proof (len_nonneg t) as HLt.
  assert (Hls : 0 < len s) by (destruct s; [congruence|rewrite len_cons; pose proof (len_nonneg s); lia]).
  destruct (len t =? 0) eqn:E0.
  { apply Z.eqb_eq in E0. f_equal. symmetry. apply ref_index_none. intros j Hj. lia. }
  apply Z.eqb_neq in E0.
  replace (len s =? 0) with false by (symmetry; apply Z.eqb_neq; lia).
  destruct (len s =? 1) eqn:E1.
  { (* one letter *)
    apply Z.eqb_eq in E1. destruct s as [|c [|c' s'']]; [congruence| |rewrite !len_cons in E1; pose proof (len_nonneg s''); lia].
    rewrite rd_cons_1. cbn [bind]. f_equal.
    destruct (text_index_von_buchstabe_spec t c) as [[Hr Hnot]|(pre & suf & Hdec & Hnot & Hr)]; rewrite Hr; symmetry.
    - apply ref_index_none. intros j Hj. rewrite occ_single. destruct (nth_error t j) as [x|] eqn:E; [|reflexivity].
      apply Z.eqb_neq. intros ->. apply Hnot. now apply (nth_error_In t j).
    - replace (len pre + 1) with (Z.of_nat (length pre) + 1) by reflexivity. apply ref_index_some.
      + rewrite Hdec, len_app, !len_cons, len_nil. unfold len. lia.
      + rewrite occ_single, Hdec, nth_error_mid. apply Z.eqb_refl.
      + intros j Hj. rewrite occ_single, Hdec, nth_error_app1 by exact Hj.
        destruct (nth_error pre j) as [x|] eqn:E; [|reflexivity]. apply Z.eqb_neq. intros ->. apply Hnot. now apply (nth_error_In pre j). }
  apply Z.eqb_neq in E1.
  destruct (len s =? len t) eqn:E2.
  { apply Z.eqb_eq in E2.
    assert (Ho : occ_b t s 0 = text_eqb s t).
    { unfold occ_b. cbn [skipn]. replace (length s) with (length t) by (unfold len in E2; lia). rewrite firstn_all.
      destruct (text_eqb t s) eqn:Ea, (text_eqb s t) eqn:Eb; try reflexivity.
      - apply text_eqb_spec in Ea. subst. now rewrite text_eqb_refl in Eb.
      - apply text_eqb_spec in Eb. subst. now rewrite text_eqb_refl in Ea. }
    destruct (text_eqb s t) eqn:Eq; f_equal; symmetry.
    - change 1 with (Z.of_nat 0 + 1). apply ref_index_some; [lia|now rewrite Ho|intros j Hj; lia].
    - apply ref_index_none. intros j Hj. assert (j = 0%nat) by lia. subst j. now rewrite Ho. }
  apply Z.eqb_neq in E2.
  destruct (len s >? len t) eqn:E3; rewrite Z.gtb_ltb in E3.
  { apply Z.ltb_lt in E3. f_equal. symmetry. apply ref_index_none. intros j Hj. lia. }
  apply Z.ltb_ge in E3.
  destruct s as [|c1 [|c2 s']]; [congruence|rewrite len_cons, len_nil in E1; lia|].
  rewrite rd_cons_1. cbn [bind]. replace 2 with (1 + 1) by lia. rewrite rd_cons_S by lia. rewrite rd_cons_1. cbn [bind].
  destruct (index_text_loop_inv t s' c1 c2 ltac:(lia) (length t + 1) 1 ltac:(lia)) as (r & Hr & Hc).
  - intros j Hj. cbn in Hj. lia.
  - rewrite !len_cons. pose proof (len_nonneg s'). unfold len in *. lia.
  - rewrite Hr. f_equal. destruct Hc as [[-> Hnone]|(Hrange & Hocc & Hbefore)]; symmetry.
    + apply ref_index_none. exact Hnone.
    + replace r with (Z.of_nat (Z.to_nat (r - 1)) + 1) at 1 by lia. apply ref_index_some; [lia|exact Hocc|exact Hbefore].
Qed.

(* ---- facts about ref_index ---- *)
Lemma ref_index_cases t s : s <> [] ->
  (ref_index t s = -1 /\ forall j, occ_b t s j = false) \/
  (exists k, ref_index t s = Z.of_nat k + 1 /\ (k + length s <= length t)%nat /\ occ_b t s k = true /\ forall j, (j < k)%nat -> occ_b t s j = false).
Proof.
  intros Hs. unfold ref_index, positions.
  destruct (find (occ_b t s) (seq 0 (Z.to_nat (len t - len s + 1)))) as [k|] eqn:E.
  - right. exists k. pose proof (find_some _ _ E) as [Hin Hocc]. apply in_seq in Hin.
    split; [reflexivity|]. split; [unfold len in Hin; lia|]. split; [exact Hocc|].
    intros j Hj. clear Hin Hocc.
    assert (Hgen : forall N a, find (occ_b t s) (seq a N) = Some k -> (a <= j)%nat -> occ_b t s j = false).
    { induction N as [|N IH]; intros a Ef Haj; cbn [seq find] in Ef; [discriminate|].
      destruct (occ_b t s a) eqn:Ea.
      - injection Ef as <-. lia.
      - destruct (Nat.eq_dec j a) as [->|Hne]; [exact Ea|]. apply (IH (S a)); [exact Ef|lia]. }
    apply (Hgen _ 0%nat E). lia.
  - left. split; [reflexivity|]. intros j.
    destruct (Nat.lt_ge_cases j (Z.to_nat (len t - len s + 1))) as [Hlt|Hge].
    + apply (find_none _ _ E). apply in_seq. lia.
    + apply occ_none_past; [unfold len in Hge; lia|exact Hs].
Qed.

(* ---- the counting reference of Text_Anzahl_Text_Nicht_Überlappend, stepped to the first occurrence ---- *)
Lemma occ_tl t s j : occ_b (tl t) s j = occ_b t s (S j).
Proof. unfold occ_b. destruct t as [|c r]; cbn [tl skipn]; [now rewrite skipn_nil|reflexivity]. Qed.
Lemma occ_length t s k : s <> [] -> occ_b t s k = true -> (k + length s <= length t)%nat.
Proof.
  intros Hs H. assert (0 < length s)%nat by (destruct s; [congruence|cbn; lia]). unfold occ_b in H. apply text_eqb_spec in H. apply (f_equal (@length Z)) in H.
  rewrite firstn_length, skipn_length in H. lia.
Qed.
Lemma nonoverlap_steps s : s <> [] -> forall k F t, occ_b t s k = true -> (forall j, (j < k)%nat -> occ_b t s j = false) -> (k < F)%nat ->
  nonoverlap_ref F s t = 1 + nonoverlap_ref (F - k - 1) s (skipn (k + length s) t).
Proof.
  intros Hs. induction k as [|k IH]; intros F t Hocc Hno HF; (destruct F as [|f]; [lia|]); cbn [nonoverlap_ref];
    pose proof (occ_length t s _ Hs Hocc) as Hl.
  - replace (length t <? length s)%nat with false by (symmetry; apply Nat.ltb_ge; lia).
    change (text_eqb (firstn (length s) t) s) with (occ_b t s 0). rewrite Hocc.
    replace (S f - 0 - 1)%nat with f by lia. reflexivity.
  - replace (length t <? length s)%nat with false by (symmetry; apply Nat.ltb_ge; lia).
    change (text_eqb (firstn (length s) t) s) with (occ_b t s 0). rewrite (Hno 0%nat) by lia.
    rewrite (IH f (tl t)).
    + replace (S f - S k - 1)%nat with (f - k - 1)%nat by lia. do 2 f_equal.
      destruct t as [|c r]; [cbn in Hl; destruct s; [congruence|cbn in Hl; lia]|reflexivity].
    + now rewrite occ_tl.
    + intros j Hj. rewrite occ_tl. apply Hno. lia.
    + lia.
Qed.
Lemma nonoverlap_none s : forall F t, (forall j, occ_b t s j = false) -> nonoverlap_ref F s t = 0.
Proof.
  induction F as [|f IH]; intros t Hno; cbn [nonoverlap_ref]; [reflexivity|].
  destruct (length t <? length s)%nat; [reflexivity|].
  change (text_eqb (firstn (length s) t) s) with (occ_b t s 0). rewrite Hno.
  apply IH. intros j. rewrite occ_tl. apply Hno.
Qed.
Lemma nonoverlap_nonneg s : forall F t, 0 <= nonoverlap_ref F s t.
Proof.
  induction F as [|f IH]; intros t; cbn [nonoverlap_ref]; [lia|].
  destruct (length t <? length s)%nat; [lia|]. destruct (text_eqb (firstn (length s) t) s); [pose proof (IH (skipn (length s) t))|apply IH]; lia.
Qed.

(* ---- Spalte_Text: cut at the first occurrence of the separator text, continue behind it ---- *)
Fixpoint split_iter (fuel : nat) (s t : text) : list text :=
  match fuel with
  | O => [t]
  | S f =>
      let i := ref_index t s in
      if i =? -1 then [t]
      else firstn (Z.to_nat (i - 1)) t :: split_iter f s (skipn (Z.to_nat (i - 1) + length s) t)
  end.

Lemma spalte_text_loop_inv s n fuel : 1 < len s -> forall t endl i G C,
  i = len endl + 1 -> (length t < C)%nat -> nonoverlap_ref C s t <= n - i -> (length t < G)%nat -> (length t < fuel)%nat ->
  exists t' endl' i',
    spalte_loop fuel (fun t => Text_Index_Von_Text t s) (fun endIndex t => endIndex + len s >? len t) (len s) t endl i n = Ok (t', endl', i') /\
    endl' ++ [t'] = endl ++ split_iter G s t /\ i' = len (endl' ++ [t']).
Proof.
  intros Hls. assert (Hs : s <> []) by (intros ->; cbn in Hls; lia).
  induction fuel as [|f IH]; intros t endl i G C Hi HC Hcnt HG Hf; [lia|].
  cbn [spalte_loop]. pose proof (nonoverlap_nonneg s C t) as Hn0.
  replace (i <=? n) with true by (symmetry; apply Z.leb_le; lia).
  rewrite text_index_von_text_spec by exact Hs. cbn [bind].
  destruct G as [|g]; [lia|]. cbn [split_iter]. cbv zeta.
  destruct (ref_index_cases t s Hs) as [[Hr Hno]|(k & Hr & Hkl & Hocc & Hbefore)]; rewrite Hr.
  - cbn. exists t, endl, i. split; [reflexivity|]. split; [reflexivity|]. rewrite len_app, len_cons, len_nil. lia.
  - replace (Z.of_nat k + 1 <? 0) with false by (symmetry; apply Z.ltb_ge; lia).
    replace (Z.of_nat k + 1 =? -1) with false by (symmetry; apply Z.eqb_neq; lia).
    replace (Z.to_nat (Z.of_nat k + 1 - 1)) with k by lia.
    assert (HL : len t = Z.of_nat (length t)) by reflexivity. assert (HLs : len s = Z.of_nat (length s)) by reflexivity.
    assert (Hpiece : (if Z.of_nat k + 1 =? 1 then Ok [] else slice_to t (Z.of_nat k + 1 - 1)) = Ok (firstn k t)).
    { destruct (Z.of_nat k + 1 =? 1) eqn:E1.
      - apply Z.eqb_eq in E1. replace k with 0%nat by lia. reflexivity.
      - apply Z.eqb_neq in E1. rewrite slice_to_in by lia. f_equal. f_equal. lia. }
    rewrite Hpiece. cbn [bind].
    assert (Hrest : (if Z.of_nat k + 1 + len s >? len t then Ok [] else slice_from t (Z.of_nat k + 1 + len s)) = Ok (skipn (k + length s) t)).
    { destruct (Z.of_nat k + 1 + len s >? len t) eqn:E2; rewrite Z.gtb_ltb in E2.
      - apply Z.ltb_lt in E2. rewrite skipn_all2 by lia. reflexivity.
      - apply Z.ltb_ge in E2. rewrite slice_from_in by lia. f_equal. f_equal. lia. }
    rewrite Hrest. cbn [bind].
    pose proof (nonoverlap_steps s Hs k C t Hocc Hbefore ltac:(lia)) as Hstep.
    assert (Hlu : length (skipn (k + length s) t) = (length t - (k + length s))%nat) by apply skipn_length.
    assert (Hls1 : (1 <= length s)%nat) by (destruct s; [congruence|cbn; lia]).
    destruct (IH (skipn (k + length s) t) (endl ++ [firstn k t]) (i + 1) g (C - k - 1)%nat) as (t' & endl' & i' & E & Hsplit & Hi').
    + rewrite len_app, len_cons, len_nil. lia.
    + lia.
    + lia.
    + lia.
    + lia.
    + exists t', endl', i'. split; [exact E|]. split; [|exact Hi']. rewrite Hsplit, <- app_assoc. reflexivity.
Qed.

Theorem spalte_text_spec t s : 1 < len s -> Spalte_Text t s = Ok (split_iter (length t + 1) s t).
Proof.
  intros Hls. assert (Hs : s <> []) by (intros ->; cbn in Hls; lia).
  unfold Spalte_Text. cbv zeta.
  replace (len s =? 0) with false by (symmetry; apply Z.eqb_neq; lia).
  replace (len s =? 1) with false by (symmetry; apply Z.eqb_neq; lia).
  rewrite nicht_ueberlappend_spec by exact Hs. cbn [bind].
  destruct (spalte_text_loop_inv s (nonoverlap_ref (length t + 1) s t + 1) (length t + 2) Hls t [] 1 (length t + 1)%nat (length t + 1)%nat)
    as (t' & endl' & i' & E & Hsplit & Hi'); try reflexivity; try lia.
  rewrite E. cbn [bind]. rewrite Hi'. rewrite slice_to_in.
  - f_equal. rewrite to_nat_len, firstn_all. exact Hsplit.
  - rewrite len_app, len_cons, len_nil. pose proof (len_nonneg endl'). lia.
Qed.

(* ---- Finde_Subtext: the first occurrence, then the first occurrence behind it, ... (1-based start positions) ---- *)
Fixpoint finde_iter (fuel : nat) (s t : text) (pos : Z) : list Z :=
  match fuel with
  | O => []
  | S f =>
      let i := ref_index t s in
      if i =? -1 then []
      else (i + (pos - 1)) :: finde_iter f s (skipn (Z.to_nat (i - 1) + length s) t) (i + (pos - 1) + len s)
  end.

Lemma finde_loop_inv s t fuel : s <> [] -> forall start l, 1 <= start -> (Z.to_nat (len t - start + 1) < fuel)%nat ->
  finde_loop fuel t s (len t) (len s) start l = Ok (l ++ finde_iter fuel s (skipn (Z.to_nat (start - 1)) t) start).
Proof.
  intros Hs. assert (Hls : 1 <= len s) by (destruct s; [congruence|rewrite len_cons; pose proof (len_nonneg s); lia]).
  induction fuel as [|f IH]; intros start l Hst Hf; [lia|].
  cbn [finde_loop finde_iter]. cbv zeta.
  set (u := skipn (Z.to_nat (start - 1)) t).
  assert (Hlu : length u = (length t - Z.to_nat (start - 1))%nat) by apply skipn_length.
  destruct (start <=? len t - len s + 1) eqn:E.
  - apply Z.leb_le in E. rewrite slice_from_in by lia. cbn [bind]. fold u.
    rewrite text_index_von_text_spec by exact Hs. cbn [bind].
    destruct (ref_index_cases u s Hs) as [[Hr Hno]|(k & Hr & Hkl & Hocc & Hbefore)]; rewrite Hr.
    + cbn. now rewrite app_nil_r.
    + replace (Z.of_nat k + 1 =? -1) with false by (symmetry; apply Z.eqb_neq; lia).
      replace (Z.to_nat (Z.of_nat k + 1 - 1)) with k by lia.
      rewrite IH by (unfold len in *; lia). rewrite <- app_assoc. cbn [app].
      replace (skipn (k + length s) u) with (skipn (Z.to_nat (Z.of_nat k + 1 + (start - 1) + len s - 1)) t); [reflexivity|].
      unfold u. rewrite skipn_add. f_equal. unfold len. lia.
  - apply Z.leb_gt in E. rewrite app_nil_r || idtac.
    replace (ref_index u s) with (-1); [cbn; now rewrite app_nil_r|].
    symmetry. apply ref_index_none. intros j Hj. unfold len in *. lia.
Qed.

Theorem finde_subtext_spec t s : s <> [] -> Finde_Subtext t s = Ok (finde_iter (length t + 1) s t 1).
Proof.
  intros Hs. assert (Hls : 1 <= len s) by (destruct s; [congruence|rewrite len_cons; pose proof (len_nonneg s); lia]).
  pose proof (len_nonneg t) as HLt.
  unfold Finde_Subtext. cbv zeta.
  replace (len s =? 0) with false by (symmetry; apply Z.eqb_neq; lia). cbn [orb].
  assert (Hnone : ref_index t s = -1 -> finde_iter (length t + 1) s t 1 = []).
  { intros Hr. replace (length t + 1)%nat with (S (length t)) by lia. cbn [finde_iter]. cbv zeta. now rewrite Hr. }
  destruct (len t =? 0) eqn:E0; cbn [orb].
  { apply Z.eqb_eq in E0. f_equal. symmetry. apply Hnone. apply ref_index_none. intros j Hj. lia. }
  destruct (len s >? len t) eqn:E1; rewrite Z.gtb_ltb in E1.
  { apply Z.ltb_lt in E1. f_equal. symmetry. apply Hnone. apply ref_index_none. intros j Hj. lia. }
  apply Z.ltb_ge in E1. apply Z.eqb_neq in E0.
  destruct (len t =? len s) eqn:E2.
  - apply Z.eqb_eq in E2.
    assert (Ho : occ_b t s 0 = text_eqb t s).
    { unfold occ_b. cbn [skipn]. replace (length s) with (length t) by (unfold len in E2; lia). now rewrite firstn_all. }
    destruct (text_eqb t s) eqn:Eq; f_equal; symmetry.
    + replace (length t + 1)%nat with (S (S (length t - 1))) by (unfold len in *; lia). cbn [finde_iter]. cbv zeta.
      rewrite (ref_index_some t s 0) by (try lia; try (now rewrite Ho); intros j Hj; lia).
      cbn [Z.of_nat Z.add Z.eqb Z.sub Z.to_nat Nat.add]. f_equal.
      rewrite (skipn_all2 t) by (unfold len in E2; lia).
      replace (ref_index [] s) with (-1); [reflexivity|]. symmetry. apply ref_index_none. intros j Hj. cbn in Hj. lia.
    + apply Hnone. apply ref_index_none. intros j Hj. assert (j = 0%nat) by lia. subst j. now rewrite Ho.
  - pose proof (finde_loop_inv s t (length t + 1) Hs 1 [] ltac:(lia) ltac:(unfold len; lia)) as H.
    cbn [app Z.sub Z.to_nat skipn] in H. exact H.
Qed.

(* ---- Spalten_Spaltmenge_Text: the maximal runs of letters outside the set ---- *)
Section Spaltmenge.
  Variable m : list Z.
  Definition inm (c : Z) : bool := existsb (fun x => x =? c) m.
  Hypothesis Hm0 : inm 0 = false.          (* a Text never contains the NUL letter the iterator reports at its end *)

  Lemma menge_enthaelt_inm c : menge_enthaelt m c = inm c.
  Proof. unfold menge_enthaelt. now rewrite enthaelt_spec. Qed.

  Lemma it_at (pre : text) c suf : it_zuende (pre ++ c :: suf) (len pre + 1) = false /\
    it_buchstabe (pre ++ c :: suf) (len pre + 1) = c /\ it_naechster (pre ++ c :: suf) (len pre + 1) = len pre + 1 + 1.
  Proof.
    assert (Hz : it_zuende (pre ++ c :: suf) (len pre + 1) = false).
    { unfold it_zuende. rewrite Z.gtb_ltb. apply Z.ltb_ge. rewrite len_app, len_cons. pose proof (len_nonneg suf). lia. }
    unfold it_buchstabe, it_naechster. rewrite Hz, rd_mid. auto.
  Qed.
  Lemma it_end (t : text) : it_zuende t (len t + 1) = true /\ it_buchstabe t (len t + 1) = 0 /\ it_naechster t (len t + 1) = len t + 1.
  Proof.
    assert (Hz : it_zuende t (len t + 1) = true) by (unfold it_zuende; rewrite Z.gtb_ltb; apply Z.ltb_lt; lia).
    unfold it_buchstabe, it_naechster. rewrite Hz. auto.
  Qed.

  Definition stops (p : Z -> bool) (R : text) : Prop := R = [] \/ exists c R', R = c :: R' /\ p c = false.
  Lemma span (p : Z -> bool) (l : text) : exists A R, l = A ++ R /\ Forall (fun c => p c = true) A /\ stops p R.
  Proof.
    induction l as [|c l IH]; [exists [], []; repeat split; [constructor|left; reflexivity]|].
    destruct (p c) eqn:E.
    - destruct IH as (A & R & -> & HA & HR). exists (c :: A), R. repeat split; [constructor; assumption|exact HR].
    - exists [], (c :: l). repeat split; [constructor|right; exists c, l; auto].
  Qed.

  Lemma skip_in_inv A : forall pre R fuel, Forall (fun c => inm c = true) A -> stops inm R -> (length A < fuel)%nat ->
    skip_in fuel (pre ++ A ++ R) m (len pre + 1) = Ok (len pre + len A + 1).
  Proof.
    induction A as [|a A IH]; intros pre R fuel HA HR Hf; (destruct fuel as [|f]; [lia|]); cbn [skip_in app].
    - rewrite menge_enthaelt_inm. rewrite len_nil. destruct HR as [->|(c & R' & -> & Hc)].
      + rewrite app_nil_r. destruct (it_end pre) as (_ & -> & _). rewrite Hm0. f_equal. lia.
      + destruct (it_at pre c R') as (_ & -> & _). rewrite Hc. f_equal. lia.
    - inversion HA as [|a' A' Ha HA']; subst. rewrite menge_enthaelt_inm.
      destruct (it_at pre a (A ++ R)) as (_ & -> & ->). rewrite Ha.
      replace (pre ++ a :: A ++ R) with ((pre ++ [a]) ++ A ++ R) by (rewrite <- app_assoc; reflexivity).
      replace (len pre + 1 + 1) with (len (pre ++ [a]) + 1) by (rewrite len_app, len_cons, len_nil; lia).
      rewrite IH by (try assumption; cbn [length] in Hf; lia). f_equal. rewrite len_app, !len_cons, len_nil. lia.
  Qed.
  Lemma skip_out_inv B : forall pre R fuel, Forall (fun c => negb (inm c) = true) B -> stops (fun c => negb (inm c)) R -> (length B < fuel)%nat ->
    skip_out fuel (pre ++ B ++ R) m (len pre + 1) = Ok (len pre + len B + 1).
  Proof.
    induction B as [|b B IH]; intros pre R fuel HB HR Hf; (destruct fuel as [|f]; [lia|]); cbn [skip_out app].
    - rewrite len_nil. destruct HR as [->|(c & R' & -> & Hc)].
      + rewrite app_nil_r. destruct (it_end pre) as (-> & _ & _). cbn [negb andb]. f_equal. lia.
      + destruct (it_at pre c R') as (-> & -> & _). rewrite menge_enthaelt_inm. rewrite Hc. cbn [negb andb]. f_equal. lia.
    - inversion HB as [|b' B' Hb HB']; subst.
      destruct (it_at pre b (B ++ R)) as (-> & -> & ->). rewrite menge_enthaelt_inm, Hb. cbn [negb andb].
      replace (pre ++ b :: B ++ R) with ((pre ++ [b]) ++ B ++ R) by (rewrite <- app_assoc; reflexivity).
      replace (len pre + 1 + 1) with (len (pre ++ [b]) + 1) by (rewrite len_app, len_cons, len_nil; lia).
      rewrite IH by (try assumption; cbn [length] in Hf; lia). f_equal. rewrite len_app, !len_cons, len_nil. lia.
  Qed.

  Lemma fields_in A : forall R, Forall (fun c => inm c = true) A -> fields_ref m (A ++ R) [] = fields_ref m R [].
  Proof.
    induction A as [|a A IH]; intros R HA; [reflexivity|]. inversion HA; subst. cbn [app fields_ref]. fold (inm a).
    replace (inm a) with true by auto. cbn [len length Z.of_nat Z.eqb app]. now apply IH.
  Qed.
  Lemma fields_out B : forall R cur, Forall (fun c => negb (inm c) = true) B -> fields_ref m (B ++ R) cur = fields_ref m R (rev B ++ cur).
  Proof.
    induction B as [|b B IH]; intros R cur HB; [reflexivity|]. inversion HB as [|b' B' Hb HB']; subst. cbn [app fields_ref]. fold (inm b).
    apply negb_true_iff in Hb. rewrite Hb. rewrite IH by assumption. cbn [rev]. now rewrite <- app_assoc.
  Qed.

  Lemma spaltmenge_loop_inv fuel : forall suf pre endl, (length suf < fuel)%nat ->
    spaltmenge_loop fuel (pre ++ suf) m (len pre + 1) endl = Ok (endl ++ fields_ref m suf []).
  Proof.
    induction fuel as [|f IH]; intros suf pre endl Hf; [lia|]. cbn [spaltmenge_loop].
    destruct suf as [|c0 suf0].
    { rewrite app_nil_r. destruct (it_end pre) as (-> & _ & _). cbn [negb fields_ref len length Z.of_nat Z.eqb]. now rewrite app_nil_r. }
    destruct (it_at pre c0 suf0) as (-> & _ & _). cbn [negb].
    destruct (span inm (c0 :: suf0)) as (A & R & Hdec & HA & HR). rewrite Hdec.
    assert (HlA : (length A <= length (c0 :: suf0))%nat) by (rewrite Hdec, app_length; lia).
    rewrite skip_in_inv by (try assumption; rewrite !app_length; lia). cbn [bind].
    rewrite fields_in by assumption.
    destruct HR as [->|(c & R' & -> & Hc)].
    - (* only letters of the set are left *)
      rewrite app_nil_r. replace (len pre + len A + 1) with (len (pre ++ A) + 1) by (rewrite len_app; lia).
      destruct (it_end (pre ++ A)) as (-> & _ & _). cbn [fields_ref len length Z.of_nat Z.eqb]. now rewrite app_nil_r.
    - replace (pre ++ A ++ c :: R') with ((pre ++ A) ++ c :: R') by (now rewrite <- app_assoc).
      replace (len pre + len A + 1) with (len (pre ++ A) + 1) by (rewrite len_app; lia).
      destruct (it_at (pre ++ A) c R') as (-> & _ & _).
      destruct (span (fun x => negb (inm x)) (c :: R')) as (B & R2 & Hdec2 & HB & HR2).
      assert (HBne : B <> []).
      { intros ->. cbn [app] in Hdec2. destruct HR2 as [->|(d & R3 & -> & Hd)]; [discriminate|]. injection Hdec2 as -> _.
        apply negb_false_iff in Hd. congruence. }
      rewrite Hdec2.
      assert (HlB : (length B <= length (c0 :: suf0))%nat).
      { rewrite Hdec. rewrite app_length. rewrite Hdec2, app_length. lia. }
      rewrite skip_out_inv by (try assumption; rewrite !app_length; lia). cbn [bind].
      assert (HlB1 : 1 <= len B) by (destruct B; [congruence|rewrite len_cons; pose proof (len_nonneg B); lia]).
      pose proof (len_nonneg (pre ++ A)) as HlpA. pose proof (len_nonneg R2) as HlR2.
      rewrite slice_in by (rewrite ?len_app; pose proof (len_nonneg pre); pose proof (len_nonneg A); lia). cbn [bind].
      replace (len (pre ++ A) + len B + 1 - 1 - (len (pre ++ A) + 1) + 1) with (len B) by lia.
      replace (len (pre ++ A) + 1 - 1) with (len (pre ++ A)) by lia.
      rewrite !to_nat_len, skipn_app, skipn_all, Nat.sub_diag. cbn [skipn app].
      rewrite firstn_app, firstn_all, Nat.sub_diag. cbn [firstn]. rewrite app_nil_r.
      unfold Hinzufuegen_Liste, efficient_list_append.
      rewrite fields_out by assumption. rewrite app_nil_r.
      assert (Hrevne : len (rev B) =? 0 = false) by (apply Z.eqb_neq; rewrite len_rev; lia).
      destruct HR2 as [->|(d & R3 & -> & Hd)].
      + rewrite !app_nil_r. replace (len (pre ++ A) + len B + 1) with (len ((pre ++ A) ++ B) + 1) by (rewrite (len_app (pre ++ A) B); lia).
        destruct (it_end ((pre ++ A) ++ B)) as (_ & _ & ->). unfold text in *.
        replace (spaltmenge_loop f ((pre ++ A) ++ B) m (len ((pre ++ A) ++ B) + 1) (endl ++ [B]))
          with (spaltmenge_loop f (((pre ++ A) ++ B) ++ []) m (len ((pre ++ A) ++ B) + 1) (endl ++ [B])) by (now rewrite app_nil_r).
        rewrite (IH [] ((pre ++ A) ++ B) (endl ++ [B])) by (cbn [length] in *; lia).
        cbn [fields_ref]. rewrite Hrevne. cbn [len length Z.of_nat Z.eqb]. rewrite rev_involutive, app_nil_r. reflexivity.
      + apply negb_false_iff in Hd.
        replace ((pre ++ A) ++ B ++ d :: R3) with (((pre ++ A) ++ B) ++ d :: R3) by (now rewrite <- app_assoc).
        replace (len (pre ++ A) + len B + 1) with (len ((pre ++ A) ++ B) + 1) by (rewrite (len_app (pre ++ A) B); lia).
        destruct (it_at ((pre ++ A) ++ B) d R3) as (_ & _ & ->).
        replace (((pre ++ A) ++ B) ++ d :: R3) with ((((pre ++ A) ++ B) ++ [d]) ++ R3) by (now rewrite <- app_assoc).
        replace (len ((pre ++ A) ++ B) + 1 + 1) with (len (((pre ++ A) ++ B) ++ [d]) + 1) by (rewrite (len_app _ [d]), len_cons, len_nil; lia).
        rewrite IH.
        * cbn [fields_ref]. fold (inm d). rewrite Hd, Hrevne. rewrite rev_involutive, <- app_assoc. reflexivity.
        * assert (length (c0 :: suf0) = (length A + (length B + S (length R3)))%nat) by (rewrite Hdec, app_length, Hdec2, app_length; reflexivity). lia.
  Qed.

  Theorem spaltmenge_spec t : Spalten_Spaltmenge_Text_Ref t m = Ok (fields_ref m t []).
  Proof.
    unfold Spalten_Spaltmenge_Text_Ref. destruct (len t =? 0) eqn:E0.
    - apply Z.eqb_eq in E0. apply len_zero_nil in E0. subst. reflexivity.
    - destruct (len m =? 0) eqn:Em.
      + apply Z.eqb_eq in Em. apply len_zero_nil in Em. f_equal.
        assert (Hall : Forall (fun c => negb (inm c) = true) t) by (apply Forall_forall; intros c _; unfold inm; rewrite Em; reflexivity).
        pose proof (fields_out t [] [] Hall) as H. rewrite !app_nil_r in H. rewrite H. cbn [fields_ref].
        replace (len (rev t) =? 0) with false by (symmetry; rewrite len_rev; exact E0). now rewrite rev_involutive.
      + pose proof (spaltmenge_loop_inv (length t + 2) t [] [] ltac:(lia)) as H. exact H.
  Qed.
End Spaltmenge.

Theorem spaltmenge_text_spec t mt : inm mt 0 = false -> Spalten_SpaltmengeText_Text t mt = Ok (fields_ref mt t []).
Proof.
  intros H. unfold Spalten_SpaltmengeText_Text, Buchstaben_Text_BuchstabenListe. rewrite buchstaben_liste_spec. cbn [bind].
  now apply spaltmenge_spec.
Qed.
(* Leerzeichen: ' ', '\n', '\t', '\r', 13, 14 *)
Theorem text_worte_spec t : Text_Worte t = Ok (fields_ref leerzeichen t []).
Proof. apply spaltmenge_spec. reflexivity. Qed.
