(* C18 — model of the foreign-function convention. Definitions only.

   Three transcriptions over one vocabulary of DDP signatures:
   * [c_sig]     : the convention PUBLISHED in lib/runtime/include/DDP/ddptypes.h (typedefs at 17-21,
                   ddpstring 24-27, ddpany 57-63, the list structs 79-161, the ...ref typedefs 207-224)
                   and used by every C file of lib/stdlib: primitives by value, Text/lists/
                   Kombinationen/Variable by pointer, a non-primitive result through a leading
                   out-pointer with a void return, a Referenz parameter as a pointer to the value;
   * [lower_sig] : what the compiler declares (compiler.go VisitFuncDecl 557-605 =
                   declareImportedFuncDecl 2187-2228, helper.go toIrType 60-104 / toIrParamType
                   107-115, ir_types.go / ir_string_type.go / ir_any_type.go / ir_struct_type.go /
                   list_types.go for the struct bodies);
   * [call_plan] : what VisitFuncCall (compiler.go 2015-2117) emits around a call of an extern
                   function: out-slot, per-argument copy/claim/pass, the call, registration of the
                   result as a temporary, and the caller-side frees with their index arithmetic
                   ([args[i]] resp. [args[i+1]]).
   Both signatures are compared at the level of ABI classes ([rep]): what a SysV x86-64 callee
   compiled from the C prototype and an LLVM caller agree on (integer width, double, pointer with the
   layout of its pointee, struct field sequence, 16-byte blob).
   Not modelled: generic extern functions (ddpgenericlist / i8* parameters), which are outside the
   property's quantifier. *)
From Coq Require Import List Bool Arith NArith.
Import ListNotations.
From DDP Require Export Lower.AbiTypes.
From DDP Require Import Gen.AbiTables.

(* ---------------------------------------------------------------------------------------------- *)
(* DDP signatures                                                                                 *)
(* ---------------------------------------------------------------------------------------------- *)

(* [TNamed]: a type alias or a typedef; toIrType starts with ddptypes.TrueUnderlying, so it is
   transparent for the representation. [TList e]: e is never a list in a checked program (wf_ty);
   [TStruct fs]: a Kombination with its fields in declaration order. *)
Inductive ty :=
| TPrim (p : prim)
| TText
| TVariable
| TList (e : ty)
| TStruct (fs : list ty)
| TNamed (t : ty).

Record param := { p_ty : ty; p_ref : bool }.
Definition str := list N.
(* s_ret = None: "gibt nichts zurück" (ddptypes.VoidType) *)
Record signature := { s_name : str; s_params : list param; s_ret : option ty }.

Fixpoint strip (t : ty) : ty := match t with TNamed u => strip u | _ => t end.

Fixpoint wf_ty (t : ty) : bool :=
  match t with
  | TPrim _ | TText | TVariable => true
  | TList e => wf_ty e && match strip e with TList _ => false | _ => true end
  | TStruct fs => (fix all (l : list ty) : bool := match l with [] => true | x :: r => wf_ty x && all r end) fs
  | TNamed u => wf_ty u
  end.

(* ddpIrType.IsPrimitive(): the five primitive types and void *)
Definition is_prim (t : ty) : bool := match strip t with TPrim _ => true | _ => false end.
Definition ret_is_prim (r : option ty) : bool := match r with None => true | Some t => is_prim t end.

(* ---------------------------------------------------------------------------------------------- *)
(* ABI classes                                                                                    *)
(* ---------------------------------------------------------------------------------------------- *)
Inductive rep :=
| RInt (bits : nat)        (* two's complement integer of that width; char/uint8_t/i8 = RInt 8 *)
| RBool                    (* one byte holding 0 or 1: C bool, LLVM i1 *)
| RF64
| RVoid
| RPtr (pointee : rep)     (* 64-bit data pointer and what the callee may read through it *)
| RStruct (fs : list rep)  (* fields in order, natural alignment *)
| RBlob (bytes : nat).     (* untyped bytes: [16 x i8], union { void*; uint8_t[16] } *)

(* ---------------------------------------------------------------------------------------------- *)
(* C side: the header                                                                             *)
(* ---------------------------------------------------------------------------------------------- *)
(* the five typedefs and the struct bodies come from Gen/AbiTables.v, re-extracted from ddptypes.h *)
Definition c_prim (p : prim) : cty := hdr_prim p.
Definition c_string : cty := CStruct hdr_string_fields.            (* char *str; ddpint cap *)
Definition c_any : cty := CStruct hdr_any_fields.                  (* vtable_ptr; union *)
Definition c_list (e : cty) : cty := CStruct (hdr_list_fields e).  (* arr; len; cap *)

Fixpoint c_ty (t : ty) : cty :=
  match t with
  | TPrim p => c_prim p
  | TText => c_string
  | TVariable => c_any
  | TList e => c_list (c_ty e)
  | TStruct fs => CStruct (map c_ty fs)
  | TNamed u => c_ty u
  end.

(* primitives by value; everything else, and every Referenz, by pointer *)
Definition c_param (p : param) : cty :=
  if negb (p_ref p) && is_prim (p_ty p) then c_ty (p_ty p) else CPtr (c_ty (p_ty p)).

Record c_signature := { cs_name : str; cs_ret : cty; cs_params : list cty }.

Definition c_sig (s : signature) : c_signature :=
  match s_ret s with
  | None => {| cs_name := s_name s; cs_ret := CVoid; cs_params := map c_param (s_params s) |}
  | Some r =>
    if is_prim r
    then {| cs_name := s_name s; cs_ret := c_ty r; cs_params := map c_param (s_params s) |}
    else {| cs_name := s_name s; cs_ret := CVoid; cs_params := CPtr (c_ty r) :: map c_param (s_params s) |}
  end.

(* SysV x86-64 data model of the header types *)
Fixpoint c_rep (c : cty) : rep :=
  match c with
  | CInt64 => RInt 64 | CDouble => RF64 | CUInt8 => RInt 8 | CBool => RBool | CInt32 => RInt 32
  | CChar => RInt 8 | CVoid => RVoid
  | CVtable => RInt 8                   (* the caller hands over an untyped byte pointer *)
  | CPtr t => RPtr (c_rep t)
  | CStruct fs => RStruct (map c_rep fs)
  | CAnyUnion => RBlob 16
  end.

(* ---------------------------------------------------------------------------------------------- *)
(* compiler side                                                                                  *)
(* ---------------------------------------------------------------------------------------------- *)
(* re-extracted from helper.go (ddpint = i64 ...), ir_string_type.go, ir_any_type.go, list_types.go *)
Definition ll_prim (p : prim) : llty := go_prim p.
Definition ll_string : llty := LStruct go_string_fields.
Definition ll_any : llty := LStruct go_any_fields.
Definition ll_list (e : llty) : llty := LStruct (go_list_fields e).

(* toIrType(t).IrType() *)
Fixpoint ll_ty (t : ty) : llty :=
  match t with
  | TPrim p => ll_prim p
  | TText => ll_string
  | TVariable => ll_any
  | TList e => ll_list (ll_ty e)
  | TStruct fs => LStruct (map ll_ty fs)
  | TNamed u => ll_ty u
  end.

(* toIrParamType *)
Definition ll_param (p : param) : llty :=
  if negb (p_ref p) && is_prim (p_ty p) then ll_ty (p_ty p) else LPtr (ll_ty (p_ty p)).

Record ir_signature := { is_name : str; is_ret : llty; is_params : list llty }.

(* VisitFuncDecl / declareImportedFuncDecl: retType := toIrType(ReturnType); hasReturnParam :=
   !retType.IsPrimitive(); the loop appends toIrParamType of every parameter; the symbol is
   mangledNameDecl(decl), which for an extern function is decl.Name() *)
Definition lower_sig (s : signature) : ir_signature :=
  let ret := match s_ret s with None => LVoid | Some r => ll_ty r end in
  let has_return_param := negb (ret_is_prim (s_ret s)) in
  let params := map ll_param (s_params s) in
  if has_return_param
  then {| is_name := s_name s; is_ret := LVoid; is_params := LPtr ret :: params |}
  else {| is_name := s_name s; is_ret := ret; is_params := params |}.

(* declareImportedFuncDecl (compiler.go 2187-2228), used when the callee lives in another module: a second,
   textually separate copy of the same construction *)
Definition lower_sig_imported (s : signature) : ir_signature :=
  let ret := match s_ret s with None => LVoid | Some r => ll_ty r end in
  let has_return_param := negb (ret_is_prim (s_ret s)) in
  let params := (if has_return_param then [LPtr ret] else []) ++ map ll_param (s_params s) in
  {| is_name := s_name s; is_ret := if has_return_param then LVoid else ret; is_params := params |}.

Fixpoint ll_rep (l : llty) : rep :=
  match l with
  | LI1 => RBool | LI8 => RInt 8 | LI32 => RInt 32 | LI64 => RInt 64 | LDouble => RF64 | LVoid => RVoid
  | LPtr t => RPtr (ll_rep t)
  | LStruct fs => RStruct (map ll_rep fs)
  | LArray n LI8 => RBlob n
  | LArray n t => RStruct (repeat (ll_rep t) n)
  end.

Record abi_signature := { ab_name : str; ab_ret : rep; ab_params : list rep }.
Definition abi_of_c (c : c_signature) : abi_signature :=
  {| ab_name := cs_name c; ab_ret := c_rep (cs_ret c); ab_params := map c_rep (cs_params c) |}.
Definition abi_of_ir (i : ir_signature) : abi_signature :=
  {| ab_name := is_name i; ab_ret := ll_rep (is_ret i); ab_params := map ll_rep (is_params i) |}.

(* ---------------------------------------------------------------------------------------------- *)
(* symbol names (helper.go mangledNameDecl 173-202)                                               *)
(* ---------------------------------------------------------------------------------------------- *)
Record fdecl := {
  d_name : str;
  d_extern : bool;              (* ast.IsExternFunc: declared "ist in "..." definiert" *)
  d_extern_visible : bool;      (* "ist extern sichtbar" *)
  d_generic_suffix : option str (* "_generic_" ++ parameter types of an instantiation *)
}.
Definition mod_sep : str := [95; 109; 111; 100; 95]%N.  (* "_mod_" *)

Section Mangling.
  Variable M : Type.                 (* modules *)
  Variable modhash : M -> str.       (* hex(sha256(getHashableModuleName(module))) *)
  Definition mangled_name (d : fdecl) (declaring : M) : str :=
    if d_extern d || d_extern_visible d then d_name d
    else (d_name d ++ match d_generic_suffix d with Some g => g | None => [] end) ++ mod_sep ++ modhash declaring.
End Mangling.

(* ---------------------------------------------------------------------------------------------- *)
(* the call site of an extern function                                                            *)
(* ---------------------------------------------------------------------------------------------- *)
(* what c.evaluate reported for a by-value argument: an owned temporary of the current scope
   (isTemp) or storage that somebody else owns (variable, element, field, global) *)
Inductive argkind := ArgTemp | ArgVar.

Inductive action :=
| AllocRet              (* ret := alloca; args = [ret] *)
| PassValue (i : nat)   (* primitive: args += value *)
| PassRef (i : nat)     (* Referenz: args += address of the caller's variable/element/field *)
| Copy (i : nat)        (* dest := alloca; deep copy of the caller's value into dest; args += dest *)
| Claim (i : nat)       (* dest := alloca; the temporary is moved into dest and leaves the scope's
                           list of temporaries; args += dest *)
| Call
| ResultTemp            (* scp.addTemporary(ret) *)
| FreeArg (k : nat)     (* freeNonPrimitive(args[k]) *)
| FreeArgCast (k : nat). (* generic extern callee: freeNonPrimitive(bitcast(args[k]) back to the real list type) *)

Definition arg_action (i : nat) (p : param) (k : argkind) : action :=
  if p_ref p then PassRef i
  else if is_prim (p_ty p) then PassValue i
  else match k with ArgTemp => Claim i | ArgVar => Copy i end.

Fixpoint arg_actions (i : nat) (ps : list param) (ks : list argkind) : list action :=
  match ps, ks with
  | p :: ps', k :: ks' => arg_action i p k :: arg_actions (S i) ps' ks'
  | _, _ => []
  end.

(* for i, param := range e.Func.Parameters { if !param.Type.IsReference { arg := args[i]; if
   !irReturnType.IsPrimitive() { arg = args[i+1] }; c.freeNonPrimitive(arg, toIrType(param)) } } *)
Fixpoint free_actions (ret_prim : bool) (i : nat) (ps : list param) : list action :=
  match ps with
  | [] => []
  | p :: ps' =>
    (if p_ref p then [] else if is_prim (p_ty p) then [] else [FreeArg (if ret_prim then i else S i)])
    ++ free_actions ret_prim (S i) ps'
  end.

Definition call_plan (s : signature) (ks : list argkind) : list action :=
  let rp := ret_is_prim (s_ret s) in
  (if rp then [] else [AllocRet])
  ++ arg_actions 0 (s_params s) ks
  ++ [Call]
  ++ (if rp then [] else [ResultTemp])
  ++ free_actions rp 0 (s_params s).

(* ---------------------------------------------------------------------------------------------- *)
(* ownership semantics of a plan                                                                  *)
(* ---------------------------------------------------------------------------------------------- *)
(* One entry of the IR argument list. *)
Inductive argval :=
| VRet                    (* the out-slot *)
| VPrim (i : nat)
| VRefTo (i : nat)        (* the caller's own storage of argument i *)
| VSlot (i : nat).        (* a fresh slot of the caller holding the value made for parameter i *)

Record cstate := {
  st_args : list argval;       (* the IR argument list built so far *)
  st_slots : list nat;         (* parameters whose slot currently owns a live value *)
  st_temps : list nat;         (* parameters whose argument temporary is still owned by the scope
                                  (it will be released at the end of the statement) *)
  st_called : bool;
  st_result_owned : bool;      (* the result sits in the scope's list of temporaries *)
  st_freed : list nat          (* parameters whose slot has been released, in order *)
}.

Fixpoint remove_one (x : nat) (l : list nat) : list nat :=
  match l with [] => [] | y :: r => if Nat.eqb x y then r else y :: remove_one x r end.
Fixpoint mem (x : nat) (l : list nat) : bool :=
  match l with [] => false | y :: r => Nat.eqb x y || mem x r end.

(* None = ownership error: a value is claimed that the scope does not own, something is released
   that is not an owned slot (out-slot, primitive, the caller's own variable behind a Referenz, an
   index outside the argument list) or that was released before, or the order is broken. *)
Definition step (st : cstate) (a : action) : option cstate :=
  let push v := Some {| st_args := st_args st ++ [v]; st_slots := st_slots st; st_temps := st_temps st;
                        st_called := st_called st; st_result_owned := st_result_owned st; st_freed := st_freed st |} in
  match a with
  | AllocRet => if st_called st then None else push VRet
  | PassValue i => if st_called st then None else push (VPrim i)
  | PassRef i => if st_called st then None else push (VRefTo i)
  | Copy i =>
    if st_called st then None else
    Some {| st_args := st_args st ++ [VSlot i]; st_slots := i :: st_slots st; st_temps := st_temps st;
            st_called := false; st_result_owned := st_result_owned st; st_freed := st_freed st |}
  | Claim i =>
    if st_called st then None else
    if mem i (st_temps st)
    then Some {| st_args := st_args st ++ [VSlot i]; st_slots := i :: st_slots st; st_temps := remove_one i (st_temps st);
                 st_called := false; st_result_owned := st_result_owned st; st_freed := st_freed st |}
    else None
  | Call =>
    if st_called st then None else
    Some {| st_args := st_args st; st_slots := st_slots st; st_temps := st_temps st;
            st_called := true; st_result_owned := false; st_freed := st_freed st |}
  | ResultTemp =>
    if st_called st && negb (st_result_owned st) && match st_args st with VRet :: _ => true | _ => false end
    then Some {| st_args := st_args st; st_slots := st_slots st; st_temps := st_temps st;
                 st_called := true; st_result_owned := true; st_freed := st_freed st |}
    else None
  | FreeArg k | FreeArgCast k =>     (* the cast does not change what is released *)
    if st_called st then
      match nth_error (st_args st) k with
      | Some (VSlot i) =>
        if mem i (st_slots st)
        then Some {| st_args := st_args st; st_slots := remove_one i (st_slots st); st_temps := st_temps st;
                     st_called := true; st_result_owned := st_result_owned st; st_freed := st_freed st ++ [i] |}
        else None
      | _ => None
      end
    else None
  end.

Fixpoint run (st : cstate) (plan : list action) : option cstate :=
  match plan with
  | [] => Some st
  | a :: r => match step st a with Some st' => run st' r | None => None end
  end.

(* initial state: nothing built; the scope owns the temporaries of the arguments that evaluated to one *)
Fixpoint temp_indices (i : nat) (ps : list param) (ks : list argkind) : list nat :=
  match ps, ks with
  | p :: ps', k :: ks' =>
    (if negb (p_ref p) && negb (is_prim (p_ty p)) then match k with ArgTemp => [i] | ArgVar => [] end else [])
    ++ temp_indices (S i) ps' ks'
  | _, _ => []
  end.
Definition init_state (temps : list nat) : cstate :=
  {| st_args := []; st_slots := []; st_temps := temps; st_called := false; st_result_owned := false; st_freed := [] |}.

(* the parameters whose value the caller owns across the call: by value and not primitive *)
Fixpoint owned_indices (i : nat) (ps : list param) : list nat :=
  match ps with
  | [] => []
  | p :: ps' => (if negb (p_ref p) && negb (is_prim (p_ty p)) then [i] else []) ++ owned_indices (S i) ps'
  end.

(* ---------------------------------------------------------------------------------------------- *)
(* generic extern functions                                                                       *)
(* ---------------------------------------------------------------------------------------------- *)
(* A generic function that is defined in C is declared ONCE, from its generic declaration (VisitFuncDecl swaps an
   instantiation for decl.GenericInstantiation.GenericDecl). The parser admits a type parameter only inside a
   Referenz parameter or a list (declarations.go 608-621). getPossiblyGenericParamType (compiler.go 547-555):
   a parameter whose type mentions T is an i8* when it is a Referenz and a ddpgenericlist* otherwise;
   getPossiblyGenericReturnType: a result that mentions T is a ddpgenericlist. *)
Inductive gparam :=
| GConcrete (p : param)     (* no type parameter inside *)
| GListVal                  (* "T Liste" by value *)
| GRef (is_list : bool).    (* "T Listen Referenz" (true) / "T Referenz" (false) *)
Inductive gret := GRetConcrete (r : option ty) | GRetList.
Record gsignature := { g_name : str; g_params : list gparam; g_ret : gret }.

Definition ll_genericlist : llty := LStruct go_genericlist_fields.
Definition c_genericlist : cty := CStruct hdr_genericlist_fields.   (* void *arr; ddpint len; ddpint cap *)

Definition ll_gparam (g : gparam) : llty :=
  match g with GConcrete p => ll_param p | GListVal => LPtr ll_genericlist | GRef _ => LPtr LI8 end.
(* published: pointer to ddpgenericlist, ddpgenericlistref (the same), ddpgenericref (pointer to void) *)
Definition c_gparam (g : gparam) : cty :=
  match g with
  | GConcrete p => c_param p
  | GListVal => CPtr c_genericlist
  | GRef true => CPtr c_genericlist
  | GRef false => CPtr CVoid
  end.

Definition gret_is_prim (r : gret) : bool := match r with GRetConcrete r => ret_is_prim r | GRetList => false end.

Definition lower_gsig (s : gsignature) : ir_signature :=
  let ret := match g_ret s with GRetConcrete None => LVoid | GRetConcrete (Some r) => ll_ty r | GRetList => ll_genericlist end in
  let params := map ll_gparam (g_params s) in
  if negb (gret_is_prim (g_ret s))
  then {| is_name := g_name s; is_ret := LVoid; is_params := LPtr ret :: params |}
  else {| is_name := g_name s; is_ret := ret; is_params := params |}.

Definition c_gsig (s : gsignature) : c_signature :=
  let ret := match g_ret s with GRetConcrete None => CVoid | GRetConcrete (Some r) => c_ty r | GRetList => c_genericlist end in
  let params := map c_gparam (g_params s) in
  if negb (gret_is_prim (g_ret s))
  then {| cs_name := g_name s; cs_ret := CVoid; cs_params := CPtr ret :: params |}
  else {| cs_name := g_name s; cs_ret := ret; cs_params := params |}.

Definition gsig_of (s : signature) : gsignature :=
  {| g_name := s_name s; g_params := map GConcrete (s_params s); g_ret := GRetConcrete (s_ret s) |}.

(* Agreement of ABI classes up to untyped pointers: the compiler hands over a byte pointer (or a list behind a
   pointer to ddpgenericlist whose array is a byte pointer) where the header says pointer to void, pointer to
   ddpgenericlist or a typed array. *)
Definition untyped (r : rep) : bool := match r with RInt 8 => true | RVoid => true | _ => false end.
Fixpoint loose (a b : rep) : bool :=
  match a, b with
  | RPtr x, RPtr y => untyped x || untyped y || loose x y
  | RStruct xs, RStruct ys =>
    (fix go (l1 l2 : list rep) : bool :=
       match l1, l2 with
       | [], [] => true
       | x :: r1, y :: r2 => loose x y && go r1 r2
       | _, _ => false
       end) xs ys
  | RInt n, RInt m => Nat.eqb n m
  | RBool, RBool => true
  | RF64, RF64 => true
  | RVoid, RVoid => true
  | RBlob n, RBlob m => Nat.eqb n m
  | _, _ => false
  end.
Definition compat (a b : rep) : Prop := a = b \/ loose a b = true.

(* the call site: the by-value argument of a generic list parameter was passed as ddpgenericlist* and is cast
   back to the list type of the instantiation before it is released. [gs]: per parameter, whether the GENERIC
   declaration's parameter mentions T; [ps]: the parameters of the instantiation. *)
Definition is_list (t : ty) : bool := match strip t with TList _ => true | _ => false end.
Fixpoint free_actions_g (ret_prim : bool) (i : nat) (ps : list param) (gs : list bool) : list action :=
  match ps with
  | [] => []
  | p :: ps' =>
    (if p_ref p then [] else if is_prim (p_ty p) then [] else
       let k := if ret_prim then i else S i in
       [if is_list (p_ty p) && hd false gs then FreeArgCast k else FreeArg k])
    ++ free_actions_g ret_prim (S i) ps' (tl gs)
  end.

(* after the call, the out-slot of a generic list result is cast to the list type of the instantiation before it is
   registered as a temporary (compiler.go, since 76f45a7): ownership-neutral, ResultTemp as before *)
Definition call_plan_g (s : signature) (gs : list bool) (ks : list argkind) : list action :=
  let rp := ret_is_prim (s_ret s) in
  (if rp then [] else [AllocRet])
  ++ arg_actions 0 (s_params s) ks
  ++ [Call]
  ++ (if rp then [] else [ResultTemp])
  ++ free_actions_g rp 0 (s_params s) gs.

Definition erase_cast (a : action) : action := match a with FreeArgCast k => FreeArg k | _ => a end.
