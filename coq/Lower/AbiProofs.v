(* C18 — proofs about the foreign-function convention model (Lower/Abi.v). *)
From Coq Require Import List Bool Arith NArith Lia.
Import ListNotations.
From DDP Require Import Gen.AbiTables Lower.Abi.

(* ---------------------------------------------------------------------------------------------- *)
(* 1. the declared IR signature is the published C signature, at ABI-class level                  *)
(* ---------------------------------------------------------------------------------------------- *)
Section TyInd.
  Variable P : ty -> Prop.
  Hypothesis Hprim : forall p, P (TPrim p).
  Hypothesis Htext : P TText.
  Hypothesis Hvar : P TVariable.
  Hypothesis Hlist : forall e, P e -> P (TList e).
  Hypothesis Hstruct : forall fs, Forall P fs -> P (TStruct fs).
  Hypothesis Hnamed : forall u, P u -> P (TNamed u).
  Fixpoint ty_ind_nested (t : ty) : P t :=
    match t with
    | TPrim p => Hprim p
    | TText => Htext
    | TVariable => Hvar
    | TList e => Hlist e (ty_ind_nested e)
    | TStruct fs =>
      Hstruct fs ((fix go (l : list ty) : Forall P l :=
                     match l with [] => Forall_nil P | x :: r => Forall_cons x (ty_ind_nested x) (go r) end) fs)
    | TNamed u => Hnamed u (ty_ind_nested u)
    end.
End TyInd.

(* the regenerated tables agree class by class; these four facts are what a change of ddptypes.h or of the
   compiler's struct construction would falsify *)
Lemma prim_rep_agree : forall p, ll_rep (ll_prim p) = c_rep (c_prim p).
Proof. intros p; destruct p; reflexivity. Qed.
Lemma string_rep_agree : ll_rep ll_string = c_rep c_string.
Proof. reflexivity. Qed.
Lemma any_rep_agree : ll_rep ll_any = c_rep c_any.
Proof. reflexivity. Qed.
Lemma list_rep_agree : forall l c, ll_rep l = c_rep c -> ll_rep (ll_list l) = c_rep (c_list c).
Proof.
  intros l c H. unfold ll_list, c_list, go_list_fields, hdr_list_fields.
  cbn [ll_rep c_rep map]. rewrite H. reflexivity.
Qed.

Lemma ty_rep_agree : forall t, ll_rep (ll_ty t) = c_rep (c_ty t).
Proof.
  intros t; induction t as [p | | | e IHe | fs IHfs | u IHu] using ty_ind_nested.
  - apply prim_rep_agree.
  - apply string_rep_agree.
  - apply any_rep_agree.
  - cbn [ll_ty c_ty]. apply list_rep_agree. exact IHe.
  - cbn [ll_ty c_ty ll_rep c_rep]. f_equal. rewrite !map_map.
    induction IHfs as [| x r Hx Hr IH]; [reflexivity |].
    cbn [map]. rewrite Hx, IH. reflexivity.
  - cbn [ll_ty c_ty]. exact IHu.
Qed.

Lemma param_rep_agree : forall p, ll_rep (ll_param p) = c_rep (c_param p).
Proof.
  intros p. unfold ll_param, c_param.
  destruct (negb (p_ref p) && is_prim (p_ty p)).
  - apply ty_rep_agree.
  - cbn [ll_rep c_rep]. rewrite ty_rep_agree. reflexivity.
Qed.

(* the compiler addresses the fields of Text, lists and Variable by index constants; they name the same
   positions as the header's field order (regenerated tables) *)
Lemma field_roles_agree :
  go_list_roles = hdr_list_roles /\ go_string_roles = hdr_string_roles /\ go_any_roles = hdr_any_roles.
Proof. repeat split. Qed.

(* induction on the parameter list: any arity *)
Lemma params_rep_agree : forall ps, map ll_rep (map ll_param ps) = map c_rep (map c_param ps).
Proof.
  induction ps as [| p ps IH]; [reflexivity |].
  cbn [map]. rewrite param_rep_agree, IH. reflexivity.
Qed.

Lemma sig_lowering_is_abi : forall s, abi_of_ir (lower_sig s) = abi_of_c (c_sig s).
Proof.
  intros [n ps r]. unfold lower_sig, c_sig, abi_of_ir, abi_of_c, ret_is_prim.
  cbn [s_ret s_params s_name].
  destruct r as [r |].
  - destruct (is_prim r) eqn:Hp; cbn [negb is_name is_ret is_params cs_name cs_ret cs_params map ll_rep c_rep].
    + rewrite ty_rep_agree, params_rep_agree. reflexivity.
    + rewrite ty_rep_agree, params_rep_agree. reflexivity.
  - cbn [negb is_name is_ret is_params cs_name cs_ret cs_params ll_rep c_rep].
    rewrite params_rep_agree. reflexivity.
Qed.

Lemma imported_decl_agrees : forall s, lower_sig_imported s = lower_sig s.
Proof.
  intros s. unfold lower_sig_imported, lower_sig. destruct (negb (ret_is_prim (s_ret s))); reflexivity.
Qed.

Lemma sig_lowering_is_abi_both : forall s,
  abi_of_ir (lower_sig s) = abi_of_c (c_sig s) /\ abi_of_ir (lower_sig_imported s) = abi_of_c (c_sig s).
Proof. intros s. rewrite imported_decl_agrees. split; apply sig_lowering_is_abi. Qed.

(* shape of the published convention, stated on its own (readable spec of c_sig) *)
Lemma c_sig_shape : forall s,
  length (cs_params (c_sig s)) = length (s_params s) + (if ret_is_prim (s_ret s) then 0 else 1) /\
  (ret_is_prim (s_ret s) = false -> cs_ret (c_sig s) = CVoid /\
     exists r, s_ret s = Some r /\ nth_error (cs_params (c_sig s)) 0 = Some (CPtr (c_ty r))) /\
  (forall i p, nth_error (s_params s) i = Some p ->
     nth_error (cs_params (c_sig s)) (i + (if ret_is_prim (s_ret s) then 0 else 1)) =
       Some (if negb (p_ref p) && is_prim (p_ty p) then c_ty (p_ty p) else CPtr (c_ty (p_ty p)))).
Proof.
  intros [n ps r]. unfold c_sig, ret_is_prim. cbn [s_ret s_params s_name].
  destruct r as [r |]; [destruct (is_prim r) eqn:Hp |]; cbn [cs_params cs_ret length].
  - rewrite map_length. split; [lia |]. split; [congruence |].
    intros i p H. rewrite Nat.add_0_r. rewrite nth_error_map, H. reflexivity.
  - rewrite map_length. split; [lia |]. split.
    + intros _. split; [reflexivity |]. exists r. split; reflexivity.
    + intros i p H. replace (i + 1) with (S i) by lia. cbn [nth_error]. rewrite nth_error_map, H. reflexivity.
  - rewrite map_length. split; [lia |]. split; [congruence |].
    intros i p H. rewrite Nat.add_0_r. rewrite nth_error_map, H. reflexivity.
Qed.

(* ---------------------------------------------------------------------------------------------- *)
(* 2. names                                                                                       *)
(* ---------------------------------------------------------------------------------------------- *)
Lemma extern_not_mangled :
  forall (M : Type) (modhash : M -> str) (d : fdecl) (m : M),
    d_extern d = true -> mangled_name M modhash d m = d_name d.
Proof. intros M h d m H. unfold mangled_name. rewrite H. reflexivity. Qed.

Lemma extern_visible_not_mangled :
  forall (M : Type) (modhash : M -> str) (d : fdecl) (m : M),
    d_extern_visible d = true -> mangled_name M modhash d m = d_name d.
Proof. intros M h d m H. unfold mangled_name. rewrite H, orb_true_r. reflexivity. Qed.

(* an ordinary function does carry the module suffix (so the statement above is not vacuous) *)
Lemma ordinary_is_mangled :
  forall (M : Type) (modhash : M -> str) (d : fdecl) (m : M),
    d_extern d = false -> d_extern_visible d = false ->
    exists pre, mangled_name M modhash d m = pre ++ mod_sep ++ modhash m.
Proof. intros M h d m H1 H2. unfold mangled_name. rewrite H1, H2. cbn [orb]. eexists. reflexivity. Qed.

(* ---------------------------------------------------------------------------------------------- *)
(* 3. ownership around the call                                                                   *)
(* ---------------------------------------------------------------------------------------------- *)
Definition argval_of (i : nat) (p : param) : argval :=
  if p_ref p then VRefTo i else if is_prim (p_ty p) then VPrim i else VSlot i.
Fixpoint argvals (i : nat) (ps : list param) : list argval :=
  match ps with [] => [] | p :: r => argval_of i p :: argvals (S i) r end.

Lemma run_app : forall a b st,
  run st (a ++ b) = match run st a with Some st' => run st' b | None => None end.
Proof.
  induction a as [| x a IH]; intros b st; [reflexivity |].
  cbn [app run]. destruct (step st x); [apply IH | reflexivity].
Qed.

Lemma argvals_app : forall a b i, argvals i (a ++ b) = argvals i a ++ argvals (length a + i) b.
Proof.
  induction a as [| p a IH]; intros b i; [reflexivity |].
  cbn [app argvals length]. rewrite IH. do 2 f_equal. f_equal. lia.
Qed.

Lemma argvals_length : forall ps i, length (argvals i ps) = length ps.
Proof. induction ps as [| p ps IH]; intros i; [reflexivity |]. cbn [argvals length]. rewrite IH. reflexivity. Qed.

Lemma owned_ge : forall ps i j, In j (owned_indices i ps) -> i <= j.
Proof.
  induction ps as [| p ps IH]; intros i j H; [destruct H |].
  cbn [owned_indices] in H. apply in_app_or in H. destruct H as [H | H].
  - destruct (negb (p_ref p) && negb (is_prim (p_ty p))); [| destruct H].
    destruct H as [H | []]. lia.
  - apply IH in H. lia.
Qed.

Lemma owned_nodup : forall ps i, NoDup (owned_indices i ps).
Proof.
  induction ps as [| p ps IH]; intros i; [constructor |].
  cbn [owned_indices]. destruct (negb (p_ref p) && negb (is_prim (p_ty p))); cbn [app]; [| apply IH].
  constructor; [| apply IH]. intros H. apply owned_ge in H. lia.
Qed.

Lemma owned_spec : forall ps i j,
  In j (owned_indices i ps) <->
  exists p, nth_error ps (j - i) = Some p /\ i <= j /\ p_ref p = false /\ is_prim (p_ty p) = false.
Proof.
  induction ps as [| p ps IH]; intros i j.
  - cbn [owned_indices]. split; [intros [] |]. intros [q [H _]]. destruct (j - i); discriminate H.
  - cbn [owned_indices]. rewrite in_app_iff, IH. split.
    + intros [H | [q [H1 [H2 H3]]]].
      * destruct (p_ref p) eqn:Hr; cbn [negb andb] in H; [destruct H |].
        destruct (is_prim (p_ty p)) eqn:Hp; cbn [negb] in H; [destruct H |].
        destruct H as [H | []]. subst j. exists p. rewrite Nat.sub_diag. cbn [nth_error]. auto.
      * exists q. replace (j - i) with (S (j - S i)) by lia. cbn [nth_error]. split; [exact H1 |]. split; [lia | exact H3].
    + intros [q [H1 [H2 [H3 H4]]]]. destruct (Nat.eq_dec i j) as [E | E].
      * left. subst j. rewrite Nat.sub_diag in H1. cbn [nth_error] in H1. injection H1 as H1. subst q.
        rewrite H3, H4. cbn [negb andb]. left. reflexivity.
      * right. exists q. replace (j - i) with (S (j - S i)) in H1 by lia. cbn [nth_error] in H1.
        split; [exact H1 |]. split; [lia | auto].
Qed.

Lemma mem_head : forall i l, mem i (i :: l) = true.
Proof. intros i l. cbn [mem]. rewrite Nat.eqb_refl. reflexivity. Qed.
Lemma remove_head : forall i l, remove_one i (i :: l) = l.
Proof. intros i l. cbn [remove_one]. rewrite Nat.eqb_refl. reflexivity. Qed.

Lemma mem_last : forall l i, mem i (l ++ [i]) = true.
Proof.
  induction l as [| y l IH]; intros i; cbn [app mem]; [rewrite Nat.eqb_refl; reflexivity |].
  rewrite IH. apply orb_true_r.
Qed.
Lemma remove_last : forall l i, ~ In i l -> remove_one i (l ++ [i]) = l.
Proof.
  induction l as [| y l IH]; intros i H; cbn [app remove_one]; [rewrite Nat.eqb_refl; reflexivity |].
  destruct (Nat.eqb i y) eqn:E.
  - apply Nat.eqb_eq in E. subst y. exfalso. apply H. left. reflexivity.
  - rewrite IH; [reflexivity |]. intros HI. apply H. right. exact HI.
Qed.

(* phase 1: the argument loop *)
Lemma arg_phase : forall ps ks i A SL F ro,
  length ks = length ps ->
  run {| st_args := A; st_slots := SL; st_temps := temp_indices i ps ks; st_called := false;
         st_result_owned := ro; st_freed := F |} (arg_actions i ps ks)
  = Some {| st_args := A ++ argvals i ps; st_slots := rev (owned_indices i ps) ++ SL; st_temps := [];
            st_called := false; st_result_owned := ro; st_freed := F |}.
Proof.
  induction ps as [| p ps IH]; intros ks i A SL F ro Hlen.
  - destruct ks; [| discriminate Hlen]. cbn. rewrite app_nil_r. reflexivity.
  - destruct ks as [| k ks]; [discriminate Hlen |]. injection Hlen as Hlen.
    cbn [arg_actions run temp_indices owned_indices argvals].
    unfold arg_action, argval_of.
    destruct (p_ref p) eqn:Hr; cbn [negb andb app].
    + cbn [step st_called st_args st_slots st_temps st_result_owned st_freed].
      rewrite IH by exact Hlen. rewrite <- app_assoc. reflexivity.
    + destruct (is_prim (p_ty p)) eqn:Hp; cbn [negb app].
      * cbn [step st_called st_args st_slots st_temps st_result_owned st_freed].
        rewrite IH by exact Hlen. rewrite <- app_assoc. reflexivity.
      * destruct k; cbn [step st_called st_args st_slots st_temps st_result_owned st_freed app].
        -- rewrite mem_head, remove_head. rewrite IH by exact Hlen.
           cbn [rev]. rewrite <- !app_assoc. reflexivity.
        -- rewrite IH by exact Hlen. cbn [rev]. rewrite <- !app_assoc. reflexivity.
Qed.

(* phase 3: the free loop, over a suffix [ps] of the parameter list starting at index i *)
Lemma free_phase : forall (ps done : list param) (pre : list argval) (rp : bool) T F ro,
  length pre = (if rp then 0 else 1) ->
  run {| st_args := pre ++ argvals 0 (done ++ ps); st_slots := rev (owned_indices (length done) ps); st_temps := T;
         st_called := true; st_result_owned := ro; st_freed := F |} (free_actions rp (length done) ps)
  = Some {| st_args := pre ++ argvals 0 (done ++ ps); st_slots := []; st_temps := T; st_called := true;
            st_result_owned := ro; st_freed := F ++ owned_indices (length done) ps |}.
Proof.
  induction ps as [| p ps IH]; intros done pre rp T F ro Hpre.
  - cbn. rewrite !app_nil_r. reflexivity.
  - cbn [free_actions owned_indices].
    assert (Hnext : done ++ p :: ps = (done ++ [p]) ++ ps) by (rewrite <- app_assoc; reflexivity).
    assert (Hl : length (done ++ [p]) = S (length done)) by (rewrite app_length; cbn [length]; lia).
    destruct (p_ref p) eqn:Hr; cbn [negb andb app].
    + specialize (IH (done ++ [p]) pre rp T F ro Hpre). rewrite Hl, <- Hnext in IH. exact IH.
    + destruct (is_prim (p_ty p)) eqn:Hp; cbn [negb app].
      * specialize (IH (done ++ [p]) pre rp T F ro Hpre). rewrite Hl, <- Hnext in IH. exact IH.
      * cbn [run step st_called st_args st_slots st_temps st_result_owned st_freed rev].
        assert (Hnth : nth_error (pre ++ argvals 0 (done ++ p :: ps)) (if rp then length done else S (length done))
                       = Some (VSlot (length done))).
        { replace (if rp then length done else S (length done)) with (length pre + length done)
            by (rewrite Hpre; destruct rp; lia).
          rewrite nth_error_app2 by lia. replace (length pre + length done - length pre) with (length done) by lia.
          rewrite argvals_app, nth_error_app2 by (rewrite argvals_length; lia).
          rewrite argvals_length, Nat.sub_diag. cbn [argvals nth_error]. unfold argval_of. rewrite Hr, Hp.
          rewrite Nat.add_0_r. reflexivity. }
        rewrite Hnth, mem_last.
        rewrite remove_last.
        2:{ rewrite <- in_rev. intros HI. apply owned_ge in HI. lia. }
        specialize (IH (done ++ [p]) pre rp T (F ++ [length done]) ro Hpre). rewrite Hl, <- Hnext in IH.
        rewrite IH. rewrite <- app_assoc. reflexivity.
Qed.

(* the whole plan *)
Definition final_state (s : signature) : cstate :=
  let rp := ret_is_prim (s_ret s) in
  {| st_args := (if rp then [] else [VRet]) ++ argvals 0 (s_params s);
     st_slots := []; st_temps := []; st_called := true; st_result_owned := negb rp;
     st_freed := owned_indices 0 (s_params s) |}.

Lemma call_plan_runs : forall s ks,
  length ks = length (s_params s) ->
  run (init_state (temp_indices 0 (s_params s) ks)) (call_plan s ks) = Some (final_state s).
Proof.
  intros s ks Hlen. unfold call_plan, init_state, final_state.
  set (rp := ret_is_prim (s_ret s)). set (ps := s_params s) in *.
  destruct rp eqn:Hrp; cbn [app negb].
  - rewrite run_app. rewrite arg_phase by exact Hlen. cbn [app run step st_called st_args st_slots st_temps st_result_owned st_freed].
    rewrite app_nil_r.
    pose proof (free_phase ps [] [] true [] [] false eq_refl) as H. cbn [app length] in H. exact H.
  - cbn [run step st_called st_args st_slots st_temps st_result_owned st_freed app].
    rewrite run_app. rewrite arg_phase by exact Hlen.
    cbn [app run step st_called st_args st_slots st_temps st_result_owned st_freed andb negb].
    rewrite app_nil_r.
    pose proof (free_phase ps [] [VRet] false [] [] true eq_refl) as H. cbn [app length] in H. exact H.
Qed.

Lemma argvals_nth : forall ps i j p, nth_error ps j = Some p -> nth_error (argvals i ps) j = Some (argval_of (i + j) p).
Proof.
  induction ps as [| q ps IH]; intros i j p H; [destruct j; discriminate H |].
  destruct j as [| j]; cbn [nth_error argvals] in *.
  - injection H as H. subst q. rewrite Nat.add_0_r. reflexivity.
  - rewrite (IH (S i) j p H). do 2 f_equal. lia.
Qed.

(* the statement of Props/C18.v *)
Lemma extern_call_ownership : forall s ks,
  length ks = length (s_params s) ->
  exists st,
    run (init_state (temp_indices 0 (s_params s) ks)) (call_plan s ks) = Some st /\
    (* every value the caller made for the call has been released, exactly once, after the call *)
    st_slots st = [] /\ NoDup (st_freed st) /\
    (forall i, In i (st_freed st) <->
       exists p, nth_error (s_params s) i = Some p /\ p_ref p = false /\ is_prim (p_ty p) = false) /\
    (* no argument temporary is left to the scope (it would be released a second time) *)
    st_temps st = [] /\
    (* the result is an owned temporary exactly when it is not primitive *)
    st_result_owned st = negb (ret_is_prim (s_ret s)) /\
    (* what the callee received per parameter *)
    (forall i p, nth_error (s_params s) i = Some p ->
       nth_error (st_args st) (i + (if ret_is_prim (s_ret s) then 0 else 1)) =
         Some (if p_ref p then VRefTo i else if is_prim (p_ty p) then VPrim i else VSlot i)) /\
    (ret_is_prim (s_ret s) = false -> nth_error (st_args st) 0 = Some VRet) /\
    (* copied iff the argument was not an owned temporary, claimed iff it was *)
    (forall i p k, nth_error (s_params s) i = Some p -> nth_error ks i = Some k ->
       p_ref p = false -> is_prim (p_ty p) = false ->
       In (match k with ArgTemp => Claim i | ArgVar => Copy i end) (call_plan s ks) /\
       ~ In (match k with ArgTemp => Copy i | ArgVar => Claim i end) (call_plan s ks)).
Proof.
  intros s ks Hlen. exists (final_state s). split; [apply call_plan_runs; exact Hlen |].
  unfold final_state. cbn [st_slots st_freed st_temps st_result_owned st_args].
  split; [reflexivity |]. split; [apply owned_nodup |]. split.
  { intros i. rewrite owned_spec. rewrite Nat.sub_0_r. split.
    - intros [p [H1 [_ H2]]]. exists p. auto.
    - intros [p [H1 H2]]. exists p. split; [exact H1 |]. split; [lia | exact H2]. }
  split; [reflexivity |]. split; [reflexivity |]. split.
  { intros i p H. destruct (ret_is_prim (s_ret s)); cbn [app].
    - rewrite Nat.add_0_r. rewrite (argvals_nth _ 0 i p H). reflexivity.
    - replace (i + 1) with (S i) by lia. cbn [nth_error]. rewrite (argvals_nth _ 0 i p H). reflexivity. }
  split.
  { intros H. rewrite H. reflexivity. }
  intros i p k Hp Hk Hr Hprim.
  assert (Hin : forall ps ks0 b j q k0 a, nth_error ps j = Some q -> nth_error ks0 j = Some k0 ->
            a = arg_action (b + j) q k0 -> In a (arg_actions b ps ks0)).
  { induction ps as [| q0 ps IH]; intros ks0 b j q k0 a H1 H2 Ha; [destruct j; discriminate H1 |].
    destruct ks0 as [| k1 ks0]; [destruct j; discriminate H2 |].
    destruct j as [| j]; cbn [nth_error arg_actions] in *.
    - injection H1 as H1. injection H2 as H2. subst. rewrite Nat.add_0_r. left. reflexivity.
    - right. apply (IH ks0 (S b) j q k0 a H1 H2). rewrite Ha. f_equal. lia. }
  assert (Hout : forall ps ks0 b a, In a (arg_actions b ps ks0) ->
            exists j q k0, nth_error ps j = Some q /\ nth_error ks0 j = Some k0 /\ a = arg_action (b + j) q k0).
  { induction ps as [| q0 ps IH]; intros ks0 b a H; [destruct H |].
    destruct ks0 as [| k1 ks0]; [destruct H |]. cbn [arg_actions] in H. destruct H as [H | H].
    - exists 0, q0, k1. rewrite Nat.add_0_r. cbn [nth_error]. auto.
    - apply IH in H. destruct H as [j [q [k0 [H1 [H2 H3]]]]]. exists (S j), q, k0. cbn [nth_error].
      split; [exact H1 |]. split; [exact H2 |]. rewrite H3. f_equal. lia. }
  split.
  - unfold call_plan. apply in_or_app. right. apply in_or_app. left.
    apply (Hin _ _ 0 i p k _ Hp Hk). unfold arg_action. rewrite Hr, Hprim. reflexivity.
  - unfold call_plan. intros H.
    assert (Hfree : forall rp b ps a, In a (free_actions rp b ps) -> exists n, a = FreeArg n).
    { intros rp b ps. revert b. induction ps as [| q ps IH]; intros b a Ha; [destruct Ha |].
      cbn [free_actions] in Ha. apply in_app_or in Ha. destruct Ha as [Ha | Ha]; [| eapply IH; exact Ha].
      destruct (p_ref q); [destruct Ha |]. destruct (is_prim (p_ty q)); [destruct Ha |].
      destruct Ha as [Ha | []]. eexists. symmetry. exact Ha. }
    apply in_app_or in H. destruct H as [H | H].
    { destruct (ret_is_prim (s_ret s)); [destruct H |]. destruct H as [H | []]. destruct k; discriminate H. }
    apply in_app_or in H. destruct H as [H | H].
    { apply Hout in H. destruct H as [j [q [k0 [H1 [H2 H3]]]]]. cbn [plus] in H3.
      unfold arg_action in H3. destruct (p_ref q) eqn:Hq; [destruct k; discriminate H3 |].
      destruct (is_prim (p_ty q)) eqn:Hq2; [destruct k; discriminate H3 |].
      destruct k, k0; try discriminate H3; injection H3 as H3; subst j; rewrite Hk in H2; discriminate H2. }
    cbn [app] in H. destruct H as [H | H]; [destruct k; discriminate H |].
    apply in_app_or in H. destruct H as [H | H].
    { destruct (ret_is_prim (s_ret s)); [destruct H |]. destruct H as [H | []]. destruct k; discriminate H. }
    apply Hfree in H. destruct H as [n H]. destruct k; discriminate H.
Qed.

(* a Referenz argument is never copied, claimed or released *)
Lemma reference_untouched : forall s ks i p,
  length ks = length (s_params s) ->
  nth_error (s_params s) i = Some p -> p_ref p = true ->
  ~ In (Copy i) (call_plan s ks) /\ ~ In (Claim i) (call_plan s ks) /\
  ~ In (FreeArg (i + (if ret_is_prim (s_ret s) then 0 else 1))) (call_plan s ks) /\
  In (PassRef i) (call_plan s ks).
Proof.
  intros s ks i p Hlen Hp Hr.
  assert (Hout : forall ps ks0 b a, In a (arg_actions b ps ks0) ->
            exists j q k0, nth_error ps j = Some q /\ nth_error ks0 j = Some k0 /\ a = arg_action (b + j) q k0).
  { induction ps as [| q0 ps IH]; intros ks0 b a H; [destruct H |].
    destruct ks0 as [| k1 ks0]; [destruct H |]. cbn [arg_actions] in H. destruct H as [H | H].
    - exists 0, q0, k1. rewrite Nat.add_0_r. cbn [nth_error]. auto.
    - apply IH in H. destruct H as [j [q [k0 [H1 [H2 H3]]]]]. exists (S j), q, k0. cbn [nth_error].
      split; [exact H1 |]. split; [exact H2 |]. rewrite H3. f_equal. lia. }
  assert (Hfree : forall rp ps b a, In a (free_actions rp b ps) ->
            exists j q, nth_error ps j = Some q /\ p_ref q = false /\ a = FreeArg ((b + j) + (if rp then 0 else 1))).
  { intros rp. induction ps as [| q ps IH]; intros b a Ha; [destruct Ha |].
    cbn [free_actions] in Ha. apply in_app_or in Ha. destruct Ha as [Ha | Ha].
    - destruct (p_ref q) eqn:Hq; [destruct Ha |]. destruct (is_prim (p_ty q)); [destruct Ha |].
      destruct Ha as [Ha | []]. exists 0, q. cbn [nth_error]. split; [reflexivity |]. split; [exact Hq |].
      rewrite <- Ha. f_equal. destruct rp; lia.
    - apply IH in Ha. destruct Ha as [j [q1 [H1 [H2 H3]]]]. exists (S j), q1. cbn [nth_error].
      split; [exact H1 |]. split; [exact H2 |]. rewrite H3. f_equal. lia. }
  assert (Hplan : forall a, In a (call_plan s ks) ->
            a = AllocRet \/ a = Call \/ a = ResultTemp \/
            (exists j q k0, nth_error (s_params s) j = Some q /\ nth_error ks j = Some k0 /\ a = arg_action j q k0) \/
            (exists j q, nth_error (s_params s) j = Some q /\ p_ref q = false /\
                         a = FreeArg (j + (if ret_is_prim (s_ret s) then 0 else 1)))).
  { intros a H. unfold call_plan in H.
    apply in_app_or in H. destruct H as [H | H].
    { destruct (ret_is_prim (s_ret s)); [destruct H |]. destruct H as [H | []]. left. symmetry. exact H. }
    apply in_app_or in H. destruct H as [H | H].
    { right. right. right. left. apply Hout in H. exact H. }
    cbn [app] in H. destruct H as [H | H]; [right; left; symmetry; exact H |].
    apply in_app_or in H. destruct H as [H | H].
    { destruct (ret_is_prim (s_ret s)); [destruct H |]. destruct H as [H | []]. right. right. left. symmetry. exact H. }
    right. right. right. right. apply Hfree in H. exact H. }
  assert (Hno : forall a, (forall j q k0, a = arg_action j q k0 -> nth_error (s_params s) j = Some q -> False) ->
                          (forall n, a <> FreeArg n) -> a <> AllocRet -> a <> Call -> a <> ResultTemp ->
                          ~ In a (call_plan s ks)).
  { intros a Ha Hf H1 H2 H3 HI. apply Hplan in HI.
    destruct HI as [E | [E | [E | [[j [q [k0 [E1 [E2 E3]]]]] | [j [q [E1 [E2 E3]]]]]]]]; try contradiction.
    - eapply Ha; eauto.
    - eapply Hf; eauto. }
  split; [| split; [| split]].
  - apply Hno; try discriminate. intros j q k0 E Hq. unfold arg_action in E.
    destruct (p_ref q) eqn:Hrq; [discriminate E |]. destruct (is_prim (p_ty q)); [discriminate E |].
    destruct k0; [discriminate E |]. injection E as E. subst j. rewrite Hp in Hq. injection Hq as Hq. subst q. congruence.
  - apply Hno; try discriminate. intros j q k0 E Hq. unfold arg_action in E.
    destruct (p_ref q) eqn:Hrq; [discriminate E |]. destruct (is_prim (p_ty q)); [discriminate E |].
    destruct k0; [| discriminate E]. injection E as E. subst j. rewrite Hp in Hq. injection Hq as Hq. subst q. congruence.
  - intros HI. apply Hplan in HI.
    destruct HI as [E | [E | [E | [[j [q [k0 [E1 [E2 E3]]]]] | [j [q [E1 [E2 E3]]]]]]]]; try discriminate E.
    + unfold arg_action in E3. destruct (p_ref q); [discriminate E3 |]. destruct (is_prim (p_ty q)); [discriminate E3 |].
      destruct k0; discriminate E3.
    + injection E3 as E3. assert (j = i) by (destruct (ret_is_prim (s_ret s)); lia). subst j.
      rewrite Hp in E1. injection E1 as E1. subst q. congruence.
  - unfold call_plan. apply in_or_app. right. apply in_or_app. left.
    assert (Hk : exists k, nth_error ks i = Some k).
    { destruct (nth_error ks i) eqn:E; [eexists; reflexivity |].
      apply nth_error_None in E. assert (i < length (s_params s)) by (apply nth_error_Some; congruence). lia. }
    destruct Hk as [k Hk].
    assert (Hin : forall ps ks0 b j q k0 a, nth_error ps j = Some q -> nth_error ks0 j = Some k0 ->
              a = arg_action (b + j) q k0 -> In a (arg_actions b ps ks0)).
    { induction ps as [| q0 ps IH]; intros ks0 b j q k0 a H1 H2 Ha; [destruct j; discriminate H1 |].
      destruct ks0 as [| k1 ks0]; [destruct j; discriminate H2 |].
      destruct j as [| j]; cbn [nth_error arg_actions] in *.
      - injection H1 as H1. injection H2 as H2. subst. rewrite Nat.add_0_r. left. reflexivity.
      - right. apply (IH ks0 (S b) j q k0 a H1 H2). rewrite Ha. f_equal. lia. }
    apply (Hin _ _ 0 i p k _ Hp Hk). unfold arg_action. rewrite Hr. reflexivity.
Qed.

(* the index arithmetic of the free loop matters: with the off-by-one dropped (args[i] although the
   out-slot occupies position 0) the plan releases the out-slot or a wrong argument — the semantics
   rejects it. Witness: one Text parameter, Text result. *)
Definition bad_plan_example : list action := [AllocRet; Copy 0; Call; ResultTemp; FreeArg 0].
Lemma wrong_index_is_an_error : run (init_state []) bad_plan_example = None.
Proof. reflexivity. Qed.

(* ---------------------------------------------------------------------------------------------- *)
(* 4. generic extern functions                                                                    *)
(* ---------------------------------------------------------------------------------------------- *)
Lemma gparam_compat : forall g, compat (ll_rep (ll_gparam g)) (c_rep (c_gparam g)).
Proof.
  intros [p | | [|]].
  - left. apply param_rep_agree.
  - right. reflexivity.
  - right. reflexivity.
  - right. reflexivity.
Qed.

Lemma gparams_compat : forall gs, Forall2 compat (map ll_rep (map ll_gparam gs)) (map c_rep (map c_gparam gs)).
Proof.
  induction gs as [| g gs IH]; [constructor |].
  cbn [map]. constructor; [apply gparam_compat | exact IH].
Qed.

(* every arity; concrete parameters agree exactly, parameters that mention T agree up to untyped pointers *)
Lemma generic_sig_lowering_compat : forall s,
  ab_name (abi_of_ir (lower_gsig s)) = ab_name (abi_of_c (c_gsig s)) /\
  compat (ab_ret (abi_of_ir (lower_gsig s))) (ab_ret (abi_of_c (c_gsig s))) /\
  Forall2 compat (ab_params (abi_of_ir (lower_gsig s))) (ab_params (abi_of_c (c_gsig s))).
Proof.
  intros [n gs r]. unfold lower_gsig, c_gsig, abi_of_ir, abi_of_c. cbn [g_name g_params g_ret].
  destruct r as [[r |] |]; cbn [gret_is_prim ret_is_prim].
  - destruct (is_prim r) eqn:Hp; cbn [negb is_name is_ret is_params cs_name cs_ret cs_params ab_name ab_ret ab_params map].
    + split; [reflexivity |]. split; [left; apply ty_rep_agree | apply gparams_compat].
    + split; [reflexivity |]. split; [left; reflexivity |].
      constructor; [left; cbn [ll_rep c_rep]; rewrite ty_rep_agree; reflexivity | apply gparams_compat].
  - cbn [negb is_name is_ret is_params cs_name cs_ret cs_params ab_name ab_ret ab_params map].
    split; [reflexivity |]. split; [left; reflexivity | apply gparams_compat].
  - cbn [negb is_name is_ret is_params cs_name cs_ret cs_params ab_name ab_ret ab_params map].
    split; [reflexivity |]. split; [left; reflexivity |].
    constructor; [right; reflexivity | apply gparams_compat].
Qed.

(* a declaration without type parameters is the special case treated above *)
Lemma gsig_of_concrete : forall s, lower_gsig (gsig_of s) = lower_sig s /\ c_gsig (gsig_of s) = c_sig s.
Proof.
  intros [n ps r]. unfold lower_gsig, c_gsig, gsig_of, lower_sig, c_sig.
  cbn [g_name g_params g_ret s_name s_params s_ret gret_is_prim]. rewrite !map_map.
  assert (E1 : map (fun x => ll_gparam (GConcrete x)) ps = map ll_param ps) by reflexivity.
  assert (E2 : map (fun x => c_gparam (GConcrete x)) ps = map c_param ps) by reflexivity.
  rewrite E1, E2.
  destruct r as [r |]; cbn [ret_is_prim]; [destruct (is_prim r) |]; cbn [negb]; split; reflexivity.
Qed.

(* ownership: the cast of the generic path does not change which slot is released *)
Lemma step_erase : forall st a, step st a = step st (erase_cast a).
Proof. intros st a; destruct a; reflexivity. Qed.

Lemma run_erase : forall p st, run st p = run st (map erase_cast p).
Proof.
  induction p as [| a p IH]; intros st; [reflexivity |].
  cbn [run map]. rewrite <- step_erase. destruct (step st a); [apply IH | reflexivity].
Qed.

Lemma free_actions_g_erase : forall ps gs rp i, map erase_cast (free_actions_g rp i ps gs) = free_actions rp i ps.
Proof.
  induction ps as [| p ps IH]; intros gs rp i; [reflexivity |].
  cbn [free_actions_g free_actions]. rewrite map_app, IH. f_equal.
  destruct (p_ref p); [reflexivity |]. destruct (is_prim (p_ty p)); [reflexivity |].
  destruct (is_list (p_ty p) && hd false gs); reflexivity.
Qed.

Lemma arg_actions_erase : forall ps ks i, map erase_cast (arg_actions i ps ks) = arg_actions i ps ks.
Proof.
  induction ps as [| p ps IH]; intros ks i; [reflexivity |].
  destruct ks as [| k ks]; [reflexivity |]. cbn [arg_actions map]. rewrite IH. f_equal.
  unfold arg_action. destruct (p_ref p); [reflexivity |]. destruct (is_prim (p_ty p)); [reflexivity |]. destruct k; reflexivity.
Qed.

Lemma call_plan_g_erase : forall s gs ks, map erase_cast (call_plan_g s gs ks) = call_plan s ks.
Proof.
  intros s gs ks. unfold call_plan_g, call_plan. rewrite !map_app, free_actions_g_erase, arg_actions_erase.
  destruct (ret_is_prim (s_ret s)); reflexivity.
Qed.

Lemma free_actions_g_casts : forall ps gs rp b k,
  In (FreeArgCast k) (free_actions_g rp b ps gs) ->
  exists j p, nth_error ps j = Some p /\ p_ref p = false /\ is_prim (p_ty p) = false /\ is_list (p_ty p) = true /\
              nth_error gs j = Some true /\ k = (b + j) + (if rp then 0 else 1).
Proof.
  induction ps as [| p ps IH]; intros gs rp b k H; [destruct H |].
  cbn [free_actions_g] in H. apply in_app_or in H. destruct H as [H | H].
  - destruct (p_ref p) eqn:Hr; [destruct H |]. destruct (is_prim (p_ty p)) eqn:Hp; [destruct H |].
    destruct (is_list (p_ty p)) eqn:Hl; cbn [andb] in H.
    + destruct gs as [| g gs]; cbn [hd] in H.
      * destruct H as [H | []]; discriminate H.
      * destruct g; destruct H as [H | []]; [| discriminate H].
        injection H as H. exists 0, p. cbn [nth_error]. repeat split; try assumption. destruct rp; lia.
    + destruct H as [H | []]; discriminate H.
  - apply IH in H. destruct H as [j [q [H1 [H2 [H3 [H4 [H5 H6]]]]]]].
    exists (S j), q. cbn [nth_error]. repeat split; try assumption.
    + destruct gs; [destruct j; discriminate H5 | exact H5].
    + lia.
Qed.

Lemma generic_extern_call_ownership : forall s gs ks,
  length ks = length (s_params s) ->
  exists st,
    run (init_state (temp_indices 0 (s_params s) ks)) (call_plan_g s gs ks) = Some st /\
    (* the same final ownership state as without the casts: everything made for the call released exactly
       once, nothing else, result owned *)
    run (init_state (temp_indices 0 (s_params s) ks)) (call_plan s ks) = Some st /\
    st_slots st = [] /\ NoDup (st_freed st) /\ st_temps st = [] /\
    st_result_owned st = negb (ret_is_prim (s_ret s)) /\
    (* the slot that is cast back and released is the slot of exactly that generic by-value list argument,
       also behind an out-pointer *)
    (forall k, In (FreeArgCast k) (call_plan_g s gs ks) ->
       exists i p, nth_error (s_params s) i = Some p /\ p_ref p = false /\ is_list (p_ty p) = true /\
                   nth_error gs i = Some true /\
                   k = i + (if ret_is_prim (s_ret s) then 0 else 1) /\
                   nth_error (st_args st) k = Some (VSlot i)).
Proof.
  intros s gs ks Hlen.
  destruct (extern_call_ownership s ks Hlen) as [st [Hrun [Hs [Hnd [_ [Ht [Hr [Hargs _]]]]]]]].
  exists st. split; [rewrite run_erase, call_plan_g_erase; exact Hrun |].
  split; [exact Hrun |]. split; [exact Hs |]. split; [exact Hnd |]. split; [exact Ht |]. split; [exact Hr |].
  intros k H. unfold call_plan_g in H.
  apply in_app_or in H. destruct H as [H | H].
  { destruct (ret_is_prim (s_ret s)); [destruct H |]. destruct H as [H | []]; discriminate H. }
  apply in_app_or in H. destruct H as [H | H].
  { exfalso. clear - H. revert H. generalize 0 ks. induction (s_params s) as [| p ps IH]; intros b ks0 H; [destruct H |].
    destruct ks0 as [| k0 ks0]; [destruct H |]. cbn [arg_actions] in H. destruct H as [H | H]; [| eapply IH; exact H].
    unfold arg_action in H. destruct (p_ref p); [discriminate H |]. destruct (is_prim (p_ty p)); [discriminate H |].
    destruct k0; discriminate H. }
  cbn [app] in H. destruct H as [H | H]; [discriminate H |].
  apply in_app_or in H. destruct H as [H | H].
  { destruct (ret_is_prim (s_ret s)); [destruct H |]. destruct H as [H | []]; discriminate H. }
  apply free_actions_g_casts in H. destruct H as [j [p [H1 [H2 [H3 [H4 [H5 H6]]]]]]]. cbn [plus] in H6.
  exists j, p. repeat split; try assumption.
  rewrite H6. rewrite (Hargs j p H1). rewrite H2, H3. reflexivity.
Qed.

(* the seeded shape: the cast branch uses the un-shifted index although an out-pointer occupies position 0 *)
Lemma generic_wrong_index_is_an_error :
  run (init_state []) [AllocRet; Copy 0; Call; ResultTemp; FreeArgCast 0] = None.
Proof. reflexivity. Qed.
