(* C18 — type vocabularies shared by the hand-written model (Lower/Abi.v) and the tables regenerated from
   /repo on every run (Gen/AbiTables.v). Definitions only. *)
From Coq Require Import List.
Import ListNotations.

Inductive prim := PZahl | PKommazahl | PByte | PWahrheitswert | PBuchstabe.

(* C types as they occur in lib/runtime/include/DDP/ddptypes.h *)
Inductive cty :=
| CInt64 | CDouble | CUInt8 | CBool | CInt32 | CChar | CVoid
| CVtable                               (* ddpvtable, only ever behind a pointer *)
| CPtr (t : cty)
| CStruct (fs : list cty)
| CAnyUnion.                            (* union { void *value_ptr; uint8_t value[16]; } *)

(* LLVM types as the compiler builds them with llir *)
Inductive llty :=
| LI1 | LI8 | LI32 | LI64 | LDouble | LVoid
| LPtr (t : llty)
| LStruct (fs : list llty)
| LArray (n : nat) (t : llty).

