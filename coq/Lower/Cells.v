(* C02 — the finite cell space (operator x operand type classes x value context), the end-to-end verdict the
   model predicts for the one-statement program of a cell, and the per-cell correctness predicate of the
   property.  Definitions only; proofs in CellsProofs.v. *)
From Coq Require Import List Bool.
Import ListNotations.
From DDP Require Import Gen.OperatorEnum Lower.TcTable Lower.LowerTable.

Inductive cell : Set :=
| CUn (op : unop) (a : ty)
| CBin (op : binop) (a b : ty)
| CField (f : field) (a : ty)          (* f von a *)
| CTer (op : terop) (a b c : ty)
| CCast (op : castop) (a target : ty).

Definition tc (c : cell) : option ty :=
  match c with
  | CUn op a => tc_unop op a
  | CBin op a b => tc_binop op a b
  | CField f a => tc_field f a
  | CTer op a b c => tc_terop op a b c
  | CCast _ a t => tc_cast a t
  end.

Definition lower (c : cell) : lres :=
  match c with
  | CUn op a => lower_unop op (ir a)
  | CBin op a b => lower_binop op (ir a) (ir b)
  | CField f a => lower_field f (ir a)
  | CTer op a b c => lower_terop op (ir a) (ir b) (ir c)
  | CCast _ a t => lower_cast (ir a) t
  end.

(* ---- enumerations --------------------------------------------------------------------------- *)
Definition all_bases : list base := [BZahl; BKomma; BByte; BBool; BChar; BText; BStruct; BAny; BDef].
Definition all_tys : list ty := map TB all_bases ++ map TL all_bases ++ [TAlias].
Definition all_fields : list field := [FZahl; FText; FList].

Definition all_cells : list cell :=
  flat_map (fun op => map (CUn op) all_tys) all_unops
  ++ flat_map (fun op => flat_map (fun a => map (CBin op a) all_tys) all_tys) all_binops
  ++ flat_map (fun f => map (CField f) all_tys) all_fields
  ++ flat_map (fun op => flat_map (fun a => flat_map (fun b => map (CTer op a b) all_tys) all_tys) all_tys) all_terops
  ++ flat_map (fun op => flat_map (fun a => map (CCast op a) all_tys) all_tys) all_castops.

Definition all_ctxs : list ctx :=
  [CInitAny; CCond; CElem] ++ map CInit all_tys ++ map CAssign all_tys ++ map CArg all_tys ++ map CReturn all_tys.

(* ---- the property on one cell ------------------------------------------------------------- *)
(* "every operator application that type-checks has a lowering whose IR types are consistent with the type the
   checker assigned" *)
Definition cell_ok (c : cell) : bool :=
  match tc c with
  | None => true
  | Some t =>
      match lower c with
      | Err => false
      | Ok d v code => ir_well_typed (Ok d v code) && irty_eqb d (ir t)
      end
  end.

Definition bad_cells : list cell := filter (fun c => negb (cell_ok c)) all_cells.

(* a context the code generator can serve at all for an expression of type t, given a correct operand *)
Definition ctx_ok (x : ctx) (t : ty) : bool :=
  match lower_ctx x t (ir t) (ir t) with
  | Err => false
  | Ok _ _ code => match code_verdict code with VOk => true | _ => false end
  end.

Definition bad_ctxs : list (ctx * ty) :=
  filter (fun p => ctx_admits (fst p) (snd p) && negb (ctx_ok (fst p) (snd p)))
         (flat_map (fun x => map (pair x) all_tys) all_ctxs).

(* ---- what kddp does with the one-statement program "cell c in context x" ------------------- *)
Definition verdict_of (c : cell) (x : ctx) : verdict :=
  match tc c with
  | None => VReject
  | Some t =>
      if negb (ctx_admits x t) then VReject
      else match lower c with
           | Err => VInternal
           | Ok d v code =>
               match lower_ctx x t d v with
               | Err => VInternal
               | Ok _ _ code' => code_verdict (code ++ code')
               end
           end
  end.

(* ---- statement-level operand positions ------------------------------------------------------ *)
Definition all_stmts : list stmt :=
  map SRepeat all_tys ++ map SWhile all_tys ++ map SIf all_tys
  ++ flat_map (fun a => map (SListCount a) all_tys) all_tys
  ++ flat_map (fun a => map (SListLit a) all_tys) all_tys
  ++ flat_map (fun a => flat_map (fun b => map (SIndexAssign a b) all_tys) all_tys) all_tys
  ++ flat_map (fun a => flat_map (fun b => map (SFor a b) all_tys) all_tys) all_tys
  ++ flat_map (fun a => flat_map (fun b => flat_map (fun c => map (SForStep a b c) all_tys) all_tys) all_tys) all_tys
  ++ flat_map (fun a => map (SForRange a) all_tys) all_tys.

Definition stmt_ok (s : stmt) : bool := negb (tc_stmt s) || stmt_well_typed (lower_stmt s).

Definition bad_stmts : list stmt := filter (fun s => negb (stmt_ok s)) all_stmts.
