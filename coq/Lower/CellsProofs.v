(* C02 — proofs over the finite cell space: completeness of the enumerations (so that a `forallb` decided by
   vm_compute is a statement about ALL cells), lowering_total for every cell, the consistency of the value
   contexts, and the end-to-end statement.  (On the pinned tree lowering_total was refuted in 37 cells and the
   list-element context failed for list-typed elements; the tables of that tree are kept in
   /verif/models/c02_pinned, the repairs are the eight `fixed: property=C02` lines of KNOWN_FINDINGS.jsonl.) *)
From Coq Require Import List Bool.
Import ListNotations.
From DDP Require Import Gen.OperatorEnum Lower.TcTable Lower.LowerTable Lower.Cells.

(* ---- the enumerations are complete -------------------------------------------------------- *)
Ltac in_enum := cbv; repeat (first [left; reflexivity | right]).

Lemma all_unops_complete : forall op : unop, In op all_unops.
Proof. destruct op; in_enum. Qed.
Lemma all_binops_complete : forall op : binop, In op all_binops.
Proof. destruct op; in_enum. Qed.
Lemma all_terops_complete : forall op : terop, In op all_terops.
Proof. destruct op; in_enum. Qed.
Lemma all_castops_complete : forall op : castop, In op all_castops.
Proof. destruct op; in_enum. Qed.
Lemma all_bases_complete : forall b : base, In b all_bases.
Proof. destruct b; in_enum. Qed.
Lemma all_fields_complete : forall f : field, In f all_fields.
Proof. destruct f; in_enum. Qed.

Lemma all_tys_complete : forall t : ty, In t all_tys.
Proof.
  intros t. unfold all_tys. destruct t as [b | b | ].
  - apply in_or_app. left. apply in_map. apply all_bases_complete.
  - apply in_or_app. right. apply in_or_app. left. apply in_map. apply all_bases_complete.
  - apply in_or_app. right. apply in_or_app. right. left. reflexivity.
Qed.

Lemma all_cells_complete : forall c : cell, In c all_cells.
Proof.
  intros c. unfold all_cells. destruct c as [op a | op a b | f a | op a b c | op a t].
  - apply in_or_app. left.
    apply in_flat_map. exists op. split; [apply all_unops_complete | apply in_map, all_tys_complete].
  - apply in_or_app. right. apply in_or_app. left.
    apply in_flat_map. exists op. split; [apply all_binops_complete | ].
    apply in_flat_map. exists a. split; [apply all_tys_complete | apply in_map, all_tys_complete].
  - apply in_or_app. right. apply in_or_app. right. apply in_or_app. left.
    apply in_flat_map. exists f. split; [apply all_fields_complete | apply in_map, all_tys_complete].
  - apply in_or_app. right. apply in_or_app. right. apply in_or_app. right. apply in_or_app. left.
    apply in_flat_map. exists op. split; [apply all_terops_complete | ].
    apply in_flat_map. exists a. split; [apply all_tys_complete | ].
    apply in_flat_map. exists b. split; [apply all_tys_complete | apply in_map, all_tys_complete].
  - apply in_or_app. right. apply in_or_app. right. apply in_or_app. right. apply in_or_app. right.
    apply in_flat_map. exists op. split; [apply all_castops_complete | ].
    apply in_flat_map. exists a. split; [apply all_tys_complete | apply in_map, all_tys_complete].
Qed.

Lemma all_ctxs_complete : forall x : ctx, In x all_ctxs.
Proof.
  intros x. unfold all_ctxs. cbn [app].
  destruct x as [ | d | d | d | d | | ].
  - left. reflexivity.
  - right. right. right. apply in_or_app. left. apply in_map, all_tys_complete.
  - right. right. right. apply in_or_app. right. apply in_or_app. left. apply in_map, all_tys_complete.
  - right. right. right. apply in_or_app. right. apply in_or_app. right. apply in_or_app. left.
    apply in_map, all_tys_complete.
  - right. right. right. apply in_or_app. right. apply in_or_app. right. apply in_or_app. right.
    apply in_map, all_tys_complete.
  - right. left. reflexivity.
  - right. right. left. reflexivity.
Qed.

(* lifting: a boolean predicate decided on the enumeration holds for every cell *)
Lemma forall_cells (p : cell -> bool) : forallb p all_cells = true -> forall c, p c = true.
Proof. intros H c. exact (proj1 (forallb_forall p all_cells) H c (all_cells_complete c)). Qed.

(* ---- irty_eqb decides equality ------------------------------------------------------------- *)
Lemma irty_eqb_eq : forall a b, irty_eqb a b = true <-> a = b.
Proof.
  intros [x | x] [y | y]; destruct x, y; cbn; split; intro H; try reflexivity; try discriminate H.
Qed.

(* ---- cell_ok is the statement of lowering_total for one cell ------------------------------ *)
Definition lowering_total_at (c : cell) : Prop :=
  forall t, tc c = Some t ->
    exists d v code, lower c = Ok d v code /\ ir_well_typed (Ok d v code) = true /\ d = ir t.

Lemma cell_ok_spec : forall c, cell_ok c = true <-> lowering_total_at c.
Proof.
  intros c. unfold cell_ok, lowering_total_at. split.
  - intros H t Ht. rewrite Ht in H. destruct (lower c) as [ | d v code] eqn:El; [discriminate H | ].
    apply andb_true_iff in H. destruct H as [Hw He].
    exists d, v, code. split; [reflexivity | ]. split; [exact Hw | ]. apply irty_eqb_eq. exact He.
  - intros H. destruct (tc c) as [t | ] eqn:Et; [ | reflexivity].
    destruct (H t eq_refl) as (d & v & code & El & Hw & He).
    rewrite El. apply andb_true_iff. split; [exact Hw | ]. apply irty_eqb_eq. exact He.
Qed.

(* ---- no failing cell --------------------------------------------------------------------------- *)
Lemma bad_cells_spec : forall c, In c bad_cells <-> cell_ok c = false.
Proof.
  intros c. unfold bad_cells. rewrite filter_In. split.
  - intros [_ H]. apply negb_true_iff in H. exact H.
  - intros H. split; [apply all_cells_complete | ]. apply negb_true_iff. exact H.
Qed.

Lemma bad_cells_computed : bad_cells = [].
Proof. vm_compute. reflexivity. Qed.

Lemma all_cells_ok : forall c, cell_ok c = true.
Proof.
  intros c. destruct (cell_ok c) eqn:E; [reflexivity | ]. exfalso.
  pose proof (proj2 (bad_cells_spec c) E) as H. rewrite bad_cells_computed in H. exact H.
Qed.

Lemma lowering_total :
  forall c t, tc c = Some t ->
    exists d v code, lower c = Ok d v code /\ ir_well_typed (Ok d v code) = true /\ d = ir t.
Proof. intros c t Ht. exact (proj1 (cell_ok_spec c) (all_cells_ok c) t Ht). Qed.

(* ---- value contexts --------------------------------------------------------------------------- *)
Lemma bad_ctxs_computed : bad_ctxs = [].
Proof. vm_compute. reflexivity. Qed.

Lemma all_ctx_pairs_complete :
  forall x t, In (x, t) (flat_map (fun x => map (pair x) all_tys) all_ctxs).
Proof.
  intros x t. apply in_flat_map. exists x. split; [apply all_ctxs_complete | apply in_map, all_tys_complete].
Qed.

(* every context the checker admits for a type is served by the code generator when the operand was lowered
   consistently *)
Lemma context_consistent :
  forall x t, ctx_admits x t = true -> ctx_ok x t = true.
Proof.
  intros x t Ha. destruct (ctx_ok x t) eqn:E; [reflexivity | ]. exfalso.
  assert (H : In (x, t) bad_ctxs).
  { unfold bad_ctxs. apply filter_In. split; [apply all_ctx_pairs_complete | ].
    cbn [fst snd]. rewrite Ha, E. reflexivity. }
  rewrite bad_ctxs_computed in H. exact H.
Qed.

Lemma context_consistent_code :
  forall x t, ctx_admits x t = true ->
    exists d v code, lower_ctx x t (ir t) (ir t) = Ok d v code /\ code_verdict code = VOk.
Proof.
  intros x t Ha. pose proof (context_consistent x t Ha) as H. unfold ctx_ok in H.
  destruct (lower_ctx x t (ir t) (ir t)) as [ | d v code]; [discriminate H | ].
  exists d, v, code. split; [reflexivity | ]. destruct (code_verdict code); try discriminate H. reflexivity.
Qed.

(* ---- end to end: whatever the frontend admits, kddp compiles ------------------------------------ *)
Definition e2e_ok (c : cell) : bool :=
  match tc c with
  | None => true
  | Some t =>
      forallb (fun x => negb (ctx_admits x t) ||
                        match verdict_of c x with VOk => true | _ => false end) all_ctxs
  end.

Lemma e2e_all : forallb e2e_ok all_cells = true.
Proof. vm_compute. reflexivity. Qed.

Lemma admitted_cells_compile :
  forall c x t, tc c = Some t -> ctx_admits x t = true -> verdict_of c x = VOk.
Proof.
  intros c x t Ht Ha.
  pose proof (forall_cells e2e_ok e2e_all c) as H. unfold e2e_ok in H. rewrite Ht in H.
  pose proof (proj1 (forallb_forall _ _) H x (all_ctxs_complete x)) as Hx. cbn beta in Hx.
  rewrite Ha in Hx. cbn [negb orb] in Hx.
  destruct (verdict_of c x); try discriminate Hx. reflexivity.
Qed.

(* the verdict is a frontend rejection exactly when the checker table (or the context rule) rejects *)
Lemma verdict_reject_iff :
  forall c x, verdict_of c x = VReject <-> (tc c = None \/ exists t, tc c = Some t /\ ctx_admits x t = false).
Proof.
  intros c x. unfold verdict_of. destruct (tc c) as [t | ] eqn:Et.
  - destruct (ctx_admits x t) eqn:Ea; cbn [negb].
    + split.
      * intros H. exfalso. destruct (lower c) as [ | d v code]; [discriminate H | ].
        destruct (lower_ctx x t d v) as [ | d' v' code']; [discriminate H | ].
        unfold code_verdict in H. destruct (any_judged Panic (code ++ code')); [discriminate H | ].
        destruct (any_judged Ill (code ++ code')); discriminate H.
      * intros [H | (t' & Ht' & Ha')]; [discriminate H | ]. injection Ht' as <-. rewrite Ea in Ha'. discriminate Ha'.
    + split; [intros _; right; exists t; split; [reflexivity | exact Ea] | reflexivity].
  - split; [intros _; left; reflexivity | reflexivity].
Qed.

(* ---- statement-level operand positions ------------------------------------------------------ *)
Lemma all_stmts_complete : forall s : stmt, In s all_stmts.
Proof.
  intros s. unfold all_stmts.
  destruct s as [a | a | a | a b | a b | a b c | a b c | a b c d | a b].
  - apply in_or_app. left. apply in_map, all_tys_complete.
  - apply in_or_app. right. apply in_or_app. left. apply in_map, all_tys_complete.
  - do 2 (apply in_or_app; right). apply in_or_app. left. apply in_map, all_tys_complete.
  - do 3 (apply in_or_app; right). apply in_or_app. left.
    apply in_flat_map. exists a. split; [apply all_tys_complete | apply in_map, all_tys_complete].
  - do 4 (apply in_or_app; right). apply in_or_app. left.
    apply in_flat_map. exists a. split; [apply all_tys_complete | apply in_map, all_tys_complete].
  - do 5 (apply in_or_app; right). apply in_or_app. left.
    apply in_flat_map. exists a. split; [apply all_tys_complete | ].
    apply in_flat_map. exists b. split; [apply all_tys_complete | apply in_map, all_tys_complete].
  - do 6 (apply in_or_app; right). apply in_or_app. left.
    apply in_flat_map. exists a. split; [apply all_tys_complete | ].
    apply in_flat_map. exists b. split; [apply all_tys_complete | apply in_map, all_tys_complete].
  - do 7 (apply in_or_app; right). apply in_or_app. left.
    apply in_flat_map. exists a. split; [apply all_tys_complete | ].
    apply in_flat_map. exists b. split; [apply all_tys_complete | ].
    apply in_flat_map. exists c. split; [apply all_tys_complete | apply in_map, all_tys_complete].
  - do 8 (apply in_or_app; right).
    apply in_flat_map. exists a. split; [apply all_tys_complete | apply in_map, all_tys_complete].
Qed.

Lemma all_stmts_ok : forallb stmt_ok all_stmts = true.
Proof. vm_compute. reflexivity. Qed.

Lemma stmt_lowering_total :
  forall s, tc_stmt s = true ->
    exists code, lower_stmt s = SOk code /\ stmt_well_typed (SOk code) = true.
Proof.
  intros s Ht.
  pose proof (proj1 (forallb_forall stmt_ok all_stmts) all_stmts_ok s (all_stmts_complete s)) as H.
  unfold stmt_ok in H. rewrite Ht in H. cbn [negb orb] in H.
  destruct (lower_stmt s) as [ | code]; [discriminate H | ]. exists code. split; [reflexivity | exact H].
Qed.

Lemma stmt_verdict_ok :
  forall s, tc_stmt s = true -> verdict_stmt s = VOk.
Proof.
  intros s Ht. destruct (stmt_lowering_total s Ht) as (code & El & Hw).
  unfold verdict_stmt. rewrite Ht, El. cbn [negb]. unfold stmt_well_typed in Hw.
  destruct (code_verdict code); try discriminate Hw. reflexivity.
Qed.
