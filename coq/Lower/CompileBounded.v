(* program_ok (hence: every normally terminating run is balanced, on every path) for an explicitly enumerated,
   bounded family of skeleton programs.  The family is the product of
     - 14 non-primitive expressions (literal, variable, both concatenation forms, `falls` with temporary/variable arms,
       slice, list literal, element read, calls by value / by Referenz / elided copy, extern call; an element of a
       TEMPORARY list (function result, list literal) on its own and as the taken / other arm of `falls`),
     - 5 conditions (plain, with an unused temporary, und/oder with temporaries on both sides, a call result, und/oder
       whose operands compare elements of temporary lists),
     - the ownership roles (variable init, assignment, element assignment, discarded result, argument of an extern and
       of a DDP function, component of a list literal, return value),
     - every loop form (Solange, Mache-Solange, Wiederhole, counting up/down with temporaries in from/to/step,
       for-each over a temporary / a variable with a non-primitive loop variable),
     - every exit from an inner scope of the loop body (fallthrough, break, continue, return with a temporary / a
       variable / a local of the inner scope), in main and inside an inlined function.
   The bound is the enumeration itself: `In P family`. *)
From Coq Require Import List NArith Bool Arith.
Import ListNotations.
From DDP Require Import Rt.Heap Rt.HeapProofs Lower.Own Lower.OwnCheck Lower.OwnProofs.
Local Open Scope nat_scope.

(* functions: 0 identity by value with a nested early return; 1 assigns through a Referenz; 2 elided copy (-O2);
   3 returns a local of an inner block out of a loop *)
Definition f_id : fundef :=
  mkFun [(100, MVal, true)] true
        (SSeq (SIf EPrim (SBlock (SReturn (Some (EConcat (EVar 100) (ELit 2%N))))) (SBlock SSkip)) (SReturn (Some (EVar 100)))).
Definition f_ref : fundef :=
  mkFun [(101, MRef, true)] false (SSeq (SAssign 101 (EConcat (EVar 101) (ELit 3%N))) (SReturn None)).
Definition f_const : fundef :=
  mkFun [(102, MConst, true)] true (SReturn (Some (EDerive (EVar 102) 2%N))).
Definition f_loop : fundef :=
  mkFun [(103, MVal, true)] true
        (SSeq (SWhile (EUse1 (EVar 103)) (SBlock (SSeq (SDecl 104 (EConcat (ELit 4%N) (EVar 103)))
                                                         (SIf EPrim (SBlock (SReturn (Some (EVar 104)))) (SBlock SContinue)))))
              (SReturn (Some (ELit 2%N)))).
(* 4 returns a list of two Texts *)
Definition f_list : fundef :=
  mkFun [] true (SReturn (Some (EBuild 32%N (XCons (ELit 5%N) (XCons (ELit 7%N) XNil))))).
Definition funs : list fundef := [f_id; f_ref; f_const; f_loop; f_list].

(* variable 0 is a Text, variable 1 a list of two Texts (declared in front of every program) *)
Definition np_exprs : list expr :=
  [ ELit 3%N; EVar 0; EConcat (EVar 0) (ELit 2%N); EConcat (ELit 2%N) (EVar 0);
    EFalls EPrim (ELit 2%N) (EVar 0); EFalls (EUse1 (ELit 4%N)) (EVar 0) (EConcat (ELit 3%N) (ELit 3%N));
    EDerive (EVar 0) 2%N; EPart 1 1;
    ECall 0 (AVal (EVar 0) ANil); ECall 2 (AVal (EConcat (ELit 2%N) (EVar 0)) ANil); ECall 3 (AVal (ELit 5%N) ANil);
    EElem (ECall 4 ANil) 2;
    EFalls EPrim (EElem (EBuild 32%N (XCons (EVar 0) (XCons (ELit 3%N) XNil))) 1) (EVar 0);
    EFalls (EUse1 (ELit 4%N)) (EVar 0) (EElem (ECall 4 ANil) 1) ].
Definition conds : list expr :=
  [ EPrim; EUse1 (ELit 4%N); EAnd (EUse1 (EConcat (EVar 0) (ELit 2%N))) (EUse2 (EVar 0) (ELit 3%N));
    EUse1 (ECall 0 (AVal (ELit 6%N) ANil));
    EAnd (EUse2 (EElem (ECall 4 ANil) 1) (EVar 0)) (EUse1 (EElem (EBuild 32%N (XCons (ELit 3%N) XNil)) 1)) ].

Definition atoms (e : expr) : list stmt :=
  [ SDecl 10 e; SAssign 0 e; SAssignPart 1 2 e; SExpr e; SExpr (EExt (AVal e ANil) None);
    SExpr (ECall 1 (ARef 0 ANil)); SExpr (ECall 0 (AVal e ANil)); SDecl 11 (EBuild 32%N (XCons e (XCons (EVar 0) XNil))) ].
Definition exits (in_fun : bool) (e : expr) : list stmt :=
  [ SSkip; SBreak; SContinue ] ++ (if in_fun then [SReturn (Some e); SSeq (SDecl 12 e) (SReturn (Some (EVar 12)))] else []).

(* a loop body: a declaration in the body scope, then an inner block with its own local that is left by x *)
Definition body (a x : stmt) (c : expr) : stmt :=
  SBlock (SSeq a (SIf c (SBlock (SSeq (SDecl 13 (ELit 7%N)) x)) (SBlock SSkip))).
Definition loops (c : expr) (b : stmt) : list stmt :=
  [ SWhile c b; SDoWhile b c; SRepeat c 2 b; SFor c c c false 2 b; SFor c EPrim c true 1 b;
    SForEach 20 (Some 3%N) (EVar 1) 2 b; SForEach 21 (Some 3%N) (EFalls c (EBuild 32%N (XCons (ELit 3%N) (XCons (ELit 3%N) XNil))) (EVar 1)) 2 b;
    SForEach 22 None (EConcat (EVar 0) (ELit 2%N)) 3 b ].

Definition prelude (s : stmt) : stmt :=
  SSeq (SDecl 0 (ELit 6%N)) (SSeq (SDecl 1 (EBuild 32%N (XCons (ELit 2%N) (XCons (ELit 4%N) XNil)))) s).

Definition stmts (in_fun : bool) : list stmt :=
  flat_map (fun e => atoms e) np_exprs ++
  flat_map (fun e => flat_map (fun c => flat_map (fun a => flat_map (fun x => loops c (body a x c)) (exits in_fun e)) (atoms e)) conds) np_exprs.

Definition main_programs : list program := map (fun s => mkProg funs (SBlock (prelude s))) (stmts false).
(* the same statements as the body of an inlined function that returns a Text *)
Definition fun_programs : list program :=
  map (fun s => mkProg (funs ++ [mkFun [] true (SSeq (prelude s) (SReturn (Some (EVar 0))))])
                       (SSeq (SDecl 30 (ECall 5 ANil)) (SExpr (ECall 5 ANil)))) (stmts true).
Definition family : list program := main_programs ++ fun_programs.

Lemma family_size : N.of_nat (length family) = 36064%N.
Proof. vm_compute. reflexivity. Qed.

Theorem family_ok : forall P, In P family -> program_ok P = true.
Proof. apply forallb_forall. vm_compute. reflexivity. Qed.

Theorem family_balanced : forall P, In P family ->
  forall fuel oracle L, run_program fuel oracle P = Some L -> balanced L.
Proof. intros P H fuel oracle L. apply program_ok_balanced. apply family_ok. exact H. Qed.
