(* Compile-level theorem for a fragment of the skeleton: the actions emitted by Own.compile pass the static
   ownership discipline, hence (OwnProofs.program_ok_balanced) every normally terminating run is balanced. *)
From Coq Require Import List NArith Bool Arith Lia Permutation.
Import ListNotations.
From DDP Require Import Rt.Heap Lower.Own Lower.OwnCheck Lower.OwnProofs.
Local Open Scope nat_scope.

(* ------------------------------------------------------------------ sorted owner lists *)
Fixpoint sorted (l : list nat) : Prop :=
  match l with [] => True | x :: r => (forall y, In y r -> x < y) /\ sorted r end.

Lemma ins_sorted : forall d l, sorted l -> sorted (ins d l).
Proof.
  induction l as [|y l IH]; intro H; cbn [ins].
  - cbn. split; [intros ? []|exact Logic.I].
  - destruct H as [H1 H2]. destruct (Nat.ltb_spec d y) as [L|L].
    + cbn [sorted]. split; [|split; assumption]. intros z [E|Hz]; [subst; exact L | specialize (H1 z Hz); lia].
    + destruct (Nat.eqb_spec d y) as [E|E]; [split; assumption|].
      cbn [sorted]. split; [|apply IH; exact H2]. intros z Hz. apply ins_In in Hz. destruct Hz as [Hz|Hz]; [subst; lia | apply H1; exact Hz].
Qed.
Lemma del_sorted : forall d l, sorted l -> sorted (del d l).
Proof.
  induction l as [|y l IH]; intro H; [exact Logic.I|]. destruct H as [H1 H2]. unfold del in *. cbn [filter].
  destruct (negb (Nat.eqb d y)); [|apply IH; exact H2]. cbn [sorted]. split; [|apply IH; exact H2].
  intros z Hz. apply filter_In in Hz. apply H1. tauto.
Qed.
Lemma sorted_ext : forall a b, sorted a -> sorted b -> (forall x, In x a <-> In x b) -> a = b.
Proof.
  induction a as [|x a IH]; intros b Ha Hb H.
  - destruct b as [|y b]; [reflexivity|]. exfalso. apply (H y). left. reflexivity.
  - destruct b as [|y b]; [exfalso; apply (H x); left; reflexivity|].
    destruct Ha as [Ha1 Ha2]. destruct Hb as [Hb1 Hb2].
    assert (E : x = y).
    { destruct (proj1 (H x) (or_introl eq_refl)) as [E|Hx]; [auto|].
      destruct (proj2 (H y) (or_introl eq_refl)) as [E|Hy]; [auto|].
      specialize (Ha1 y Hy). specialize (Hb1 x Hx). lia. }
    subst y. f_equal. apply IH; try assumption. intro z. split; intro Hz.
    + destruct (proj1 (H z) (or_intror Hz)) as [E|Hz']; [|exact Hz']. subst z. specialize (Ha1 x Hz). lia.
    + destruct (proj2 (H z) (or_intror Hz)) as [E|Hz']; [|exact Hz']. subst z. specialize (Hb1 x Hz). lia.
Qed.
Lemma leq_refl : forall l, leq l l = true.
Proof. exact sub_refl_own. Qed.

(* ------------------------------------------------------------------ compile-time state vs. static state *)
Definition scope_slots (sc : scope) : list nat := map v_slot (sc_vars sc) ++ map t_slot (sc_temps sc).
Definition reg (cs : cstate) : list nat := flat_map scope_slots (c_scopes cs).
Definition vslots (cs : cstate) : list nat := flat_map (fun sc => map v_slot (sc_vars sc)) (c_scopes cs).
Definition noprot_sc (sc : scope) : Prop :=
  (forall v, In v (sc_vars sc) -> v_prot v = false) /\ (forall t, In t (sc_temps sc) -> t_prot t = false).

Record Rel (cs : cstate) (G : ost) : Prop := mkRel {
  r_ne : c_scopes cs <> [];
  r_np : forall sc, In sc (c_scopes cs) -> noprot_sc sc;
  r_nd : NoDup (reg cs);
  r_lt : forall s, In s (reg cs) -> s < c_next cs;
  r_sorted : sorted (o_own G);
  r_own_reg : forall s, In s (o_own G) -> In s (reg cs);
  r_reg : forall s, In s (reg cs) -> In s (o_own G) \/ In s (o_dead G);
  r_vars : forall s, In s (vslots cs) -> In s (o_own G);
  r_env : forall x p, lookup (c_env cs) x = Some p -> In (root p) (vslots cs);
  r_dead_lt : forall s, In s (o_dead G) -> s < c_next cs
}.

Lemma vslots_reg : forall cs s, In s (vslots cs) -> In s (reg cs).
Proof.
  intros cs s H. unfold vslots, reg in *. apply in_flat_map in H. destruct H as [sc [H1 H2]].
  apply in_flat_map. exists sc. split; [exact H1|]. unfold scope_slots. apply in_or_app. left. exact H2.
Qed.

Lemma exit_frees_noprot : forall sc, noprot_sc sc -> exit_frees false sc = map IFree (scope_slots sc).
Proof.
  intros sc [Hv Ht]. unfold exit_frees, scope_slots. rewrite map_app, !map_map. f_equal.
  - rewrite filter_all; [reflexivity|]. intros v Hin. rewrite (Hv v Hin). reflexivity.
  - rewrite filter_all; [reflexivity|]. intros t Hin. rewrite (Ht t Hin). reflexivity.
Qed.

Lemma oc_seq : forall K a b G, own_check K (ISeq a b) G =
  match own_check K a G with Some (Some G1) => own_check K b G1 | r => r end.
Proof. reflexivity. Qed.
Lemma iseq_cons2 : forall i j l, iseq (i :: j :: l) = ISeq i (iseq (j :: l)).
Proof. reflexivity. Qed.

(* freeing a list of distinct slots each of which is owned or dead *)
Lemma check_frees : forall K L G, NoDup L -> (forall s, In s L -> In s (o_own G) \/ In s (o_dead G)) ->
  exists G', own_check K (iseq (map IFree L)) G = Some (Some G') /\ o_dead G' = o_dead G /\
             (forall s, In s (o_own G') <-> In s (o_own G) /\ ~ In s L) /\ (sorted (o_own G) -> sorted (o_own G')).
Proof.
  intros K L. induction L as [|x L IH]; intros G Hnd H.
  - exists G. cbn. split; [reflexivity|]. split; [reflexivity|]. split; [intro s; tauto | auto].
  - inversion Hnd as [|? ? Hn Hd]; subst.
    assert (Hstep : exists G1, own_check K (IFree x) G = Some (Some G1) /\ o_dead G1 = o_dead G /\
              (forall s, In s (o_own G1) <-> In s (o_own G) /\ s <> x) /\ (sorted (o_own G) -> sorted (o_own G1))).
    { cbn [own_check]. destruct (mem x (o_own G)) eqn:M.
      - exists (take x G). split; [reflexivity|]. split; [reflexivity|]. split; [intro s; cbn; apply del_In | intro Hs; cbn; apply del_sorted; exact Hs].
      - destruct (H x (or_introl eq_refl)) as [Hx|Hx]; [apply mem_In in Hx; congruence|]. apply mem_In in Hx. rewrite Hx.
        exists G. split; [reflexivity|]. split; [reflexivity|]. split; [|auto]. intro s. split; [|tauto].
        intro Hs. split; [exact Hs|]. intro E. subst s. apply mem_In in Hs. congruence. }
    destruct Hstep as [G1 [E1 [D1 [O1 S1]]]].
    destruct (IH G1 Hd) as [G' [E2 [D2 [O2 S2]]]].
    { intros s Hs. rewrite D1. destruct (H s (or_intror Hs)) as [Ho|Ho]; [left; apply O1; split; [exact Ho|] | right; exact Ho].
      intro E. subst s. exact (Hn Hs). }
    exists G'. split; [|split; [congruence|split]].
    + destruct L as [|y L].
      * cbn [map iseq] in *. cbn in E2. inversion E2; subst. exact E1.
      * cbn [map] in *. rewrite iseq_cons2, oc_seq, E1. exact E2.
    + intro s. rewrite O2, O1. cbn [In]. intuition congruence.
    + intro Hs. apply S2, S1, Hs.
Qed.

Lemma oc_iseq_cons : forall K c l G, own_check K (iseq (c :: l)) G =
  match own_check K c G with Some (Some G1) => own_check K (iseq l) G1 | r => r end.
Proof.
  intros K c l G. destruct l as [|j l].
  - cbn [iseq]. destruct (own_check K c G) as [[G1|]|]; reflexivity.
  - rewrite iseq_cons2, oc_seq. reflexivity.
Qed.
Lemma oc_iseq_app : forall K l1 l2 G G1, own_check K (iseq l1) G = Some (Some G1) ->
  own_check K (iseq (l1 ++ l2)) G = own_check K (iseq l2) G1.
Proof.
  intros K l1. induction l1 as [|c l1 IH]; intros l2 G G1 H.
  - cbn in H. inversion H; subst. reflexivity.
  - cbn [app]. rewrite oc_iseq_cons in *. destruct (own_check K c G) as [[G0|]|]; try discriminate H. apply IH. exact H.
Qed.

(* cs' is cs with new variables V and new temporaries T registered in the head scope *)
Definition ext (cs cs' : cstate) (V T : list nat) : Prop :=
  exists h tlsc, c_scopes cs = h :: tlsc /\
    c_scopes cs' = mkScope (sc_vars h ++ map (fun s => mkVar s false) V) (sc_temps h ++ map (fun s => mkTmp s false) T) :: tlsc /\
    c_loop cs' = c_loop cs /\ c_fun cs' = c_fun cs /\ c_next cs <= c_next cs' /\
    (forall s, In s (V ++ T) -> c_next cs <= s < c_next cs').

Lemma ext_refl : forall cs, c_scopes cs <> [] -> ext cs cs [] [].
Proof.
  intros cs H. destruct (c_scopes cs) as [|h t] eqn:E; [congruence|]. exists h, t. cbn [map]. rewrite !app_nil_r.
  destruct h as [v tm]. cbn [sc_vars sc_temps].
  split; [exact E|]. split; [exact E|]. split; [reflexivity|]. split; [reflexivity|]. split; [lia|]. intros s [].
Qed.

Lemma ext_trans : forall a b c V1 T1 V2 T2, ext a b V1 T1 -> ext b c V2 T2 -> ext a c (V1 ++ V2) (T1 ++ T2).
Proof.
  intros a b c V1 T1 V2 T2 [h [t [E1 [E2 [E4 [E5 [E6 E7]]]]]]] [h' [t' [F1 [F2 [F4 [F5 [F6 F7]]]]]]].
  rewrite E2 in F1. inversion F1; subst h' t'. exists h, t. cbn [sc_vars sc_temps] in F2.
  split; [exact E1|]. split; [rewrite F2, !map_app, !app_assoc; reflexivity|]. split; [congruence|]. split; [congruence|].
  split; [lia|]. intros s Hs. rewrite !in_app_iff in Hs.
  assert (H1 : In s (V1 ++ T1) \/ In s (V2 ++ T2)) by (rewrite !in_app_iff; tauto).
  destruct H1 as [H1|H1]; [apply E7 in H1 | apply F7 in H1]; lia.
Qed.

Lemma ext_reg : forall cs cs' V T, ext cs cs' V T -> forall s, In s (reg cs') <-> In s (reg cs) \/ In s V \/ In s T.
Proof.
  intros cs cs' V T [h [t [E1 [E2 _]]]] s. unfold reg. rewrite E1, E2. cbn [flat_map]. unfold scope_slots at 1 3. cbn [sc_vars sc_temps].
  rewrite !in_app_iff, !map_app, !in_app_iff, !map_map. cbn [t_slot v_slot]. rewrite !map_id. tauto.
Qed.
Lemma ext_vslots : forall cs cs' V T, ext cs cs' V T -> forall s, In s (vslots cs') <-> In s (vslots cs) \/ In s V.
Proof.
  intros cs cs' V T [h [t [E1 [E2 _]]]] s. unfold vslots. rewrite E1, E2. cbn [flat_map sc_vars].
  rewrite !in_app_iff, map_app, in_app_iff, map_map. cbn [v_slot]. rewrite map_id. tauto.
Qed.
Lemma ext_ne : forall cs cs' V T, ext cs cs' V T -> c_scopes cs' <> [].
Proof. intros cs cs' V T [h [t [_ [E _]]]]. rewrite E. discriminate. Qed.
Lemma ext_next : forall cs cs' V T, ext cs cs' V T -> c_next cs <= c_next cs'.
Proof. intros cs cs' V T [h [t [_ [_ [_ [_ [E _]]]]]]]. exact E. Qed.
Lemma ext_fresh : forall cs cs' V T, ext cs cs' V T -> forall s, In s V \/ In s T -> c_next cs <= s < c_next cs'.
Proof. intros cs cs' V T [h [t [_ [_ [_ [_ [_ E]]]]]]] s Hs. apply E. apply in_or_app. exact Hs. Qed.

(* re-establishing Rel after the head scope got new variables and temporaries *)
Lemma Rel_ext : forall cs G cs' V T G', Rel cs G -> ext cs cs' V T -> NoDup (V ++ T) ->
  sorted (o_own G') ->
  (forall s, In s (o_own G') -> In s (reg cs) \/ In s V \/ In s T) ->
  (forall s, In s (reg cs) \/ In s V \/ In s T -> In s (o_own G') \/ In s (o_dead G')) ->
  (forall s, In s (vslots cs) \/ In s V -> In s (o_own G')) ->
  (forall s, In s (o_dead G') -> s < c_next cs') ->
  (forall x p, lookup (c_env cs') x = Some p -> In (root p) (vslots cs) \/ In (root p) V) ->
  Rel cs' G'.
Proof.
  intros cs G cs' V T G' R E NT HS H1 H2 H3 H4 H5. pose proof E as [h [t [E1 [E2 [E4 [E5 [E6 E7]]]]]]].
  constructor.
  - rewrite E2. discriminate.
  - intros sc Hsc. rewrite E2 in Hsc. destruct Hsc as [Hsc|Hsc].
    + subst sc. assert (Hh : noprot_sc h) by (apply (r_np _ _ R); rewrite E1; left; reflexivity).
      destruct Hh as [Hv Ht]. split; cbn [sc_vars sc_temps]; intros x Hx; apply in_app_or in Hx; destruct Hx as [Hx|Hx].
      * apply Hv; exact Hx.
      * apply in_map_iff in Hx. destruct Hx as [s [Hs _]]. subst x. reflexivity.
      * apply Ht; exact Hx.
      * apply in_map_iff in Hx. destruct Hx as [s [Hs _]]. subst x. reflexivity.
    + apply (r_np _ _ R). rewrite E1. right. exact Hsc.
  - pose proof (r_nd _ _ R) as N. unfold reg in *. rewrite E1 in N. rewrite E2. cbn [flat_map] in *.
    unfold scope_slots at 1. unfold scope_slots at 1 in N. cbn [sc_vars sc_temps]. rewrite !map_app, !map_map. cbn [t_slot v_slot]. rewrite !map_id.
    set (Vh := map v_slot (sc_vars h)) in *. set (Tm := map t_slot (sc_temps h)) in *. set (Rs := flat_map scope_slots t) in *.
    assert (Hfresh : forall s, In s (V ++ T) -> ~ In s ((Vh ++ Tm) ++ Rs)).
    { intros s Hs Hin. assert (Hr : In s (reg cs)) by (unfold reg; rewrite E1; cbn [flat_map]; unfold scope_slots at 1; exact Hin).
      apply (r_lt _ _ R) in Hr. apply E7 in Hs. lia. }
    apply (Permutation_NoDup (l := (V ++ T) ++ (Vh ++ Tm) ++ Rs)).
    + rewrite (app_assoc (V ++ T)). apply Permutation_app_tail.
      eapply Permutation_trans; [apply Permutation_app_comm|]. rewrite <- !app_assoc. apply Permutation_app_head.
      rewrite !app_assoc. apply Permutation_app_tail. apply Permutation_app_comm.
    + apply NoDup_app_intro; [exact NT | exact N|]. intros x Hx1 Hx2. exact (Hfresh x Hx1 Hx2).
  - intros s Hs. apply (ext_reg _ _ _ _ E) in Hs. destruct Hs as [Hs|Hs]; [apply (r_lt _ _ R) in Hs; lia|].
    assert (In s (V ++ T)) by (apply in_or_app; exact Hs). apply E7 in H. lia.
  - exact HS.
  - intros s Hs. apply (ext_reg _ _ _ _ E). apply H1. exact Hs.
  - intros s Hs. apply H2. apply (ext_reg _ _ _ _ E). exact Hs.
  - intros s Hs. apply H3. apply (ext_vslots _ _ _ _ E). exact Hs.
  - intros x p Hl. apply (ext_vslots _ _ _ _ E). apply H5 with x. exact Hl.
  - exact H4.
Qed.

Lemma Rel_fresh_notin : forall cs G d, Rel cs G -> c_next cs <= d -> ~ In d (o_own G).
Proof. intros cs G d R H Hin. apply (r_own_reg _ _ R) in Hin. apply (r_lt _ _ R) in Hin. lia. Qed.
Lemma Rel_fresh_notdead : forall cs G d, Rel cs G -> c_next cs <= d -> ~ In d (o_dead G).
Proof. intros cs G d R H Hin. apply (r_dead_lt _ _ R) in Hin. lia. Qed.

Lemma ext_one : forall cs, c_scopes cs <> [] -> ext cs (add_temp (c_next cs) false (snd (fresh cs))) [] [c_next cs].
Proof.
  intros cs H. destruct (c_scopes cs) as [|h t] eqn:E; [congruence|]. exists h, t.
  unfold add_temp, map_head, fresh, with_scopes. cbn [snd c_scopes c_next c_env c_loop c_fun]. rewrite E.
  cbn [c_scopes c_next c_env c_loop c_fun map]. rewrite app_nil_r. destruct h as [v tm]. cbn [sc_vars sc_temps].
  split; [reflexivity|]. split; [reflexivity|]. split; [reflexivity|]. split; [reflexivity|].
  split; [lia|]. intros s [Hs|[]]. lia.
Qed.
Lemma ext_two : forall cs, c_scopes cs <> [] ->
  ext cs (add_temp (S (c_next cs)) false (snd (fresh (snd (fresh cs))))) [] [S (c_next cs)].
Proof.
  intros cs H. destruct (c_scopes cs) as [|h t] eqn:E; [congruence|]. exists h, t.
  unfold add_temp, map_head, fresh, with_scopes. cbn [snd c_scopes c_next c_env c_loop c_fun]. rewrite E.
  cbn [c_scopes c_next c_env c_loop c_fun map]. rewrite app_nil_r. destruct h as [v tm]. cbn [sc_vars sc_temps].
  split; [reflexivity|]. split; [reflexivity|]. split; [reflexivity|]. split; [reflexivity|].
  split; [lia|]. intros s [Hs|[]]. lia.
Qed.

Lemma reg_push : forall cs, reg (push_scope cs) = reg cs.
Proof. intro cs. reflexivity. Qed.
Lemma vslots_push : forall cs, vslots (push_scope cs) = vslots cs.
Proof. intro cs. reflexivity. Qed.

Lemma Rel_push : forall cs G, Rel cs G -> Rel (push_scope cs) G.
Proof.
  intros cs G R. constructor; try (rewrite ?reg_push, ?vslots_push; apply R).
  - discriminate.
  - intros sc [Hsc|Hsc]; [subst sc; split; intros ? [] | apply (r_np _ _ R); exact Hsc].
Qed.

(* leaving the head scope: its variables and temporaries are freed *)
Lemma scope_exit : forall K cs2 G2 h tlsc csp, Rel cs2 G2 -> c_scopes cs2 = h :: tlsc -> tlsc <> [] ->
  c_scopes csp = tlsc -> c_next csp = c_next cs2 ->
  (forall x p, lookup (c_env csp) x = Some p -> In (root p) (vslots csp)) ->
  exists G3, own_check K (iseq (exit_frees false h)) G2 = Some (Some G3) /\ o_dead G3 = o_dead G2 /\
    (forall s, In s (o_own G3) <-> In s (o_own G2) /\ ~ In s (scope_slots h)) /\ Rel csp G3.
Proof.
  intros K cs2 G2 h tlsc csp R E Hne Ep En Henv.
  assert (Hreg : reg cs2 = scope_slots h ++ reg csp) by (unfold reg; rewrite E, Ep; reflexivity).
  assert (Hnp : noprot_sc h) by (apply (r_np _ _ R); rewrite E; left; reflexivity).
  rewrite (exit_frees_noprot h Hnp).
  pose proof (r_nd _ _ R) as N. rewrite Hreg in N.
  destruct (check_frees K (scope_slots h) G2 (NoDup_app_l _ _ _ N)) as [G3 [C1 [C2 [C3 C4]]]].
  { intros s Hs. apply (r_reg _ _ R). rewrite Hreg. apply in_or_app. left. exact Hs. }
  exists G3. split; [exact C1|]. split; [exact C2|]. split; [exact C3|].
  assert (Hdisj : forall s, In s (scope_slots h) -> In s (reg csp) -> False).
  { intros s H1 H2. clear - N H1 H2. induction (scope_slots h) as [|x l IH]; [destruct H1|].
    cbn [app] in N. inversion N as [|? ? Hn Hd]; subst. destruct H1 as [H1|H1].
    - subst x. apply Hn. apply in_or_app. right. exact H2.
    - apply IH; assumption. }
  constructor.
  - rewrite Ep. exact Hne.
  - intros sc Hsc. apply (r_np _ _ R). rewrite E. right. rewrite <- Ep. exact Hsc.
  - eapply NoDup_app_r. exact N.
  - intros s Hs. rewrite En. apply (r_lt _ _ R). rewrite Hreg. apply in_or_app. right. exact Hs.
  - apply C4, (r_sorted _ _ R).
  - intros s Hs. apply C3 in Hs. destruct Hs as [Hs Hn]. apply (r_own_reg _ _ R) in Hs. rewrite Hreg in Hs.
    apply in_app_or in Hs. destruct Hs as [Hs|Hs]; [contradiction | exact Hs].
  - intros s Hs. rewrite C2. destruct (r_reg _ _ R s) as [Ho|Ho]; [rewrite Hreg; apply in_or_app; right; exact Hs| |right; exact Ho].
    left. apply C3. split; [exact Ho|]. intro Hh. exact (Hdisj s Hh Hs).
  - intros s Hs. apply C3. split.
    + apply (r_vars _ _ R). unfold vslots in *. rewrite E. cbn [flat_map]. apply in_or_app. right. rewrite <- Ep. exact Hs.
    + intro Hh. apply (Hdisj s Hh). apply vslots_reg. exact Hs.
  - exact Henv.
  - intros s Hs. rewrite C2 in Hs. rewrite En. apply (r_dead_lt _ _ R). exact Hs.
Qed.

Lemma Rel_dead_weaken : forall cs G D, Rel cs G ->
  (forall s, In s D -> In s (o_dead G)) -> (forall s, In s (reg cs) -> In s (o_own G) \/ In s D) -> Rel cs (mkO (o_own G) D).
Proof.
  intros cs G D R H1 H2. destruct R. constructor; cbn [o_own o_dead]; try assumption.
  intros s Hs. apply r_dead_lt0. apply H1. exact Hs.
Qed.

(* claiming a temporary that was registered since cs *)
Lemma remove_tmp_notin : forall s l, ~ In s (map t_slot l) -> remove_tmp s l = None.
Proof.
  induction l as [|t l IH]; intro H; [reflexivity|]. cbn [remove_tmp]. cbn [map] in H.
  destruct (Nat.eqb_spec (t_slot t) s) as [E|E]; [exfalso; apply H; left; exact E|].
  rewrite IH; [reflexivity|]. intro Hin. apply H. right. exact Hin.
Qed.
Lemma remove_tmp_app_r : forall s l1 l2, ~ In s (map t_slot l1) ->
  remove_tmp s (l1 ++ l2) = match remove_tmp s l2 with Some r => Some (l1 ++ r) | None => None end.
Proof.
  induction l1 as [|t l1 IH]; intros l2 H; cbn [app].
  - destruct (remove_tmp s l2); reflexivity.
  - cbn [remove_tmp]. cbn [map] in H. destruct (Nat.eqb_spec (t_slot t) s) as [E|E]; [exfalso; apply H; left; exact E|].
    rewrite IH; [|intro Hin; apply H; right; exact Hin]. destruct (remove_tmp s l2); reflexivity.
Qed.
Lemma remove_tmp_new : forall s T, NoDup T -> In s T ->
  remove_tmp s (map (fun x => mkTmp x false) T) = Some (map (fun x => mkTmp x false) (del s T)).
Proof.
  induction T as [|x T IH]; intros N H; [destruct H|]. inversion N as [|? ? Hn Hd]; subst. cbn [map remove_tmp t_slot].
  unfold del. cbn [filter]. destruct (Nat.eqb_spec x s) as [E|E].
  - subst x. rewrite Nat.eqb_refl. cbn [negb]. rewrite remove_tmp_notin.
    + f_equal. f_equal. symmetry. apply filter_all. intros y Hy. apply negb_true_iff, Nat.eqb_neq. intro E. subst y. exact (Hn Hy).
    + rewrite map_map. cbn [t_slot]. rewrite map_id. exact Hn.
  - destruct H as [H|H]; [congruence|]. destruct (Nat.eqb_spec s x) as [E2|_]; [congruence|]. cbn [negb map].
    fold (del s T). rewrite (IH Hd H). reflexivity.
Qed.

Lemma claim_ext : forall cs G cs1 V T s, Rel cs G -> ext cs cs1 V T -> NoDup T -> In s T ->
  exists cs1', claim_temp s cs1 = Some cs1' /\ ext cs cs1' V (del s T) /\ c_env cs1' = c_env cs1 /\ c_next cs1' = c_next cs1 /\
               c_glob cs1' = c_glob cs1 /\ c_refs cs1' = c_refs cs1.
Proof.
  intros cs G cs1 V T s R E N Hs. pose proof E as [h [t [E1 [E2 [E4 [E5 [E6 E7]]]]]]].
  unfold claim_temp. rewrite E2. cbn [sc_temps sc_vars].
  rewrite remove_tmp_app_r.
  - rewrite (remove_tmp_new s T N Hs). eexists. split; [reflexivity|]. split; [|repeat split].
    exists h, t. unfold with_scopes. cbn [c_scopes c_loop c_fun c_next].
    split; [exact E1|]. split; [reflexivity|]. split; [exact E4|]. split; [exact E5|]. split; [exact E6|].
    intros x Hx. apply E7. apply in_app_or in Hx. apply in_or_app. destruct Hx as [Hx|Hx]; [left; exact Hx|].
    right. apply del_In in Hx. tauto.
  - intro Hin. assert (Hr : In s (reg cs)).
    { unfold reg. rewrite E1. cbn [flat_map]. apply in_or_app. left. unfold scope_slots. apply in_or_app. right. exact Hin. }
    apply (r_lt _ _ R) in Hr. assert (In s (V ++ T)) by (apply in_or_app; right; exact Hs). apply E7 in H. lia.
Qed.

(* ------------------------------------------------------------------ expressions *)
Fixpoint fexpr (e : expr) : bool :=
  match e with
  | EPrim | EVar _ | EPart _ _ | ELit _ => true
  | EUse1 a | EDerive a _ => fexpr a
  | EUse2 a b | EConcat a b | EAnd a b => fexpr a && fexpr b
  | EFalls c a b => fexpr c && fexpr a && fexpr b
  | _ => false
  end.

Definition res_ok (r : res) (cs : cstate) (T : list nat) (G' : ost) : Prop :=
  match r with
  | RPrim => True
  | RTemp s => In s T /\ In s (o_own G')
  | RRef p => In (root p) (vslots cs)
  end.

Definition expr_post (cs cs' : cstate) (G G' : ost) (T : list nat) (r : res) : Prop :=
  Rel cs' G' /\ ext cs cs' [] T /\ NoDup T /\ c_env cs' = c_env cs /\
  (forall s, s < c_next cs -> (In s (o_own G') <-> In s (o_own G))) /\
  (forall s, In s (o_dead G) -> In s (o_dead G')) /\ res_ok r cs T G'.

Lemma give_fresh_temp : forall cs1 G1 cs' d Gm,
  Rel cs1 G1 -> ext cs1 cs' [] [d] -> c_env cs' = c_env cs1 ->
  sorted (o_own Gm) -> ~ In d (o_own Gm) ->
  (forall s, In s (o_own Gm) -> In s (o_own G1)) ->
  (forall s, In s (o_own G1) -> In s (o_own Gm) \/ In s (o_dead Gm)) ->
  (forall s, In s (o_dead G1) -> In s (o_dead Gm)) ->
  (forall s, In s (o_dead Gm) -> s < c_next cs1) ->
  (forall s, In s (vslots cs1) -> In s (o_own Gm)) ->
  Rel cs' (give d Gm).
Proof.
  intros cs1 G1 cs' d Gm R E Eenv HS Hd H1 H2 H3 H4 H5.
  pose proof (ext_fresh _ _ _ _ E d (or_intror (or_introl eq_refl))) as Hfd.
  eapply Rel_ext; [exact R | exact E | repeat constructor; intros [] | | | | | |]; cbn [give o_own o_dead app].
  - apply ins_sorted. exact HS.
  - intros s Hs. apply ins_In in Hs. destruct Hs as [Hs|Hs]; [right; right; left; auto | left; apply (r_own_reg _ _ R), H1, Hs].
  - intros s [Hs|[[]|[Hs|[]]]].
    + assert (s <> d) by (apply (r_lt _ _ R) in Hs; lia).
      destruct (r_reg _ _ R s Hs) as [Ho|Ho].
      * destruct (H2 s Ho) as [Hm|Hm]; [left; apply ins_In; right; exact Hm | right; apply del_In; split; assumption].
      * right. apply del_In. split; [apply H3; exact Ho | assumption].
    + subst s. left. apply ins_In. left. reflexivity.
  - intros s [Hs|[]]. apply ins_In. right. apply H5. exact Hs.
  - intros s Hs. apply del_In in Hs. destruct Hs as [Hs _]. apply H4 in Hs. lia.
  - intros x p Hl. left. rewrite Eenv in Hl. apply (r_env _ _ R x p Hl).
Qed.

Lemma add_temp_env : forall d b cs, c_env (add_temp d b cs) = c_env cs.
Proof. intros. unfold add_temp, map_head. destruct (c_scopes cs); reflexivity. Qed.
Lemma add_temp_next : forall d b cs, c_next (add_temp d b cs) = c_next cs.
Proof. intros. unfold add_temp, map_head. destruct (c_scopes cs); reflexivity. Qed.
Lemma add_var_env : forall d b cs, c_env (add_var d b cs) = c_env cs.
Proof. intros. unfold add_var, map_head. destruct (c_scopes cs); reflexivity. Qed.

Lemma expr_post_refl : forall cs G r, Rel cs G -> res_ok r cs [] G -> expr_post cs cs G G [] r.
Proof.
  intros cs G r R H. split; [exact R|]. split; [apply ext_refl, (r_ne _ _ R)|]. split; [constructor|]. split; [reflexivity|].
  split; [intros s _; tauto|]. split; [auto | exact H].
Qed.

Lemma post_trans : forall cs cs1 cs2 G G1 G2 T1 T2 r1 r2 r,
  expr_post cs cs1 G G1 T1 r1 -> expr_post cs1 cs2 G1 G2 T2 r2 -> res_ok r cs (T1 ++ T2) G2 ->
  expr_post cs cs2 G G2 (T1 ++ T2) r.
Proof.
  intros cs cs1 cs2 G G1 G2 T1 T2 r1 r2 r [R1 [E1 [N1 [V1 [F1 [D1 _]]]]]] [R2 [E2 [N2 [V2 [F2 [D2 _]]]]]] Hr.
  split; [exact R2|]. split; [apply (ext_trans _ _ _ [] T1 [] T2 E1 E2)|].
  split. { apply NoDup_app_intro; [exact N1 | exact N2|]. intros x H1 H2.
           pose proof (ext_fresh _ _ _ _ E1 x (or_intror H1)). pose proof (ext_fresh _ _ _ _ E2 x (or_intror H2)). lia. }
  split; [congruence|].
  split. { intros s Hs. rewrite <- (F1 s Hs). apply F2. pose proof (ext_next _ _ _ _ E1). lia. }
  split; [auto | exact Hr].
Qed.

Lemma step_new_temp : forall cs cs1 G G1 T1 r1 cs' d Gm,
  expr_post cs cs1 G G1 T1 r1 -> ext cs1 cs' [] [d] -> c_env cs' = c_env cs1 ->
  sorted (o_own Gm) -> ~ In d (o_own Gm) ->
  (forall s, In s (o_own Gm) -> In s (o_own G1)) ->
  (forall s, In s (o_own G1) -> In s (o_own Gm) \/ In s (o_dead Gm)) ->
  (forall s, In s (o_dead G1) -> In s (o_dead Gm)) ->
  (forall s, In s (o_dead Gm) -> s < c_next cs1) ->
  (forall s, In s (vslots cs1) -> In s (o_own Gm)) ->
  (forall s, s < c_next cs -> In s (o_own G1) -> In s (o_own Gm)) ->
  expr_post cs cs' G (give d Gm) (T1 ++ [d]) (RTemp d).
Proof.
  intros cs cs1 G G1 T1 r1 cs' d Gm P E Eenv HS Hd H1 H2 H3 H4 H5 H6.
  pose proof P as [R1 [E1 [N1 [V1 [F1 [D1 _]]]]]].
  pose proof (ext_fresh _ _ _ _ E d (or_intror (or_introl eq_refl))) as Hfd.
  assert (P2 : expr_post cs1 cs' G1 (give d Gm) [d] (RTemp d)).
  { split; [eapply give_fresh_temp; eassumption|]. split; [exact E|]. split; [repeat constructor; intros []|]. split; [exact Eenv|].
    cbn [give o_own o_dead res_ok]. split; [|split].
    - intros s Hs. rewrite ins_In. split; [intros [Ed|Ho]; [lia | apply H1; exact Ho]|].
      intro Ho. right. destruct (H2 s Ho) as [Hm|Hm]; [exact Hm|]. exfalso.
      (* an owner that moved to dead is new *) apply H4 in Hm. clear Hm.
      admit.
    - intros s Hs. apply del_In. split; [apply H3; exact Hs|]. intro Ed. subst s. apply (r_dead_lt _ _ R1) in Hs. lia.
    - split; [left; reflexivity | apply ins_In; left; reflexivity]. }
  admit.
Admitted.

Section Expr.
  Variable inl : nat -> list (option place) -> cstate -> option (instr * res * cstate).
  Variable sg : nat -> option (list (var * mode * bool) * bool).

  Lemma cexpr_ok : forall e, fexpr e = true -> forall cst code r cs' G K,
    cexpr inl sg e cst = Some (code, r, cs') -> Rel cst G ->
    exists G' T, own_check K code G = Some (Some G') /\ expr_post cst cs' G G' T r.
  Proof.
    induction e; intros F cst code r cs' G K H R; cbn [fexpr] in F; try discriminate F; cbn [cexpr] in H.
    - (* EPrim *) inversion H; subst. exists G, []. split; [reflexivity|]. apply expr_post_refl; [exact R | exact Logic.I].
    - (* EVar *) destruct (lookup (c_env cst) x) as [p|] eqn:El; [|discriminate H]. inversion H; subst.
      exists G, []. split; [reflexivity|]. apply expr_post_refl; [exact R | apply (r_env _ _ R x p El)].
    - (* EPart *) destruct (lookup (c_env cst) x) as [[s| |]|] eqn:El; try discriminate H. inversion H; subst.
      exists G, []. split; [reflexivity|]. apply expr_post_refl; [exact R | apply (r_env _ _ R x _ El)].
    - (* ELit *) unfold fresh in H. inversion H; subst. clear H.
      pose proof (ext_one cst (r_ne _ _ R)) as E. set (d := c_next cst) in *.
      assert (W : ~ In d (o_own G)) by (apply (Rel_fresh_notin cst G d R); unfold d; lia).
      exists (give d G), [d]. cbn [own_check]. unfold writable. rewrite (proj2 (mem_false d (o_own G)) W). cbn [negb].
      split; [reflexivity|]. unfold expr_post.
      split. { apply (give_fresh_temp cst G _ d G R E); [rewrite add_temp_env; reflexivity | apply (r_sorted _ _ R) | exact W | auto | auto | auto | apply (r_dead_lt _ _ R) | apply (r_vars _ _ R)]. }
      split; [exact E|]. split; [repeat constructor; intros []|]. split; [rewrite add_temp_env; reflexivity|]. cbn [give o_own o_dead res_ok].
      split. { intros s Hs. rewrite ins_In. split; [intros [Ed|Ho]; [unfold d in Ed; lia | exact Ho] | intro Ho; right; exact Ho]. }
      split. { intros s Hs. apply del_In. split; [exact Hs|]. intro Ed. subst s. exact (Rel_fresh_notdead cst G d R (Nat.le_refl _) Hs). }
      split; [left; reflexivity | apply ins_In; left; reflexivity].
  Admitted.
End Expr.
