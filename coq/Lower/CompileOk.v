(* Compile-level theorem for a fragment of the skeleton: the actions emitted by Own.compile pass the static
   ownership discipline, hence (OwnProofs.program_ok_balanced) every normally terminating run is balanced. *)
From Coq Require Import List NArith Bool Arith Lia Permutation.
Import ListNotations.
From DDP Require Import Rt.Heap Lower.Own Lower.OwnCheck Lower.OwnProofs.
Local Open Scope nat_scope.

(* ------------------------------------------------------------------ sorted owner lists *)
Fixpoint sorted (l : list nat) : Prop :=
  match l with [] => True | x :: r => (forall y, In y r -> x < y) /\ sorted r end.

Lemma ins_sorted : forall d l, sorted l -> sorted (ins d l).
Proof.
  induction l as [|y l IH]; intro H; cbn [ins].
  - cbn. split; [intros ? []|exact Logic.I].
  - destruct H as [H1 H2]. destruct (Nat.ltb_spec d y) as [L|L].
    + cbn [sorted]. split; [|split; assumption]. intros z [E|Hz]; [subst; exact L | specialize (H1 z Hz); lia].
    + destruct (Nat.eqb_spec d y) as [E|E]; [split; assumption|].
      cbn [sorted]. split; [|apply IH; exact H2]. intros z Hz. apply ins_In in Hz. destruct Hz as [Hz|Hz]; [subst; lia | apply H1; exact Hz].
Qed.
Lemma del_sorted : forall d l, sorted l -> sorted (del d l).
Proof.
  induction l as [|y l IH]; intro H; [exact Logic.I|]. destruct H as [H1 H2]. unfold del in *. cbn [filter].
  destruct (negb (Nat.eqb d y)); [|apply IH; exact H2]. cbn [sorted]. split; [|apply IH; exact H2].
  intros z Hz. apply filter_In in Hz. apply H1. tauto.
Qed.
Lemma sorted_ext : forall a b, sorted a -> sorted b -> (forall x, In x a <-> In x b) -> a = b.
Proof.
  induction a as [|x a IH]; intros b Ha Hb H.
  - destruct b as [|y b]; [reflexivity|]. exfalso. apply (H y). left. reflexivity.
  - destruct b as [|y b]; [exfalso; apply (H x); left; reflexivity|].
    destruct Ha as [Ha1 Ha2]. destruct Hb as [Hb1 Hb2].
    assert (E : x = y).
    { destruct (proj1 (H x) (or_introl eq_refl)) as [E|Hx]; [auto|].
      destruct (proj2 (H y) (or_introl eq_refl)) as [E|Hy]; [auto|].
      specialize (Ha1 y Hy). specialize (Hb1 x Hx). lia. }
    subst y. f_equal. apply IH; try assumption. intro z. split; intro Hz.
    + destruct (proj1 (H z) (or_intror Hz)) as [E|Hz']; [|exact Hz']. subst z. specialize (Ha1 x Hz). lia.
    + destruct (proj2 (H z) (or_intror Hz)) as [E|Hz']; [|exact Hz']. subst z. specialize (Hb1 x Hz). lia.
Qed.
Lemma leq_refl : forall l, leq l l = true.
Proof. exact sub_refl_own. Qed.

(* ------------------------------------------------------------------ compile-time state vs. static state *)
Definition scope_slots (sc : scope) : list nat := map v_slot (sc_vars sc) ++ map t_slot (sc_temps sc).
Definition reg (cs : cstate) : list nat := flat_map scope_slots (c_scopes cs).
Definition vslots (cs : cstate) : list nat := flat_map (fun sc => map v_slot (sc_vars sc)) (c_scopes cs).
Definition noprot_sc (sc : scope) : Prop :=
  (forall v, In v (sc_vars sc) -> v_prot v = false) /\ (forall t, In t (sc_temps sc) -> t_prot t = false).

Record Rel (cs : cstate) (G : ost) : Prop := mkRel {
  r_ne : c_scopes cs <> [];
  r_np : forall sc, In sc (c_scopes cs) -> noprot_sc sc;
  r_nd : NoDup (reg cs);
  r_lt : forall s, In s (reg cs) -> s < c_next cs;
  r_sorted : sorted (o_own G);
  r_own_reg : forall s, In s (o_own G) -> In s (reg cs);
  r_reg : forall s, In s (reg cs) -> In s (o_own G) \/ In s (o_dead G);
  r_vars : forall s, In s (vslots cs) -> In s (o_own G);
  r_env : forall x p, lookup (c_env cs) x = Some p -> In (root p) (vslots cs)
}.

Lemma vslots_reg : forall cs s, In s (vslots cs) -> In s (reg cs).
Proof.
  intros cs s H. unfold vslots, reg in *. apply in_flat_map in H. destruct H as [sc [H1 H2]].
  apply in_flat_map. exists sc. split; [exact H1|]. unfold scope_slots. apply in_or_app. left. exact H2.
Qed.

Lemma exit_frees_noprot : forall sc, noprot_sc sc -> exit_frees false sc = map IFree (scope_slots sc).
Proof.
  intros sc [Hv Ht]. unfold exit_frees, scope_slots. rewrite map_app, !map_map. f_equal.
  - rewrite filter_all; [reflexivity|]. intros v Hin. rewrite (Hv v Hin). reflexivity.
  - rewrite filter_all; [reflexivity|]. intros t Hin. rewrite (Ht t Hin). reflexivity.
Qed.

Lemma oc_seq : forall K a b G, own_check K (ISeq a b) G =
  match own_check K a G with Some (Some G1) => own_check K b G1 | r => r end.
Proof. reflexivity. Qed.
Lemma iseq_cons2 : forall i j l, iseq (i :: j :: l) = ISeq i (iseq (j :: l)).
Proof. reflexivity. Qed.

(* freeing a list of distinct slots each of which is owned or dead *)
Lemma check_frees : forall K L G, NoDup L -> (forall s, In s L -> In s (o_own G) \/ In s (o_dead G)) ->
  exists G', own_check K (iseq (map IFree L)) G = Some (Some G') /\ o_dead G' = o_dead G /\
             (forall s, In s (o_own G') <-> In s (o_own G) /\ ~ In s L) /\ (sorted (o_own G) -> sorted (o_own G')).
Proof.
  intros K L. induction L as [|x L IH]; intros G Hnd H.
  - exists G. cbn. split; [reflexivity|]. split; [reflexivity|]. split; [intro s; tauto | auto].
  - inversion Hnd as [|? ? Hn Hd]; subst.
    assert (Hstep : exists G1, own_check K (IFree x) G = Some (Some G1) /\ o_dead G1 = o_dead G /\
              (forall s, In s (o_own G1) <-> In s (o_own G) /\ s <> x) /\ (sorted (o_own G) -> sorted (o_own G1))).
    { cbn [own_check]. destruct (mem x (o_own G)) eqn:M.
      - exists (take x G). split; [reflexivity|]. split; [reflexivity|]. split; [intro s; cbn; apply del_In | intro Hs; cbn; apply del_sorted; exact Hs].
      - destruct (H x (or_introl eq_refl)) as [Hx|Hx]; [apply mem_In in Hx; congruence|]. apply mem_In in Hx. rewrite Hx.
        exists G. split; [reflexivity|]. split; [reflexivity|]. split; [|auto]. intro s. split; [|tauto].
        intro Hs. split; [exact Hs|]. intro E. subst s. apply mem_In in Hs. congruence. }
    destruct Hstep as [G1 [E1 [D1 [O1 S1]]]].
    destruct (IH G1 Hd) as [G' [E2 [D2 [O2 S2]]]].
    { intros s Hs. rewrite D1. destruct (H s (or_intror Hs)) as [Ho|Ho]; [left; apply O1; split; [exact Ho|] | right; exact Ho].
      intro E. subst s. exact (Hn Hs). }
    exists G'. split; [|split; [congruence|split]].
    + destruct L as [|y L].
      * cbn [map iseq] in *. cbn in E2. inversion E2; subst. exact E1.
      * cbn [map] in *. rewrite iseq_cons2, oc_seq, E1. exact E2.
    + intro s. rewrite O2, O1. cbn [In]. intuition congruence.
    + intro Hs. apply S2, S1, Hs.
Qed.

Definition ext (cs cs' : cstate) (T : list nat) : Prop :=
  exists h tlsc, c_scopes cs = h :: tlsc /\
    c_scopes cs' = mkScope (sc_vars h) (sc_temps h ++ map (fun s => mkTmp s false) T) :: tlsc /\
    c_env cs' = c_env cs /\ c_loop cs' = c_loop cs /\ c_fun cs' = c_fun cs /\ c_next cs <= c_next cs' /\
    (forall s, In s T -> c_next cs <= s < c_next cs').

Lemma ext_refl : forall cs, c_scopes cs <> [] -> ext cs cs [].
Proof.
  intros cs H. destruct (c_scopes cs) as [|h t] eqn:E; [congruence|]. exists h, t. cbn [map]. rewrite app_nil_r.
  destruct h as [v tm]. cbn [sc_vars sc_temps].
  split; [exact E|]. split; [exact E|]. split; [reflexivity|]. split; [reflexivity|]. split; [reflexivity|].
  split; [lia|]. intros s [].
Qed.

Lemma ext_trans : forall a b c T1 T2, ext a b T1 -> ext b c T2 -> ext a c (T1 ++ T2).
Proof.
  intros a b c T1 T2 [h [t [E1 [E2 [E3 [E4 [E5 [E6 E7]]]]]]]] [h' [t' [F1 [F2 [F3 [F4 [F5 [F6 F7]]]]]]]].
  rewrite E2 in F1. inversion F1; subst h' t'. exists h, t. cbn [sc_vars sc_temps] in F2.
  rewrite map_app, app_assoc.
  split; [exact E1|]. split; [rewrite F2; reflexivity|]. split; [congruence|]. split; [congruence|]. split; [congruence|].
  split; [lia|]. intros s Hs. apply in_app_or in Hs. destruct Hs as [Hs|Hs]; [apply E7 in Hs | apply F7 in Hs]; lia.
Qed.

Lemma ext_reg : forall cs cs' T, ext cs cs' T -> forall s, In s (reg cs') <-> In s (reg cs) \/ In s T.
Proof.
  intros cs cs' T [h [t [E1 [E2 _]]]] s. unfold reg. rewrite E1, E2. cbn [flat_map]. unfold scope_slots at 1 3. cbn [sc_vars sc_temps].
  rewrite !in_app_iff, map_app, in_app_iff, map_map. cbn [t_slot]. rewrite map_id. tauto.
Qed.
Lemma ext_vslots : forall cs cs' T, ext cs cs' T -> vslots cs' = vslots cs.
Proof. intros cs cs' T [h [t [E1 [E2 _]]]]. unfold vslots. rewrite E1, E2. reflexivity. Qed.

(* re-establishing Rel after the head scope got new temporaries *)
Lemma Rel_ext : forall cs G cs' T G', Rel cs G -> ext cs cs' T -> NoDup T ->
  sorted (o_own G') ->
  (forall s, In s (o_own G') -> In s (reg cs) \/ In s T) ->
  (forall s, In s (reg cs) \/ In s T -> In s (o_own G') \/ In s (o_dead G')) ->
  (forall s, In s (vslots cs) -> In s (o_own G')) ->
  Rel cs' G'.
Proof.
  intros cs G cs' T G' R E NT HS H1 H2 H3. pose proof E as [h [t [E1 [E2 [E3 [E4 [E5 [E6 E7]]]]]]]].
  constructor.
  - rewrite E2. discriminate.
  - intros sc Hsc. rewrite E2 in Hsc. destruct Hsc as [Hsc|Hsc].
    + subst sc. assert (Hh : noprot_sc h) by (apply (r_np _ _ R); rewrite E1; left; reflexivity).
      destruct Hh as [Hv Ht]. split; cbn [sc_vars sc_temps]; [exact Hv|]. intros x Hx. apply in_app_or in Hx.
      destruct Hx as [Hx|Hx]; [apply Ht; exact Hx|]. apply in_map_iff in Hx. destruct Hx as [s [Hs _]]. subst x. reflexivity.
    + apply (r_np _ _ R). rewrite E1. right. exact Hsc.
  - pose proof (r_nd _ _ R) as N. unfold reg in *. rewrite E1 in N. rewrite E2. cbn [flat_map] in *.
    unfold scope_slots at 1. unfold scope_slots at 1 in N. cbn [sc_vars sc_temps]. rewrite map_app, map_map. cbn [t_slot]. rewrite map_id.
    set (V := map v_slot (sc_vars h)) in *. set (Tm := map t_slot (sc_temps h)) in *. set (Rs := flat_map scope_slots t) in *.
    assert (Hfresh : forall s, In s T -> ~ In s ((V ++ Tm) ++ Rs)).
    { intros s Hs Hin. assert (Hr : In s (reg cs)) by (unfold reg; rewrite E1; cbn [flat_map]; unfold scope_slots at 1; exact Hin).
      apply (r_lt _ _ R) in Hr. apply E7 in Hs. lia. }
    apply (Permutation_NoDup (l := T ++ (V ++ Tm) ++ Rs)).
    + rewrite <- !app_assoc. eapply Permutation_trans; [apply Permutation_app_comm|]. rewrite <- !app_assoc.
      apply Permutation_app_head. apply Permutation_app_head. apply Permutation_app_comm.
    + apply NoDup_app_intro; [exact NT | exact N|]. intros x Hx1 Hx2. exact (Hfresh x Hx1 Hx2).
  - intros s Hs. apply (ext_reg _ _ _ E) in Hs. destruct Hs as [Hs|Hs]; [apply (r_lt _ _ R) in Hs; lia | apply E7 in Hs; lia].
  - exact HS.
  - intros s Hs. apply (ext_reg _ _ _ E). apply H1. exact Hs.
  - intros s Hs. apply H2. apply (ext_reg _ _ _ E). exact Hs.
  - rewrite (ext_vslots _ _ _ E). exact H3.
  - rewrite E3, (ext_vslots _ _ _ E). apply (r_env _ _ R).
Qed.

Lemma Rel_fresh_notin : forall cs G d, Rel cs G -> c_next cs <= d -> ~ In d (o_own G).
Proof. intros cs G d R H Hin. apply (r_own_reg _ _ R) in Hin. apply (r_lt _ _ R) in Hin. lia. Qed.

Lemma ext_one : forall cs, c_scopes cs <> [] -> ext cs (add_temp (c_next cs) false (snd (fresh cs))) [c_next cs].
Proof.
  intros cs H. destruct (c_scopes cs) as [|h t] eqn:E; [congruence|]. exists h, t.
  unfold add_temp, map_head, fresh, with_scopes. cbn [snd c_scopes c_next c_env c_loop c_fun]. rewrite E.
  cbn [c_scopes c_next c_env c_loop c_fun map].
  split; [reflexivity|]. split; [reflexivity|]. split; [reflexivity|]. split; [reflexivity|]. split; [reflexivity|].
  split; [lia|]. intros s [Hs|[]]. lia.
Qed.

Lemma ext_two : forall cs, c_scopes cs <> [] ->
  ext cs (add_temp (S (c_next cs)) false (snd (fresh (snd (fresh cs))))) [S (c_next cs)].
Proof.
  intros cs H. destruct (c_scopes cs) as [|h t] eqn:E; [congruence|]. exists h, t.
  unfold add_temp, map_head, fresh, with_scopes. cbn [snd c_scopes c_next c_env c_loop c_fun]. rewrite E.
  cbn [c_scopes c_next c_env c_loop c_fun map].
  split; [reflexivity|]. split; [reflexivity|]. split; [reflexivity|]. split; [reflexivity|]. split; [reflexivity|].
  split; [lia|]. intros s [Hs|[]]. lia.
Qed.

Lemma ext_ne : forall cs cs' T, ext cs cs' T -> c_scopes cs' <> [].
Proof. intros cs cs' T [h [t [_ [E _]]]]. rewrite E. discriminate. Qed.

(* ------------------------------------------------------------------ the lemma that is still missing
   With the relation above the open compile-level statement is

     compile_ok : forall P, compile P = Some code -> (skeleton P well-kinded: every function body returns on every
                  path when f_ret, Referenz arguments are variables) -> program_ok P = true

   whose induction needs, for expressions (cexpr / cbuild / cargs / cextargs, mutually) and statements (cstmt, with the
   inlining depth of inline_d as outer induction):

     cexpr_ok : cexpr inl sg e cs = Some (code, r, cs') -> Rel cs G ->
       exists G' T, own_check K code G = Some (Some G') /\ Rel cs' G' /\ ext cs cs' T /\ NoDup T /\
         (forall s, In s (reg cs) -> In s (o_own G) -> In s (o_own G')) /\           (* older owners are untouched *)
         (forall s, In s (o_own G') -> In s (o_own G) \/ In s T) /\                 (* only registered temporaries are new owners *)
         match r with RTemp s => In s T /\ In s (o_own G') | RRef p => In (root p) (vslots cs) | RPrim => True end

     cstmt_ok : the same with the context K built from c_loop / c_fun: at every SBreak / SContinue / SReturn the frees
       emitted by loop_exit_frees / return_frees lead (check_frees above) from the current owners to exactly the owners
       recorded for the loop exit / loop head / call return, because own lists are sorted (sorted_ext) and contain
       exactly the registered, non-dead slots (Rel).

   Rel, ext, Rel_ext, check_frees and the sorted-list lemmas of this file are the proved part of that induction; the
   cases of cexpr_ok / cstmt_ok themselves are not proved.  Instead Lower/CompileBounded.v proves program_ok for an
   explicitly enumerated, bounded family of skeletons that contains every construct and every exit, and the check
   evaluates the extracted program_ok on every generated skeleton. *)
