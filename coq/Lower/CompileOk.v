(* Compile-level theorem for a fragment of the skeleton: the actions emitted by Own.compile pass the static
   ownership discipline, hence (OwnProofs.program_ok_balanced) every normally terminating run is balanced.

   PROVED (this file): for the fragment
       expressions  EPrim EVar EPart ELit EUse1 EUse2 EDerive EElem EConcat EAnd                               (fexpr)
       statements   SSkip SSeq SDecl SAssign SAssignPart SExpr SBlock SIf SWhile SDoWhile SBreak SContinue  (fstmt;
                    SSeq a b requires that a can fall through: no statements behind an unconditional break/continue)
     (operators read their operands in place: IUse, accepted because the operand's owner is still owned: use_of_now/_later)
     cexpr_ok / catom_ok / cstmt_ok: the code Own.compile emits passes own_check from every static state related (Rel)
     to the compile-time state, under the loop-context invariant LK (the owners below the alloca counter at loop entry
     are frozen, the scopes from the loop scope upwards hold only younger slots: thr, snap), and leads to a related
     state on fallthrough while break / continue arrive at the states recorded for the loop (exit_check);
     compile_ok: program_ok P = true for every fragment program that compiles; program_balanced_fragment.
   NOT PROVED: the remaining cases of the same inductions —
     cexpr_ok for EFalls (arm result claimed out of the arm scope before that scope is left, joined through a fresh slot),
       EBuild / ECall / EExt (cbuild, cargs, cextargs: owners that are registered nowhere until the callee or container
       took them; ECall needs the outer induction on the inlining depth of inline_d and the IFun rule);
     cstmt_ok for SRepeat (while_ok without the condition scope), SFor (thr for two different heights: the loop scope
       survives a continue; the body must be a block), SForEach (protected temporary and loop variable: noprot_sc does
       not hold, oncont / onbrk are not ISkip) and SReturn (needs ECall; the same exit_check with return_frees).
   For those constructs Lower/CompileBounded.v proves program_ok for an explicitly enumerated family, and the check
   evaluates the extracted program_ok on every generated skeleton. *)
From Coq Require Import List NArith Bool Arith Lia Permutation.
Import ListNotations.
From DDP Require Import Rt.Heap Lower.Own Lower.OwnCheck Lower.OwnProofs.
Local Open Scope nat_scope.

(* ------------------------------------------------------------------ sorted owner lists *)
Fixpoint sorted (l : list nat) : Prop :=
  match l with [] => True | x :: r => (forall y, In y r -> x < y) /\ sorted r end.

Lemma ins_sorted : forall d l, sorted l -> sorted (ins d l).
Proof.
  induction l as [|y l IH]; intro H; cbn [ins].
  - cbn. split; [intros ? []|exact Logic.I].
  - destruct H as [H1 H2]. destruct (Nat.ltb_spec d y) as [L|L].
    + cbn [sorted]. split; [|split; assumption]. intros z [E|Hz]; [subst; exact L | specialize (H1 z Hz); lia].
    + destruct (Nat.eqb_spec d y) as [E|E]; [split; assumption|].
      cbn [sorted]. split; [|apply IH; exact H2]. intros z Hz. apply ins_In in Hz. destruct Hz as [Hz|Hz]; [subst; lia | apply H1; exact Hz].
Qed.
Lemma del_sorted : forall d l, sorted l -> sorted (del d l).
Proof.
  induction l as [|y l IH]; intro H; [exact Logic.I|]. destruct H as [H1 H2]. unfold del in *. cbn [filter].
  destruct (negb (Nat.eqb d y)); [|apply IH; exact H2]. cbn [sorted]. split; [|apply IH; exact H2].
  intros z Hz. apply filter_In in Hz. apply H1. tauto.
Qed.
Lemma sorted_ext : forall a b, sorted a -> sorted b -> (forall x, In x a <-> In x b) -> a = b.
Proof.
  induction a as [|x a IH]; intros b Ha Hb H.
  - destruct b as [|y b]; [reflexivity|]. exfalso. apply (H y). left. reflexivity.
  - destruct b as [|y b]; [exfalso; apply (H x); left; reflexivity|].
    destruct Ha as [Ha1 Ha2]. destruct Hb as [Hb1 Hb2].
    assert (E : x = y).
    { destruct (proj1 (H x) (or_introl eq_refl)) as [E|Hx]; [auto|].
      destruct (proj2 (H y) (or_introl eq_refl)) as [E|Hy]; [auto|].
      specialize (Ha1 y Hy). specialize (Hb1 x Hx). lia. }
    subst y. f_equal. apply IH; try assumption. intro z. split; intro Hz.
    + destruct (proj1 (H z) (or_intror Hz)) as [E|Hz']; [|exact Hz']. subst z. specialize (Ha1 x Hz). lia.
    + destruct (proj2 (H z) (or_intror Hz)) as [E|Hz']; [|exact Hz']. subst z. specialize (Hb1 x Hz). lia.
Qed.
Lemma leq_refl : forall l, leq l l = true.
Proof. exact sub_refl_own. Qed.

(* ------------------------------------------------------------------ compile-time state vs. static state *)
Definition scope_slots (sc : scope) : list nat := map v_slot (sc_vars sc) ++ map t_slot (sc_temps sc).
Definition reg (cs : cstate) : list nat := flat_map scope_slots (c_scopes cs).
Definition vslots (cs : cstate) : list nat := flat_map (fun sc => map v_slot (sc_vars sc)) (c_scopes cs).
Definition noprot_sc (sc : scope) : Prop :=
  (forall v, In v (sc_vars sc) -> v_prot v = false) /\ (forall t, In t (sc_temps sc) -> t_prot t = false).

Record Rel (cs : cstate) (G : ost) : Prop := mkRel {
  r_ne : c_scopes cs <> [];
  r_np : forall sc, In sc (c_scopes cs) -> noprot_sc sc;
  r_nd : NoDup (reg cs);
  r_lt : forall s, In s (reg cs) -> s < c_next cs;
  r_sorted : sorted (o_own G);
  r_own_reg : forall s, In s (o_own G) -> In s (reg cs);
  r_reg : forall s, In s (reg cs) -> In s (o_own G) \/ In s (o_dead G);
  r_vars : forall s, In s (vslots cs) -> In s (o_own G);
  r_env : forall x p, lookup (c_env cs) x = Some p -> In (root p) (vslots cs);
  r_dead_lt : forall s, In s (o_dead G) -> s < c_next cs;
  r_vnd : forall s, In s (vslots cs) -> ~ In s (o_dead G)          (* a variable's slot is never an emptied one *)
}.

Lemma vslots_reg : forall cs s, In s (vslots cs) -> In s (reg cs).
Proof.
  intros cs s H. unfold vslots, reg in *. apply in_flat_map in H. destruct H as [sc [H1 H2]].
  apply in_flat_map. exists sc. split; [exact H1|]. unfold scope_slots. apply in_or_app. left. exact H2.
Qed.

Lemma exit_frees_noprot : forall sc, noprot_sc sc -> exit_frees false sc = map IFree (scope_slots sc).
Proof.
  intros sc [Hv Ht]. unfold exit_frees, scope_slots. rewrite map_app, !map_map. f_equal.
  - rewrite filter_all; [reflexivity|]. intros v Hin. rewrite (Hv v Hin). reflexivity.
  - rewrite filter_all; [reflexivity|]. intros t Hin. rewrite (Ht t Hin). reflexivity.
Qed.

Lemma oc_seq : forall K a b G, own_check K (ISeq a b) G =
  match own_check K a G with Some (Some G1) => own_check K b G1 | r => r end.
Proof. reflexivity. Qed.
Lemma oc_if : forall K a b G, own_check K (IIf a b) G =
  match own_check K a G, own_check K b G with Some ra, Some rb => join ra rb | _, _ => None end.
Proof. reflexivity. Qed.
Lemma iseq_cons_eq : forall c l, iseq (c :: l) = match l with [] => c | _ :: _ => ISeq c (iseq l) end.
Proof. intros c l. destruct l; reflexivity. Qed.
Lemma oc_loop : forall K skf cnt test body oncont onbrk onexit G,
  own_check K (ILoop skf cnt test body oncont onbrk onexit) G =
  match own_check ctx0 test G with
  | Some (Some Gtt) =>
    if sub Gtt G then
      match check_simple onexit G with
      | Some Gout =>
        match own_check (mkCtx (Some (oncont, G)) (Some (onbrk, Gout)) (k_ret K)) body G with
        | Some None => Some (Some Gout)
        | Some (Some Gb) => if sub Gb G then Some (Some Gout) else None
        | None => None
        end
      | None => None
      end
    else None
  | _ => None
  end.
Proof. reflexivity. Qed.
Lemma iseq_cons2 : forall i j l, iseq (i :: j :: l) = ISeq i (iseq (j :: l)).
Proof. reflexivity. Qed.

(* freeing a list of distinct slots each of which is owned or dead *)
Lemma check_frees : forall K L G, NoDup L -> (forall s, In s L -> In s (o_own G) \/ In s (o_dead G)) ->
  exists G', own_check K (iseq (map IFree L)) G = Some (Some G') /\ o_dead G' = o_dead G /\
             (forall s, In s (o_own G') <-> In s (o_own G) /\ ~ In s L) /\ (sorted (o_own G) -> sorted (o_own G')).
Proof.
  intros K L. induction L as [|x L IH]; intros G Hnd H.
  - exists G. cbn. split; [reflexivity|]. split; [reflexivity|]. split; [intro s; tauto | auto].
  - inversion Hnd as [|? ? Hn Hd]; subst.
    assert (Hstep : exists G1, own_check K (IFree x) G = Some (Some G1) /\ o_dead G1 = o_dead G /\
              (forall s, In s (o_own G1) <-> In s (o_own G) /\ s <> x) /\ (sorted (o_own G) -> sorted (o_own G1))).
    { cbn [own_check]. destruct (mem x (o_own G)) eqn:M.
      - exists (take x G). split; [reflexivity|]. split; [reflexivity|]. split; [intro s; cbn; apply del_In | intro Hs; cbn; apply del_sorted; exact Hs].
      - destruct (H x (or_introl eq_refl)) as [Hx|Hx]; [apply mem_In in Hx; congruence|]. apply mem_In in Hx. rewrite Hx.
        exists G. split; [reflexivity|]. split; [reflexivity|]. split; [|auto]. intro s. split; [|tauto].
        intro Hs. split; [exact Hs|]. intro E. subst s. apply mem_In in Hs. congruence. }
    destruct Hstep as [G1 [E1 [D1 [O1 S1]]]].
    destruct (IH G1 Hd) as [G' [E2 [D2 [O2 S2]]]].
    { intros s Hs. rewrite D1. destruct (H s (or_intror Hs)) as [Ho|Ho]; [left; apply O1; split; [exact Ho|] | right; exact Ho].
      intro E. subst s. exact (Hn Hs). }
    exists G'. split; [|split; [congruence|split]].
    + destruct L as [|y L].
      * cbn [map iseq] in *. cbn in E2. inversion E2; subst. exact E1.
      * cbn [map] in *. rewrite iseq_cons2, oc_seq, E1. exact E2.
    + intro s. rewrite O2, O1. cbn [In]. intuition congruence.
    + intro Hs. apply S2, S1, Hs.
Qed.

Lemma oc_iseq_cons : forall K c l G, own_check K (iseq (c :: l)) G =
  match own_check K c G with Some (Some G1) => own_check K (iseq l) G1 | r => r end.
Proof.
  intros K c l G. destruct l as [|j l].
  - cbn [iseq]. destruct (own_check K c G) as [[G1|]|]; reflexivity.
  - rewrite iseq_cons2, oc_seq. reflexivity.
Qed.
Lemma oc_iseq_app : forall K l1 l2 G G1, own_check K (iseq l1) G = Some (Some G1) ->
  own_check K (iseq (l1 ++ l2)) G = own_check K (iseq l2) G1.
Proof.
  intros K l1. induction l1 as [|c l1 IH]; intros l2 G G1 H.
  - cbn in H. inversion H; subst. reflexivity.
  - cbn [app]. rewrite oc_iseq_cons in *. destruct (own_check K c G) as [[G0|]|]; try discriminate H. apply IH. exact H.
Qed.

(* cs' is cs with new variables V and new temporaries T registered in the head scope *)
Definition ext (cs cs' : cstate) (V T : list nat) : Prop :=
  exists h tlsc, c_scopes cs = h :: tlsc /\
    c_scopes cs' = mkScope (sc_vars h ++ map (fun s => mkVar s false) V) (sc_temps h ++ map (fun s => mkTmp s false) T) :: tlsc /\
    c_loop cs' = c_loop cs /\ c_fun cs' = c_fun cs /\ c_next cs <= c_next cs' /\
    (forall s, In s (V ++ T) -> c_next cs <= s < c_next cs').

Lemma ext_refl : forall cs, c_scopes cs <> [] -> ext cs cs [] [].
Proof.
  intros cs H. destruct (c_scopes cs) as [|h t] eqn:E; [congruence|]. exists h, t. cbn [map]. rewrite !app_nil_r.
  destruct h as [v tm]. cbn [sc_vars sc_temps].
  split; [exact E|]. split; [exact E|]. split; [reflexivity|]. split; [reflexivity|]. split; [lia|]. intros s [].
Qed.

Lemma ext_trans : forall a b c V1 T1 V2 T2, ext a b V1 T1 -> ext b c V2 T2 -> ext a c (V1 ++ V2) (T1 ++ T2).
Proof.
  intros a b c V1 T1 V2 T2 [h [t [E1 [E2 [E4 [E5 [E6 E7]]]]]]] [h' [t' [F1 [F2 [F4 [F5 [F6 F7]]]]]]].
  rewrite E2 in F1. inversion F1; subst h' t'. exists h, t. cbn [sc_vars sc_temps] in F2.
  split; [exact E1|]. split; [rewrite F2, !map_app, !app_assoc; reflexivity|]. split; [congruence|]. split; [congruence|].
  split; [lia|]. intros s Hs. rewrite !in_app_iff in Hs.
  assert (H1 : In s (V1 ++ T1) \/ In s (V2 ++ T2)) by (rewrite !in_app_iff; tauto).
  destruct H1 as [H1|H1]; [apply E7 in H1 | apply F7 in H1]; lia.
Qed.

Lemma ext_reg : forall cs cs' V T, ext cs cs' V T -> forall s, In s (reg cs') <-> In s (reg cs) \/ In s V \/ In s T.
Proof.
  intros cs cs' V T [h [t [E1 [E2 _]]]] s. unfold reg. rewrite E1, E2. cbn [flat_map]. unfold scope_slots at 1 3. cbn [sc_vars sc_temps].
  rewrite !in_app_iff, !map_app, !in_app_iff, !map_map. cbn [t_slot v_slot]. rewrite !map_id. tauto.
Qed.
Lemma ext_vslots : forall cs cs' V T, ext cs cs' V T -> forall s, In s (vslots cs') <-> In s (vslots cs) \/ In s V.
Proof.
  intros cs cs' V T [h [t [E1 [E2 _]]]] s. unfold vslots. rewrite E1, E2. cbn [flat_map sc_vars].
  rewrite !in_app_iff, map_app, in_app_iff, map_map. cbn [v_slot]. rewrite map_id. tauto.
Qed.
Lemma ext_ne : forall cs cs' V T, ext cs cs' V T -> c_scopes cs' <> [].
Proof. intros cs cs' V T [h [t [_ [E _]]]]. rewrite E. discriminate. Qed.
Lemma ext_next : forall cs cs' V T, ext cs cs' V T -> c_next cs <= c_next cs'.
Proof. intros cs cs' V T [h [t [_ [_ [_ [_ [E _]]]]]]]. exact E. Qed.
Lemma ext_fresh : forall cs cs' V T, ext cs cs' V T -> forall s, In s V \/ In s T -> c_next cs <= s < c_next cs'.
Proof. intros cs cs' V T [h [t [_ [_ [_ [_ [_ E]]]]]]] s Hs. apply E. apply in_or_app. exact Hs. Qed.

(* re-establishing Rel after the head scope got new variables and temporaries *)
Lemma Rel_ext : forall cs G cs' V T G', Rel cs G -> ext cs cs' V T -> NoDup (V ++ T) ->
  sorted (o_own G') ->
  (forall s, In s (o_own G') -> In s (reg cs) \/ In s V \/ In s T) ->
  (forall s, In s (reg cs) \/ In s V \/ In s T -> In s (o_own G') \/ In s (o_dead G')) ->
  (forall s, In s (vslots cs) \/ In s V -> In s (o_own G')) ->
  (forall s, In s (o_dead G') -> s < c_next cs') ->
  (forall x p, lookup (c_env cs') x = Some p -> In (root p) (vslots cs) \/ In (root p) V) ->
  (forall s, In s (vslots cs) \/ In s V -> ~ In s (o_dead G')) ->
  Rel cs' G'.
Proof.
  intros cs G cs' V T G' R E NT HS H1 H2 H3 H4 H5 H6. pose proof E as [h [t [E1 [E2 [E4 [E5 [E6 E7]]]]]]].
  constructor.
  - rewrite E2. discriminate.
  - intros sc Hsc. rewrite E2 in Hsc. destruct Hsc as [Hsc|Hsc].
    + subst sc. assert (Hh : noprot_sc h) by (apply (r_np _ _ R); rewrite E1; left; reflexivity).
      destruct Hh as [Hv Ht]. split; cbn [sc_vars sc_temps]; intros x Hx; apply in_app_or in Hx; destruct Hx as [Hx|Hx].
      * apply Hv; exact Hx.
      * apply in_map_iff in Hx. destruct Hx as [s [Hs _]]. subst x. reflexivity.
      * apply Ht; exact Hx.
      * apply in_map_iff in Hx. destruct Hx as [s [Hs _]]. subst x. reflexivity.
    + apply (r_np _ _ R). rewrite E1. right. exact Hsc.
  - pose proof (r_nd _ _ R) as N. unfold reg in *. rewrite E1 in N. rewrite E2. cbn [flat_map] in *.
    unfold scope_slots at 1. unfold scope_slots at 1 in N. cbn [sc_vars sc_temps]. rewrite !map_app, !map_map. cbn [t_slot v_slot]. rewrite !map_id.
    set (Vh := map v_slot (sc_vars h)) in *. set (Tm := map t_slot (sc_temps h)) in *. set (Rs := flat_map scope_slots t) in *.
    assert (Hfresh : forall s, In s (V ++ T) -> ~ In s ((Vh ++ Tm) ++ Rs)).
    { intros s Hs Hin. assert (Hr : In s (reg cs)) by (unfold reg; rewrite E1; cbn [flat_map]; unfold scope_slots at 1; exact Hin).
      apply (r_lt _ _ R) in Hr. apply E7 in Hs. lia. }
    apply (Permutation_NoDup (l := (V ++ T) ++ (Vh ++ Tm) ++ Rs)).
    + rewrite (app_assoc (V ++ T)). apply Permutation_app_tail.
      eapply Permutation_trans; [apply Permutation_app_comm|]. rewrite <- !app_assoc. apply Permutation_app_head.
      rewrite !app_assoc. apply Permutation_app_tail. apply Permutation_app_comm.
    + apply NoDup_app_intro; [exact NT | exact N|]. intros x Hx1 Hx2. exact (Hfresh x Hx1 Hx2).
  - intros s Hs. apply (ext_reg _ _ _ _ E) in Hs. destruct Hs as [Hs|Hs]; [apply (r_lt _ _ R) in Hs; lia|].
    assert (In s (V ++ T)) by (apply in_or_app; exact Hs). apply E7 in H. lia.
  - exact HS.
  - intros s Hs. apply (ext_reg _ _ _ _ E). apply H1. exact Hs.
  - intros s Hs. apply H2. apply (ext_reg _ _ _ _ E). exact Hs.
  - intros s Hs. apply H3. apply (ext_vslots _ _ _ _ E). exact Hs.
  - intros x p Hl. apply (ext_vslots _ _ _ _ E). apply H5 with x. exact Hl.
  - exact H4.
  - intros s Hs. apply H6. apply (ext_vslots _ _ _ _ E). exact Hs.
Qed.

Lemma Rel_fresh_notin : forall cs G d, Rel cs G -> c_next cs <= d -> ~ In d (o_own G).
Proof. intros cs G d R H Hin. apply (r_own_reg _ _ R) in Hin. apply (r_lt _ _ R) in Hin. lia. Qed.
Lemma Rel_fresh_notdead : forall cs G d, Rel cs G -> c_next cs <= d -> ~ In d (o_dead G).
Proof. intros cs G d R H Hin. apply (r_dead_lt _ _ R) in Hin. lia. Qed.

Lemma ext_one : forall cs, c_scopes cs <> [] -> ext cs (add_temp (c_next cs) false (snd (fresh cs))) [] [c_next cs].
Proof.
  intros cs H. destruct (c_scopes cs) as [|h t] eqn:E; [congruence|]. exists h, t.
  unfold add_temp, map_head, fresh, with_scopes. cbn [snd c_scopes c_next c_env c_loop c_fun]. rewrite E.
  cbn [c_scopes c_next c_env c_loop c_fun map]. rewrite app_nil_r. destruct h as [v tm]. cbn [sc_vars sc_temps].
  split; [reflexivity|]. split; [reflexivity|]. split; [reflexivity|]. split; [reflexivity|].
  split; [lia|]. intros s [Hs|[]]. lia.
Qed.
Lemma ext_two : forall cs, c_scopes cs <> [] ->
  ext cs (add_temp (S (c_next cs)) false (snd (fresh (snd (fresh cs))))) [] [S (c_next cs)].
Proof.
  intros cs H. destruct (c_scopes cs) as [|h t] eqn:E; [congruence|]. exists h, t.
  unfold add_temp, map_head, fresh, with_scopes. cbn [snd c_scopes c_next c_env c_loop c_fun]. rewrite E.
  cbn [c_scopes c_next c_env c_loop c_fun map]. rewrite app_nil_r. destruct h as [v tm]. cbn [sc_vars sc_temps].
  split; [reflexivity|]. split; [reflexivity|]. split; [reflexivity|]. split; [reflexivity|].
  split; [lia|]. intros s [Hs|[]]. lia.
Qed.

Lemma reg_push : forall cs, reg (push_scope cs) = reg cs.
Proof. intro cs. reflexivity. Qed.
Lemma vslots_push : forall cs, vslots (push_scope cs) = vslots cs.
Proof. intro cs. reflexivity. Qed.

Lemma Rel_push : forall cs G, Rel cs G -> Rel (push_scope cs) G.
Proof.
  intros cs G R. constructor; try (rewrite ?reg_push, ?vslots_push; apply R).
  - discriminate.
  - intros sc [Hsc|Hsc]; [subst sc; split; intros ? [] | apply (r_np _ _ R); exact Hsc].
Qed.

(* leaving the head scope: its variables and temporaries are freed *)
Lemma scope_exit : forall K cs2 G2 h tlsc csp, Rel cs2 G2 -> c_scopes cs2 = h :: tlsc -> tlsc <> [] ->
  c_scopes csp = tlsc -> c_next csp = c_next cs2 ->
  (forall x p, lookup (c_env csp) x = Some p -> In (root p) (vslots csp)) ->
  exists G3, own_check K (iseq (exit_frees false h)) G2 = Some (Some G3) /\ o_dead G3 = o_dead G2 /\
    (forall s, In s (o_own G3) <-> In s (o_own G2) /\ ~ In s (scope_slots h)) /\ Rel csp G3.
Proof.
  intros K cs2 G2 h tlsc csp R E Hne Ep En Henv.
  assert (Hreg : reg cs2 = scope_slots h ++ reg csp) by (unfold reg; rewrite E, Ep; reflexivity).
  assert (Hnp : noprot_sc h) by (apply (r_np _ _ R); rewrite E; left; reflexivity).
  rewrite (exit_frees_noprot h Hnp).
  pose proof (r_nd _ _ R) as N. rewrite Hreg in N.
  destruct (check_frees K (scope_slots h) G2 (NoDup_app_l _ _ _ N)) as [G3 [C1 [C2 [C3 C4]]]].
  { intros s Hs. apply (r_reg _ _ R). rewrite Hreg. apply in_or_app. left. exact Hs. }
  exists G3. split; [exact C1|]. split; [exact C2|]. split; [exact C3|].
  assert (Hdisj : forall s, In s (scope_slots h) -> In s (reg csp) -> False).
  { intros s H1 H2. clear - N H1 H2. induction (scope_slots h) as [|x l IH]; [destruct H1|].
    cbn [app] in N. inversion N as [|? ? Hn Hd]; subst. destruct H1 as [H1|H1].
    - subst x. apply Hn. apply in_or_app. right. exact H2.
    - apply IH; assumption. }
  constructor.
  - rewrite Ep. exact Hne.
  - intros sc Hsc. apply (r_np _ _ R). rewrite E. right. rewrite <- Ep. exact Hsc.
  - eapply NoDup_app_r. exact N.
  - intros s Hs. rewrite En. apply (r_lt _ _ R). rewrite Hreg. apply in_or_app. right. exact Hs.
  - apply C4, (r_sorted _ _ R).
  - intros s Hs. apply C3 in Hs. destruct Hs as [Hs Hn]. apply (r_own_reg _ _ R) in Hs. rewrite Hreg in Hs.
    apply in_app_or in Hs. destruct Hs as [Hs|Hs]; [contradiction | exact Hs].
  - intros s Hs. rewrite C2. destruct (r_reg _ _ R s) as [Ho|Ho]; [rewrite Hreg; apply in_or_app; right; exact Hs| |right; exact Ho].
    left. apply C3. split; [exact Ho|]. intro Hh. exact (Hdisj s Hh Hs).
  - intros s Hs. apply C3. split.
    + apply (r_vars _ _ R). unfold vslots in *. rewrite E. cbn [flat_map]. apply in_or_app. right. rewrite <- Ep. exact Hs.
    + intro Hh. apply (Hdisj s Hh). apply vslots_reg. exact Hs.
  - exact Henv.
  - intros s Hs. rewrite C2 in Hs. rewrite En. apply (r_dead_lt _ _ R). exact Hs.
  - intros s Hs. rewrite C2. apply (r_vnd _ _ R). unfold vslots in *. rewrite E. cbn [flat_map]. apply in_or_app. right. rewrite <- Ep. exact Hs.
Qed.

Lemma Rel_dead_weaken : forall cs G D, Rel cs G ->
  (forall s, In s D -> In s (o_dead G)) -> (forall s, In s (reg cs) -> In s (o_own G) \/ In s D) -> Rel cs (mkO (o_own G) D).
Proof.
  intros cs G D R H1 H2. destruct R. constructor; cbn [o_own o_dead]; try assumption.
  - intros s Hs. apply r_dead_lt0. apply H1. exact Hs.
  - intros s Hs Hd. apply (r_vnd0 s Hs). apply H1. exact Hd.
Qed.

(* claiming a temporary that was registered since cs *)
Lemma remove_tmp_notin : forall s l, ~ In s (map t_slot l) -> remove_tmp s l = None.
Proof.
  induction l as [|t l IH]; intro H; [reflexivity|]. cbn [remove_tmp]. cbn [map] in H.
  destruct (Nat.eqb_spec (t_slot t) s) as [E|E]; [exfalso; apply H; left; exact E|].
  rewrite IH; [reflexivity|]. intro Hin. apply H. right. exact Hin.
Qed.
Lemma remove_tmp_app_r : forall s l1 l2, ~ In s (map t_slot l1) ->
  remove_tmp s (l1 ++ l2) = match remove_tmp s l2 with Some r => Some (l1 ++ r) | None => None end.
Proof.
  induction l1 as [|t l1 IH]; intros l2 H; cbn [app].
  - destruct (remove_tmp s l2); reflexivity.
  - cbn [remove_tmp]. cbn [map] in H. destruct (Nat.eqb_spec (t_slot t) s) as [E|E]; [exfalso; apply H; left; exact E|].
    rewrite IH; [|intro Hin; apply H; right; exact Hin]. destruct (remove_tmp s l2); reflexivity.
Qed.
Lemma remove_tmp_new : forall s T, NoDup T -> In s T ->
  remove_tmp s (map (fun x => mkTmp x false) T) = Some (map (fun x => mkTmp x false) (del s T)).
Proof.
  induction T as [|x T IH]; intros N H; [destruct H|]. inversion N as [|? ? Hn Hd]; subst. cbn [map remove_tmp t_slot].
  unfold del. cbn [filter]. destruct (Nat.eqb_spec x s) as [E|E].
  - subst x. rewrite Nat.eqb_refl. cbn [negb]. rewrite remove_tmp_notin.
    + f_equal. f_equal. symmetry. apply filter_all. intros y Hy. apply negb_true_iff, Nat.eqb_neq. intro E. subst y. exact (Hn Hy).
    + rewrite map_map. cbn [t_slot]. rewrite map_id. exact Hn.
  - destruct H as [H|H]; [congruence|]. destruct (Nat.eqb_spec s x) as [E2|_]; [congruence|]. cbn [negb map].
    fold (del s T). rewrite (IH Hd H). reflexivity.
Qed.

Lemma claim_ext : forall cs G cs1 V T s, Rel cs G -> ext cs cs1 V T -> NoDup T -> In s T ->
  exists cs1', claim_temp s cs1 = Some cs1' /\ ext cs cs1' V (del s T) /\ c_env cs1' = c_env cs1 /\ c_next cs1' = c_next cs1 /\
               c_glob cs1' = c_glob cs1 /\ c_refs cs1' = c_refs cs1.
Proof.
  intros cs G cs1 V T s R E N Hs. pose proof E as [h [t [E1 [E2 [E4 [E5 [E6 E7]]]]]]].
  unfold claim_temp. rewrite E2. cbn [sc_temps sc_vars].
  rewrite remove_tmp_app_r.
  - rewrite (remove_tmp_new s T N Hs). eexists. split; [reflexivity|]. split; [|repeat split].
    exists h, t. unfold with_scopes. cbn [c_scopes c_loop c_fun c_next].
    split; [exact E1|]. split; [reflexivity|]. split; [exact E4|]. split; [exact E5|]. split; [exact E6|].
    intros x Hx. apply E7. apply in_app_or in Hx. apply in_or_app. destruct Hx as [Hx|Hx]; [left; exact Hx|].
    right. apply del_In in Hx. tauto.
  - intro Hin. assert (Hr : In s (reg cs)).
    { unfold reg. rewrite E1. cbn [flat_map]. apply in_or_app. left. unfold scope_slots. apply in_or_app. right. exact Hin. }
    apply (r_lt _ _ R) in Hr. assert (In s (V ++ T)) by (apply in_or_app; right; exact Hs). apply E7 in H. lia.
Qed.

(* ------------------------------------------------------------------ expressions *)
Fixpoint fexpr (e : expr) : bool :=
  match e with
  | EPrim | EVar _ | EPart _ _ | ELit _ => true
  | EUse1 a | EDerive a _ | EElem a _ => fexpr a
  | EUse2 a b | EConcat a b | EAnd a b => fexpr a && fexpr b
  | _ => false
  end.

(* no calls inside the fragment: the left operand of a concatenation is never copied early (7366b9f) *)
Lemma has_call_fexpr : forall e, fexpr e = true -> has_call e = false.
Proof.
  induction e; cbn [fexpr has_call]; intro F; try discriminate F; try reflexivity; auto.
  all: apply andb_true_iff in F; destruct F as [Fa Fb]; rewrite (IHe1 Fa), (IHe2 Fb); reflexivity.
Qed.
Lemma early_copy_fexpr : forall cs a b ra, fexpr b = true -> early_copy cs a b ra = false.
Proof. intros cs a b ra F. unfold early_copy. destruct ra; try reflexivity. rewrite (has_call_fexpr b F). reflexivity. Qed.

Definition res_ok (r : res) (cs : cstate) (T : list nat) (G' : ost) : Prop :=
  match r with
  | RPrim => True
  | RTemp s => In s T /\ In s (o_own G')
  | RRef p => In (root p) (vslots cs)
  end.

Definition expr_post (cs cs' : cstate) (G G' : ost) (T : list nat) (r : res) : Prop :=
  Rel cs' G' /\ ext cs cs' [] T /\ NoDup T /\ c_env cs' = c_env cs /\
  (forall s, s < c_next cs -> (In s (o_own G') <-> In s (o_own G))) /\
  (forall s, In s (o_dead G) -> In s (o_dead G')) /\ res_ok r cs T G'.

Lemma give_fresh_temp : forall cs1 G1 cs' d Gm,
  Rel cs1 G1 -> ext cs1 cs' [] [d] -> c_env cs' = c_env cs1 ->
  sorted (o_own Gm) -> ~ In d (o_own Gm) ->
  (forall s, In s (o_own Gm) -> In s (o_own G1)) ->
  (forall s, In s (o_own G1) -> In s (o_own Gm) \/ In s (o_dead Gm)) ->
  (forall s, In s (o_dead G1) -> In s (o_dead Gm)) ->
  (forall s, In s (o_dead Gm) -> s < c_next cs') ->
  (forall s, In s (vslots cs1) -> In s (o_own Gm)) ->
  (forall s, In s (vslots cs1) -> ~ In s (o_dead Gm)) ->
  Rel cs' (give d Gm).
Proof.
  intros cs1 G1 cs' d Gm R E Eenv HS Hd H1 H2 H3 H4 H5 H6.
  pose proof (ext_fresh _ _ _ _ E d (or_intror (or_introl eq_refl))) as Hfd.
  eapply Rel_ext; [exact R | exact E | repeat constructor; intros [] | | | | | | |]; cbn [give o_own o_dead app].
  - apply ins_sorted. exact HS.
  - intros s Hs. apply ins_In in Hs. destruct Hs as [Hs|Hs]; [right; right; left; auto | left; apply (r_own_reg _ _ R), H1, Hs].
  - intros s [Hs|[[]|[Hs|[]]]].
    + assert (s <> d) by (apply (r_lt _ _ R) in Hs; lia).
      destruct (r_reg _ _ R s Hs) as [Ho|Ho].
      * destruct (H2 s Ho) as [Hm|Hm]; [left; apply ins_In; right; exact Hm | right; apply del_In; split; assumption].
      * right. apply del_In. split; [apply H3; exact Ho | assumption].
    + subst s. left. apply ins_In. left. reflexivity.
  - intros s [Hs|[]]. apply ins_In. right. apply H5. exact Hs.
  - intros s Hs. apply del_In in Hs. destruct Hs as [Hs _]. apply H4. exact Hs.
  - intros x p Hl. left. rewrite Eenv in Hl. apply (r_env _ _ R x p Hl).
  - intros s [Hs|[]] Hdd. apply del_In in Hdd. destruct Hdd as [Hdd _]. exact (H6 s Hs Hdd).
Qed.

Lemma add_temp_env : forall d b cs, c_env (add_temp d b cs) = c_env cs.
Proof. intros. unfold add_temp, map_head. destruct (c_scopes cs); reflexivity. Qed.
Lemma add_temp_next : forall d b cs, c_next (add_temp d b cs) = c_next cs.
Proof. intros. unfold add_temp, map_head. destruct (c_scopes cs); reflexivity. Qed.
Lemma add_var_env : forall d b cs, c_env (add_var d b cs) = c_env cs.
Proof. intros. unfold add_var, map_head. destruct (c_scopes cs); reflexivity. Qed.

Lemma expr_post_refl : forall cs G r, Rel cs G -> res_ok r cs [] G -> expr_post cs cs G G [] r.
Proof.
  intros cs G r R H. split; [exact R|]. split; [apply ext_refl, (r_ne _ _ R)|]. split; [constructor|]. split; [reflexivity|].
  split; [intros s _; tauto|]. split; [auto | exact H].
Qed.

Lemma post_trans : forall cs cs1 cs2 G G1 G2 T1 T2 r1 r2 r,
  expr_post cs cs1 G G1 T1 r1 -> expr_post cs1 cs2 G1 G2 T2 r2 -> res_ok r cs (T1 ++ T2) G2 ->
  expr_post cs cs2 G G2 (T1 ++ T2) r.
Proof.
  intros cs cs1 cs2 G G1 G2 T1 T2 r1 r2 r [R1 [E1 [N1 [V1 [F1 [D1 _]]]]]] [R2 [E2 [N2 [V2 [F2 [D2 _]]]]]] Hr.
  split; [exact R2|]. split; [apply (ext_trans _ _ _ [] T1 [] T2 E1 E2)|].
  split. { apply NoDup_app_intro; [exact N1 | exact N2|]. intros x H1 H2.
           pose proof (ext_fresh _ _ _ _ E1 x (or_intror H1)). pose proof (ext_fresh _ _ _ _ E2 x (or_intror H2)). lia. }
  split; [congruence|].
  split. { intros s Hs. rewrite <- (F1 s Hs). apply F2. pose proof (ext_next _ _ _ _ E1). lia. }
  split; [auto | exact Hr].
Qed.

Lemma step_new_temp : forall cs cs1 G G1 T1 r1 cs' d Gm,
  expr_post cs cs1 G G1 T1 r1 -> ext cs1 cs' [] [d] -> c_env cs' = c_env cs1 ->
  sorted (o_own Gm) -> ~ In d (o_own Gm) ->
  (forall s, In s (o_own Gm) -> In s (o_own G1)) ->
  (forall s, In s (o_own G1) -> In s (o_own Gm) \/ In s (o_dead Gm)) ->
  (forall s, In s (o_dead G1) -> In s (o_dead Gm)) ->
  (forall s, In s (o_dead Gm) -> s < c_next cs') ->
  (forall s, In s (vslots cs1) -> In s (o_own Gm)) ->
  (forall s, s < c_next cs -> In s (o_own G1) -> In s (o_own Gm)) ->
  (forall s, In s (vslots cs1) -> ~ In s (o_dead Gm)) ->
  expr_post cs cs' G (give d Gm) (T1 ++ [d]) (RTemp d).
Proof.
  intros cs cs1 G G1 T1 r1 cs' d Gm P E Eenv HS Hd H1 H2 H3 H4 H5 H6 Hvd.
  pose proof P as [R1 [E1 [N1 [V1 [F1 [D1 _]]]]]].
  pose proof (ext_fresh _ _ _ _ E d (or_intror (or_introl eq_refl))) as Hfd.
  pose proof (ext_next _ _ _ _ E1) as Hn1.
  split; [eapply give_fresh_temp; eassumption|].
  split; [apply (ext_trans _ _ _ [] T1 [] [d] E1 E)|].
  split. { apply NoDup_app_intro; [exact N1 | repeat constructor; intros []|]. intros x H7 [H8|[]]. subst x.
           pose proof (ext_fresh _ _ _ _ E1 d (or_intror H7)). lia. }
  split; [congruence|]. cbn [give o_own o_dead res_ok].
  split. { intros s Hs. rewrite ins_In. split.
           - intros [Ed|Ho]; [lia|]. apply (F1 s Hs). apply H1. exact Ho.
           - intro Ho. right. apply H6; [exact Hs|]. apply (F1 s Hs). exact Ho. }
  split. { intros s Hs. apply del_In. split; [apply H3, D1, Hs|]. intro Ed. subst s.
           apply D1 in Hs. apply (r_dead_lt _ _ R1) in Hs. lia. }
  split; [apply in_or_app; right; left; reflexivity | apply ins_In; left; reflexivity].
Qed.

(* after a scope pushed on top of cs1 has been left, exactly the owners of before own *)
Lemma own_back : forall cs1 G1 cs2 G2 h G3, Rel cs1 G1 -> Rel cs2 G2 -> c_scopes cs2 = h :: c_scopes cs1 ->
  (forall s, In s (scope_slots h) -> c_next cs1 <= s) ->
  (forall s, s < c_next cs1 -> (In s (o_own G2) <-> In s (o_own G1))) ->
  (forall s, In s (o_own G3) <-> In s (o_own G2) /\ ~ In s (scope_slots h)) -> sorted (o_own G3) ->
  o_own G3 = o_own G1.
Proof.
  intros cs1 G1 cs2 G2 h G3 R1 R2 E Hh F H3 S3. apply sorted_ext; [exact S3 | apply (r_sorted _ _ R1)|].
  intro s. rewrite H3. split.
  - intros [Ho Hn]. apply F; [|exact Ho]. apply (r_own_reg _ _ R2) in Ho. unfold reg in Ho. rewrite E in Ho. cbn [flat_map] in Ho.
    apply in_app_or in Ho. destruct Ho as [Ho|Ho]; [contradiction|]. apply (r_lt _ _ R1). exact Ho.
  - intro Ho. assert (Hl : s < c_next cs1) by (apply (r_lt _ _ R1), (r_own_reg _ _ R1), Ho).
    split; [apply F; assumption|]. intro Hin. apply Hh in Hin. lia.
Qed.

Lemma ext_same_scopes : forall cs cs1 csx V T, ext cs cs1 V T -> c_scopes csx = c_scopes cs1 ->
  c_loop csx = c_loop cs1 -> c_fun csx = c_fun cs1 -> c_next cs1 <= c_next csx -> ext cs csx V T.
Proof.
  intros cs cs1 csx V T [h [t [E1 [E2 [E4 [E5 [E6 E7]]]]]]] Es El Ef En. exists h, t.
  split; [exact E1|]. split; [congruence|]. split; [congruence|]. split; [congruence|]. split; [lia|].
  intros s Hs. apply E7 in Hs. lia.
Qed.

Lemma ext_push_head : forall cs1 cs2 V T, ext (push_scope cs1) cs2 V T ->
  exists h, c_scopes cs2 = h :: c_scopes cs1 /\ (forall s, In s (scope_slots h) <-> In s V \/ In s T) /\
            (forall s, In s (map v_slot (sc_vars h)) <-> In s V).
Proof.
  intros cs1 cs2 V T [h [t [E1 [E2 _]]]]. unfold push_scope, with_scopes in E1. cbn [c_scopes] in E1. inversion E1; subst h t.
  eexists. split; [exact E2|]. unfold scope_slots. cbn [sc_vars sc_temps empty_scope app]. rewrite !map_map. cbn [v_slot t_slot]. rewrite !map_id.
  split; intro s; [rewrite in_app_iff|]; tauto.
Qed.

(* an operand that was just evaluated, or evaluated before one more operand, can be read in place *)
Lemma use_of_now : forall K ra cst cs1 G G1 T1, expr_post cst cs1 G G1 T1 ra ->
  own_check K (use_of ra) G1 = Some (Some G1).
Proof.
  intros K ra cst cs1 G G1 T1 [R1 [E1 [_ [_ [_ [_ Hra]]]]]]. destruct ra as [|s|p]; unfold use_of; cbn [res_place own_check root res_ok] in *.
  - reflexivity.
  - destruct Hra as [_ Ho]. rewrite (proj2 (mem_In s (o_own G1)) Ho). reflexivity.
  - assert (Ho : In (root p) (o_own G1)) by (apply (r_vars _ _ R1), (ext_vslots _ _ _ _ E1); left; exact Hra).
    rewrite (proj2 (mem_In _ (o_own G1)) Ho). reflexivity.
Qed.

Lemma use_of_later : forall K ra rb cst cs1 cs2 G G1 G2 T1 T2,
  expr_post cst cs1 G G1 T1 ra -> expr_post cs1 cs2 G1 G2 T2 rb ->
  own_check K (use_of ra) G2 = Some (Some G2).
Proof.
  intros K ra rb cst cs1 cs2 G G1 G2 T1 T2 [R1 [E1 [_ [_ [_ [_ Hra]]]]]] [R2 [E2 [_ [_ [F2 _]]]]].
  destruct ra as [|s|p]; unfold use_of; cbn [res_place own_check root res_ok] in *.
  - reflexivity.
  - destruct Hra as [Ht Ho]. pose proof (ext_fresh _ _ _ _ E1 s (or_intror Ht)) as Hs.
    assert (Ho2 : In s (o_own G2)) by (apply (F2 s); [lia | exact Ho]).
    rewrite (proj2 (mem_In s (o_own G2)) Ho2). reflexivity.
  - assert (Ho : In (root p) (o_own G2)).
    { apply (r_vars _ _ R2), (ext_vslots _ _ _ _ E2). left. apply (ext_vslots _ _ _ _ E1). left. exact Hra. }
    rewrite (proj2 (mem_In _ (o_own G2)) Ho). reflexivity.
Qed.

Section Expr.
  Variable inl : nat -> list (option place) -> cstate -> option (instr * res * cstate).
  Variable sg : nat -> option (list (var * mode * bool) * bool).

  Lemma cexpr_ok : forall e, fexpr e = true -> forall cst code r cs' G K,
    cexpr inl sg e cst = Some (code, r, cs') -> Rel cst G ->
    exists G' T, own_check K code G = Some (Some G') /\ expr_post cst cs' G G' T r.
  Proof.
    induction e; intros F cst code r cs' G K H R; cbn [fexpr] in F; try discriminate F; cbn [cexpr] in H.
    - (* EPrim *) inversion H; subst. exists G, []. split; [reflexivity|]. apply expr_post_refl; [exact R | exact Logic.I].
    - (* EVar *) destruct (lookup (c_env cst) x) as [p|] eqn:El; [|discriminate H]. inversion H; subst.
      exists G, []. split; [reflexivity|]. apply expr_post_refl; [exact R | apply (r_env _ _ R x p El)].
    - (* EPart *) destruct (lookup (c_env cst) x) as [[s| |]|] eqn:El; try discriminate H. inversion H; subst.
      exists G, []. split; [reflexivity|]. apply expr_post_refl; [exact R | apply (r_env _ _ R x _ El)].
    - (* ELit *) unfold fresh in H. inversion H; subst. clear H.
      pose proof (ext_one cst (r_ne _ _ R)) as E. set (d := c_next cst) in *.
      assert (W : ~ In d (o_own G)) by (apply (Rel_fresh_notin cst G d R); unfold d; lia).
      exists (give d G), [d]. cbn [own_check]. unfold writable. rewrite (proj2 (mem_false d (o_own G)) W). cbn [negb].
      split; [reflexivity|]. unfold expr_post.
      split. { apply (give_fresh_temp cst G _ d G R E); [rewrite add_temp_env; reflexivity | apply (r_sorted _ _ R) | exact W | auto | auto | auto | intros s Hs; rewrite add_temp_next; cbn; apply (r_dead_lt _ _ R) in Hs; lia | apply (r_vars _ _ R) | apply (r_vnd _ _ R)]. }
      split; [exact E|]. split; [repeat constructor; intros []|]. split; [rewrite add_temp_env; reflexivity|]. cbn [give o_own o_dead res_ok].
      split. { intros s Hs. rewrite ins_In. split; [intros [Ed|Ho]; [unfold d in Ed; lia | exact Ho] | intro Ho; right; exact Ho]. }
      split. { intros s Hs. apply del_In. split; [exact Hs|]. intro Ed. subst s. exact (Rel_fresh_notdead cst G d R (Nat.le_refl _) Hs). }
      split; [left; reflexivity | apply ins_In; left; reflexivity].
    - (* EUse1 *) destruct (cexpr inl sg e cst) as [[[ia ra] cs1]|] eqn:Ea; [|discriminate H]. inversion H; subst. clear H.
      destruct (IHe F _ _ _ _ G K Ea R) as [G1 [T1 [C1 P1]]]. exists G1, T1.
      split; [rewrite oc_seq, C1; exact (use_of_now K _ _ _ _ _ _ P1)|].
      destruct P1 as [A1 [A2 [A3 [A4 [A5 [A6 _]]]]]]. repeat (split; [assumption|]). exact Logic.I.
    - (* EUse2 *) apply andb_true_iff in F. destruct F as [Fa Fb].
      destruct (cexpr inl sg e1 cst) as [[[ia ra] cs1]|] eqn:Ea; [|discriminate H].
      destruct (cexpr inl sg e2 cs1) as [[[ib rb] cs2]|] eqn:Eb; [|discriminate H]. inversion H; subst. clear H.
      destruct (IHe1 Fa _ _ _ _ G K Ea R) as [G1 [T1 [C1 P1]]].
      destruct (IHe2 Fb _ _ _ _ G1 K Eb (proj1 P1)) as [G2 [T2 [C2 P2]]].
      exists G2, (T1 ++ T2). split; [|eapply post_trans; [exact P1 | exact P2 | exact Logic.I]].
      cbn [iseq]. rewrite oc_seq, C1, oc_seq, C2, oc_seq, (use_of_later K _ _ _ _ _ _ _ _ _ _ P1 P2). exact (use_of_now K _ _ _ _ _ _ P2).
    - (* EDerive *) destruct (cexpr inl sg e cst) as [[[ia ra] cs1]|] eqn:Ea; [|discriminate H].
      unfold fresh in H. inversion H; subst. clear H.
      destruct (IHe F _ _ _ _ G K Ea R) as [G1 [T1 [C1 P1]]]. pose proof (proj1 P1) as R1.
      pose proof (ext_one cs1 (r_ne _ _ R1)) as E. set (d := c_next cs1) in *.
      assert (W : ~ In d (o_own G1)) by (apply (Rel_fresh_notin cs1 G1 d R1); unfold d; lia).
      exists (give d G1), (T1 ++ [d]). split.
      + cbn [iseq]. rewrite oc_seq, C1, oc_seq, (use_of_now K _ _ _ _ _ _ P1). cbn [own_check]. unfold writable. rewrite (proj2 (mem_false d (o_own G1)) W). reflexivity.
      + apply (step_new_temp cst cs1 G G1 T1 ra _ d G1 P1 E); auto using (r_sorted _ _ R1), (r_vars _ _ R1), (r_vnd _ _ R1).
        * rewrite add_temp_env. reflexivity.
        * intros s Hs. rewrite add_temp_next. cbn. apply (r_dead_lt _ _ R1) in Hs. lia.
    - (* EElem *) destruct (cexpr inl sg e cst) as [[[ia ra] cs1]|] eqn:Ea; [|discriminate H].
      destruct (IHe F _ _ _ _ G K Ea R) as [G1 [T1 [C1 P1]]]. pose proof (proj1 P1) as R1.
      destruct ra as [|t|[s|s j|s]]; try discriminate H.
      + (* element of a temporary list: deep copy into a temporary of its own while the list is still owned *)
        unfold fresh in H. inversion H; subst. clear H.
        pose proof P1 as [_ [_ [_ [_ [_ [_ Hra]]]]]]. cbn [res_ok] in Hra. destruct Hra as [Ht1 Ht2].
        pose proof (ext_one cs1 (r_ne _ _ R1)) as E. set (d := c_next cs1) in *.
        assert (W : ~ In d (o_own G1)) by (apply (Rel_fresh_notin cs1 G1 d R1); unfold d; lia).
        exists (give d G1), (T1 ++ [d]). split.
        * rewrite oc_seq, C1. cbn [own_check root]. unfold writable.
          rewrite (proj2 (mem_false d (o_own G1)) W), (proj2 (mem_In t (o_own G1)) Ht2). reflexivity.
        * apply (step_new_temp cst cs1 G G1 T1 (RTemp t) _ d G1 P1 E); auto using (r_sorted _ _ R1), (r_vars _ _ R1), (r_vnd _ _ R1).
          -- rewrite add_temp_env. reflexivity.
          -- intros s Hs. rewrite add_temp_next. cbn. apply (r_dead_lt _ _ R1) in Hs. lia.
      + (* element of a variable: a reference into the variable *)
        inversion H; subst. clear H. exists G1, T1. split; [exact C1|].
        destruct P1 as [A1 [A2 [A3 [A4 [A5 [A6 A7]]]]]]. repeat (split; [assumption|]). exact A7.
    - (* EConcat *) apply andb_true_iff in F. destruct F as [Fa Fb].
      destruct (cexpr inl sg e1 cst) as [[[ia ra] cs1]|] eqn:Ea; [|discriminate H].
      rewrite (early_copy_fexpr cs1 e1 e2 ra Fb) in H.
      destruct (cexpr inl sg e2 cs1) as [[[ib rb] cs2]|] eqn:Eb; [|discriminate H].
      destruct (IHe1 Fa _ _ _ _ G K Ea R) as [G1 [T1 [C1 P1]]].
      destruct (IHe2 Fb _ _ _ _ G1 K Eb (proj1 P1)) as [G2 [T2 [C2 P2]]].
      assert (P12 : expr_post cst cs2 G G2 (T1 ++ T2) RPrim) by (eapply post_trans; [exact P1 | exact P2 | exact Logic.I]).
      pose proof P1 as [R1 [E1 [N1 [V1 [F1 [D1 Hra]]]]]]. pose proof P2 as [R2 [E2 [N2 [V2 [F2 [D2 Hrb]]]]]].
      pose proof (ext_next _ _ _ _ E1) as Hn1. pose proof (ext_next _ _ _ _ E2) as Hn2.
      assert (Hvs : forall v, In v (vslots cs2) -> v < c_next cst).
      { intros v Hv. apply (ext_vslots _ _ _ _ E2) in Hv. destruct Hv as [Hv|[]]. apply (ext_vslots _ _ _ _ E1) in Hv. destruct Hv as [Hv|[]].
        apply (r_lt _ _ R). apply vslots_reg. exact Hv. }
      assert (Hpb : forall pb, res_place rb = Some pb -> In (root pb) (o_own G2) /\ (forall sa, In sa T1 -> root pb <> sa) /\ root pb < c_next cs2).
      { intros pb Hp. destruct rb as [|sb|p]; cbn [res_place] in Hp; inversion Hp; subst pb; cbn [root res_ok] in *.
        - destruct Hrb as [Hb1 Hb2]. split; [exact Hb2|]. pose proof (ext_fresh _ _ _ _ E2 sb (or_intror Hb1)). split; [|lia].
          intros sa Hsa E. subst sa. pose proof (ext_fresh _ _ _ _ E1 sb (or_intror Hsa)). lia.
        - assert (Hv2 : In (root p) (vslots cs2)) by (apply (ext_vslots _ _ _ _ E2); left; exact Hrb).
          split; [apply (r_vars _ _ R2); exact Hv2|]. pose proof (Hvs _ Hv2). split; [|lia].
          intros sa Hsa E. pose proof (ext_fresh _ _ _ _ E1 sa (or_intror Hsa)). lia. }
      destruct ra as [|sa|pa].
      + destruct (res_place rb); discriminate H.
      + destruct (res_place rb) as [pb|] eqn:Erp; [|discriminate H]. unfold fresh in H. inversion H; subst. clear H.
        cbn [res_ok] in Hra. destruct Hra as [Ha1 Ha2]. destruct (Hpb pb eq_refl) as [Hb1 [Hb2 Hb3]].
        pose proof (ext_fresh _ _ _ _ E1 sa (or_intror Ha1)) as Hsa.
        pose proof (ext_one cs2 (r_ne _ _ R2)) as E. set (d := c_next cs2) in *.
        assert (W : ~ In d (o_own G2)) by (apply (Rel_fresh_notin cs2 G2 d R2); unfold d; lia).
        assert (Ha3 : In sa (o_own G2)) by (apply (F2 sa); [lia | exact Ha2]).
        set (Gm := mkO (del sa (o_own G2)) (ins sa (o_dead G2))).
        exists (give d Gm), ((T1 ++ T2) ++ [d]). split.
        * cbn [iseq]. rewrite oc_seq, C1, oc_seq, C2. cbn [own_check]. unfold writable.
          rewrite (proj2 (mem_false d (o_own G2)) W), (proj2 (mem_In sa (o_own G2)) Ha3), (proj2 (mem_In _ (o_own G2)) Hb1). cbn [negb andb].
          destruct (Nat.eqb_spec d sa) as [Ed|_]; [lia|]. destruct (Nat.eqb_spec (root pb) sa) as [Ed|_]; [exfalso; exact (Hb2 sa Ha1 Ed)|].
          reflexivity.
        * apply (step_new_temp cst cs2 G G2 (T1 ++ T2) RPrim _ d Gm P12 E); unfold Gm; cbn [o_own o_dead].
          -- rewrite add_temp_env. reflexivity.
          -- apply del_sorted, (r_sorted _ _ R2).
          -- intro Hd. apply del_In in Hd. tauto.
          -- intros s Hs. apply del_In in Hs. tauto.
          -- intros s Hs. destruct (Nat.eq_dec s sa) as [Es|Es]; [right; apply ins_In; left; exact Es | left; apply del_In; tauto].
          -- intros s Hs. apply ins_In. right. exact Hs.
          -- intros s Hs. rewrite add_temp_next. cbn. apply ins_In in Hs. destruct Hs as [Hs|Hs]; [lia | apply (r_dead_lt _ _ R2) in Hs; lia].
          -- intros s Hs. apply del_In. split; [apply (r_vars _ _ R2); exact Hs|]. pose proof (Hvs _ Hs). lia.
          -- intros s Hs Ho. apply del_In. split; [exact Ho | lia].
          -- intros s Hs Hdd. apply ins_In in Hdd. pose proof (Hvs _ Hs). destruct Hdd as [Hdd|Hdd]; [lia | exact (r_vnd _ _ R2 s Hs Hdd)].
      + destruct (res_place rb) as [pb|] eqn:Erp; [|discriminate H]. unfold fresh in H. cbn [fst snd c_next] in H. inversion H; subst. clear H.
        cbn [res_ok] in Hra. destruct (Hpb pb eq_refl) as [Hb1 [Hb2 Hb3]].
        pose proof (ext_two cs2 (r_ne _ _ R2)) as E. set (c := c_next cs2) in *.
        assert (W : ~ In c (o_own G2)) by (apply (Rel_fresh_notin cs2 G2 c R2); unfold c; lia).
        assert (W2 : ~ In (S c) (o_own G2)) by (apply (Rel_fresh_notin cs2 G2 (S c) R2); unfold c; lia).
        assert (Hpa : In (root pa) (o_own G2)).
        { apply (r_vars _ _ R2). apply (ext_vslots _ _ _ _ E2). left. apply (ext_vslots _ _ _ _ E1). left. exact Hra. }
        set (Gm := mkO (del c (ins c (o_own G2))) (ins c (del c (o_dead G2)))).
        exists (give (S c) Gm), ((T1 ++ T2) ++ [S c]). split.
        * cbn [iseq]. rewrite oc_seq, C1, oc_seq, C2, oc_seq. cbn [own_check]. unfold writable.
          rewrite (proj2 (mem_false c (o_own G2)) W), (proj2 (mem_In _ (o_own G2)) Hpa). cbn [negb andb iseq own_check give o_own o_dead].
          unfold writable. cbn [o_own].
          assert (M1 : mem (S c) (ins c (o_own G2)) = false).
          { apply mem_false. intro Hi. apply ins_In in Hi. destruct Hi as [Hi|Hi]; [lia | exact (W2 Hi)]. }
          assert (M2 : mem c (ins c (o_own G2)) = true) by (apply mem_In, ins_In; left; reflexivity).
          assert (M3 : mem (root pb) (ins c (o_own G2)) = true) by (apply mem_In, ins_In; right; exact Hb1).
          rewrite M1, M2, M3. cbn [negb andb]. destruct (Nat.eqb_spec (S c) c) as [Ed|_]; [lia|].
          destruct (Nat.eqb_spec (root pb) c) as [Ed|_]; [unfold c in Ed; lia|]. reflexivity.
        * apply (step_new_temp cst cs2 G G2 (T1 ++ T2) RPrim _ (S c) Gm P12 E); unfold Gm; cbn [o_own o_dead].
          -- rewrite add_temp_env. reflexivity.
          -- apply del_sorted, ins_sorted, (r_sorted _ _ R2).
          -- intro Hd. apply del_In in Hd. destruct Hd as [Hd _]. apply ins_In in Hd. destruct Hd as [Hd|Hd]; [lia | exact (W2 Hd)].
          -- intros s Hs. apply del_In in Hs. destruct Hs as [Hs Hne]. apply ins_In in Hs. destruct Hs as [Hs|Hs]; [contradiction | exact Hs].
          -- intros s Hs. left. apply del_In. split; [apply ins_In; right; exact Hs|]. intro Es. subst s. exact (W Hs).
          -- intros s Hs. apply ins_In. right. apply del_In. split; [exact Hs|]. apply (r_dead_lt _ _ R2) in Hs. unfold c. lia.
          -- intros s Hs. rewrite add_temp_next. cbn. apply ins_In in Hs. destruct Hs as [Hs|Hs]; [unfold c in Hs; lia|].
             apply del_In in Hs. destruct Hs as [Hs _]. apply (r_dead_lt _ _ R2) in Hs. lia.
          -- intros s Hs. apply del_In. split; [apply ins_In; right; apply (r_vars _ _ R2); exact Hs|]. pose proof (Hvs _ Hs). unfold c. lia.
          -- intros s Hs Ho. apply del_In. split; [apply ins_In; right; exact Ho | unfold c; lia].
          -- intros s Hs Hdd. apply ins_In in Hdd. pose proof (Hvs _ Hs). destruct Hdd as [Hdd|Hdd]; [unfold c in Hdd; lia|].
             apply del_In in Hdd. destruct Hdd as [Hdd _]. exact (r_vnd _ _ R2 s Hs Hdd).
    - (* EAnd *) apply andb_true_iff in F. destruct F as [Fa Fb].
      destruct (cexpr inl sg e1 cst) as [[[ia ra] cs1]|] eqn:Ea; [|discriminate H].
      destruct (cexpr inl sg e2 (push_scope cs1)) as [[[ib rb] cs2]|] eqn:Eb; [|discriminate H]. inversion H; subst. clear H.
      destruct (IHe1 Fa _ _ _ _ G K Ea R) as [G1 [T1 [C1 P1]]].
      pose proof P1 as [R1 [E1 [N1 [V1 [F1 [D1 _]]]]]].
      destruct (IHe2 Fb _ _ _ _ G1 K Eb (Rel_push _ _ R1)) as [G2 [T2 [C2 P2]]].
      pose proof P2 as [R2 [E2 [N2 [V2 [F2 [D2 _]]]]]].
      destruct (ext_push_head _ _ _ _ E2) as [h2 [Eh2 [Hh2 _]]]. rewrite Eh2. cbn [hd].
      assert (Hpe : forall x p, lookup (c_env (pop_scope cs2)) x = Some p -> In (root p) (vslots (pop_scope cs2))).
      { intros x p Hl. unfold pop_scope, with_scopes in *. cbn [c_env c_scopes] in *. rewrite Eh2. cbn [tl].
        rewrite V2 in Hl. apply (r_env _ _ R1 x p Hl). }
      destruct (scope_exit K cs2 G2 h2 (c_scopes cs1) (pop_scope cs2) R2 Eh2 (r_ne _ _ R1)) as [G3 [C3 [D3 [O3 R3]]]];
        [unfold pop_scope, with_scopes; cbn [c_scopes]; rewrite Eh2; reflexivity | reflexivity | exact Hpe|].
      assert (Eo : o_own G3 = o_own G1).
      { apply (own_back cs1 G1 cs2 G2 h2 G3 R1 R2 Eh2); [| exact F2 | exact O3 | apply (r_sorted _ _ R3)].
        intros s Hs. apply Hh2 in Hs. destruct Hs as [[]|Hs]. pose proof (ext_fresh _ _ _ _ E2 s (or_intror Hs)). exact (proj1 H). }
      set (G4 := mkO (o_own G3) (inter (o_dead G3) (o_dead G1))).
      exists G4, T1. split.
      + rewrite oc_seq, C1, oc_if. rewrite <- iseq_cons_eq. rewrite oc_iseq_cons, C2, C3. cbn [own_check join]. unfold G4. rewrite Eo, leq_refl. reflexivity.
      + assert (Hd31 : forall s, In s (o_dead G1) -> In s (o_dead G3)) by (intros s Hs; rewrite D3; apply D2; exact Hs).
        split.
        { apply (Rel_dead_weaken _ G3 _ R3).
          - intros s Hs. apply inter_In in Hs. tauto.
          - intros s Hs. assert (Hr1 : In s (reg cs1)) by (unfold reg, pop_scope, with_scopes in Hs; cbn [c_scopes] in Hs; rewrite Eh2 in Hs; exact Hs).
            destruct (r_reg _ _ R1 s Hr1) as [Ho|Ho]; [left; rewrite Eo; exact Ho | right; apply inter_In; split; [apply Hd31|]; exact Ho]. }
        split. { apply (ext_same_scopes _ _ _ _ _ E1).
                 - unfold pop_scope, with_scopes. cbn [c_scopes]. rewrite Eh2. reflexivity.
                 - destruct E2 as [? [? [_ [_ [El _]]]]]. exact El.
                 - destruct E2 as [? [? [_ [_ [_ [Ef _]]]]]]. exact Ef.
                 - apply (ext_next _ _ _ _ E2). }
        split; [exact N1|]. split; [unfold pop_scope, with_scopes; cbn [c_env]; rewrite V2; exact V1|].
        cbn [G4 o_own o_dead res_ok]. split; [intros s Hs; rewrite Eo; apply F1; exact Hs|].
        split; [|exact Logic.I]. intros s Hs. apply inter_In. split; [apply Hd31|]; apply D1; exact Hs.
  Qed.
End Expr.

(* ------------------------------------------------------------------ statements *)
Definition stmt_post (cs cs' : cstate) (G G' : ost) : Prop :=
  exists V T, Rel cs' G' /\ ext cs cs' V T /\
    (forall s, s < c_next cs -> (In s (o_own G') <-> In s (o_own G))) /\
    (forall s, In s (o_dead G) -> In s (o_dead G')).

Lemma stmt_post_trans : forall a b c G G1 G2, stmt_post a b G G1 -> stmt_post b c G1 G2 -> stmt_post a c G G2.
Proof.
  intros a b c G G1 G2 [V1 [T1 [R1 [E1 [F1 D1]]]]] [V2 [T2 [R2 [E2 [F2 D2]]]]].
  exists (V1 ++ V2), (T1 ++ T2). split; [exact R2|]. split; [eapply ext_trans; eassumption|].
  split; [|auto]. intros s Hs. rewrite <- (F1 s Hs). apply F2. pose proof (ext_next _ _ _ _ E1). lia.
Qed.

Lemma expr_to_stmt_post : forall cs cs' G G' T r, expr_post cs cs' G G' T r -> stmt_post cs cs' G G'.
Proof. intros cs cs' G G' T r [R [E [_ [_ [F [D _]]]]]]. exists [], T. auto. Qed.

(* the same scopes seen from a later point (more allocas handed out, another environment) *)
Lemma Rel_same_scopes : forall cs G cs', Rel cs G -> c_scopes cs' = c_scopes cs -> c_next cs <= c_next cs' ->
  (forall x p, lookup (c_env cs') x = Some p -> In (root p) (vslots cs)) -> Rel cs' G.
Proof.
  intros cs G cs' R Es En Henv. destruct R. unfold reg, vslots in *.
  constructor; unfold reg, vslots; rewrite ?Es; try assumption.
  - intros s Hs. apply r_lt0 in Hs. lia.
  - intros s Hs. apply r_dead_lt0 in Hs. lia.
Qed.

Lemma ext_with : forall cs cs1 cs2 V T, ext cs cs1 V T -> c_scopes cs2 = c_scopes cs1 -> c_loop cs2 = c_loop cs1 ->
  c_fun cs2 = c_fun cs1 -> c_next cs1 <= c_next cs2 -> ext cs cs2 V T.
Proof. exact ext_same_scopes. Qed.

Lemma ext_add_var : forall cs cs1 T v, ext cs cs1 [] T -> c_next cs <= v < c_next cs1 ->
  ext cs (add_var v false cs1) [v] T.
Proof.
  intros cs cs1 T v [h [t [E1 [E2 [E4 [E5 [E6 E7]]]]]]] Hv. exists h, t.
  unfold add_var, map_head, with_scopes. rewrite E2. cbn [c_scopes c_loop c_fun c_next sc_vars sc_temps map].
  rewrite app_nil_r. split; [exact E1|]. split; [reflexivity|]. split; [exact E4|]. split; [exact E5|]. split; [exact E6|].
  intros s [Hs|Hs]; [subst s; exact Hv | apply (E7 s Hs)].
Qed.

Definition fatom (s : stmt) : bool :=
  match s with
  | SSkip => true
  | SDecl _ e | SAssign _ e | SAssignPart _ _ e | SExpr e => fexpr e
  | _ => false
  end.

Lemma decl_final : forall x (cs4 : cstate),
  let fin := match c_fun cs4, c_scopes cs4 with None, [_] => add_glob x cs4 | _, _ => cs4 end in
  c_scopes fin = c_scopes cs4 /\ c_next fin = c_next cs4 /\ c_env fin = c_env cs4 /\ c_loop fin = c_loop cs4 /\ c_fun fin = c_fun cs4.
Proof.
  intros x cs4. cbn zeta. destruct (c_fun cs4) eqn:Ef; [repeat split; assumption|].
  destruct (c_scopes cs4) as [|a [|b l]] eqn:Es; unfold add_glob; cbn; repeat split; assumption.
Qed.

(* a value (temporary s claimed, or copy) stored into a new owner v that is registered as variable or not at all *)
Lemma move_post : forall cst G cs1 G1 T1 csF V T G' (X : list nat),
  Rel cst G -> Rel cs1 G1 -> ext cst cs1 [] T1 ->
  (forall s, s < c_next cst -> (In s (o_own G1) <-> In s (o_own G))) -> (forall s, In s (o_dead G) -> In s (o_dead G1)) ->
  ext cst csF V T -> NoDup (V ++ T) -> c_next cs1 <= c_next csF ->
  (forall s, In s T -> In s T1 /\ ~ In s X) -> (forall s, In s T1 -> ~ In s X -> In s T) ->
  (forall s, In s X -> In s T1) -> (forall s, In s V -> c_next cs1 <= s) ->
  sorted (o_own G') ->
  (forall s, In s (o_own G') <-> (In s (o_own G1) /\ ~ In s X) \/ In s V) ->
  (forall s, In s (o_dead G1) -> In s (o_dead G')) -> (forall s, In s (o_dead G') -> s < c_next csF) ->
  (forall x p, lookup (c_env csF) x = Some p -> In (root p) (vslots cst) \/ In (root p) V) ->
  (forall s, In s (vslots cst) \/ In s V -> ~ In s (o_dead G')) ->
  stmt_post cst csF G G'.
Proof.
  intros cst G cs1 G1 T1 csF V T G' X R R1 E1 F1 D1 EF ND Hn HT1 HT2 HX HV HS HO HD HDl Henv HVd.
  exists V, T. split; [|split; [exact EF|split]].
  - eapply Rel_ext; [exact R | exact EF | exact ND | exact HS | | | | exact HDl | exact Henv | exact HVd].
    + intros s Hs. apply HO in Hs. destruct Hs as [[Hs Hx]|Hs]; [|right; left; exact Hs].
      apply (r_own_reg _ _ R1) in Hs. apply (ext_reg _ _ _ _ E1) in Hs. destruct Hs as [Hs|[[]|Hs]]; [left; exact Hs|].
      right. right. apply HT2; assumption.
    + intros s Hs.
      assert (Hr1 : In s (reg cs1) /\ ~ In s X \/ In s V).
      { destruct Hs as [Hs|[Hs|Hs]].
        - left. split; [apply (ext_reg _ _ _ _ E1); left; exact Hs|]. intro Hx. apply HX in Hx.
          pose proof (ext_fresh _ _ _ _ E1 s (or_intror Hx)). apply (r_lt _ _ R) in Hs. lia.
        - right. exact Hs.
        - left. destruct (HT1 s Hs) as [H1 H2]. split; [apply (ext_reg _ _ _ _ E1); right; right; exact H1 | exact H2]. }
      destruct Hr1 as [[Hr Hx]|Hv]; [|left; apply HO; right; exact Hv].
      destruct (r_reg _ _ R1 s Hr) as [Ho|Ho]; [left; apply HO; left; split; assumption | right; apply HD; exact Ho].
    + intros s [Hs|Hs]; [|apply HO; right; exact Hs]. apply HO. left. split.
      * apply (r_vars _ _ R1). apply (ext_vslots _ _ _ _ E1). left. exact Hs.
      * intro Hx. apply HX in Hx. pose proof (ext_fresh _ _ _ _ E1 s (or_intror Hx)). apply vslots_reg, (r_lt _ _ R) in Hs. lia.
  - intros s Hs. rewrite HO, <- (F1 s Hs). split.
    + intros [[Ho _]|Hv]; [exact Ho|]. apply HV in Hv. pose proof (ext_next _ _ _ _ E1). lia.
    + intro Ho. left. split; [exact Ho|]. intro Hx. apply HX in Hx. pose proof (ext_fresh _ _ _ _ E1 s (or_intror Hx)). lia.
  - intros s Hs. apply HD, D1, Hs.
Qed.

Lemma ext_loop_fun : forall cs cs' V T, ext cs cs' V T -> c_loop cs' = c_loop cs /\ c_fun cs' = c_fun cs.
Proof. intros cs cs' V T [h [t [_ [_ [E4 [E5 _]]]]]]. split; assumption. Qed.

(* a block: push a scope, run, free the scope, forget its variables *)
Lemma block_post : forall K cst G cs1 G1 (env0 : list (var * place)),
  Rel cst G -> stmt_post (push_scope cst) cs1 G G1 ->
  (forall x p, lookup env0 x = Some p -> In (root p) (vslots cst)) ->
  exists G3, own_check K (iseq (exit_frees false (hd empty_scope (c_scopes cs1)))) G1 = Some (Some G3) /\
    o_own G3 = o_own G /\ o_dead G3 = o_dead G1 /\ Rel (leave_scope cs1 env0) G3 /\ ext cst (leave_scope cs1 env0) [] [].
Proof.
  intros K cst G cs1 G1 env0 R [V [T [R1 [E1 [F1 D1]]]]] Henv.
  destruct (ext_push_head _ _ _ _ E1) as [h1 [Eh1 [Hh1 _]]]. rewrite Eh1. cbn [hd].
  destruct (scope_exit K cs1 G1 h1 (c_scopes cst) (leave_scope cs1 env0) R1 Eh1 (r_ne _ _ R)) as [G3 [C3 [D3 [O3 R3]]]].
  - unfold leave_scope. cbn [c_scopes]. rewrite Eh1. reflexivity.
  - reflexivity.
  - intros x p Hl. unfold leave_scope, vslots in *. cbn [c_env c_scopes] in *. rewrite Eh1. cbn [tl]. apply (Henv x p Hl).
  - exists G3. split; [exact C3|]. split; [|split; [exact D3|split; [exact R3|]]].
    + apply (own_back cst G cs1 G1 h1 G3 R R1 Eh1); [| exact F1 | exact O3 | apply (r_sorted _ _ R3)].
      intros s Hs. apply Hh1 in Hs. pose proof (ext_fresh _ _ _ _ E1 s Hs) as Hf. exact (proj1 Hf).
    + destruct (ext_loop_fun _ _ _ _ E1) as [El Ef]. apply (ext_same_scopes cst cst _ [] [] (ext_refl cst (r_ne _ _ R))).
      * unfold leave_scope. cbn [c_scopes]. rewrite Eh1. reflexivity.
      * exact El.
      * exact Ef.
      * apply (ext_next _ _ _ _ E1).
Qed.

Section Stmt.
  Variable inl : nat -> list (option place) -> cstate -> option (instr * res * cstate).
  Variable sg : nat -> option (list (var * mode * bool) * bool).

  Lemma catom_ok : forall s, fatom s = true -> forall cst code cs' G K,
    cstmt inl sg s cst = Some (code, cs') -> Rel cst G ->
    exists G', own_check K code G = Some (Some G') /\ stmt_post cst cs' G G'.
  Proof.
    destruct s; intros F cst code cs' G K H R; cbn [fatom] in F; try discriminate F; cbn [cstmt] in H.
    - (* SSkip *) inversion H; subst. exists G. split; [reflexivity|]. exists [], [].
      split; [exact R|]. split; [apply ext_refl, (r_ne _ _ R)|]. split; [intros; tauto | auto].
    - (* SDecl *) destruct (cexpr inl sg e cst) as [[[ie re] cs1]|] eqn:Ee; [|discriminate H].
      destruct (cexpr_ok inl sg e F _ _ _ _ G K Ee R) as [G1 [T1 [C1 P1]]].
      pose proof P1 as [R1 [E1 [N1 [V1 [F1 [D1 Hre]]]]]]. pose proof (ext_next _ _ _ _ E1) as Hn1.
      destruct (ext_loop_fun _ _ _ _ E1) as [El1 Ef1].
      destruct re as [|s|p].
      + inversion H; subst. exists G1. split; [exact C1 | eapply expr_to_stmt_post; exact P1].
      + unfold fresh in H. cbn [claim_or_copy] in H. set (v := c_next cs1) in *.
        set (cs2 := mkC (c_scopes cs1) (S v) (c_env cs1) (c_loop cs1) (c_fun cs1) (c_glob cs1) (c_refs cs1)) in *.
        cbn [res_ok] in Hre. destruct Hre as [Hs1 Hs2].
        assert (E2 : ext cst cs2 [] T1) by (apply (ext_same_scopes _ _ _ _ _ E1); try reflexivity; cbn; lia).
        destruct (claim_ext cst G cs2 [] T1 s R E2 N1 Hs1) as [cs3 [Ec [E3 [Ev3 [En3 _]]]]]. rewrite Ec in H. inversion H; subst code cs'. clear H.
        set (cs4 := bind x (PSlot v) (add_var v false cs3)).
        destruct (decl_final x cs4) as [Q1 [Q2 [Q3 [Q4 Q5]]]]. cbn zeta in *.
        set (fin := match c_fun cs4 with Some _ => cs4 | None => match c_scopes cs4 with [_] => add_glob x cs4 | _ => cs4 end end) in *.
        pose proof (ext_fresh _ _ _ _ E1 s (or_intror Hs1)) as Hsb.
        assert (EF : ext cst fin [v] (del s T1)).
        { apply (ext_same_scopes cst (add_var v false cs3)); [apply ext_add_var; [exact E3 | rewrite En3; cbn; unfold v; lia] | | | |].
          - rewrite Q1. reflexivity.
          - rewrite Q4. reflexivity.
          - rewrite Q5. reflexivity.
          - rewrite Q2. unfold cs4, bind. cbn [c_next]. lia. }
        assert (W : ~ In v (o_own G1)) by (apply (Rel_fresh_notin cs1 G1 v R1); unfold v; lia).
        exists (give v (take s G1)). split.
        * rewrite oc_seq, C1. cbn [own_check]. unfold writable. rewrite (proj2 (mem_false v (o_own G1)) W), (proj2 (mem_In s (o_own G1)) Hs2). cbn [negb andb].
          destruct (Nat.eqb_spec v s) as [Ed|_]; [unfold v in Ed; lia | reflexivity].
        * apply (move_post cst G cs1 G1 T1 fin [v] (del s T1) _ [s] R R1 E1 F1 D1 EF).
          -- cbn [app]. constructor; [intro Hi; apply del_In in Hi; destruct Hi as [Hi _]; pose proof (ext_fresh _ _ _ _ E1 v (or_intror Hi)); unfold v in *; lia|].
             apply del_nodup. exact N1.
          -- rewrite Q2. unfold cs4, bind. cbn [c_next]. unfold add_var, map_head. destruct (c_scopes cs3); cbn; rewrite En3; cbn; lia.
          -- intros y Hy. apply del_In in Hy. split; [tauto|]. intros [Hx|[]]. destruct Hy as [_ Hy]. congruence.
          -- intros y Hy Hx. apply del_In. split; [exact Hy|]. intro Ey. apply Hx. left. auto.
          -- intros y [Hy|[]]. subst y. exact Hs1.
          -- intros y [Hy|[]]. subst y. unfold v. lia.
          -- cbn [give take o_own]. apply ins_sorted, del_sorted, (r_sorted _ _ R1).
          -- intro y. cbn [give take o_own]. rewrite ins_In, del_In. cbn [In]. intuition congruence.
          -- intros y Hy. cbn [give take o_dead]. apply del_In. split; [exact Hy|]. apply (r_dead_lt _ _ R1) in Hy. unfold v. lia.
          -- intros y Hy. cbn [give take o_dead] in Hy. apply del_In in Hy. destruct Hy as [Hy _]. apply (r_dead_lt _ _ R1) in Hy.
             rewrite Q2. unfold cs4, bind. cbn [c_next]. unfold add_var, map_head. destruct (c_scopes cs3); cbn; rewrite En3; cbn; unfold v; lia.
          -- intros y q Hl. rewrite Q3 in Hl. unfold cs4, bind in Hl. cbn [c_env lookup] in Hl.
             destruct (Nat.eqb y x); [inversion Hl; subst q; right; left; reflexivity|].
             left. rewrite add_var_env, Ev3 in Hl. cbn [c_env cs2] in Hl. rewrite V1 in Hl. apply (r_env _ _ R y q Hl).
          -- intros y Hy Hdd. cbn [give take o_dead] in Hdd. apply del_In in Hdd. destruct Hdd as [Hdd Hne]. destruct Hy as [Hy|[Hy|[]]]; [|congruence].
             apply (r_vnd _ _ R1 y); [apply (ext_vslots _ _ _ _ E1); left; exact Hy | exact Hdd].
      + unfold fresh in H. cbn [claim_or_copy] in H. set (v := c_next cs1) in *.
        set (cs2 := mkC (c_scopes cs1) (S v) (c_env cs1) (c_loop cs1) (c_fun cs1) (c_glob cs1) (c_refs cs1)) in *.
        inversion H; subst code cs'. clear H. cbn [res_ok] in Hre.
        set (cs4 := bind x (PSlot v) (add_var v false cs2)).
        destruct (decl_final x cs4) as [Q1 [Q2 [Q3 [Q4 Q5]]]]. cbn zeta in *.
        set (fin := match c_fun cs4 with Some _ => cs4 | None => match c_scopes cs4 with [_] => add_glob x cs4 | _ => cs4 end end) in *.
        assert (E2 : ext cst cs2 [] T1) by (apply (ext_same_scopes _ _ _ _ _ E1); try reflexivity; cbn; lia).
        assert (EF : ext cst fin [v] T1).
        { apply (ext_same_scopes cst (add_var v false cs2)); [apply ext_add_var; [exact E2 | cbn; unfold v; lia] | | | |].
          - rewrite Q1. reflexivity.
          - rewrite Q4. reflexivity.
          - rewrite Q5. reflexivity.
          - rewrite Q2. unfold cs4, bind. cbn [c_next]. lia. }
        assert (W : ~ In v (o_own G1)) by (apply (Rel_fresh_notin cs1 G1 v R1); unfold v; lia).
        assert (Hp : In (root p) (o_own G1)) by (apply (r_vars _ _ R1), (ext_vslots _ _ _ _ E1); left; exact Hre).
        assert (Hnx : c_next fin = S v).
        { rewrite Q2. unfold cs4, bind. cbn [c_next]. unfold add_var, map_head. destruct (c_scopes cs2); reflexivity. }
        exists (give v G1). split.
        * rewrite oc_seq, C1. cbn [own_check]. unfold writable. rewrite (proj2 (mem_false v (o_own G1)) W), (proj2 (mem_In _ (o_own G1)) Hp). reflexivity.
        * apply (move_post cst G cs1 G1 T1 fin [v] T1 _ [] R R1 E1 F1 D1 EF).
          -- cbn [app]. constructor; [intro Hi; pose proof (ext_fresh _ _ _ _ E1 v (or_intror Hi)); unfold v in *; lia | exact N1].
          -- rewrite Hnx. unfold v. lia.
          -- intros y Hy. split; [exact Hy | intros []].
          -- intros y Hy _. exact Hy.
          -- intros y [].
          -- intros y [Hy|[]]. subst y. unfold v. lia.
          -- cbn [give o_own]. apply ins_sorted, (r_sorted _ _ R1).
          -- intro y. cbn [give o_own]. rewrite ins_In. cbn [In]. intuition congruence.
          -- intros y Hy. cbn [give o_dead]. apply del_In. split; [exact Hy|]. apply (r_dead_lt _ _ R1) in Hy. unfold v. lia.
          -- intros y Hy. cbn [give o_dead] in Hy. apply del_In in Hy. destruct Hy as [Hy _]. apply (r_dead_lt _ _ R1) in Hy. rewrite Hnx. unfold v. lia.
          -- intros y q Hl. rewrite Q3 in Hl. unfold cs4, bind in Hl. cbn [c_env lookup] in Hl.
             destruct (Nat.eqb y x); [inversion Hl; subst q; right; left; reflexivity|].
             left. rewrite add_var_env in Hl. cbn [c_env cs2] in Hl. rewrite V1 in Hl. apply (r_env _ _ R y q Hl).
          -- intros y Hy Hdd. cbn [give o_dead] in Hdd. apply del_In in Hdd. destruct Hdd as [Hdd Hne]. destruct Hy as [Hy|[Hy|[]]]; [|congruence].
             apply (r_vnd _ _ R1 y); [apply (ext_vslots _ _ _ _ E1); left; exact Hy | exact Hdd].
    - (* SAssign *) destruct (cexpr inl sg e cst) as [[[ie re] cs1]|] eqn:Ee; [|discriminate H].
      destruct (cexpr_ok inl sg e F _ _ _ _ G K Ee R) as [G1 [T1 [C1 P1]]].
      pose proof P1 as [R1 [E1 [N1 [V1 [F1 [D1 Hre]]]]]]. pose proof (ext_next _ _ _ _ E1) as Hn1.
      destruct re as [|s|p].
      + inversion H; subst. exists G1. split; [exact C1 | eapply expr_to_stmt_post; exact P1].
      + destruct (lookup (c_env cs1) x) as [[v| |]|] eqn:El; try discriminate H.
        assert (Hv : In v (vslots cs1)) by apply (r_env _ _ R1 x _ El).
        assert (Hv0 : In v (vslots cst)) by (apply (ext_vslots _ _ _ _ E1) in Hv; destruct Hv as [Hv|[]]; exact Hv).
        assert (Hvl : v < c_next cst) by (apply (r_lt _ _ R), vslots_reg; exact Hv0).
        cbn [claim_or_copy] in H. cbn [res_ok] in Hre. destruct Hre as [Hs1 Hs2].
        destruct (claim_ext cst G cs1 [] T1 s R E1 N1 Hs1) as [cs2 [Ec [E2 [Ev2 [En2 _]]]]]. rewrite Ec in H. inversion H; subst code cs'. clear H.
        pose proof (ext_fresh _ _ _ _ E1 s (or_intror Hs1)) as Hsb.
        pose proof (r_vars _ _ R1 v Hv) as Hvo.
        exists (give v (take s (take v G1))). split.
        * cbn [iseq]. rewrite oc_seq, C1. cbn [own_check]. rewrite (proj2 (mem_In v (o_own G1)) Hvo). cbn [own_check]. unfold writable. cbn [take o_own].
          assert (M1 : mem v (del v (o_own G1)) = false) by (apply mem_false; intro Hi; apply del_In in Hi; tauto).
          assert (M2 : mem s (del v (o_own G1)) = true) by (apply mem_In, del_In; split; [exact Hs2 | lia]).
          rewrite M1, M2. cbn [negb andb]. destruct (Nat.eqb_spec v s) as [Ed|_]; [lia | reflexivity].
        * apply (move_post cst G cs1 G1 T1 cs2 [] (del s T1) _ [s] R R1 E1 F1 D1 E2).
          -- cbn [app]. apply del_nodup. exact N1.
          -- rewrite En2. lia.
          -- intros y Hy. apply del_In in Hy. split; [tauto|]. intros [Hx|[]]. destruct Hy as [_ Hy]. congruence.
          -- intros y Hy Hx. apply del_In. split; [exact Hy|]. intro Ey. apply Hx. left. auto.
          -- intros y [Hy|[]]. subst y. exact Hs1.
          -- intros y [].
          -- cbn [give take o_own]. apply ins_sorted, del_sorted, del_sorted, (r_sorted _ _ R1).
          -- intro y. cbn [give take o_own]. rewrite ins_In, !del_In. cbn [In]. split.
             ++ intros [Ey|[[Ho Hn1'] Hn2]]; left; [subst y; split; [exact Hvo | intros [Hx|[]]; lia] | split; [exact Ho | intros [Hx|[]]; congruence]].
             ++ intros [[Ho Hx]|[]]. destruct (Nat.eq_dec y v) as [Ey|Ey]; [left; exact Ey | right; split; [split; [exact Ho | exact Ey]|]].
                intro Es. apply Hx. left. auto.
          -- intros y Hy. cbn [give take o_dead]. apply del_In. split; [exact Hy|]. intro Ey. subst y. exact (r_vnd _ _ R1 v Hv Hy).
          -- intros y Hy. cbn [give take o_dead] in Hy. apply del_In in Hy. destruct Hy as [Hy _]. apply (r_dead_lt _ _ R1) in Hy. rewrite En2. exact Hy.
          -- intros y q Hl. left. rewrite Ev2, V1 in Hl. apply (r_env _ _ R y q Hl).
          -- intros y [Hy|[]] Hdd. cbn [give take o_dead] in Hdd. apply del_In in Hdd. destruct Hdd as [Hdd _].
             apply (r_vnd _ _ R1 y); [apply (ext_vslots _ _ _ _ E1); left; exact Hy | exact Hdd].
      + destruct (lookup (c_env cs1) x) as [[v| |]|] eqn:El; try discriminate H.
        assert (Hv : In v (vslots cs1)) by apply (r_env _ _ R1 x _ El).
        assert (Hv0 : In v (vslots cst)) by (apply (ext_vslots _ _ _ _ E1) in Hv; destruct Hv as [Hv|[]]; exact Hv).
        assert (Hvl : v < c_next cst) by (apply (r_lt _ _ R), vslots_reg; exact Hv0).
        unfold fresh in H. cbn [claim_or_copy] in H. set (d := c_next cs1) in *. cbn [res_ok] in Hre.
        pose proof (ext_one cs1 (r_ne _ _ R1)) as Eo. fold d in Eo.
        assert (E1d : ext cst (add_temp d false (snd (fresh cs1))) [] (T1 ++ [d])) by apply (ext_trans _ _ _ [] T1 [] [d] E1 Eo).
        assert (N1d : NoDup (T1 ++ [d])).
        { apply NoDup_app_intro; [exact N1 | repeat constructor; intros []|]. intros y Hy [Hd|[]]. subst y.
          pose proof (ext_fresh _ _ _ _ E1 d (or_intror Hy)). unfold d in *. lia. }
        unfold fresh in E1d. cbn [snd] in E1d.
        assert (Hdin : In d (T1 ++ [d])) by (apply in_or_app; right; left; reflexivity).
        destruct (claim_ext cst G _ [] (T1 ++ [d]) d R E1d N1d Hdin) as [cs2 [Ec [E2 [Ev2 [En2 _]]]]].
        change (S (c_next cs1)) with (S d) in Ec. rewrite Ec in H. inversion H; subst code cs'. clear H.
        pose proof (r_vars _ _ R1 v Hv) as Hvo.
        assert (W : ~ In d (o_own G1)) by (apply (Rel_fresh_notin cs1 G1 d R1); unfold d; lia).
        assert (Hp : In (root p) (o_own G1)) by (apply (r_vars _ _ R1), (ext_vslots _ _ _ _ E1); left; exact Hre).
        assert (Hnx : c_next cs2 = S d) by (rewrite En2, add_temp_next; reflexivity).
        exists (give v (take d (take v (give d G1)))). split.
        * cbn [iseq]. rewrite oc_seq, C1. cbn [own_check]. unfold writable.
          rewrite (proj2 (mem_false d (o_own G1)) W), (proj2 (mem_In _ (o_own G1)) Hp). cbn [negb andb own_check give o_own o_dead].
          assert (M0 : mem v (ins d (o_own G1)) = true) by (apply mem_In, ins_In; right; exact Hvo).
          rewrite M0. cbn [own_check take o_own o_dead]. unfold writable. cbn [o_own].
          assert (M1 : mem v (del v (ins d (o_own G1))) = false) by (apply mem_false; intro Hi; apply del_In in Hi; tauto).
          assert (M2 : mem d (del v (ins d (o_own G1))) = true) by (apply mem_In, del_In; split; [apply ins_In; left; reflexivity | unfold d; lia]).
          cbn [give o_own]. rewrite M1, M2. cbn [negb andb]. destruct (Nat.eqb_spec v d) as [Ed|_]; [unfold d in Ed; lia | reflexivity].
        * apply (move_post cst G cs1 G1 T1 cs2 [] (del d (T1 ++ [d])) _ [] R R1 E1 F1 D1 E2).
          -- cbn [app]. apply del_nodup. exact N1d.
          -- rewrite Hnx. unfold d. lia.
          -- intros y Hy. apply del_In in Hy. destruct Hy as [Hy Hne]. apply in_app_or in Hy. destruct Hy as [Hy|[Hy|[]]]; [split; [exact Hy | intros []] | congruence].
          -- intros y Hy _. apply del_In. split; [apply in_or_app; left; exact Hy|]. intro Ey. subst y.
             pose proof (ext_fresh _ _ _ _ E1 d (or_intror Hy)). unfold d in *. lia.
          -- intros y [].
          -- intros y [].
          -- cbn [give take o_own]. apply ins_sorted, del_sorted, del_sorted, ins_sorted, (r_sorted _ _ R1).
          -- intro y. cbn [give take o_own]. rewrite ins_In, !del_In, ins_In. cbn [In]. split.
             ++ intros [Ey|[[[Ey|Ho] Hn1'] Hn2]]; left; [subst y; split; [exact Hvo | intros []] | congruence | split; [exact Ho | intros []]].
             ++ intros [[Ho _]|[]]. destruct (Nat.eq_dec y v) as [Ey|Ey]; [left; exact Ey | right]. split; [split; [right; exact Ho | exact Ey]|].
                intro Ey2. subst y. exact (W Ho).
          -- intros y Hy. cbn [give take o_dead]. rewrite !del_In. split; [split; [exact Hy|]|].
             ++ apply (r_dead_lt _ _ R1) in Hy. unfold d. lia.
             ++ intro Ey. subst y. exact (r_vnd _ _ R1 v Hv Hy).
          -- intros y Hy. cbn [give take o_dead] in Hy. rewrite !del_In in Hy. destruct Hy as [[Hy _] _]. apply (r_dead_lt _ _ R1) in Hy. rewrite Hnx. unfold d. lia.
          -- intros y q Hl. left. rewrite Ev2, add_temp_env in Hl. cbn [c_env] in Hl. rewrite V1 in Hl. apply (r_env _ _ R y q Hl).
          -- intros y [Hy|[]] Hdd. cbn [give take o_dead] in Hdd. rewrite !del_In in Hdd. destruct Hdd as [[Hdd _] _].
             apply (r_vnd _ _ R1 y); [apply (ext_vslots _ _ _ _ E1); left; exact Hy | exact Hdd].
    - (* SAssignPart *) destruct (cexpr inl sg e cst) as [[[ie re] cs1]|] eqn:Ee; [|discriminate H].
      destruct (cexpr_ok inl sg e F _ _ _ _ G K Ee R) as [G1 [T1 [C1 P1]]].
      pose proof P1 as [R1 [E1 [N1 [V1 [F1 [D1 Hre]]]]]]. pose proof (ext_next _ _ _ _ E1) as Hn1.
      destruct (lookup (c_env cs1) x) as [[v| |]|] eqn:El; try discriminate H.
      assert (Hv : In v (vslots cs1)) by apply (r_env _ _ R1 x _ El).
      assert (Hv0 : In v (vslots cst)) by (apply (ext_vslots _ _ _ _ E1) in Hv; destruct Hv as [Hv|[]]; exact Hv).
      assert (Hvl : v < c_next cst) by (apply (r_lt _ _ R), vslots_reg; exact Hv0).
      pose proof (r_vars _ _ R1 v Hv) as Hvo.
      destruct re as [|s|p].
      + inversion H; subst. exists G1. split; [exact C1 | eapply expr_to_stmt_post; exact P1].
      + cbn [res_ok] in Hre. destruct Hre as [Hs1 Hs2].
        destruct (claim_ext cst G cs1 [] T1 s R E1 N1 Hs1) as [cs2 [Ec [E2 [Ev2 [En2 _]]]]]. rewrite Ec in H. inversion H; subst code cs'. clear H.
        pose proof (ext_fresh _ _ _ _ E1 s (or_intror Hs1)) as Hsb.
        exists (take s G1). split.
        * cbn [iseq]. rewrite oc_seq, C1. cbn [own_check].
          rewrite (proj2 (mem_In v (o_own G1)) Hvo), (proj2 (mem_In s (o_own G1)) Hs2). cbn [andb].
          destruct (Nat.eqb_spec v s) as [Ed|_]; [lia | reflexivity].
        * apply (move_post cst G cs1 G1 T1 cs2 [] (del s T1) _ [s] R R1 E1 F1 D1 E2).
          -- cbn [app]. apply del_nodup. exact N1.
          -- rewrite En2. lia.
          -- intros y Hy. apply del_In in Hy. split; [tauto|]. intros [Hx|[]]. destruct Hy as [_ Hy]. congruence.
          -- intros y Hy Hx. apply del_In. split; [exact Hy|]. intro Ey. apply Hx. left. auto.
          -- intros y [Hy|[]]. subst y. exact Hs1.
          -- intros y [].
          -- cbn [take o_own]. apply del_sorted, (r_sorted _ _ R1).
          -- intro y. cbn [take o_own]. rewrite del_In. cbn [In]. intuition congruence.
          -- intros y Hy. exact Hy.
          -- intros y Hy. cbn [take o_dead] in Hy. apply (r_dead_lt _ _ R1) in Hy. rewrite En2. exact Hy.
          -- intros y q Hl. left. rewrite Ev2, V1 in Hl. apply (r_env _ _ R y q Hl).
          -- intros y [Hy|[]] Hdd. cbn [take o_dead] in Hdd.
             apply (r_vnd _ _ R1 y); [apply (ext_vslots _ _ _ _ E1); left; exact Hy | exact Hdd].
      + unfold fresh in H. set (d := c_next cs1) in *. cbn [res_ok] in Hre.
        pose proof (ext_one cs1 (r_ne _ _ R1)) as Eo. fold d in Eo.
        assert (E1d : ext cst (add_temp d false (snd (fresh cs1))) [] (T1 ++ [d])) by apply (ext_trans _ _ _ [] T1 [] [d] E1 Eo).
        assert (N1d : NoDup (T1 ++ [d])).
        { apply NoDup_app_intro; [exact N1 | repeat constructor; intros []|]. intros y Hy [Hd|[]]. subst y.
          pose proof (ext_fresh _ _ _ _ E1 d (or_intror Hy)). unfold d in *. lia. }
        unfold fresh in E1d. cbn [snd] in E1d.
        assert (Hdin : In d (T1 ++ [d])) by (apply in_or_app; right; left; reflexivity).
        destruct (claim_ext cst G _ [] (T1 ++ [d]) d R E1d N1d Hdin) as [cs2 [Ec [E2 [Ev2 [En2 _]]]]].
        change (S (c_next cs1)) with (S d) in Ec. rewrite Ec in H. inversion H; subst code cs'. clear H.
        assert (W : ~ In d (o_own G1)) by (apply (Rel_fresh_notin cs1 G1 d R1); unfold d; lia).
        assert (Hp : In (root p) (o_own G1)) by (apply (r_vars _ _ R1), (ext_vslots _ _ _ _ E1); left; exact Hre).
        assert (Hnx : c_next cs2 = S d) by (rewrite En2, add_temp_next; reflexivity).
        exists (take d (give d G1)). split.
        * cbn [iseq]. rewrite oc_seq, C1. cbn [own_check]. unfold writable.
          rewrite (proj2 (mem_false d (o_own G1)) W), (proj2 (mem_In _ (o_own G1)) Hp). cbn [negb andb own_check give o_own o_dead].
          assert (M0 : mem v (ins d (o_own G1)) = true) by (apply mem_In, ins_In; right; exact Hvo).
          assert (M2 : mem d (ins d (o_own G1)) = true) by (apply mem_In, ins_In; left; reflexivity).
          rewrite M0, M2. cbn [andb]. destruct (Nat.eqb_spec v d) as [Ed|_]; [unfold d in Ed; lia | reflexivity].
        * apply (move_post cst G cs1 G1 T1 cs2 [] (del d (T1 ++ [d])) _ [] R R1 E1 F1 D1 E2).
          -- cbn [app]. apply del_nodup. exact N1d.
          -- rewrite Hnx. unfold d. lia.
          -- intros y Hy. apply del_In in Hy. destruct Hy as [Hy Hne]. apply in_app_or in Hy. destruct Hy as [Hy|[Hy|[]]]; [split; [exact Hy | intros []] | congruence].
          -- intros y Hy _. apply del_In. split; [apply in_or_app; left; exact Hy|]. intro Ey. subst y.
             pose proof (ext_fresh _ _ _ _ E1 d (or_intror Hy)). unfold d in *. lia.
          -- intros y [].
          -- intros y [].
          -- cbn [give take o_own]. apply del_sorted, ins_sorted, (r_sorted _ _ R1).
          -- intro y. cbn [give take o_own]. rewrite del_In, ins_In. cbn [In]. split.
             ++ intros [[Ey|Ho] Hne]; [congruence | left; split; [exact Ho | intros []]].
             ++ intros [[Ho _]|[]]. split; [right; exact Ho|]. intro Ey. subst y. exact (W Ho).
          -- intros y Hy. cbn [give take o_dead]. apply del_In. split; [exact Hy|]. apply (r_dead_lt _ _ R1) in Hy. unfold d. lia.
          -- intros y Hy. cbn [give take o_dead] in Hy. apply del_In in Hy. destruct Hy as [Hy _]. apply (r_dead_lt _ _ R1) in Hy. rewrite Hnx. unfold d. lia.
          -- intros y q Hl. left. rewrite Ev2, add_temp_env in Hl. cbn [c_env] in Hl. rewrite V1 in Hl. apply (r_env _ _ R y q Hl).
          -- intros y [Hy|[]] Hdd. cbn [give take o_dead] in Hdd. apply del_In in Hdd. destruct Hdd as [Hdd _].
             apply (r_vnd _ _ R1 y); [apply (ext_vslots _ _ _ _ E1); left; exact Hy | exact Hdd].
    - (* SExpr *) destruct (cexpr inl sg e cst) as [[[ie re] cs1]|] eqn:Ee; [|discriminate H]. inversion H; subst. clear H.
      destruct (cexpr_ok inl sg e F _ _ _ _ G K Ee R) as [G1 [T1 [C1 P1]]].
      exists G1. split; [exact C1 | eapply expr_to_stmt_post; exact P1].
  Qed.
End Stmt.

(* ------------------------------------------------------------------ loops: break / continue *)
Definition upper (cs : cstate) (h : nat) : list nat := flat_map scope_slots (scopes_down_to (c_scopes cs) h).

Lemma sdt_prefix : forall l h, exists rest, l = scopes_down_to l h ++ rest.
Proof.
  induction l as [|sc l IH]; intro h; [exists []; reflexivity|]. cbn [scopes_down_to].
  destruct (Nat.leb h (length (sc :: l))); [|exists (sc :: l); reflexivity].
  destruct (IH h) as [rest E]. exists rest. cbn [app]. rewrite <- E. reflexivity.
Qed.
Lemma sdt_cons : forall sc l h, h <= S (length l) -> scopes_down_to (sc :: l) h = sc :: scopes_down_to l h.
Proof. intros sc l h H. cbn [scopes_down_to length]. destruct (Nat.leb_spec h (S (length l))); [reflexivity | lia]. Qed.
Lemma sdt_short : forall l h, length l < h -> scopes_down_to l h = [].
Proof. intros [|sc l] h H; [reflexivity|]. cbn [scopes_down_to]. destruct (Nat.leb_spec h (length (sc :: l))); [lia | reflexivity]. Qed.

Record thr (cs : cstate) (h n : nat) : Prop := mkThr {
  t_up : forall s, In s (upper cs h) -> n <= s;
  t_low : forall s, In s (reg cs) -> ~ In s (upper cs h) -> s < n;
  t_next : n <= c_next cs;
  t_h : h <= height cs }.
Definition snap (G Gx : ost) (n : nat) : Prop :=
  sorted (o_own Gx) /\ (forall s, In s (o_own Gx) <-> In s (o_own G) /\ s < n) /\ (forall s, In s (o_dead Gx) -> In s (o_dead G)).
Definition LK (K : ctx) (cs : cstate) (G : ost) : Prop :=
  match c_loop cs with
  | None => True
  | Some (hb, hc) => exists Gout Ghead nb nc,
      k_brk K = Some (ISkip, Gout) /\ k_cont K = Some (ISkip, Ghead) /\
      thr cs hb nb /\ thr cs hc nc /\ snap G Gout nb /\ snap G Ghead nc
  end.

Lemma thr_ext : forall cs cs' V T h n, thr cs h n -> ext cs cs' V T -> thr cs' h n.
Proof.
  intros cs cs' V T h n [U L N Hh] E. pose proof E as [h0 [t [E1 [E2 [_ [_ [E6 E7]]]]]]].
  unfold height in Hh. rewrite E1 in Hh. cbn [length] in Hh.
  assert (Hu : forall s, In s (upper cs' h) <-> In s (upper cs h) \/ In s V \/ In s T).
  { intro s. unfold upper. rewrite E1, E2, !sdt_cons by exact Hh. cbn [flat_map]. unfold scope_slots at 1 3. cbn [sc_vars sc_temps].
    rewrite !in_app_iff, !map_app, !in_app_iff, !map_map. cbn [v_slot t_slot]. rewrite !map_id. tauto. }
  constructor.
  - intros s Hs. apply Hu in Hs. destruct Hs as [Hs|Hs]; [apply U; exact Hs|].
    assert (In s (V ++ T)) by (apply in_or_app; exact Hs). apply E7 in H. lia.
  - intros s Hs Hn. apply (ext_reg _ _ _ _ E) in Hs. destruct Hs as [Hs|Hs]; [|exfalso; apply Hn, Hu; right; exact Hs].
    apply L; [exact Hs|]. intro Hx. apply Hn, Hu. left. exact Hx.
  - lia.
  - unfold height. rewrite E2. cbn [length]. exact Hh.
Qed.
Lemma thr_push : forall cs h n, thr cs h n -> thr (push_scope cs) h n.
Proof.
  intros cs h n [U L N Hh]. unfold height in Hh.
  assert (Hu : upper (push_scope cs) h = upper cs h).
  { unfold upper, push_scope, with_scopes. cbn [c_scopes]. rewrite sdt_cons by lia. reflexivity. }
  constructor; rewrite ?Hu; try assumption. unfold height, push_scope, with_scopes. cbn [c_scopes length]. lia.
Qed.
Lemma thr_same : forall cs cs' h n, thr cs h n -> c_scopes cs' = c_scopes cs -> c_next cs <= c_next cs' -> thr cs' h n.
Proof.
  intros cs cs' h n [U L N Hh] Es En. constructor; unfold upper, reg, height in *; rewrite ?Es; try assumption. lia.
Qed.
Lemma snap_step : forall G G' Gx n nx, snap G Gx n -> n <= nx ->
  (forall s, s < nx -> (In s (o_own G') <-> In s (o_own G))) -> (forall s, In s (o_dead G) -> In s (o_dead G')) -> snap G' Gx n.
Proof.
  intros G G' Gx n nx [S1 [S2 S3]] Hn F D. split; [exact S1|]. split; [|auto].
  intro s. rewrite S2. split; intros [Ho Hl]; (split; [apply (F s); [lia | exact Ho] | exact Hl]).
Qed.

Lemma LK_step : forall K cs cs' G G', LK K cs G -> stmt_post cs cs' G G' -> LK K cs' G'.
Proof.
  intros K cs cs' G G' H [V [T [R' [E [F D]]]]]. unfold LK in *. destruct (ext_loop_fun _ _ _ _ E) as [El _]. rewrite El.
  destruct (c_loop cs) as [[hb hc]|]; [|exact Logic.I].
  destruct H as [Gout [Ghead [nb [nc [K1 [K2 [T1 [T2 [S1 S2]]]]]]]]]. exists Gout, Ghead, nb, nc.
  split; [exact K1|]. split; [exact K2|]. split; [eapply thr_ext; eassumption|]. split; [eapply thr_ext; eassumption|].
  split; [apply (snap_step G G' Gout nb (c_next cs) S1 (t_next _ _ _ T1) F D) | apply (snap_step G G' Ghead nc (c_next cs) S2 (t_next _ _ _ T2) F D)].
Qed.
Lemma LK_push : forall K cs G, LK K cs G -> LK K (push_scope cs) G.
Proof.
  intros K cs G H. unfold LK in *. change (c_loop (push_scope cs)) with (c_loop cs). destruct (c_loop cs) as [[hb hc]|]; [|exact Logic.I].
  destruct H as [Gout [Ghead [nb [nc [K1 [K2 [T1 [T2 [S1 S2]]]]]]]]]. exists Gout, Ghead, nb, nc.
  split; [exact K1|]. split; [exact K2|]. split; [apply thr_push; exact T1|]. split; [apply thr_push; exact T2|]. split; assumption.
Qed.
Lemma LK_same : forall K cs cs' G G', LK K cs G -> c_scopes cs' = c_scopes cs -> c_loop cs' = c_loop cs -> c_next cs <= c_next cs' ->
  o_own G' = o_own G -> (forall s, In s (o_dead G) -> In s (o_dead G')) -> LK K cs' G'.
Proof.
  intros K cs cs' G G' H Es El En Eo D. unfold LK in *. rewrite El. destruct (c_loop cs) as [[hb hc]|]; [|exact Logic.I].
  destruct H as [Gout [Ghead [nb [nc [K1 [K2 [T1 [T2 [S1 S2]]]]]]]]]. exists Gout, Ghead, nb, nc.
  split; [exact K1|]. split; [exact K2|]. split; [eapply thr_same; eassumption|]. split; [eapply thr_same; eassumption|].
  split; [apply (snap_step G G' Gout nb nb S1 (le_n _)) | apply (snap_step G G' Ghead nc nc S2 (le_n _))]; try exact D; intros s _; rewrite Eo; tauto.
Qed.

Lemma exit_frees_all : forall scs, (forall sc, In sc scs -> noprot_sc sc) ->
  flat_map (exit_frees false) scs = map IFree (flat_map scope_slots scs).
Proof.
  induction scs as [|sc scs IH]; intro H; [reflexivity|]. cbn [flat_map]. rewrite map_app, IH, exit_frees_noprot; [reflexivity | |].
  - apply H. left. reflexivity.
  - intros x Hx. apply H. right. exact Hx.
Qed.

(* the frees emitted for a break / continue lead to the state recorded for the loop exit / head *)
Lemma exit_check : forall K cs G h n Gx, Rel cs G -> thr cs h n -> snap G Gx n ->
  exists G1, own_check K (iseq (flat_map (exit_frees false) (scopes_down_to (c_scopes cs) h))) G = Some (Some G1) /\ sub G1 Gx = true.
Proof.
  intros K cs G h n Gx R [U L N Hh] [S1 [S2 S3]].
  destruct (sdt_prefix (c_scopes cs) h) as [rest Er].
  rewrite exit_frees_all.
  2:{ intros sc Hsc. apply (r_np _ _ R). rewrite Er. apply in_or_app. left. exact Hsc. }
  assert (Hreg : reg cs = upper cs h ++ flat_map scope_slots rest).
  { unfold reg, upper. rewrite Er at 1. apply flat_map_app. }
  pose proof (r_nd _ _ R) as ND. rewrite Hreg in ND.
  destruct (check_frees K (upper cs h) G (NoDup_app_l _ _ _ ND)) as [G1 [C1 [D1 [O1 So1]]]].
  { intros s Hs. apply (r_reg _ _ R). rewrite Hreg. apply in_or_app. left. exact Hs. }
  exists G1. split; [exact C1|]. unfold sub. apply andb_true_iff. split.
  - replace (o_own G1) with (o_own Gx); [apply leq_refl|]. apply sorted_ext; [exact S1 | apply So1, (r_sorted _ _ R)|].
    intro s. rewrite S2, O1. split; intros [Ho Hx]; (split; [exact Ho|]).
    + intro Hu. apply U in Hu. lia.
    + apply L; [apply (r_own_reg _ _ R); exact Ho | exact Hx].
  - apply subset_incl. intros s Hs. rewrite D1. apply S3. exact Hs.
Qed.

(* ------------------------------------------------------------------ all statements of the fragment *)
(* the statement can fall through (it does not end in a break / continue on every path) *)
Fixpoint thru (s : stmt) : bool :=
  match s with
  | SBreak | SContinue | SReturn _ => false
  | SSeq a b => thru a && thru b
  | SBlock b => thru b
  | SIf _ a b => thru a || thru b
  | _ => true
  end.

Fixpoint fstmt (s : stmt) : bool :=
  match s with
  | SSkip | SDecl _ _ | SAssign _ _ | SAssignPart _ _ _ | SExpr _ => fatom s
  | SSeq a b => fstmt a && fstmt b && thru a       (* no statements behind an unconditional break / continue *)
  | SBlock b => fstmt b
  | SIf c a b => fexpr c && fstmt a && fstmt b
  | SWhile c b | SDoWhile b c => fexpr c && fstmt b
  | SBreak | SContinue => true
  | _ => false
  end.

Definition post3 (cst : cstate) (G : ost) (cs' : cstate) (G' : ost) : Prop :=
  Rel cs' G' /\ (forall s, s < c_next cst -> (In s (o_own G') <-> In s (o_own G))) /\ (forall s, In s (o_dead G) -> In s (o_dead G')).

Lemma ext_head_gen : forall cp l cs2 V T, c_scopes cp = empty_scope :: l -> ext cp cs2 V T ->
  exists h, c_scopes cs2 = h :: l /\ (forall s, In s (scope_slots h) <-> In s V \/ In s T).
Proof.
  intros cp l cs2 V T Ep [h [t [E1 [E2 _]]]]. rewrite Ep in E1. inversion E1; subst h t.
  eexists. split; [exact E2|]. unfold scope_slots. cbn [sc_vars sc_temps empty_scope app]. rewrite !map_map. cbn [v_slot t_slot]. rewrite !map_id.
  intro s. rewrite in_app_iff. tauto.
Qed.

(* a statement run in a scope of its own (block, arm of Wenn, loop body): cp is cs0 with an empty scope pushed *)
Lemma arm_ok : forall K cs0 G0 cp ib cs1 Ro V T (env0 : list (var * place)),
  Rel cs0 G0 -> c_scopes cp = empty_scope :: c_scopes cs0 -> c_next cp = c_next cs0 ->
  own_check K ib G0 = Some Ro -> ext cp cs1 V T ->
  (forall G1, Ro = Some G1 -> post3 cp G0 cs1 G1) ->
  (forall x p, lookup env0 x = Some p -> In (root p) (vslots cs0)) ->
  exists Xo, own_check K (iseq (ib :: exit_frees false (hd empty_scope (c_scopes cs1)))) G0 = Some Xo /\
    c_scopes (leave_scope cs1 env0) = c_scopes cs0 /\ c_next cs0 <= c_next cs1 /\ c_loop cs1 = c_loop cp /\ c_fun cs1 = c_fun cp /\
    (Ro <> None -> Xo <> None) /\
    (forall G3, Xo = Some G3 -> o_own G3 = o_own G0 /\ (forall s, In s (o_dead G0) -> In s (o_dead G3)) /\ Rel (leave_scope cs1 env0) G3).
Proof.
  intros K cs0 G0 cp ib cs1 Ro V T env0 R Ep En C E HP Henv.
  destruct (ext_head_gen cp _ cs1 V T Ep E) as [h1 [Eh1 Hh1]].
  destruct (ext_loop_fun _ _ _ _ E) as [El Ef]. pose proof (ext_next _ _ _ _ E) as Hnx. rewrite En in Hnx.
  assert (Els : c_scopes (leave_scope cs1 env0) = c_scopes cs0) by (unfold leave_scope; cbn [c_scopes]; rewrite Eh1; reflexivity).
  rewrite oc_iseq_cons, C. destruct Ro as [G1|].
  - destruct (HP G1 eq_refl) as [R1 [F1 D1]]. rewrite Eh1. cbn [hd].
    destruct (scope_exit K cs1 G1 h1 (c_scopes cs0) (leave_scope cs1 env0) R1 Eh1 (r_ne _ _ R) Els eq_refl) as [G3 [C3 [D3 [O3 R3]]]].
    { intros x p Hl. unfold vslots. rewrite Els. apply (Henv x p). exact Hl. }
    exists (Some G3). split; [exact C3|]. split; [exact Els|]. split; [exact Hnx|]. split; [exact El|]. split; [exact Ef|].
    split; [discriminate|]. intros G3' E3. inversion E3; subst G3'. split; [|split; [|exact R3]].
    + apply (own_back cs0 G0 cs1 G1 h1 G3 R R1 Eh1); [| rewrite <- En; exact F1 | exact O3 | apply (r_sorted _ _ R3)].
      intros s Hs. apply Hh1 in Hs. pose proof (ext_fresh _ _ _ _ E s Hs) as Hf. rewrite En in Hf. exact (proj1 Hf).
    + intros s Hs. rewrite D3. apply D1. exact Hs.
  - exists None. split; [reflexivity|]. split; [exact Els|]. split; [exact Hnx|]. split; [exact El|]. split; [exact Ef|].
    split; [congruence|]. intros G3 E3. discriminate E3.
Qed.

Definition sres (cst : cstate) (G : ost) (K : ctx) (code : instr) (cs' : cstate) : Prop :=
  exists Ro V T, own_check K code G = Some Ro /\ ext cst cs' V T /\ (forall G', Ro = Some G' -> post3 cst G cs' G').
Definition sres2 (s : stmt) (cst : cstate) (G : ost) (K : ctx) (code : instr) (cs' : cstate) : Prop :=
  exists Ro V T, own_check K code G = Some Ro /\ ext cst cs' V T /\ (forall G', Ro = Some G' -> post3 cst G cs' G') /\ (thru s = true -> Ro <> None).
Lemma sres2_sres : forall s cst G K code cs', sres2 s cst G K code cs' -> sres cst G K code cs'.
Proof. intros s cst G K code cs' [Ro [V [T [A [B [C _]]]]]]. exists Ro, V, T. auto. Qed.

Lemma post3_stmt_post : forall cst G cs' G' V T, ext cst cs' V T -> post3 cst G cs' G' -> stmt_post cst cs' G G'.
Proof. intros cst G cs' G' V T E [R [F D]]. exists V, T. auto. Qed.

Lemma set_loop_scopes : forall cs l, c_scopes (set_loop cs l) = c_scopes cs /\ c_next (set_loop cs l) = c_next cs /\
  c_env (set_loop cs l) = c_env cs /\ c_fun (set_loop cs l) = c_fun cs /\ c_loop (set_loop cs l) = l.
Proof. intros. repeat split. Qed.

Section Stmt2.
  Variable inl : nat -> list (option place) -> cstate -> option (instr * res * cstate).
  Variable sg : nat -> option (list (var * mode * bool) * bool).

  Lemma while_ok : forall skf c b, fexpr c = true ->
    (forall cst code cs' G K, cstmt inl sg b cst = Some (code, cs') -> Rel cst G -> LK K cst G -> sres cst G K code cs') ->
    forall cst code cs' G K,
    match cstmt inl sg b (set_loop (push_scope cst) (Some (height (push_scope cst), height (push_scope cst)))) with
    | Some (ib, cs1) =>
      match cexpr inl sg c (push_scope (set_loop (leave_scope cs1 (c_env cst)) (c_loop cst))) with
      | Some (ic, _, cs2) =>
        Some (ILoop skf None (iseq (ic :: exit_frees false (hd empty_scope (c_scopes cs2))))
                    (iseq (ib :: exit_frees false (hd empty_scope (c_scopes cs1)))) ISkip ISkip ISkip, pop_scope cs2)
      | None => None
      end
    | None => None
    end = Some (code, cs') ->
    Rel cst G -> LK K cst G -> sres cst G K code cs'.
  Proof.
    intros skf c b Fc IHb cst code cs' G K H R HK.
    set (h := height (push_scope cst)) in *. set (cp := set_loop (push_scope cst) (Some (h, h))) in *.
    destruct (cstmt inl sg b cp) as [[ib cs1]|] eqn:Eb; [|discriminate H].
    set (cq := push_scope (set_loop (leave_scope cs1 (c_env cst)) (c_loop cst))) in *.
    destruct (cexpr inl sg c cq) as [[[ic rc] cs2]|] eqn:Ec; [|discriminate H]. inversion H; subst code cs'. clear H.
    set (K' := mkCtx (Some (ISkip, G)) (Some (ISkip, G)) (k_ret K)).
    assert (Rp : Rel cp G).
    { apply (Rel_same_scopes (push_scope cst) G cp (Rel_push _ _ R)); [reflexivity | apply Nat.le_refl|].
      intros x p Hl. apply (r_env _ _ (Rel_push _ _ R) x p Hl). }
    assert (HKp : LK K' cp G).
    { unfold LK. cbn [cp set_loop c_loop]. exists G, G, (c_next cst), (c_next cst).
      assert (Hup : upper cp h = []).
      { unfold upper. cbn [cp set_loop push_scope with_scopes c_scopes]. rewrite sdt_cons by (unfold h, height, push_scope, with_scopes; cbn [c_scopes length]; lia).
        rewrite sdt_short by (unfold h, height, push_scope, with_scopes; cbn [c_scopes length]; lia). reflexivity. }
      assert (Ht : thr cp h (c_next cst)).
      { constructor; rewrite ?Hup.
        - intros s [].
        - intros s Hs _. apply (r_lt _ _ R). exact Hs.
        - apply Nat.le_refl.
        - apply Nat.le_refl. }
      assert (Hs : snap G G (c_next cst)).
      { split; [apply (r_sorted _ _ R)|]. split; [|auto]. intro s. split; [|tauto]. intro Ho. split; [exact Ho|].
        apply (r_lt _ _ R), (r_own_reg _ _ R), Ho. }
      repeat (split; [first [reflexivity | assumption]|]). assumption. }
    destruct (IHb cp ib cs1 G K' Eb Rp HKp) as [Ro [V [T [Cb [Eb' Pb]]]]].
    destruct (arm_ok K' cst G cp ib cs1 Ro V T (c_env cst) R eq_refl eq_refl Cb Eb' Pb (r_env _ _ R))
      as [Xo [CX [Els [Hnx [El1 [Ef1 [_ HX]]]]]]].
    (* the condition, in its own scope *)
    set (cl := set_loop (leave_scope cs1 (c_env cst)) (c_loop cst)) in *.
    assert (Rl : Rel cl G).
    { apply (Rel_same_scopes cst G cl R); [exact Els | exact Hnx|]. intros x p Hl. apply (r_env _ _ R x p Hl). }
    destruct (cexpr_ok inl sg c Fc cq ic rc cs2 G ctx0 Ec (Rel_push _ _ Rl)) as [G2 [T2 [C2 P2]]].
    pose proof P2 as [R2 [E2 [N2 [V2 [F2 [D2 _]]]]]].
    destruct (ext_head_gen cq (c_scopes cl) cs2 [] T2 eq_refl E2) as [h2 [Eh2 Hh2]].
    assert (Elp : c_scopes (pop_scope cs2) = c_scopes cl) by (unfold pop_scope, with_scopes; cbn [c_scopes]; rewrite Eh2; reflexivity).
    destruct (scope_exit ctx0 cs2 G2 h2 (c_scopes cl) (pop_scope cs2) R2 Eh2 (r_ne _ _ Rl) Elp eq_refl) as [Gt [Ct [Dt [Ot Rt]]]].
    { intros x p Hl. unfold vslots. rewrite Elp. unfold pop_scope, with_scopes in Hl. cbn [c_env] in Hl. rewrite V2 in Hl. apply (r_env _ _ Rl x p Hl). }
    assert (Eot : o_own Gt = o_own G).
    { apply (own_back cl G cs2 G2 h2 Gt Rl R2 Eh2); [| exact F2 | exact Ot | apply (r_sorted _ _ Rt)].
      intros s Hs. apply Hh2 in Hs. destruct Hs as [[]|Hs]. pose proof (ext_fresh _ _ _ _ E2 s (or_intror Hs)) as Hf. exact (proj1 Hf). }
    assert (Ctest : own_check ctx0 (iseq (ic :: exit_frees false (hd empty_scope (c_scopes cs2)))) G = Some (Some Gt)).
    { rewrite oc_iseq_cons, C2, Eh2. exact Ct. }
    assert (Hsub : forall Gx, o_own Gx = o_own G -> (forall s, In s (o_dead G) -> In s (o_dead Gx)) -> sub Gx G = true).
    { intros Gx Eo Dx. unfold sub. rewrite Eo, leq_refl. apply subset_incl. exact Dx. }
    exists (Some G), [], []. split; [|split].
    - rewrite oc_loop. rewrite <- !iseq_cons_eq. rewrite Ctest. rewrite (Hsub Gt Eot) by (intros s Hs; rewrite Dt; apply D2; exact Hs).
      cbn [check_simple]. fold K'. rewrite CX. destruct Xo as [G3|]; [|reflexivity].
      destruct (HX G3 eq_refl) as [Eo3 [D3 _]]. rewrite (Hsub G3 Eo3 D3). reflexivity.
    - destruct (ext_loop_fun _ _ _ _ E2) as [El2 Ef2].
      apply (ext_same_scopes cst cst _ [] [] (ext_refl cst (r_ne _ _ R))).
      + rewrite Elp. exact Els.
      + unfold pop_scope, with_scopes. cbn [c_loop]. rewrite El2. reflexivity.
      + unfold pop_scope, with_scopes. cbn [c_fun]. rewrite Ef2. cbn [cq cl push_scope with_scopes set_loop leave_scope c_fun]. rewrite Ef1. reflexivity.
      + unfold pop_scope, with_scopes. cbn [c_next]. pose proof (ext_next _ _ _ _ E2). cbn [cq cl push_scope with_scopes set_loop leave_scope c_next] in H. lia.
    - intros G' EG. inversion EG; subst G'. split; [|split; [intros; tauto | auto]].
      apply (Rel_same_scopes cst G (pop_scope cs2) R); [rewrite Elp; exact Els | |].
      + unfold pop_scope, with_scopes. cbn [c_next]. pose proof (ext_next _ _ _ _ E2). cbn [cq cl push_scope with_scopes set_loop leave_scope c_next] in H. lia.
      + intros x p Hl. unfold pop_scope, with_scopes in Hl. cbn [c_env] in Hl. rewrite V2 in Hl. apply (r_env _ _ R x p Hl).
  Qed.
  Ltac atom_case F H R K :=
    destruct (catom_ok inl sg _ F _ _ _ _ K H R) as [G1 [C1 [V [T [R1 [E1 [F1 D1]]]]]]];
    exists (Some G1), V, T; split; [exact C1|]; split; [exact E1|]; split; [|discriminate];
    intros G' EG; inversion EG; subst G'; split; [exact R1 | split; assumption].

  Lemma cstmt_ok : forall s, fstmt s = true -> forall cst code cs' G K,
    cstmt inl sg s cst = Some (code, cs') -> Rel cst G -> LK K cst G -> sres2 s cst G K code cs'.
  Proof.
    induction s; intros F cst code cs' G K H R HK; cbn [fstmt] in F; try discriminate F.
    - (* SSkip *) atom_case F H R K.
    - (* SSeq *) apply andb_true_iff in F. destruct F as [F Ft]. apply andb_true_iff in F. destruct F as [Fa Fb]. cbn [cstmt] in H.
      destruct (cstmt inl sg s1 cst) as [[ia cs1]|] eqn:Ea; [|discriminate H].
      destruct (cstmt inl sg s2 cs1) as [[ib cs2]|] eqn:Eb; [|discriminate H]. inversion H; subst. clear H.
      destruct (IHs1 Fa _ _ _ G K Ea R HK) as [Ro1 [V1 [T1 [C1 [E1 [P1 N1]]]]]].
      destruct Ro1 as [G1|]; [|exfalso; exact (N1 Ft eq_refl)].
      destruct (P1 G1 eq_refl) as [R1 [F1 D1]].
      assert (HK1 : LK K cs1 G1) by (apply (LK_step K cst cs1 G G1 HK); exists V1, T1; auto).
      destruct (IHs2 Fb _ _ _ G1 K Eb R1 HK1) as [Ro2 [V2 [T2 [C2 [E2 [P2 N2]]]]]].
      exists Ro2, (V1 ++ V2), (T1 ++ T2). split; [rewrite oc_seq, C1; exact C2|]. split; [eapply ext_trans; eassumption|]. split.
      + intros G2 EG. destruct (P2 G2 EG) as [R2 [F2 D2]]. split; [exact R2|]. split; [|auto].
        intros y Hy. rewrite <- (F1 y Hy). apply F2. pose proof (ext_next _ _ _ _ E1). lia.
      + cbn [thru]. intro Ht. apply andb_true_iff in Ht. apply N2. tauto.
    - (* SDecl *) atom_case F H R K.
    - (* SAssign *) atom_case F H R K.
    - (* SAssignPart *) atom_case F H R K.
    - (* SExpr *) atom_case F H R K.
    - (* SBlock *) cbn [cstmt] in H.
      destruct (cstmt inl sg s (push_scope cst)) as [[ib cs1]|] eqn:Eb; [|discriminate H]. inversion H; subst. clear H.
      destruct (IHs F _ _ _ G K Eb (Rel_push _ _ R) (LK_push _ _ _ HK)) as [Ro [V [T [C1 [E1 [P1 N1]]]]]].
      destruct (arm_ok K cst G (push_scope cst) ib cs1 Ro V T (c_env cst) R eq_refl eq_refl C1 E1 P1 (r_env _ _ R))
        as [Xo [CX [Els [Hnx [El1 [Ef1 [NX HX]]]]]]].
      exists Xo, [], []. split; [rewrite <- iseq_cons_eq; exact CX|]. split; [|split].
      + apply (ext_same_scopes cst cst _ [] [] (ext_refl cst (r_ne _ _ R))); [exact Els | exact El1 | exact Ef1 | exact Hnx].
      + intros G3 EG. destruct (HX G3 EG) as [Eo [D3 R3]]. split; [exact R3|]. split; [intros y _; rewrite Eo; tauto | exact D3].
      + cbn [thru]. intro Ht. apply NX, N1, Ht.
    - (* SIf *) apply andb_true_iff in F. destruct F as [F Fb]. apply andb_true_iff in F. destruct F as [Fc Fa]. cbn [cstmt] in H.
      destruct (cexpr inl sg c cst) as [[[ic rc] cs0]|] eqn:Ec; [|discriminate H].
      destruct (cstmt inl sg s1 (push_scope cs0)) as [[ia cs1]|] eqn:Ea; [|discriminate H].
      destruct (cstmt inl sg s2 (push_scope (leave_scope cs1 (c_env cs0)))) as [[ib cs2]|] eqn:Eb; [|discriminate H].
      inversion H; subst. clear H.
      destruct (cexpr_ok inl sg c Fc _ _ _ _ G K Ec R) as [G0 [T0 [C0 P0]]].
      pose proof P0 as [R0 [E0 [N0 [V0 [F0 [D0 _]]]]]].
      assert (HK0 : LK K cs0 G0) by (apply (LK_step K cst cs0 G G0 HK); eapply expr_to_stmt_post; exact P0).
      destruct (IHs1 Fa _ _ _ G0 K Ea (Rel_push _ _ R0) (LK_push _ _ _ HK0)) as [Roa [Va [Ta [Ca [Ea' [Pa Na]]]]]].
      destruct (arm_ok K cs0 G0 (push_scope cs0) ia cs1 Roa Va Ta (c_env cs0) R0 eq_refl eq_refl Ca Ea' Pa (r_env _ _ R0))
        as [Xa [CXa [Elsa [Hnxa [Ela [Efa [NXa HXa]]]]]]].
      set (csm := leave_scope cs1 (c_env cs0)) in *.
      assert (Rm : Rel csm G0).
      { apply (Rel_same_scopes cs0 G0 csm R0 Elsa Hnxa). intros y q Hl. apply (r_env _ _ R0 y q Hl). }
      assert (HKm : LK K csm G0) by (apply (LK_same K cs0 csm G0 G0 HK0 Elsa Ela Hnxa eq_refl); auto).
      destruct (IHs2 Fb _ _ _ G0 K Eb (Rel_push _ _ Rm) (LK_push _ _ _ HKm)) as [Rob [Vb [Tb [Cb [Eb' [Pb Nb]]]]]].
      destruct (arm_ok K csm G0 (push_scope csm) ib cs2 Rob Vb Tb (c_env cs0) Rm eq_refl eq_refl Cb Eb' Pb)
        as [Xb [CXb [Elsb [Hnxb [Elb [Efb [NXb HXb]]]]]]].
      { intros y q Hl. unfold vslots. rewrite Elsa. apply (r_env _ _ R0 y q Hl). }
      set (csF := leave_scope cs2 (c_env cs0)) in *.
      assert (EF : ext cst csF [] T0).
      { apply (ext_same_scopes cst cs0 _ [] T0 E0); [rewrite Elsb; exact Elsa | | | ].
        - change (c_loop csF) with (c_loop cs2). rewrite Elb. change (c_loop (push_scope csm)) with (c_loop cs1). exact Ela.
        - change (c_fun csF) with (c_fun cs2). rewrite Efb. change (c_fun (push_scope csm)) with (c_fun cs1). exact Efa.
        - change (c_next csF) with (c_next cs2). change (c_next csm) with (c_next cs1) in Hnxb. lia. }
      assert (HrelF : forall Gx, Rel csm Gx -> Rel csF Gx).
      { intros Gx Rx. apply (Rel_same_scopes csm Gx csF Rx Elsb Hnxb). intros y q Hl. unfold vslots. rewrite Elsa. apply (r_env _ _ R0 y q Hl). }
      assert (Hfin : forall Gx, o_own Gx = o_own G0 -> (forall y, In y (o_dead G0) -> In y (o_dead Gx)) -> Rel csF Gx -> post3 cst G csF Gx).
      { intros Gx Eo Dx Rx. split; [exact Rx|]. split; [intros y Hy; rewrite Eo; apply F0; exact Hy | intros y Hy; apply Dx, D0, Hy]. }
      assert (Hjoin : exists Rj, join Xa Xb = Some Rj /\ (forall Gj, Rj = Some Gj -> post3 cst G csF Gj) /\ ((Xa <> None \/ Xb <> None) -> Rj <> None)).
      { destruct Xa as [Ga|]; destruct Xb as [Gb|]; cbn [join].
        - destruct (HXa Ga eq_refl) as [Eoa [Da Ra]]. destruct (HXb Gb eq_refl) as [Eob [Db Rb]].
          rewrite Eoa, Eob, leq_refl. eexists. split; [reflexivity|]. split; [|discriminate].
          intros Gj EG. inversion EG; subst Gj. apply Hfin; cbn [o_own o_dead].
          + reflexivity.
          + intros y Hy. apply inter_In. split; [apply Da | apply Db]; exact Hy.
          + assert (Rb' : Rel csF (mkO (o_own G0) (o_dead Gb))) by (destruct Rb; constructor; cbn [o_own o_dead]; rewrite <- ?Eob; assumption).
            apply (Rel_dead_weaken _ _ (inter (o_dead Ga) (o_dead Gb)) Rb'); cbn [o_own o_dead].
            * intros y Hy. apply inter_In in Hy. tauto.
            * intros y Hy. assert (Hr0 : In y (reg cs0)) by (unfold reg in *; rewrite <- Elsa, <- Elsb; exact Hy).
              destruct (r_reg _ _ R0 y Hr0) as [Ho|Ho]; [left; exact Ho | right; apply inter_In; split; [apply Da | apply Db]; exact Ho].
        - destruct (HXa Ga eq_refl) as [Eoa [Da Ra]]. eexists. split; [reflexivity|]. split; [|discriminate].
          intros Gj EG. inversion EG; subst Gj. apply Hfin; [exact Eoa | exact Da | apply HrelF; exact Ra].
        - destruct (HXb Gb eq_refl) as [Eob [Db Rb]]. eexists. split; [reflexivity|]. split; [|discriminate].
          intros Gj EG. inversion EG; subst Gj. apply Hfin; [exact Eob | exact Db | exact Rb].
        - eexists. split; [reflexivity|]. split; [intros Gj EG; discriminate EG | intros [Hx|Hx]; congruence]. }
      destruct Hjoin as [Rj [Ej [Pj Nj]]].
      exists Rj, [], T0. split; [rewrite oc_seq, C0, oc_if; rewrite <- !iseq_cons_eq; rewrite CXa, CXb; exact Ej|]. split; [exact EF|]. split; [exact Pj|].
      cbn [thru]. intro Ht. apply Nj. apply orb_true_iff in Ht. destruct Ht as [Ht|Ht]; [left; apply NXa, Na, Ht | right; apply NXb, Nb, Ht].
    - (* SWhile *) apply andb_true_iff in F. destruct F as [Fc Fb]. cbn [cstmt] in H.
      destruct (while_ok false c s Fc (fun cst0 code0 cs0 G0 K0 H0 R0 HK0 => sres2_sres _ _ _ _ _ _ (IHs Fb cst0 code0 cs0 G0 K0 H0 R0 HK0)) cst code cs' G K H R HK)
        as [Ro [V [T [C1 [E1 P1]]]]].
      exists Ro, V, T. split; [exact C1|]. split; [exact E1|]. split; [exact P1|].
      intros _ En. subst Ro. clear - C1 H. 
      (* the loop check never answers "no fallthrough" *)
      destruct (cstmt inl sg s _) as [[ib cs1]|]; [|discriminate H]. destruct (cexpr inl sg c _) as [[[ic rc] cs2]|]; [|discriminate H].
      inversion H; subst code. rewrite oc_loop in C1.
      destruct (own_check ctx0 _ G) as [[Gtt|]|]; try discriminate C1. destruct (sub Gtt G); [|discriminate C1].
      cbn [check_simple] in C1. destruct (own_check _ _ G) as [[Gb|]|]; try discriminate C1. destruct (sub Gb G); discriminate C1.
    - (* SDoWhile *) apply andb_true_iff in F. destruct F as [Fc Fb]. cbn [cstmt] in H.
      destruct (while_ok true c s Fc (fun cst0 code0 cs0 G0 K0 H0 R0 HK0 => sres2_sres _ _ _ _ _ _ (IHs Fb cst0 code0 cs0 G0 K0 H0 R0 HK0)) cst code cs' G K H R HK)
        as [Ro [V [T [C1 [E1 P1]]]]].
      exists Ro, V, T. split; [exact C1|]. split; [exact E1|]. split; [exact P1|].
      intros _ En. subst Ro. clear - C1 H.
      destruct (cstmt inl sg s _) as [[ib cs1]|]; [|discriminate H]. destruct (cexpr inl sg c _) as [[[ic rc] cs2]|]; [|discriminate H].
      inversion H; subst code. rewrite oc_loop in C1.
      destruct (own_check ctx0 _ G) as [[Gtt|]|]; try discriminate C1. destruct (sub Gtt G); [|discriminate C1].
      cbn [check_simple] in C1. destruct (own_check _ _ G) as [[Gb|]|]; try discriminate C1. destruct (sub Gb G); discriminate C1.
    - (* SBreak *) cbn [cstmt] in H. unfold loop_exit_frees in H. unfold LK in HK.
      destruct (c_loop cst) as [[hb hc]|] eqn:El; [|discriminate H]. inversion H; subst. clear H.
      destruct HK as [Gout [Ghead [nb [nc [K1 [K2 [T1 [T2 [S1 S2]]]]]]]]].
      destruct (exit_check K cs' G hb nb Gout R T1 S1) as [G1 [C1 Sb]].
      exists None, [], []. split; [|split; [apply ext_refl, (r_ne _ _ R)|split; [intros G' EG; discriminate EG | cbn [thru]; discriminate]]].
      rewrite (oc_iseq_app K _ [IBreak] G G1 C1). cbn [iseq own_check]. rewrite K1. cbn [check_simple]. rewrite Sb. reflexivity.
    - (* SContinue *) cbn [cstmt] in H. unfold loop_exit_frees in H. unfold LK in HK.
      destruct (c_loop cst) as [[hb hc]|] eqn:El; [|discriminate H]. inversion H; subst. clear H.
      destruct HK as [Gout [Ghead [nb [nc [K1 [K2 [T1 [T2 [S1 S2]]]]]]]]].
      destruct (exit_check K cs' G hc nc Ghead R T2 S2) as [G1 [C1 Sb]].
      exists None, [], []. split; [|split; [apply ext_refl, (r_ne _ _ R)|split; [intros G' EG; discriminate EG | cbn [thru]; discriminate]]].
      rewrite (oc_iseq_app K _ [IContinue] G G1 C1). cbn [iseq own_check]. rewrite K2. cbn [check_simple]. rewrite Sb. reflexivity.
  Qed.
End Stmt2.

(* ------------------------------------------------------------------ whole programs of the fragment *)
Lemma Rel_init : Rel init_cstate (mkO [] []).
Proof.
  constructor; cbn.
  - discriminate.
  - intros sc0 [Hsc|[]]. subst sc0. split; intros ? [].
  - constructor.
  - intros ? [].
  - exact Logic.I.
  - intros ? [].
  - intros ? [].
  - intros ? [].
  - intros x p H. discriminate H.
  - intros ? [].
  - intros ? [].
Qed.

Definition fprogram (P : program) : bool := fstmt (p_main P) && thru (p_main P).

Theorem compile_ok : forall P, fprogram P = true -> compile P <> None -> program_ok P = true.
Proof.
  intros P F Hc. unfold program_ok. unfold compile in *.
  destruct (cstmt (inline_d P (S (length (p_funs P)))) (sig_of P) (p_main P) init_cstate) as [[im cs]|] eqn:Em; [|congruence].
  unfold fprogram in F. apply andb_true_iff in F. destruct F as [F Ft].
  destruct (cstmt_ok _ _ (p_main P) F _ _ _ (mkO [] []) ctx0 Em Rel_init Logic.I) as [Ro [V [T [C1 [E1 [P1 N1]]]]]].
  destruct Ro as [G1|]; [|exfalso; exact (N1 Ft eq_refl)]. destruct (P1 G1 eq_refl) as [R1 _].
  destruct E1 as [h [t [X1 [X2 _]]]]. cbn in X1. inversion X1; subst h t. rewrite X2. cbn [hd].
  set (h := {| sc_vars := sc_vars empty_scope ++ map (fun s => mkVar s false) V; sc_temps := sc_temps empty_scope ++ map (fun s => mkTmp s false) T |}) in *.
  assert (Hreg : reg cs = scope_slots h) by (unfold reg; rewrite X2; cbn [flat_map]; apply app_nil_r).
  assert (Hnp : noprot_sc h) by (apply (r_np _ _ R1); rewrite X2; left; reflexivity).
  rewrite (exit_frees_noprot h Hnp).
  pose proof (r_nd _ _ R1) as N. rewrite Hreg in N.
  destruct (check_frees ctx0 (scope_slots h) G1 N) as [G2 [C2 [_ [O2 _]]]].
  { intros s Hs. apply (r_reg _ _ R1). rewrite Hreg. exact Hs. }
  rewrite oc_iseq_cons, C1, C2.
  destruct (o_own G2) as [|y l] eqn:Eo; [reflexivity|]. exfalso.
  assert (Hy : In y (y :: l)) by (left; reflexivity).
  apply O2 in Hy. destruct Hy as [Hy Hn]. apply Hn. rewrite <- Hreg. apply (r_own_reg _ _ R1). exact Hy.
Qed.

(* FULL for the fragment: every normally terminating run of a fragment program has a balanced ledger *)
Theorem program_balanced_fragment : forall P fuel oracle L,
  fprogram P = true -> run_program fuel oracle P = Some L -> balanced L.
Proof.
  intros P fuel oracle L F Hr. apply (program_ok_balanced P fuel oracle L); [|exact Hr].
  apply compile_ok; [exact F|]. unfold run_program in Hr. destruct (compile P); [discriminate | discriminate Hr].
Qed.
