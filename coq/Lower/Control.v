(* Block-level models of the control-flow lowering of src/compiler/compiler.go and their refinement of RefSem's
   rules (DESIGN stage 3), over ABSTRACT sub-evaluators: the evaluation of an operand, a condition or a loop body
   is a parameter that may yield a value, stop the program (Laufzeitfehler) or diverge.

     1. short circuit   VisitBinaryExpr BIN_AND / BIN_OR (condbr + phi), VisitTernaryExpr TER_FALLS
     2. Solange / Mache ... Solange / Wiederhole n Mal     VisitWhileStmt (Byte count widened, f5edfd1)
     3. for-each over a list or a Text                      VisitForRangeStmt (cursor advanced by the element width)
     4. counting loop with a Kommazahl counter              VisitForStmt (bound/step cast to the index type, 37dd3f7)

   Every theorem has the form: the specification (RefSem's rule over the same parameters) yields outcome r
   ==> the lowered blocks reach exactly the exit that corresponds to r, with the same state.  Loops are proved
   by induction on the iteration count (the fuel of the rule).  The *_rule lemmas at the end show by
   reflexivity that RefSem's evaluator is these specifications with eval/exec_block as the parameters. *)
From Coq Require Import ZArith Znumtheory Zdiv Bool List Lia.
Import ListNotations.
From DDP Require Import Lang.Syntax Lang.F64 Lang.RefSem Lower.Ops Lower.OpsProofs Lower.ForLoop.
Open Scope Z_scope.

(* outcome of a sub-evaluation *)
Inductive ores (St A : Type) : Type :=
| OVal (a : A) (s : St)      (* a value, new state *)
| OErr (s : St)              (* Laufzeitfehler: the program stops *)
| ODiv.                      (* the sub-evaluation does not terminate *)
Arguments OVal {St A}. Arguments OErr {St A}. Arguments ODiv {St A}.

(* how a loop body / statement block ends *)
Inductive bsig : Type := BNext | BCont | BBreak | BRet.

(* how a lowered construct ends *)
Inductive xres (St : Type) : Type := XLeave (s : St) | XRet (s : St) | XErr (s : St) | XDiv.
Arguments XLeave {St}. Arguments XRet {St}. Arguments XErr {St}. Arguments XDiv {St}.

(* ================================================================================================ *)
(* 1. und / oder / falls                                                                            *)
(* ================================================================================================ *)
Section ShortCircuit.
Variable St : Type.
Variable ev_l ev_r : St -> ores St bool.
Variable is_and : bool.       (* true: `und` (condbr lhs, rhsBlock, leave); false: `oder` (condbr lhs, leave, rhsBlock) *)

(* RefSem's rule: result, and how often the right operand was evaluated *)
Definition sc_spec (s : St) : ores St bool * nat :=
  match ev_l s with
  | OVal l s1 => if Bool.eqb l is_and then (ev_r s1, 1%nat) else (OVal l s1, 0%nat)
  | OErr s1 => (OErr s1, 0%nat)
  | ODiv => (ODiv, 0%nat)
  end.

Inductive scpc : Type := ScStart | ScRhs | ScLeave (from_rhs : bool) | ScDone | ScErr | ScDiv.
Record sccfg : Type := { sc_pc : scpc; sc_lhs : bool; sc_rhs : bool; sc_phi : bool; sc_st : St; sc_n : nat }.

Definition sc_step (c : sccfg) : sccfg :=
  match sc_pc c with
  | ScStart =>
      match ev_l (sc_st c) with
      | OVal l s1 =>
          {| sc_pc := if Bool.eqb l is_and then ScRhs else ScLeave false;
             sc_lhs := l; sc_rhs := sc_rhs c; sc_phi := sc_phi c; sc_st := s1; sc_n := sc_n c |}
      | OErr s1 => {| sc_pc := ScErr; sc_lhs := sc_lhs c; sc_rhs := sc_rhs c; sc_phi := sc_phi c; sc_st := s1; sc_n := sc_n c |}
      | ODiv => {| sc_pc := ScDiv; sc_lhs := sc_lhs c; sc_rhs := sc_rhs c; sc_phi := sc_phi c; sc_st := sc_st c; sc_n := sc_n c |}
      end
  | ScRhs =>
      match ev_r (sc_st c) with
      | OVal r s1 => {| sc_pc := ScLeave true; sc_lhs := sc_lhs c; sc_rhs := r; sc_phi := sc_phi c; sc_st := s1; sc_n := S (sc_n c) |}
      | OErr s1 => {| sc_pc := ScErr; sc_lhs := sc_lhs c; sc_rhs := sc_rhs c; sc_phi := sc_phi c; sc_st := s1; sc_n := S (sc_n c) |}
      | ODiv => {| sc_pc := ScDiv; sc_lhs := sc_lhs c; sc_rhs := sc_rhs c; sc_phi := sc_phi c; sc_st := sc_st c; sc_n := S (sc_n c) |}
      end
  | ScLeave from_rhs =>   (* phi [rhs, rhsBlock], [lhs, startBlock] *)
      {| sc_pc := ScDone; sc_lhs := sc_lhs c; sc_rhs := sc_rhs c; sc_phi := if from_rhs then sc_rhs c else sc_lhs c;
         sc_st := sc_st c; sc_n := sc_n c |}
  | _ => c
  end.

Definition sc_obs (c : sccfg) : option (ores St bool * nat) :=
  match sc_pc c with
  | ScDone => Some (OVal (sc_phi c) (sc_st c), sc_n c)
  | ScErr => Some (OErr (sc_st c), sc_n c)
  | ScDiv => Some (ODiv, sc_n c)
  | _ => None
  end.

Definition sc_init (s : St) : sccfg :=
  {| sc_pc := ScStart; sc_lhs := false; sc_rhs := false; sc_phi := false; sc_st := s; sc_n := 0 |}.

Theorem shortcircuit_lowering_correct : forall s,
  sc_obs (sc_step (sc_step (sc_step (sc_init s)))) = Some (sc_spec s).
Proof.
  intros s. unfold sc_spec, sc_init.
  unfold sc_step at 3. cbn [sc_pc sc_st].
  destruct (ev_l s) as [l s1| s1|]; [|reflexivity|reflexivity].
  destruct (Bool.eqb l is_and) eqn:E.
  - unfold sc_step at 2. cbn [sc_pc sc_st].
    destruct (ev_r s1) as [r s2| s2|]; reflexivity.
  - reflexivity.
Qed.
End ShortCircuit.

Section Falls.
Variable St V : Type.
Variable ev_c : St -> ores St bool.
Variable ev_a ev_b : St -> ores St V.

(* RefSem: the condition first, then only the chosen side; (result, evaluations of a, evaluations of b) *)
Definition falls_spec (s : St) : ores St V * nat * nat :=
  match ev_c s with
  | OVal true s1 => (ev_a s1, 1%nat, 0%nat)
  | OVal false s1 => (ev_b s1, 0%nat, 1%nat)
  | OErr s1 => (OErr s1, 0%nat, 0%nat)
  | ODiv => (ODiv, 0%nat, 0%nat)
  end.

Inductive fpc : Type := FaStart | FaTrue | FaFalse | FaLeave (from_true : bool) | FaDone | FaErr | FaDiv.
Record facfg : Type := { fa_pc : fpc; fa_l : option V; fa_r : option V; fa_phi : option V; fa_st : St; fa_na : nat; fa_nb : nat }.

Definition fa_step (c : facfg) : facfg :=
  match fa_pc c with
  | FaStart =>
      match ev_c (fa_st c) with
      | OVal m s1 => {| fa_pc := if m then FaTrue else FaFalse; fa_l := fa_l c; fa_r := fa_r c; fa_phi := fa_phi c; fa_st := s1; fa_na := fa_na c; fa_nb := fa_nb c |}
      | OErr s1 => {| fa_pc := FaErr; fa_l := fa_l c; fa_r := fa_r c; fa_phi := fa_phi c; fa_st := s1; fa_na := fa_na c; fa_nb := fa_nb c |}
      | ODiv => {| fa_pc := FaDiv; fa_l := fa_l c; fa_r := fa_r c; fa_phi := fa_phi c; fa_st := fa_st c; fa_na := fa_na c; fa_nb := fa_nb c |}
      end
  | FaTrue =>
      match ev_a (fa_st c) with
      | OVal v s1 => {| fa_pc := FaLeave true; fa_l := Some v; fa_r := fa_r c; fa_phi := fa_phi c; fa_st := s1; fa_na := S (fa_na c); fa_nb := fa_nb c |}
      | OErr s1 => {| fa_pc := FaErr; fa_l := fa_l c; fa_r := fa_r c; fa_phi := fa_phi c; fa_st := s1; fa_na := S (fa_na c); fa_nb := fa_nb c |}
      | ODiv => {| fa_pc := FaDiv; fa_l := fa_l c; fa_r := fa_r c; fa_phi := fa_phi c; fa_st := fa_st c; fa_na := S (fa_na c); fa_nb := fa_nb c |}
      end
  | FaFalse =>
      match ev_b (fa_st c) with
      | OVal v s1 => {| fa_pc := FaLeave false; fa_l := fa_l c; fa_r := Some v; fa_phi := fa_phi c; fa_st := s1; fa_na := fa_na c; fa_nb := S (fa_nb c) |}
      | OErr s1 => {| fa_pc := FaErr; fa_l := fa_l c; fa_r := fa_r c; fa_phi := fa_phi c; fa_st := s1; fa_na := fa_na c; fa_nb := S (fa_nb c) |}
      | ODiv => {| fa_pc := FaDiv; fa_l := fa_l c; fa_r := fa_r c; fa_phi := fa_phi c; fa_st := fa_st c; fa_na := fa_na c; fa_nb := S (fa_nb c) |}
      end
  | FaLeave from_true =>   (* phi [lhs, trueBlock], [rhs, falseBlock] *)
      {| fa_pc := FaDone; fa_l := fa_l c; fa_r := fa_r c; fa_phi := if from_true then fa_l c else fa_r c;
         fa_st := fa_st c; fa_na := fa_na c; fa_nb := fa_nb c |}
  | _ => c
  end.

Definition fa_obs (c : facfg) : option (ores St V * nat * nat) :=
  match fa_pc c, fa_phi c with
  | FaDone, Some v => Some (OVal v (fa_st c), fa_na c, fa_nb c)
  | FaErr, _ => Some (OErr (fa_st c), fa_na c, fa_nb c)
  | FaDiv, _ => Some (ODiv, fa_na c, fa_nb c)
  | _, _ => None
  end.

Definition fa_init (s : St) : facfg :=
  {| fa_pc := FaStart; fa_l := None; fa_r := None; fa_phi := None; fa_st := s; fa_na := 0; fa_nb := 0 |}.

Theorem falls_lowering_correct : forall s,
  fa_obs (fa_step (fa_step (fa_step (fa_init s)))) = Some (falls_spec s).
Proof.
  intros s. unfold falls_spec, fa_init.
  unfold fa_step at 3. cbn [fa_pc fa_st].
  destruct (ev_c s) as [m s1| s1|]; [|reflexivity|reflexivity].
  destruct m; unfold fa_step at 2; cbn [fa_pc fa_st].
  - destruct (ev_a s1) as [v s2| s2|]; reflexivity.
  - destruct (ev_b s1) as [v s2| s2|]; reflexivity.
Qed.
End Falls.

(* ================================================================================================ *)
(* 2. Solange, Mache ... Solange, Wiederhole n Mal                                                  *)
(* ================================================================================================ *)
Section WhileLoops.
Variable St : Type.
Variable ev_c : St -> ores St bool.
Variable body : St -> ores St bsig.

(* what the body's end means for the loop *)
Definition after_body (r : ores St bsig) (continue_with : St -> option (xres St)) : option (xres St) :=
  match r with
  | OVal BBreak s2 => Some (XLeave s2)
  | OVal BRet s2 => Some (XRet s2)
  | OVal _ s2 => continue_with s2          (* falls through or `Fahre mit der Schleife fort`: next test *)
  | OErr s2 => Some (XErr s2)
  | ODiv => Some XDiv
  end.

(* RefSem.loop_while over these parameters; None = more than n iterations *)
Fixpoint while_spec (n : nat) (s : St) : option (xres St) :=
  match n with
  | O => None
  | S n =>
    match ev_c s with
    | OVal false s1 => Some (XLeave s1)
    | OVal true s1 => after_body (body s1) (while_spec n)
    | OErr s1 => Some (XErr s1)
    | ODiv => Some XDiv
    end
  end.

(* Mache: ... Solange c.   (RefSem: SDoWhile = body, then loop_while) *)
Definition dowhile_spec (n : nat) (s : St) : option (xres St) := after_body (body s) (while_spec n).

(* blocks: condBlock (evaluate, condbr body leaveBlock), body (falls through / continue -> condBlock,
   break -> breakLeave), leaveBlock/breakLeave -> trueLeave *)
Inductive wpc : Type := WCond | WBody | WLeave | WRet | WErr | WDiv.

Definition w_step (c : wpc * St) : wpc * St :=
  let '(p, s) := c in
  match p with
  | WCond => match ev_c s with
             | OVal true s1 => (WBody, s1)
             | OVal false s1 => (WLeave, s1)
             | OErr s1 => (WErr, s1)
             | ODiv => (WDiv, s)
             end
  | WBody => match body s with
             | OVal BBreak s1 => (WLeave, s1)
             | OVal BRet s1 => (WRet, s1)
             | OVal _ s1 => (WCond, s1)
             | OErr s1 => (WErr, s1)
             | ODiv => (WDiv, s)
             end
  | _ => c
  end.

Fixpoint w_steps (k : nat) (c : wpc * St) : wpc * St :=
  match k with O => c | S k => w_steps k (w_step c) end.

Definition w_final (r : xres St) (c : wpc * St) : Prop :=
  match r with
  | XLeave s => c = (WLeave, s)
  | XRet s => c = (WRet, s)
  | XErr s => c = (WErr, s)
  | XDiv => fst c = WDiv
  end.

Lemma w_steps_add : forall a b c, w_steps (a + b) c = w_steps b (w_steps a c).
Proof. induction a; intros; cbn [w_steps Nat.add]; auto. Qed.

Theorem while_lowering_correct : forall n s r,
  while_spec n s = Some r -> exists k, w_final r (w_steps k (WCond, s)).
Proof.
  induction n as [|n IH]; intros s r H; [discriminate H|].
  cbn [while_spec] in H.
  destruct (ev_c s) as [b s1| s1|] eqn:EC.
  - destruct b.
    + unfold after_body in H. destruct (body s1) as [sg s2| s2|] eqn:EB.
      * destruct sg.
        -- destruct (IH _ _ H) as [k Hk]. exists (2 + k)%nat. rewrite w_steps_add.
           cbn [w_steps w_step]. rewrite EC. cbn [w_step]. rewrite EB. exact Hk.
        -- destruct (IH _ _ H) as [k Hk]. exists (2 + k)%nat. rewrite w_steps_add.
           cbn [w_steps w_step]. rewrite EC. cbn [w_step]. rewrite EB. exact Hk.
        -- inversion H; subst. exists 2%nat. cbn [w_steps w_step]. rewrite EC. cbn [w_step]. rewrite EB. reflexivity.
        -- inversion H; subst. exists 2%nat. cbn [w_steps w_step]. rewrite EC. cbn [w_step]. rewrite EB. reflexivity.
      * inversion H; subst. exists 2%nat. cbn [w_steps w_step]. rewrite EC. cbn [w_step]. rewrite EB. reflexivity.
      * inversion H; subst. exists 2%nat. cbn [w_steps w_step]. rewrite EC. cbn [w_step]. rewrite EB. reflexivity.
    + inversion H; subst. exists 1%nat. cbn [w_steps w_step]. rewrite EC. reflexivity.
  - inversion H; subst. exists 1%nat. cbn [w_steps w_step]. rewrite EC. reflexivity.
  - inversion H; subst. exists 1%nat. cbn [w_steps w_step]. rewrite EC. reflexivity.
Qed.

(* Mache ... Solange: the entry branches to the body block instead of the condition block *)
Theorem dowhile_lowering_correct : forall n s r,
  dowhile_spec n s = Some r -> exists k, w_final r (w_steps k (WBody, s)).
Proof.
  intros n s r H. unfold dowhile_spec, after_body in H.
  destruct (body s) as [sg s2| s2|] eqn:EB.
  - destruct sg.
    + destruct (while_lowering_correct _ _ _ H) as [k Hk]. exists (1 + k)%nat. rewrite w_steps_add.
      cbn [w_steps w_step]. rewrite EB. exact Hk.
    + destruct (while_lowering_correct _ _ _ H) as [k Hk]. exists (1 + k)%nat. rewrite w_steps_add.
      cbn [w_steps w_step]. rewrite EB. exact Hk.
    + inversion H; subst. exists 1%nat. cbn [w_steps w_step]. rewrite EB. reflexivity.
    + inversion H; subst. exists 1%nat. cbn [w_steps w_step]. rewrite EB. reflexivity.
  - inversion H; subst. exists 1%nat. cbn [w_steps w_step]. rewrite EB. reflexivity.
  - inversion H; subst. exists 1%nat. cbn [w_steps w_step]. rewrite EB. reflexivity.
Qed.

(* ---- Wiederhole n Mal: i64 counter, decremented at the head of the body, tested `icmp ne counter, 0` ---- *)
(* RefSem.loop_repeat *)
Fixpoint repeat_spec (n : nat) (k : Z) (s : St) : option (xres St) :=
  match n with
  | O => None
  | S n => if k <=? 0 then Some (XLeave s) else after_body (body s) (repeat_spec n (k - 1))
  end.

Inductive rpc : Type := RpCond | RpBody | RpLeave | RpRet | RpErr | RpDiv.

Definition r_step (c : rpc * Z * St) : rpc * Z * St :=
  let '(p, m, s) := c in
  match p with
  | RpCond => if negb (m =? 0) then (RpBody, m, s) else (RpLeave, m, s)
  | RpBody =>
      let m' := sub64 m 1 in
      match body s with
      | OVal BBreak s1 => (RpLeave, m', s1)
      | OVal BRet s1 => (RpRet, m', s1)
      | OVal _ s1 => (RpCond, m', s1)
      | OErr s1 => (RpErr, m', s1)
      | ODiv => (RpDiv, m', s)
      end
  | _ => c
  end.

Fixpoint r_steps (k : nat) (c : rpc * Z * St) : rpc * Z * St :=
  match k with O => c | S k => r_steps k (r_step c) end.

Definition r_final (r : xres St) (c : rpc * Z * St) : Prop :=
  match r with
  | XLeave s => fst (fst c) = RpLeave /\ snd c = s
  | XRet s => fst (fst c) = RpRet /\ snd c = s
  | XErr s => fst (fst c) = RpErr /\ snd c = s
  | XDiv => fst (fst c) = RpDiv
  end.

Lemma r_steps_add : forall a b c, r_steps (a + b) c = r_steps b (r_steps a c).
Proof. induction a; intros; cbn [r_steps Nat.add]; auto. Qed.

(* the count as the code stores it: floatOrByteAsInt of the evaluated count (a Byte is zero-extended) *)
Definition repeat_counter (v : value) : option Z :=
  match as_int (repr v) with LOk (MI64 u) => Some u | _ => None end.

Lemma repeat_counter_ok : forall v k, wf v -> to_i v = Some k -> repeat_counter v = Some (k mod 2^64).
Proof.
  intros v k W H. destruct v; cbn in H; inversion H; subst; cbn in W; unfold repeat_counter; cbn.
  - reflexivity.
  - unfold zext8_64. now rewrite small_byte_mod.
Qed.

Theorem repeat_lowering_correct : forall n k s r,
  0 <= k <= max64 ->
  repeat_spec n k s = Some r -> exists j, r_final r (r_steps j (RpCond, k mod 2^64, s)).
Proof.
  induction n as [|n IH]; intros k s r Hk H; [discriminate H|].
  cbn [repeat_spec] in H. unfold max64 in Hk.
  assert (M : k mod 2^64 = k) by (apply Z.mod_small; lia).
  destruct (k <=? 0) eqn:K.
  - apply Z.leb_le in K. assert (k = 0) by lia. subst. inversion H; subst.
    exists 1%nat. cbn [r_steps r_step]. rewrite M. cbn. auto.
  - apply Z.leb_gt in K.
    assert (NZ : negb (k mod 2^64 =? 0) = true).
    { rewrite M. apply negb_true_iff. apply Z.eqb_neq. lia. }
    assert (DEC : sub64 (k mod 2^64) 1 = (k - 1) mod 2^64).
    { unfold sub64, m64. now rewrite Zminus_mod_idemp_l. }
    assert (Hk' : 0 <= k - 1 <= max64) by (unfold max64; lia).
    unfold after_body in H. destruct (body s) as [sg s2| s2|] eqn:EB.
    + destruct sg.
      * destruct (IH _ _ _ Hk' H) as [j Hj]. exists (2 + j)%nat. rewrite r_steps_add.
        cbn [r_steps r_step]. rewrite NZ. cbn [r_step]. rewrite EB, DEC. exact Hj.
      * destruct (IH _ _ _ Hk' H) as [j Hj]. exists (2 + j)%nat. rewrite r_steps_add.
        cbn [r_steps r_step]. rewrite NZ. cbn [r_step]. rewrite EB, DEC. exact Hj.
      * inversion H; subst. exists 2%nat. cbn [r_steps r_step]. rewrite NZ. cbn [r_step]. rewrite EB. cbn. auto.
      * inversion H; subst. exists 2%nat. cbn [r_steps r_step]. rewrite NZ. cbn [r_step]. rewrite EB. cbn. auto.
    + inversion H; subst. exists 2%nat. cbn [r_steps r_step]. rewrite NZ. cbn [r_step]. rewrite EB. cbn. auto.
    + inversion H; subst. exists 2%nat. cbn [r_steps r_step]. rewrite NZ. cbn [r_step]. rewrite EB. cbn. auto.
Qed.
End WhileLoops.

(* ================================================================================================ *)
(* 3. for-each                                                                                      *)
(* ================================================================================================ *)
(* The iterated value was copied first; it is a sequence of (element, width) pairs: for a list every width is
   the element size, for a Text the width is the number of UTF-8 bytes of the Buchstabe (what
   utf8_string_to_char returns).  The code keeps a cursor (iter_ptr, here the byte offset), tests
   `iter_ptr != end_ptr`, fetches the element at the cursor into the loop variable, runs the body and advances
   the cursor by the width of the element just fetched; the optional index variable is an ordinary variable
   that is loaded, incremented and stored in the increment block. *)
Section ForEach.
Variable St : Type.
Variable body : St -> ores St bsig.
Variable set_var : St -> value -> St.        (* loop variable := element (copy) *)
Variable has_idx : bool.
Variable get_idx : St -> Z.
Variable set_idx : St -> Z -> St.

Fixpoint total (es : list (value * Z)) : Z :=
  match es with [] => 0 | e :: rest => snd e + total rest end.

(* the element that starts at byte offset o, with its width *)
Fixpoint fetch (es : list (value * Z)) (o : Z) : option (value * Z) :=
  match es with
  | [] => None
  | (v, w) :: rest => if o =? 0 then Some (v, w) else if o <? w then None else fetch rest (o - w)
  end.

Definition bump_idx (s : St) : St := if has_idx then set_idx s (wrap64 (get_idx s + 1)) else s.
Definition bump_idx_m (s : St) : St :=
  if has_idx then set_idx s (signed64 (add64 ((get_idx s) mod 2^64) 1)) else s.

(* RefSem.loop_each *)
Fixpoint each_spec (es : list (value * Z)) (s : St) : xres St :=
  match es with
  | [] => XLeave s
  | (v, _) :: rest =>
      match body (set_var s v) with
      | OVal BBreak s2 => XLeave s2
      | OVal BRet s2 => XRet s2
      | OVal _ s2 => each_spec rest (bump_idx s2)
      | OErr s2 => XErr s2
      | ODiv => XDiv
      end
  end.

Inductive epc : Type := ECond | EBody | EIncr (w : Z) | ELeave | ERet | EErr | EDiv | EStuck.

Section Machine.
Variable all : list (value * Z).       (* the copied container *)

Definition e_step (c : epc * Z * St) : epc * Z * St :=
  let '(p, o, s) := c in
  match p with
  | ECond => if negb (o =? total all) then (EBody, o, s) else (ELeave, o, s)
  | EBody =>
      match fetch all o with
      | None => (EStuck, o, s)            (* cursor inside an element: never reached, see the theorem *)
      | Some (v, w) =>
          match body (set_var s v) with
          | OVal BBreak s1 => (ELeave, o, s1)
          | OVal BRet s1 => (ERet, o, s1)
          | OVal _ s1 => (EIncr w, o, s1)   (* falls through, or continueBlock -> incrementBlock *)
          | OErr s1 => (EErr, o, s1)
          | ODiv => (EDiv, o, s)
          end
      end
  | EIncr w => (ECond, o + w, bump_idx_m s)
  | _ => c
  end.

Fixpoint e_steps (k : nat) (c : epc * Z * St) : epc * Z * St :=
  match k with O => c | S k => e_steps k (e_step c) end.

Lemma e_steps_add : forall a b c, e_steps (a + b) c = e_steps b (e_steps a c).
Proof. induction a; intros; cbn [e_steps Nat.add]; auto. Qed.
End Machine.

Definition e_final (r : xres St) (c : epc * Z * St) : Prop :=
  match r with
  | XLeave s => fst (fst c) = ELeave /\ snd c = s
  | XRet s => fst (fst c) = ERet /\ snd c = s
  | XErr s => fst (fst c) = EErr /\ snd c = s
  | XDiv => fst (fst c) = EDiv
  end.

Definition widths_pos (es : list (value * Z)) : Prop := Forall (fun e => 0 < snd e) es.

Lemma total_app : forall a b, total (a ++ b) = total a + total b.
Proof. induction a as [|[v w] a IH]; intros; cbn [total app snd]; [lia|]. rewrite IH. lia. Qed.

Lemma total_nonneg : forall es, widths_pos es -> 0 <= total es.
Proof.
  induction es as [|[v w] es IH]; intros H; cbn [total snd]; [lia|].
  inversion H; subst. cbn [snd] in *. specialize (IH H3). lia.
Qed.

Lemma fetch_at : forall pre v w rest, widths_pos pre ->
  fetch (pre ++ (v, w) :: rest) (total pre) = Some (v, w).
Proof.
  induction pre as [|[v0 w0] pre IH]; intros v w rest H.
  - cbn. reflexivity.
  - inversion H; subst. cbn [snd] in *. cbn [app fetch total snd].
    pose proof (total_nonneg pre H3).
    replace (w0 + total pre =? 0) with false by (symmetry; apply Z.eqb_neq; lia).
    replace (w0 + total pre <? w0) with false by (symmetry; apply Z.ltb_ge; lia).
    replace (w0 + total pre - w0) with (total pre) by lia. now apply IH.
Qed.

Hypothesis idx_in_range : forall s, min64 <= get_idx s <= max64.

Lemma bump_agree : forall s, bump_idx_m s = bump_idx s.
Proof.
  intros s. unfold bump_idx_m, bump_idx. destruct has_idx; [|reflexivity]. f_equal.
  unfold add64, m64. change 1 with (1 mod 2^64) at 1. rewrite <- Zplus_mod.
  rewrite <- (wrap64_mod (get_idx s + 1)). apply signed64_mod. apply wrap64_in64.
Qed.

(* for_each_lowering_correct: from any cursor position that is an element boundary, the blocks visit exactly the
   remaining elements in order and end as the rule says *)
Theorem foreach_lowering_correct : forall rest pre s,
  widths_pos pre -> widths_pos rest ->
  exists k, e_final (each_spec rest s) (e_steps (pre ++ rest) k (ECond, total pre, s)).
Proof.
  induction rest as [|[v w] rest IH]; intros pre s Hp Hr.
  - exists 1%nat. cbn [e_steps e_step each_spec]. rewrite app_nil_r. rewrite Z.eqb_refl. cbn. auto.
  - inversion Hr; subst. cbn [snd] in *.
    assert (NE : negb (total pre =? total (pre ++ (v, w) :: rest)) = true).
    { rewrite total_app. cbn [total snd]. pose proof (total_nonneg rest H2).
      apply negb_true_iff. apply Z.eqb_neq. lia. }
    cbn [each_spec].
    destruct (body (set_var s v)) as [sg s2| s2|] eqn:EB.
    + assert (NEXT : forall s2', s2' = bump_idx s2 ->
                exists k, e_final (each_spec rest s2') (e_steps (pre ++ (v, w) :: rest) k (ECond, total pre + w, bump_idx_m s2))).
      { intros s2' ->. rewrite bump_agree.
        destruct (IH (pre ++ [(v, w)]) (bump_idx s2)) as [k Hk].
        - apply Forall_app. split; auto.
        - assumption.
        - exists k. rewrite <- app_assoc in Hk. cbn [app] in Hk.
          rewrite total_app in Hk. cbn [total snd] in Hk. replace (w + 0) with w in Hk by lia. exact Hk. }
      destruct sg.
      * destruct (NEXT _ eq_refl) as [k Hk]. exists (3 + k)%nat. rewrite e_steps_add.
        cbn [e_steps e_step]. rewrite NE. cbn [e_step]. rewrite fetch_at by assumption. rewrite EB. exact Hk.
      * destruct (NEXT _ eq_refl) as [k Hk]. exists (3 + k)%nat. rewrite e_steps_add.
        cbn [e_steps e_step]. rewrite NE. cbn [e_step]. rewrite fetch_at by assumption. rewrite EB. exact Hk.
      * exists 2%nat. cbn [e_steps e_step]. rewrite NE. cbn [e_step]. rewrite fetch_at by assumption. rewrite EB. cbn. auto.
      * exists 2%nat. cbn [e_steps e_step]. rewrite NE. cbn [e_step]. rewrite fetch_at by assumption. rewrite EB. cbn. auto.
    + exists 2%nat. cbn [e_steps e_step]. rewrite NE. cbn [e_step]. rewrite fetch_at by assumption. rewrite EB. cbn. auto.
    + exists 2%nat. cbn [e_steps e_step]. rewrite NE. cbn [e_step]. rewrite fetch_at by assumption. rewrite EB. cbn. auto.
Qed.

(* the whole statement: an empty container leaves at once (`icmp eq length, 0`), otherwise the walk starts at
   offset 0 *)
Corollary foreach_stmt_lowering_correct : forall es s,
  widths_pos es ->
  exists k, e_final (each_spec es s) (e_steps es k (ECond, 0, s)).
Proof. intros es s H. apply (foreach_lowering_correct es [] s); [constructor|assumption]. Qed.
End ForEach.

(* the two instances: lists (constant element size) and Texts (UTF-8 widths) *)
Definition list_cells (size : Z) (vs : list value) : list (value * Z) := map (fun v => (v, size)) vs.
Definition text_cells (cs : list Z) : list (value * Z) := map (fun c => (VC c, Z.of_nat (length (utf8 c)))) cs.

Lemma list_cells_pos : forall size vs, 0 < size -> widths_pos (list_cells size vs).
Proof. intros size vs H. unfold widths_pos, list_cells. apply Forall_forall. intros x Hx. apply in_map_iff in Hx. destruct Hx as [v [<- _]]. exact H. Qed.

Lemma text_cells_pos : forall cs, widths_pos (text_cells cs).
Proof.
  intros cs. unfold widths_pos, text_cells. apply Forall_forall. intros x Hx. apply in_map_iff in Hx.
  destruct Hx as [c [<- _]]. cbn [snd]. unfold utf8.
  destruct (c <? 128); [cbn; lia|]. destruct (c <? 2048); [cbn; lia|]. destruct (c <? 65536); cbn; lia.
Qed.

(* ================================================================================================ *)
(* 4. counting loop with a Kommazahl counter                                                        *)
(* ================================================================================================ *)
Section ForKomma.
Variable St : Type.
Variable eval_to : St -> ores St value.         (* the end value: any numeric value *)
Variable body : St -> ores St bsig.
Variable set_var : St -> value -> St.
Variable stp : value.                           (* the step value as evaluated (any numeric type) *)

Definition numeric (v : value) : Prop := match v with VZ _ | VB _ | VK _ => wf v | _ => False end.

(* intOrByteAsFloat *)
Definition as_f (v : value) : option Z :=
  match as_float (repr v) with LOk (MF64 x) => Some x | _ => None end.

Lemma as_f_to_f : forall v, numeric v -> as_f v = to_f v.
Proof.
  intros v H. destruct v; cbn in H; try contradiction; unfold as_f; cbn [repr as_float to_f].
  - now rewrite tof_Z.
  - reflexivity.
  - reflexivity.
Qed.

(* RefSem.loop_for_k with the step already converted (stpf) *)
Fixpoint fork_spec (n : nat) (stpf i : Z) (s : St) : option (xres St) :=
  match n with
  | O => None
  | S n =>
    match eval_to s with
    | OVal tv s1 =>
        match to_f tv with
        | None => Some (XErr s1)
        | Some lim =>
            if (if f_lt stpf f_pos_zero then f_ge i lim else f_le i lim) then
              match body s1 with
              | OVal BBreak s2 => Some (XLeave s2)
              | OVal BRet s2 => Some (XRet s2)
              | OVal _ s2 => let i' := f_add i stpf in fork_spec n stpf i' (set_var s2 (VK i'))
              | OErr s2 => Some (XErr s2)
              | ODiv => Some XDiv
              end
            else Some (XLeave s1)
        end
    | OErr s1 => Some (XErr s1)
    | ODiv => Some XDiv
    end
  end.

Inductive kpc : Type := KCond | KUp | KDown | KBody | KIncr | KLeave | KRet | KErr | KDiv.

(* condBlock: fcmp olt (step as double) 0.0; loopUp/loopDown: evaluate To, cast to double, fcmp ole/oge;
   incrementBlock: fadd index, (step as double); store to the variable and to the index *)
Definition k_step (stpm : Z) (c : kpc * Z * St) : kpc * Z * St :=
  let '(p, idx, s) := c in
  match p with
  | KCond => if fcmp FOlt stpm (sitofp64 0) then (KDown, idx, s) else (KUp, idx, s)
  | KUp => match eval_to s with
           | OVal tv s1 => match as_f tv with
                           | Some lim => if fcmp FOle idx lim then (KBody, idx, s1) else (KLeave, idx, s1)
                           | None => (KErr, idx, s1)
                           end
           | OErr s1 => (KErr, idx, s1)
           | ODiv => (KDiv, idx, s)
           end
  | KDown => match eval_to s with
             | OVal tv s1 => match as_f tv with
                             | Some lim => if fcmp FOge idx lim then (KBody, idx, s1) else (KLeave, idx, s1)
                             | None => (KErr, idx, s1)
                             end
             | OErr s1 => (KErr, idx, s1)
             | ODiv => (KDiv, idx, s)
             end
  | KBody => match body s with
             | OVal BBreak s1 => (KLeave, idx, s1)
             | OVal BRet s1 => (KRet, idx, s1)
             | OVal _ s1 => (KIncr, idx, s1)
             | OErr s1 => (KErr, idx, s1)
             | ODiv => (KDiv, idx, s)
             end
  | KIncr => let add := f_add idx stpm in (KCond, add, set_var s (VK add))
  | _ => c
  end.

Fixpoint k_steps (stpm : Z) (k : nat) (c : kpc * Z * St) : kpc * Z * St :=
  match k with O => c | S k => k_steps stpm k (k_step stpm c) end.

Lemma k_steps_add : forall m a b c, k_steps m (a + b) c = k_steps m b (k_steps m a c).
Proof. induction a; intros; cbn [k_steps Nat.add]; auto. Qed.

Definition k_final (r : xres St) (c : kpc * Z * St) : Prop :=
  match r with
  | XLeave s => fst (fst c) = KLeave /\ snd c = s
  | XRet s => fst (fst c) = KRet /\ snd c = s
  | XErr s => fst (fst c) = KErr /\ snd c = s
  | XDiv => fst (fst c) = KDiv
  end.

Hypothesis to_numeric : forall s tv s1, eval_to s = OVal tv s1 -> numeric tv.

Lemma zero_f : sitofp64 0 = f_pos_zero.
Proof. vm_compute. reflexivity. Qed.

Theorem forkomma_lowering_correct : forall stpf, as_f stp = Some stpf -> numeric stp ->
  forall n i s r,
  fork_spec n stpf i s = Some r -> exists k, k_final r (k_steps stpf k (KCond, i, s)).
Proof.
  intros stpf Hst Hnum.
  induction n as [|n IH]; intros i s r H; [discriminate H|].
  cbn [fork_spec] in H.
  assert (DIR : fcmp FOlt stpf (sitofp64 0) = f_lt stpf f_pos_zero) by (rewrite zero_f; reflexivity).
  destruct (eval_to s) as [tv s1| s1|] eqn:ET.
  - pose proof (to_numeric _ _ _ ET) as NT. pose proof (as_f_to_f tv NT) as AF.
    destruct (to_f tv) as [lim|] eqn:TF.
    + assert (TWO : k_steps stpf 2 (KCond, i, s) =
                    if (if f_lt stpf f_pos_zero then f_ge i lim else f_le i lim) then (KBody, i, s1) else (KLeave, i, s1)).
      { cbn [k_steps k_step]. rewrite DIR. destruct (f_lt stpf f_pos_zero); cbn [k_step]; rewrite ET, AF; reflexivity. }
      destruct (if f_lt stpf f_pos_zero then f_ge i lim else f_le i lim) eqn:C.
      * destruct (body s1) as [sg s2| s2|] eqn:EB.
        -- destruct sg.
           ++ destruct (IH _ _ _ H) as [k Hk]. exists (2 + (2 + k))%nat.
              rewrite k_steps_add, TWO, k_steps_add. cbn [k_steps k_step]. rewrite EB. exact Hk.
           ++ destruct (IH _ _ _ H) as [k Hk]. exists (2 + (2 + k))%nat.
              rewrite k_steps_add, TWO, k_steps_add. cbn [k_steps k_step]. rewrite EB. exact Hk.
           ++ inversion H; subst. exists (2 + 1)%nat. rewrite k_steps_add, TWO. cbn [k_steps k_step]. rewrite EB. cbn. auto.
           ++ inversion H; subst. exists (2 + 1)%nat. rewrite k_steps_add, TWO. cbn [k_steps k_step]. rewrite EB. cbn. auto.
        -- inversion H; subst. exists (2 + 1)%nat. rewrite k_steps_add, TWO. cbn [k_steps k_step]. rewrite EB. cbn. auto.
        -- inversion H; subst. exists (2 + 1)%nat. rewrite k_steps_add, TWO. cbn [k_steps k_step]. rewrite EB. cbn. auto.
      * inversion H; subst. exists 2%nat. rewrite TWO. cbn. auto.
    + inversion H; subst. exists 2%nat. cbn [k_steps k_step]. rewrite DIR.
      destruct (f_lt stpf f_pos_zero); cbn [k_step]; rewrite ET, AF; cbn; auto.
  - inversion H; subst. exists 2%nat. cbn [k_steps k_step]. rewrite DIR.
    destruct (f_lt stpf f_pos_zero); cbn [k_step]; rewrite ET; cbn; auto.
  - inversion H; subst. exists 2%nat. cbn [k_steps k_step]. rewrite DIR.
    destruct (f_lt stpf f_pos_zero); cbn [k_step]; rewrite ET; cbn; auto.
Qed.
End ForKomma.
