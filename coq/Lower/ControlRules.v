(* RefSem's evaluator IS the specifications of Lower/Control.v with eval / exec_block as the parameters:
   one unfolding of each rule, by reflexivity. *)
From Coq Require Import ZArith List Bool.
Import ListNotations.
From DDP Require Import Lang.Syntax Lang.F64 Lang.RefSem.
Open Scope Z_scope.

Section Rules.
Variable pow : Z -> Z -> Z.
Variable log10 : Z -> Z.
Variable fmt : Z -> list Z.
Variable ftab : list fdecl.
Notation eval := (eval pow log10 fmt ftab).
Notation exec_block := (exec_block pow log10 fmt ftab).

(* a und b: the right operand is evaluated iff the left one is wahr *)
Lemma refsem_and_rule : forall n genv en s a b,
  eval (S n) genv en s (EBin BAnd a b) =
  rbind (eval n genv en s a) (fun v s =>
    match v with
    | VW false => Ok (VW false) s
    | VW true => rbind (eval n genv en s b) (fun w s => match w with VW _ => Ok w s | _ => bad s end)
    | _ => bad s
    end).
Proof. reflexivity. Qed.

Lemma refsem_or_rule : forall n genv en s a b,
  eval (S n) genv en s (EBin BOr a b) =
  rbind (eval n genv en s a) (fun v s =>
    match v with
    | VW true => Ok (VW true) s
    | VW false => rbind (eval n genv en s b) (fun w s => match w with VW _ => Ok w s | _ => bad s end)
    | _ => bad s
    end).
Proof. reflexivity. Qed.

(* a, falls c, ansonsten b: the condition, then only the chosen side *)
Lemma refsem_falls_rule : forall n genv en s a c b,
  eval (S n) genv en s (ETer TFalls a c b) =
  rbind (eval n genv en s c) (fun cv s =>
    match cv with
    | VW true => eval n genv en s a
    | VW false => eval n genv en s b
    | _ => bad s
    end).
Proof. reflexivity. Qed.

Lemma refsem_while_rule : forall n genv en s c body,
  loop_while pow log10 fmt ftab (S n) genv en s c body =
  rbind (eval n genv en s c) (fun cv s =>
    match cv with
    | VW false => Ok FNext s
    | VW true =>
        rbind (exec_block n genv en s body) (fun fl s =>
          match fl with
          | FBreak => Ok FNext s
          | FRet v => Ok (FRet v) s
          | _ => loop_while pow log10 fmt ftab n genv en s c body
          end)
    | _ => bad s
    end).
Proof. reflexivity. Qed.

Lemma refsem_repeat_rule : forall n genv en s k body,
  loop_repeat pow log10 fmt ftab (S n) genv en s k body =
  if k <=? 0 then Ok FNext s else
  rbind (exec_block n genv en s body) (fun fl s =>
    match fl with
    | FBreak => Ok FNext s
    | FRet v => Ok (FRet v) s
    | _ => loop_repeat pow log10 fmt ftab n genv en s (k - 1) body
    end).
Proof. reflexivity. Qed.

Lemma refsem_foreach_rule : forall n genv en s a ai v rest body,
  loop_each pow log10 fmt ftab (S n) genv en s a ai (v :: rest) body =
  rbind (write_bind s (BLoc a) v) (fun _ s =>
  rbind (exec_block n genv en s body) (fun fl s =>
    match fl with
    | FBreak => Ok FNext s
    | FRet r => Ok (FRet r) s
    | _ =>
        rbind (match ai with
               | None => Ok tt s
               | Some c =>
                   rbind (read_bind s (BLoc c)) (fun iv s =>
                     match iv with
                     | VZ k => write_bind s (BLoc c) (VZ (wrap64 (k + 1)))
                     | _ => bad s
                     end)
               end) (fun _ s => loop_each pow log10 fmt ftab n genv en s a ai rest body)
    end)).
Proof. reflexivity. Qed.

Lemma refsem_forkomma_rule : forall n genv en s a i stp to body,
  loop_for_k pow log10 fmt ftab (S n) genv en s a i stp to body =
  rbind (eval n genv en s to) (fun tv s =>
    match to_f tv with
    | None => bad s
    | Some lim =>
        if (if f_lt stp f_pos_zero then f_ge i lim else f_le i lim) then
          rbind (exec_block n genv en s body) (fun fl s =>
            match fl with
            | FBreak => Ok FNext s
            | FRet v => Ok (FRet v) s
            | _ =>
                let i' := f_add i stp in
                rbind (write_bind s (BLoc a) (VK i')) (fun _ s =>
                  loop_for_k pow log10 fmt ftab n genv en s a i' stp to body)
            end)
        else Ok FNext s
    end).
Proof. reflexivity. Qed.
End Rules.
