(* DESIGN stage 4, expressions: a compiler model for the SCALAR expression fragment and its preservation theorem.

   Fragment (decidable: [typeof G e <> None]): literals, variables of scalar type, every unary / binary / ternary
   operator on Zahl, Kommazahl, Byte, Wahrheitswert, Buchstabe (incl. the lazy und / oder / falls), conversions
   between scalar types.  Outside: Text, lists, calls.

   compile_expr emits, per node, the instruction sequence of Lower/Ops.v (lower_un / lower_bin / lower_between /
   lower_cast on the evaluated operands) and for und / oder / falls the condbr + phi skeleton, whose meaning is the
   block machine of Lower/Control.v (lir_eval uses its specification sc_spec / falls_spec;
   Control.shortcircuit_lowering_correct / falls_lowering_correct show the blocks compute it).

   expr_preservation: for every well-typed expression tree, every environment whose variables hold well-formed
   values of the declared types, and every fuel: RefSem.eval either runs out of fuel or agrees with lir_eval on
   the compiled code - same value (through repr), or both a Laufzeitfehler (modulo 0); RefSem never gets stuck
   and does not change the state. *)
From Coq Require Import ZArith Znumtheory Zdiv Bool List Lia.
Import ListNotations.
From Flocq Require Import Core Binary Bits.
From DDP Require Import Lang.Syntax Lang.F64 Lang.RefSem Lower.Ops Lower.OpsProofs Lower.ForLoop Lower.Control.
Open Scope Z_scope.

(* ---- static types of the scalar fragment (the types RefSem's values carry) ---------------------------- *)
Definition is_num (t : ty) : bool := match t with TZahl | TKomma | TByte => true | _ => false end.
Definition is_int (t : ty) : bool := match t with TZahl | TByte => true | _ => false end.
Definition is_scalar_ty (t : ty) : bool := match t with TText | TList _ => false | _ => true end.

Definition arith_ty (a b : ty) : option ty :=
  match a, b with
  | TByte, TByte => Some TByte
  | _, _ => if is_num a && is_num b then
              (match a, b with TKomma, _ | _, TKomma => Some TKomma | _, _ => Some TZahl end)
            else None
  end.
Definition int_ty (a b : ty) : option ty :=
  match a, b with
  | TByte, TByte => Some TByte
  | _, _ => if is_int a && is_int b then Some TZahl else None
  end.

Definition bin_ty (op : binop) (a b : ty) : option ty :=
  match op with
  | BAnd | BOr | BXor => match a, b with TBool, TBool => Some TBool | _, _ => None end
  | BPlus | BMinus | BMult => arith_ty a b
  | BDiv | BPow | BLog => if is_num a && is_num b then Some TKomma else None
  | BLogicAnd | BLogicOr | BLogicXor | BMod => int_ty a b
  | BShl | BShr => if is_int a && is_int b then Some a else None
  | BEq | BNe => if is_scalar_ty a && ty_eqb a b then Some TBool else None
  | BLt | BGt | BLe | BGe => if is_num a && is_num b then Some TBool else None
  | BConcat | BIndex | BSliceTo | BSliceFrom => None
  end.

Definition un_ty (op : unop) (a : ty) : option ty :=
  match op, a with
  | UAbs, TZahl | UNeg, TZahl | UAbs, TByte | UNeg, TByte => Some TZahl
  | UAbs, TKomma | UNeg, TKomma => Some TKomma
  | UNot, TBool => Some TBool
  | ULogicNot, TZahl => Some TZahl
  | ULogicNot, TByte => Some TByte
  | _, _ => None
  end.

Definition cast_ty (t a : ty) : option ty :=
  match t, a with
  | TZahl, (TZahl | TKomma | TByte | TBool | TChar) => Some TZahl
  | TKomma, (TZahl | TKomma | TByte) => Some TKomma
  | TByte, (TZahl | TKomma | TByte) => Some TByte
  | TBool, (TZahl | TByte | TBool) => Some TBool
  | TChar, (TZahl | TByte | TChar) => Some TChar
  | _, _ => None
  end.

Definition tenv := ident -> option ty.

Fixpoint typeof (G : tenv) (e : expr) : option ty :=
  match e with
  | EInt _ => Some TZahl
  | EFloat _ => Some TKomma
  | EBool _ => Some TBool
  | EChar c => if (- 2^31 <=? c) && (c <? 2^31) then Some TChar else None
  | EVar x => match G x with Some t => if is_scalar_ty t then Some t else None | None => None end
  | EUn op a => match typeof G a with Some ta => un_ty op ta | None => None end
  | EBin op a b => match typeof G a, typeof G b with Some ta, Some tb => bin_ty op ta tb | _, _ => None end
  | ETer TBetween x a b =>
      match typeof G x, typeof G a, typeof G b with
      | Some tx, Some ta, Some tb => if is_num tx && is_num ta && is_num tb then Some TBool else None
      | _, _, _ => None
      end
  | ETer TFalls a c b =>
      match typeof G a, typeof G c, typeof G b with
      | Some ta, Some TBool, Some tb => if ty_eqb ta tb then Some ta else None
      | _, _, _ => None
      end
  | ECast a t => match typeof G a with Some ta => cast_ty t ta | None => None end
  | _ => None
  end.

Definition in_scalar_fragment (G : tenv) (e : expr) : bool :=
  match typeof G e with Some _ => true | None => false end.

(* ---- the target: structured instruction trees ---------------------------------------------------------- *)
Inductive lir : Type :=
| LConst (m : mval)
| LLoad (x : ident)
| LUn (op : unop) (a : lir)
| LBin (op : binop) (a b : lir)           (* both operands, then the instruction(s) of Ops.lower_bin *)
| LBetween (x a b : lir)
| LCast (t : ty) (a : lir)
| LCondPhi (is_and : bool) (a b : lir)    (* condbr on a; b in its own block; phi *)
| LBrPhi (c a b : lir).                   (* falls: condbr on c to the block of a or of b; phi *)

Fixpoint compile_expr (e : expr) : lir :=
  match e with
  | EInt z => LConst (MI64 (z mod 2^64))
  | EFloat b => LConst (MF64 (f_canon b))
  | EBool b => LConst (MI1 b)
  | EChar c => LConst (MI32 (c mod 2^32))
  | EVar x => LLoad x
  | EUn op a => LUn op (compile_expr a)
  | EBin BAnd a b => LCondPhi true (compile_expr a) (compile_expr b)
  | EBin BOr a b => LCondPhi false (compile_expr a) (compile_expr b)
  | EBin op a b => LBin op (compile_expr a) (compile_expr b)
  | ETer TBetween x a b => LBetween (compile_expr x) (compile_expr a) (compile_expr b)
  | ETer TFalls a c b => LBrPhi (compile_expr c) (compile_expr a) (compile_expr b)
  | ECast a t => LCast t (compile_expr a)
  | _ => LConst (MI1 false)      (* outside the fragment *)
  end.

Inductive mres : Type := MOk (m : mval) | MErr | MStuck.

Definition of_lres (r : lres) : mres :=
  match r with LOk m => MOk m | LRtErr => MErr | _ => MStuck end.

Definition mbind (r : mres) (k : mval -> mres) : mres :=
  match r with MOk m => k m | MErr => MErr | MStuck => MStuck end.

(* sub-evaluations as the abstract evaluators of Control.v (the state is trivial: expressions of the fragment
   have no effects) *)
Definition as_ores (r : mres) : ores unit (option bool) :=
  match r with
  | MOk (MI1 b) => OVal (Some b) tt
  | MOk _ => OVal None tt
  | MErr => OErr tt
  | MStuck => OVal None tt
  end.

Section Eval.
Variable pow : Z -> Z -> Z.
Variable log10 : Z -> Z.
Variable ld : ident -> option mval.      (* the current contents of the variables *)

Fixpoint lir_eval (l : lir) : mres :=
  match l with
  | LConst m => MOk m
  | LLoad x => match ld x with Some m => MOk m | None => MStuck end
  | LUn op a => mbind (lir_eval a) (fun x => of_lres (lower_un op x))
  | LBin op a b => mbind (lir_eval a) (fun x => mbind (lir_eval b) (fun y => of_lres (lower_bin pow log10 op x y)))
  | LBetween x a b =>
      mbind (lir_eval x) (fun vx => mbind (lir_eval a) (fun va => mbind (lir_eval b) (fun vb =>
        of_lres (lower_between vx va vb))))
  | LCast t a => mbind (lir_eval a) (fun x => of_lres (lower_cast t x))
  | LCondPhi is_and a b =>
      (* the meaning of the condbr/phi blocks: Control.sc_spec over the two sub-evaluations *)
      match lir_eval a with
      | MOk (MI1 l) =>
          match fst (sc_spec unit (fun _ => OVal l tt)
                       (fun _ => match lir_eval b with MOk (MI1 r) => OVal r tt | MErr => OErr tt | _ => ODiv end)
                       is_and tt) with
          | OVal r _ => MOk (MI1 r)
          | OErr _ => MErr
          | ODiv => MStuck
          end
      | MOk _ => MStuck
      | r => r
      end
  | LBrPhi c a b =>
      match lir_eval c with
      | MOk (MI1 true) => lir_eval a
      | MOk (MI1 false) => lir_eval b
      | MOk _ => MStuck
      | r => r
      end
  end.
End Eval.

(* ================================================================================================ *)
(* well-formedness is preserved by every operator of the fragment                                    *)
(* ================================================================================================ *)
Lemma canon_enc : forall x, f_canon (enc x) = enc x.
Proof.
  intros x. unfold f_canon, dec. unfold enc at 2 3.
  destruct (Binary.is_nan 53 1024 x) eqn:N.
  - vm_compute. reflexivity.
  - assert (R : 0 <= bits_of_b64 x < 2^64) by (apply (bits_of_binary_float_range 52 11); reflexivity).
    rewrite Z.mod_small by exact R.
    unfold b64_of_bits, bits_of_b64. rewrite binary_float_of_bits_of_binary_float.
    unfold enc. rewrite N. reflexivity.
Qed.

Lemma canon_idem : forall b, f_canon (f_canon b) = f_canon b.
Proof. intros. unfold f_canon at 2 3. apply canon_enc. Qed.

Lemma wrap32_range : forall z, - 2^31 <= wrap32 z < 2^31.
Proof.
  intros z. unfold wrap32. assert (0 <= (z + 2^31) mod 2^32 < 2^32) by (apply Z.mod_pos_bound; lia). lia.
Qed.

Lemma rem_in64 : forall x y, min64 <= x <= max64 -> y <> 0 -> min64 <= Z.rem x y <= max64.
Proof.
  intros x y Hx Hy. unfold min64, max64 in *.
  destruct (Z_le_gt_dec 0 x).
  - pose proof (Zquot.Zrem_lt_pos x y l Hy). pose proof (Z.rem_le x y).
    assert (Z.rem x y <= x).
    { destruct (Z_lt_le_dec (Z.abs x) (Z.abs y)).
      - rewrite (proj2 (Z.rem_small_iff x y Hy)) by assumption. lia.
      - pose proof (Z.rem_bound_abs x y Hy). lia. }
    lia.
  - assert (Hx' : x <= 0) by lia. pose proof (Zquot.Zrem_lt_neg x y Hx' Hy).
    assert (x <= Z.rem x y).
    { destruct (Z_lt_le_dec (Z.abs x) (Z.abs y)).
      - rewrite (proj2 (Z.rem_small_iff x y Hy)) by assumption. lia.
      - pose proof (Z.rem_bound_abs x y Hy). lia. }
    lia.
Qed.

Lemma byte_land : forall f x y,
  (forall a b, f (a mod 2^8) (b mod 2^8) = (f a b) mod 2^8) ->
  0 <= x < 256 -> 0 <= y < 256 -> 0 <= f x y < 256.
Proof.
  intros f x y HF Hx Hy. rewrite <- (Z.mod_small x (2^8)), <- (Z.mod_small y (2^8)) by (change (2^8) with 256; lia).
  rewrite HF. change 256 with (2^8). apply Z.mod_pos_bound. lia.
Qed.

Lemma land_mod8 : forall x y, Z.land (x mod 2^8) (y mod 2^8) = (Z.land x y) mod 2^8.
Proof.
  intros. rewrite !mod_ones by lia. apply Z.bits_inj'. intros n Hn.
  rewrite !Z.land_spec. destruct (Z.testbit x n), (Z.testbit y n), (Z.testbit (Z.ones 8) n); reflexivity.
Qed.
Lemma lor_mod8 : forall x y, Z.lor (x mod 2^8) (y mod 2^8) = (Z.lor x y) mod 2^8.
Proof.
  intros. rewrite !mod_ones by lia. apply Z.bits_inj'. intros n Hn.
  rewrite !Z.land_spec, !Z.lor_spec, !Z.land_spec.
  destruct (Z.testbit x n), (Z.testbit y n), (Z.testbit (Z.ones 8) n); reflexivity.
Qed.
Lemma lxor_mod8 : forall x y, Z.lxor (x mod 2^8) (y mod 2^8) = (Z.lxor x y) mod 2^8.
Proof.
  intros. rewrite !mod_ones by lia. apply Z.bits_inj'. intros n Hn.
  rewrite !Z.land_spec, !Z.lxor_spec, !Z.land_spec.
  destruct (Z.testbit x n), (Z.testbit y n), (Z.testbit (Z.ones 8) n); reflexivity.
Qed.

Lemma sat_range : forall lo hi b, lo <= 0 <= hi -> lo <= f_to_Z_sat lo hi b <= hi.
Proof.
  intros lo hi b H. unfold f_to_Z_sat.
  destruct (f_is_nan b); [lia|].
  destruct (f_trunc b) as [z|].
  - destruct (z <? lo) eqn:A; [lia|]. apply Z.ltb_ge in A.
    destruct (hi <? z) eqn:B; [lia|]. apply Z.ltb_ge in B. lia.
  - destruct (f_sign b); lia.
Qed.

Lemma wrap8_range : forall z, 0 <= wrap8 z < 256.
Proof. intros. unfold wrap8. apply Z.mod_pos_bound. lia. Qed.

Lemma f_of_Z_canon : forall z, f_canon (f_of_Z z) = f_of_Z z.
Proof. intros. unfold f_of_Z. apply canon_enc. Qed.

(* wf of the float results: every float operation of F64 ends in enc *)
Lemma wf_fadd : forall a b, f_canon (f_add a b) = f_add a b. Proof. intros; apply canon_enc. Qed.
Lemma wf_fsub : forall a b, f_canon (f_sub a b) = f_sub a b. Proof. intros; apply canon_enc. Qed.
Lemma wf_fmul : forall a b, f_canon (f_mul a b) = f_mul a b. Proof. intros; apply canon_enc. Qed.
Lemma wf_fdiv : forall a b, f_canon (f_div a b) = f_div a b. Proof. intros; apply canon_enc. Qed.
Lemma wf_fneg : forall a, f_canon (f_neg a) = f_neg a. Proof. intros; apply canon_enc. Qed.

Global Hint Resolve wrap64_in64 wrap32_range wrap8_range canon_idem f_of_Z_canon wf_fadd wf_fsub wf_fmul wf_fdiv wf_fneg canon_enc : wfdb.

Definition okv (t : ty) (v : value) : Prop := wf v /\ type_of v = t.

Ltac wf_side :=
  split; [cbn [wf]; try exact I; auto with wfdb;
          try apply wrap64_in64; try apply wrap8_range; try apply wrap32_range;
          try (unfold in64 in *; unfold min64, max64 in *; lia)
         | try reflexivity].

Section Sound.
Variable pow : Z -> Z -> Z.
Variable log10 : Z -> Z.
Variable fmt_float : Z -> list Z.

Lemma to_f_some : forall v, wf v -> is_num (type_of v) = true -> exists x, to_f v = Some x.
Proof. intros v W H. destruct v; cbn in H; try discriminate H; cbn; eauto. Qed.

Lemma arith_sound : forall fz ff a b t,
  (forall x y, f_canon (ff x y) = ff x y) ->
  wf a -> wf b -> arith_ty (type_of a) (type_of b) = Some t ->
  exists v, arith fz ff a b = ROk v /\ okv t v.
Proof.
  intros fz ff a b t HF Wa Wb HT.
  destruct a, b; cbn in Wa, Wb; try contradiction; cbn in HT; try discriminate HT; inversion HT; subst;
    cbn [arith is_K orb to_f to_i]; eexists; (split; [reflexivity|]); wf_side.
Qed.

Lemma fbin_sound : forall ff a b,
  (forall x y, f_canon (ff x y) = ff x y) ->
  wf a -> wf b -> is_num (type_of a) && is_num (type_of b) = true ->
  exists v, fbin ff a b = ROk v /\ okv TKomma v.
Proof.
  intros ff a b HF Wa Wb HT.
  destruct a, b; cbn in Wa, Wb; try contradiction; cbn in HT; try discriminate HT;
    cbn [fbin to_f]; eexists; (split; [reflexivity|]); wf_side.
Qed.

Lemma bitop_sound : forall f a b t,
  (forall x y, f (x mod 2^8) (y mod 2^8) = (f x y) mod 2^8) ->
  wf a -> wf b -> int_ty (type_of a) (type_of b) = Some t ->
  exists v, bitop f a b = ROk v /\ okv t v.
Proof.
  intros f a b t HF Wa Wb HT.
  destruct a, b; cbn in Wa, Wb; try contradiction; cbn in HT; try discriminate HT; inversion HT; subst;
    cbn [bitop to_i]; eexists; (split; [reflexivity|]); wf_side.
  apply byte_land; auto.
Qed.

Lemma modulo_sound : forall a b t,
  wf a -> wf b -> int_ty (type_of a) (type_of b) = Some t ->
  (exists v, modulo a b = ROk v /\ okv t v) \/ modulo a b = RErr.
Proof.
  intros a b t Wa Wb HT.
  destruct a, b; cbn in Wa, Wb; try contradiction; cbn in HT; try discriminate HT; inversion HT; subst;
    cbn [modulo to_i]; destruct (z0 =? 0) eqn:E0; auto; left; apply Z.eqb_neq in E0;
    eexists; (split; [reflexivity|]); split; try reflexivity; cbn [wf].
  - apply rem_in64; auto.
  - apply rem_in64; auto.
  - apply rem_in64; auto. unfold min64, max64; lia.
  - pose proof (Z.mod_pos_bound z z0). lia.
Qed.

Lemma shift_sound : forall left a b,
  wf a -> wf b -> is_int (type_of a) && is_int (type_of b) = true ->
  exists v, shift left a b = ROk v /\ okv (type_of a) v.
Proof.
  intros left a b Wa Wb HT.
  destruct a, b; cbn in Wa, Wb; try contradiction; cbn in HT; try discriminate HT; cbn [shift to_i type_of].
  - destruct ((z0 <? 0) || (64 <=? z0)); eexists; (split; [reflexivity|]); destruct left; wf_side.
  - destruct ((z0 <? 0) || (64 <=? z0)); eexists; (split; [reflexivity|]); destruct left; wf_side.
  - assert (0 <= z0 mod 256 < 256) by (apply Z.mod_pos_bound; lia).
    destruct (8 <=? z0 mod 256); eexists; (split; [reflexivity|]); destruct left; wf_side.
    + assert (0 < 2 ^ (z0 mod 256)) by (apply Z.pow_pos_nonneg; lia).
      split; [apply Z.div_pos; lia|]. apply Z.div_lt_upper_bound; nia.
  - destruct (8 <=? z0); eexists; (split; [reflexivity|]); destruct left; wf_side.
    + assert (0 < 2 ^ z0) by (apply Z.pow_pos_nonneg; lia).
      split; [apply Z.div_pos; lia|]. apply Z.div_lt_upper_bound; nia.
Qed.

Lemma compare_sound : forall fi ff a b,
  wf a -> wf b -> is_num (type_of a) && is_num (type_of b) = true ->
  exists v, compare fi ff a b = ROk v /\ okv TBool v.
Proof.
  intros fi ff a b Wa Wb HT.
  destruct a, b; cbn in Wa, Wb; try contradiction; cbn in HT; try discriminate HT;
    cbn [compare is_K orb to_f to_i]; eexists; (split; [reflexivity|]); wf_side.
Qed.

Lemma eqb_sound : forall a b,
  wf a -> wf b -> is_scalar_ty (type_of a) && ty_eqb (type_of a) (type_of b) = true ->
  exists r, value_eqb a b = Some r.
Proof.
  intros a b Wa Wb HT.
  destruct a, b; cbn in Wa, Wb; try contradiction; cbn in HT; try discriminate HT; cbn [value_eqb]; eauto.
Qed.

(* every binary operator of the fragment on well-formed operands of admissible types: a well-formed value of the
   result type, or (modulo only) a Laufzeitfehler - never a guard, never stuck *)
Lemma bin_sound : forall op a b t,
  wf a -> wf b -> bin_ty op (type_of a) (type_of b) = Some t ->
  (exists v, bin_op pow log10 op a b = ROk v /\ okv t v) \/ (op = BMod /\ bin_op pow log10 op a b = RErr).
Proof.
  intros op a b t Wa Wb HT.
  destruct op; cbn [bin_ty] in HT; try discriminate HT; cbn [bin_op].
  - left. destruct a, b; try discriminate HT. inversion HT. eexists; split; [reflexivity|]. wf_side.
  - left. destruct a, b; try discriminate HT. inversion HT. eexists; split; [reflexivity|]. wf_side.
  - left. destruct a, b; try discriminate HT. inversion HT. eexists; split; [reflexivity|]. wf_side.
  - left. apply arith_sound; auto with wfdb.
  - left. apply arith_sound; auto with wfdb.
  - left. apply arith_sound; auto with wfdb.
  - left. destruct (is_num (type_of a) && is_num (type_of b)) eqn:N; [|discriminate HT]. inversion HT; subst.
    apply fbin_sound; auto with wfdb.
  - left. destruct (is_num (type_of a) && is_num (type_of b)) eqn:N; [|discriminate HT]. inversion HT; subst.
    apply fbin_sound; auto with wfdb.
  - left. destruct (is_num (type_of a) && is_num (type_of b)) eqn:N; [|discriminate HT]. inversion HT; subst.
    apply fbin_sound; auto with wfdb.
  - left. apply bitop_sound; auto using land_mod8.
  - left. apply bitop_sound; auto using lor_mod8.
  - left. apply bitop_sound; auto using lxor_mod8.
  - destruct (modulo_sound a b t Wa Wb HT) as [H|H]; [left; exact H|right; auto].
  - left. destruct (is_int (type_of a) && is_int (type_of b)) eqn:N; [|discriminate HT]. inversion HT; subst.
    apply shift_sound; auto.
  - left. destruct (is_int (type_of a) && is_int (type_of b)) eqn:N; [|discriminate HT]. inversion HT; subst.
    apply shift_sound; auto.
  - left. destruct (is_scalar_ty (type_of a) && ty_eqb (type_of a) (type_of b)) eqn:N; [|discriminate HT]. inversion HT; subst.
    destruct (eqb_sound a b Wa Wb N) as [r Hr]. apply andb_true_iff in N. destruct N as [_ N].
    rewrite N, Hr. eexists; split; [reflexivity|]. wf_side.
  - left. destruct (is_scalar_ty (type_of a) && ty_eqb (type_of a) (type_of b)) eqn:N; [|discriminate HT]. inversion HT; subst.
    destruct (eqb_sound a b Wa Wb N) as [r Hr]. apply andb_true_iff in N. destruct N as [_ N].
    rewrite N, Hr. eexists; split; [reflexivity|]. wf_side.
  - left. destruct (is_num (type_of a) && is_num (type_of b)) eqn:N; [|discriminate HT]. inversion HT; subst. apply compare_sound; auto.
  - left. destruct (is_num (type_of a) && is_num (type_of b)) eqn:N; [|discriminate HT]. inversion HT; subst. apply compare_sound; auto.
  - left. destruct (is_num (type_of a) && is_num (type_of b)) eqn:N; [|discriminate HT]. inversion HT; subst. apply compare_sound; auto.
  - left. destruct (is_num (type_of a) && is_num (type_of b)) eqn:N; [|discriminate HT]. inversion HT; subst. apply compare_sound; auto.
Qed.

Lemma un_sound : forall op a t,
  wf a -> un_ty op (type_of a) = Some t -> exists v, un_op op a = ROk v /\ okv t v.
Proof.
  intros op a t Wa HT.
  destruct op, a; cbn in Wa; try contradiction; cbn in HT; try discriminate HT; inversion HT; subst;
    cbn [un_op]; eexists; (split; [reflexivity|]).
  - destruct (z <? 0); wf_side.
  - destruct (f_lt bits f_pos_zero); wf_side.
  - wf_side.
  - wf_side.
  - wf_side.
  - wf_side.
  - wf_side.
  - wf_side.
  - wf_side.
Qed.

Lemma cast_sound : forall t a t',
  wf a -> cast_ty t (type_of a) = Some t' -> exists v, cast_to fmt_float t a = ROk v /\ okv t' v.
Proof.
  intros t a t' Wa HT.
  destruct t, a; cbn in Wa; try contradiction; cbn in HT; try discriminate HT; inversion HT; subst;
    cbn [cast_to]; eexists; (split; [reflexivity|]); wf_side.
  - pose proof (sat_range min64 max64 bits). unfold min64, max64 in *. lia.
  - unfold min64, max64. destruct b; lia.
  - pose proof (sat_range 0 255 bits). lia.
Qed.

Lemma between_sound : forall x a b,
  wf x -> wf a -> wf b -> is_num (type_of x) && is_num (type_of a) && is_num (type_of b) = true ->
  exists v, between x a b = ROk v /\ okv TBool v.
Proof.
  intros x a b Wx Wa Wb HT.
  destruct x, a, b; cbn in Wx, Wa, Wb; try contradiction; cbn in HT; try discriminate HT;
    cbn [between is_K orb to_f to_i]; eexists; (split; [reflexivity|]); wf_side.
Qed.

(* ================================================================================================ *)
(* preservation                                                                                     *)
(* ================================================================================================ *)
Variable ftab : list fdecl.
Notation eval := (RefSem.eval pow log10 fmt_float ftab).

(* the variables of the typing environment hold well-formed values of their types, and [ld] reads their
   machine representation *)
Definition env_ok (G : tenv) (en : env) (s : state) (ld : ident -> option mval) : Prop :=
  forall x t, G x = Some t -> is_scalar_ty t = true ->
    exists b v, lookup en x = Some b /\ read_bind s b = Ok v s /\ okv t v /\ ld x = Some (repr v).

(* [F]: what is claimed when RefSem runs out of fuel (False: excluded by depth e <= fuel; True: nothing) *)
Definition agree (F : Prop) (t : ty) (s : state) (r : res value) (m : mres) : Prop :=
  match r with
  | Ok v s' => s' = s /\ okv t v /\ m = MOk (repr v)
  | Fail ELaufzeit s' => s' = s /\ m = MErr
  | Fail EFuel _ => F
  | Fail (EUndef _) _ => False
  end.

Fixpoint depth (e : expr) : nat :=
  match e with
  | EUn _ a | ECast a _ => S (depth a)
  | EBin _ a b => S (Nat.max (depth a) (depth b))
  | ETer _ a b c => S (Nat.max (depth a) (Nat.max (depth b) (depth c)))
  | _ => 1%nat
  end.

Theorem expr_preservation_gen : forall (F : Prop) G genv en s ld e t,
  env_ok G en s ld ->
  typeof G e = Some t ->
  forall fuel, F \/ (depth e <= fuel)%nat -> agree F t s (eval fuel genv en s e) (lir_eval pow log10 ld (compile_expr e)).
Proof.
  intros F G genv en s ld e. induction e; intros rt ENV HT fuel HD; cbn [typeof] in HT; try discriminate HT;
    (destruct fuel as [|fuel]; [destruct HD as [HF|HD]; [exact HF|cbn [depth] in HD; lia]|]).
  - (* EInt *) inversion HT; subst. cbn. split; [reflexivity|]. split; [wf_side|]. cbn [repr]. now rewrite wrap64_mod.
  - (* EFloat *) inversion HT; subst. cbn. split; [reflexivity|]. split; [wf_side|reflexivity].
  - (* EBool *) inversion HT; subst. cbn. split; [reflexivity|]. split; [wf_side|reflexivity].
  - (* EChar *)
    destruct ((- 2^31 <=? c) && (c <? 2^31)) eqn:R; [|discriminate HT]. inversion HT; subst.
    apply andb_true_iff in R. destruct R as [R1 R2]. apply Z.leb_le in R1. apply Z.ltb_lt in R2.
    cbn. split; [reflexivity|]. split; [split; [cbn [wf]; lia|reflexivity]|reflexivity].
  - (* EVar *)
    destruct (G x) as [tx|] eqn:GX; [|discriminate HT].
    destruct (is_scalar_ty tx) eqn:SC; [|discriminate HT]. inversion HT; subst.
    destruct (ENV x rt GX SC) as [b [v [L [R [OK LD]]]]].
    cbn [RefSem.eval compile_expr lir_eval]. rewrite L, R, LD. split; [reflexivity|]. split; [exact OK|reflexivity].
  - (* EUn *)
    destruct (typeof G e) as [ta|] eqn:TA; [|discriminate HT].
    specialize (IHe ta ENV eq_refl fuel ltac:(destruct HD as [HF|HD]; [left; exact HF|right; cbn [depth] in HD; lia])).
    cbn [RefSem.eval compile_expr lir_eval]. unfold rbind.
    destruct (eval fuel genv en s e) as [v s'|er s'].
    + destruct IHe as [-> [[Wv Tv] ->]]. subst ta.
      destruct (un_sound op v rt Wv HT) as [w [Hw [Ww Tw]]].
      rewrite Hw. cbn [lift mbind].
      assert (NL : op <> ULen) by (intros ->; destruct v; cbn in HT; discriminate HT).
      rewrite (un_lowering_correct op v w Wv NL Hw). cbn. split; [reflexivity|]. split; [split; [assumption|try assumption; try reflexivity]|reflexivity].
    + destruct er as [| g |]; cbn in IHe |- *; auto. destruct IHe as [-> ->]. split; reflexivity.
  - (* EBin *)
    destruct (typeof G e1) as [ta|] eqn:TA; [|discriminate HT].
    destruct (typeof G e2) as [tb|] eqn:TB; [|discriminate HT].
    specialize (IHe1 ta ENV eq_refl fuel ltac:(destruct HD as [HF|HD]; [left; exact HF|right; cbn [depth] in HD; lia])). specialize (IHe2 tb ENV eq_refl fuel ltac:(destruct HD as [HF|HD]; [left; exact HF|right; cbn [depth] in HD; lia])).
    assert (STRICT : forall (Hop : op <> BAnd) (Hop' : op <> BOr),
              agree F rt s (rbind (eval fuel genv en s e1) (fun v s0 => rbind (eval fuel genv en s0 e2) (fun w s1 => lift (bin_op pow log10 op v w) s1)))
                        (mbind (lir_eval pow log10 ld (compile_expr e1)) (fun x => mbind (lir_eval pow log10 ld (compile_expr e2))
                                  (fun y => of_lres (lower_bin pow log10 op x y))))).
    { intros Hop Hop'. unfold rbind.
      destruct (eval fuel genv en s e1) as [v s'|er s'].
      - destruct IHe1 as [-> [[Wv Tv] ->]]. subst ta.
        destruct (eval fuel genv en s e2) as [w s'|er s'].
        + destruct IHe2 as [-> [[Ww Tw] ->]]. subst tb. cbn [mbind].
          destruct (bin_sound op v w rt Wv Ww HT) as [[r [Hr [Wr Tr]]]|[-> Hr]].
          * rewrite Hr. cbn [lift].
            assert (SB : scalar_binop op = true) by (destruct op; cbn in HT |- *; try discriminate HT; reflexivity).
            rewrite (bin_lowering_correct pow log10 op v w r Wv Ww SB Hr). cbn. split; [reflexivity|]. split; [split; [assumption|try assumption; try reflexivity]|reflexivity].
          * rewrite Hr. cbn [lift]. rewrite (mod_zero_lowering_correct pow log10 v w Wv Ww Hr). cbn. split; reflexivity.
        + destruct er as [| g |]; cbn in IHe2 |- *; auto. destruct IHe2 as [-> ->]. split; reflexivity.
      - destruct er as [| g |]; cbn in IHe1 |- *; auto. destruct IHe1 as [-> ->]. split; reflexivity. }
    destruct op; try (apply STRICT; congruence).
    + (* und *)
      cbn [bin_ty] in HT. destruct ta, tb; try discriminate HT. inversion HT; subst.
      cbn [RefSem.eval compile_expr lir_eval]. unfold rbind.
      destruct (eval fuel genv en s e1) as [v s'|er s'].
      * destruct IHe1 as [-> [[Wv Tv] ->]]. destruct v; try discriminate Tv. cbn [repr sc_spec].
        destruct b; cbn [Bool.eqb fst].
        -- destruct (eval fuel genv en s e2) as [w s'|er s'].
           ++ destruct IHe2 as [-> [[Ww Tw] ->]]. destruct w; try discriminate Tw. cbn. split; [reflexivity|]. split; [split; [assumption|try assumption; try reflexivity]|reflexivity].
           ++ destruct er as [| g |]; cbn in IHe2 |- *; auto. destruct IHe2 as [-> ->]. split; reflexivity.
        -- cbn. split; [reflexivity|]. split; [split; [assumption|try assumption; try reflexivity]|reflexivity].
      * destruct er as [| g |]; cbn in IHe1 |- *; auto. destruct IHe1 as [-> ->]. split; reflexivity.
    + (* oder *)
      cbn [bin_ty] in HT. destruct ta, tb; try discriminate HT. inversion HT; subst.
      cbn [RefSem.eval compile_expr lir_eval]. unfold rbind.
      destruct (eval fuel genv en s e1) as [v s'|er s'].
      * destruct IHe1 as [-> [[Wv Tv] ->]]. destruct v; try discriminate Tv. cbn [repr sc_spec].
        destruct b; cbn [Bool.eqb fst].
        -- cbn. split; [reflexivity|]. split; [split; [assumption|try assumption; try reflexivity]|reflexivity].
        -- destruct (eval fuel genv en s e2) as [w s'|er s'].
           ++ destruct IHe2 as [-> [[Ww Tw] ->]]. destruct w; try discriminate Tw. cbn. split; [reflexivity|]. split; [split; [assumption|try assumption; try reflexivity]|reflexivity].
           ++ destruct er as [| g |]; cbn in IHe2 |- *; auto. destruct IHe2 as [-> ->]. split; reflexivity.
      * destruct er as [| g |]; cbn in IHe1 |- *; auto. destruct IHe1 as [-> ->]. split; reflexivity.
  - (* ETer *)
    destruct op; try discriminate HT.
    + (* Between *)
      destruct (typeof G e1) as [tx|] eqn:TX; [|discriminate HT].
      destruct (typeof G e2) as [ta|] eqn:TA; [|discriminate HT].
      destruct (typeof G e3) as [tb|] eqn:TB; [|discriminate HT].
      destruct (is_num tx && is_num ta && is_num tb) eqn:N; [|discriminate HT]. inversion HT; subst.
      specialize (IHe1 tx ENV eq_refl fuel ltac:(destruct HD as [HF|HD]; [left; exact HF|right; cbn [depth] in HD; lia])). specialize (IHe2 ta ENV eq_refl fuel ltac:(destruct HD as [HF|HD]; [left; exact HF|right; cbn [depth] in HD; lia])). specialize (IHe3 tb ENV eq_refl fuel ltac:(destruct HD as [HF|HD]; [left; exact HF|right; cbn [depth] in HD; lia])).
      cbn [RefSem.eval compile_expr lir_eval]. unfold rbind.
      destruct (eval fuel genv en s e1) as [v1 s'|er s'].
      * destruct IHe1 as [-> [[W1 T1] ->]]. subst tx.
        destruct (eval fuel genv en s e2) as [v2 s'|er s'].
        -- destruct IHe2 as [-> [[W2 T2] ->]]. subst ta.
           destruct (eval fuel genv en s e3) as [v3 s'|er s'].
           ++ destruct IHe3 as [-> [[W3 T3] ->]]. subst tb. cbn [mbind ter_op].
              destruct (between_sound v1 v2 v3 W1 W2 W3 N) as [r [Hr [Wr Tr]]].
              rewrite Hr. cbn [lift]. rewrite (between_lowering_correct v1 v2 v3 r W1 W2 W3 Hr). cbn. split; [reflexivity|]. split; [split; [assumption|try assumption; try reflexivity]|reflexivity].
           ++ destruct er as [| g |]; cbn in IHe3 |- *; auto. destruct IHe3 as [-> ->]. split; reflexivity.
        -- destruct er as [| g |]; cbn in IHe2 |- *; auto. destruct IHe2 as [-> ->]. split; reflexivity.
      * destruct er as [| g |]; cbn in IHe1 |- *; auto. destruct IHe1 as [-> ->]. split; reflexivity.
    + (* Falls *)
      destruct (typeof G e1) as [ta|] eqn:TA; [|discriminate HT].
      destruct (typeof G e2) as [tc|] eqn:TC; [|discriminate HT].
      destruct tc; try discriminate HT.
      destruct (typeof G e3) as [tb|] eqn:TB; [|discriminate HT].
      destruct (ty_eqb ta tb) eqn:EQ; [|discriminate HT]. inversion HT; subst.
      apply ty_eqb_eq in EQ. subst tb.
      specialize (IHe1 rt ENV eq_refl fuel ltac:(destruct HD as [HF|HD]; [left; exact HF|right; cbn [depth] in HD; lia])). specialize (IHe2 TBool ENV eq_refl fuel ltac:(destruct HD as [HF|HD]; [left; exact HF|right; cbn [depth] in HD; lia])). specialize (IHe3 rt ENV eq_refl fuel ltac:(destruct HD as [HF|HD]; [left; exact HF|right; cbn [depth] in HD; lia])).
      cbn [RefSem.eval compile_expr lir_eval]. unfold rbind.
      destruct (eval fuel genv en s e2) as [v s'|er s'].
      * destruct IHe2 as [-> [[Wv Tv] ->]]. destruct v; try discriminate Tv. cbn [repr].
        destruct b; assumption.
      * destruct er as [| g |]; cbn in IHe2 |- *; auto. destruct IHe2 as [-> ->]. split; reflexivity.
  - (* ECast *)
    destruct (typeof G e) as [ta|] eqn:TA; [|discriminate HT].
    specialize (IHe ta ENV eq_refl fuel ltac:(destruct HD as [HF|HD]; [left; exact HF|right; cbn [depth] in HD; lia])).
    cbn [RefSem.eval compile_expr lir_eval]. unfold rbind.
    destruct (eval fuel genv en s e) as [v s'|er s'].
    + destruct IHe as [-> [[Wv Tv] ->]]. subst ta.
      destruct (cast_sound t v rt Wv HT) as [w [Hw [Ww Tw]]].
      rewrite Hw. cbn [lift mbind].
      assert (ST : scalar_ty t = true) by (destruct t; cbn in HT |- *; try reflexivity; destruct (type_of v); discriminate HT).
      rewrite (cast_lowering_correct fmt_float t v w Wv ST Hw). cbn. split; [reflexivity|]. split; [split; [assumption|try assumption; try reflexivity]|reflexivity].
    + destruct er as [| g |]; cbn in IHe |- *; auto. destruct IHe as [-> ->]. split; reflexivity.
Qed.

(* expressions never get stuck and never run out of fuel when the fuel covers their depth *)
Theorem expr_preservation : forall G genv en s ld e t,
  env_ok G en s ld ->
  typeof G e = Some t ->
  forall fuel, (depth e <= fuel)%nat ->
  agree False t s (eval fuel genv en s e) (lir_eval pow log10 ld (compile_expr e)).
Proof. intros. eapply expr_preservation_gen; eauto. Qed.

End Sound.
