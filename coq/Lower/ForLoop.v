(* The counting-loop lowering of src/compiler/compiler.go VisitForStmt (2460-2570) for Zahl and Byte counters
   as a small-step machine over its basic blocks, and its refinement of the loop rule of RefSem
   (RefSem.loop_for_i), by induction on the number of iterations.

   Blocks (names as in the Go code):
     condBlock       incrementer <s 0 ? loopDown : loopUp             (direction from the sign of the step,
                                                                        re-tested before every iteration)
     loopUp          to := evaluate(To);  index <=s to ? forBody : leaveBlock      (inclusive bound)
     loopDown        to := evaluate(To);  index >=s to ? forBody : leaveBlock
     forBody         body; falls through / `Fahre fort` -> incrementBlock, `Verlasse die Schleife` -> leave,
                     `Gib ... zurück` -> function exit
     incrementBlock  add := index + incrementer (i64 add, wraps); Var := numericCast(add) (trunc to i8 for a
                     Byte counter); index := add; -> condBlock
   The hidden index is an i64 also for a Byte counter (indexVar is `alloca i64`), the visible variable is
   re-assigned from it.  The evaluation of To and the body are parameters (any deterministic state
   transformers), shared by the machine and by the specification. *)
From Coq Require Import ZArith Znumtheory Zdiv Bool Lia.
From DDP Require Import Lang.Syntax Lang.F64 Lang.RefSem Lower.Ops Lower.OpsProofs.
Open Scope Z_scope.

Inductive signal : Type := SigNext | SigBreak | SigRet.

Section ForLoop.
Variable St : Type.
Variable eval_to : St -> option (Z * St).       (* end value as a Zahl (a Byte end value zero-extended) *)
Variable body : St -> option (signal * St).     (* None: the body stops the program (Laufzeitfehler) *)
Variable set_var : St -> value -> St.           (* assignment to the visible counter variable *)
Variable is_byte : bool.
Variable stp : Z.                               (* the step, evaluated once before the loop *)

Definition in64 (z : Z) : Prop := min64 <= z <= max64.

(* ---- specification: the rule of RefSem.loop_for_i over these parameters ------------------------- *)
Inductive fin : Type := XLeave (s : St) | XRet (s : St) | XErr (s : St).

Definition vis (i : Z) : value := if is_byte then VB (wrap8 i) else VZ i.

Fixpoint for_spec (n : nat) (i : Z) (s : St) : option fin :=
  match n with
  | O => None
  | S n =>
    match eval_to s with
    | None => Some (XErr s)
    | Some (lim, s1) =>
      if (if stp <? 0 then i >=? lim else i <=? lim) then
        match body s1 with
        | None => Some (XErr s1)
        | Some (SigBreak, s2) => Some (XLeave s2)
        | Some (SigRet, s2) => Some (XRet s2)
        | Some (SigNext, s2) => let i' := wrap64 (i + stp) in for_spec n i' (set_var s2 (vis i'))
        end
      else Some (XLeave s1)
    end
  end.

(* ---- the lowered machine ---------------------------------------------------------------------------- *)
Inductive pc : Type := PCond | PUp | PDown | PBody | PIncr | PLeave | PRet | PErr.

Definition stp_m : Z := stp mod 2^64.
Definition to_m (s : St) : option (Z * St) :=
  match eval_to s with Some (lim, s') => Some (lim mod 2^64, s') | None => None end.
(* numericCast(add, i64 -> type of the counter) *)
Definition vis_m (add : Z) : value := if is_byte then VB (trunc64_8 add) else VZ (signed64 add).

Definition lstep (c : pc * Z * St) : pc * Z * St :=
  let '(p, idx, s) := c in
  match p with
  | PCond => if icmp64 ISlt stp_m 0 then (PDown, idx, s) else (PUp, idx, s)
  | PUp => match to_m s with
           | Some (lim, s') => if icmp64 ISle idx lim then (PBody, idx, s') else (PLeave, idx, s')
           | None => (PErr, idx, s)
           end
  | PDown => match to_m s with
             | Some (lim, s') => if icmp64 ISge idx lim then (PBody, idx, s') else (PLeave, idx, s')
             | None => (PErr, idx, s)
             end
  | PBody => match body s with
             | Some (SigNext, s') => (PIncr, idx, s')
             | Some (SigBreak, s') => (PLeave, idx, s')
             | Some (SigRet, s') => (PRet, idx, s')
             | None => (PErr, idx, s)
             end
  | PIncr => let add := add64 idx stp_m in (PCond, add, set_var s (vis_m add))
  | _ => c
  end.

Fixpoint lsteps (k : nat) (c : pc * Z * St) : pc * Z * St :=
  match k with O => c | S k => lsteps k (lstep c) end.

Definition final_of (r : fin) : pc * St :=
  match r with XLeave s => (PLeave, s) | XRet s => (PRet, s) | XErr s => (PErr, s) end.

Lemma lsteps_add : forall a b c, lsteps (a + b) c = lsteps b (lsteps a c).
Proof. induction a; intros; cbn [lsteps Nat.add]; auto. Qed.

Lemma wrap64_in64 : forall z, in64 (wrap64 z).
Proof.
  intros z. unfold in64, wrap64, min64, max64.
  assert (0 <= (z + 2^63) mod 2^64 < 2^64) by (apply Z.mod_pos_bound; lia). lia.
Qed.

Lemma vis_agree : forall i, in64 i -> vis_m (i mod 2^64) = vis i.
Proof.
  intros i Hi. unfold vis_m, vis. destruct is_byte.
  - unfold trunc64_8, wrap8. now rewrite mod_mod_256.
  - now rewrite signed64_mod.
Qed.

Hypothesis to_in_range : forall s lim s', eval_to s = Some (lim, s') -> in64 lim.

(* for_lowering_correct: whenever the loop rule ends after at most n iterations, the lowered blocks reach the
   corresponding exit with the same state. *)
Theorem for_lowering_correct : forall n i s r,
  in64 i -> in64 stp ->
  for_spec n i s = Some r ->
  exists k idx, lsteps k (PCond, i mod 2^64, s) = (fst (final_of r), idx, snd (final_of r)).
Proof.
  induction n as [|n IH]; intros i s r Hi Hs H; [discriminate H|].
  cbn [for_spec] in H.
  assert (DIR : icmp64 ISlt stp_m 0 = (stp <? 0)).
  { unfold stp_m. change 0 with (0 mod 2^64) at 1. apply icmp_slt; auto. unfold min64, max64; lia. }
  destruct (eval_to s) as [[lim s1]|] eqn:ET.
  2:{ inversion H; subst. exists 2%nat, (i mod 2^64).
      cbn [lsteps lstep]. rewrite DIR. destruct (stp <? 0); cbn [lstep]; unfold to_m; rewrite ET; reflexivity. }
  pose proof (to_in_range _ _ _ ET) as HL.
  assert (CMP : (if stp <? 0 then icmp64 ISge (i mod 2^64) (lim mod 2^64) else icmp64 ISle (i mod 2^64) (lim mod 2^64))
                = (if stp <? 0 then i >=? lim else i <=? lim)).
  { destruct (stp <? 0); [apply icmp_sge|apply icmp_sle]; auto. }
  (* two steps: condBlock, then loopUp/loopDown *)
  assert (TWO : lsteps 2 (PCond, i mod 2^64, s) =
                if (if stp <? 0 then i >=? lim else i <=? lim) then (PBody, i mod 2^64, s1) else (PLeave, i mod 2^64, s1)).
  { cbn [lsteps lstep]. rewrite DIR. rewrite <- CMP.
    destruct (stp <? 0); cbn [lstep]; unfold to_m; rewrite ET; reflexivity. }
  destruct (if stp <? 0 then i >=? lim else i <=? lim) eqn:C.
  2:{ inversion H; subst. exists 2%nat, (i mod 2^64). rewrite TWO. reflexivity. }
  destruct (body s1) as [[sig s2]|] eqn:B.
  2:{ inversion H; subst. exists 3%nat, (i mod 2^64).
      change 3%nat with (2 + 1)%nat. rewrite lsteps_add, TWO. cbn [lsteps lstep]. rewrite B. reflexivity. }
  destruct sig.
  - (* next iteration *)
    set (i' := wrap64 (i + stp)) in *.
    destruct (IH i' (set_var s2 (vis i')) r (wrap64_in64 _) Hs H) as [k [idx Hk]].
    exists (2 + (2 + k))%nat, idx.
    rewrite lsteps_add, TWO. rewrite lsteps_add.
    assert (STEP : lsteps 2 (PBody, i mod 2^64, s1) = (PCond, i' mod 2^64, set_var s2 (vis i'))).
    { cbn [lsteps lstep]. rewrite B. cbn [lstep].
      assert (A : add64 (i mod 2^64) stp_m = i' mod 2^64).
      { unfold add64, stp_m, m64, i'. rewrite wrap64_mod. now rewrite <- Zplus_mod. }
      rewrite A. rewrite vis_agree by apply wrap64_in64. reflexivity. }
    rewrite STEP. exact Hk.
  - inversion H; subst. exists 3%nat, (i mod 2^64).
    change 3%nat with (2 + 1)%nat. rewrite lsteps_add, TWO. cbn [lsteps lstep]. rewrite B. reflexivity.
  - inversion H; subst. exists 3%nat, (i mod 2^64).
    change 3%nat with (2 + 1)%nat. rewrite lsteps_add, TWO. cbn [lsteps lstep]. rewrite B. reflexivity.
Qed.

End ForLoop.

(* RefSem's rule for Zahl/Byte counters is this specification with the evaluation of the end value and the
   body block as the parameters: one unfolding of RefSem.loop_for_i, literally. *)
Lemma loop_for_i_rule : forall pow log10 fmt ftab n genv en s t a i stp to body,
  loop_for_i pow log10 fmt ftab (S n) genv en s t a i stp to body =
  rbind (eval pow log10 fmt ftab n genv en s to) (fun tv s =>
  rbind (match tv with
         | VK _ => rbind (lift (cast_to fmt TZahl tv) s) (fun z s => match z with VZ k => Ok k s | _ => bad s end)
         | _ => match to_i tv with Some k => Ok k s | None => bad s end
         end) (fun lim s =>
  if (if stp <? 0 then i >=? lim else i <=? lim) then
    rbind (exec_block pow log10 fmt ftab n genv en s body) (fun fl s =>
    match fl with
    | FBreak => Ok FNext s
    | FRet v => Ok (FRet v) s
    | _ =>
        let i' := wrap64 (i + stp) in
        rbind (write_bind s (BLoc a) (match t with TByte => VB (wrap8 i') | _ => VZ i' end)) (fun _ s =>
        loop_for_i pow log10 fmt ftab n genv en s t a i' stp to body)
    end)
  else Ok FNext s)).
Proof. reflexivity. Qed.
