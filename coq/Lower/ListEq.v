(* The generated list equality for lists of primitives (src/compiler/list_types.go 389-404): after the length
   test it calls libc memcmp on the element arrays - which src/compiler/runtime_bindings.go 64-72 declares as
   returning ddpbool (i1) - and returns `icmp eq i1 %memcmp, 0`.  The caller therefore sees only the lowest
   bit of memcmp's int result.  C only fixes the SIGN of memcmp's result; glibc returns the difference of the
   first differing bytes, which is what [memcmp_diff] models (a Section-free, executable choice; the
   refutation below holds for this libc, the partial theorem for every libc). *)
From Coq Require Import ZArith List Bool Lia.
Import ListNotations.
From DDP Require Import Lang.Syntax Lang.F64 Lang.RefSem.
Open Scope Z_scope.

(* little-endian bytes of an i64 element given by its unsigned representative *)
Definition le_bytes64 (u : Z) : list Z :=
  map (fun i => (u / 256 ^ i) mod 256) [0; 1; 2; 3; 4; 5; 6; 7].

Fixpoint memcmp_diff (a b : list Z) : Z :=
  match a, b with
  | x :: a', y :: b' => if x =? y then memcmp_diff a' b' else x - y
  | _, _ => 0
  end.

(* an i1 read from an int return value: its lowest bit *)
Definition as_i1 (r : Z) : bool := Z.odd r.

Definition lower_list_eq_zahl (a b : list Z) : bool :=
  if negb (Nat.eqb (length a) (length b)) then false
  else
    let ba := flat_map (fun z => le_bytes64 (z mod 2^64)) a in
    let bb := flat_map (fun z => le_bytes64 (z mod 2^64)) b in
    Bool.eqb (as_i1 (memcmp_diff ba bb)) false.

Lemma memcmp_diff_refl : forall a, memcmp_diff a a = 0.
Proof. induction a; cbn [memcmp_diff]; [reflexivity|]. now rewrite Z.eqb_refl. Qed.

(* what does hold: equal lists compare equal *)
Theorem list_eq_lowering_partial : forall a, lower_list_eq_zahl a a = true.
Proof.
  intros a. unfold lower_list_eq_zahl. rewrite Nat.eqb_refl. cbn [negb].
  rewrite memcmp_diff_refl. reflexivity.
Qed.

(* what the language prescribes (element-wise comparison) is violated: [1] gleich [3] *)
Theorem list_eq_lowering_refuted :
  exists a b, value_eqb (VL TZahl (map VZ a)) (VL TZahl (map VZ b)) = Some false /\
              lower_list_eq_zahl a b = true.
Proof. exists [1], [3]. split; vm_compute; reflexivity. Qed.
