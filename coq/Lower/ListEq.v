(* The generated list equality for lists of primitives (src/compiler/list_types.go 389-404): after the length
   test it calls libc memcmp on the element arrays and returns `icmp eq i32 %memcmp, 0` (memcmp is bound with
   its C return type int since 6fc9b92; at the pinned commit it was bound as returning i1, which made
   [1] gleich [3] true - found by this property's check, see KNOWN_FINDINGS `fixed:`).
   C specifies: memcmp returns 0 iff the two byte sequences are equal.  The element array of a Zahlen Liste is
   the sequence of the little-endian bytes of the 64-bit representatives. *)
From Coq Require Import ZArith Znumtheory Zdiv List Bool Lia.
Import ListNotations.
From DDP Require Import Lang.Syntax Lang.F64 Lang.RefSem Lower.Ops Lower.OpsProofs.
Open Scope Z_scope.

Fixpoint bytes (n : nat) (u : Z) : list Z :=
  match n with O => [] | S k => (u mod 256) :: bytes k (u / 256) end.

Definition le_bytes64 (u : Z) : list Z := bytes 8 u.

(* memcmp(p, q, n) == 0 *)
Definition memcmp_is_zero (a b : list Z) : bool := list_eqb Z.eqb a b.

Definition lower_list_eq_zahl (a b : list Z) : bool :=
  if negb (Nat.eqb (length a) (length b)) then false
  else memcmp_is_zero (flat_map (fun z => le_bytes64 (z mod 2^64)) a) (flat_map (fun z => le_bytes64 (z mod 2^64)) b).

Lemma list_eqb_spec : forall x y, list_eqb Z.eqb x y = true <-> x = y.
Proof.
  induction x as [|p x IH]; destruct y as [|q y]; cbn [list_eqb]; split; intros H; try reflexivity; try discriminate H.
  - apply andb_true_iff in H. destruct H as [H1 H2]. apply Z.eqb_eq in H1. apply IH in H2. now subst.
  - inversion H; subst. rewrite Z.eqb_refl. cbn. now apply IH.
Qed.

Lemma bytes_length : forall n u, length (bytes n u) = n.
Proof. induction n; intros; cbn [bytes length]; auto. Qed.

Lemma bytes_inj : forall n u w,
  0 <= u < 256 ^ Z.of_nat n -> 0 <= w < 256 ^ Z.of_nat n -> bytes n u = bytes n w -> u = w.
Proof.
  induction n as [|n IH]; intros u w Hu Hw H.
  - cbn in Hu, Hw. lia.
  - cbn [bytes] in H. inversion H as [[H0 H1]].
    rewrite Nat2Z.inj_succ, Z.pow_succ_r in Hu, Hw by lia.
    assert (E : u / 256 = w / 256).
    { apply IH; auto.
      - split; [apply Z.div_pos; lia|apply Z.div_lt_upper_bound; lia].
      - split; [apply Z.div_pos; lia|apply Z.div_lt_upper_bound; lia]. }
    rewrite (Z.div_mod u 256), (Z.div_mod w 256) by lia. rewrite E, H0. reflexivity.
Qed.

Lemma app_inj_len : forall (A : Type) (l1 l2 r1 r2 : list A),
  length l1 = length l2 -> l1 ++ r1 = l2 ++ r2 -> l1 = l2 /\ r1 = r2.
Proof.
  induction l1 as [|x l1 IH]; destruct l2 as [|y l2]; cbn; intros r1 r2 HL H; try discriminate HL.
  - auto.
  - inversion H; subst. destruct (IH l2 r1 r2) as [E1 E2]; auto. now subst.
Qed.

Definition in_range (l : list Z) : Prop := Forall (fun z => min64 <= z <= max64) l.

(* gleich on Zahlen Listen: the emitted code answers wahr exactly for equal lists (same length, equal elements) *)
Theorem list_eq_lowering_correct : forall a b,
  in_range a -> in_range b -> (lower_list_eq_zahl a b = true <-> a = b).
Proof.
  unfold lower_list_eq_zahl, memcmp_is_zero.
  induction a as [|x a IH]; destruct b as [|y b]; intros Ha Hb; cbn [length Nat.eqb negb flat_map];
    split; intros H; try reflexivity; try discriminate H.
  - destruct (Nat.eqb (length a) (length b)) eqn:L; cbn [negb] in H; [|discriminate H].
    apply list_eqb_spec in H.
    apply app_inj_len in H; [|unfold le_bytes64; now rewrite !bytes_length].
    destruct H as [H1 H2].
    inversion Ha; subst. inversion Hb; subst.
    assert (E : x mod 2^64 = y mod 2^64).
    { apply (bytes_inj 8); auto; change (256 ^ Z.of_nat 8) with (2^64); apply Z.mod_pos_bound; lia. }
    assert (x = y) by (rewrite <- (signed64_mod x), <- (signed64_mod y) by assumption; now rewrite E).
    subst. f_equal. apply (IH b); auto.
    rewrite L. cbn [negb]. now apply list_eqb_spec.
  - inversion H; subst. rewrite Nat.eqb_refl. cbn [negb]. now apply list_eqb_spec.
Qed.

(* ---- Kommazahlen Listen (f7e8a0b): not memcmp but a loop over the elements that returns false at the first pair
   with `fcmp une` (unordered or not equal), true after the loop.  Elements are binary64 bit patterns. *)
Definition fcmp_une (x y : Z) : bool := negb (f_eq x y).

Fixpoint komma_loop (a b : list Z) : bool :=
  match a, b with
  | x :: a', y :: b' => if fcmp_une x y then false else komma_loop a' b'
  | _, _ => true
  end.

Definition lower_list_eq_komma (a b : list Z) : bool :=
  if negb (Nat.eqb (length a) (length b)) then false else komma_loop a b.

(* the emitted code computes exactly RefSem's `gleich` on Kommazahlen Listen (element-wise IEEE equality:
   0,0 equals -0,0, NaN equals nothing), for all lists *)
Theorem list_eq_komma_lowering_correct : forall a b,
  value_eqb (VL TKomma (map VK a)) (VL TKomma (map VK b)) = Some (lower_list_eq_komma a b).
Proof.
  unfold lower_list_eq_komma.
  induction a as [|x a IH]; destruct b as [|y b]; try reflexivity.
  specialize (IH b). cbn [value_eqb ty_eqb map] in IH |- *.
  cbn [length Nat.eqb komma_loop]. unfold fcmp_une.
  destruct (f_eq x y); cbn [negb].
  - exact IH.
  - rewrite IH. destruct (negb (Nat.eqb (length a) (length b))); reflexivity.
Qed.
