(* C02 — the code generator's operator switches (src/compiler/compiler.go 858-1917: VisitUnaryExpr,
   VisitBinaryExpr, VisitTernaryExpr, VisitCastExpr; helpers of ir_helper.go / helper.go) and the value
   contexts (VisitVarDecl, VisitAssignStmt, VisitFuncCall, VisitReturnStmt, VisitIfStmt, VisitListLit) as
   tables over IR type classes.  Definitions only.

   What is modelled.  The compiler keeps, for the last evaluated expression, a VALUE (c.latestReturn, an
   LLVM value with its own LLVM type) and a DECLARED type (c.latestReturnType, a ddpIrType).  Every branch
   of the switches is transcribed with (a) the instructions it emits together with the LLVM types of their
   operands, (b) the declared type it sets — or does not set, in which case the type left by the operand
   that was evaluated last (the rhs) stays — and (c) the LLVM type of the value it leaves.  Branches ending
   in c.err(...) and Go run-time panics inside helpers (floatOrByteAsInt on a non-numeric type, a failed type
   assertion in getListType/toIrType, an index out of range) are `Err`: kddp reports 'Unerwarteter Fehler'.

   Operands are registers (loads of variables): the textual IR prints the type of the FIRST operand of a
   binary instruction only, so a constant second operand adopts any width; that is instruction IBinC/ICmpC.

   Each instruction is judged as the two later stages do:
     Panic  llir/llvm v0.3.6 refuses to build or print it (NewStore: operand types differ; NewTrunc:
            from narrower than to; icmp on a non-integer non-pointer; fcmp on a non-float) -> Go panic
            -> 'Unerwarteter Fehler'
     Ill    llir prints it, LLVM's parser/verifier rejects it -> 'could not parse llvm ir'
     Good   otherwise. *)
From Coq Require Import List Bool.
Import ListNotations.
From DDP Require Import Gen.OperatorEnum Lower.TcTable.

(* ddpIrType identities: the five primitives, ddpstring, a Kombination, ddpany, and the list of each *)
Inductive scal : Set := I64 | F64 | I8 | I1 | I32 | Str | Struct | Any.
Inductive irty : Set := Sc (s : scal) | Ls (s : scal).

Definition scal_eqb (a b : scal) : bool :=
  match a, b with
  | I64, I64 | F64, F64 | I8, I8 | I1, I1 | I32, I32 | Str, Str | Struct, Struct | Any, Any => true
  | _, _ => false
  end.
Definition irty_eqb (a b : irty) : bool :=
  match a, b with
  | Sc x, Sc y => scal_eqb x y
  | Ls x, Ls y => scal_eqb x y
  | _, _ => false
  end.

(* compiler.toIrType (TrueUnderlying first: alias and definition of Zahl are i64) *)
Definition ir_base (b : base) : scal :=
  match b with
  | BZahl | BDef => I64 | BKomma => F64 | BByte => I8 | BBool => I1 | BChar => I32
  | BText => Str | BStruct => Struct | BAny => Any
  end.
Definition ir (t : ty) : irty :=
  match t with TB b => Sc (ir_base b) | TL b => Ls (ir_base b) | TAlias => Sc I64 end.

Definition i64 := Sc I64.
Definition f64 := Sc F64.
Definition i8 := Sc I8.
Definition i1 := Sc I1.
Definition i32 := Sc I32.
Definition str := Sc Str.
Definition any := Sc Any.

(* ddpIrType.IsPrimitive *)
Definition prim (t : irty) : bool :=
  match t with Sc (I64 | F64 | I8 | I1 | I32) => true | _ => false end.
(* LLVM integer type of a value of this class and its width; non-primitives are handled by pointer *)
Definition int_width (t : irty) : option nat :=
  match t with Sc I64 => Some 64 | Sc I32 => Some 32 | Sc I8 => Some 8 | Sc I1 => Some 1 | _ => None end.
Definition is_int (t : irty) : bool := match int_width t with Some _ => true | None => false end.
Definition is_fp (t : irty) : bool := irty_eqb t f64.
Definition is_ptr (t : irty) : bool := negb (prim t).

Inductive conv : Set := Trunc | ZExt | SExt | FPToSI | FPToUI | SIToFP | UIToFP.

Inductive instr : Set :=
| IBin (x y : irty)          (* add sub mul and or xor shl lshr srem urem  <x> %a, %b *)
| IBinC (x : irty)           (* ... with a constant as one operand *)
| IFBin (x y : irty)         (* fadd fsub fmul fdiv *)
| IFBinC (x : irty)
| IFNeg (x : irty)
| ICmp (x y : irty)          (* icmp *)
| ICmpC (x : irty)
| IFCmp (x y : irty)
| IFCmpC (x : irty)
| IConv (k : conv) (from to : irty)
| ICall (params args : list irty)  (* non-primitive classes are passed by pointer to the class's struct *)
| IPhi (x y : irty)
| ISelect (c x y : irty)     (* select <c> %cond, <x> a, <y> b : both value types are printed, also for constants *)
| ICondBr (x : irty)
| IStore (v slot : irty)     (* store <v> %val, <slot>* %p *)
| ILoad (t p : irty)         (* load <t>, <p>* %p *)
| IRet (v fn : irty).        (* ret <v> %val in a function whose IR return type is fn's (void for non-primitives) *)

Inductive judge : Set := Good | Ill | Panic.

Definition ill_unless (b : bool) : judge := if b then Good else Ill.

Fixpoint all_eq (ps as_ : list irty) : bool :=
  match ps, as_ with
  | [], [] => true
  | p :: ps', a :: as' => irty_eqb p a && all_eq ps' as'
  | _, _ => false
  end.

Definition judge_conv (k : conv) (from to : irty) : judge :=
  match k with
  | Trunc =>
      match int_width from, int_width to with
      | Some wf, Some wt => if Nat.ltb wf wt then Panic else if Nat.ltb wt wf then Good else Ill
      | Some _, None => Panic
      | None, _ => Ill
      end
  | ZExt | SExt =>
      match int_width from, int_width to with
      | Some wf, Some wt => ill_unless (Nat.ltb wf wt)
      | _, _ => Ill
      end
  | FPToSI | FPToUI => ill_unless (is_fp from && is_int to)
  | SIToFP | UIToFP => ill_unless (is_int from && is_fp to)
  end.

Definition judge_instr (i : instr) : judge :=
  match i with
  | IBin x y => ill_unless (is_int x && irty_eqb x y)
  | IBinC x => ill_unless (is_int x)
  | IFBin x y => ill_unless (is_fp x && irty_eqb x y)
  | IFBinC x | IFNeg x => ill_unless (is_fp x)
  | ICmp x y => if is_int x || is_ptr x then ill_unless (irty_eqb x y) else Panic
  | ICmpC x => if is_int x || is_ptr x then ill_unless (is_int x) else Panic
  | IFCmp x y => if is_fp x then ill_unless (irty_eqb x y) else Panic
  | IFCmpC x => if is_fp x then Good else Panic
  | IConv k f t => judge_conv k f t
  | ICall ps as_ => ill_unless (all_eq ps as_)
  | IPhi x y => ill_unless (irty_eqb x y)
  | ISelect c x y => ill_unless (irty_eqb c i1 && irty_eqb x y)
  | ICondBr x => ill_unless (irty_eqb x i1)
  | IStore v s => if irty_eqb v s then Good else Panic
  | ILoad t p => ill_unless (irty_eqb t p)
  | IRet v fn => ill_unless (prim fn && irty_eqb v fn)
  end.

(* result of lowering one expression / statement *)
Inductive lres : Set :=
| Err                                         (* c.err(...) or a Go panic while generating *)
| Ok (d : irty) (v : irty) (code : list instr). (* declared type, LLVM type of the value, emitted code *)

Definition bind (r : lres) (k : irty -> irty -> list instr -> lres) : lres :=
  match r with Err => Err | Ok d v c => k d v c end.

(* ---- ir_helper.go ---------------------------------------------------------------------------- *)
(* the saturating conversions are calls of declared intrinsics (compiler.go setup): (parameter types, result type) *)
Definition fptosi_sat : list irty * irty := ([f64], i64).     (* @llvm.fptosi.sat.i64.f64 *)
Definition fptoui_sat : list irty * irty := ([f64], i8).      (* @llvm.fptoui.sat.i8.f64 *)

(* the helpers switch on the DECLARED type `from` and convert the VALUE (LLVM type v) *)
Definition float_or_byte_as_int (v from : irty) : option (irty * list instr) :=
  match from with
  | Sc I64 => Some (v, [])
  | Sc F64 => Some (snd fptosi_sat, [ICall (fst fptosi_sat) [v]])
  | Sc I8 => Some (i64, [IConv ZExt v i64])
  | _ => None
  end.
Definition int_or_byte_as_float (v from : irty) : option (irty * list instr) :=
  match from with
  | Sc I64 => Some (f64, [IConv SIToFP v f64])
  | Sc F64 => Some (v, [])
  | Sc I8 => Some (f64, [IConv UIToFP v f64])
  | _ => None
  end.
Definition int_or_float_as_byte (v from : irty) : option (irty * list instr) :=
  match from with
  | Sc I64 => Some (i8, [IConv Trunc v i8])
  | Sc F64 => Some (snd fptoui_sat, [ICall (fst fptoui_sat) [v]])
  | Sc I8 => Some (v, [])
  | _ => None
  end.
Definition numeric_cast (v from to : irty) : option (irty * list instr) :=
  match to with
  | Sc I64 => float_or_byte_as_int v from
  | Sc F64 => int_or_byte_as_float v from
  | Sc I8 => int_or_float_as_byte v from
  | _ => None
  end.

(* operands of the cells are variables: declared type = LLVM type *)
Definition foba (t : irty) := float_or_byte_as_int t t.
Definition ioba (t : irty) := int_or_byte_as_float t t.

(* getListType: the seven scalar cases, default: type assertion to *ddpIrStructType *)
Definition get_list_type (t : irty) : option irty :=
  match t with Sc s => Some (Ls s) | Ls _ => None end.

(* ---- VisitUnaryExpr ---------------------------------------------------------------------------- *)
Definition lower_unop (op : unop) (t : irty) : lres :=
  match op with
  | UN_ABS =>
      match t with
      | Sc F64 => Ok f64 f64 [IFCmpC t; ICondBr i1; IFBinC t; IPhi t t]
      | Sc I64 => Ok i64 i64 [ICmpC t; ICondBr i1; IBinC t; IPhi t t]
      | Sc I8 => Ok i64 i64 [IConv ZExt t i64]   (* a byte is unsigned: only widened (typed Zahl by the checker) *)
      | _ => Err
      end
  | UN_NEGATE =>
      match t with
      | Sc F64 => Ok f64 f64 [IFNeg t]
      | Sc I64 => Ok i64 i64 [IBinC t]
      | Sc I8 => Ok i64 i64 [IConv ZExt t i64; IBinC i64]
      | _ => Err
      end
  | UN_NOT => Ok i1 t [IBinC t]
  | UN_LOGIC_NOT =>
      match t with
      | Sc I64 => Ok i64 t [IBinC t]
      | Sc I8 => Ok i8 t [IBinC t]
      | _ => Ok t t []                          (* switch without default *)
      end
  | UN_LEN =>
      match t with
      | Sc Str => Ok i64 i64 [ICall [str] [t]]
      | Ls _ => Ok i64 i64 []
      | _ => Err
      end
  end.

(* ---- VisitBinaryExpr ---------------------------------------------------------------------------- *)
(* plus / minus / mal share the switch structure; `set_*` say whether the branch assigns latestReturnType
   (when it does not, the declared type stays the one of the rhs, evaluated last) *)
Definition arith (l r : irty) (set_ii set_bf set_bb : bool) : lres :=
  let keep (set : bool) (d : irty) := if set then d else r in
  match l, r with
  | Sc I64, Sc I64 => Ok (keep set_ii i64) i64 [IBin l r]
  | Sc I64, Sc F64 => Ok f64 f64 [IConv SIToFP l f64; IFBin f64 r]
  | Sc I64, Sc I8 => Ok i64 i64 [IConv ZExt r i64; IBin l i64]
  | Sc F64, Sc I64 => Ok f64 f64 [IConv SIToFP r f64; IFBin l f64]
  | Sc F64, Sc F64 => Ok f64 f64 [IFBin l r]
  | Sc F64, Sc I8 => Ok f64 f64 [IConv UIToFP r f64; IFBin l f64]
  | Sc I8, Sc I64 => Ok i64 i64 [IConv ZExt l i64; IBin i64 r]
  | Sc I8, Sc F64 => Ok (keep set_bf f64) f64 [IConv UIToFP l f64; IFBin f64 r]
  | Sc I8, Sc I8 => Ok (keep set_bb i8) i8 [IBin l r]
  | _, _ => Err
  end.

Definition to_fp (t : irty) : option (list instr) :=
  match t with
  | Sc I64 => Some [IConv SIToFP t f64]
  | Sc I8 => Some [IConv UIToFP t f64]
  | Sc F64 => Some []
  | _ => None
  end.

(* the four ordered comparisons: outer switch WITHOUT default, inner switches with c.err defaults *)
Definition compare (l r : irty) : lres :=
  match l with
  | Sc I64 =>
      match r with
      | Sc I64 => Ok i1 i1 [ICmp l r]
      | Sc I8 => Ok i1 i1 [IConv ZExt r i64; ICmp l i64]
      | Sc F64 => Ok i1 i1 [IConv SIToFP l f64; IFCmp f64 r]
      | _ => Err
      end
  | Sc F64 =>
      match r with
      | Sc I64 => Ok i1 i1 [IConv SIToFP r f64; IFCmp l f64]
      | Sc F64 => Ok i1 i1 [IFCmp l r]
      | Sc I8 => Ok i1 i1 [IConv UIToFP r f64; IFCmp l f64]
      | _ => Err
      end
  | Sc I8 =>
      match r with
      | Sc I64 => Ok i1 i1 [IConv ZExt l i64; ICmp i64 r]
      | Sc F64 => Ok i1 i1 [IConv UIToFP l f64; IFCmp f64 r]
      | Sc I8 => Ok i1 i1 [ICmp l r]
      | _ => Err
      end
  | _ => Ok i1 r []          (* nothing emitted: the value of the rhs stays, declared Wahrheitswert *)
  end.

(* helper.go compare_values(lhs, rhs, typ = lhsTyp) *)
Definition compare_values (l r : irty) : list instr :=
  match l with
  | Sc (I64 | I8 | I1 | I32) => [ICmp l r]
  | Sc F64 => [IFCmp l r]
  | _ => [ICall [l; l] [l; r]]
  end.

Definition concat (l r : irty) : lres :=
  let l_list := match l with Ls _ => true | _ => false end in
  let r_list := match r with Ls _ => true | _ => false end in
  let result_ty :=
    if l_list then Some l else if r_list then Some r
    else if irty_eqb l str || irty_eqb r str then Some str else get_list_type l in
  match result_ty with
  | None => Err
  | Some res =>
      let params : option (list irty) :=
        if irty_eqb l str && irty_eqb r str then Some [str; str; str]
        else if irty_eqb l str && irty_eqb r i32 then Some [str; str; i32]
        else if irty_eqb l i32 && irty_eqb r str then Some [str; i32; str]
        else match l, r with
             | Ls a, Ls _ => Some [l; l; l]                    (* list_list_concat of the lhs list type *)
             | Ls a, Sc _ => Some [l; l; Sc a]                 (* list_scalar_concat *)
             | Sc a, Sc _ => Some [Ls a; l; l]                 (* scalar_scalar_concat of getListType(lhs) *)
             | Sc _, Ls b => Some [r; Sc b; r]                 (* scalar_list_concat of the rhs list type *)
             end in
      match params with
      | None => Err
      | Some ps => Ok res res [ICall ps [res; l; r]]
      end
  end.

Definition slice_call (l : irty) (i1 i2 : irty) : lres :=
  match l with
  | Sc Str | Ls _ => Ok l l [ICall [l; l; i64; i64] [l; l; i1; i2]]
  | _ => Err
  end.

Definition lower_binop (op : binop) (l r : irty) : lres :=
  match op with
  | BIN_AND => Ok i1 r [ICondBr l; IPhi r l]
  | BIN_OR => Ok i1 l [ICondBr l; IPhi l r]
  | BIN_FIELD_ACCESS => Err              (* lhs is not a field name: see lower_field *)
  | BIN_XOR => Ok i1 l [IBin l r]
  | BIN_CONCAT => concat l r
  | BIN_PLUS => arith l r true false true
  | BIN_MINUS => arith l r true true true
  | BIN_MULT => arith l r false true false
  | BIN_DIV =>
      match to_fp l, to_fp r with
      | Some cl, Some cr => Ok f64 f64 (cl ++ cr ++ [IFBin f64 f64])
      | _, _ => Err
      end
  | BIN_INDEX =>
      match l with
      | Sc Str =>
          match foba r with
          | Some (ri, c) => Ok i32 i32 (c ++ [ICall [str; i64] [l; ri]])
          | None => Err
          end
      | Ls e =>
          match foba r with
          | Some (ri, c) => Ok (Sc e) (Sc e) (c ++ [IBinC ri; ICmp ri i64; ICmpC ri; IBin i1 i1; ICondBr i1])
          | None => Err
          end
      | _ => Err
      end
  | BIN_SLICE_FROM | BIN_SLICE_TO =>
      match foba r with
      | Some (ri, c) => bind (slice_call l ri i64) (fun d v code => Ok d v (c ++ code))
      | None => Err
      end
  | BIN_POW | BIN_LOG =>
      match to_fp l, to_fp r with
      | Some cl, Some cr => Ok f64 f64 (cl ++ cr ++ [ICall [f64; f64] [f64; f64]])
      | _, _ => Err
      end
  | BIN_LOGIC_AND | BIN_LOGIC_OR | BIN_LOGIC_XOR =>
      (* two bytes stay a byte, otherwise byte operands are zero-extended *)
      if irty_eqb l i8 && irty_eqb r i8 then Ok i8 i8 [IBin l r]
      else match foba l, foba r with
           | Some (li, cl), Some (ri, cr) => Ok i64 i64 (cl ++ cr ++ [IBin li ri])
           | _, _ => Err
           end
  | BIN_MOD =>
      (* divisor = 0 -> runtime error; Byte with Byte: urem; otherwise widened, divisor -1 replaced by 1, srem *)
      if irty_eqb l i8 && irty_eqb r i8 then Ok i8 i8 [ICmpC r; ICondBr i1; IBin l r]
      else match foba l, foba r with
           | Some (li, cl), Some (ri, cr) =>
               Ok i64 i64 (cl ++ cr ++ [ICmpC ri; ICondBr i1; ICmpC ri; ISelect i1 i64 ri; IBin li i64])
           | _, _ => Err
           end
  | BIN_LEFT_SHIFT | BIN_RIGHT_SHIFT =>
      (* the count is cast to the type of the shifted value: numericCast(rhs, rhsTyp, lhsTyp) *)
      (* shl/lshr, then `select (icmp ult count, width), shifted, 0` with an i8 zero for a Byte and an i64 zero otherwise *)
      match numeric_cast r r l with
      | Some (rv, c) =>
          let no_bits := if irty_eqb l i8 then i8 else i64 in
          Ok l l (c ++ [IBin l rv; ICmpC rv; ISelect i1 l no_bits])
      | None => Err
      end
  | BIN_EQUAL => Ok i1 i1 (compare_values l r)
  | BIN_UNEQUAL => Ok i1 i1 (compare_values l r ++ [IBinC i1])
  | BIN_LESS | BIN_LESS_EQ | BIN_GREATER | BIN_GREATER_EQ => compare l r
  end.

Definition lower_field (f : field) (r : irty) : lres :=
  match r with
  | Sc Struct => Ok (ir (field_ty f)) (ir (field_ty f)) []
  | _ => Err
  end.

(* ---- VisitTernaryExpr --------------------------------------------------------------------------- *)
Definition between_cmp (t : irty) (fp : bool) : list instr :=
  if fp then [IFCmp t t; IFCmp t t; IBin i1 i1; IFCmp t t; IFCmp t t; IBin i1 i1; IBin i1 i1]
  else [ICmp t t; ICmp t t; IBin i1 i1; ICmp t t; ICmp t t; IBin i1 i1; IBin i1 i1].

Definition lower_terop (op : terop) (l m r : irty) : lres :=
  match op with
  | TER_FALLS => Ok l l [ICondBr m; IPhi l r]
  | TER_SLICE =>
      match foba m, foba r with
      | Some (mi, cm), Some (ri, cr) => bind (slice_call l mi ri) (fun d v code => Ok d v (cm ++ cr ++ code))
      | _, _ => Err
      end
  | TER_BETWEEN =>
      if irty_eqb l f64 || irty_eqb r f64 || irty_eqb m f64 then
        match ioba l, ioba m, ioba r with
        | Some (_, cl), Some (_, cm), Some (_, cr) => Ok i1 i1 (cl ++ cm ++ cr ++ between_cmp f64 true)
        | _, _, _ => Err
        end
      else if irty_eqb l i8 && irty_eqb r i8 && irty_eqb m i8 then Ok i1 i1 (between_cmp i8 false)
      else
        match foba l, foba m, foba r with
        | Some (_, cl), Some (_, cm), Some (_, cr) => Ok i1 i1 (cl ++ cm ++ cr ++ between_cmp i64 false)
        | _, _, _ => Err
        end
  end.

(* ---- VisitCastExpr: `l als target` -------------------------------------------------------------- *)
(* ddptypes.TrueUnderlying of the target: alias and definition of Zahl become Zahl; a list keeps its
   (possibly defined) element type *)
Definition true_underlying (t : ty) : ty :=
  match t with TAlias | TB BDef => TB BZahl | _ => t end.

Definition lower_cast (l : irty) (target : ty) : lres :=
  let tt := true_underlying target in
  let d := ir tt in
  (* claimOrCopy / deepCopyInto / load of a value handled by pointer: both sides must be the same class *)
  let from_any := if irty_eqb l any then Some (Ok d d [ICmp i64 i64; ICondBr i1]) else None in
  match tt with
  | TL _ =>
      match from_any with
      | Some r => r
      | None =>
          match get_list_type l with
          | None => Err
          | Some lt => Ok d lt [ICall [lt; i64] [lt; i64]; if prim l then IStore l l else ICall [l; l] [l; l]]
          end
      end
  | TAlias => Err  (* unreachable: true_underlying removed it *)
  | TB b =>
      match b with
      | BZahl | BDef =>
          match l with
          | Sc (I64 | F64 | I8) =>
              match numeric_cast l l i64 with Some (v, c) => Ok d v c | None => Err end
          | Sc I1 => Ok d i64 [ICmpC l; IConv ZExt i1 i64]
          | Sc I32 => Ok d i64 [IConv SExt l i64]
          | Sc Str => Ok d i64 [ICall [str] [l]]
          | Sc Any => Ok d i64 [ICmp i64 i64; ICondBr i1]
          | _ => Err
          end
      | BKomma =>
          match l with
          | Sc (I64 | F64 | I8) =>
              match numeric_cast l l f64 with Some (v, c) => Ok d v c | None => Err end
          | Sc Str => Ok d f64 [ICall [str] [l]]
          | Sc Any => Ok d f64 [ICmp i64 i64; ICondBr i1]
          | _ => Err
          end
      | BByte =>
          match l with
          | Sc (I64 | F64 | I8) =>
              match numeric_cast l l i8 with Some (v, c) => Ok d v c | None => Err end
          | Sc I1 => Ok d i8 [ICmpC l; IConv ZExt i1 i8]
          | Sc I32 => Ok d i8 [IConv Trunc l i8]
          | Sc Str => Ok d i8 [ICall [str] [l]; IConv Trunc i64 i8]
          | Sc Any => Ok d i8 [ICmp i64 i64; ICondBr i1]
          | _ => Err
          end
      | BBool =>
          match l with
          | Sc I64 | Sc I8 => Ok d i1 [ICmpC l]
          | Sc I1 => Ok d l []
          | Sc Any => Ok d i1 [ICmp i64 i64; ICondBr i1]
          | _ => Err
          end
      | BChar =>
          match l with
          | Sc I64 => Ok d i32 [IConv Trunc l i32]
          | Sc I8 => Ok d i32 [IConv ZExt l i32]
          | Sc I32 => Ok d l []
          | Sc Any => Ok d i32 [ICmp i64 i64; ICondBr i1]
          | _ => Err
          end
      | BText =>
          match l with
          | Sc Any => Ok d d [ICmp i64 i64; ICondBr i1]
          | Sc Str => Ok str l []
          | Sc (I64 | F64 | I8 | I1 | I32) => Ok d str [ICall [str; l] [str; l]]
          | _ => Err
          end
      | BAny =>
          match l with
          | Sc Any => Ok d l []
          | _ => Ok d any [if prim l then IStore l l else ICall [l; l] [l; l]]
          end
      | BStruct =>
          match from_any with
          | Some r => r
          | None => Ok d l []           (* "this is now valid because of typedefs/typealiases": nothing emitted *)
          end
      end
  end.

(* ---- value contexts ----------------------------------------------------------------------------- *)
(* claimOrCopy(dest : slot*, val : v, valTyp) *)
Definition claim_or_copy (slot v valty : irty) : list instr :=
  if prim valty then [IStore v slot] else [ICall [valty; valty] [slot; v]].

(* castNonAnyToAny(val : v, typ = d) *)
Definition cast_to_any (d v : irty) : lres :=
  if irty_eqb d any then Err else Ok any any (claim_or_copy d v d).

(* compiler.toIrType(ListType{elem}) in VisitListLit: a list of lists has no IR type (failed type assertion) *)
Definition list_lit_type (t : ty) : option irty :=
  match t with TL _ => None | _ => get_list_type (ir t) end.

(* code of the context around an expression of checker type t that was lowered to (d, v) *)
Definition lower_ctx (c : ctx) (t : ty) (d v : irty) : lres :=
  match c with
  | CInitAny =>
      if irty_eqb d any then Ok any any (claim_or_copy any v any)
      else bind (cast_to_any d v) (fun d' v' code => Ok d' v' (code ++ claim_or_copy any v' any))
  | CInit dt =>
      let decl := ir dt in
      let cast := if is_numeric dt && is_numeric t
                  then match numeric_cast v d decl with Some (v', c) => Ok decl v' c | None => Err end
                  else Ok d v [] in
      bind cast (fun d1 v1 c1 =>
        let toany := if is_any dt && negb (irty_eqb d1 any)
                     then bind (cast_to_any d1 v1) (fun d2 v2 c2 => Ok d2 v2 (c1 ++ c2)) else Ok d1 v1 c1 in
        bind toany (fun d2 v2 c2 => Ok decl v2 (c2 ++ claim_or_copy decl v2 decl)))
  | CAssign dt =>
      let decl := ir dt in
      let cast := if is_numeric dt && is_numeric t
                  then match numeric_cast v d decl with Some (v', c) => Ok decl v' c | None => Err end
                  else Ok d v [] in
      bind cast (fun d1 v1 c1 =>
        let toany := if irty_eqb decl any && negb (irty_eqb d1 any)
                     then bind (cast_to_any d1 v1) (fun d2 v2 c2 => Ok d2 v2 (c1 ++ c2)) else Ok d1 v1 c1 in
        bind toany (fun d2 v2 c2 => Ok decl v2 (c2 ++ claim_or_copy decl v2 d2)))
  | CArg dt =>
      let p := ir dt in
      if prim d then Ok p v [ICall [p] [v]]
      else Ok p v (claim_or_copy d v d ++ [ICall [p] [d]])
  | CReturn dt =>
      let fn := ir dt in
      if prim d then
        if is_any dt && negb (irty_eqb d any)
        then bind (cast_to_any d v) (fun d2 v2 c2 => Ok fn v2 (c2 ++ [ILoad d2 v2; IStore d2 fn] ++ claim_or_copy fn v2 d2))
        else Ok fn v [IRet v fn]
      else
        let toany := if is_any dt && negb (irty_eqb d any) then cast_to_any d v else Ok d v [] in
        bind toany (fun d2 v2 c2 =>
          if prim fn then Err            (* c.cf.Params[0] of a function without return parameter *)
          else Ok fn v2 (c2 ++ [ILoad d2 v2; IStore d2 fn] ++ claim_or_copy fn v2 d2))
  | CCond => Ok i1 v [ICondBr v]
  | CElem =>
      match list_lit_type t with
      | None => Err
      | Some lt =>
          let e := ir t in
          bind (cast_to_any lt lt) (fun d2 v2 c2 => Ok d2 v2 (claim_or_copy e v d ++ c2 ++ claim_or_copy any v2 any))
      end
  end.

(* ---- the two later stages ----------------------------------------------------------------------- *)
Inductive verdict : Set :=
| VReject      (* the frontend reports an error diagnostic *)
| VOk          (* kddp emits an object file *)
| VInternal    (* 'Unerwarteter Fehler' *)
| VLlvm.       (* LLVM refuses the emitted IR *)

Fixpoint any_judged (j : judge) (c : list instr) : bool :=
  match c with
  | [] => false
  | i :: c' => (match judge_instr i, j with Ill, Ill | Panic, Panic => true | _, _ => false end) || any_judged j c'
  end.

Definition code_verdict (c : list instr) : verdict :=
  if any_judged Panic c then VInternal else if any_judged Ill c then VLlvm else VOk.

Definition ir_well_typed (r : lres) : bool :=
  match r with
  | Err => false
  | Ok d v c => irty_eqb d v && match code_verdict c with VOk => true | _ => false end
  end.

Definition ir_type (r : lres) : option irty := match r with Err => None | Ok d _ _ => Some d end.

(* ---- statement-level operand positions ------------------------------------------------------ *)
Inductive sres : Set := SErr | SOk (code : list instr).

Definition code_of (r : lres) (k : list instr -> sres) : sres :=
  match r with Err => SErr | Ok _ _ c => k c end.

(* ddptypes.DeepEqual(counter type, KOMMAZAHL): through aliases and definitions; the only definition is of Zahl *)
Definition float_counter (cnt : ty) : bool := equal cnt komma.

(* VisitForStmt; `step_const`: the step is the literal the parser supplied (a constant, no conversion problem arises
   from its LLVM type: it is an i64 resp. double constant) *)
Definition lower_for (cnt from to step : ty) : sres :=
  let var := ir cnt in
  let idx := if float_counter cnt then f64 else i64 in
  let cmp (x y : irty) : option (list instr) :=
    if float_counter cnt then
      match int_or_byte_as_float x x, int_or_byte_as_float y y with
      | Some (xv, cx), Some (yv, cy) => Some (cx ++ cy ++ [IFCmp xv yv])
      | _, _ => None
      end
    else
      match float_or_byte_as_int x x, float_or_byte_as_int y y with
      | Some (xv, cx), Some (yv, cy) => Some (cx ++ cy ++ [ICmp xv yv])
      | _, _ => None
      end in
  code_of (lower_ctx (CInit cnt) from (ir from) (ir from)) (fun c_init =>
    match numeric_cast var var idx with
    | None => SErr
    | Some (v0, c0) =>
        let incr : option (list instr) :=
          if float_counter cnt then
            match int_or_byte_as_float (ir step) (ir step) with
            | Some (sv, cs) => Some (cs ++ [IFBin idx sv; IStore f64 var; IStore f64 idx])
            | None => None
            end
          else
            match float_or_byte_as_int (ir step) (ir step), numeric_cast i64 i64 var with
            | Some (sv, cs), Some (bv, cb) => Some (cs ++ [IBin idx sv] ++ cb ++ [IStore bv var; IStore i64 idx])
            | _, _ => None
            end in
        match incr, cmp (ir step) i64, cmp idx (ir to) with
        | Some ci, Some csign, Some cto =>
            SOk (c_init ++ c0 ++ [IStore v0 idx] ++ ci ++ csign ++ [ICondBr i1] ++ cto ++ [ICondBr i1] ++ cto ++ [ICondBr i1])
        | _, _, _ => SErr
        end
    end).

Definition lower_stmt (s : stmt) : sres :=
  match s with
  | SRepeat n =>
      match foba (ir n) with
      | Some (nv, c) => SOk (c ++ [IStore nv i64; IBinC i64; ICmpC i64; ICondBr i1])
      | None => SErr
      end
  | SWhile c | SIf c => SOk [ICondBr (ir c)]
  | SListCount n v =>
      let decl := ir (count_decl v) in
      match list_lit_type v, foba (ir n) with
      | Some lt, Some (nv, cn) =>
          let e := ir v in
          SOk (cn ++ [ICall [lt; i64] [lt; nv]; ICmp i64 i64; ICondBr i1]
                  ++ (if prim e then [IStore e e] else [ICall [e; e] [e; e]])
                  ++ claim_or_copy decl lt decl)
      | _, _ => SErr
      end
  | SListLit a b =>
      match list_lit_type a with
      | None => SErr
      | Some lt =>
          let e := ir a in
          code_of (cast_to_any lt lt) (fun c2 =>
            SOk ([ICall [lt; i64] [lt; i64]] ++ claim_or_copy e (ir a) (ir a) ++ claim_or_copy e (ir b) (ir b)
                   ++ c2 ++ claim_or_copy any any any))
      end
  | SIndexAssign cont idx val =>
      match ir cont with
      | Ls e =>
          match foba (ir idx) with
          | None => SErr
          | Some (iv, ci) =>
              (* the target is the element: the rest is an assignment to a variable of the element type *)
              code_of (lower_ctx (CAssign (elem_type cont)) val (ir val) (ir val)) (fun ca =>
                SOk (ci ++ [IBinC iv; ICmp iv i64; ICmpC iv; IBin i1 i1; ICondBr i1] ++ ca))
          end
      | Sc Str =>
          match foba (ir idx) with
          | None => SErr
          | Some (iv, ci) => SOk (ci ++ [ICall [str; i32; i64] [str; ir val; iv]])
          end
      | _ => SErr
      end
  | SFor cnt from to => lower_for cnt from to (default_step cnt)
  | SForStep cnt from to step => lower_for cnt from to step
  | SForRange el inn =>
      let lv := ir el in
      match ir inn with
      | Sc Str => SOk [ICmpC i64; ICondBr i1; ICmp i64 i64; ICondBr i1; ICall [str; i32] [str; lv]; ICmpC i64; ICondBr i1]
      | Ls e =>
          SOk ([ICmpC i64; ICondBr i1; ICmp i64 i64; ICondBr i1]
                 ++ (if prim (Sc e) then [IStore (Sc e) lv] else [ICall [Sc e; Sc e] [lv; Sc e]]))
      | _ => SErr
      end
  end.

Definition stmt_well_typed (r : sres) : bool :=
  match r with SErr => false | SOk c => match code_verdict c with VOk => true | _ => false end end.

Definition verdict_stmt (s : stmt) : verdict :=
  if negb (tc_stmt s) then VReject
  else match lower_stmt s with SErr => VInternal | SOk c => code_verdict c end.
